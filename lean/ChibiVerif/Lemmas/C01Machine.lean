/-
C01: the frame with side effects — layout (`Lay`), what an evaluation may change (`Unch`), the store in the frame (`Holds`),
byte-level congruence of objects, and the judgment `EvX` with its combinators (one per node form of `compileX`).
-/
import ChibiVerif.Lemmas.C01Effects

namespace ChibiVerif.C01
open ChibiVerif.X86 ChibiVerif.Asm ChibiVerif.Spec.IntSpec ChibiVerif.Gen.CommonType ChibiVerif.C01Codegen

/-! ### layout of the frame -/

/-- `[a, a+n)` and `[b, b+m)` do not overlap -/
def sep (a : BitVec 64) (n : Nat) (b : BitVec 64) (m : Nat) : Prop := a.toNat + n ≤ b.toNat ∨ b.toNat + m ≤ a.toNat

/-- `d(%rbp)` -/
def addrOf (bp : BitVec 64) (d : Int) : BitVec 64 := bp + BitVec.ofInt 64 d

theorem ea_rbp (m : State) (d : Int) : m.ea d .rbp = addrOf (m.get .rbp) d := rfl

/-- the frame: every variable and every hidden temporary (8 bytes) lies at or above `B` (`%rsp ≤ B`: the expression
    stack is below), no address wraps around, and the objects are pairwise disjoint (variable `i` occupies `size` bytes) -/
structure Lay (tys : List ITy) (off toff : Nat → Int) (K B : Nat) (bp : BitVec 64) : Prop where
  var_lo : ∀ i t, tys[i]? = some t → B ≤ (addrOf bp (off i)).toNat ∧ (addrOf bp (off i)).toNat + 8 ≤ 2 ^ 64
  tmp_lo : ∀ k, k < K → B ≤ (addrOf bp (toff k)).toNat ∧ (addrOf bp (toff k)).toNat + 8 ≤ 2 ^ 64
  var_var : ∀ i j ti tj, i ≠ j → tys[i]? = some ti → tys[j]? = some tj →
    sep (addrOf bp (off i)) ti.size (addrOf bp (off j)) tj.size
  var_tmp : ∀ i ti k, tys[i]? = some ti → k < K → sep (addrOf bp (off i)) ti.size (addrOf bp (toff k)) 8
  tmp_tmp : ∀ k l, k < K → l < K → k ≠ l → sep (addrOf bp (toff k)) 8 (addrOf bp (toff l)) 8

/-- the byte at `a` belongs to a variable in `W` -/
def inVar (tys : List ITy) (off : Nat → Int) (bp : BitVec 64) (W : List Nat) (a : BitVec 64) : Prop :=
  ∃ i t, i ∈ W ∧ tys[i]? = some t ∧ (addrOf bp (off i)).toNat ≤ a.toNat ∧ a.toNat < (addrOf bp (off i)).toNat + t.size

/-- the byte at `a` belongs to one of the temporaries `k0 ≤ k < k1` -/
def inTmp (toff : Nat → Int) (bp : BitVec 64) (k0 k1 : Nat) (a : BitVec 64) : Prop :=
  ∃ k, k0 ≤ k ∧ k < k1 ∧ (addrOf bp (toff k)).toNat ≤ a.toNat ∧ a.toNat < (addrOf bp (toff k)).toNat + 8

theorem size_le8 (t : ITy) : t.size ≤ 8 := by cases t <;> decide
theorem size_pos (t : ITy) : 0 < t.size := by cases t <;> decide

theorem inVar_mono {tys : List ITy} {off : Nat → Int} {bp : BitVec 64} {W W' : List Nat} {a : BitVec 64}
    (h : inVar tys off bp W a) (hs : ∀ i, i ∈ W → i ∈ W') : inVar tys off bp W' a := by
  obtain ⟨i, t, hi, r⟩ := h; exact ⟨i, t, hs i hi, r⟩

theorem inTmp_mono {toff : Nat → Int} {bp : BitVec 64} {k0 k1 k0' k1' : Nat} {a : BitVec 64}
    (h : inTmp toff bp k0 k1 a) (h0 : k0' ≤ k0) (h1 : k1 ≤ k1') : inTmp toff bp k0' k1' a := by
  obtain ⟨k, a0, a1, r⟩ := h; exact ⟨k, by omega, by omega, r⟩

theorem Lay.not_inVar {tys : List ITy} {off toff : Nat → Int} {K B : Nat} {bp : BitVec 64} (l : Lay tys off toff K B bp)
    (W : List Nat) (a : BitVec 64) (h : a.toNat < B) : ¬ inVar tys off bp W a := by
  rintro ⟨i, t, _, ht, h1, _⟩
  have := (l.var_lo i t ht).1; omega

theorem Lay.not_inTmp {tys : List ITy} {off toff : Nat → Int} {K B : Nat} {bp : BitVec 64} (l : Lay tys off toff K B bp)
    (k0 k1 : Nat) (hk : k1 ≤ K) (a : BitVec 64) (h : a.toNat < B) : ¬ inTmp toff bp k0 k1 a := by
  rintro ⟨k, _, hk1, h1, _⟩
  have := (l.tmp_lo k (by omega)).1; omega

/-- `%rsp`, `%rbp` unchanged; every byte at or above `%rsp` unchanged, except in the variables `W` and the temporaries
    `k0 ≤ k < k1` -/
structure Unch (tys : List ITy) (off toff : Nat → Int) (W : List Nat) (k0 k1 : Nat) (m m' : State) : Prop where
  rsp : m'.get .rsp = m.get .rsp
  rbp : m'.get .rbp = m.get .rbp
  mem : ∀ a : BitVec 64, (m.get .rsp).toNat ≤ a.toNat → ¬ inVar tys off (m.get .rbp) W a →
    ¬ inTmp toff (m.get .rbp) k0 k1 a → m'.mem a = m.mem a

section
variable {tys : List ITy} {off toff : Nat → Int}

theorem Unch.refl (W : List Nat) (k0 k1 : Nat) (m : State) : Unch tys off toff W k0 k1 m m :=
  ⟨rfl, rfl, fun _ _ _ _ => rfl⟩

theorem Unch.trans {W : List Nat} {k0 k1 : Nat} {a b c : State} (h1 : Unch tys off toff W k0 k1 a b)
    (h2 : Unch tys off toff W k0 k1 b c) : Unch tys off toff W k0 k1 a c :=
  ⟨h2.rsp.trans h1.rsp, h2.rbp.trans h1.rbp, fun x hx hv ht =>
    (h2.mem x (h1.rsp ▸ hx) (h1.rbp ▸ hv) (h1.rbp ▸ ht)).trans (h1.mem x hx hv ht)⟩

theorem Unch.mono {W W' : List Nat} {k0 k1 k0' k1' : Nat} {a b : State} (h : Unch tys off toff W k0 k1 a b)
    (hs : ∀ i, i ∈ W → i ∈ W') (h0 : k0' ≤ k0) (h1 : k1 ≤ k1') : Unch tys off toff W' k0' k1' a b :=
  ⟨h.rsp, h.rbp, fun x hx hv ht => h.mem x hx (fun hh => hv (inVar_mono hh hs)) (fun hh => ht (inTmp_mono hh h0 h1))⟩

theorem Same.unch {a b : State} (h : Same a b) (W : List Nat) (k0 k1 : Nat) : Unch tys off toff W k0 k1 a b :=
  ⟨h.rsp, h.rbp, fun x _ _ _ => congrFun h.mem x⟩

end

/-! ### the store in the frame -/

/-- every variable that has a value holds it at its place in the frame -/
def Holds (off : Nat → Int) (σ : Env) (m : State) : Prop :=
  ∀ i t v, σ.tys[i]? = some t → σ.vals[i]? = some v → MemHolds t m (addrOf (m.get .rbp) (off i)) v

/-- bytes `a .. a+n-1` equal in two states -/
def bytesEq (s s' : State) (a : BitVec 64) (n : Nat) : Prop :=
  ∀ x : BitVec 64, a.toNat ≤ x.toNat → x.toNat < a.toNat + n → s'.mem x = s.mem x

theorem bytesEq_at {s s' : State} {a : BitVec 64} {n : Nat} (h : bytesEq s s' a n) (ha : a.toNat + 8 ≤ 2 ^ 64) (k : Nat)
    (hk : k < n) (hn : n ≤ 8) : s'.mem (a + BitVec.ofNat 64 k) = s.mem (a + BitVec.ofNat 64 k) := by
  apply h <;> rw [toNat_add_ofNat _ _ (by omega)] <;> omega

theorem read8_congr {s s' : State} {a : BitVec 64} (h : bytesEq s s' a 1) : s'.read8 a = s.read8 a := by
  simp only [State.read8]; exact h a (Nat.le_refl _) (by omega)

theorem read16_congr {s s' : State} {a : BitVec 64} (ha : a.toNat + 8 ≤ 2 ^ 64) (h : bytesEq s s' a 2) :
    s'.read16 a = s.read16 a := by
  have e0 := bytesEq_at h ha 0 (by omega) (by omega); have e1 := bytesEq_at h ha 1 (by omega) (by omega)
  simp at e0
  simp [State.read16, e0, e1]

theorem read32_congr {s s' : State} {a : BitVec 64} (ha : a.toNat + 8 ≤ 2 ^ 64) (h : bytesEq s s' a 4) :
    s'.read32 a = s.read32 a := by
  have e0 := bytesEq_at h ha 0 (by omega) (by omega); have e1 := bytesEq_at h ha 1 (by omega) (by omega)
  have e2 := bytesEq_at h ha 2 (by omega) (by omega); have e3 := bytesEq_at h ha 3 (by omega) (by omega)
  simp at e0
  simp [State.read32, State.read16, BitVec.add_assoc, e0, e1, e2, e3]

theorem read64_congr {s s' : State} {a : BitVec 64} (ha : a.toNat + 8 ≤ 2 ^ 64) (h : bytesEq s s' a 8) :
    s'.read64 a = s.read64 a :=
  (read_congr s s' a (fun k hk => bytesEq_at h ha k hk (Nat.le_refl _))).2.2.2

theorem memHolds_congr_sz (t : ITy) (s s' : State) (a : BitVec 64) (v : Int) (ha : a.toNat + 8 ≤ 2 ^ 64)
    (h : bytesEq s s' a t.size) (hm : MemHolds t s a v) : MemHolds t s' a v := by
  unfold MemHolds at hm ⊢
  refine ⟨hm.1, ?_⟩
  have hm2 := hm.2
  cases t <;> simp only [ITy.size] at h <;> simp only at hm2 ⊢
  case bool => rw [read8_congr h]; exact hm2
  case i8 => rw [read8_congr h]; exact hm2
  case u8 => rw [read8_congr h]; exact hm2
  case i16 => rw [read16_congr ha h]; exact hm2
  case u16 => rw [read16_congr ha h]; exact hm2
  case i32 => rw [read32_congr ha h]; exact hm2
  case u32 => rw [read32_congr ha h]; exact hm2
  case i64 => rw [read64_congr ha h]; exact hm2
  case u64 => rw [read64_congr ha h]; exact hm2

/-! ### stores write exactly the bytes of the object -/

def W.bytes : W → Nat | .w8 => 1 | .w16 => 2 | .w32 => 4 | .w64 => 8

theorem writeW_mem (s : State) (a x : BitVec 64) (w : W) (v : BitVec w.bits)
    (h : ∀ k : Nat, k < W.bytes w → x ≠ a + BitVec.ofNat 64 k) : (s.writeW a w v).mem x = s.mem x := by
  cases w <;> simp only [W.bytes] at h
  · have h0 := h 0 (by omega); simp at h0
    simp [State.writeW, State.write8, h0]
  · have h0 := h 0 (by omega); have h1 := h 1 (by omega); simp at h0
    simp [State.writeW, State.write16, State.write8, h0, h1]
  · have h0 := h 0 (by omega); have h1 := h 1 (by omega); have h2 := h 2 (by omega); have h3 := h 3 (by omega); simp at h0
    simp [State.writeW, State.write32, State.write16, State.write8, BitVec.add_assoc, h0, h1, h2, h3]
  · exact write64_mem s a v x h

/-- `pop %rdi; mov %al/%ax/%eax/%rax, (%rdi)`: besides `store_ok`, nothing outside the object is written -/
theorem store_run (t : ITy) (s : State) (p : BitVec 64) (v : Int) (hp : s.read64 (s.get .rsp) = p)
    (h : Represents t (s.get .rax) v) (hp8 : p.toNat + 8 ≤ 2 ^ 64) :
    ∃ s', X86.run (storeSeq t) s = some s' ∧ MemHolds t s' p v ∧ s'.get .rax = s.get .rax ∧
      s'.get .rsp = s.get .rsp + 8 ∧ s'.get .rbp = s.get .rbp ∧
      (∀ x : BitVec 64, (x.toNat < p.toNat ∨ p.toNat + t.size ≤ x.toNat) → s'.mem x = s.mem x) := by
  obtain ⟨s', hrun, hm, hax, hsp⟩ := store_ok t s p v hp h
  refine ⟨s', hrun, hm, hax, hsp, ?_, ?_⟩
  · cases t <;> (simp only [storeSeq, store, descr] at hrun; cases hrun; rfl)
  · intro x hx
    have ne : ∀ k : Nat, k < t.size → x ≠ p + BitVec.ofNat 64 k := by
      intro k hk heq
      have := congrArg BitVec.toNat heq
      rw [toNat_add_ofNat _ _ (by have := size_le8 t; omega)] at this
      omega
    subst hp
    have hz : ∀ q : BitVec 64, q + BitVec.ofInt 64 0 = q := by intro q; simp
    cases t <;> simp only [ITy.size] at ne <;> (simp only [storeSeq, store, descr] at hrun; cases hrun) <;>
      (rw [writeW_mem]
       · rfl
       · simp only [State.ea, State.get_set_same, hz]; exact ne)
/-! ### the store in the frame under machine steps; the judgment and its combinators -/

section
variable {off toff : Nat → Int}

theorem Holds.of_bytes {σ : Env} {m m' : State} (h : Holds off σ m) (hbp : m'.get .rbp = m.get .rbp)
    (hno : ∀ i t, σ.tys[i]? = some t → (addrOf (m.get .rbp) (off i)).toNat + 8 ≤ 2 ^ 64)
    (hb : ∀ i t, σ.tys[i]? = some t → bytesEq m m' (addrOf (m.get .rbp) (off i)) t.size) : Holds off σ m' := by
  intro i t v ht hv
  rw [hbp]
  exact memHolds_congr_sz t m m' _ v (hno i t ht) (hb i t ht) (h i t v ht hv)

theorem Holds.same {σ : Env} {m m' : State} (h : Holds off σ m) (hs : Same m m') : Holds off σ m' := by
  intro i t v ht hv
  rw [hs.rbp]
  exact memHolds_congr t m m' _ v (fun _ _ => by rw [hs.mem]) (h i t v ht hv)

/-- nothing at or above `B` changed -/
theorem Holds.of_ge {σ : Env} {m m' : State} {K B : Nat} (l : Lay σ.tys off toff K B (m.get .rbp)) (h : Holds off σ m)
    (hbp : m'.get .rbp = m.get .rbp) (hmem : ∀ x : BitVec 64, B ≤ x.toNat → m'.mem x = m.mem x) : Holds off σ m' :=
  h.of_bytes hbp (fun i t ht => (l.var_lo i t ht).2)
    (fun i t ht x hx _ => hmem x (by have := (l.var_lo i t ht).1; omega))

/-- at or above `B` only the bytes of temporary `k` changed -/
theorem Holds.of_tmp {σ : Env} {m m' : State} {K B k : Nat} (l : Lay σ.tys off toff K B (m.get .rbp)) (hk : k < K)
    (h : Holds off σ m) (hbp : m'.get .rbp = m.get .rbp)
    (hmem : ∀ x : BitVec 64, B ≤ x.toNat → (x.toNat < (addrOf (m.get .rbp) (toff k)).toNat ∨
      (addrOf (m.get .rbp) (toff k)).toNat + 8 ≤ x.toNat) → m'.mem x = m.mem x) : Holds off σ m' :=
  h.of_bytes hbp (fun i t ht => (l.var_lo i t ht).2)
    (fun i t ht x hx hx2 => hmem x (by have := (l.var_lo i t ht).1; omega)
      (by have := l.var_tmp i t k ht hk; unfold sep at this; omega))

/-- at or above `B` only the bytes of variable `i` changed, and it now holds `v'` -/
theorem Holds.set {σ : Env} {m m' : State} {K B i : Nat} {ti : ITy} {v' : Int} (l : Lay σ.tys off toff K B (m.get .rbp))
    (h : Holds off σ m) (hti : σ.tys[i]? = some ti) (hbp : m'.get .rbp = m.get .rbp)
    (hm : MemHolds ti m' (addrOf (m.get .rbp) (off i)) v')
    (hmem : ∀ x : BitVec 64, B ≤ x.toNat → (x.toNat < (addrOf (m.get .rbp) (off i)).toNat ∨
      (addrOf (m.get .rbp) (off i)).toNat + ti.size ≤ x.toNat) → m'.mem x = m.mem x) : Holds off (σ.set i v') m' := by
  intro j t v ht hv
  have ht' : σ.tys[j]? = some t := ht
  rw [hbp]
  by_cases hji : j = i
  · subst hji
    rw [hti] at ht'; cases ht'
    simp only [Env.set, List.getElem?_set] at hv
    split at hv
    · split at hv
      · cases hv; exact hm
      · cases hv
    · rename_i hne; exact absurd trivial hne
  · have hv' : σ.vals[j]? = some v := by
      simpa [Env.set, List.getElem?_set_ne (Ne.symm hji)] using hv
    refine memHolds_congr_sz t m m' _ v (l.var_lo j t ht').2 ?_ (h j t v ht' hv')
    intro x hx hx2
    refine hmem x (by have := (l.var_lo j t ht').1; omega) ?_
    have := l.var_var j i t ti hji ht' hti; unfold sep at this; omega

/-- **the judgment**: from every machine state whose frame (laid out by `Lay`, `%rbp`-relative) holds `σ`, with `d` free
    stack slots below `%rsp ≤ B`, `code` runs, leaves `R` true of `%rax`, the frame holding `σ'`, and has changed nothing at
    or above `%rsp` but the variables `W` and the temporaries `k0 ≤ k < k1` -/
def EvX (off toff : Nat → Int) (K : Nat) (code : List Ins) (σ σ' : Env) (R : BitVec 64 → Prop) (W : List Nat)
    (k0 k1 d : Nat) : Prop :=
  σ'.tys = σ.tys ∧
  ∀ (m : State) (n B : Nat), Lay σ.tys off toff K B (m.get .rbp) → d ≤ n → 8 * n ≤ (m.get .rsp).toNat →
    (m.get .rsp).toNat ≤ B → Holds off σ m →
    ∃ m', X86.run code m = some m' ∧ R (m'.get .rax) ∧ Holds off σ' m' ∧ Unch σ.tys off toff W k0 k1 m m'

variable {K : Nat}

theorem EvX.then_same {c c2 : List Ins} {σ σ' : Env} {R R2 : BitVec 64 → Prop} {W : List Nat} {k0 k1 d : Nat}
    (h : EvX off toff K c σ σ' R W k0 k1 d)
    (h2 : ∀ s, R (s.get .rax) → ∃ s', X86.run c2 s = some s' ∧ R2 (s'.get .rax) ∧ Same s s') :
    EvX off toff K (c ++ c2) σ σ' R2 W k0 k1 d := by
  refine ⟨h.1, ?_⟩
  intro m n B l hd hsp hB hH
  obtain ⟨m1, r1, p1, H1, u1⟩ := h.2 m n B l hd hsp hB hH
  obtain ⟨m2, r2, p2, s2⟩ := h2 m1 p1
  exact ⟨m2, run_append_some r1 r2, p2, H1.same s2, u1.trans (s2.unch _ _ _)⟩

theorem EvX.weaken {c : List Ins} {σ σ' : Env} {R : BitVec 64 → Prop} {W W' : List Nat} {k0 k1 k0' k1' d d' : Nat}
    (h : EvX off toff K c σ σ' R W k0 k1 d) (hs : ∀ i, i ∈ W → i ∈ W') (h0 : k0' ≤ k0) (h1 : k1 ≤ k1') (hd : d ≤ d') :
    EvX off toff K c σ σ' R W' k0' k1' d' := by
  refine ⟨h.1, ?_⟩
  intro m n B l hdn hsp hB hH
  obtain ⟨m1, r1, p1, H1, u1⟩ := h.2 m n B l (by omega) hsp hB hH
  exact ⟨m1, r1, p1, H1, u1.mono hs h0 h1⟩

theorem EvX.lit (σ : Env) (t : ITy) (v : Int) (hr : t.inRange v) (k : Nat) :
    EvX off toff K [iMovImm v] σ σ (fun r => Represents t r v) [] k k 0 := by
  refine ⟨rfl, ?_⟩
  intro m n B l _ _ _ hH
  have hs : Same m (m.set .rax (BitVec.ofInt 64 (immOf v))) := same_set _ _ _ rfl
  refine ⟨_, run_cons_some (movimm_step _ _) rfl, ?_, hH.same hs, hs.unch _ _ _⟩
  rw [State.get_set_same]; exact lit_represents _ _ hr

theorem EvX.var (σ : Env) (i : Nat) (t : ITy) (v : Int) (ht : σ.tys[i]? = some t) (hv : σ.vals[i]? = some v) (k : Nat) :
    EvX off toff K (iLea (off i) :: loadSeq t) σ σ (fun r => Represents t r v) [] k k 0 := by
  refine ⟨rfl, ?_⟩
  intro m n B l _ _ _ hH
  have hm := hH i t v ht hv
  have hm1 : MemHolds t (m.set .rax (m.ea (off i) .rbp)) ((m.set .rax (m.ea (off i) .rbp)).get .rax) v := by
    rw [State.get_set_same]; exact memHolds_congr t m _ _ _ (fun _ _ => rfl) hm
  obtain ⟨m2, r2, p2, _⟩ := load_ok t _ v hm1
  have s2 := (same_set m .rax _ rfl).trans (run_safe _ _ _ (loadSeq_safe t) r2)
  exact ⟨m2, run_cons_some (lea_step _ _) r2, p2, hH.same s2, s2.unch _ _ _⟩

theorem EvX.seq {ca cb : List Ins} {σ σ1 σ2 : Env} {Ra Rb : BitVec 64 → Prop} {Wa Wb : List Nat}
    {k0 k1 ka0 ka1 kb0 kb1 da db : Nat}
    (ha : EvX off toff K ca σ σ1 Ra Wa ka0 ka1 da) (hb : EvX off toff K cb σ1 σ2 Rb Wb kb0 kb1 db)
    (hk : k0 ≤ ka0 ∧ ka1 ≤ k1 ∧ k0 ≤ kb0 ∧ kb1 ≤ k1) :
    EvX off toff K (ca ++ cb) σ σ2 Rb (Wa ++ Wb) k0 k1 (max da db) := by
  refine ⟨hb.1.trans ha.1, ?_⟩
  intro m n B l hd hsp hB hH
  obtain ⟨m1, r1, _, H1, u1⟩ := ha.2 m n B l (by omega) hsp hB hH
  have l1 : Lay σ1.tys off toff K B (m1.get .rbp) := by rw [ha.1, u1.rbp]; exact l
  obtain ⟨m2, r2, p2, H2, u2⟩ := hb.2 m1 n B l1 (by omega) (by rw [u1.rsp]; exact hsp) (by rw [u1.rsp]; exact hB) H1
  rw [ha.1] at u2
  exact ⟨m2, run_append_some r1 r2, p2, H2,
    (u1.mono (fun i hi => List.mem_append_left _ hi) hk.1 hk.2.1).trans
      (u2.mono (fun i hi => List.mem_append_right _ hi) hk.2.2.1 hk.2.2.2)⟩

theorem step_of_run_single {i : Ins} {s s' : State} (h : X86.run [i] s = some s') : X86.step i s = some s' := by
  simp only [X86.run] at h
  cases hs : X86.step i s with
  | none => simp [hs] at h
  | some s1 => simp only [hs, Option.some.injEq] at h; rw [h]

theorem sub8_add8 (r : BitVec 64) : r - 8 + 8 = r := by
  apply BitVec.eq_of_toNat_eq
  simp only [BitVec.toNat_add, BitVec.toNat_sub]
  have := r.isLt
  simp; omega

/-- **binary node**: right operand (with its side effects), `push`, left operand one slot deeper (with its side effects),
    `pop %rdi`, operator -/
theorem EvX.bin {cr cl cop : List Ins} {σ σr σl : Env} {Rr Rl Rres : BitVec 64 → Prop} {Wr Wl : List Nat}
    {k0 k1 kr0 kr1 kl0 kl1 dr dl : Nat}
    (hr : EvX off toff K cr σ σr Rr Wr kr0 kr1 dr) (hl : EvX off toff K cl σr σl Rl Wl kl0 kl1 dl)
    (hop : ∀ s, Rl (s.get .rax) → Rr (s.get .rdi) → ∃ s', X86.run cop s = some s' ∧ Rres (s'.get .rax) ∧ Same s s')
    (hk : k0 ≤ kr0 ∧ kr1 ≤ k1 ∧ k0 ≤ kl0 ∧ kl1 ≤ k1) (hK : k1 ≤ K) :
    EvX off toff K (cr ++ (iPush :: (cl ++ (iPopRdi :: cop)))) σ σl Rres (Wr ++ Wl) k0 k1 (max dr (dl + 1)) := by
  refine ⟨hl.1.trans hr.1, ?_⟩
  intro m n B l hd hsp hB hH
  obtain ⟨n', rfl⟩ : ∃ n', n = n' + 1 := ⟨n - 1, by omega⟩
  obtain ⟨m1, r1, p1, H1, u1⟩ := hr.2 m (n' + 1) B l (by omega) hsp hB hH
  have h8 : 8 ≤ (m1.get .rsp).toNat := by rw [u1.rsp]; omega
  obtain ⟨m2, r2, sp2, bp2, ax2, top2, spn2, mem2⟩ := push_rax m1 h8
  have l1 : Lay σr.tys off toff K B (m1.get .rbp) := by rw [hr.1, u1.rbp]; exact l
  have H2 : Holds off σr m2 := H1.of_ge l1 bp2 (fun x hx => mem2 x (Or.inr (by rw [u1.rsp]; omega)))
  have l2 : Lay σr.tys off toff K B (m2.get .rbp) := by rw [bp2]; exact l1
  obtain ⟨m3, r3, p3, H3, u3⟩ :=
    hl.2 m2 n' B l2 (by omega) (by rw [spn2, u1.rsp]; omega) (by rw [spn2, u1.rsp]; omega) H2
  obtain ⟨m4, r4, di4, sp4, bp4, ax4, mem4⟩ := pop_rdi m3
  have htop : m3.read64 (m3.get .rsp) = m1.get .rax := by
    rw [u3.rsp, sp2, ← top2]
    refine (read_congr m2 m3 _ ?_).2.2.2
    intro k hk
    have hx : ((m1.get .rsp - 8) + BitVec.ofNat 64 k).toNat = (m1.get .rsp).toNat - 8 + k := by
      rw [toNat_add_ofNat _ _ (by have := (m1.get .rsp).isLt; rw [← sp2, spn2]; omega), ← sp2, spn2]
    have hlt : ((m1.get .rsp - 8) + BitVec.ofNat 64 k).toNat < B := by rw [hx, u1.rsp]; omega
    exact u3.mem _ (by rw [hx, spn2]; omega) (l2.not_inVar _ _ hlt) (l2.not_inTmp _ _ (by omega) _ hlt)
  obtain ⟨m5, r5, p5, s5⟩ := hop m4 (by rw [ax4]; exact p3) (by rw [di4, htop]; exact p1)
  have l3 : Lay σl.tys off toff K B (m3.get .rbp) := by rw [hl.1, u3.rbp]; exact l2
  have H5 : Holds off σl m5 := (H3.of_ge l3 bp4 (fun x _ => congrFun mem4 x)).same s5
  refine ⟨m5, run_append_some r1 (run_cons_some (step_of_run_single r2)
    (run_append_some r3 (run_cons_some (step_of_run_single r4) r5))), p5, H5, ?_⟩
  refine ⟨?_, ?_, ?_⟩
  · rw [s5.rsp, sp4, u3.rsp, sp2, u1.rsp, sub8_add8]
  · rw [s5.rbp, bp4, u3.rbp, bp2, u1.rbp]
  · intro x hx hv ht
    have hx1 : (m1.get .rsp).toNat ≤ x.toNat := by rw [u1.rsp]; exact hx
    rw [congrFun s5.mem x, congrFun mem4 x]
    rw [u3.mem x (by rw [spn2]; omega)
      (by rw [hr.1, bp2, u1.rbp]; exact fun hh => hv (inVar_mono hh (fun i hi => List.mem_append_right _ hi)))
      (by rw [bp2, u1.rbp]; exact fun hh => ht (inTmp_mono hh hk.2.2.1 hk.2.2.2))]
    rw [mem2 x (Or.inr hx1)]
    exact u1.mem x hx (fun hh => hv (inVar_mono hh (fun i hi => List.mem_append_left _ hi)))
      (fun hh => ht (inTmp_mono hh hk.1 hk.2.1))

/-- **assignment to a variable**: `lea`, `push`, the (converted) value, `pop %rdi; mov` -/
theorem EvX.assign {c : List Ins} {σ σ1 : Env} {W : List Nat} {k0 k1 d i : Nat} {ti : ITy} {v' : Int}
    (hti : σ.tys[i]? = some ti) (he : EvX off toff K c σ σ1 (fun r => Represents ti r v') W k0 k1 d) (hK : k1 ≤ K) :
    EvX off toff K (iLea (off i) :: iPush :: (c ++ storeSeq ti)) σ (σ1.set i v') (fun r => Represents ti r v')
      (i :: W) k0 k1 (d + 1) := by
  refine ⟨he.1, ?_⟩
  intro m n B l hd hsp hB hH
  obtain ⟨n', rfl⟩ : ∃ n', n = n' + 1 := ⟨n - 1, by omega⟩
  have sa : Same m (m.set .rax (m.ea (off i) .rbp)) := same_set _ _ _ rfl
  have h8 : 8 ≤ ((m.set .rax (m.ea (off i) .rbp)).get .rsp).toNat := by rw [sa.rsp]; omega
  obtain ⟨m2, r2, sp2, bp2, ax2, top2, spn2, mem2⟩ := push_rax _ h8
  rw [sa.rsp] at sp2 spn2 top2 mem2
  rw [sa.rbp] at bp2
  rw [State.get_set_same] at top2
  have H2 : Holds off σ m2 := hH.of_ge l bp2 (fun x hx => (mem2 x (Or.inr (by omega))).trans (congrFun sa.mem x))
  have l2 : Lay σ.tys off toff K B (m2.get .rbp) := by rw [bp2]; exact l
  obtain ⟨m3, r3, p3, H3, u3⟩ := he.2 m2 n' B l2 (by omega) (by rw [spn2]; omega) (by rw [spn2]; omega) H2
  have htop : m3.read64 (m3.get .rsp) = m.ea (off i) .rbp := by
    rw [u3.rsp, sp2, ← top2]
    refine (read_congr m2 m3 _ ?_).2.2.2
    intro k hk
    have hx : ((m.get .rsp - 8) + BitVec.ofNat 64 k).toNat = (m.get .rsp).toNat - 8 + k := by
      rw [toNat_add_ofNat _ _ (by have := (m.get .rsp).isLt; rw [← sp2, spn2]; omega), ← sp2, spn2]
    have hlt : ((m.get .rsp - 8) + BitVec.ofNat 64 k).toNat < B := by rw [hx]; omega
    exact u3.mem _ (by rw [hx, spn2]; omega) (l2.not_inVar _ _ hlt) (l2.not_inTmp _ _ hK _ hlt)
  have hlo := l.var_lo i ti hti
  obtain ⟨m4, r4, hm4, ax4, sp4, bp4, mem4⟩ := store_run ti m3 _ v' htop p3 hlo.2
  have l3 : Lay σ1.tys off toff K B (m3.get .rbp) := by rw [he.1, u3.rbp]; exact l2
  have hea : addrOf (m3.get .rbp) (off i) = m.ea (off i) .rbp := by rw [u3.rbp, bp2]; rfl
  have H4 : Holds off (σ1.set i v') m4 :=
    H3.set l3 (by rw [he.1]; exact hti) bp4 (by rw [hea]; exact hm4) (fun x _ hx => mem4 x (by rw [hea] at hx; exact hx))
  refine ⟨m4, run_cons_some (lea_step _ _) (run_cons_some (step_of_run_single r2) (run_append_some r3 r4)),
    by rw [ax4]; exact p3, H4, ?_⟩
  refine ⟨?_, ?_, ?_⟩
  · rw [sp4, u3.rsp, sp2, sub8_add8]
  · rw [bp4, u3.rbp, bp2]
  · intro x hx hv ht
    have hnot : x.toNat < (m.ea (off i) .rbp).toNat ∨ (m.ea (off i) .rbp).toNat + ti.size ≤ x.toNat := by
      by_cases h1 : x.toNat < (m.ea (off i) .rbp).toNat
      · exact Or.inl h1
      · by_cases h2 : (m.ea (off i) .rbp).toNat + ti.size ≤ x.toNat
        · exact Or.inr h2
        · exact absurd ⟨i, ti, List.mem_cons_self, hti, by rw [← ea_rbp]; omega, by rw [← ea_rbp]; omega⟩ hv
    rw [mem4 x hnot]
    rw [u3.mem x (by rw [spn2]; omega)
      (by rw [bp2]; exact fun hh => hv (inVar_mono hh (fun j hj => List.mem_cons_of_mem _ hj)))
      (by rw [bp2]; exact ht)]
    rw [mem2 x (Or.inr hx)]
    exact congrFun sa.mem x

end
/-! ### compound assignment through the hidden pointer temporary -/

section
variable {off toff : Nat → Int} {K : Nat}

theorem movload_step (s : State) :
    X86.step ⟨"mov", [.m0 "%rax", .r "%rax"]⟩ s = some (s.set .rax (s.read64 (s.get .rax + BitVec.ofInt 64 0))) := rfl

theorem loadSeq_u64 : loadSeq .u64 = [⟨"mov", [.m0 "%rax", .r "%rax"]⟩] := rfl

/-- `lea tmp(%rbp), %rax; mov (%rax), %rax`: the pointer kept in a temporary -/
theorem tmp_load (s : State) (d : Int) :
    ∃ s', X86.run (iLea d :: loadSeq .u64) s = some s' ∧ s'.get .rax = s.read64 (addrOf (s.get .rbp) d) ∧ Same s s' := by
  refine ⟨_, run_cons_some (lea_step _ _) (run_cons_some (movload_step _) rfl), ?_, ?_⟩
  · rw [State.get_set_same, State.get_set_same]
    have : addrOf (s.get .rbp) d + BitVec.ofInt 64 0 = addrOf (s.get .rbp) d := by simp
    show (s.set .rax _).read64 (s.ea d .rbp + BitVec.ofInt 64 0) = _
    rw [ea_rbp, this]; rfl
  · exact (same_set s .rax _ rfl).trans (same_set _ .rax _ rfl)

theorem rep_u64_ptr (p : BitVec 64) : Represents .u64 p (p.toNat : Int) := by
  have := p.isLt
  refine ⟨⟨by simp [ITy.min, ITy.signed], by simp [ITy.max, ITy.signed, ITy.bits]; omega⟩, ?_⟩
  simp only; omega

/-- `tmp = &A`: `lea tmp; push; lea A; pop %rdi; mov %rax, (%rdi)` -/
theorem tmp_store (m : State) (dt da : Int) (h8 : 8 ≤ (m.get .rsp).toNat)
    (hhi : (addrOf (m.get .rbp) dt).toNat + 8 ≤ 2 ^ 64) :
    ∃ m', X86.run ([iLea dt, iPush, iLea da] ++ storeSeq .u64) m = some m' ∧
      m'.read64 (addrOf (m.get .rbp) dt) = addrOf (m.get .rbp) da ∧ m'.get .rsp = m.get .rsp ∧ m'.get .rbp = m.get .rbp ∧
      (∀ x : BitVec 64, (m.get .rsp).toNat ≤ x.toNat → (x.toNat < (addrOf (m.get .rbp) dt).toNat ∨
        (addrOf (m.get .rbp) dt).toNat + 8 ≤ x.toNat) → m'.mem x = m.mem x) := by
  have sa : Same m (m.set .rax (m.ea dt .rbp)) := same_set _ _ _ rfl
  obtain ⟨m2, r2, sp2, bp2, ax2, top2, spn2, mem2⟩ := push_rax (m.set .rax (m.ea dt .rbp)) (by rw [sa.rsp]; exact h8)
  rw [sa.rsp] at sp2 spn2 top2 mem2
  rw [sa.rbp] at bp2
  rw [State.get_set_same] at top2
  have sb : Same m2 (m2.set .rax (m2.ea da .rbp)) := same_set _ _ _ rfl
  have htop : (m2.set .rax (m2.ea da .rbp)).read64 ((m2.set .rax (m2.ea da .rbp)).get .rsp) = m.ea dt .rbp := by
    rw [sb.rsp, sp2, ← top2]; rfl
  obtain ⟨m4, r4, hm4, _, sp4, bp4, mem4⟩ :=
    store_run .u64 _ _ _ htop (by rw [State.get_set_same]; exact rep_u64_ptr _) (by rw [ea_rbp]; exact hhi)
  refine ⟨m4, run_cons_some (lea_step _ _) (run_cons_some (step_of_run_single r2) (run_cons_some (lea_step _ _) r4)),
    ?_, ?_, ?_, ?_⟩
  · have h2 := hm4.2
    simp only at h2
    have e : m2.ea da .rbp = addrOf (m.get .rbp) da := by rw [ea_rbp, bp2]
    rw [← e, ← ea_rbp]
    apply BitVec.eq_of_toNat_eq
    have := (m2.ea da .rbp).isLt
    omega
  · rw [sp4, sb.rsp, sp2, sub8_add8]
  · rw [bp4, sb.rbp, bp2]
  · intro x hx hout
    rw [mem4 x (by rw [ea_rbp]; simpa [ITy.size] using hout), congrFun sb.mem x, mem2 x (Or.inr hx)]
    exact congrFun sa.mem x

/-- the code of `opAssignCode`, right-nested, with the conversion of the right operand as a parameter -/
def opAssignNF (nk : NK) (ti t tres : ITy) (offA tmp : Int) (cB castB : List Ins) : List Ins :=
  ([iLea tmp, iPush, iLea offA] ++ storeSeq .u64) ++ ((iLea tmp :: loadSeq .u64) ++ (iPush :: ((cB ++ castB) ++ (iPush ::
    ((iLea tmp :: loadSeq .u64) ++ (loadSeq ti ++ (castSeq ti t ++ (iPopRdi :: (opSeq nk t ++ (castSeq tres ti ++
      storeSeq ti))))))))))

theorem opAssignCode_eq (nk : NK) (op : BinOp) (ti tb : ITy) (offA tmp : Int) (cB : List Ins) :
    opAssignCode nk op ti tb offA tmp cB =
      opAssignNF nk ti (binopOperandType op ti tb) (binopType op ti tb) offA tmp cB
        (if op.isShift then [] else castSeq tb (binopOperandType op ti tb)) := by
  simp only [opAssignCode, opAssignNF, List.append_assoc, List.cons_append, List.nil_append]

/-- eight bytes at `a` unchanged -/
theorem read64_keep {s s' : State} {a : BitVec 64} (ha : a.toNat + 8 ≤ 2 ^ 64)
    (h : ∀ x : BitVec 64, a.toNat ≤ x.toNat → x.toNat < a.toNat + 8 → s'.mem x = s.mem x) : s'.read64 a = s.read64 a :=
  read64_congr ha h

/-- **`A op= B` / `++A` / `--A`** through the hidden pointer temporary `k1` -/
theorem EvX.opassign {cB castB : List Ins} {σ σ1 : Env} {W : List Nat} {k0 k1 d i : Nat} {ti tb t tres : ITy}
    {x vb y : Int} {nk : NK} {Rr : BitVec 64 → Prop}
    (hti : σ.tys[i]? = some ti)
    (heB : EvX off toff K cB σ σ1 (fun r => Represents tb r vb) W k0 k1 d)
    (hcastB : ∀ s, Represents tb (s.get .rax) vb → ∃ s', X86.run castB s = some s' ∧ Rr (s'.get .rax) ∧ Same s s')
    (hx : σ1.vals[i]? = some x)
    (hop : ∀ s, Represents t (s.get .rax) (convert t x) → Rr (s.get .rdi) →
      ∃ s', X86.run (opSeq nk t) s = some s' ∧ Represents tres (s'.get .rax) y ∧ Same s s')
    (hk0 : k0 ≤ k1) (hk1 : k1 < K) :
    EvX off toff K (opAssignNF nk ti t tres (off i) (toff k1) cB castB) σ (σ1.set i (convert ti y))
      (fun r => Represents ti r (convert ti y)) (i :: W) k0 (k1 + 1) (max (d + 1) 2) := by
  refine ⟨heB.1, ?_⟩
  intro m n B l hd hsp hB hH
  obtain ⟨n', rfl⟩ : ∃ n', n = n' + 2 := ⟨n - 2, by omega⟩
  -- addresses
  have hT := l.tmp_lo k1 hk1
  have hA := l.var_lo i ti hti
  -- tmp = &A
  obtain ⟨s4, r4, tmp4, sp4, bp4, mem4⟩ := tmp_store m (toff k1) (off i) (by omega) hT.2
  have H4 : Holds off σ s4 := hH.of_tmp l hk1 bp4 (fun x hxB hout => mem4 x (by omega) hout)
  -- address of *tmp, pushed
  obtain ⟨s5, r5, ax5, same5⟩ := tmp_load s4 (toff k1)
  rw [bp4, tmp4] at ax5
  obtain ⟨s6, r6, sp6, bp6, _, top6, spn6, mem6⟩ := push_rax s5 (by rw [same5.rsp, sp4]; omega)
  rw [same5.rsp, sp4] at sp6 spn6 mem6 top6
  rw [same5.rbp, bp4] at bp6
  rw [ax5] at top6
  have l6 : Lay σ.tys off toff K B (s6.get .rbp) := by rw [bp6]; exact l
  have H6 : Holds off σ s6 := by
    have l5 : Lay σ.tys off toff K B (s5.get .rbp) := by rw [same5.rbp, bp4]; exact l
    exact (H4.same same5).of_ge l5 (by rw [bp6, same5.rbp, bp4]) (fun x hxB => mem6 x (Or.inr (by omega)))
  have tmp6 : s6.read64 (addrOf (m.get .rbp) (toff k1)) = addrOf (m.get .rbp) (off i) := by
    rw [← tmp4]
    refine (read64_keep hT.2 (fun x h1 _ => ?_)).trans (by rw [read64_keep hT.2 (fun x _ _ => congrFun same5.mem x)])
    exact mem6 x (Or.inr (by omega))
  -- B
  obtain ⟨s7, r7, p7, H7, u7⟩ := heB.2 s6 (n' + 1) B l6 (by omega) (by rw [spn6]; omega) (by rw [spn6]; omega) H6
  have slotA : (m.get .rsp - 8).toNat = (m.get .rsp).toNat - 8 := by rw [← sp6]; exact spn6
  have keep7 : ∀ a : BitVec 64, (s6.get .rsp).toNat ≤ a.toNat → a.toNat + 8 ≤ 2 ^ 64 →
      (a.toNat + 8 ≤ B ∨ a = addrOf (m.get .rbp) (toff k1)) → s7.read64 a = s6.read64 a := by
    intro a ha1 ha2 ha3
    refine read64_keep ha2 (fun x h1 h2 => u7.mem x (by omega) ?_ ?_)
    · rcases ha3 with h | h
      · exact l6.not_inVar _ _ (by omega)
      · rintro ⟨j, tj, _, htj, hj1, hj2⟩
        have := l.var_tmp j tj k1 htj hk1
        unfold sep at this; rw [bp6] at hj1 hj2; rw [h] at h1 h2; omega
    · rcases ha3 with h | h
      · exact l6.not_inTmp _ _ (by omega) _ (by omega)
      · rintro ⟨k, _, hk, hj1, hj2⟩
        have := l.tmp_tmp k k1 (by omega) hk1 (by omega)
        unfold sep at this; rw [bp6] at hj1 hj2; rw [h] at h1 h2; omega
  have tmp7 : s7.read64 (addrOf (m.get .rbp) (toff k1)) = addrOf (m.get .rbp) (off i) := by
    rw [keep7 _ (by rw [spn6]; omega) hT.2 (Or.inr rfl)]; exact tmp6
  have top7 : s7.read64 (m.get .rsp - 8) = addrOf (m.get .rbp) (off i) := by
    rw [keep7 _ (by rw [spn6, slotA]; omega) (by rw [slotA]; omega) (Or.inl (by rw [slotA]; omega))]; exact top6
  -- its conversion, pushed
  obtain ⟨s7', r7', p7', same7⟩ := hcastB s7 p7
  obtain ⟨s8, r8, sp8, bp8, _, top8, spn8, mem8⟩ := push_rax s7' (by rw [same7.rsp, u7.rsp, spn6]; omega)
  have rsp7' : (s7'.get .rsp).toNat = (m.get .rsp).toNat - 8 := by rw [same7.rsp, u7.rsp, spn6]
  have bp8' : s8.get .rbp = m.get .rbp := by rw [bp8, same7.rbp, u7.rbp, bp6]
  have l7 : Lay σ1.tys off toff K B (s7.get .rbp) := by rw [heB.1, u7.rbp]; exact l6
  have H8 : Holds off σ1 s8 := by
    have l7' : Lay σ1.tys off toff K B (s7'.get .rbp) := by rw [same7.rbp]; exact l7
    exact (H7.same same7).of_ge l7' bp8 (fun x hxB => mem8 x (Or.inr (by omega)))
  have keep8 : ∀ a : BitVec 64, (m.get .rsp).toNat - 8 ≤ a.toNat → a.toNat + 8 ≤ 2 ^ 64 → s8.read64 a = s7.read64 a := by
    intro a ha1 ha2
    refine (read64_keep ha2 (fun x h1 _ => mem8 x (Or.inr (by omega)))).trans
      (read64_keep ha2 (fun x _ _ => congrFun same7.mem x))
  have tmp8 : s8.read64 (addrOf (s8.get .rbp) (toff k1)) = addrOf (m.get .rbp) (off i) := by
    rw [bp8', keep8 _ (by omega) hT.2]; exact tmp7
  -- *tmp, loaded and converted
  obtain ⟨s9, r9, ax9, same9⟩ := tmp_load s8 (toff k1)
  rw [tmp8] at ax9
  have hm9 : MemHolds ti s9 (s9.get .rax) x := by
    rw [ax9]
    have := H8 i ti x (by rw [heB.1]; exact hti) hx
    rw [bp8'] at this
    exact memHolds_congr ti s8 s9 _ x (fun _ _ => by rw [same9.mem]) this
  obtain ⟨s10, r10, p10, _⟩ := load_ok ti s9 x hm9
  have same10 := run_safe _ _ _ (loadSeq_safe ti) r10
  obtain ⟨s11, r11, p11, same11⟩ := cast_run ti t s10 x p10
  have same8_11 : Same s8 s11 := (same9.trans same10).trans same11
  -- pop, operator, conversion to A's type
  obtain ⟨s12, r12, di12, sp12, bp12, ax12, mem12⟩ := pop_rdi s11
  have hdi : Rr (s12.get .rdi) := by
    rw [di12, same8_11.rsp, sp8]
    have : s11.read64 (s7'.get .rsp - 8) = s8.read64 (s7'.get .rsp - 8) :=
      read64_keep (by have := (s7'.get .rsp).isLt; rw [← sp8, spn8]; omega) (fun x _ _ => congrFun same8_11.mem x)
    rw [this, top8]; exact p7'
  obtain ⟨s13, r13, p13, same13⟩ := hop s12 (by rw [ax12]; exact p11) hdi
  obtain ⟨s14, r14, p14, same14⟩ := cast_run tres ti s13 y p13
  -- store through the pushed address
  have mem14 : s14.mem = s8.mem := by rw [same14.mem, same13.mem, mem12, same8_11.mem]
  have rsp14 : s14.get .rsp = m.get .rsp - 8 := by
    rw [same14.rsp, same13.rsp, sp12, same8_11.rsp, sp8, sub8_add8, same7.rsp, u7.rsp, sp6]
  have bp14 : s14.get .rbp = m.get .rbp := by rw [same14.rbp, same13.rbp, bp12, same8_11.rbp, bp8']
  have htop14 : s14.read64 (s14.get .rsp) = addrOf (m.get .rbp) (off i) := by
    rw [rsp14]
    have : s14.read64 (m.get .rsp - 8) = s8.read64 (m.get .rsp - 8) :=
      read64_keep (by rw [slotA]; omega) (fun x _ _ => by rw [mem14])
    rw [this, keep8 _ (by rw [slotA]; omega) (by rw [slotA]; omega)]; exact top7
  obtain ⟨s15, r15, hm15, ax15, sp15, bp15, mem15⟩ := store_run ti s14 _ (convert ti y) htop14 p14 hA.2
  have H14 : Holds off σ1 s14 := by
    have l8 : Lay σ1.tys off toff K B (s8.get .rbp) := by rw [heB.1, bp8']; exact l
    exact H8.of_ge l8 (by rw [bp14, bp8']) (fun x _ => by rw [mem14])
  have l14 : Lay σ1.tys off toff K B (s14.get .rbp) := by rw [heB.1, bp14]; exact l
  have H15 : Holds off (σ1.set i (convert ti y)) s15 :=
    H14.set l14 (by rw [heB.1]; exact hti) bp15 (by rw [bp14]; exact hm15)
      (fun x _ hx => mem15 x (by rw [bp14] at hx; exact hx))
  refine ⟨s15, ?_, by rw [ax15]; exact p14, H15, ?_⟩
  · unfold opAssignNF
    exact run_append_some r4 (run_append_some r5 (run_cons_some (step_of_run_single r6) (run_append_some
      (run_append_some r7 r7') (run_cons_some (step_of_run_single r8) (run_append_some r9 (run_append_some r10
        (run_append_some r11 (run_cons_some (step_of_run_single r12) (run_append_some r13
          (run_append_some r14 r15))))))))))
  · refine ⟨?_, ?_, ?_⟩
    · rw [sp15, rsp14, sub8_add8]
    · rw [bp15, bp14]
    · intro z hz hv ht
      have hnotA : z.toNat < (addrOf (m.get .rbp) (off i)).toNat ∨ (addrOf (m.get .rbp) (off i)).toNat + ti.size ≤ z.toNat := by
        by_cases h1 : z.toNat < (addrOf (m.get .rbp) (off i)).toNat
        · exact Or.inl h1
        · by_cases h2 : (addrOf (m.get .rbp) (off i)).toNat + ti.size ≤ z.toNat
          · exact Or.inr h2
          · exact absurd ⟨i, ti, List.mem_cons_self, hti, by omega, by omega⟩ hv
      have hnotT : z.toNat < (addrOf (m.get .rbp) (toff k1)).toNat ∨ (addrOf (m.get .rbp) (toff k1)).toNat + 8 ≤ z.toNat := by
        by_cases h1 : z.toNat < (addrOf (m.get .rbp) (toff k1)).toNat
        · exact Or.inl h1
        · by_cases h2 : (addrOf (m.get .rbp) (toff k1)).toNat + 8 ≤ z.toNat
          · exact Or.inr h2
          · exact absurd ⟨k1, hk0, by omega, by omega, by omega⟩ ht
      rw [mem15 z hnotA, mem14, mem8 z (Or.inr (by omega)), congrFun same7.mem z]
      rw [u7.mem z (by rw [spn6]; omega)
        (by rw [bp6]; exact fun hh => hv (inVar_mono hh (fun j hj => List.mem_cons_of_mem _ hj)))
        (by rw [bp6]; exact fun hh => ht (inTmp_mono hh (Nat.le_refl _) (by omega)))]
      rw [mem6 z (Or.inr hz), congrFun same5.mem z]
      exact mem4 z hz hnotT

end
end ChibiVerif.C01
