/-
Helper lemmas for C15_symbols_partial: `parse` accepts every unit that is `valid` and declares its identifiers
before use (`refsOrdered`).  None of the three diagnostics of the modelled code can fire:
"redefinition of f", "static declaration follows a non-static declaration", "undefined variable".
-/
import ChibiVerif.Lemmas.LinkageView
import ChibiVerif.Lemmas.LinkageExact

namespace ChibiVerif.Linkage
open ChibiVerif.Spec.Linkage

variable [Rules]

/-! ### lookups only ever gain answers -/

/-- a predicate that looks at the identity of an object only -/
def IdPred (q : Obj → Bool) : Prop := ∀ o o', o.isFunction = o'.isFunction → o.sym = o'.sym → q o = q o'

omit [Rules] in
theorem any_updFirst_keeps {q : Obj → Bool} (hq : IdPred q) {u : Obj → Obj} (hu : Keeps u) (p : Obj → Bool) :
    ∀ l : List Obj, (updFirst p u l).any q = l.any q
  | [] => rfl
  | a :: as => by
    unfold updFirst
    split
    · simp only [List.any_cons]
      rw [hq (u a) a (hu a).1 (hu a).2.1]
    · simp only [List.any_cons]
      rw [any_updFirst_keeps hq hu p as]

omit [Rules] in
theorem any_evolves {q : Obj → Bool} (hq : IdPred q) {gs gs' : List Obj} (h : Evolves gs gs') :
    gs.any q = true → gs'.any q = true := by
  induction h with
  | refl => exact id
  | upd p u hu _ ih => intro h; rw [any_updFirst_keeps hq hu]; exact ih h
  | consData o _ _ _ ih => intro h; simp [ih h]
  | consFn o f _ _ _ _ _ _ ih => intro h; simp [ih h]

def hasFn (gs : List Obj) (g : Name) : Bool := gs.any (fun o => o.isFunction && o.sym == .named g)
def hasObj (gs : List Obj) (x : Name) : Bool := gs.any (fun o => !o.isFunction && o.sym == .named x)

omit [Rules] in
theorem idPred_fn (g : Name) : IdPred (fun o => o.isFunction && o.sym == .named g) := by
  intro o o' h1 h2; simp only [h1, h2]
omit [Rules] in
theorem idPred_obj (x : Name) : IdPred (fun o => !o.isFunction && o.sym == .named x) := by
  intro o o' h1 h2; simp only [h1, h2]

omit [Rules] in
theorem find?_isSome_any (q : Obj → Bool) : ∀ l : List Obj, (l.find? q).isSome = l.any q
  | [] => rfl
  | a :: as => by
    simp only [List.find?, List.any_cons]
    cases h : q a
    · simpa using find?_isSome_any q as
    · rfl

omit [Rules] in
theorem findFunc_isSome (gs : List Obj) (g : Name) : (findFunc gs g).isSome = hasFn gs g := find?_isSome_any _ gs
omit [Rules] in
theorem findObj_isSome (gs : List Obj) (x : Name) : (findObj gs x).isSome = hasObj gs x := find?_isSome_any _ gs

/-- the identifiers in `fs` / `xs` resolve -/
def Knows (gs : List Obj) (fs xs : List Name) : Prop :=
  (∀ g, g ∈ fs → hasFn gs g = true) ∧ (∀ x, x ∈ xs → hasObj gs x = true)

omit [Rules] in
theorem Knows.evolves {gs gs' : List Obj} {fs xs : List Name} (h : Evolves gs gs') (k : Knows gs fs xs) : Knows gs' fs xs :=
  ⟨fun g hg => any_evolves (idPred_fn g) h (k.1 g hg), fun x hx => any_evolves (idPred_obj x) h (k.2 x hx)⟩

/-! ### references resolve -/

omit [Rules] in
theorem useRef_ok {cur : Option Name} {st : PState} {fs xs : List Name} (k : Knows st.globals fs xs) :
    ∀ r : Ref, (match r with | .fn g => g ∈ fs | .obj x => x ∈ xs) → ∃ st' s, useRef cur st r = .ok (st', s)
  | .fn g, h => by
    have := k.1 g h
    rw [← findFunc_isSome] at this
    cases hf : findFunc st.globals g with
    | none => simp [hf] at this
    | some o =>
      cases cur with
      | some f =>
        simp only [useRef, recordFnRef, hf, bind, Except.bind, pure, Except.pure]
        exact ⟨_, _, rfl⟩
      | none =>
        simp only [useRef, recordFnRef, hf, bind, Except.bind, pure, Except.pure]
        exact ⟨_, _, rfl⟩
  | .obj x, h => by
    have := k.2 x h
    rw [← findObj_isSome] at this
    cases hf : findObj st.globals x with
    | none => simp [hf] at this
    | some o =>
      simp only [useRef, hf, pure, Except.pure]
      exact ⟨_, _, rfl⟩

omit [Rules] in
theorem mem_initFnRefs_cons {g : Name} {r : Ref} {rest : List InitItem} :
    g ∈ initFnRefs (.ref r :: rest) ↔ (r = .fn g) ∨ g ∈ initFnRefs rest := by
  cases r with
  | fn g' =>
    simp only [initFnRefs, List.filterMap_cons, List.mem_cons, Ref.fn.injEq]
    constructor
    · rintro (h | h)
      · exact Or.inl h.symm
      · exact Or.inr h
    · rintro (h | h)
      · exact Or.inl h.symm
      · exact Or.inr h
  | obj x => simp [initFnRefs]

omit [Rules] in
theorem mem_initObjRefs_cons {x : Name} {r : Ref} {rest : List InitItem} :
    x ∈ initObjRefs (.ref r :: rest) ↔ (r = .obj x) ∨ x ∈ initObjRefs rest := by
  cases r with
  | obj y =>
    simp only [initObjRefs, List.filterMap_cons, List.mem_cons, Ref.obj.injEq]
    constructor
    · rintro (h | h)
      · exact Or.inl h.symm
      · exact Or.inr h
    · rintro (h | h)
      · exact Or.inl h.symm
      · exact Or.inr h
  | fn g => simp [initObjRefs]

theorem initItems_ok {cur : Option Name} {fs xs : List Name} : ∀ (items : List InitItem) (st : PState),
    Knows st.globals fs xs → (∀ g, g ∈ initFnRefs items → g ∈ fs) → (∀ x, x ∈ initObjRefs items → x ∈ xs) →
    ∃ st' ss, initItems cur st items = .ok (st', ss)
  | [], st, _, _, _ => ⟨st, [], rfl⟩
  | .ref r :: rest, st, k, hf, hx => by
    obtain ⟨st1, s, h1⟩ := useRef_ok (cur := cur) k r (by
      cases r with
      | fn g => exact hf g (mem_initFnRefs_cons.mpr (Or.inl rfl))
      | obj x => exact hx x (mem_initObjRefs_cons.mpr (Or.inl rfl)))
    have k1 := k.evolves (evolves_useRef h1)
    obtain ⟨st2, ss, h2⟩ := initItems_ok (cur := cur) rest st1 k1
      (fun g hg => hf g (mem_initFnRefs_cons.mpr (Or.inr hg))) (fun x hx' => hx x (mem_initObjRefs_cons.mpr (Or.inr hx')))
    simp only [initItems, h1, h2, bind, Except.bind, pure, Except.pure]
    exact ⟨_, _, rfl⟩
  | .str n :: rest, st, k, hf, hx => by
    have k1 : Knows (newAnon cur st (strTy n) true).1.globals fs xs := k.evolves (evolves_newAnon cur st (strTy n) true [])
    obtain ⟨st2, ss, h2⟩ := initItems_ok (cur := cur) rest _ k1
      (fun g hg => hf g (by simpa [initFnRefs] using hg)) (fun x hx' => hx x (by simpa [initObjRefs] using hx'))
    simp only [initItems, h2, bind, Except.bind, pure, Except.pure]
    exact ⟨_, _, rfl⟩

omit [Rules] in
theorem all_contains {l fs : List Name} (h : l.all (fun g => fs.contains g) = true) : ∀ g, g ∈ l → g ∈ fs := by
  intro g hg
  rw [List.all_eq_true] at h
  simpa using h g hg

theorem bodyItems_ok {f : Name} {fs : List Name} : ∀ (items : List BodyItem) (st : PState) (xs : List Name),
    Knows st.globals fs xs → bodyOrdered fs xs items = true → ∃ st' us, bodyItems f st items = .ok (st', us)
  | [], st, _, _, _ => ⟨st, [], rfl⟩
  | b :: rest, st, xs, k, h => by
    -- one item
    have step : ∃ st1 u xs1, bodyItem f st b = .ok (st1, u) ∧ Knows st1.globals fs xs1 ∧ bodyOrdered fs xs1 rest = true := by
      cases b with
      | ref r =>
        cases r with
        | fn g =>
          simp only [bodyOrdered, Bool.and_eq_true] at h
          obtain ⟨st1, s, h1⟩ := useRef_ok (cur := some f) k (.fn g) (by simpa using h.1)
          exact ⟨st1, [s], xs, by simp [bodyItem, h1, bind, Except.bind, pure, Except.pure],
            k.evolves (evolves_useRef h1), h.2⟩
        | obj x =>
          simp only [bodyOrdered, Bool.and_eq_true] at h
          obtain ⟨st1, s, h1⟩ := useRef_ok (cur := some f) k (.obj x) (by simpa using h.1)
          exact ⟨st1, [s], xs, by simp [bodyItem, h1, bind, Except.bind, pure, Except.pure],
            k.evolves (evolves_useRef h1), h.2⟩
      | staticLocal tls ty init =>
        cases init with
        | none =>
          simp only [bodyOrdered] at h
          refine ⟨_, _, xs, rfl, ?_, h⟩
          exact k.evolves (Evolves.upd _ _ (fun _ => ⟨rfl, rfl, rfl, rfl⟩) (evolves_newAnon (some f) st ty false []))
        | some items =>
          simp only [bodyOrdered, Bool.and_eq_true] at h
          have k0 : Knows ({ (newAnon (some f) st ty true).1 with
              globals := updFirst (fun o => o.sym == (newAnon (some f) st ty true).2 && !o.isFunction) (fun o => { o with isTls := tls })
                (newAnon (some f) st ty true).1.globals } : PState).globals fs xs :=
            k.evolves (Evolves.upd _ _ (fun _ => ⟨rfl, rfl, rfl, rfl⟩) (evolves_newAnon (some f) st ty true []))
          obtain ⟨st1, ss, h1⟩ := initItems_ok (cur := some f) items _ k0 (all_contains h.1.1) (all_contains h.1.2)
          have hb : bodyItem f st (.staticLocal tls ty (some items)) =
              .ok ({ st1 with globals := setUses st1.globals (newAnon (some f) st ty true).2 ss }, [(newAnon (some f) st ty true).2]) := by
            simp only [bodyItem, Option.isSome_some, bind, Except.bind]
            rw [h1]
            rfl
          refine ⟨_, _, xs, hb, ?_, h.2⟩
          exact k.evolves (evolves_bodyItem hb)
      | str n =>
        simp only [bodyOrdered] at h
        exact ⟨_, _, xs, rfl, k.evolves (evolves_newAnon (some f) st (strTy n) true []), h⟩
      | externObj x tls ty =>
        simp only [bodyOrdered] at h
        refine ⟨_, _, x :: xs, rfl, ?_, h⟩
        have k1 : Knows (externO x tls ty (Rules.externInherits && prevStatic st.globals x) :: st.globals) fs xs :=
          k.evolves (Evolves.consData _ (by rfl) (by rfl) Evolves.refl)
        refine ⟨k1.1, fun y hy => ?_⟩
        rcases List.mem_cons.mp hy with rfl | hy
        · simp [hasObj]
        · exact k1.2 y hy
    obtain ⟨st1, u, xs1, h1, k1, ho⟩ := step
    obtain ⟨st2, us, h2⟩ := bodyItems_ok (f := f) rest st1 xs1 k1 ho
    simp only [bodyItems, h1, h2, bind, Except.bind, pure, Except.pure]
    exact ⟨_, _, rfl⟩

/-! ### redeclarations are compatible -/

/-- no diagnostic of `function` fires on the declarations `D` of one function, starting from the recorded flags
    (the checks read `is_definition` and `is_static`; with `Rules.flagsFollow` the latter changes along the way) -/
def fnOKFrom : Option Flags → List FnDecl → Bool
  | _, [] => true
  | none, d :: D => fnOKFrom (some (newFlags d.isStatic d.isExtern d.isInline d.body.isSome)) D
  | some q, d :: D =>
    !(q.isDefinition && d.body.isSome) && !(!q.isStatic && d.isStatic) &&
      fnOKFrom (some (redeclF d.isExtern d.isInline d.body.isSome q)) D

theorem redeclF_isDefinition (e i b : Bool) (q : Flags) : (redeclF e i b q).isDefinition = (q.isDefinition || b) := by
  unfold redeclF
  cases Rules.flagsFollow
  · rfl
  · obtain ⟨st, inl, idf, df⟩ := q
    cases idf <;> cases i <;> cases e <;> cases st <;> cases df <;> rfl

/-- a function with internal linkage keeps `is_static` -/
theorem redeclF_internal (e i b : Bool) (q : Flags) (h : q.isStatic = true ∧ q.isInlineDef = false) :
    (redeclF e i b q).isStatic = true ∧ (redeclF e i b q).isInlineDef = false := by
  unfold redeclF
  obtain ⟨st, inl, idf, df⟩ := q
  obtain ⟨h1, h2⟩ := h
  simp only at h1 h2
  subst h1 h2
  cases Rules.flagsFollow
  · exact ⟨rfl, rfl⟩
  · cases i <;> cases e <;> cases df <;> exact ⟨rfl, rfl⟩

theorem fnOKFrom_some : ∀ (D : List FnDecl) (q : Flags), (q.isDefinition = true → D.all (fun d => d.body.isNone) = true) →
    (D.filter (fun d => d.body.isSome)).length ≤ 1 →
    (¬ (q.isStatic = true ∧ q.isInlineDef = false) → D.all (fun d => !d.isStatic) = true) →
    fnOKFrom (some q) D = true
  | [], _, _, _, _ => rfl
  | d :: D, q, h1, h2, h3 => by
    simp only [fnOKFrom, Bool.and_eq_true, Bool.not_eq_true', Bool.and_eq_false_iff]
    refine ⟨⟨?_, ?_⟩, fnOKFrom_some D _ ?_ ?_ ?_⟩
    · cases hdf : q.isDefinition
      · exact Or.inl rfl
      · have := h1 hdf
        simp only [List.all_cons, Bool.and_eq_true] at this
        right
        cases hb : d.body <;> simp_all
    · by_cases hint : q.isStatic = true ∧ q.isInlineDef = false
      · exact Or.inl (by rw [hint.1]; rfl)
      · have := h3 hint
        simp only [List.all_cons, Bool.and_eq_true, Bool.not_eq_true'] at this
        exact Or.inr this.1
    · intro hdf'
      rw [redeclF_isDefinition] at hdf'
      cases hb : d.body.isSome
      · simp only [hb, Bool.or_false] at hdf'
        have := h1 hdf'
        simp only [List.all_cons, Bool.and_eq_true] at this
        exact this.2
      · -- this declaration is the definition: no other one
        simp only [List.filter_cons, hb, if_true, List.length_cons] at h2
        have h0 : (D.filter (fun d => d.body.isSome)).length = 0 := by omega
        rw [List.length_eq_zero_iff, List.filter_eq_nil_iff] at h0
        rw [List.all_eq_true]
        intro x hx
        have := h0 x hx
        cases hxb : x.body <;> simp_all
    · simp only [List.filter_cons] at h2
      split at h2
      · simp only [List.length_cons] at h2; omega
      · exact h2
    · intro hnot
      by_cases hint : q.isStatic = true ∧ q.isInlineDef = false
      · exact absurd (redeclF_internal _ _ _ q hint) hnot
      · have := h3 hint
        simp only [List.all_cons, Bool.and_eq_true] at this
        exact this.2

theorem fnOKFrom_valid (D : List FnDecl) (h : fnValid D = true) : fnOKFrom none D = true := by
  cases D with
  | nil => rfl
  | cons d D =>
    simp only [fnValid, Bool.and_eq_true, decide_eq_true_eq, Bool.or_eq_true] at h
    obtain ⟨⟨h1, _⟩, h3⟩ := h
    simp only [fnOKFrom]
    apply fnOKFrom_some
    · intro hb
      have hb' : d.body.isSome = true := hb
      simp only [List.filter_cons, hb', if_true, List.length_cons] at h1
      have h0 : (D.filter (fun d => d.body.isSome)).length = 0 := by omega
      rw [List.length_eq_zero_iff, List.filter_eq_nil_iff] at h0
      rw [List.all_eq_true]
      intro x hx
      have := h0 x hx
      cases hxb : x.body <;> simp_all
    · simp only [List.filter_cons] at h1
      split at h1
      · simp only [List.length_cons] at h1; omega
      · exact h1
    · intro hnot
      -- the first declaration is not `static`
      have hs : d.isStatic = false := by
        cases hds : d.isStatic
        · rfl
        · exfalso
          apply hnot
          simp [newFlags, hds]
      rcases h3 with h3 | h3
      · simp [fnInternal, hs] at h3
      · simp only [List.all_cons, Bool.and_eq_true] at h3
        exact h3.2

omit [Rules] in
theorem fnDecls_cons_func (f : Name) (n : Nat) (s e i : Bool) (body : Option (List BodyItem)) (ds : List Decl) (g : Name) :
    fnDecls (.func f n s e i body :: ds) g = if f = g then ⟨s, e, i, body⟩ :: fnDecls ds g else fnDecls ds g := by
  simp only [fnDecls, List.filterMap_cons]
  by_cases h : f = g <;> simp [h]

omit [Rules] in
theorem fnDecls_cons_obj (x : Name) (s e t : Bool) (ty : ObjTy) (init : Option (List InitItem)) (ds : List Decl) (g : Name) :
    fnDecls (.obj x s e t ty init :: ds) g = fnDecls ds g := by
  simp [fnDecls]

/-- every function's remaining declarations are compatible with what has been recorded -/
def FnsOK (gs : List Obj) (ds : List Decl) : Prop :=
  ∀ g, fnOKFrom ((T gs g).map flagsOf) (fnDecls ds g) = true

theorem declFunctionHead_ok {st : PState} {f : Name} {s e i b : Bool} {D : List FnDecl} {body : Option (List BodyItem)}
    (hb : b = body.isSome) (h : fnOKFrom ((T st.globals f).map flagsOf) (⟨s, e, i, body⟩ :: D) = true) :
    ∃ st', declFunctionHead st f s e i b = .ok st' := by
  unfold declFunctionHead
  cases hf : findFunc st.globals f with
  | none => exact ⟨_, rfl⟩
  | some fn =>
    have hT : (T st.globals f).map flagsOf = some (flagsOf (fview fn)) := by simp [T, hf]
    rw [hT] at h
    simp only [fnOKFrom, Bool.and_eq_true, Bool.not_eq_true', flagsOf, fview] at h
    simp only [hb, h.1.1, h.1.2]
    exact ⟨_, rfl⟩

/-! ### the whole unit -/

theorem declStep_ok {st : PState} {d : Decl} {ds : List Decl} {fs xs : List Name}
    (hF : FnsOK st.globals (d :: ds)) (k : Knows st.globals fs xs) (hr : refsOrdered (d :: ds) fs xs = true) :
    ∃ st' fs' xs', declStep st d = .ok st' ∧ FnsOK st'.globals ds ∧ Knows st'.globals fs' xs' ∧
      refsOrdered ds fs' xs' = true := by
  -- whatever the step is, the table of (is_definition, is_static) follows `stepDS`
  have table : ∀ st', declStep st d = .ok st' → FnsOK st'.globals ds := by
    intro st' h g
    rw [T_declStep h, stepT_eq, flagsOf_stepFV]
    have hg := hF g
    cases d with
    | func f n s e i body =>
      rw [fnDecls_cons_func] at hg
      simp only [stepFlags]
      by_cases hfg : g = f
      · subst hfg
        simp only [if_true] at hg ⊢
        cases hc : (T st.globals g).map flagsOf with
        | none => rw [hc] at hg; simpa [fnOKFrom] using hg
        | some q =>
          rw [hc] at hg
          simp only [fnOKFrom, Bool.and_eq_true] at hg
          exact hg.2
      · have : ¬ f = g := fun e' => hfg e'.symm
        simp only [this, if_false] at hg
        simp only [hfg, if_false]
        exact hg
    | obj x s e t ty init =>
      rw [fnDecls_cons_obj] at hg
      exact hg
  cases d with
  | func f n s e i body =>
    simp only [refsOrdered, Bool.and_eq_true] at hr
    have hg := hF f
    rw [fnDecls_cons_func] at hg
    simp only [if_true] at hg
    obtain ⟨st1, h1⟩ := declFunctionHead_ok (b := body.isSome) rfl hg
    have k1 : Knows st1.globals (f :: fs) xs := by
      have k1 := k.evolves (evolves_declFunctionHead h1)
      refine ⟨fun g hg' => ?_, k1.2⟩
      rcases List.mem_cons.mp hg' with rfl | hg'
      · -- after `function` has run its head, find_func(f) succeeds
        rw [← findFunc_isSome]
        have hT := T_declFunctionHead h1
        have : (T st1.globals g).isSome = true := by
          rw [hT]
          cases hc : T st.globals g <;> simp [updT, hc]
        simpa [T] using this
      · exact k1.1 g hg'
    cases body with
    | none =>
      have hd : declStep st (.func f n s e i none) = .ok st1 := by
        simp only [declStep, declFunction, Option.isSome_none] at h1 ⊢
        rw [h1]
      exact ⟨st1, f :: fs, xs, hd, table _ hd, k1, hr.2⟩
    | some items =>
      simp only at hr
      let stA := (newAnon (some f) (newAnon (some f) st1 (strTy (n + 1)) true).1 (strTy (n + 1)) true).1
      have kA : Knows stA.globals (f :: fs) xs :=
        k1.evolves (Evolves.consData _ rfl rfl (Evolves.consData _ rfl rfl Evolves.refl))
      obtain ⟨st2, us, h2⟩ := bodyItems_ok (f := f) items stA xs kA hr.1
      have hd : declStep st (.func f n s e i (some items)) =
          .ok { st2 with globals := updFunc st2.globals f (fun o => { o with uses := us }) } := by
        simp only [declStep, declFunction, Option.isSome_some] at h1 ⊢
        rw [h1]
        simp only
        rw [h2]
      refine ⟨_, f :: fs, xs, hd, table _ hd, ?_, hr.2⟩
      exact (kA.evolves (evolves_bodyItems items h2)).evolves (evolves_updFunc f (keeps_setUses us))
  | obj x s e t ty init =>
    simp only [refsOrdered, Bool.and_eq_true] at hr
    cases init with
    | none =>
      refine ⟨_, fs, x :: xs, rfl, table _ rfl, ?_, hr.2⟩
      show Knows (varObj 0 x (varStatic (prevStatic st.globals) x s e) e t ty none :: st.globals) fs (x :: xs)
      have k1 : Knows (varObj 0 x (varStatic (prevStatic st.globals) x s e) e t ty none :: st.globals) fs xs :=
        k.evolves (Evolves.consData _ (by rfl) (by rfl) Evolves.refl)
      refine ⟨k1.1, fun y hy => ?_⟩
      rcases List.mem_cons.mp hy with rfl | hy
      · simp [hasObj, varObj]
      · exact k1.2 y hy
    | some items =>
      simp only [Bool.and_eq_true] at hr
      let var : Obj := { sym := .named x, isDefinition := true, isStatic := varStatic (prevStatic st.globals) x s e, isTls := t, ty := ty, hasInit := true }
      have k1 : Knows (var :: st.globals) fs (x :: xs) := by
        have k1 := k.evolves (gs' := var :: st.globals) (Evolves.consData _ rfl rfl Evolves.refl)
        refine ⟨k1.1, fun y hy => ?_⟩
        rcases List.mem_cons.mp hy with rfl | hy
        · simp [hasObj, var]
        · exact k1.2 y hy
      obtain ⟨st1, ss, h1⟩ := initItems_ok (cur := none) items { st with globals := var :: st.globals } k1
        (all_contains hr.1.1) (all_contains hr.1.2)
      have hd : declStep st (.obj x s e t ty (some items)) = .ok { st1 with
          globals := updFirst (fun o => o.sym == .named x && !o.isFunction) (fun o => { o with uses := ss }) st1.globals } := by
        simp only [declStep, declObject, bind, Except.bind]
        have h1' := h1
        simp only [var, varStatic] at h1'
        rw [h1']
        rfl
      refine ⟨_, fs, x :: xs, hd, table _ hd, ?_, hr.2⟩
      exact (k1.evolves (evolves_initItems items h1)).evolves (Evolves.upd _ _ (keeps_setUses ss) Evolves.refl)

theorem declAll_ok : ∀ (ds : List Decl) (st : PState) (fs xs : List Name), FnsOK st.globals ds → Knows st.globals fs xs →
    refsOrdered ds fs xs = true → ∃ st', declAll st ds = .ok st'
  | [], st, _, _, _, _, _ => ⟨st, rfl⟩
  | d :: ds, st, fs, xs, hF, k, hr => by
    obtain ⟨st1, fs1, xs1, h1, hF1, k1, hr1⟩ := declStep_ok hF k hr
    obtain ⟨st2, h2⟩ := declAll_ok ds st1 fs1 xs1 hF1 k1 hr1
    exact ⟨st2, by simp [declAll, h1, h2, bind, Except.bind]⟩

/-! ### `dedup`, `fnNames`, `objNames` -/

omit [Rules] in
theorem mem_dedup {α : Type} [DecidableEq α] {a : α} : ∀ {l : List α}, a ∈ dedup l ↔ a ∈ l
  | [] => Iff.rfl
  | b :: bs => by
    unfold dedup
    by_cases hb : b ∈ bs
    · simp only [hb, if_true, List.mem_cons]
      rw [mem_dedup (l := bs)]
      constructor
      · exact Or.inr
      · rintro (rfl | h)
        · exact hb
        · exact h
    · simp only [hb, if_false, List.mem_cons, mem_dedup (l := bs)]

omit [Rules] in
theorem mem_fnNames {ds : List Decl} {f : Name} : f ∈ fnNames ds ↔ fnDecls ds f ≠ [] := by
  unfold fnNames
  rw [List.mem_reverse, mem_dedup, List.mem_reverse, List.mem_filterMap]
  unfold fnDecls
  rw [Ne, List.filterMap_eq_nil_iff]
  constructor
  · rintro ⟨d, hd, hh⟩ hall
    have := hall d hd
    cases d with
    | func g n s e i b =>
      simp only [Option.some.injEq] at hh
      simp [hh] at this
    | obj => cases hh
  · intro h
    simp only [Classical.not_forall] at h
    obtain ⟨d, hd, hne⟩ := h
    refine ⟨d, hd, ?_⟩
    cases d with
    | func g n s e i b =>
      by_cases hg : g = f
      · simp [hg]
      · simp [hg] at hne
    | obj => simp at hne

omit [Rules] in
theorem mem_objNames {ds : List Decl} {x : Name} : x ∈ objNames ds ↔ objDecls ds x ≠ [] := by
  unfold objNames
  rw [List.mem_reverse, mem_dedup, List.mem_reverse, List.mem_filterMap]
  unfold objDecls
  rw [Ne, List.filterMap_eq_nil_iff]
  constructor
  · rintro ⟨d, hd, hh⟩ hall
    have := hall d hd
    cases d with
    | obj y s e t ty init =>
      simp only [Option.some.injEq] at hh
      simp [hh] at this
    | func => cases hh
  · intro h
    simp only [Classical.not_forall] at h
    obtain ⟨d, hd, hne⟩ := h
    refine ⟨d, hd, ?_⟩
    cases d with
    | obj y s e t ty init =>
      by_cases hg : y = x
      · simp [hg]
      · simp [hg] at hne
    | func => simp at hne

/-! ### the parts of `valid` -/

omit [Rules] in
theorem valid_parts {ds : List Decl} (hv : valid ds = true) :
    (∀ f, f ∈ fnNames ds → fnValid (fnDecls ds f) = true) ∧
    (∀ x, x ∈ objNames ds → objValid (objDecls ds x) = true) ∧
    (∀ f, f ∈ fnNames ds → f ∉ objNames ds ∧ f ∉ blockExternNames ds) ∧
    refsOrdered ds [] [] = true ∧
    (∀ f, f ∈ fnNames ds → fnInternal (fnDecls ds f) = true → fnDefined (fnDecls ds f) = false → f ∉ usedNames ds) ∧
    blockExternsAgree ds = true := by
  simp only [valid, Bool.and_eq_true, List.all_eq_true] at hv
  obtain ⟨⟨⟨⟨⟨h1, h2⟩, h3⟩, h4⟩, h5⟩, h6⟩ := hv
  refine ⟨h1, h2, fun f hf => ?_, h4, fun f hf hi hd hu => ?_, h6⟩
  · have := h3 f hf
    simpa using this
  · have := h5 f hf
    simp [hi, hd, hu] at this

omit [Rules] in
theorem valid_ordered {ds : List Decl} (hv : valid ds = true) : refsOrdered ds [] [] = true := (valid_parts hv).2.2.2.1

/-- **`parse` accepts the unit.** -/
theorem parse_ok {ds : List Decl} (hv : valid ds = true) : ∃ st, declAll {} ds = .ok st := by
  refine declAll_ok ds {} [] [] ?_ ⟨fun _ h => absurd h List.not_mem_nil, fun _ h => absurd h List.not_mem_nil⟩ (valid_ordered hv)
  intro g
  have hT : (T ({} : PState).globals g).map flagsOf = none := rfl
  rw [hT]
  by_cases hg : g ∈ fnNames ds
  · exact fnOKFrom_valid _ ((valid_parts hv).1 g hg)
  · rw [mem_fnNames, Classical.not_not] at hg
    rw [hg]; rfl

end ChibiVerif.Linkage
