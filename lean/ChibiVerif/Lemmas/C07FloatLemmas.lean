/- Lemmas for the floating half of C07: the translated folder (`Gen.eval2` / `Gen.evalDouble`) run by an x86-64 host
   (`HostFp.ofOps O`) on the tree chibicc builds for an arithmetic constant expression (`elabA`) computes the C11 value
   (`Spec.ConstF.eval O`: every operation once, in the format of its type), for every FPU `O` that meets `Sound`. -/
import ChibiVerif.Lemmas.ConstEvalLemmas
import ChibiVerif.Lemmas.C07ValLemmas
import ChibiVerif.Model.ConstElabF
import ChibiVerif.Model.HostFpX86
set_option linter.unusedSimpArgs false
set_option linter.unusedVariables false

namespace ChibiVerif.C07Float
open ChibiVerif.Host ChibiVerif.Gen.ConstEval ChibiVerif.Spec.ConstF ChibiVerif.Spec.Fpu
open ChibiVerif.Spec.Const hiding typeOf eval
open ChibiVerif.ConstElab ChibiVerif.ConstEvalLemmas

/-! ## What is assumed of the FPU -/

/-- a `float` datum that survives widening to `long double` and narrowing back (on x86: every datum but a signalling NaN) -/
def RT32 (O : FpOps) (x : BitVec 32) : Prop := O.fst32 (O.fld32 x) = x
/-- the same for `double` -/
def RT64 (O : FpOps) (x : BitVec 64) : Prop := O.fst64 (O.fld64 x) = x

/-- **The contracts.**  `fld32_exact` … `fchs_spec` are contracts of `FpuSpec` (Spec/FpuSpec.lean: widening is exact, `fild`
    of a 64-bit integer is exact, `fchs` complements the sign bit).  The others say that narrowing a `long double` (`fst`)
    rounds once and consistently with the SSE conversions, and that no operation manufactures a signalling NaN:
    * `narrow_int*`: a 64-bit integer loaded exactly and narrowed is the integer rounded once (`cvtsi2ss/sd`, i.e. `ofInt*`);
    * `narrow_64_32` / `widen_32_64`: `double → long double → float` is `cvtsd2ss`, `float → long double → double` is `cvtss2sd`;
    * `neg_*`: `fchs` between widening and narrowing complements the sign bit of the narrow datum;
    * `rt_*`: what an instruction delivers (from round-trip-exact operands) is round-trip-exact. -/
structure Sound (O : FpOps) : Prop where
  fld32_exact : ∀ x, Val.same (O.val80 (O.fld32 x)) (O.val32 x) = true
  fld64_exact : ∀ x, Val.same (O.val80 (O.fld64 x)) (O.val64 x) = true
  ofInt80_val : ∀ v : Int, v.natAbs < 2 ^ 64 → (O.val80 (O.ofInt80 v)).toInt? = some v
  fchs_spec : ∀ x, O.fchs x = x ^^^ (1#80 <<< 79)
  narrow_int32 : ∀ v : Int, v.natAbs < 2 ^ 64 → O.fst32 (O.ofInt80 v) = O.ofInt32 v
  narrow_int64 : ∀ v : Int, v.natAbs < 2 ^ 64 → O.fst64 (O.ofInt80 v) = O.ofInt64 v
  narrow_64_32 : ∀ x, RT64 O x → O.fst32 (O.fld64 x) = O.cvtsd2ss x
  widen_32_64 : ∀ x, RT32 O x → O.fst64 (O.fld32 x) = O.cvtss2sd x
  neg_32 : ∀ x, RT32 O x → O.fst32 (O.fchs (O.fld32 x)) = x ^^^ (1#32 <<< 31)
  neg_64 : ∀ x, RT64 O x → O.fst64 (O.fchs (O.fld64 x)) = x ^^^ (1#64 <<< 63)
  rt_neg32 : ∀ x, RT32 O x → RT32 O (x ^^^ (1#32 <<< 31))
  rt_neg64 : ∀ x, RT64 O x → RT64 O (x ^^^ (1#64 <<< 63))
  rt_fst32 : ∀ y, RT32 O (O.fst32 y)
  rt_fst64 : ∀ y, RT64 O (O.fst64 y)
  rt_addss : ∀ a b, RT32 O a → RT32 O b → RT32 O (O.addss a b)
  rt_subss : ∀ a b, RT32 O a → RT32 O b → RT32 O (O.subss a b)
  rt_mulss : ∀ a b, RT32 O a → RT32 O b → RT32 O (O.mulss a b)
  rt_divss : ∀ a b, RT32 O a → RT32 O b → RT32 O (O.divss a b)
  rt_addsd : ∀ a b, RT64 O a → RT64 O b → RT64 O (O.addsd a b)
  rt_subsd : ∀ a b, RT64 O a → RT64 O b → RT64 O (O.subsd a b)
  rt_mulsd : ∀ a b, RT64 O a → RT64 O b → RT64 O (O.mulsd a b)
  rt_divsd : ∀ a b, RT64 O a → RT64 O b → RT64 O (O.divsd a b)

/-- what `FpuSpec` itself does not constrain: the narrowing contracts of `Sound`, for an `FpuSpec` under a control word -/
structure Narrowing (F : FpuSpec) (cw : BitVec 16) : Prop where
  narrow_int32 : ∀ v : Int, v.natAbs < 2 ^ 64 → F.fst32 cw (F.ofInt80 v) = F.ofInt32 v
  narrow_int64 : ∀ v : Int, v.natAbs < 2 ^ 64 → F.fst64 cw (F.ofInt80 v) = F.ofInt64 v
  narrow_64_32 : ∀ x, RT64 (F.ops cw) x → F.fst32 cw (F.fld64 x) = F.cvtsd2ss x
  widen_32_64 : ∀ x, RT32 (F.ops cw) x → F.fst64 cw (F.fld32 x) = F.cvtss2sd x
  neg_32 : ∀ x, RT32 (F.ops cw) x → F.fst32 cw (F.fchs (F.fld32 x)) = x ^^^ (1#32 <<< 31)
  neg_64 : ∀ x, RT64 (F.ops cw) x → F.fst64 cw (F.fchs (F.fld64 x)) = x ^^^ (1#64 <<< 63)
  rt_neg32 : ∀ x, RT32 (F.ops cw) x → RT32 (F.ops cw) (x ^^^ (1#32 <<< 31))
  rt_neg64 : ∀ x, RT64 (F.ops cw) x → RT64 (F.ops cw) (x ^^^ (1#64 <<< 63))
  rt_fst32 : ∀ y, RT32 (F.ops cw) (F.fst32 cw y)
  rt_fst64 : ∀ y, RT64 (F.ops cw) (F.fst64 cw y)
  rt_addss : ∀ a b, RT32 (F.ops cw) a → RT32 (F.ops cw) b → RT32 (F.ops cw) (F.addss a b)
  rt_subss : ∀ a b, RT32 (F.ops cw) a → RT32 (F.ops cw) b → RT32 (F.ops cw) (F.subss a b)
  rt_mulss : ∀ a b, RT32 (F.ops cw) a → RT32 (F.ops cw) b → RT32 (F.ops cw) (F.mulss a b)
  rt_divss : ∀ a b, RT32 (F.ops cw) a → RT32 (F.ops cw) b → RT32 (F.ops cw) (F.divss a b)
  rt_addsd : ∀ a b, RT64 (F.ops cw) a → RT64 (F.ops cw) b → RT64 (F.ops cw) (F.addsd a b)
  rt_subsd : ∀ a b, RT64 (F.ops cw) a → RT64 (F.ops cw) b → RT64 (F.ops cw) (F.subsd a b)
  rt_mulsd : ∀ a b, RT64 (F.ops cw) a → RT64 (F.ops cw) b → RT64 (F.ops cw) (F.mulsd a b)
  rt_divsd : ∀ a b, RT64 (F.ops cw) a → RT64 (F.ops cw) b → RT64 (F.ops cw) (F.divsd a b)

/-- an `FpuSpec` (the contracts C02 uses) whose narrowing stores round once is `Sound` -/
theorem sound_of_fpuSpec (F : FpuSpec) (cw : BitVec 16) (hn : Narrowing F cw) : Sound (F.ops cw) where
  fld32_exact := F.fld32_exact
  fld64_exact := F.fld64_exact
  ofInt80_val := fun v hv => by
    have := F.ofInt80_val v (by omega)
    rw [roundInt_64 v hv] at this
    exact this
  fchs_spec := F.fchs_spec
  narrow_int32 := hn.narrow_int32
  narrow_int64 := hn.narrow_int64
  narrow_64_32 := hn.narrow_64_32
  widen_32_64 := hn.widen_32_64
  neg_32 := hn.neg_32
  neg_64 := hn.neg_64
  rt_neg32 := hn.rt_neg32
  rt_neg64 := hn.rt_neg64
  rt_fst32 := hn.rt_fst32
  rt_fst64 := hn.rt_fst64
  rt_addss := hn.rt_addss
  rt_subss := hn.rt_subss
  rt_mulss := hn.rt_mulss
  rt_divss := hn.rt_divss
  rt_addsd := hn.rt_addsd
  rt_subsd := hn.rt_subsd
  rt_mulsd := hn.rt_mulsd
  rt_divsd := hn.rt_divsd

/-! ## Typing of the elaborated tree -/

theorem descrF_flonum (t : FTy) : isFlonum (descrF t) = true := by cases t <;> rfl
theorem descrF_not_integer (t : FTy) : isInteger (descrF t) = false := by cases t <;> rfl

theorem gctA_descr (a b : ATy) : getCommonTypeA (descrA a) (descrA b) = descrA (usual a b) := by
  rcases a with ta | fa <;> rcases b with tb | fb
  · cases ta <;> cases tb <;> rfl
  · cases ta <;> cases fb <;> rfl
  · cases fa <;> cases tb <;> rfl
  · cases fa <;> cases fb <;> rfl

theorem gctA_int (a : ATy) : getCommonTypeA tyInt (descrA a) = descrA (promote a) := by
  rcases a with ta | fa
  · cases ta <;> rfl
  · cases fa <;> rfl

theorem usual_promote (a : ATy) : usual (.int .i32) a = promote a := by
  rcases a with ta | fa
  · cases ta <;> rfl
  · cases fa <;> rfl

theorem elabA_ty (e : AExpr) : nodeTy (elabA e) = descrA (typeOf e) := by
  induction e with
  | ilit t v => rfl
  | flit t v => rfl
  | un op e ih =>
    cases op
    · simp only [elabA, mkPromotedA, nodeTy_mk, typeOf, ih, gctA_int]
    · simp only [elabA, mkPromotedA, nodeTy_mk, typeOf, ih, gctA_int]
    · rfl
    · simp only [elabA, typeOf]
      split
      · rename_i hc
        rw [ih] at hc
        generalize typeOf e = t at hc ⊢
        rcases t with ti | tf
        · cases ti <;> first | rfl | simp [descrA, descr, isInteger] at hc
        · cases tf <;> simp [descrA, descrF, isInteger] at hc
      · rename_i hc
        rw [ih] at hc ⊢
        generalize typeOf e = t at hc ⊢
        rcases t with ti | tf
        · cases ti <;> first | rfl | simp [descrA, descr, isInteger] at hc
        · cases tf <;> rfl
  | bin op a b iha ihb =>
    cases op <;> simp only [elabA, mkArithA, mkCompareA, mkPromotedA, bin, nodeTy_mk, typeOf, iha, ihb, gctA_descr, gctA_int] <;> rfl
  | land a b _ _ => rfl
  | lor a b _ _ => rfl
  | cond c a b _ iha ihb => simp only [elabA, nodeTy_mk, typeOf, iha, ihb, gctA_descr]
  | cast t e _ => rfl

theorem elabA_ne_null (e : AExpr) : elabA e ≠ .null := by
  cases e with
  | ilit t v => simp [elabA]
  | flit t v => simp [elabA]
  | un op e =>
    cases op
    · simp [elabA, mkPromotedA]
    · simp [elabA, mkPromotedA]
    · simp [elabA, un]
    · simp only [elabA]
      split
      · simp [mkCast, un]
      · exact elabA_ne_null e
  | bin op a b => cases op <;> simp [elabA, mkArithA, mkCompareA, mkPromotedA, bin]
  | land a b => simp [elabA, bin]
  | lor a b => simp [elabA, bin]
  | cond c a b => simp [elabA]
  | cast t e => simp [elabA, mkCast, un]

theorem tyOf_elabA (e : AExpr) : CNode.tyOf (elabA e) = .ok (descrA (typeOf e)) := by
  have h := elabA_ty e
  cases he : elabA e with
  | null => exact absurd he (elabA_ne_null e)
  | mk k ty v fv a b c d e' => rw [he] at h; simp only [nodeTy_mk] at h; simp only [CNode.tyOf, h]

/-! ## What a node evaluates to -/

section nodes
variable (O : FpOps)

/-- the x86-64 host on the FPU `O` -/
abbrev host : FpEnv := HostFp.ofOps O

/-- the `long double` the folder holds for a value: a floating value widened exactly, an integer converted exactly -/
def widen : AVal → BitVec 80
  | .int v => O.ofInt80 v
  | .f32 b => O.fld32 b
  | .f64 b => O.fld64 b
  | .f80 b => b

/-- `v` is a value of type `ty` (an integer in range; a `float` / `double` that survives widening and narrowing) -/
def Good : AVal → ATy → Prop
  | .int x, .int t => t.inRange x = true
  | .f32 b, .flt .f32 => RT32 O b
  | .f64 b, .flt .f64 => RT64 O b
  | .f80 _, .flt .f80 => True
  | _, _ => False

/-- node `n` has type `ty` and the folder evaluates it to `v`: through `eval2` (any label) to the `int64_t` image of an
    integer, through `eval_double` to the widened floating value -/
def NodeHas (n : CNode) (ty : ATy) (v : AVal) : Prop :=
  CNode.tyOf n = .ok (descrA ty) ∧ Good O v ty ∧
    match v with
    | .int x => ∀ lab, eval2 .wrapping (host O) n lab = .ok (img x)
    | w => evalDouble .wrapping (host O) n = .ok (widen O w)

theorem good_int {x : Int} {ty : ATy} (h : Good O (.int x) ty) : ∃ t, ty = .int t ∧ t.inRange x = true := by
  rcases ty with t | f
  · exact ⟨t, rfl, h⟩
  · cases f <;> exact absurd h (by simp [Good])

theorem inRange_natAbs (t : ITy) (x : Int) (h : t.inRange x = true) : x.natAbs < 2 ^ 64 := by
  have := inRange_wide t x h
  omega

/-- `eval_double` of an integer node: the exact `long double` of its value -/
theorem evalDouble_of_int (n : CNode) (t : ITy) (x : Int) (hty : CNode.tyOf n = .ok (descr t)) (hx : t.inRange x = true)
    (h : ∀ lab, eval2 .wrapping (host O) n lab = .ok (img x)) : evalDouble .wrapping (host O) n = .ok (O.ofInt80 x) := by
  cases n with
  | null => cases hty
  | mk k ty nv fv l r c th el =>
    simp only [CNode.tyOf, Except.ok.injEq] at hty
    subst hty
    rw [evalDouble_integer _ _ _ _ _ _ _ _ _ _ k (descr_integer t), h false]
    simp only [bind, Except.bind, pure, Except.pure]
    congr 1
    have hw := inRange_wide t x hx
    cases t <;> simp only [descr, Bool.false_eq_true, ite_false, ite_true, HostFp.ofOps] <;> rng <;> congr 1
    all_goals first
      | exact img_toInt x (by omega) (by omega)
      | exact img_toNat x (by omega) (by omega)

theorem NodeHas.evalDouble {n : CNode} {ty : ATy} {v : AVal} (h : NodeHas O n ty v) :
    evalDouble .wrapping (host O) n = .ok (widen O v) := by
  obtain ⟨hty, hg, hv⟩ := h
  cases v with
  | int x =>
    obtain ⟨t, rfl, hx⟩ := good_int O hg
    exact evalDouble_of_int O n t x hty hx hv
  | f32 b => exact hv
  | f64 b => exact hv
  | f80 b => exact hv

theorem NodeHas.tyOf {n : CNode} {ty : ATy} {v : AVal} (h : NodeHas O n ty v) : CNode.tyOf n = .ok (descrA ty) := h.1

/-- a node of floating type through `eval2`: the host's conversion of the widened value to `int64_t` -/
theorem eval2_of_flonum (n : CNode) (f : FTy) (w : BitVec 80) (hty : CNode.tyOf n = .ok (descrF f))
    (h : evalDouble .wrapping (host O) n = .ok w) (lab : Bool) :
    eval2 .wrapping (host O) n lab = .ok (truncTo 64 (O.val80 w)) := by
  cases n with
  | null => cases hty
  | mk k ty nv fv l r c th el =>
    simp only [CNode.tyOf, Except.ok.injEq] at hty
    subst hty
    rw [eval2_flonum _ _ _ _ _ _ _ _ _ _ _ k (descrF_flonum f), h]
    rfl

theorem nodeTy_of_tyOf {n : CNode} {ty : CTy} (h : CNode.tyOf n = .ok ty) : nodeTy n = ty := by
  cases n with
  | null => cases h
  | mk k t v fv a b c d e => simp only [CNode.tyOf, Except.ok.injEq] at h; simp [h]

theorem same_refl (v : Val) : Val.same v v = true := by
  cases v <;> simp [Val.same]

/-- is `v` a floating value? -/
def isFlt : AVal → Bool
  | .int _ => false
  | _ => true

variable (hS : Sound O)
include hS

/-- the widened datum denotes what the narrow one does -/
theorem val_widen (v : AVal) (hv : isFlt v = true) : Val.same (O.val80 (widen O v)) (v.val O) = true := by
  cases v with
  | int x => cases hv
  | f32 b => exact hS.fld32_exact b
  | f64 b => exact hS.fld64_exact b
  | f80 b => exact same_refl _

theorem zero80 : ∃ n e, O.val80 (O.ofInt80 0) = .fin n 0 e := Val.toInt_zero_form (hS.ofInt80_val 0 (by decide))

omit hS in
theorem cmp_zero_beq (v : Val) (n : Bool) (e : Int) : (Val.cmp v (.fin n 0 e) == .eq) = v.isZero := by
  rw [Bool.eq_iff_iff, beq_iff_eq, Val.cmp_zero_eq]

/-- the host's `w != 0` on a `long double` -/
theorem host_ne_zero (w : BitVec 80) : (!((host O).eq80 w ((host O).i32to80 (0#32)))) = !(O.val80 w).isZero := by
  obtain ⟨n, e, hz⟩ := zero80 O hS
  show (!(Val.cmp (O.val80 w) (O.val80 (O.ofInt80 (0#32).toInt)) == .eq)) = _
  rw [show (0#32).toInt = 0 from rfl, hz, cmp_zero_beq]

omit hS in
theorem spec_truth_flt (v : AVal) (hv : isFlt v = true) : Spec.ConstF.truth O v = !(v.val O).isZero := by
  cases v with
  | int x => cases hv
  | f32 b => simp only [Spec.ConstF.truth, bne, cmp_zero_beq]
  | f64 b => simp only [Spec.ConstF.truth, bne, cmp_zero_beq]
  | f80 b => simp only [Spec.ConstF.truth, bne, cmp_zero_beq]

omit hS in
theorem good_flt {v : AVal} {ty : ATy} (hv : isFlt v = true) (h : Good O v ty) : ∃ f, ty = .flt f := by
  rcases ty with t | f
  · cases v with
    | int x => cases hv
    | f32 b => exact absurd h (by simp [Good])
    | f64 b => exact absurd h (by simp [Good])
    | f80 b => exact absurd h (by simp [Good])
  · exact ⟨f, rfl⟩

/-- `eval_double(n) != 0` on any node -/
theorem fpTruth_node {n : CNode} {ty : ATy} {v : AVal} (h : NodeHas O n ty v) :
    fpTruth .wrapping (host O) n = .ok (!(O.val80 (widen O v)).isZero) := by
  unfold fpTruth
  rw [h.evalDouble]
  simp only [bind, Except.bind, pure, Except.pure, host_ne_zero O hS]

/-- `eval_truth(n)`: the C11 truth value of the node's value -/
theorem truth_node {n : CNode} {ty : ATy} {v : AVal} (h : NodeHas O n ty v) :
    ConstEvalLemmas.truth .wrapping (host O) n = .ok (Spec.ConstF.truth O v) := by
  cases v with
  | int x =>
    obtain ⟨hty, hg, hv⟩ := h
    obtain ⟨t, rfl, hx⟩ := good_int O hg
    have hw := inRange_wide t x hx
    exact truth_ok (host O) x n hv hw (by rw [nodeTy_of_tyOf hty]; exact descr_not_flonum t)
  | f32 b =>
    have hf := fpTruth_node O hS h
    obtain ⟨hty, hg, hv⟩ := h
    obtain ⟨f, rfl⟩ := good_flt O rfl hg
    unfold ConstEvalLemmas.truth
    simp only [hty, bind, Except.bind, descrA, descrF_flonum, ite_true]
    rw [hf, spec_truth_flt O _ rfl, Val.same_isZero (val_widen O hS _ rfl)]
  | f64 b =>
    have hf := fpTruth_node O hS h
    obtain ⟨hty, hg, hv⟩ := h
    obtain ⟨f, rfl⟩ := good_flt O rfl hg
    unfold ConstEvalLemmas.truth
    simp only [hty, bind, Except.bind, descrA, descrF_flonum, ite_true]
    rw [hf, spec_truth_flt O _ rfl, Val.same_isZero (val_widen O hS _ rfl)]
  | f80 b =>
    have hf := fpTruth_node O hS h
    obtain ⟨hty, hg, hv⟩ := h
    obtain ⟨f, rfl⟩ := good_flt O rfl hg
    unfold ConstEvalLemmas.truth
    simp only [hty, bind, Except.bind, descrA, descrF_flonum, ite_true]
    rw [hf, spec_truth_flt O _ rfl, Val.same_isZero (val_widen O hS _ rfl)]

/-! ## Casts -/

omit hS in
theorem roundTy_f32 (y : BitVec 80) : roundTy (host O) (descrF .f32) y = O.fld32 (O.fst32 y) := rfl
omit hS in
theorem roundTy_f64 (y : BitVec 80) : roundTy (host O) (descrF .f64) y = O.fld64 (O.fst64 y) := rfl
omit hS in
theorem roundTy_f80 (y : BitVec 80) : roundTy (host O) (descrF .f80) y = y := rfl

omit hS in
/-- a cast to a floating type: `eval_double` of the operand, rounded to the format of the cast's type -/
theorem evalDouble_mkCastF {n : CNode} {s : ATy} {v : AVal} (h : NodeHas O n s v) (f : FTy) :
    evalDouble .wrapping (host O) (mkCast n (descrF f)) = .ok (roundTy (host O) (descrF f) (widen O v)) := by
  simp only [mkCast, un]
  rw [evalDouble_CAST _ _ _ _ _ _ _ _ _ _ (descrF_not_integer f), h.evalDouble]
  rfl

/-- the conversion of a value to a floating type, as the folder computes it -/
theorem cast_to_flt {n : CNode} {s : ATy} {v : AVal} (h : NodeHas O n s v) (f : FTy) (w : AVal)
    (hc : convert O (.flt f) v = some w) : NodeHas O (mkCast n (descrF f)) (.flt f) w := by
  have hev := evalDouble_mkCastF O h f
  obtain ⟨hty, hg, hv⟩ := h
  refine ⟨tyOf_mkCast _ _, ?_⟩
  cases v with
  | int x =>
    obtain ⟨t, rfl, hx⟩ := good_int O hg
    have hn := inRange_natAbs t x hx
    cases f <;> simp only [convert, Option.some.injEq] at hc <;> subst hc
    · have e : O.fst32 (O.ofInt80 x) = O.ofInt32 x := hS.narrow_int32 x hn
      refine ⟨?_, ?_⟩
      · show RT32 O _; rw [← e]; exact hS.rt_fst32 _
      · rw [hev, roundTy_f32]; simp only [widen, e]
    · have e : O.fst64 (O.ofInt80 x) = O.ofInt64 x := hS.narrow_int64 x hn
      refine ⟨?_, ?_⟩
      · show RT64 O _; rw [← e]; exact hS.rt_fst64 _
      · rw [hev, roundTy_f64]; simp only [widen, e]
    · exact ⟨trivial, by rw [hev, roundTy_f80]; rfl⟩
  | f32 b =>
    obtain ⟨g, hgt⟩ := good_flt O rfl hg
    subst hgt
    have hb : RT32 O b := by cases g <;> first | exact hg | exact absurd hg (by simp [Good])
    cases f <;> simp only [convert, Option.some.injEq] at hc <;> subst hc
    · exact ⟨hb, by rw [hev, roundTy_f32]; simp only [widen]; rw [hb]⟩
    · have e := hS.widen_32_64 b hb
      refine ⟨?_, ?_⟩
      · show RT64 O _; rw [← e]; exact hS.rt_fst64 _
      · rw [hev, roundTy_f64]; simp only [widen, e]
    · exact ⟨trivial, by rw [hev, roundTy_f80]; rfl⟩
  | f64 b =>
    obtain ⟨g, hgt⟩ := good_flt O rfl hg
    subst hgt
    have hb : RT64 O b := by cases g <;> first | exact hg | exact absurd hg (by simp [Good])
    cases f <;> simp only [convert, Option.some.injEq] at hc <;> subst hc
    · have e := hS.narrow_64_32 b hb
      refine ⟨?_, ?_⟩
      · show RT32 O _; rw [← e]; exact hS.rt_fst32 _
      · rw [hev, roundTy_f32]; simp only [widen, e]
    · exact ⟨hb, by rw [hev, roundTy_f64]; simp only [widen]; rw [hb]⟩
    · exact ⟨trivial, by rw [hev, roundTy_f80]; rfl⟩
  | f80 b =>
    cases f <;> simp only [convert, Option.some.injEq] at hc <;> subst hc
    · exact ⟨hS.rt_fst32 _, by rw [hev, roundTy_f32]; rfl⟩
    · exact ⟨hS.rt_fst64 _, by rw [hev, roundTy_f64]; rfl⟩
    · exact ⟨trivial, by rw [hev, roundTy_f80]⟩

omit hS in
theorem truncTo64_of (v : Val) (i : Int) (h : v.trunc? = some i) (h1 : -9223372036854775808 ≤ i) (h2 : i ≤ 9223372036854775807) :
    truncTo 64 v = img i := by
  unfold truncTo
  rw [h]
  simp only
  rw [if_pos]
  constructor <;> omega

/-- the conversion of a floating value to an integer type, as the folder computes it -/
theorem cast_flt_to_int {n : CNode} {s : ATy} {v : AVal} (h : NodeHas O n s v) (hfl : isFlt v = true) (t : ITy) (i : Int)
    (hc : fpToInt t (v.val O) = some i) : NodeHas O (mkCast n (descr t)) (.int t) (.int i) := by
  have hft := fpTruth_node O hS h
  have hsame := val_widen O hS v hfl
  have hed := h.evalDouble
  obtain ⟨hty, hg, _⟩ := h
  obtain ⟨g, hgt⟩ := good_flt O hfl hg
  subst hgt
  have hty' : CNode.tyOf n = .ok (descrF g) := hty
  by_cases hb : t = .bool
  · subst hb
    simp only [fpToInt, Option.some.injEq] at hc
    have hi : i = b2z (!(v.val O).isZero) := by
      rw [← hc]; cases (v.val O).isZero <;> rfl
    refine ⟨tyOf_mkCast _ _, ?_, ?_⟩
    · show ITy.inRange .bool i = true
      rw [hi]; cases (v.val O).isZero <;> rfl
    · intro lab
      show eval2 .wrapping (host O) (mkCast n (descr .bool)) lab = .ok (img i)
      simp only [mkCast, un]
      rw [eval2_CAST _ _ _ _ _ _ _ _ _ _ _ (descr_not_flonum .bool)]
      simp only [descr, show (TypeKind.TY_BOOL == TypeKind.TY_BOOL) = true from rfl, ite_true, hty', bind, Except.bind,
        descrF_flonum, hft, pure, Except.pure, b2i_castS]
      rw [Val.same_isZero hsame, hi]
      exact congrArg Except.ok (wrap_bool01 _)
  · have hk : ((descr t).kind == TypeKind.TY_BOOL) = false := by cases t <;> first | rfl | exact absurd rfl hb
    have htr : ∃ j, (v.val O).trunc? = some j ∧ t.inRange j = true ∧ j = i := by
      unfold fpToInt at hc
      cases hq : (v.val O).trunc? with
      | none => cases t <;> first | exact absurd rfl hb | (simp only [hq] at hc; cases hc)
      | some j =>
        have : (if t.inRange j = true then some j else none) = some i := by
          cases t <;> first | exact absurd rfl hb | (simpa only [hq] using hc)
        split at this
        · rename_i hr; cases this; exact ⟨_, rfl, hr, rfl⟩
        · cases this
    obtain ⟨j, hj, hr, rfl⟩ := htr
    have hj' : (O.val80 (widen O v)).trunc? = some j := by rw [Val.same_trunc hsame]; exact hj
    refine ⟨tyOf_mkCast _ _, hr, ?_⟩
    intro lab
    show eval2 .wrapping (host O) (mkCast n (descr t)) lab = .ok (img j)
    simp only [mkCast, un]
    rw [eval2_CAST _ _ _ _ _ _ _ _ _ _ _ (descr_not_flonum t)]
    simp only [hk, Bool.false_eq_true, ite_false, hty', bind, Except.bind, descrF_flonum, Bool.true_and]
    by_cases hu : t = .u64
    · subst hu
      simp only [descr, show ((8#32 : BitVec 32) == 8#32) = true from rfl, Bool.and_self, ite_true, hed]
      have : cvtU64 .wrapping (host O) (widen O v) = .ok (img j) := by
        show Except.ok ((host O).f80toU64 (widen O v)) = _
        simp only [HostFp.ofOps, hj']
        rng
        rw [if_pos (by constructor <;> omega)]
      rw [this]
      exact congrArg Except.ok (by
        have := wrap_convert .u64 (by decide) j
        rw [convert_id _ _ hr] at this
        exact this)
    · have hcnd : ((descr t).isUnsigned && ((descr t).size == (8#32))) = false := by
        cases t <;> first | rfl | exact absurd rfl hu
      simp only [hcnd, Bool.false_eq_true, ite_false]
      rw [eval2_of_flonum O n g _ hty' hed lab]
      have hrange : -9223372036854775808 ≤ j ∧ j ≤ 9223372036854775807 := by
        cases t <;> first | exact absurd rfl hu | exact absurd rfl hb | (rng; omega)
      rw [truncTo64_of _ j hj' hrange.1 hrange.2]
      exact congrArg Except.ok (by rw [wrap_convert t hb, convert_id _ _ hr])

/-- **`new_cast`**: a cast node evaluates to the C11 conversion of its operand's value -/
theorem cast_node {n : CNode} {s : ATy} {v : AVal} (h : NodeHas O n s v) (T : ATy) (w : AVal)
    (hc : convert O T v = some w) : NodeHas O (mkCast n (descrA T)) T w := by
  rcases T with t | f
  · cases v with
    | int x =>
      simp only [convert, Option.some.injEq] at hc
      subst hc
      obtain ⟨hty, hg, hv⟩ := h
      obtain ⟨ts, rfl, hx⟩ := good_int O hg
      refine ⟨tyOf_mkCast _ _, convert_inRange t x, fun lab => ?_⟩
      exact eval2_mkCast (host O) n t x lab (hv lab) (inRange_wide ts x hx)
        (by rw [nodeTy_of_tyOf hty]; exact descr_not_flonum ts)
    | f32 b =>
      simp only [convert, Option.map_eq_some_iff] at hc
      obtain ⟨i, hi, rfl⟩ := hc
      exact cast_flt_to_int O hS h rfl t i hi
    | f64 b =>
      simp only [convert, Option.map_eq_some_iff] at hc
      obtain ⟨i, hi, rfl⟩ := hc
      exact cast_flt_to_int O hS h rfl t i hi
    | f80 b =>
      simp only [convert, Option.map_eq_some_iff] at hc
      obtain ⟨i, hi, rfl⟩ := hc
      exact cast_flt_to_int O hS h rfl t i hi
  · exact cast_to_flt O hS h f w hc

omit hS in
/-- a conversion to an integer type yields an integer, to a floating type a floating value -/
theorem convert_int_shape {t : ITy} {v w : AVal} (h : convert O (.int t) v = some w) : ∃ x, w = .int x := by
  cases v <;> simp only [convert, Option.some.injEq, Option.map_eq_some_iff] at h
  · exact ⟨_, h.symm⟩
  all_goals (obtain ⟨i, _, rfl⟩ := h; exact ⟨i, rfl⟩)

/-! ## Binary operators -/

omit hS in
theorem mkArithA_eq (k : NodeKind) (na nb : CNode) (ta tb : ATy) (ha : CNode.tyOf na = .ok (descrA ta))
    (hb : CNode.tyOf nb = .ok (descrA tb)) :
    mkArithA k na nb = bin k (descrA (usual ta tb)) (mkCast na (descrA (usual ta tb))) (mkCast nb (descrA (usual ta tb))) := by
  simp only [mkArithA, nodeTy_of_tyOf ha, nodeTy_of_tyOf hb, gctA_descr]

omit hS in
theorem mkCompareA_eq (k : NodeKind) (na nb : CNode) (ta tb : ATy) (ha : CNode.tyOf na = .ok (descrA ta))
    (hb : CNode.tyOf nb = .ok (descrA tb)) :
    mkCompareA k na nb = bin k tyInt (mkCast na (descrA (usual ta tb))) (mkCast nb (descrA (usual ta tb))) := by
  simp only [mkCompareA, nodeTy_of_tyOf ha, nodeTy_of_tyOf hb, gctA_descr]

omit hS in
theorem mkPromotedA_eq (k : NodeKind) (na nb : CNode) (ta : ATy) (ha : CNode.tyOf na = .ok (descrA ta)) :
    mkPromotedA k na nb = .mk k (descrA (promote ta)) 0 0 (mkCast na (descrA (promote ta))) nb .null .null .null := by
  simp only [mkPromotedA, nodeTy_of_tyOf ha, gctA_int]

omit hS in
theorem tyOf_bin (k : NodeKind) (ty : CTy) (a b : CNode) : CNode.tyOf (bin k ty a b) = .ok ty := rfl

/-- arithmetic and bitwise operators on two integer nodes already converted to the common type `t` -/
theorem int_bin_node (op : BinOp) (k : NodeKind)
    (hop : (op, k) ∈ [(BinOp.add, NodeKind.ND_ADD), (.sub, .ND_SUB), (.mul, .ND_MUL), (.div, .ND_DIV), (.mod, .ND_MOD),
                     (.band, .ND_BITAND), (.bor, .ND_BITOR), (.bxor, .ND_BITXOR)])
    (t : ITy) (hw : Wide t) (l r : CNode) (x y v : Int)
    (hl : NodeHas O l (.int t) (.int x)) (hr : NodeHas O r (.int t) (.int y)) (hv : binop op t x y = some v) :
    NodeHas O (bin k (descr t) l r) (.int t) (.int v) := by
  have hx : t.inRange x = true := hl.2.1
  have hy : t.inRange y = true := hr.2.1
  have hl := hl.2.2
  have hr := hr.2.2
  simp only [List.mem_cons, Prod.mk.injEq, List.mem_nil_iff, or_false] at hop
  have key : ∀ lab, eval2 .wrapping (host O) (bin k (descr t) l r) lab = .ok (img v) ∧ t.inRange v = true := by
    intro lab
    rcases hop with ⟨h1, h2⟩ | ⟨h1, h2⟩ | ⟨h1, h2⟩ | ⟨h1, h2⟩ | ⟨h1, h2⟩ | ⟨h1, h2⟩ | ⟨h1, h2⟩ | ⟨h1, h2⟩ <;> subst h1 h2
    · exact fold_add (host O) t _ _ _ _ v lab hw.ne_bool hl hr hv
    · exact fold_sub (host O) t _ _ _ _ v lab hw.ne_bool hl hr hv
    · exact fold_mul (host O) t _ _ _ _ v lab hw.ne_bool hl hr hv
    · exact fold_div (host O) t _ _ _ _ v lab hw hl hr hx hy hv
    · exact fold_mod (host O) t _ _ _ _ v lab hw hl hr hx hy hv
    · exact fold_band (host O) t _ _ _ _ v lab hw.ne_bool hl hr hv
    · exact fold_bor (host O) t _ _ _ _ v lab hw.ne_bool hl hr hv
    · exact fold_bxor (host O) t _ _ _ _ v lab hw.ne_bool hl hr hv
  exact ⟨tyOf_bin _ _ _ _, (key false).2, fun lab => (key lab).1⟩

omit hS in
theorem good_f32 {v : AVal} (h : Good O v (.flt .f32)) : ∃ b, v = .f32 b ∧ RT32 O b := by
  cases v <;> first | exact ⟨_, rfl, h⟩ | exact absurd h (by simp [Good])
omit hS in
theorem good_f64 {v : AVal} (h : Good O v (.flt .f64)) : ∃ b, v = .f64 b ∧ RT64 O b := by
  cases v <;> first | exact ⟨_, rfl, h⟩ | exact absurd h (by simp [Good])
omit hS in
theorem good_f80 {v : AVal} (h : Good O v (.flt .f80)) : ∃ b, v = .f80 b := by
  cases v <;> first | exact ⟨_, rfl⟩ | exact absurd h (by simp [Good])

/-- `+ - * /` on two floating nodes already converted to the common type `T`: one operation in the format of `T` -/
theorem flt_bin_node (f : FOp) (k : NodeKind)
    (hk : (f, k) ∈ [(FOp.add, NodeKind.ND_ADD), (.sub, .ND_SUB), (.mul, .ND_MUL), (.div, .ND_DIV)])
    (T : FTy) (l r : CNode) (xc yc res : AVal)
    (hl : NodeHas O l (.flt T) xc) (hr : NodeHas O r (.flt T) yc) (hv : farith O f xc yc = some res) :
    NodeHas O (bin k (descrF T) l r) (.flt T) res := by
  have el := hl.evalDouble
  have er := hr.evalDouble
  have hi := descrF_not_integer T
  refine ⟨tyOf_bin _ _ _ _, ?_⟩
  simp only [List.mem_cons, Prod.mk.injEq, List.mem_nil_iff, or_false] at hk
  cases T
  · obtain ⟨a, rfl, ha⟩ := good_f32 O hl.2.1
    obtain ⟨b, rfl, hb⟩ := good_f32 O hr.2.1
    simp only [farith, Option.some.injEq] at hv
    subst hv
    have key : ∀ (o : BitVec 32 → BitVec 32 → BitVec 32) o64 o80, RT32 O (o a b) →
        ((evalDouble .wrapping (host O) l >>= fun x => evalDouble .wrapping (host O) r >>= fun y =>
            pure (foldFlonum (host O) (descrF .f32) o o64 o80 x y)) >>= fun v => pure (roundTy (host O) (descrF .f32) v))
          = .ok (O.fld32 (o a b)) := by
      intro o o64 o80 hrt
      rw [el, er]
      simp only [bind, Except.bind, pure, Except.pure, roundTy_f32]
      show Except.ok (O.fld32 (O.fst32 (O.fld32 (o (O.fst32 (O.fld32 a)) (O.fst32 (O.fld32 b)))))) = _
      rw [ha, hb, hrt]
    rcases hk with ⟨h1, h2⟩ | ⟨h1, h2⟩ | ⟨h1, h2⟩ | ⟨h1, h2⟩ <;> subst h1 h2 <;> simp only [bin]
    · exact ⟨hS.rt_addss a b ha hb, by rw [evalDouble_ADD _ _ _ _ _ _ _ _ _ _ hi]; exact key _ _ _ (hS.rt_addss a b ha hb)⟩
    · exact ⟨hS.rt_subss a b ha hb, by rw [evalDouble_SUB _ _ _ _ _ _ _ _ _ _ hi]; exact key _ _ _ (hS.rt_subss a b ha hb)⟩
    · exact ⟨hS.rt_mulss a b ha hb, by rw [evalDouble_MUL _ _ _ _ _ _ _ _ _ _ hi]; exact key _ _ _ (hS.rt_mulss a b ha hb)⟩
    · exact ⟨hS.rt_divss a b ha hb, by rw [evalDouble_DIV _ _ _ _ _ _ _ _ _ _ hi]; exact key _ _ _ (hS.rt_divss a b ha hb)⟩
  · obtain ⟨a, rfl, ha⟩ := good_f64 O hl.2.1
    obtain ⟨b, rfl, hb⟩ := good_f64 O hr.2.1
    simp only [farith, Option.some.injEq] at hv
    subst hv
    have key : ∀ o32 (o : BitVec 64 → BitVec 64 → BitVec 64) o80, RT64 O (o a b) →
        ((evalDouble .wrapping (host O) l >>= fun x => evalDouble .wrapping (host O) r >>= fun y =>
            pure (foldFlonum (host O) (descrF .f64) o32 o o80 x y)) >>= fun v => pure (roundTy (host O) (descrF .f64) v))
          = .ok (O.fld64 (o a b)) := by
      intro o32 o o80 hrt
      rw [el, er]
      simp only [bind, Except.bind, pure, Except.pure, roundTy_f64]
      show Except.ok (O.fld64 (O.fst64 (O.fld64 (o (O.fst64 (O.fld64 a)) (O.fst64 (O.fld64 b)))))) = _
      rw [ha, hb, hrt]
    rcases hk with ⟨h1, h2⟩ | ⟨h1, h2⟩ | ⟨h1, h2⟩ | ⟨h1, h2⟩ <;> subst h1 h2 <;> simp only [bin]
    · exact ⟨hS.rt_addsd a b ha hb, by rw [evalDouble_ADD _ _ _ _ _ _ _ _ _ _ hi]; exact key _ _ _ (hS.rt_addsd a b ha hb)⟩
    · exact ⟨hS.rt_subsd a b ha hb, by rw [evalDouble_SUB _ _ _ _ _ _ _ _ _ _ hi]; exact key _ _ _ (hS.rt_subsd a b ha hb)⟩
    · exact ⟨hS.rt_mulsd a b ha hb, by rw [evalDouble_MUL _ _ _ _ _ _ _ _ _ _ hi]; exact key _ _ _ (hS.rt_mulsd a b ha hb)⟩
    · exact ⟨hS.rt_divsd a b ha hb, by rw [evalDouble_DIV _ _ _ _ _ _ _ _ _ _ hi]; exact key _ _ _ (hS.rt_divsd a b ha hb)⟩
  · obtain ⟨a, rfl⟩ := good_f80 O hl.2.1
    obtain ⟨b, rfl⟩ := good_f80 O hr.2.1
    simp only [farith, Option.some.injEq] at hv
    subst hv
    have key : ∀ o32 o64 (o : BitVec 80 → BitVec 80 → BitVec 80),
        ((evalDouble .wrapping (host O) l >>= fun x => evalDouble .wrapping (host O) r >>= fun y =>
            pure (foldFlonum (host O) (descrF .f80) o32 o64 o x y)) >>= fun v => pure (roundTy (host O) (descrF .f80) v))
          = .ok (o a b) := by
      intro o32 o64 o
      rw [el, er]
      rfl
    rcases hk with ⟨h1, h2⟩ | ⟨h1, h2⟩ | ⟨h1, h2⟩ | ⟨h1, h2⟩ <;> subst h1 h2 <;> simp only [bin]
    · exact ⟨trivial, by rw [evalDouble_ADD _ _ _ _ _ _ _ _ _ _ hi]; exact key _ _ _⟩
    · exact ⟨trivial, by rw [evalDouble_SUB _ _ _ _ _ _ _ _ _ _ hi]; exact key _ _ _⟩
    · exact ⟨trivial, by rw [evalDouble_MUL _ _ _ _ _ _ _ _ _ _ hi]; exact key _ _ _⟩
    · exact ⟨trivial, by rw [evalDouble_DIV _ _ _ _ _ _ _ _ _ _ hi]; exact key _ _ _⟩

/-! ## Comparisons -/

omit hS in
theorem b2z_inRange' (b : Bool) : ITy.inRange .i32 (b2z b) = true := by cases b <;> rfl

omit hS in
/-- the comparison arm on two floating nodes of the same type: the host compares the widened values -/
theorem cmpArm_flt (cf : BitVec 80 → BitVec 80 → Bool) (cu cs : BitVec 64 → BitVec 64 → Bool) (T : FTy) (l r : CNode) (xc yc : AVal)
    (hl : NodeHas O l (.flt T) xc) (hr : NodeHas O r (.flt T) yc) :
    cmpArm .wrapping (host O) cf cu cs l r = .ok (img (b2z (cf (widen O xc) (widen O yc)))) := by
  unfold cmpArm
  have hty : CNode.tyOf l = .ok (descrF T) := hl.1
  simp only [hty, bind, Except.bind, descrF_flonum, ite_true, hl.evalDouble, hr.evalDouble, pure, Except.pure, b2i_castS]

omit hS in
theorem isFlt_of_good {v : AVal} {T : FTy} (h : Good O v (.flt T)) : isFlt v = true := by
  cases v with
  | int x => cases T <;> exact absurd h (by simp [Good])
  | _ => rfl

/-- the relation the host's `fcomi` finds between two widened values is the relation of the values -/
theorem cmp_widen (T : FTy) (xc yc : AVal) (hx : Good O xc (.flt T)) (hy : Good O yc (.flt T)) :
    Val.cmp (O.val80 (widen O xc)) (O.val80 (widen O yc)) = Val.cmp (xc.val O) (yc.val O) :=
  Val.cmp_same (val_widen O hS xc (isFlt_of_good O hx)) (val_widen O hS yc (isFlt_of_good O hy))

/-- a comparison node over two floating nodes of the same type: `int` 0 or 1 according to the relation of the values
    (`holds` reads the relation as the operator of the node does) -/
theorem flt_cmp_node (k : NodeKind) (holds : Rel → Bool)
    (hk : (k = .ND_EQ ∧ holds = fun r => r == .eq) ∨ (k = .ND_NE ∧ holds = fun r => r != .eq) ∨
          (k = .ND_LT ∧ holds = fun r => r == .lt) ∨ (k = .ND_LE ∧ holds = fun r => r == .lt || r == .eq))
    (T : FTy) (l r : CNode) (xc yc : AVal) (hl : NodeHas O l (.flt T) xc) (hr : NodeHas O r (.flt T) yc) :
    NodeHas O (bin k tyInt l r) (.int .i32) (.int (b2z (holds (Val.cmp (xc.val O) (yc.val O))))) := by
  have hc := cmp_widen O hS T xc yc hl.2.1 hr.2.1
  refine ⟨tyOf_bin _ _ _ _, b2z_inRange' _, fun lab => ?_⟩
  have hf : isFlonum tyInt = false := rfl
  simp only [bin]
  rcases hk with ⟨rfl, rfl⟩ | ⟨rfl, rfl⟩ | ⟨rfl, rfl⟩ | ⟨rfl, rfl⟩
  · rw [eval2_EQ _ _ _ _ _ _ _ _ _ _ _ hf]
    apply fold_cmp_node
    rw [cmpArm_flt O _ _ _ T l r xc yc hl hr]
    show _ = Except.ok (img (b2z (Val.cmp (xc.val O) (yc.val O) == .eq)))
    rw [← hc]; rfl
  · rw [eval2_NE _ _ _ _ _ _ _ _ _ _ _ hf]
    apply fold_cmp_node
    rw [cmpArm_flt O _ _ _ T l r xc yc hl hr]
    show _ = Except.ok (img (b2z (Val.cmp (xc.val O) (yc.val O) != .eq)))
    rw [← hc]; rfl
  · rw [eval2_LT _ _ _ _ _ _ _ _ _ _ _ hf]
    apply fold_cmp_node
    rw [cmpArm_flt O _ _ _ T l r xc yc hl hr]
    show _ = Except.ok (img (b2z (Val.cmp (xc.val O) (yc.val O) == .lt)))
    rw [← hc]; rfl
  · rw [eval2_LE _ _ _ _ _ _ _ _ _ _ _ hf]
    apply fold_cmp_node
    rw [cmpArm_flt O _ _ _ T l r xc yc hl hr]
    show _ = Except.ok (img (b2z (Val.cmp (xc.val O) (yc.val O) == .lt || Val.cmp (xc.val O) (yc.val O) == .eq)))
    rw [← hc]; rfl

omit hS in
/-- a comparison node over two integer nodes already converted to the wide type `t` -/
theorem int_cmp_node (k : NodeKind) (res : Bool) (t : ITy) (hw : Wide t) (l r : CNode) (x y : Int)
    (hl : NodeHas O l (.int t) (.int x)) (hr : NodeHas O r (.int t) (.int y))
    (hk : (k = .ND_EQ ∧ res = (x == y)) ∨ (k = .ND_NE ∧ res = (x != y)) ∨ (k = .ND_LT ∧ res = decide (x < y)) ∨
          (k = .ND_LE ∧ res = decide (x ≤ y))) :
    NodeHas O (bin k tyInt l r) (.int .i32) (.int (b2z res)) := by
  have hx : t.inRange x = true := hl.2.1
  have hy : t.inRange y = true := hr.2.1
  have hlt : CNode.tyOf l = .ok (descr t) := hl.1
  refine ⟨tyOf_bin _ _ _ _, b2z_inRange' _, fun lab => ?_⟩
  have hf : isFlonum tyInt = false := rfl
  have hinj := img_inj t x y hw hx hy
  have himg := cmp_images t x y hw hx hy
  simp only [bin]
  rcases hk with ⟨rfl, rfl⟩ | ⟨rfl, rfl⟩ | ⟨rfl, rfl⟩ | ⟨rfl, rfl⟩
  · rw [eval2_EQ _ _ _ _ _ _ _ _ _ _ _ hf]
    apply fold_cmp_node
    refine cmpArm_ok (host O) t l r x y _ _ _ _ hlt hl.2.2 hr.2.2 ?_
    simp only [ite_self]
    rw [Bool.eq_iff_iff]; simpa using hinj
  · rw [eval2_NE _ _ _ _ _ _ _ _ _ _ _ hf]
    apply fold_cmp_node
    refine cmpArm_ok (host O) t l r x y _ _ _ _ hlt hl.2.2 hr.2.2 ?_
    simp only [ite_self]
    rw [Bool.eq_iff_iff]; simpa using not_congr hinj
  · rw [eval2_LT _ _ _ _ _ _ _ _ _ _ _ hf]
    apply fold_cmp_node
    exact cmpArm_ok (host O) t l r x y _ _ _ _ hlt hl.2.2 hr.2.2 himg.1
  · rw [eval2_LE _ _ _ _ _ _ _ _ _ _ _ hf]
    apply fold_cmp_node
    exact cmpArm_ok (host O) t l r x y _ _ _ _ hlt hl.2.2 hr.2.2 himg.2

/-! ## Unary operators, `&&`, `||`, `?:` -/

/-- `eval_double(n) != 0`: the C11 truth value of the node's value (integer or floating) -/
theorem fpTruth_spec {n : CNode} {ty : ATy} {v : AVal} (h : NodeHas O n ty v) :
    fpTruth .wrapping (host O) n = .ok (Spec.ConstF.truth O v) := by
  rw [fpTruth_node O hS h]
  congr 1
  cases v with
  | int x =>
    obtain ⟨t, rfl, hx⟩ := good_int O h.2.1
    have hz := (Val.toInt_zero_iff (hS.ofInt80_val x (inRange_natAbs t x hx))).1
    show (!(O.val80 (O.ofInt80 x)).isZero) = (x != 0)
    cases hzz : (O.val80 (O.ofInt80 x)).isZero
    · have : x ≠ 0 := fun h0 => by rw [hz.2 h0] at hzz; cases hzz
      simpa using this
    · have : x = 0 := hz.1 hzz
      subst this; rfl
  | f32 b => rw [spec_truth_flt O _ rfl, Val.same_isZero (val_widen O hS _ rfl)]
  | f64 b => rw [spec_truth_flt O _ rfl, Val.same_isZero (val_widen O hS _ rfl)]
  | f80 b => rw [spec_truth_flt O _ rfl, Val.same_isZero (val_widen O hS _ rfl)]

omit hS in
theorem promote_inRange' (t : ITy) (x : Int) (h : t.inRange x = true) : t.promote.inRange x = true := promote_inRange t x h

/-- the operand of unary `-`, `~`, `<<`, `>>` after the integer promotions -/
theorem promoted_operand {n : CNode} {t : ITy} {x : Int} (h : NodeHas O n (.int t) (.int x)) :
    NodeHas O (mkCast n (descr t.promote)) (.int t.promote) (.int x) := by
  have := cast_node O hS h (.int t.promote) (.int (t.promote.convert x)) rfl
  rwa [convert_id _ _ (promote_inRange t x h.2.1)] at this

/-- unary `-` on an integer node -/
theorem int_neg_node {n : CNode} {t : ITy} {x v : Int} (h : NodeHas O n (.int t) (.int x))
    (hv : Spec.Const.arith t.promote (-x) = some v) :
    NodeHas O (mkPromotedA .ND_NEG n .null) (.int t.promote) (.int v) := by
  have hc := promoted_operand O hS h
  have hw := promote_wide t
  have ⟨h1, h2⟩ := arm_result _ hw.ne_bool (-(img x)) (-x) v (img_neg x) hv
  rw [mkPromotedA_eq _ _ _ (.int t) h.1]
  refine ⟨rfl, h2, fun lab => ?_⟩
  show eval2 .wrapping (host O) (.mk .ND_NEG (descr t.promote) 0 0 (mkCast n (descr t.promote)) .null .null .null .null) lab = _
  rw [eval2_NEG _ _ _ _ _ _ _ _ _ _ _ (descr_not_flonum _)]
  simp only [hc.2.2 false, bind, Except.bind, pure, Except.pure, negS, ovf, h1]

/-- `~` on an integer node -/
theorem int_bitnot_node {n : CNode} {t : ITy} {x : Int} (h : NodeHas O n (.int t) (.int x)) :
    NodeHas O (mkPromotedA .ND_BITNOT n .null) (.int t.promote) (.int (t.promote.convert ((~~~ (BitVec.ofInt 64 x)).toInt))) := by
  have hc := promoted_operand O hS h
  have hw := promote_wide t
  rw [mkPromotedA_eq _ _ _ (.int t) h.1]
  refine ⟨rfl, convert_inRange _ _, fun lab => ?_⟩
  show eval2 .wrapping (host O) (.mk .ND_BITNOT (descr t.promote) 0 0 (mkCast n (descr t.promote)) .null .null .null .null) lab = _
  rw [eval2_BITNOT _ _ _ _ _ _ _ _ _ _ _ (descr_not_flonum _)]
  simp only [hc.2.2 false, bind, Except.bind, pure, Except.pure]
  rw [← wrap_convert _ hw.ne_bool, ← img_of_toInt]

/-- `!` on any node -/
theorem lognot_node {n : CNode} {ty : ATy} {v : AVal} (h : NodeHas O n ty v) :
    NodeHas O (un .ND_NOT tyInt n) (.int .i32) (.int (b2z (!(Spec.ConstF.truth O v)))) := by
  refine ⟨rfl, b2z_inRange' _, fun lab => ?_⟩
  simp only [un]
  rw [eval2_NOT _ _ _ _ _ _ _ _ _ _ _ (show isFlonum tyInt = false from rfl), truth_node O hS h]
  simp only [bind, Except.bind, pure, Except.pure, b2i_castS]
  exact congrArg Except.ok (wrap_int01 _)

/-- `&&` -/
theorem land_node {na nb : CNode} {ta : ATy} {va : AVal} (ha : NodeHas O na ta va) (res : Bool)
    (hb : Spec.ConstF.truth O va = true → ∃ tb vb, NodeHas O nb tb vb ∧ res = Spec.ConstF.truth O vb)
    (h0 : Spec.ConstF.truth O va = false → res = false) :
    NodeHas O (bin .ND_LOGAND tyInt na nb) (.int .i32) (.int (b2z res)) := by
  refine ⟨rfl, b2z_inRange' _, fun lab => ?_⟩
  simp only [bin]
  rw [eval2_LOGAND _ _ _ _ _ _ _ _ _ _ _ (show isFlonum tyInt = false from rfl), truth_node O hS ha]
  cases hx : Spec.ConstF.truth O va
  · simp only [bind, Except.bind, pure, Except.pure, h0 hx, b2i_castS, Bool.false_eq_true, ite_false]
    exact congrArg Except.ok (wrap_int01 false)
  · obtain ⟨tb, vb, hnb, hr⟩ := hb hx
    simp only [ite_true, bind, Except.bind, pure, Except.pure, truth_node O hS hnb, b2i_castS, hr]
    exact congrArg Except.ok (wrap_int01 _)

/-- `||` -/
theorem lor_node {na nb : CNode} {ta : ATy} {va : AVal} (ha : NodeHas O na ta va) (res : Bool)
    (hb : Spec.ConstF.truth O va = false → ∃ tb vb, NodeHas O nb tb vb ∧ res = Spec.ConstF.truth O vb)
    (h0 : Spec.ConstF.truth O va = true → res = true) :
    NodeHas O (bin .ND_LOGOR tyInt na nb) (.int .i32) (.int (b2z res)) := by
  refine ⟨rfl, b2z_inRange' _, fun lab => ?_⟩
  simp only [bin]
  rw [eval2_LOGOR _ _ _ _ _ _ _ _ _ _ _ (show isFlonum tyInt = false from rfl), truth_node O hS ha]
  cases hx : Spec.ConstF.truth O va
  · obtain ⟨tb, vb, hnb, hr⟩ := hb hx
    simp only [Bool.false_eq_true, ite_false, bind, Except.bind, pure, Except.pure, truth_node O hS hnb, b2i_castS, hr]
    exact congrArg Except.ok (wrap_int01 _)
  · simp only [bind, Except.bind, pure, Except.pure, h0 hx, b2i_castS, ite_true]
    exact congrArg Except.ok (wrap_int01 true)

omit hS in
/-- a value of a floating type `T` passes `eval_double`'s final rounding to `T` unchanged -/
theorem round_good (T : FTy) (w : AVal) (hg : Good O w (.flt T)) : roundTy (host O) (descrF T) (widen O w) = widen O w := by
  cases T
  · obtain ⟨b, rfl, hb⟩ := good_f32 O hg
    rw [roundTy_f32]; simp only [widen]; rw [hb]
  · obtain ⟨b, rfl, hb⟩ := good_f64 O hg
    rw [roundTy_f64]; simp only [widen]; rw [hb]
  · rfl

/-- `?:` whose second and third operands (already converted to the common type `t`) are `nt`, `ne`: the selected one -/
theorem cond_node {nc nt ne : CNode} {tc t : ATy} {vc w : AVal} (hc : NodeHas O nc tc vc)
    (hsel : NodeHas O (if Spec.ConstF.truth O vc then nt else ne) t w)
    (hwide : ∀ ti, t = .int ti → Wide ti) :
    NodeHas O (.mk .ND_COND (descrA t) 0 0 .null .null nc nt ne) t w := by
  refine ⟨rfl, hsel.2.1, ?_⟩
  rcases t with ti | T
  · -- integer result
    obtain ⟨x, rfl⟩ : ∃ x, w = .int x := by
      cases w <;> first | exact ⟨_, rfl⟩ | exact absurd hsel.2.1 (by simp [Good])
    intro lab
    have hw := hwide ti rfl
    have hx : ti.inRange x = true := hsel.2.1
    have hwr := wrap_convert ti hw.ne_bool x
    rw [convert_id _ _ hx] at hwr
    show eval2 .wrapping (host O) (.mk .ND_COND (descr ti) 0 0 .null .null nc nt ne) lab = _
    rw [eval2_COND _ _ _ _ _ _ _ _ _ _ _ (descr_not_flonum _), truth_node O hS hc]
    cases hb : Spec.ConstF.truth O vc <;> simp only [hb, Bool.false_eq_true, ite_false, ite_true] at hsel <;>
      simp only [bind, Except.bind, pure, Except.pure, Bool.false_eq_true, ite_false, ite_true, hsel.2.2 lab, hwr]
  · have hfl : isFlt w = true := by
      cases w <;> first | rfl | exact absurd hsel.2.1 (by cases T <;> simp [Good])
    have hev := hsel.evalDouble
    have : evalDouble .wrapping (host O) (.mk .ND_COND (descrF T) 0 0 .null .null nc nt ne) = .ok (widen O w) := by
      rw [evalDouble_COND _ _ _ _ _ _ _ _ _ _ (descrF_not_integer T), fpTruth_spec O hS hc]
      cases hb : Spec.ConstF.truth O vc <;> simp only [hb, Bool.false_eq_true, ite_false, ite_true] at hev <;>
        simp only [bind, Except.bind, pure, Except.pure, Bool.false_eq_true, ite_false, ite_true, hev, round_good O T w hsel.2.1]
    cases w <;> first | exact this | cases hfl

/-- unary `-` on a floating node: the sign bit of the value -/
theorem flt_neg_node {n : CNode} {T : FTy} {v w : AVal} (h : NodeHas O n (.flt T) v) (hw : fneg v = some w) :
    NodeHas O (mkPromotedA .ND_NEG n .null) (.flt T) w := by
  rw [mkPromotedA_eq _ _ _ (.flt T) h.1]
  have hc : evalDouble .wrapping (host O) (mkCast n (descrF T)) = .ok (widen O v) := by
    rw [evalDouble_mkCastF O h T, round_good O T v h.2.1]
  have hev : evalDouble .wrapping (host O) (.mk .ND_NEG (descrF T) 0 0 (mkCast n (descrF T)) .null .null .null .null)
      = .ok (roundTy (host O) (descrF T) (O.fchs (widen O v))) := by
    rw [evalDouble_NEG _ _ _ _ _ _ _ _ _ _ (descrF_not_integer T), hc]; rfl
  refine ⟨rfl, ?_⟩
  cases T
  · obtain ⟨b, rfl, hb⟩ := good_f32 O h.2.1
    simp only [fneg, Option.some.injEq] at hw; subst hw
    refine ⟨hS.rt_neg32 b hb, ?_⟩
    exact hev.trans (by rw [roundTy_f32]; simp only [widen, hS.neg_32 b hb])
  · obtain ⟨b, rfl, hb⟩ := good_f64 O h.2.1
    simp only [fneg, Option.some.injEq] at hw; subst hw
    refine ⟨hS.rt_neg64 b hb, ?_⟩
    exact hev.trans (by rw [roundTy_f64]; simp only [widen, hS.neg_64 b hb])
  · obtain ⟨b, rfl⟩ := good_f80 O h.2.1
    simp only [fneg, Option.some.injEq] at hw; subst hw
    refine ⟨trivial, ?_⟩
    exact hev.trans (by rw [roundTy_f80]; simp only [widen, hS.fchs_spec])

/-! ## The induction -/

omit hS in
theorem usual_int_inv {a b : ATy} {ti : ITy} (h : usual a b = .int ti) : ∃ ta tb, a = .int ta ∧ b = .int tb ∧ ti = ITy.common ta tb := by
  rcases a with ta | fa <;> rcases b with tb | fb
  · simp only [usual, ATy.int.injEq] at h; exact ⟨ta, tb, rfl, rfl, h.symm⟩
  · cases fb <;> simp [usual] at h
  · cases fa <;> simp [usual] at h
  · cases fa <;> cases fb <;> simp [usual] at h

omit hS in
theorem good_int_val {v : AVal} {t : ITy} (h : Good O v (.int t)) : ∃ x, v = .int x ∧ t.inRange x = true := by
  cases v <;> first | exact ⟨_, rfl, h⟩ | exact absurd h (by simp [Good])

omit hS in
theorem rel_swap_lt (r : Rel) : (r.swap == .lt) = (r == .gt) := by cases r <;> rfl
omit hS in
theorem rel_swap_le (r : Rel) : (r.swap == .lt || r.swap == .eq) = (r == .gt || r == .eq) := by cases r <;> rfl

/-- **The floating folder computes the C11 value**: for every arithmetic constant expression that has a value, the node
    chibicc builds for it has the expression's C11 type and is folded to that value -/
theorem fold_float_main : ∀ (e : AExpr) (v : AVal), Spec.ConstF.eval O e = some v → NodeHas O (elabA e) (typeOf e) v := by
  intro e
  induction e with
  | ilit t x0 =>
    intro v h
    have h' : (if t.inRange x0 = true then some (AVal.int x0) else none) = some v := h
    split at h'
    · cases h'
      rename_i hin
      have hl : Spec.Const.eval (.lit t x0) = some x0 := by simp [Spec.Const.eval, hin]
      have := fold_lit (host O) t x0 x0 hl
      exact ⟨rfl, hin, this.2⟩
    · cases h'
  | flit T fval =>
    intro v h
    have h' : convert O (.flt T) (.f80 fval) = some v := h
    have hev : evalDouble .wrapping (host O) (elabA (.flit T fval)) = .ok (roundTy (host O) (descrF T) fval) := by
      simp only [elabA]
      rw [evalDouble_NUM _ _ _ _ _ _ _ _ _ _ (descrF_not_integer T)]; rfl
    cases T <;> simp only [convert, Option.some.injEq] at h' <;> subst h'
    · exact ⟨rfl, hS.rt_fst32 _, hev⟩
    · exact ⟨rfl, hS.rt_fst64 _, hev⟩
    · exact ⟨rfl, trivial, hev⟩
  | un op e ih =>
    intro v h
    simp only [Spec.ConstF.eval] at h
    cases he : Spec.ConstF.eval O e with
    | none => simp [he] at h
    | some x =>
      rw [he] at h
      have hn := ih x he
      simp only at h
      cases hte : typeOf e with
      | int t =>
        rw [hte] at h hn
        obtain ⟨x0, rfl, hx0⟩ := good_int_val O hn.2.1
        simp only [Option.map_eq_some_iff] at h
        obtain ⟨r, hr, rfl⟩ := h
        cases op
        · -- neg
          simp only [unop] at hr
          have := int_neg_node O hS hn hr
          simpa only [elabA, typeOf, hte, promote] using this
        · -- bitnot
          simp only [unop, Option.some.injEq] at hr
          subst hr
          have := int_bitnot_node O hS hn
          simpa only [elabA, typeOf, hte, promote] using this
        · -- lognot
          simp only [unop, Option.some.injEq] at hr
          subst hr
          have := lognot_node O hS hn
          have e1 : (!(Spec.ConstF.truth O (.int x0))) = (x0 == 0) := by
            show (!(x0 != 0)) = (x0 == 0)
            cases hz : (x0 == 0) <;> simp_all [bne]
          rw [e1] at this
          simpa only [elabA, typeOf] using this
        · -- plus
          simp only [unop, Option.some.injEq] at hr
          subst hr
          simp only [elabA, typeOf, hte, promote, nodeTy_of_tyOf hn.1]
          split
          · rename_i hc
            have hp : t.promote = .i32 := by
              cases t <;> simp_all [descrA, descr, isInteger] <;> rfl
            have := cast_node O hS hn (.int .i32) (.int (ITy.convert .i32 x0)) rfl
            rw [hp]
            have hx32 : ITy.inRange .i32 x0 = true := by rw [← hp]; exact promote_inRange t x0 hx0
            rwa [convert_id _ _ hx32] at this
          · rename_i hc
            have hp : t.promote = t := by
              cases t <;> first | rfl | (exfalso; apply hc; decide)
            rw [hp]; exact hn
      | flt T =>
        rw [hte] at h hn
        have hfl := isFlt_of_good O hn.2.1
        cases op
        · -- neg
          have hh : fneg x = some v := by cases x <;> first | exact h | (cases hfl; done)
          have := flt_neg_node O hS hn hh
          simpa only [elabA, typeOf, hte, promote] using this
        · -- bitnot: a constraint violation
          cases x <;> first | (cases hfl; done) | (simp at h)
        · -- lognot
          have hh : v = .int (b2z (!(Spec.ConstF.truth O x))) := by
            cases x <;> first | (cases hfl; done) | (simp only [Option.some.injEq] at h; exact h.symm)
          subst hh
          have := lognot_node O hS hn
          simpa only [elabA, typeOf] using this
        · -- plus
          have hh : v = x := by cases x <;> first | (cases hfl; done) | (simp only [Option.some.injEq] at h; exact h.symm)
          subst hh
          simp only [elabA, typeOf, hte, promote, nodeTy_of_tyOf hn.1]
          have : isInteger (descrA (.flt T)) = false := descrF_not_integer T
          simp only [this, Bool.false_and, Bool.false_eq_true, ite_false]
          exact hn
  | bin op a b iha ihb =>
    intro v h
    simp only [Spec.ConstF.eval] at h
    cases hea : Spec.ConstF.eval O a with
    | none => simp [hea] at h
    | some x =>
      cases heb : Spec.ConstF.eval O b with
      | none => simp [hea, heb] at h
      | some y =>
        rw [hea, heb] at h
        simp only at h
        have hna := iha x hea
        have hnb := ihb y heb
        by_cases hs : op.isShift = true
        · -- shifts: the left operand is promoted, the count is any integer
          simp only [hs, ite_true] at h
          cases hta : typeOf a with
          | flt T => rw [hta] at h; cases x <;> cases y <;> simp at h
          | int ta =>
            rw [hta] at h hna
            obtain ⟨vx, rfl, hvx⟩ := good_int_val O hna.2.1
            cases y with
            | int vy =>
              simp only [Option.map_eq_some_iff] at h
              obtain ⟨r, hr, rfl⟩ := h
              obtain ⟨tb, htb, hvy⟩ := good_int O hnb.2.1
              have hc := promoted_operand O hS hna
              have hw := promote_wide ta
              have hp := promote_inRange ta vx hvx
              cases op <;> simp only [BinOp.isShift] at hs <;> try cases hs
              · -- shl
                simp only [elabA, typeOf, hta, promote]
                rw [mkPromotedA_eq _ _ _ (.int ta) hna.1]
                have key := fun lab => fold_shl (host O) ta.promote _ _ vx vy r lab hw hc.2.2 hnb.2.2 hp hr
                exact ⟨rfl, (key false).2, fun lab => (key lab).1⟩
              · -- shr
                simp only [elabA, typeOf, hta, promote]
                rw [mkPromotedA_eq _ _ _ (.int ta) hna.1]
                have key := fun lab => fold_shr (host O) ta.promote _ _ vx vy r lab hw hc.2.2 hnb.2.2 hp hr
                exact ⟨rfl, (key false).2, fun lab => (key lab).1⟩
            | f32 _ => simp at h
            | f64 _ => simp at h
            | f80 _ => simp at h
        · -- both operands are converted to the common type
          have hs' : op.isShift = false := by simpa using hs
          simp only [hs', Bool.false_eq_true, ite_false] at h
          cases hcx : convert O (usual (typeOf a) (typeOf b)) x with
          | none => simp [hcx] at h
          | some xc =>
            cases hcy : convert O (usual (typeOf a) (typeOf b)) y with
            | none => simp [hcx, hcy] at h
            | some yc =>
              rw [hcx, hcy] at h
              simp only at h
              have hca := cast_node O hS hna _ xc hcx
              have hcb := cast_node O hS hnb _ yc hcy
              cases ht : usual (typeOf a) (typeOf b) with
              | int ti =>
                rw [ht] at h hca hcb
                obtain ⟨ta, tb, hta, htb, rfl⟩ := usual_int_inv ht
                have hw := common_wide ta tb
                obtain ⟨vx, rfl, hvx⟩ := good_int_val O hca.2.1
                obtain ⟨vy, rfl, hvy⟩ := good_int_val O hcb.2.1
                simp only [Option.map_eq_some_iff] at h
                obtain ⟨r, hr, rfl⟩ := h
                have hA := mkArithA_eq (k := NodeKind.ND_ADD) (elabA a) (elabA b) _ _ hna.1 hnb.1
                have arith : ∀ k, (op, k) ∈ [(BinOp.add, NodeKind.ND_ADD), (.sub, .ND_SUB), (.mul, .ND_MUL), (.div, .ND_DIV),
                    (.mod, .ND_MOD), (.band, .ND_BITAND), (.bor, .ND_BITOR), (.bxor, .ND_BITXOR)] →
                    NodeHas O (mkArithA k (elabA a) (elabA b)) (usual (typeOf a) (typeOf b)) (.int r) := by
                  intro k hk
                  rw [mkArithA_eq k _ _ _ _ hna.1 hnb.1, ht]
                  exact int_bin_node O hS op k hk _ hw _ _ vx vy r hca hcb hr
                have cmp : ∀ k res, r = b2z res →
                    ((k = .ND_EQ ∧ res = (vx == vy)) ∨ (k = .ND_NE ∧ res = (vx != vy)) ∨ (k = .ND_LT ∧ res = decide (vx < vy)) ∨
                      (k = .ND_LE ∧ res = decide (vx ≤ vy))) →
                    NodeHas O (mkCompareA k (elabA a) (elabA b)) (.int .i32) (.int r) := by
                  intro k res hres hk
                  rw [mkCompareA_eq k _ _ _ _ hna.1 hnb.1, ht, hres]
                  exact int_cmp_node O k res _ hw _ _ vx vy hca hcb hk
                have cmpSwap : ∀ k res, r = b2z res →
                    ((k = .ND_LT ∧ res = decide (vy < vx)) ∨ (k = .ND_LE ∧ res = decide (vy ≤ vx))) →
                    NodeHas O (mkCompareA k (elabA b) (elabA a)) (.int .i32) (.int r) := by
                  intro k res hres hk
                  rw [mkCompareA_eq k _ _ _ _ hnb.1 hna.1, hta, htb]
                  have hcomm : usual (.int tb) (.int ta) = .int (ITy.common ta tb) := by
                    simp only [usual]; rw [common_comm]
                  rw [hcomm, hres]
                  rw [hta, htb] at ht
                  refine int_cmp_node O k res _ hw _ _ vy vx hcb hca ?_
                  rcases hk with ⟨rfl, rfl⟩ | ⟨rfl, rfl⟩
                  · exact Or.inr (Or.inr (Or.inl ⟨rfl, rfl⟩))
                  · exact Or.inr (Or.inr (Or.inr ⟨rfl, rfl⟩))
                cases op <;> simp only [elabA, typeOf] <;> (try (simp only [BinOp.isShift] at hs'; done))
                · exact arith _ (by simp)
                · exact arith _ (by simp)
                · exact arith _ (by simp)
                · exact arith _ (by simp)
                · exact arith _ (by simp)
                · exact arith _ (by simp)
                · exact arith _ (by simp)
                · exact arith _ (by simp)
                · cases hs'
                · cases hs'
                · simp only [binop, Option.some.injEq] at hr; exact cmp _ _ hr.symm (Or.inl ⟨rfl, rfl⟩)
                · simp only [binop, Option.some.injEq] at hr; exact cmp _ _ hr.symm (Or.inr (Or.inl ⟨rfl, rfl⟩))
                · simp only [binop, Option.some.injEq] at hr; exact cmp _ _ hr.symm (Or.inr (Or.inr (Or.inl ⟨rfl, rfl⟩)))
                · simp only [binop, Option.some.injEq] at hr; exact cmp _ _ hr.symm (Or.inr (Or.inr (Or.inr ⟨rfl, rfl⟩)))
                · simp only [binop, Option.some.injEq] at hr
                  exact cmpSwap _ _ hr.symm (Or.inl ⟨rfl, by simp only [gt_iff_lt]⟩)
                · simp only [binop, Option.some.injEq] at hr
                  exact cmpSwap _ _ hr.symm (Or.inr ⟨rfl, by simp only [ge_iff_le]⟩)
              | flt T =>
                rw [ht] at h hca hcb
                have hfx := isFlt_of_good O hca.2.1
                have hfy := isFlt_of_good O hcb.2.1
                have h' : (match fop? op with
                    | some f => farith O f xc yc
                    | none => (cmpHolds op (Val.cmp (xc.val O) (yc.val O))).map (fun r => AVal.int (b2z r))) = some v := by
                  cases xc <;> cases yc <;> first | exact h | (cases hfx; done) | (cases hfy; done)
                have arith : ∀ f k, fop? op = some f → (f, k) ∈ [(FOp.add, NodeKind.ND_ADD), (.sub, .ND_SUB), (.mul, .ND_MUL), (.div, .ND_DIV)] →
                    NodeHas O (mkArithA k (elabA a) (elabA b)) (usual (typeOf a) (typeOf b)) v := by
                  intro f k hf hk
                  rw [hf] at h'
                  rw [mkArithA_eq k _ _ _ _ hna.1 hnb.1, ht]
                  exact flt_bin_node O hS f k hk T _ _ xc yc v hca hcb h'
                have cmp : ∀ k holds, fop? op = none → cmpHolds op (Val.cmp (xc.val O) (yc.val O)) = some (holds (Val.cmp (xc.val O) (yc.val O))) →
                    ((k = .ND_EQ ∧ holds = fun r => r == .eq) ∨ (k = .ND_NE ∧ holds = fun r => r != .eq) ∨
                      (k = .ND_LT ∧ holds = fun r => r == .lt) ∨ (k = .ND_LE ∧ holds = fun r => r == .lt || r == .eq)) →
                    NodeHas O (mkCompareA k (elabA a) (elabA b)) (.int .i32) v := by
                  intro k holds hf hh hk
                  rw [hf, hh] at h'
                  simp only [Option.map_some, Option.some.injEq] at h'
                  subst h'
                  rw [mkCompareA_eq k _ _ _ _ hna.1 hnb.1, ht]
                  exact flt_cmp_node O hS k holds hk T _ _ xc yc hca hcb
                have cmpSwap : ∀ k holds, fop? op = none →
                    cmpHolds op (Val.cmp (xc.val O) (yc.val O)) = some (holds (Val.cmp (yc.val O) (xc.val O))) →
                    ((k = .ND_LT ∧ holds = fun r => r == .lt) ∨ (k = .ND_LE ∧ holds = fun r => r == .lt || r == .eq)) →
                    NodeHas O (mkCompareA k (elabA b) (elabA a)) (.int .i32) v := by
                  intro k holds hf hh hk
                  rw [hf, hh] at h'
                  simp only [Option.map_some, Option.some.injEq] at h'
                  subst h'
                  have hcomm : usual (typeOf b) (typeOf a) = .flt T := by
                    rw [← ht]
                    generalize typeOf a = ta; generalize typeOf b = tb
                    rcases ta with ta | fa <;> rcases tb with tb | fb
                    · simp only [usual]; rw [common_comm]
                    · cases fb <;> rfl
                    · cases fa <;> rfl
                    · cases fa <;> cases fb <;> rfl
                  rw [mkCompareA_eq k _ _ _ _ hnb.1 hna.1, hcomm]
                  rw [hcomm] at *
                  refine flt_cmp_node O hS k holds ?_ T _ _ yc xc ?_ ?_
                  · rcases hk with ⟨rfl, rfl⟩ | ⟨rfl, rfl⟩
                    · exact Or.inr (Or.inr (Or.inl ⟨rfl, rfl⟩))
                    · exact Or.inr (Or.inr (Or.inr ⟨rfl, rfl⟩))
                  · rw [← ht]; rw [ht]; exact hcb
                  · exact hca
                cases op <;> simp only [elabA, typeOf]
                · exact arith _ _ rfl (by simp)
                · exact arith _ _ rfl (by simp)
                · exact arith _ _ rfl (by simp)
                · exact arith _ _ rfl (by simp)
                · simp [fop?, cmpHolds] at h'
                · simp [fop?, cmpHolds] at h'
                · simp [fop?, cmpHolds] at h'
                · simp [fop?, cmpHolds] at h'
                · cases hs'
                · cases hs'
                · exact cmp _ _ rfl rfl (Or.inl ⟨rfl, rfl⟩)
                · exact cmp _ _ rfl rfl (Or.inr (Or.inl ⟨rfl, rfl⟩))
                · exact cmp _ _ rfl rfl (Or.inr (Or.inr (Or.inl ⟨rfl, rfl⟩)))
                · exact cmp _ _ rfl rfl (Or.inr (Or.inr (Or.inr ⟨rfl, rfl⟩)))
                · refine cmpSwap _ (fun r => r == .lt) rfl ?_ (Or.inl ⟨rfl, rfl⟩)
                  simp only [cmpHolds]; rw [Val.cmp_swap (yc.val O) (xc.val O), rel_swap_lt]
                · refine cmpSwap _ (fun r => r == .lt || r == .eq) rfl ?_ (Or.inr ⟨rfl, rfl⟩)
                  simp only [cmpHolds]; rw [Val.cmp_swap (yc.val O) (xc.val O), rel_swap_le]
  | land a b iha ihb =>
    intro v h
    simp only [Spec.ConstF.eval] at h
    cases hea : Spec.ConstF.eval O a with
    | none => simp [hea] at h
    | some x =>
      rw [hea] at h
      simp only at h
      have hna := iha x hea
      cases hx : Spec.ConstF.truth O x
      · simp only [hx, Bool.not_false, ite_true, Option.some.injEq] at h
        subst h
        exact land_node O hS hna false (fun h' => by rw [hx] at h'; cases h') (fun _ => rfl)
      · simp only [hx, Bool.not_true, Bool.false_eq_true, ite_false] at h
        cases heb : Spec.ConstF.eval O b with
        | none => simp [heb] at h
        | some y =>
          rw [heb] at h
          simp only [Option.some.injEq] at h
          subst h
          exact land_node O hS hna _ (fun _ => ⟨_, _, ihb y heb, rfl⟩) (fun h' => by rw [hx] at h'; cases h')
  | lor a b iha ihb =>
    intro v h
    simp only [Spec.ConstF.eval] at h
    cases hea : Spec.ConstF.eval O a with
    | none => simp [hea] at h
    | some x =>
      rw [hea] at h
      simp only at h
      have hna := iha x hea
      cases hx : Spec.ConstF.truth O x
      · simp only [hx, Bool.false_eq_true, ite_false] at h
        cases heb : Spec.ConstF.eval O b with
        | none => simp [heb] at h
        | some y =>
          rw [heb] at h
          simp only [Option.some.injEq] at h
          subst h
          exact lor_node O hS hna _ (fun _ => ⟨_, _, ihb y heb, rfl⟩) (fun h' => by rw [hx] at h'; cases h')
      · simp only [hx, ite_true, Option.some.injEq] at h
        subst h
        exact lor_node O hS hna true (fun h' => by rw [hx] at h'; cases h') (fun _ => rfl)
  | cond c a b ihc iha ihb =>
    intro v h
    simp only [Spec.ConstF.eval] at h
    cases hec : Spec.ConstF.eval O c with
    | none => simp [hec] at h
    | some x =>
      rw [hec] at h
      simp only at h
      have hnc := ihc x hec
      have hT : elabA (.cond c a b) = .mk .ND_COND (descrA (usual (typeOf a) (typeOf b))) 0 0 .null .null (elabA c)
          (mkCast (elabA a) (descrA (usual (typeOf a) (typeOf b)))) (mkCast (elabA b) (descrA (usual (typeOf a) (typeOf b)))) := by
        simp only [elabA, elabA_ty, gctA_descr]
      rw [hT]
      show NodeHas O _ (usual (typeOf a) (typeOf b)) v
      apply cond_node O hS hnc
      · cases hx : Spec.ConstF.truth O x
        · simp only [hx, Bool.false_eq_true, ite_false] at h ⊢
          cases heb : Spec.ConstF.eval O b with
          | none => simp [heb] at h
          | some y =>
            rw [heb] at h
            exact cast_node O hS (ihb y heb) _ v h
        · simp only [hx, ite_true] at h ⊢
          cases hea : Spec.ConstF.eval O a with
          | none => simp [hea] at h
          | some y =>
            rw [hea] at h
            exact cast_node O hS (iha y hea) _ v h
      · intro ti hti
        obtain ⟨ta, tb, _, _, rfl⟩ := usual_int_inv hti
        exact common_wide ta tb
  | cast T e ih =>
    intro v h
    simp only [Spec.ConstF.eval] at h
    cases he : Spec.ConstF.eval O e with
    | none => simp [he] at h
    | some x =>
      rw [he] at h
      exact cast_node O hS (ih x he) T v h

/-! ## Static initializers: what `write_gvar_data` stores -/

omit hS in
theorem good_f32_inv {b : BitVec 32} {ty : ATy} (h : Good O (.f32 b) ty) : ty = .flt .f32 ∧ RT32 O b := by
  rcases ty with t | f
  · exact absurd h (by simp [Good])
  · cases f <;> first | exact ⟨rfl, h⟩ | exact absurd h (by simp [Good])
omit hS in
theorem good_f64_inv {b : BitVec 64} {ty : ATy} (h : Good O (.f64 b) ty) : ty = .flt .f64 ∧ RT64 O b := by
  rcases ty with t | f
  · exact absurd h (by simp [Good])
  · cases f <;> first | exact ⟨rfl, h⟩ | exact absurd h (by simp [Good])

/-- `static float x = E;` stores the C11 conversion of the value of `E` to `float` -/
theorem store_f32 {n : CNode} {ty : ATy} {v : AVal} (h : NodeHas O n ty v) (b' : BitVec 32)
    (hc : convert O (.flt .f32) v = some (.f32 b')) : storeGvarF32 .wrapping (host O) n = .ok b' := by
  unfold storeGvarF32
  rw [h.evalDouble]
  show Except.ok (O.fst32 (widen O v)) = _
  congr 1
  cases v with
  | int x =>
    obtain ⟨t, _, hx⟩ := good_int O h.2.1
    simp only [convert, Option.some.injEq, AVal.f32.injEq] at hc
    rw [← hc]; exact hS.narrow_int32 x (inRange_natAbs t x hx)
  | f32 b =>
    simp only [convert, Option.some.injEq, AVal.f32.injEq] at hc
    rw [← hc]; exact (good_f32_inv O h.2.1).2
  | f64 b =>
    simp only [convert, Option.some.injEq, AVal.f32.injEq] at hc
    rw [← hc]; exact hS.narrow_64_32 b (good_f64_inv O h.2.1).2
  | f80 b =>
    simp only [convert, Option.some.injEq, AVal.f32.injEq] at hc
    rw [← hc]; rfl

/-- `static double x = E;` -/
theorem store_f64 {n : CNode} {ty : ATy} {v : AVal} (h : NodeHas O n ty v) (b' : BitVec 64)
    (hc : convert O (.flt .f64) v = some (.f64 b')) : storeGvarF64 .wrapping (host O) n = .ok b' := by
  unfold storeGvarF64
  rw [h.evalDouble]
  show Except.ok (O.fst64 (widen O v)) = _
  congr 1
  cases v with
  | int x =>
    obtain ⟨t, _, hx⟩ := good_int O h.2.1
    simp only [convert, Option.some.injEq, AVal.f64.injEq] at hc
    rw [← hc]; exact hS.narrow_int64 x (inRange_natAbs t x hx)
  | f32 b =>
    simp only [convert, Option.some.injEq, AVal.f64.injEq] at hc
    rw [← hc]; exact hS.widen_32_64 b (good_f32_inv O h.2.1).2
  | f64 b =>
    simp only [convert, Option.some.injEq, AVal.f64.injEq] at hc
    rw [← hc]; exact (good_f64_inv O h.2.1).2
  | f80 b =>
    simp only [convert, Option.some.injEq, AVal.f64.injEq] at hc
    rw [← hc]; rfl

omit hS in
/-- `static long double x = E;` -/
theorem store_f80 {n : CNode} {ty : ATy} {v : AVal} (h : NodeHas O n ty v) (b' : BitVec 80)
    (hc : convert O (.flt .f80) v = some (.f80 b')) : storeGvarF80 .wrapping (host O) n = .ok b' := by
  unfold storeGvarF80
  rw [h.evalDouble]
  congr 1
  cases v <;> simp only [convert, Option.some.injEq, AVal.f80.injEq] at hc <;> rw [← hc] <;> rfl

omit hS in
theorem writeBuf8 (x : Int) : writeBuf (img x) (8#32) = .ok (objBits .u64 x) := writeBuf_descr .u64 x

/-- `static T x = E;`, `T` an integer type: the object holds the C11 conversion of the value of `E` to `T` -/
theorem store_int {n : CNode} {ty : ATy} {v : AVal} (h : NodeHas O n ty v) (t : ITy) (x' : Int)
    (hc : convert O (.int t) v = some (.int x')) : storeGvarScalar .wrapping (host O) (descr t) n = .ok (objBits t x') := by
  unfold storeGvarScalar
  cases hfl : isFlt v
  · -- an integer initializer
    obtain ⟨x, rfl⟩ : ∃ x, v = .int x := by cases v <;> first | exact ⟨_, rfl⟩ | cases hfl
    obtain ⟨s, rfl, hx⟩ := good_int O h.2.1
    simp only [convert, Option.some.injEq, AVal.int.injEq] at hc
    subst hc
    have hty : CNode.tyOf n = .ok (descr s) := h.1
    simp only [hty, bind, Except.bind, descr_not_flonum, Bool.false_and, Bool.false_eq_true, ite_false, h.2.2 true]
    exact store_gvar_node (host O) t s n x hty hx
  · -- a floating initializer
    have hcast := cast_node O hS h (.int t) (.int x') hc
    have hxr : t.inRange x' = true := hcast.2.1
    have hed := h.evalDouble
    obtain ⟨g, hgt⟩ := good_flt O hfl h.2.1
    subst hgt
    have hty : CNode.tyOf n = .ok (descrF g) := h.1
    have hsame := val_widen O hS v hfl
    have hi : fpToInt t (v.val O) = some x' := by
      cases v <;> first | (cases hfl; done) | (simp only [convert, Option.map_eq_some_iff, AVal.int.injEq] at hc; obtain ⟨i, hi, rfl⟩ := hc; exact hi)
    simp only [hty, bind, Except.bind, descrF_flonum, Bool.true_and]
    by_cases hb : t = .bool
    · subst hb
      simp only [fpToInt, Option.some.injEq] at hi
      simp only [descr, Bool.false_and, Bool.false_eq_true, ite_false, eval2_of_flonum O n g _ hty hed true]
      unfold storeGvar
      simp only [show (TypeKind.TY_BOOL == TypeKind.TY_BOOL) = true from rfl, ite_true, hty, bind, Except.bind, descrF_flonum,
        hed, pure, Except.pure, host_ne_zero O hS, Val.same_isZero hsame]
      rw [← hi]
      cases (v.val O).isZero <;> rfl
    · have htr : ∃ j, (v.val O).trunc? = some j ∧ j = x' := by
        unfold fpToInt at hi
        cases hq : (v.val O).trunc? with
        | none => cases t <;> first | exact absurd rfl hb | (simp only [hq] at hi; cases hi)
        | some j =>
          have : (if t.inRange j = true then some j else none) = some x' := by
            cases t <;> first | exact absurd rfl hb | (simpa only [hq] using hi)
          split at this
          · cases this; exact ⟨_, rfl, rfl⟩
          · cases this
      obtain ⟨j, hj, rfl⟩ := htr
      have hj' : (O.val80 (widen O v)).trunc? = some j := by rw [Val.same_trunc hsame]; exact hj
      by_cases hu : t = .u64
      · subst hu
        simp only [descr, show ((8#32 : BitVec 32) == 8#32) = true from rfl, Bool.and_self, ite_true, hed]
        have : cvtU64 .wrapping (host O) (widen O v) = .ok (img j) := by
          show Except.ok ((host O).f80toU64 (widen O v)) = _
          simp only [HostFp.ofOps, hj']
          rng
          rw [if_pos (by constructor <;> omega)]
        rw [this]
        exact writeBuf8 j
      · have hcnd : ((descr t).isUnsigned && ((descr t).size == (8#32))) = false := by
          cases t <;> first | rfl | exact absurd rfl hu
        simp only [hcnd, Bool.false_eq_true, ite_false, eval2_of_flonum O n g _ hty hed true]
        have hrange : -9223372036854775808 ≤ j ∧ j ≤ 9223372036854775807 := by
          cases t <;> first | exact absurd rfl hu | exact absurd rfl hb | (rng; omega)
        rw [truncTo64_of _ j hj' hrange.1 hrange.2]
        unfold storeGvar
        have hk : ((descr t).kind == TypeKind.TY_BOOL) = false := by cases t <;> first | rfl | exact absurd rfl hb
        simp only [hk, Bool.false_eq_true, ite_false, bind, Except.bind, pure, Except.pure, writeBuf_descr]

/-! ## is_const_expr -/

/-- **every arithmetic constant expression that has a value is accepted by `is_const_expr`** (operands that C11 says are not
    evaluated need not have one) -/
theorem isConst_elabA : ∀ (e : AExpr) (v : AVal), Spec.ConstF.eval O e = some v →
    isConstExpr .wrapping (host O) (elabA e) = .ok true := by
  intro e
  induction e with
  | ilit t x0 => intro v _; simp only [elabA]; exact isConst_num (host O) _ _ _ _ _ _ _ _
  | flit T fv => intro v _; simp only [elabA]; exact isConst_num (host O) _ _ _ _ _ _ _ _
  | un op e ih =>
    intro v h
    simp only [Spec.ConstF.eval] at h
    cases he : Spec.ConstF.eval O e with
    | none => simp [he] at h
    | some x =>
      have ih := ih x he
      cases op <;> simp only [elabA, mkPromotedA, un]
      · rw [isConst_un (host O) _ _ _ _ _ _ _ _ .ND_NEG (by simp [constUn]), isConst_cast, ih]
      · rw [isConst_un (host O) _ _ _ _ _ _ _ _ .ND_BITNOT (by simp [constUn]), isConst_cast, ih]
      · rw [isConst_un (host O) _ _ _ _ _ _ _ _ .ND_NOT (by simp [constUn]), ih]
      · split
        · rw [isConst_cast, ih]
        · exact ih
  | bin op a b iha ihb =>
    intro v h
    simp only [Spec.ConstF.eval] at h
    cases hea : Spec.ConstF.eval O a with
    | none => simp [hea] at h
    | some x =>
      cases heb : Spec.ConstF.eval O b with
      | none => simp [hea, heb] at h
      | some y =>
        have iha := iha x hea; have ihb := ihb y heb
        cases op <;> simp only [elabA, mkPromotedA, mkArithA, mkCompareA, bin] <;>
          rw [isConst_bin (host O) _ _ _ _ _ _ _ _ _ (by simp [constBin])] <;>
          simp only [isConst_cast, iha, ihb, bind, Except.bind, ite_true]
  | land a b iha ihb =>
    intro v h
    simp only [Spec.ConstF.eval] at h
    cases hea : Spec.ConstF.eval O a with
    | none => simp [hea] at h
    | some x =>
      rw [hea] at h
      simp only at h
      simp only [elabA, bin]; rw [isConst_logand]
      simp only [iha x hea, bind, Except.bind, Bool.not_true, Bool.false_eq_true, ite_false,
        truth_node O hS (fold_float_main O hS a x hea)]
      cases hx : Spec.ConstF.truth O x
      · rfl
      · simp only [hx, Bool.not_true, Bool.false_eq_true, ite_false] at h ⊢
        cases heb : Spec.ConstF.eval O b with
        | none => simp [heb] at h
        | some y => exact ihb y heb
  | lor a b iha ihb =>
    intro v h
    simp only [Spec.ConstF.eval] at h
    cases hea : Spec.ConstF.eval O a with
    | none => simp [hea] at h
    | some x =>
      rw [hea] at h
      simp only at h
      simp only [elabA, bin]; rw [isConst_logor]
      simp only [iha x hea, bind, Except.bind, Bool.not_true, Bool.false_eq_true, ite_false,
        truth_node O hS (fold_float_main O hS a x hea)]
      cases hx : Spec.ConstF.truth O x
      · simp only [hx, Bool.false_eq_true, ite_false] at h ⊢
        cases heb : Spec.ConstF.eval O b with
        | none => simp [heb] at h
        | some y => exact ihb y heb
      · rfl
  | cond c a b ihc iha ihb =>
    intro v h
    simp only [Spec.ConstF.eval] at h
    cases hec : Spec.ConstF.eval O c with
    | none => simp [hec] at h
    | some x =>
      rw [hec] at h
      simp only at h
      simp only [elabA]; rw [isConst_cond]
      simp only [ihc x hec, bind, Except.bind, Bool.not_true, Bool.false_eq_true, ite_false,
        truth_node O hS (fold_float_main O hS c x hec), isConst_cast]
      cases hx : Spec.ConstF.truth O x
      · simp only [hx, Bool.false_eq_true, ite_false] at h ⊢
        cases heb : Spec.ConstF.eval O b with
        | none => simp [heb] at h
        | some y => exact ihb y heb
      · simp only [hx, ite_true] at h ⊢
        cases hea : Spec.ConstF.eval O a with
        | none => simp [hea] at h
        | some y => exact iha y hea
  | cast T e ih =>
    intro v h
    simp only [Spec.ConstF.eval] at h
    cases he : Spec.ConstF.eval O e with
    | none => simp [he] at h
    | some x => simp only [elabA]; rw [isConst_cast]; exact ih x he

/-- the hypothesis of `C07_constness_sound` holds for an x86-64 host on a `Sound` FPU: the `long double` made from a 64-bit
    integer compares equal to zero exactly when the integer is zero -/
theorem host_zeroExact : FpZeroExact (host O) := by
  obtain ⟨n, e, hz⟩ := zero80 O hS
  have key : ∀ k : Int, k.natAbs < 2 ^ 64 →
      (Val.cmp (O.val80 (O.ofInt80 k)) (O.val80 (O.ofInt80 (0#32).toInt)) == .eq) = decide (k = 0) := by
    intro k hk
    rw [show (0#32).toInt = 0 from rfl, hz, cmp_zero_beq]
    have := (Val.toInt_zero_iff (hS.ofInt80_val k hk)).1
    cases hzz : (O.val80 (O.ofInt80 k)).isZero
    · have : k ≠ 0 := fun h0 => by rw [this.2 h0] at hzz; cases hzz
      simp [this]
    · simp [this.1 hzz]
  constructor
  · intro v
    show (Val.cmp (O.val80 (O.ofInt80 v.toInt)) (O.val80 (O.ofInt80 (0#32).toInt)) == .eq) = (v == 0#64)
    rw [key v.toInt (by have := BitVec.toInt_lt (x := v); have := BitVec.le_toInt (x := v); omega)]
    rw [Bool.eq_iff_iff]; simp only [decide_eq_true_eq, beq_iff_eq]
    constructor
    · intro h; exact BitVec.eq_of_toInt_eq (by simpa using h)
    · intro h; subst h; rfl
  · intro v
    show (Val.cmp (O.val80 (O.ofInt80 v.toNat)) (O.val80 (O.ofInt80 (0#32).toInt)) == .eq) = (v == 0#64)
    rw [key v.toNat (by have := v.isLt; omega)]
    rw [Bool.eq_iff_iff]; simp only [decide_eq_true_eq, beq_iff_eq]
    constructor
    · intro h; exact BitVec.eq_of_toNat_eq (by simpa using h)
    · intro h; subst h; rfl

end nodes

end ChibiVerif.C07Float
