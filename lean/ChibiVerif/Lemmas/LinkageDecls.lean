/-
Helper lemmas for C15_symbols_partial: facts about a declaration sequence alone (no parser state): what
`refsOrdered` gives, how `firstFlags` / `allBodyRefs` / `fileRooted` (the closed forms of what `parse` records)
read in terms of the Spec's `fnDecls`, `fnBody`, `fileFnRefs`.
-/
import ChibiVerif.Lemmas.LinkageOk
import ChibiVerif.Lemmas.LinkageData

namespace ChibiVerif.Linkage
open ChibiVerif.Spec.Linkage

variable [Rules]

/-! ### names -/

omit [Rules] in
theorem mem_fnNames_cons {d : Decl} {ds : List Decl} {g : Name} :
    g ∈ fnNames (d :: ds) ↔ (∃ n s e i b, d = .func g n s e i b) ∨ g ∈ fnNames ds := by
  rw [mem_fnNames, mem_fnNames]
  cases d with
  | func f n s e i b =>
    rw [fnDecls_cons_func]
    by_cases hf : f = g
    · subst hf
      simp
    · simp only [hf, if_false]
      constructor
      · exact Or.inr
      · rintro (⟨n', s', e', i', b', h⟩ | h)
        · cases h; exact absurd rfl hf
        · exact h
  | obj x s e t ty init =>
    rw [fnDecls_cons_obj]
    constructor
    · exact Or.inr
    · rintro (⟨n', s', e', i', b', h⟩ | h)
      · cases h
      · exact h

omit [Rules] in
theorem mem_fnNames_of_mem {ds : List Decl} {f : Name} {n : Nat} {s e i : Bool} {b : Option (List BodyItem)}
    (h : Decl.func f n s e i b ∈ ds) : f ∈ fnNames ds := by
  rw [mem_fnNames]
  intro h0
  have : (⟨s, e, i, b⟩ : FnDecl) ∈ fnDecls ds f := mem_fnDecls.mpr ⟨n, h⟩
  rw [h0] at this; cases this

omit [Rules] in
theorem mem_objNames_of_mem {ds : List Decl} {x : Name} {s e t : Bool} {ty : ObjTy} {init : Option (List InitItem)}
    (h : Decl.obj x s e t ty init ∈ ds) : x ∈ objNames ds := by
  rw [mem_objNames]
  intro h0
  have : (⟨s, e, t, ty, init⟩ : ObjDecl) ∈ objDecls ds x := mem_objDecls.mpr h
  rw [h0] at this; cases this

omit [Rules] in
theorem mem_blockExternNames {ds : List Decl} {x : Name} :
    x ∈ blockExternNames ds ↔ ∃ f n s e i b tls ty, Decl.func f n s e i (some b) ∈ ds ∧ BodyItem.externObj x tls ty ∈ b := by
  unfold blockExternNames
  rw [List.mem_flatMap]
  constructor
  · rintro ⟨d, hd, hx⟩
    cases d with
    | obj => simp at hx
    | func f n s e i body =>
      cases body with
      | none => simp at hx
      | some b =>
        simp only [List.mem_filterMap] at hx
        obtain ⟨it, hit, hh⟩ := hx
        cases it with
        | externObj y tls ty =>
          simp only [Option.some.injEq] at hh
          subst hh
          exact ⟨f, n, s, e, i, b, tls, ty, hd, hit⟩
        | ref => cases hh
        | staticLocal => cases hh
        | str => cases hh
  · rintro ⟨f, n, s, e, i, b, tls, ty, hd, hb⟩
    exact ⟨_, hd, by simp only [List.mem_filterMap]; exact ⟨_, hb, rfl⟩⟩

omit [Rules] in
theorem mem_fileFnRefs {ds : List Decl} {g : Name} :
    g ∈ fileFnRefs ds ↔ ∃ x s e t ty items, Decl.obj x s e t ty (some items) ∈ ds ∧ g ∈ initFnRefs items := by
  unfold fileFnRefs
  rw [List.mem_flatMap]
  constructor
  · rintro ⟨d, hd, hx⟩
    cases d with
    | func => simp at hx
    | obj x s e t ty init =>
      cases init with
      | none => simp at hx
      | some items => exact ⟨x, s, e, t, ty, items, hd, hx⟩
  · rintro ⟨x, s, e, t, ty, items, hd, hg⟩
    exact ⟨_, hd, hg⟩

omit [Rules] in
theorem mem_fileObjRefs {ds : List Decl} {y : Name} :
    y ∈ fileObjRefs ds ↔ ∃ x s e t ty items, Decl.obj x s e t ty (some items) ∈ ds ∧ y ∈ initObjRefs items := by
  unfold fileObjRefs
  rw [List.mem_flatMap]
  constructor
  · rintro ⟨d, hd, hx⟩
    cases d with
    | func => simp at hx
    | obj x s e t ty init =>
      cases init with
      | none => simp at hx
      | some items => exact ⟨x, s, e, t, ty, items, hd, hx⟩
  · rintro ⟨x, s, e, t, ty, items, hd, hg⟩
    exact ⟨_, hd, hg⟩

/-! ### what `refsOrdered` gives -/

omit [Rules] in
theorem mem_bodyFnRefs {b : List BodyItem} {g : Name} :
    g ∈ bodyFnRefs b ↔ BodyItem.ref (.fn g) ∈ b ∨ ∃ tls ty items, BodyItem.staticLocal tls ty (some items) ∈ b ∧ g ∈ initFnRefs items := by
  unfold bodyFnRefs
  rw [List.mem_flatMap]
  constructor
  · rintro ⟨it, hit, hg⟩
    cases it with
    | ref r =>
      cases r with
      | fn g' => simp only [List.mem_singleton] at hg; subst hg; exact Or.inl hit
      | obj x => simp at hg
    | staticLocal tls ty init =>
      cases init with
      | none => simp at hg
      | some items => exact Or.inr ⟨tls, ty, items, hit, hg⟩
    | str => simp at hg
    | externObj => simp at hg
  · rintro (h | ⟨tls, ty, items, hit, hg⟩)
    · exact ⟨_, h, by simp⟩
    · exact ⟨_, hit, hg⟩

omit [Rules] in
theorem mem_bodyObjRefs {b : List BodyItem} {x : Name} :
    x ∈ bodyObjRefs b ↔ BodyItem.ref (.obj x) ∈ b ∨ ∃ tls ty items, BodyItem.staticLocal tls ty (some items) ∈ b ∧ x ∈ initObjRefs items := by
  unfold bodyObjRefs
  rw [List.mem_flatMap]
  constructor
  · rintro ⟨it, hit, hg⟩
    cases it with
    | ref r =>
      cases r with
      | obj y => simp only [List.mem_singleton] at hg; subst hg; exact Or.inl hit
      | fn g => simp at hg
    | staticLocal tls ty init =>
      cases init with
      | none => simp at hg
      | some items => exact Or.inr ⟨tls, ty, items, hit, hg⟩
    | str => simp at hg
    | externObj => simp at hg
  · rintro (h | ⟨tls, ty, items, hit, hg⟩)
    · exact ⟨_, h, by simp⟩
    · exact ⟨_, hit, hg⟩

omit [Rules] in
theorem bodyOrdered_refs {fs : List Name} : ∀ (b : List BodyItem) (xs : List Name), bodyOrdered fs xs b = true →
    (∀ g, g ∈ bodyFnRefs b → g ∈ fs) ∧
    (∀ x, x ∈ bodyObjRefs b → x ∈ xs ∨ ∃ tls ty, BodyItem.externObj x tls ty ∈ b)
  | [], _, _ => ⟨fun _ h => (by simp [bodyFnRefs] at h), fun _ h => (by simp [bodyObjRefs] at h)⟩
  | it :: rest, xs, h => by
    cases it with
    | ref r =>
      cases r with
      | fn g' =>
        simp only [bodyOrdered, Bool.and_eq_true] at h
        obtain ⟨ih1, ih2⟩ := bodyOrdered_refs rest xs h.2
        refine ⟨fun g hg => ?_, fun x hx => ?_⟩
        · simp only [bodyFnRefs, List.flatMap_cons, List.mem_append, List.mem_singleton] at hg
          rcases hg with rfl | hg
          · simpa using h.1
          · exact ih1 g hg
        · simp only [bodyObjRefs, List.flatMap_cons, List.nil_append] at hx
          rcases ih2 x hx with h' | ⟨tls, ty, h'⟩
          · exact Or.inl h'
          · exact Or.inr ⟨tls, ty, List.mem_cons_of_mem _ h'⟩
      | obj y =>
        simp only [bodyOrdered, Bool.and_eq_true] at h
        obtain ⟨ih1, ih2⟩ := bodyOrdered_refs rest xs h.2
        refine ⟨fun g hg => ?_, fun x hx => ?_⟩
        · simp only [bodyFnRefs, List.flatMap_cons, List.nil_append] at hg
          exact ih1 g hg
        · simp only [bodyObjRefs, List.flatMap_cons, List.mem_append, List.mem_singleton] at hx
          rcases hx with rfl | hx
          · exact Or.inl (by simpa using h.1)
          · rcases ih2 x hx with h' | ⟨tls, ty, h'⟩
            · exact Or.inl h'
            · exact Or.inr ⟨tls, ty, List.mem_cons_of_mem _ h'⟩
    | staticLocal tls ty init =>
      cases init with
      | none =>
        simp only [bodyOrdered] at h
        obtain ⟨ih1, ih2⟩ := bodyOrdered_refs rest xs h
        refine ⟨fun g hg => ?_, fun x hx => ?_⟩
        · simp only [bodyFnRefs, List.flatMap_cons, List.nil_append] at hg
          exact ih1 g hg
        · simp only [bodyObjRefs, List.flatMap_cons, List.nil_append] at hx
          rcases ih2 x hx with h' | ⟨tls', ty', h'⟩
          · exact Or.inl h'
          · exact Or.inr ⟨tls', ty', List.mem_cons_of_mem _ h'⟩
      | some items =>
        simp only [bodyOrdered, Bool.and_eq_true] at h
        obtain ⟨ih1, ih2⟩ := bodyOrdered_refs rest xs h.2
        refine ⟨fun g hg => ?_, fun x hx => ?_⟩
        · simp only [bodyFnRefs, List.flatMap_cons, List.mem_append] at hg
          rcases hg with hg | hg
          · exact all_contains h.1.1 g hg
          · exact ih1 g hg
        · simp only [bodyObjRefs, List.flatMap_cons, List.mem_append] at hx
          rcases hx with hx | hx
          · exact Or.inl (all_contains h.1.2 x hx)
          · rcases ih2 x hx with h' | ⟨tls', ty', h'⟩
            · exact Or.inl h'
            · exact Or.inr ⟨tls', ty', List.mem_cons_of_mem _ h'⟩
    | str n =>
      simp only [bodyOrdered] at h
      obtain ⟨ih1, ih2⟩ := bodyOrdered_refs rest xs h
      refine ⟨fun g hg => ?_, fun x hx => ?_⟩
      · simp only [bodyFnRefs, List.flatMap_cons, List.nil_append] at hg
        exact ih1 g hg
      · simp only [bodyObjRefs, List.flatMap_cons, List.nil_append] at hx
        rcases ih2 x hx with h' | ⟨tls', ty', h'⟩
        · exact Or.inl h'
        · exact Or.inr ⟨tls', ty', List.mem_cons_of_mem _ h'⟩
    | externObj y tls ty =>
      simp only [bodyOrdered] at h
      obtain ⟨ih1, ih2⟩ := bodyOrdered_refs rest (y :: xs) h
      refine ⟨fun g hg => ?_, fun x hx => ?_⟩
      · simp only [bodyFnRefs, List.flatMap_cons, List.nil_append] at hg
        exact ih1 g hg
      · simp only [bodyObjRefs, List.flatMap_cons, List.nil_append] at hx
        rcases ih2 x hx with h' | ⟨tls', ty', h'⟩
        · rcases List.mem_cons.mp h' with rfl | h'
          · exact Or.inr ⟨tls, ty, List.mem_cons_self⟩
          · exact Or.inl h'
        · exact Or.inr ⟨tls', ty', List.mem_cons_of_mem _ h'⟩

omit [Rules] in
/-- every identifier the unit mentions is declared in it (or was before it) -/
theorem refsOrdered_declared : ∀ (ds : List Decl) (fs xs : List Name), refsOrdered ds fs xs = true →
    (∀ g, g ∈ fileFnRefs ds → g ∈ fs ∨ g ∈ fnNames ds) ∧
    (∀ f n s e i b, Decl.func f n s e i (some b) ∈ ds → ∀ g, g ∈ bodyFnRefs b → g ∈ fs ∨ g ∈ fnNames ds) ∧
    (∀ y, y ∈ fileObjRefs ds → y ∈ xs ∨ y ∈ objNames ds) ∧
    (∀ f n s e i b, Decl.func f n s e i (some b) ∈ ds → ∀ y, y ∈ bodyObjRefs b →
      y ∈ xs ∨ y ∈ objNames ds ∨ ∃ tls ty, BodyItem.externObj y tls ty ∈ b)
  | [], _, _, _ => ⟨fun _ h => (by simp [fileFnRefs] at h), fun _ _ _ _ _ _ h => (by cases h),
      fun _ h => (by simp [fileObjRefs] at h), fun _ _ _ _ _ _ h => (by cases h)⟩
  | d :: ds, fs, xs, h => by
    cases d with
    | func f n s e i body =>
      simp only [refsOrdered, Bool.and_eq_true] at h
      obtain ⟨i1, i2, i3, i4⟩ := refsOrdered_declared ds (f :: fs) xs h.2
      have lift : ∀ g, g ∈ f :: fs ∨ g ∈ fnNames ds → g ∈ fs ∨ g ∈ fnNames (.func f n s e i body :: ds) := by
        intro g hg
        rcases hg with hg | hg
        · rcases List.mem_cons.mp hg with rfl | hg
          · exact Or.inr (mem_fnNames_cons.mpr (Or.inl ⟨n, s, e, i, body, rfl⟩))
          · exact Or.inl hg
        · exact Or.inr (mem_fnNames_cons.mpr (Or.inr hg))
      have liftO : ∀ y, y ∈ objNames ds → y ∈ objNames (.func f n s e i body :: ds) := by
        intro y hy
        rw [mem_objNames] at hy ⊢
        simpa [objDecls, List.filterMap_cons] using hy
      refine ⟨fun g hg => ?_, fun f' n' s' e' i' b' hm g hg => ?_, fun y hy => ?_, fun f' n' s' e' i' b' hm y hy => ?_⟩
      · have : g ∈ fileFnRefs ds := by simpa [fileFnRefs, List.flatMap_cons] using hg
        exact lift g (i1 g this)
      · rcases List.mem_cons.mp hm with hm | hm
        · cases hm
          simp only at h
          exact lift g (Or.inl ((bodyOrdered_refs b' xs h.1).1 g hg))
        · exact lift g (i2 f' n' s' e' i' b' hm g hg)
      · have : y ∈ fileObjRefs ds := by simpa [fileObjRefs, List.flatMap_cons] using hy
        rcases i3 y this with h' | h'
        · exact Or.inl h'
        · exact Or.inr (liftO y h')
      · rcases List.mem_cons.mp hm with hm | hm
        · cases hm
          simp only at h
          rcases (bodyOrdered_refs b' xs h.1).2 y hy with h' | h'
          · exact Or.inl h'
          · exact Or.inr (Or.inr h')
        · rcases i4 f' n' s' e' i' b' hm y hy with h' | h' | h'
          · exact Or.inl h'
          · exact Or.inr (Or.inl (liftO y h'))
          · exact Or.inr (Or.inr h')
    | obj x s e t ty init =>
      simp only [refsOrdered, Bool.and_eq_true] at h
      obtain ⟨i1, i2, i3, i4⟩ := refsOrdered_declared ds fs (x :: xs) h.2
      have liftF : ∀ g, g ∈ fnNames ds → g ∈ fnNames (.obj x s e t ty init :: ds) :=
        fun g hg => mem_fnNames_cons.mpr (Or.inr hg)
      have hxN : x ∈ objNames (.obj x s e t ty init :: ds) := mem_objNames_of_mem List.mem_cons_self
      have liftO : ∀ y, y ∈ x :: xs ∨ y ∈ objNames ds → y ∈ xs ∨ y ∈ objNames (.obj x s e t ty init :: ds) := by
        intro y hy
        rcases hy with hy | hy
        · rcases List.mem_cons.mp hy with rfl | hy
          · exact Or.inr hxN
          · exact Or.inl hy
        · right
          rw [mem_objNames] at hy ⊢
          intro h0
          apply hy
          simp only [objDecls, List.filterMap_cons] at h0
          split at h0
          · exact h0
          · cases h0
      refine ⟨fun g hg => ?_, fun f' n' s' e' i' b' hm g hg => ?_, fun y hy => ?_, fun f' n' s' e' i' b' hm y hy => ?_⟩
      · cases init with
        | none =>
          have : g ∈ fileFnRefs ds := by simpa [fileFnRefs, List.flatMap_cons] using hg
          rcases i1 g this with h' | h'
          · exact Or.inl h'
          · exact Or.inr (liftF g h')
        | some items =>
          simp only [fileFnRefs, List.flatMap_cons, List.mem_append] at hg
          simp only [Bool.and_eq_true] at h
          rcases hg with hg | hg
          · exact Or.inl (all_contains h.1.1 g hg)
          · rcases i1 g hg with h' | h'
            · exact Or.inl h'
            · exact Or.inr (liftF g h')
      · rcases List.mem_cons.mp hm with hm | hm
        · cases hm
        · rcases i2 f' n' s' e' i' b' hm g hg with h' | h'
          · exact Or.inl h'
          · exact Or.inr (liftF g h')
      · cases init with
        | none =>
          have : y ∈ fileObjRefs ds := by simpa [fileObjRefs, List.flatMap_cons] using hy
          exact liftO y (i3 y this)
        | some items =>
          simp only [fileObjRefs, List.flatMap_cons, List.mem_append] at hy
          simp only [Bool.and_eq_true] at h
          rcases hy with hy | hy
          · exact liftO y (Or.inl (all_contains h.1.2 y hy))
          · exact liftO y (i3 y hy)
      · rcases List.mem_cons.mp hm with hm | hm
        · cases hm
        · rcases i4 f' n' s' e' i' b' hm y hy with h' | h' | h'
          · exact liftO y (Or.inl h') |>.elim Or.inl (fun h'' => Or.inr (Or.inl h''))
          · exact (liftO y (Or.inr h')).elim Or.inl (fun h'' => Or.inr (Or.inl h''))
          · exact Or.inr (Or.inr h')

omit [Rules] in
/-- a file-scope initializer names `f` after its declaration: `fileRooted` is plain membership -/
theorem fileRooted_eq : ∀ (ds : List Decl) (fs xs : List Name) (dcl : Bool) (f : Name), refsOrdered ds fs xs = true →
    (f ∈ fs → dcl = true) → fileRooted ds dcl f = (fileFnRefs ds).contains f
  | [], _, _, _, _, _, _ => rfl
  | d :: ds, fs, xs, dcl, f, h, hd => by
    cases d with
    | func g n s e i body =>
      simp only [refsOrdered, Bool.and_eq_true] at h
      simp only [fileRooted]
      rw [fileRooted_eq ds (g :: fs) xs _ f h.2 (by
        intro hm
        rcases List.mem_cons.mp hm with rfl | hm
        · simp
        · simp [hd hm])]
      simp [fileFnRefs, List.flatMap_cons]
    | obj x s e t ty init =>
      simp only [refsOrdered, Bool.and_eq_true] at h
      simp only [fileRooted]
      rw [fileRooted_eq ds fs (x :: xs) dcl f h.2 hd]
      cases init with
      | none => simp [fileFnRefs, List.flatMap_cons]
      | some items =>
        simp only [Bool.and_eq_true] at h
        by_cases hc : f ∈ initFnRefs items
        · have := hd (all_contains h.1.1 f hc)
          simp [fileFnRefs, List.flatMap_cons, hc, this]
        · simp [fileFnRefs, List.flatMap_cons, hc]

/-! ### `firstFlags`, `allBodyRefs` in terms of `fnDecls` -/

def effFlags (d : FnDecl) : Bool × Bool := (d.isStatic || (d.isInline && !d.isExtern), d.isInline)

omit [Rules] in
theorem firstFlags_eq : ∀ (ds : List Decl) (f : Name), firstFlags ds f = (fnDecls ds f).head?.map effFlags
  | [], _ => rfl
  | d :: ds, f => by
    cases d with
    | func g n s e i b =>
      rw [fnDecls_cons_func]
      by_cases hg : g = f
      · subst hg; simp [firstFlags, List.findSome?, effFlags]
      · have := firstFlags_eq ds f
        simp only [firstFlags] at this
        simp [firstFlags, List.findSome?, hg, this]
    | obj x s e t ty init =>
      rw [fnDecls_cons_obj]
      have := firstFlags_eq ds f
      simp only [firstFlags] at this
      simp [firstFlags, List.findSome?, this]

omit [Rules] in
theorem firstFlags_isSome {ds : List Decl} {f : Name} : (firstFlags ds f).isSome = true ↔ f ∈ fnNames ds := by
  rw [firstFlags_eq, mem_fnNames]
  cases fnDecls ds f <;> simp

omit [Rules] in
theorem allBodyRefs_eq : ∀ (ds : List Decl) (f : Name),
    allBodyRefs ds f = (fnDecls ds f).flatMap (fun d => match d.body with | some b => bodyFnRefs b | none => [])
  | [], _ => rfl
  | d :: ds, f => by
    rw [allBodyRefs_cons, allBodyRefs_eq ds f]
    cases d with
    | func g n s e i b =>
      rw [fnDecls_cons_func]
      by_cases hg : g = f
      · subst hg; cases b <;> simp
      · cases b <;> simp [hg]
    | obj x s e t ty init =>
      rw [fnDecls_cons_obj]; rfl

omit [Rules] in
theorem flatMap_bodies_eq : ∀ (D : List FnDecl), (D.filter (fun d => d.body.isSome)).length ≤ 1 →
    D.flatMap (fun d => match d.body with | some b => bodyFnRefs b | none => []) = bodyFnRefs (fnBody D)
  | [], _ => rfl
  | d :: D, h => by
    cases hb : d.body with
    | none =>
      have h' : (D.filter (fun d => d.body.isSome)).length ≤ 1 := by
        simpa [List.filter_cons, hb] using h
      rw [List.flatMap_cons, hb, flatMap_bodies_eq D h']
      simp [fnBody, List.findSome?, hb]
    | some b =>
      simp only [List.filter_cons, hb, Option.isSome_some, if_true, List.length_cons] at h
      have h0 : (D.filter (fun d => d.body.isSome)).length = 0 := by omega
      rw [List.length_eq_zero_iff, List.filter_eq_nil_iff] at h0
      have : D.flatMap (fun d => match d.body with | some b => bodyFnRefs b | none => []) = [] := by
        rw [List.flatMap_eq_nil_iff]
        intro x hx
        have := h0 x hx
        cases hxb : x.body <;> simp_all
      rw [List.flatMap_cons, hb, this]
      simp [fnBody, List.findSome?, hb]

omit [Rules] in
theorem fnBody_undefined {D : List FnDecl} (h : fnDefined D = false) : fnBody D = [] := by
  unfold fnDefined at h
  rw [List.any_eq_false] at h
  unfold fnBody
  have : D.findSome? (·.body) = none := by
    rw [List.findSome?_eq_none_iff]
    intro x hx
    have := h x hx
    cases hxb : x.body <;> simp_all
  rw [this]

omit [Rules] in
theorem mem_fnBody {D : List FnDecl} (h : fnDefined D = true) : ∃ d, d ∈ D ∧ d.body = some (fnBody D) := by
  unfold fnBody
  cases hf : D.findSome? (·.body) with
  | none =>
    rw [List.findSome?_eq_none_iff] at hf
    unfold fnDefined at h
    rw [List.any_eq_true] at h
    obtain ⟨d, hd, hb⟩ := h
    have := hf d hd
    rw [this] at hb; cases hb
  | some b =>
    obtain ⟨d, hd, hb⟩ := List.exists_of_findSome?_eq_some hf
    exact ⟨d, hd, hb⟩

omit [Rules] in
/-- with at most one body, the body of any defining declaration is `fnBody` -/
theorem body_unique {D : List FnDecl} (h1 : (D.filter (fun d => d.body.isSome)).length ≤ 1) {d : FnDecl} {b : List BodyItem}
    (hd : d ∈ D) (hb : d.body = some b) : b = fnBody D := by
  induction D with
  | nil => cases hd
  | cons a as ih =>
    cases ha : a.body with
    | none =>
      have h' : (as.filter (fun d => d.body.isSome)).length ≤ 1 := by simpa [List.filter_cons, ha] using h1
      rcases List.mem_cons.mp hd with rfl | hd
      · rw [ha] at hb; cases hb
      · rw [ih h' hd]
        simp [fnBody, List.findSome?, ha]
    | some b' =>
      simp only [List.filter_cons, ha, Option.isSome_some, if_true, List.length_cons] at h1
      have h0 : (as.filter (fun d => d.body.isSome)).length = 0 := by omega
      rw [List.length_eq_zero_iff, List.filter_eq_nil_iff] at h0
      rcases List.mem_cons.mp hd with rfl | hd
      · rw [ha] at hb; cases hb
        simp [fnBody, List.findSome?, ha]
      · have := h0 d hd
        rw [hb] at this
        simp at this

/-! ### `is_definition` after `parse` -/

theorem flagsAfter_def : ∀ (ds : List Decl) (g : Name) (cur : Option Flags),
    (flagsAfter ds g cur).map (·.isDefinition) =
      if fnDecls ds g = [] then cur.map (·.isDefinition)
      else some ((cur.map (·.isDefinition)).getD false || fnDefined (fnDecls ds g))
  | [], _, _ => rfl
  | d :: ds, g, cur => by
    simp only [flagsAfter, List.foldl_cons]
    have ih := flagsAfter_def ds g (stepFlags d g cur)
    simp only [flagsAfter] at ih
    rw [ih]
    cases d with
    | func f n s e i body =>
      rw [fnDecls_cons_func]
      by_cases hf : f = g
      · subst hf
        simp only [if_true, stepFlags]
        by_cases h0 : fnDecls ds f = []
        · simp only [h0, if_true]
          cases cur with
          | none => simp [fnDefined, newFlags]
          | some q => simp [fnDefined, redeclF_isDefinition]
        · simp only [h0, if_false]
          cases cur with
          | none => simp [fnDefined, newFlags]
          | some q => simp [fnDefined, redeclF_isDefinition, Bool.or_assoc]
      · have hg : ¬ g = f := fun e' => hf e'.symm
        simp [stepFlags, hf, hg]
    | obj x s e t ty init =>
      rw [fnDecls_cons_obj]
      rfl

/-- `find_func(f)->is_definition` after `parse`: some declaration of `f` has a body -/
theorem isDefinition_parse {ds : List Decl} {st : PState} (h : declAll {} ds = .ok st) {f : Name} {o : Obj}
    (ho : findFunc st.globals f = some o) : o.isDefinition = fnDefined (fnDecls ds f) := by
  have hT := T_parse h f
  have h1 : (T st.globals f).map flagsOf = some (flagsOf (fview o)) := by simp [T, ho]
  rw [hT, flagsOf_evolve] at h1
  have h2 := flagsAfter_def ds f (Option.map flagsOf none)
  rw [h1] at h2
  by_cases h0 : fnDecls ds f = []
  · simp [h0] at h2
  · simp only [h0, if_false, Option.map_some, Option.map_none, Option.getD_none, Bool.false_or, Option.some.injEq] at h2
    exact h2

end ChibiVerif.Linkage
