/-
C16: parse.c `declarator` on tokens (Model/C16Declr.lean) computes `Declr.apply` (Model/C16Qual.lean), which is the
C11 6.7.6 meaning of the declarator (`C16QualSpec.declType`): for every declarator tree, on the tokens the C grammar
gives it, followed by anything that does not continue a direct declarator.
-/
import ChibiVerif.Model.C16Declr

namespace ChibiVerif.C16Declr
open ChibiVerif.C16Qual

/-- the rest does not start with `(` or `[` (which `type_suffix` would take for a continuation) -/
def endsDeclr : List DTok → Bool
  | .lp :: _ => false
  | .lb :: _ => false
  | _ => true

/-- the rest does not start with `*`, `(` or an identifier: `pointers` and `declarator` stop there -/
def notStar : List DTok → Bool
  | .star :: _ => false
  | _ => true

theorem typeSuffixT_end {rest : List DTok} (h : endsDeclr rest = true) (ty : Ty) (f : Nat) :
    typeSuffixT (f + 1) rest ty = some (ty, rest) := by
  cases rest with
  | nil => rfl
  | cons t r => cases t <;> simp [endsDeclr] at h <;> rfl

/-- a suffix continuation: tokens `sfx` (a sequence of `[n]` / `(void)`) with meaning `g`, followed by `rest` -/
def SfxOK (F : Nat) (sfx : List DTok) (g : Ty → Ty) (rest : List DTok) : Prop :=
  ∀ ty fuel, F ≤ fuel → typeSuffixT fuel (sfx ++ rest) ty = some (g ty, rest)

theorem SfxOK.nil {rest : List DTok} (h : endsDeclr rest = true) : SfxOK 1 [] id rest := by
  intro ty fuel hf
  obtain ⟨f, rfl⟩ : ∃ f, fuel = f + 1 := ⟨fuel - 1, by omega⟩
  simpa using typeSuffixT_end h ty f

theorem SfxOK.arr {F : Nat} {sfx : List DTok} {g : Ty → Ty} {rest : List DTok} (h : SfxOK F sfx g rest) (n : Nat) :
    SfxOK (F + 1) (.lb :: .num n :: .rb :: sfx) (fun t => arrayOf (g t) n) rest := by
  intro ty fuel hf
  obtain ⟨f, rfl⟩ : ∃ f, fuel = f + 1 := ⟨fuel - 1, by omega⟩
  simp [typeSuffixT, h ty f (by omega)]

theorem SfxOK.fn {F : Nat} {sfx : List DTok} {g : Ty → Ty} {rest : List DTok} (h : SfxOK F sfx g rest)
    (hs : sfx = []) (hg : g = id) :
    SfxOK (F + 1) (.lp :: .void_ :: .rp :: sfx) (fun t => funcType (g t)) rest := by
  subst hs; subst hg
  intro ty fuel hf
  obtain ⟨f, rfl⟩ : ∃ f, fuel = f + 1 := ⟨fuel - 1, by omega⟩
  simp [typeSuffixT, funcParamsT]

def isFn : Declr → Bool
  | .fn _ => true
  | _ => false

def isPtr : Declr → Bool
  | .ptr _ _ => true
  | _ => false

/-- C11 6.7.6.3p1: no function returning a function or an array (`D(void)[n]`, `D(void)(void)`; with parentheses in
    between - `(D(void))[n]` - chibicc parses what the grammar says, so only the direct adjacency is excluded) -/
def valid : Declr → Bool
  | .name => true
  | .ptr d _ => valid d
  | .paren d => valid d
  | .arr d _ => valid d && !isFn d
  | .fn d => valid d && !isFn d

/-- the rest does not start with a qualifier -/
def noQual : List DTok → Bool
  | .qual _ :: _ => false
  | _ => true

/-- the qualifier loop consumes a whole qualifier list, whatever its order and length -/
theorem qualsT_quals (qs : List PQual) (ts : List DTok) (ty : Ty) :
    qualsT (qs.map .qual ++ ts) ty = qualsT ts (applyQuals qs ty) := by
  induction qs generalizing ty with
  | nil => rfl
  | cons q qs ih => simp [qualsT, applyQuals, ih]

/-- where no qualifier follows, leaving the qualifier loop is `pointers` from its beginning -/
theorem qualsT_noQual {ts : List DTok} (h : noQual ts = true) (ty : Ty) : qualsT ts ty = pointersT ts ty := by
  cases ts with
  | nil => rfl
  | cons t r => cases t <;> simp [noQual] at h <;> rfl

theorem pointersT_star (qs : List PQual) {ts : List DTok} (h : noQual ts = true) (ty : Ty) :
    pointersT (.star :: (qs.map .qual ++ ts)) ty = pointersT ts (applyQuals qs (pointerTo ty)) := by
  show qualsT (qs.map .qual ++ ts) (pointerTo ty) = _
  rw [qualsT_quals, qualsT_noQual h]

theorem declaratorT_star (f : Nat) (qs : List PQual) {ts : List DTok} (h : noQual ts = true) (ty : Ty) :
    declaratorT (f + 1) (.star :: (qs.map .qual ++ ts)) ty = declaratorT (f + 1) ts (applyQuals qs (pointerTo ty)) := by
  simp only [declaratorT]
  rw [pointersT_star qs h]

/-- the tokens of a declarator never begin with a qualifier -/
theorem noQual_toks (d : Declr) : ∀ rest : List DTok, noQual (toks d ++ rest) = true := by
  induction d with
  | name => intro rest; rfl
  | ptr d qs _ => intro rest; rfl
  | paren d _ => intro rest; rfl
  | arr d n ih =>
    intro rest
    cases d with
    | ptr d' qs' => rfl
    | _ => all_goals (simp only [toks, List.append_assoc] at ih ⊢; exact ih _)
  | fn d ih =>
    intro rest
    cases d with
    | ptr d' qs' => rfl
    | _ => all_goals (simp only [toks, List.append_assoc] at ih ⊢; exact ih _)

theorem declaratorT_ident (f : Nat) (after : List DTok) (ty : Ty) :
    declaratorT (f + 1) (.ident :: after) ty = typeSuffixT f after ty := by
  simp [declaratorT, pointersT]

theorem declaratorT_lp (f : Nat) (inner after rest r3 : List DTok) (ty t1 ty2 ty3 : Ty)
    (h1 : declaratorT f inner dummy = some (t1, .rp :: after))
    (h2 : typeSuffixT f after ty = some (ty2, rest))
    (h3 : declaratorT f inner ty2 = some (ty3, r3)) :
    declaratorT (f + 1) (.lp :: inner) ty = some (ty3, rest) := by
  simp [declaratorT, pointersT, h1, h2, h3]

/-- the whole declarator, followed by something that ends it -/
def A (d : Declr) : Prop :=
  ∃ F, ∀ ty rest fuel, endsDeclr rest = true → F ≤ fuel →
    declaratorT fuel (toks d ++ rest) ty = some (d.apply ty, rest)

/-- a direct declarator, followed by further suffixes `sfx` (meaning `g`) -/
def B (d : Declr) : Prop :=
  ∃ F, ∀ sfx g rest Fs, SfxOK Fs sfx g rest → (isFn d = true → sfx = [] ∧ g = id) →
    ∀ ty fuel, F + Fs ≤ fuel → declaratorT fuel (toks d ++ (sfx ++ rest)) ty = some (d.apply (g ty), rest)

theorem A_of_B {d : Declr} (hB : B d) : A d := by
  obtain ⟨F, h⟩ := hB
  refine ⟨F + 1, ?_⟩
  intro ty rest fuel hr hf
  have := h [] id rest 1 (SfxOK.nil hr) (fun _ => ⟨rfl, rfl⟩) ty fuel (by omega)
  simpa using this

theorem B_name : B .name := by
  refine ⟨1, ?_⟩
  intro sfx g rest Fs hs _ ty fuel hf
  obtain ⟨f, rfl⟩ : ∃ f, fuel = f + 1 := ⟨fuel - 1, by omega⟩
  simp only [toks, List.cons_append, List.nil_append, declaratorT_ident]
  simpa [Declr.apply] using hs ty f (by omega)

theorem B_paren {d : Declr} (hA : A d) : B (.paren d) := by
  obtain ⟨F, h⟩ := hA
  refine ⟨F + 1, ?_⟩
  intro sfx g rest Fs hs _ ty fuel hf
  obtain ⟨f, rfl⟩ : ∃ f, fuel = f + 1 := ⟨fuel - 1, by omega⟩
  have e1 : toks (.paren d) ++ (sfx ++ rest) = .lp :: (toks d ++ (.rp :: (sfx ++ rest))) := by simp [toks]
  rw [e1]
  have h1 := h dummy (.rp :: (sfx ++ rest)) f rfl (by omega)
  have h2 := hs ty f (by omega)
  have h3 := h (g ty) (.rp :: (sfx ++ rest)) f rfl (by omega)
  rw [declaratorT_lp f _ _ _ _ ty _ _ _ h1 h2 h3]
  simp [Declr.apply]

/-- the direct declarator in front of a suffix: `d` itself, or `( d )` when `d` is a pointer declarator -/
def directToks (d : Declr) : List DTok :=
  match d with
  | .ptr _ _ => .lp :: toks d ++ [.rp]
  | _ => toks d

theorem toks_arr (d : Declr) (n : Nat) : toks (.arr d n) = directToks d ++ [.lb, .num n, .rb] := by
  cases d <;> rfl

theorem toks_fn (d : Declr) : toks (.fn d) = directToks d ++ [.lp, .void_, .rp] := by
  cases d <;> rfl

/-- `B` for the direct declarator in front of a suffix, from `A d` (pointer declarator, parenthesised) or `B d` -/
theorem B_direct {d : Declr} (hA : A d) (hB : isPtr d = false → B d) :
    ∃ F, ∀ sfx g rest Fs, SfxOK Fs sfx g rest → (isFn d = true → sfx = [] ∧ g = id) →
      ∀ ty fuel, F + Fs ≤ fuel → declaratorT fuel (directToks d ++ (sfx ++ rest)) ty = some (d.apply (g ty), rest) := by
  cases hp : isPtr d
  · obtain ⟨F, h⟩ := hB hp
    refine ⟨F, ?_⟩
    intro sfx g rest Fs hs hfn ty fuel hf
    have : directToks d = toks d := by cases d <;> simp [isPtr] at hp <;> rfl
    rw [this]
    exact h sfx g rest Fs hs hfn ty fuel hf
  · obtain ⟨F, h⟩ := B_paren hA
    refine ⟨F, ?_⟩
    intro sfx g rest Fs hs _ ty fuel hf
    have e : directToks d = toks (.paren d) := by cases d <;> simp [isPtr] at hp <;> rfl
    rw [e]
    have := h sfx g rest Fs hs (fun hc => by simp [isFn] at hc) ty fuel hf
    simpa [Declr.apply] using this

/-- parse.c `declarator` computes the C11 meaning of every valid declarator -/
theorem AB : ∀ d : Declr, valid d = true → A d ∧ (isPtr d = false → B d)
  | .name, _ => ⟨A_of_B B_name, fun _ => B_name⟩
  | .paren d, hv => by
    have ih := AB d (by simpa [valid] using hv)
    have hb := B_paren ih.1
    exact ⟨A_of_B hb, fun _ => hb⟩
  | .ptr d qs, hv => by
    have ih := AB d (by simpa [valid] using hv)
    obtain ⟨F, h⟩ := ih.1
    refine ⟨⟨F + 1, ?_⟩, fun hc => by simp [isPtr] at hc⟩
    intro ty rest fuel hr hf
    obtain ⟨f, rfl⟩ : ∃ f, fuel = f + 1 := ⟨fuel - 1, by omega⟩
    simp only [toks, List.cons_append, List.append_assoc]
    rw [declaratorT_star f qs (noQual_toks d rest)]
    simpa [Declr.apply] using h (applyQuals qs (pointerTo ty)) rest (f + 1) hr (by omega)
  | .arr d n, hv => by
    simp [valid] at hv
    have ih := AB d hv.1
    obtain ⟨F, h⟩ := B_direct ih.1 ih.2
    have hb : B (.arr d n) := by
      refine ⟨F + 1, ?_⟩
      intro sfx g rest Fs hs _ ty fuel hf
      rw [toks_arr, List.append_assoc]
      have := h (.lb :: .num n :: .rb :: sfx) (fun t => arrayOf (g t) n) rest (Fs + 1) (hs.arr n)
        (fun hc => by simp [hv.2] at hc) ty fuel (by omega)
      simpa [Declr.apply] using this
    exact ⟨A_of_B hb, fun _ => hb⟩
  | .fn d, hv => by
    simp [valid] at hv
    have ih := AB d hv.1
    obtain ⟨F, h⟩ := B_direct ih.1 ih.2
    have hb : B (.fn d) := by
      refine ⟨F + 1, ?_⟩
      intro sfx g rest Fs hs hfn ty fuel hf
      obtain ⟨rfl, rfl⟩ := hfn rfl
      rw [toks_fn, List.append_assoc]
      have := h (.lp :: .void_ :: .rp :: []) (fun t => funcType (id t)) rest (Fs + 1) (hs.fn rfl rfl)
        (fun hc => by simp [hv.2] at hc) ty fuel (by omega)
      simpa [Declr.apply] using this
    exact ⟨A_of_B hb, fun _ => hb⟩

end ChibiVerif.C16Declr
