/-
C20: the executable whole-function check `Effect.checkBody` is COMPLETE.

`checkBody` infers one height per label by forward scans repeated until a scan adds nothing
(`Effect.inferFix`) and then verifies the labelling (`Effect.verify`).  This module proves that the
inferred labelling is as good as any:

* `inferFix_fixpoint` — the fuel `length + 1` suffices: the result is a fixpoint of `infer` (every
  pass that is not the last adds a key that is a label or a jump target of the skeleton; keys are never
  repeated — pigeonhole).
* `inferred_sub` — the inferred labelling is contained in EVERY labelling that passes `verifyL`.
* `verifyL_inferred` — if some labelling passes `verifyL`, the inferred one does (`FnBalanced` is
  decided by the inference; no condition on the shape of the label graph: a label that only dead
  code reaches simply stays without a height, as does the code after it).
* `verify_inferred` — the same with the range test: if some labelling passes `verify`, the
  inferred one does.
* `verify_of_verifyL` — a labelling that passes `verifyL` fails `verify` only with the range
  complaint `rangeMsg c`, `okH c = false`.
-/
import ChibiVerif.Model.C20Flow

namespace ChibiVerif.Lemmas.C20
open ChibiVerif ChibiVerif.Effect ChibiVerif.Asm ChibiVerif.C20Scope

/-! ### one step of the label-height check -/

/-- what `verifyL` (and `verify`, up to its range test) does at one step: `none` = it complains,
    `some c'` = it goes on at height `c'` -/
def vstepL (h : Labelling) (s : Step) (cur : Option H) : Option (Option H) :=
  match s with
  | .delta d => some (cur.map (· + d))
  | .cond l =>
    match cur with
    | none => some none
    | some c =>
      if isReturnLabel l then (if c.rsp == 0 then some cur else none)
      else match h.lookup l with
        | some hl => if hl == c then some cur else none
        | none => none
  | .jump l =>
    match cur with
    | none => some none
    | some c =>
      if isReturnLabel l then (if c.rsp == 0 then some none else none)
      else match h.lookup l with
        | some hl => if hl == c then some none else none
        | none => none
  | .leave => some none
  | .label l =>
    if isReturnLabel l then some none else
    match h.lookup l, cur with
    | some hl, some c => if hl == c then some (some hl) else none
    | some hl, none => some (some hl)
    | none, some _ => none
    | none, none => some none
  | .bad _ => none

/-- the range test of `verify` at one step -/
def rangeStep (s : Step) (cur : Option H) : Bool :=
  match s, cur with
  | .delta d, some c => okH (c + d)
  | _, _ => true

theorem verifyL_cons_iff (h : Labelling) (s : Step) (r : List Step) (cur : Option H) :
    verifyL h (s :: r) cur = .ok () ↔ ∃ c', vstepL h s cur = some c' ∧ verifyL h r c' = .ok () := by
  cases s with
  | delta d => simp [verifyL, vstepL]
  | leave => simp [verifyL, vstepL]
  | bad w => simp [verifyL, vstepL]
  | cond l =>
    cases cur with
    | none => simp [verifyL, vstepL]
    | some c =>
      simp only [verifyL, vstepL]
      by_cases hr : isReturnLabel l = true
      · by_cases h0 : (c.rsp == 0) = true <;> simp [hr, h0]
      · simp only [hr, Bool.false_eq_true, if_false]
        cases hl : h.lookup l with
        | none => simp
        | some hl' => by_cases he : (hl' == c) = true <;> simp [he]
  | jump l =>
    cases cur with
    | none => simp [verifyL, vstepL]
    | some c =>
      simp only [verifyL, vstepL]
      by_cases hr : isReturnLabel l = true
      · by_cases h0 : (c.rsp == 0) = true <;> simp [hr, h0]
      · simp only [hr, Bool.false_eq_true, if_false]
        cases hl : h.lookup l with
        | none => simp
        | some hl' => by_cases he : (hl' == c) = true <;> simp [he]
  | label l =>
    simp only [verifyL, vstepL]
    by_cases hr : isReturnLabel l = true
    · simp [hr]
    · simp only [hr, Bool.false_eq_true, if_false]
      cases hl : h.lookup l with
      | none => cases cur <;> simp
      | some hl' =>
        cases cur with
        | none => simp
        | some c => by_cases he : (hl' == c) = true <;> simp [he]

theorem verify_cons_iff (h : Labelling) (s : Step) (r : List Step) (cur : Option H) :
    verify h (s :: r) cur = .ok () ↔
      ∃ c', vstepL h s cur = some c' ∧ rangeStep s cur = true ∧ verify h r c' = .ok () := by
  cases s with
  | delta d =>
    cases cur with
    | none => simp [verify, vstepL, rangeStep]
    | some c => by_cases hk : okH (c + d) = true <;> simp [verify, vstepL, rangeStep, hk, -H.add_def]
  | leave => simp [verify, vstepL, rangeStep]
  | bad w => simp [verify, vstepL]
  | cond l =>
    cases cur with
    | none => simp [verify, vstepL, rangeStep]
    | some c =>
      simp only [verify, vstepL, rangeStep]
      by_cases hr : isReturnLabel l = true
      · by_cases h0 : (c.rsp == 0) = true <;> simp [hr, h0]
      · simp only [hr, Bool.false_eq_true, if_false]
        cases hl : h.lookup l with
        | none => simp
        | some hl' => by_cases he : (hl' == c) = true <;> simp [he]
  | jump l =>
    cases cur with
    | none => simp [verify, vstepL, rangeStep]
    | some c =>
      simp only [verify, vstepL, rangeStep]
      by_cases hr : isReturnLabel l = true
      · by_cases h0 : (c.rsp == 0) = true <;> simp [hr, h0]
      · simp only [hr, Bool.false_eq_true, if_false]
        cases hl : h.lookup l with
        | none => simp
        | some hl' => by_cases he : (hl' == c) = true <;> simp [he]
  | label l =>
    simp only [verify, vstepL, rangeStep]
    by_cases hr : isReturnLabel l = true
    · simp [hr]
    · simp only [hr, Bool.false_eq_true, if_false]
      cases hl : h.lookup l with
      | none => cases cur <;> simp
      | some hl' =>
        cases cur with
        | none => simp
        | some c => by_cases he : (hl' == c) = true <;> simp [he]

/-- a labelling that passes `verify` passes `verifyL` -/
theorem verifyL_of_verify' (h : Labelling) : ∀ (st : List Step) (cur : Option H),
    verify h st cur = .ok () → verifyL h st cur = .ok ()
  | [], _, _ => rfl
  | s :: r, cur, hv => by
    obtain ⟨c', h1, _, h3⟩ := (verify_cons_iff h s r cur).mp hv
    exact (verifyL_cons_iff h s r cur).mpr ⟨c', h1, verifyL_of_verify' h r c' h3⟩

/-! ### the inference against an arbitrary labelling that passes -/

/-- `acc` is contained in `hs` -/
def SubL (acc hs : Labelling) : Prop := ∀ l c, acc.lookup l = some c → hs.lookup l = some c

/-- the inference's height, when it has one, is the height of the reference scan -/
def CurLe (cur curS : Option H) : Prop := ∀ c, cur = some c → curS = some c

theorem lookup_cons_ne {acc : Labelling} {l l' : String} {c : H} (h : l' ≠ l) :
    ((l, c) :: acc).lookup l' = acc.lookup l' := by
  have : (l' == l) = false := by simpa using h
  simp [List.lookup, this]

theorem SubL_cons {acc hs : Labelling} {l : String} {c : H} (h : SubL acc hs) (hl : hs.lookup l = some c) :
    SubL ((l, c) :: acc) hs := by
  intro l' c' hlk
  by_cases e : l' = l
  · subst e
    simp only [List.lookup, beq_self_eq_true, Option.some.injEq] at hlk
    rw [← hlk]; exact hl
  · rw [lookup_cons_ne e] at hlk
    exact h l' c' hlk

/-- one step: the invariants are kept, whatever the step adds -/
theorem step_inv {hs acc : Labelling} {s : Step} {cur curS curS' : Option H}
    (hsub : SubL acc hs) (hcur : CurLe cur curS) (hv : vstepL hs s curS = some curS') :
    SubL (inferStep s cur acc).2 hs ∧ CurLe (inferStep s cur acc).1 curS' := by
  cases s with
  | delta d =>
    simp only [vstepL, Option.some.injEq] at hv
    subst hv
    refine ⟨hsub, ?_⟩
    intro c hc
    cases cur with
    | none => simp [inferStep] at hc
    | some c0 =>
      rw [hcur c0 rfl]
      simpa [inferStep] using hc
  | leave =>
    refine ⟨hsub, ?_⟩
    intro c hc
    simp [inferStep] at hc
  | bad w => simp [vstepL] at hv
  | cond l =>
    by_cases hr : isReturnLabel l = true
    · simp only [inferStep, hr, if_true]
      refine ⟨hsub, ?_⟩
      intro c hc
      subst hc
      have := hcur c rfl
      subst this
      simp only [vstepL, hr, if_true] at hv
      split at hv
      · simpa using hv.symm
      · cases hv
    · simp only [inferStep, hr, Bool.false_eq_true, if_false]
      cases cur with
      | none =>
        refine ⟨hsub, ?_⟩
        intro c hc
        cases hc
      | some c =>
        have := hcur c rfl
        subst this
        simp only [vstepL, hr, Bool.false_eq_true, if_false] at hv
        cases hl : hs.lookup l with
        | none => simp [hl] at hv
        | some hl' =>
          simp only [hl] at hv
          split at hv
          · rename_i he
            have he' : hl' = c := by simpa using he
            subst he'
            simp only [Option.some.injEq] at hv
            subst hv
            cases ha : acc.lookup l with
            | none => exact ⟨SubL_cons hsub hl, fun c hc => hc⟩
            | some x => exact ⟨hsub, fun c hc => hc⟩
          · cases hv
  | jump l =>
    by_cases hr : isReturnLabel l = true
    · simp only [inferStep, hr, if_true]
      exact ⟨hsub, fun c hc => by cases hc⟩
    · simp only [inferStep, hr, Bool.false_eq_true, if_false]
      cases cur with
      | none => exact ⟨hsub, fun c hc => by cases hc⟩
      | some c =>
        have := hcur c rfl
        subst this
        simp only [vstepL, hr, Bool.false_eq_true, if_false] at hv
        cases hl : hs.lookup l with
        | none => simp [hl] at hv
        | some hl' =>
          simp only [hl] at hv
          split at hv
          · rename_i he
            have he' : hl' = c := by simpa using he
            subst he'
            cases ha : acc.lookup l with
            | none => exact ⟨SubL_cons hsub hl, fun c hc => by cases hc⟩
            | some x => exact ⟨hsub, fun c hc => by cases hc⟩
          · cases hv
  | label l =>
    by_cases hr : isReturnLabel l = true
    · simp only [inferStep, hr, if_true]
      exact ⟨hsub, fun c hc => by cases hc⟩
    · simp only [inferStep, hr, Bool.false_eq_true, if_false]
      simp only [vstepL, hr, Bool.false_eq_true, if_false] at hv
      cases ha : acc.lookup l with
      | some x =>
        have hx := hsub l x ha
        simp only [hx] at hv
        refine ⟨hsub, ?_⟩
        intro c hc
        simp only [Option.some.injEq] at hc
        subst hc
        cases curS with
        | none => simpa using hv.symm
        | some cS =>
          simp only at hv
          split at hv
          · simpa using hv.symm
          · cases hv
      | none =>
        cases cur with
        | none => exact ⟨hsub, fun c hc => by cases hc⟩
        | some c =>
          have := hcur c rfl
          subst this
          cases hl : hs.lookup l with
          | none => simp [hl] at hv
          | some hl' =>
            simp only [hl] at hv
            split at hv
            · rename_i he
              have he' : hl' = c := by simpa using he
              subst he'
              refine ⟨SubL_cons hsub hl, ?_⟩
              intro c hc
              simp only [Option.some.injEq] at hc
              subst hc
              simpa using hv.symm
            · cases hv

/-- one step that adds nothing: the inferred labelling passes it, at the inference's height -/
theorem step_ok {hs acc : Labelling} {s : Step} {cur curS curS' : Option H}
    (hsub : SubL acc hs) (hcur : CurLe cur curS) (hv : vstepL hs s curS = some curS')
    (hfix : (inferStep s cur acc).2 = acc) :
    vstepL acc s cur = some (inferStep s cur acc).1 := by
  cases s with
  | delta d => rfl
  | leave => rfl
  | bad w => simp [vstepL] at hv
  | cond l =>
    cases cur with
    | none =>
      by_cases hr : isReturnLabel l = true <;> simp [vstepL, inferStep, hr]
    | some c =>
      have := hcur c rfl
      subst this
      by_cases hr : isReturnLabel l = true
      · simp only [vstepL, hr, if_true] at hv ⊢
        simp only [inferStep, hr, if_true]
        split at hv
        · rename_i h0; simp [h0]
        · cases hv
      · simp only [vstepL, hr, Bool.false_eq_true, if_false] at hv ⊢
        simp only [inferStep, hr, Bool.false_eq_true, if_false] at hfix ⊢
        cases ha : acc.lookup l with
        | none =>
          simp only [ha] at hfix
          have := congrArg List.length hfix
          simp at this
        | some x =>
          have hx := hsub l x ha
          simp only [hx] at hv
          split at hv
          · rename_i he; simp [he]
          · cases hv
  | jump l =>
    cases cur with
    | none =>
      by_cases hr : isReturnLabel l = true <;> simp [vstepL, inferStep, hr]
    | some c =>
      have := hcur c rfl
      subst this
      by_cases hr : isReturnLabel l = true
      · simp only [vstepL, hr, if_true] at hv ⊢
        simp only [inferStep, hr, if_true]
        split at hv
        · rename_i h0; simp [h0]
        · cases hv
      · simp only [vstepL, hr, Bool.false_eq_true, if_false] at hv ⊢
        simp only [inferStep, hr, Bool.false_eq_true, if_false] at hfix ⊢
        cases ha : acc.lookup l with
        | none =>
          simp only [ha] at hfix
          have := congrArg List.length hfix
          simp at this
        | some x =>
          have hx := hsub l x ha
          simp only [hx] at hv
          split at hv
          · rename_i he; simp [he]
          · cases hv
  | label l =>
    by_cases hr : isReturnLabel l = true
    · simp [vstepL, inferStep, hr]
    · simp only [vstepL, hr, Bool.false_eq_true, if_false] at hv ⊢
      simp only [inferStep, hr, Bool.false_eq_true, if_false] at hfix ⊢
      cases ha : acc.lookup l with
      | some x =>
        have hx := hsub l x ha
        simp only [hx] at hv
        cases cur with
        | none => rfl
        | some c =>
          have := hcur c rfl
          subst this
          simp only at hv ⊢
          split at hv
          · rename_i he; simp [he]
          · cases hv
      | none =>
        cases cur with
        | none => rfl
        | some c =>
          simp only [ha] at hfix
          have := congrArg List.length hfix
          simp at this

theorem rangeStep_mono {s : Step} {cur curS : Option H} (hcur : CurLe cur curS)
    (h : rangeStep s curS = true) : rangeStep s cur = true := by
  cases cur with
  | none => cases s <;> rfl
  | some c => rw [hcur c rfl] at h; exact h

/-! ### `infer` only adds, in front, keys of the skeleton that were not there -/

/-- the labels and jump targets of a skeleton -/
def stepKeys : List Step → List String
  | [] => []
  | .label l :: r => l :: stepKeys r
  | .cond l :: r => l :: stepKeys r
  | .jump l :: r => l :: stepKeys r
  | _ :: r => stepKeys r

theorem stepKeys_length : ∀ st : List Step, (stepKeys st).length ≤ st.length
  | [] => Nat.le_refl _
  | s :: r => by
    have := stepKeys_length r
    cases s <;> simp only [stepKeys, List.length_cons] <;> omega

theorem not_mem_keys_of_lookup_none : ∀ (acc : Labelling) (l : String), acc.lookup l = none → l ∉ acc.map Prod.fst
  | [], _, _ => by simp
  | (k, v) :: rest, l, h => by
    by_cases e : l = k
    · subst e
      simp [List.lookup] at h
    · rw [lookup_cons_ne e] at h
      simp only [List.map_cons, List.mem_cons, not_or]
      exact ⟨e, not_mem_keys_of_lookup_none rest l h⟩

/-- a step leaves the labelling alone or puts one fresh key of the step in front -/
theorem inferStep_acc (s : Step) (cur : Option H) (acc : Labelling) :
    (inferStep s cur acc).2 = acc ∨
      ∃ l c, (inferStep s cur acc).2 = (l, c) :: acc ∧ acc.lookup l = none ∧ l ∈ stepKeys [s] := by
  cases s with
  | delta d => exact Or.inl rfl
  | leave => exact Or.inl rfl
  | bad w => exact Or.inl rfl
  | cond l =>
    by_cases hr : isReturnLabel l = true
    · simp [inferStep, hr]
    · simp only [inferStep, hr, Bool.false_eq_true, if_false]
      cases cur with
      | none => exact Or.inl rfl
      | some c =>
        cases ha : acc.lookup l with
        | none => exact Or.inr ⟨l, c, rfl, ha, by simp [stepKeys]⟩
        | some x => exact Or.inl rfl
  | jump l =>
    by_cases hr : isReturnLabel l = true
    · simp [inferStep, hr]
    · simp only [inferStep, hr, Bool.false_eq_true, if_false]
      cases cur with
      | none => exact Or.inl rfl
      | some c =>
        cases ha : acc.lookup l with
        | none => exact Or.inr ⟨l, c, rfl, ha, by simp [stepKeys]⟩
        | some x => exact Or.inl rfl
  | label l =>
    by_cases hr : isReturnLabel l = true
    · simp [inferStep, hr]
    · simp only [inferStep, hr, Bool.false_eq_true, if_false]
      cases ha : acc.lookup l with
      | some x => exact Or.inl rfl
      | none =>
        cases cur with
        | none => exact Or.inl rfl
        | some c => exact Or.inr ⟨l, c, rfl, ha, by simp [stepKeys]⟩

theorem stepKeys_cons_sub (s : Step) (r : List Step) (l : String) :
    (l ∈ stepKeys [s] → l ∈ stepKeys (s :: r)) ∧ (l ∈ stepKeys r → l ∈ stepKeys (s :: r)) := by
  cases s <;> simp [stepKeys] <;> exact ⟨Or.inl, Or.inr⟩

/-- keys pairwise distinct, all of them labels or jump targets of `K` -/
def KeysIn (K : List String) (acc : Labelling) : Prop :=
  (acc.map Prod.fst).Nodup ∧ ∀ k, k ∈ acc.map Prod.fst → k ∈ K

theorem infer_grows : ∀ (st : List Step) (cur : Option H) (acc : Labelling),
    acc.length ≤ (infer st cur acc).length
  | [], _, _ => Nat.le_refl _
  | s :: r, cur, acc => by
    simp only [infer]
    have ih := infer_grows r (inferStep s cur acc).1 (inferStep s cur acc).2
    rcases inferStep_acc s cur acc with h | ⟨l, c, h, _, _⟩
    · rw [h] at ih ⊢; exact ih
    · rw [h] at ih ⊢
      simp only [List.length_cons] at ih
      omega

theorem infer_keysIn (K : List String) : ∀ (st : List Step) (cur : Option H) (acc : Labelling),
    (∀ k, k ∈ stepKeys st → k ∈ K) → KeysIn K acc → KeysIn K (infer st cur acc)
  | [], _, _, _, h => h
  | s :: r, cur, acc, hk, h => by
    simp only [infer]
    have hk' : ∀ k, k ∈ stepKeys r → k ∈ K := fun k hm => hk k ((stepKeys_cons_sub s r k).2 hm)
    rcases inferStep_acc s cur acc with e | ⟨l, c, e, hl, hm⟩
    · rw [e]; exact infer_keysIn K r _ acc hk' h
    · rw [e]
      refine infer_keysIn K r _ _ hk' ⟨?_, ?_⟩
      · simp only [List.map_cons, List.nodup_cons]
        exact ⟨not_mem_keys_of_lookup_none acc l hl, h.1⟩
      · intro k hkm
        simp only [List.map_cons, List.mem_cons] at hkm
        rcases hkm with rfl | hkm
        · exact hk _ ((stepKeys_cons_sub s r _).1 hm)
        · exact h.2 k hkm

/-- pigeonhole: pairwise distinct elements of `m` are at most `m.length` many -/
theorem nodup_subset_length : ∀ (l m : List String), l.Nodup → (∀ x, x ∈ l → x ∈ m) → l.length ≤ m.length
  | [], _, _, _ => Nat.zero_le _
  | a :: l, m, hn, hs => by
    simp only [List.nodup_cons] at hn
    have ham : a ∈ m := hs a List.mem_cons_self
    have hs' : ∀ x, x ∈ l → x ∈ m.erase a := by
      intro x hx
      have hxa : x ≠ a := fun e => hn.1 (e ▸ hx)
      exact (List.mem_erase_of_ne hxa).mpr (hs x (List.mem_cons_of_mem _ hx))
    have ih := nodup_subset_length l (m.erase a) hn.2 hs'
    have hlen := List.length_erase_of_mem ham
    have hpos : 0 < m.length := List.length_pos_of_mem ham
    simp only [List.length_cons]
    omega

theorem keysIn_length {K : List String} {acc : Labelling} (h : KeysIn K acc) : acc.length ≤ K.length := by
  have := nodup_subset_length (acc.map Prod.fst) K h.1 h.2
  simpa using this

/-- with enough fuel `inferFix` ends in a fixpoint of `infer` -/
theorem inferFix_fix (st : List Step) : ∀ (n : Nat) (acc : Labelling), KeysIn (stepKeys st) acc →
    (stepKeys st).length < n + acc.length →
    (infer st (some H.zero) (inferFix n st acc)).length = (inferFix n st acc).length
  | 0, acc, hk, hn => by
    have := keysIn_length hk
    omega
  | n + 1, acc, hk, hn => by
    simp only [inferFix]
    by_cases he : (infer st (some H.zero) acc).length = acc.length
    · simp only [he, beq_self_eq_true, if_true]
    · have hne : ((infer st (some H.zero) acc).length == acc.length) = false := by simpa using he
      simp only [hne, Bool.false_eq_true, if_false]
      have hg := infer_grows st (some H.zero) acc
      exact inferFix_fix st n _ (infer_keysIn _ st _ acc (fun k hm => hm) hk) (by omega)

/-- **the inference reaches a fixpoint** -/
theorem inferFix_fixpoint (st : List Step) :
    (infer st (some H.zero) (inferred st)).length = (inferred st).length := by
  unfold inferred
  refine inferFix_fix st _ [] ⟨List.nodup_nil, fun k hk => by cases hk⟩ ?_
  have := stepKeys_length st
  simp only [List.length_nil]
  omega

/-! ### the inferred labelling is contained in every labelling that passes -/

theorem infer_inv (hs : Labelling) : ∀ (st : List Step) (cur curS : Option H) (acc : Labelling),
    SubL acc hs → CurLe cur curS → verifyL hs st curS = .ok () → SubL (infer st cur acc) hs
  | [], _, _, _, h, _, _ => h
  | s :: r, cur, curS, acc, hsub, hcur, hv => by
    obtain ⟨c', h1, h2⟩ := (verifyL_cons_iff hs s r curS).mp hv
    obtain ⟨i1, i2⟩ := step_inv hsub hcur h1
    simp only [infer]
    exact infer_inv hs r _ c' _ i1 i2 h2

theorem inferFix_inv (hs : Labelling) (st : List Step) (hv : verifyL hs st (some H.zero) = .ok ()) :
    ∀ (n : Nat) (acc : Labelling), SubL acc hs → SubL (inferFix n st acc) hs
  | 0, _, h => h
  | n + 1, acc, h => by
    simp only [inferFix]
    split
    · exact h
    · exact inferFix_inv hs st hv n _ (infer_inv hs st _ _ acc h (fun c hc => hc) hv)

/-- the inferred labelling is part of every labelling that passes `verifyL` -/
theorem inferred_sub (hs : Labelling) (st : List Step) (hv : verifyL hs st (some H.zero) = .ok ()) :
    SubL (inferred st) hs :=
  inferFix_inv hs st hv _ [] (fun l c h => by simp [List.lookup] at h)

/-! ### completeness -/

theorem fix_cons {s : Step} {r : List Step} {cur : Option H} {acc : Labelling}
    (h : (infer (s :: r) cur acc).length = acc.length) :
    (inferStep s cur acc).2 = acc ∧ (infer r (inferStep s cur acc).1 acc).length = acc.length := by
  simp only [infer] at h
  have hg := infer_grows r (inferStep s cur acc).1 (inferStep s cur acc).2
  rcases inferStep_acc s cur acc with e | ⟨l, c, e, _, _⟩
  · rw [e] at h; exact ⟨e, h⟩
  · rw [e] at hg h
    simp only [List.length_cons] at hg
    omega

/-- at a fixpoint of the inference the labelling passes `verifyL` wherever a labelling that contains
    it does -/
theorem verifyL_complete (hs : Labelling) : ∀ (st : List Step) (acc : Labelling) (cur curS : Option H),
    SubL acc hs → (infer st cur acc).length = acc.length → CurLe cur curS →
    verifyL hs st curS = .ok () → verifyL acc st cur = .ok ()
  | [], _, _, _, _, _, _, _ => rfl
  | s :: r, acc, cur, curS, hsub, hfix, hcur, hv => by
    obtain ⟨c', h1, h2⟩ := (verifyL_cons_iff hs s r curS).mp hv
    obtain ⟨f1, f2⟩ := fix_cons hfix
    have i2 := (step_inv hsub hcur h1).2
    refine (verifyL_cons_iff acc s r cur).mpr ⟨_, step_ok hsub hcur h1 f1, ?_⟩
    exact verifyL_complete hs r acc _ c' hsub f2 i2 h2

/-- the same with the range test -/
theorem verify_complete (hs : Labelling) : ∀ (st : List Step) (acc : Labelling) (cur curS : Option H),
    SubL acc hs → (infer st cur acc).length = acc.length → CurLe cur curS →
    verify hs st curS = .ok () → verify acc st cur = .ok ()
  | [], _, _, _, _, _, _, _ => rfl
  | s :: r, acc, cur, curS, hsub, hfix, hcur, hv => by
    obtain ⟨c', h1, hr, h2⟩ := (verify_cons_iff hs s r curS).mp hv
    obtain ⟨f1, f2⟩ := fix_cons hfix
    have i2 := (step_inv hsub hcur h1).2
    refine (verify_cons_iff acc s r cur).mpr ⟨_, step_ok hsub hcur h1 f1, rangeStep_mono hcur hr, ?_⟩
    exact verify_complete hs r acc _ c' hsub f2 i2 h2

/-- **if any labelling passes `verifyL`, the inferred one does** -/
theorem verifyL_inferred (st : List Step) (hs : Labelling) (hv : verifyL hs st (some H.zero) = .ok ()) :
    verifyL (inferred st) st (some H.zero) = .ok () :=
  verifyL_complete hs st _ _ _ (inferred_sub hs st hv) (inferFix_fixpoint st) (fun _ hc => hc) hv

/-- **if any labelling passes `verify`, the inferred one does** -/
theorem verify_inferred (st : List Step) (hs : Labelling) (hv : verify hs st (some H.zero) = .ok ()) :
    verify (inferred st) st (some H.zero) = .ok () :=
  verify_complete hs st _ _ _ (inferred_sub hs st (verifyL_of_verify' hs st _ hv)) (inferFix_fixpoint st)
    (fun _ hc => hc) hv

/-! ### `verify` complains about a labelling that passes `verifyL` only for the range -/

theorem verify_of_verifyL (h : Labelling) : ∀ (st : List Step) (cur : Option H),
    verifyL h st cur = .ok () →
      verify h st cur = .ok () ∨ ∃ c, verify h st cur = .error (rangeMsg c) ∧ okH c = false
  | [], _, _ => Or.inl rfl
  | s :: r, cur, hv => by
    obtain ⟨c', h1, h2⟩ := (verifyL_cons_iff h s r cur).mp hv
    have ih := verify_of_verifyL h r c' h2
    by_cases hr : rangeStep s cur = true
    · -- the step passes: `verify` goes on exactly as `verifyL`
      rcases ih with ih | ⟨c, ih, hc⟩
      · exact Or.inl ((verify_cons_iff h s r cur).mpr ⟨c', h1, hr, ih⟩)
      · refine Or.inr ⟨c, ?_, hc⟩
        rw [← ih]
        exact verify_step_eq h1 hr
    · -- only a `delta` step at a live height has a range test
      cases s with
      | delta d =>
        cases cur with
        | none => simp [rangeStep] at hr
        | some c =>
          have hk : okH (c + d) = false := by simpa [rangeStep] using hr
          exact Or.inr ⟨c + d, by simp [verify, hk, -H.add_def], hk⟩
      | cond l => simp [rangeStep] at hr
      | jump l => simp [rangeStep] at hr
      | leave => simp [rangeStep] at hr
      | label l => simp [rangeStep] at hr
      | bad w => simp [rangeStep] at hr
where
  /-- a step that passes: `verify` continues with the rest at the height `vstepL` computes -/
  verify_step_eq {h : Labelling} {s : Step} {r : List Step} {cur c' : Option H}
      (h1 : vstepL h s cur = some c') (hr : rangeStep s cur = true) :
      verify h (s :: r) cur = verify h r c' := by
    cases s with
    | delta d =>
      simp only [vstepL, Option.some.injEq] at h1
      subst h1
      cases cur with
      | none => simp [verify]
      | some c =>
        have hk : okH (c + d) = true := by simpa [rangeStep] using hr
        simp [verify, hk, -H.add_def]
    | leave =>
      simp only [vstepL, Option.some.injEq] at h1
      subst h1
      simp [verify]
    | bad w => simp [vstepL] at h1
    | cond l =>
      cases cur with
      | none =>
        simp only [vstepL, Option.some.injEq] at h1
        subst h1
        simp [verify]
      | some c =>
        simp only [vstepL] at h1
        simp only [verify]
        by_cases hrl : isReturnLabel l = true
        · simp only [hrl, if_true] at h1 ⊢
          split at h1
          · rename_i h0
            simp only [Option.some.injEq] at h1
            subst h1
            simp [h0]
          · cases h1
        · simp only [hrl, Bool.false_eq_true, if_false] at h1 ⊢
          cases hl : h.lookup l with
          | none => simp [hl] at h1
          | some hl' =>
            simp only [hl] at h1 ⊢
            split at h1
            · rename_i he
              simp only [Option.some.injEq] at h1
              subst h1
              simp [he]
            · cases h1
    | jump l =>
      cases cur with
      | none =>
        simp only [vstepL, Option.some.injEq] at h1
        subst h1
        simp [verify]
      | some c =>
        simp only [vstepL] at h1
        simp only [verify]
        by_cases hrl : isReturnLabel l = true
        · simp only [hrl, if_true] at h1 ⊢
          split at h1
          · rename_i h0
            simp only [Option.some.injEq] at h1
            subst h1
            simp [h0]
          · cases h1
        · simp only [hrl, Bool.false_eq_true, if_false] at h1 ⊢
          cases hl : h.lookup l with
          | none => simp [hl] at h1
          | some hl' =>
            simp only [hl] at h1 ⊢
            split at h1
            · rename_i he
              simp only [Option.some.injEq] at h1
              subst h1
              simp [he]
            · cases h1
    | label l =>
      simp only [vstepL] at h1
      simp only [verify]
      by_cases hrl : isReturnLabel l = true
      · simp only [hrl, if_true, Option.some.injEq] at h1 ⊢
        subst h1
        rfl
      · simp only [hrl, Bool.false_eq_true, if_false] at h1 ⊢
        cases hl : h.lookup l with
        | none =>
          cases cur with
          | none =>
            simp only [hl, Option.some.injEq] at h1
            subst h1
            rfl
          | some c => simp [hl] at h1
        | some hl' =>
          cases cur with
          | none =>
            simp only [hl, Option.some.injEq] at h1
            subst h1
            rfl
          | some c =>
            simp only [hl] at h1 ⊢
            split at h1
            · rename_i he
              simp only [Option.some.injEq] at h1
              subst h1
              simp [he]
            · cases h1

end ChibiVerif.Lemmas.C20
