/-
C14, dependency overlay (Model/C14Deps.lean): the run with dependency output is the run without it plus the dependency
files.  Uses the footprint machinery of the concurrency proof (`Inside`, `step_frame`, `step_local`, `step_inside`,
`step_state_indep`): the dependency paths lie outside the driver's footprint, so the driver cannot tell the difference.
-/
import ChibiVerif.Model.C14Deps
import ChibiVerif.Lemmas.DriverProcConcurrent

set_option linter.unusedSimpArgs false
set_option linter.unusedVariables false
set_option linter.unusedSectionVars false

namespace ChibiVerif.DriverProc

variable {P : Type} [DecidableEq P]

/-- `d` is the dependency file of some input -/
def IsDep (denv : DepEnv P) (d : P) : Prop := ∃ i, denv.depOf i = some d

theorem stepD_fst (denv : DepEnv P) (env : Env P) (s : DState P) (fs : FS P) :
    (stepD denv env s fs).1 = (step env s fs).1 := rfl

theorem depEffect_get_ne (denv : DepEnv P) (env : Env P) (s : DState P) (fs0 fs : FS P) (p : P)
    (hp : ¬ IsDep denv p) : (depEffect denv env s fs0 fs).get p = fs.get p := by
  unfold depEffect
  split
  · rename_i i o hph
    split
    · cases hdo : denv.depOf i with
      | none => rfl
      | some d => exact FS.get_set_ne _ _ (fun e => hp ⟨i, e ▸ hdo⟩)
    · rfl
  · rfl

/-! ### dependency writes of a log -/

theorem cc1Runs_append (l : List (Event P)) (e : Event P) :
    cc1Runs (l ++ [e]) = (scanEv (l.foldl scanEv ([], none)) e).1 := by
  simp [cc1Runs, List.foldl_append]

def pendingOf (log : List (Event P)) : Option P := (log.foldl scanEv ([], none)).2

theorem pendingOf_append (l : List (Event P)) (e : Event P) :
    pendingOf (l ++ [e]) = (scanEv (l.foldl scanEv ([], none)) e).2 := by
  simp [pendingOf, List.foldl_append]

theorem lastWriter_append (w : List (P × P)) (d' i d : P) :
    lastWriter (w ++ [(d', i)]) d = if d' = d then some i else lastWriter w d := by
  unfold lastWriter
  simp only [List.reverse_append, List.reverse_cons, List.reverse_nil, List.nil_append, List.singleton_append,
    List.find?_cons]
  by_cases h : d' = d <;> simp [h]

/-- an event that is not the end of a front-end run adds no dependency write -/
theorem depWrites_append_other (denv : DepEnv P) (l : List (Event P)) (e : Event P)
    (h : ∀ st, e ≠ .wait .cc1 st) : depWrites denv (l ++ [e]) = depWrites denv l := by
  unfold depWrites
  rw [cc1Runs_append]
  have : (scanEv (l.foldl scanEv ([], none)) e).1 = (l.foldl scanEv ([], none)).1 := by
    cases e with
    | wait prog st =>
      cases prog with
      | cc1 => exact absurd rfl (h st)
      | as => rfl
      | ld => rfl
    | spawn prog inp out =>
      cases prog with
      | cc1 =>
        cases inp with
        | nil => rfl
        | cons a r => cases r <;> rfl
      | as => rfl
      | ld => rfl
    | _ => rfl
  rw [this]; rfl

theorem depWrites_append_wait (denv : DepEnv P) (l : List (Event P)) (st : Status) (i : P)
    (hp : pendingOf l = some i) :
    depWrites denv (l ++ [.wait .cc1 st]) =
      depWrites denv l ++ (if st.wait = 0 then
        match denv.depOf i with
        | some d => [(d, i)]
        | none => []
      else []) := by
  unfold depWrites
  rw [cc1Runs_append]
  unfold pendingOf at hp
  simp only [scanEv, hp, List.filterMap_append, cc1Runs]
  congr 1
  simp only [List.filterMap_cons, List.filterMap_nil]
  by_cases hw : st.wait = 0
  · simp only [hw, if_true]
    cases denv.depOf i <;> rfl
  · simp [hw]

/-! ### the joint invariant of the run with and the run without dependency output -/

/-- content of a dependency path after the writes `w` -/
def DepContent (denv : DepEnv P) (W : P → Prop) (fs₀ fs : FS P) (w : List (P × P)) : Prop :=
  ∀ d, IsDep denv d →
    match lastWriter w d with
    | some i => ∃ org, fs.get d = some ⟨.deps, org⟩ ∧ (¬ W i → org = fs₀.origins i)
    | none => fs.get d = fs₀.get d

structure DRel (denv : DepEnv P) (env : Env P) (W F : P → Prop) (fs₀ : FS P)
    (x y : DState P × FS P) : Prop where
  st : x.1 = y.1
  agree : ∀ p, F p → x.2.get p = y.2.get p
  frame : ∀ p, ¬ W p → ¬ IsDep denv p → x.2.get p = fs₀.get p
  inside : Inside env W F y.1
  pend : ∀ inp o, y.1.phase = .waiting .cc1 inp o → ∃ i, inp = [i] ∧ pendingOf y.1.log = some i
  deps : DepContent denv W fs₀ x.2 (depWrites denv y.1.log)

/-- a step into `waiting cc1 …` is a spawn of cc1 on ONE input, and logs it -/
theorem step_waiting_cc1 (env : Env P) (s : DState P) (fs : FS P) (inp : List P) (o : Option P)
    (h : (step env s fs).1.phase = .waiting .cc1 inp o) :
    ∃ i, inp = [i] ∧ (step env s fs).1.log = s.log ++ [.spawn .cc1 [i] o] := by
  unfold step at h ⊢
  cases hph : s.phase with
  | done c => simp only [hph] at h; cases h
  | stuck => simp only [hph] at h; cases h
  | exiting c todo =>
    simp only [hph] at h
    cases todo <;> simp [DState.emit] at h
  | waiting prog inp' out =>
    simp only [hph, stepWait] at h
    split at h <;> cases prog <;> simp [DState.emit, DState.bump, DState.exitWith] at h
  | run =>
    simp only [hph, stepRun] at h ⊢
    cases ha : s.acts with
    | nil => simp only [ha, DState.exitWith] at h; cases h
    | cons a r =>
      simp only [ha] at h ⊢
      cases a with
      | mktemp =>
        simp only at h
        cases hf : env.fresh s.nTemp <;> simp [hf, DState.emit, DState.exitWith, hph] at h
      | run prog inp' out =>
        simp only at h ⊢
        cases hi : resolve s.tmpfiles inp' with
        | none => cases ho : resolveOut s.tmpfiles out <;> simp [hi, ho] at h
        | some i' =>
          cases ho : resolveOut s.tmpfiles out with
          | none => simp [hi, ho] at h
          | some o' =>
            simp only [hi, ho, DState.emit] at h ⊢
            injection h with h1 h2 h3
            subst h1; subst h2; subst h3
            exact ⟨i', rfl, rfl⟩
      | pushLd ref =>
        simp only at h
        cases hr : resolve s.tmpfiles ref <;> simp [hr, hph] at h
      | link o' =>
        simp only at h
        split at h
        · simp [hph] at h
        · simp [DState.emit] at h
      | fail why => simp [DState.emit, DState.exitWith] at h

/-- what a step appends to the log: nothing, or one event; the only `wait cc1` event is the one of the `waiting cc1` phase -/
theorem step_log (env : Env P) (s : DState P) (fs : FS P) :
    ((step env s fs).1.log = s.log ∧ ∀ inp o, s.phase ≠ .waiting .cc1 inp o) ∨
    (∃ e, (step env s fs).1.log = s.log ++ [e] ∧ (∀ st, e ≠ .wait .cc1 st) ∧ ∀ inp o, s.phase ≠ .waiting .cc1 inp o) ∨
    (∃ inp o, s.phase = .waiting .cc1 inp o ∧
      (step env s fs).1.log = s.log ++ [.wait .cc1 (env.sched .cc1 s.nCc1).status]) := by
  unfold step
  cases hph : s.phase with
  | done c => left; exact ⟨rfl, (by intro _ _ h; cases h)⟩
  | stuck => left; exact ⟨rfl, (by intro _ _ h; cases h)⟩
  | exiting c todo =>
    right; left
    cases todo with
    | nil => exact ⟨_, rfl, (by intro st h; cases h), (by intro _ _ h; cases h)⟩
    | cons t ts => exact ⟨_, rfl, (by intro st h; cases h), (by intro _ _ h; cases h)⟩
  | waiting prog inp out =>
    simp only [stepWait]
    cases prog with
    | cc1 => right; right; exact ⟨inp, out, rfl, by split <;> rfl⟩
    | as => right; left; exact ⟨.wait .as (env.sched .as (s.count .as)).status, by split <;> rfl, (by intro st h; cases h), (by intro _ _ h; cases h)⟩
    | ld => right; left; exact ⟨.wait .ld (env.sched .ld (s.count .ld)).status, by split <;> rfl, (by intro st h; cases h), (by intro _ _ h; cases h)⟩
  | run =>
    have hno : ∀ inp o, Phase.run ≠ (Phase.waiting .cc1 inp o : Phase P) := by intro _ _ h; cases h
    simp only [stepRun]
    cases ha : s.acts with
    | nil => left; exact ⟨rfl, hno⟩
    | cons a r =>
      cases a with
      | mktemp =>
        simp only
        cases hf : env.fresh s.nTemp with
        | none => right; left; exact ⟨_, rfl, (by intro st h; cases h), hno⟩
        | some t => right; left; exact ⟨_, rfl, (by intro st h; cases h), hno⟩
      | run prog inp out =>
        simp only
        cases hi : resolve s.tmpfiles inp with
        | none => cases resolveOut s.tmpfiles out <;> (left; exact ⟨rfl, hno⟩)
        | some i' =>
          cases ho : resolveOut s.tmpfiles out with
          | none => left; exact ⟨rfl, hno⟩
          | some o' => right; left; exact ⟨_, rfl, (by intro st h; cases h), hno⟩
      | pushLd ref =>
        simp only
        cases resolve s.tmpfiles ref <;> (left; exact ⟨rfl, hno⟩)
      | link o =>
        simp only
        split
        · left; exact ⟨rfl, hno⟩
        · right; left; exact ⟨_, rfl, (by intro st h; cases h), hno⟩
      | fail why => right; left; exact ⟨_, rfl, (by intro st h; cases h), hno⟩

theorem stepD_rel (denv : DepEnv P) (env : Env P) (W F : P → Prop) (fs₀ : FS P)
    (hdep : ∀ d, IsDep denv d → ¬ F d) (x y : DState P × FS P) (h : DRel denv env W F fs₀ x y) :
    DRel denv env W F fs₀ (stepD denv env x.1 x.2) (step env y.1 y.2) := by
  obtain ⟨hst, hag, hfr, hin, hpend, hdeps⟩ := h
  have hsub := hin.sub
  have hin' := step_inside env W F y.1 y.2 hin
  have hst' : (stepD denv env x.1 x.2).1 = (step env y.1 y.2).1 := by
    rw [stepD_fst, hst]; exact step_state_indep env y.1 x.2 y.2
  -- the base step of the overlay run, compared with the base run
  have hagree_base : ∀ p, F p → (step env x.1 x.2).2.get p = (step env y.1 y.2).2.get p := by
    intro p hp
    rw [hst]
    exact step_local env W F y.1 x.2 y.2 hin hag p hp
  have hframe_base : ∀ p, ¬ W p → (step env x.1 x.2).2.get p = x.2.get p := by
    intro p hp
    rw [hst]
    exact step_frame env W F y.1 x.2 hin p hp
  refine ⟨hst', ?_, ?_, hin', ?_, ?_⟩
  · intro p hp
    show (depEffect denv env x.1 x.2 (step env x.1 x.2).2).get p = _
    rw [depEffect_get_ne denv env x.1 x.2 _ p (fun hd => hdep p hd hp)]
    exact hagree_base p hp
  · intro p hw hd
    show (depEffect denv env x.1 x.2 (step env x.1 x.2).2).get p = _
    rw [depEffect_get_ne denv env x.1 x.2 _ p hd, hframe_base p hw]
    exact hfr p hw hd
  · -- the pending input
    intro inp o hph
    obtain ⟨i, hi, hl⟩ := step_waiting_cc1 env y.1 y.2 inp o hph
    refine ⟨i, hi, ?_⟩
    rw [hl, pendingOf_append]
    rfl
  · -- contents of the dependency paths
    intro d hd
    have hnF : ¬ F d := hdep d hd
    have hnW : ¬ W d := fun h => hnF (hsub d h)
    have hbase : (step env x.1 x.2).2.get d = x.2.get d := hframe_base d hnW
    have hbase' : (step env y.1 x.2).2.get d = x.2.get d := by rw [← hst]; exact hbase
    have hnodep : (∀ inp o, y.1.phase ≠ .waiting .cc1 inp o) → (stepD denv env x.1 x.2).2.get d = x.2.get d := by
      intro hne
      show (depEffect denv env x.1 x.2 (step env x.1 x.2).2).get d = _
      unfold depEffect
      rw [hst]
      split
      · rename_i i o hph
        exact absurd hph (hne [i] o)
      · exact hbase'
    rcases step_log env y.1 y.2 with ⟨hl, hne⟩ | ⟨e, hl, hother, hne⟩ | ⟨inp, o, hph, hl⟩
    · rw [hl, hnodep hne]
      exact hdeps d hd
    · rw [hl, depWrites_append_other denv _ e hother, hnodep hne]
      exact hdeps d hd
    · -- the end of a front-end run
      obtain ⟨i, hi, hp⟩ := hpend inp o hph
      subst hi
      rw [hl, depWrites_append_wait denv _ _ i hp]
      have hFi : F i := by
        have := hin.ph
        simp only [hph] at this
        exact this.1 i (by simp)
      have hxi : ¬ W i → x.2.origins i = fs₀.origins i := by
        intro hw
        exact FS.origins_congr (hfr i hw (fun hd' => hdep i hd' hFi))
      by_cases hw : (env.sched Prog.cc1 y.1.nCc1).status.wait = 0
      · simp only [hw, if_true]
        cases hdo : denv.depOf i with
        | none =>
          simp only [List.append_nil]
          have hde : (stepD denv env x.1 x.2).2.get d = x.2.get d := by
            show (depEffect denv env x.1 x.2 (step env x.1 x.2).2).get d = _
            unfold depEffect
            rw [hst, hph]
            simp only [hw, if_true, hdo]
            exact hbase'
          rw [hde]
          exact hdeps d hd
        | some d' =>
          simp only
          rw [lastWriter_append]
          have hde : (stepD denv env x.1 x.2).2 = (step env x.1 x.2).2.set d' ⟨.deps, x.2.origins i⟩ := by
            show depEffect denv env x.1 x.2 (step env x.1 x.2).2 = _
            unfold depEffect
            rw [hst, hph]
            simp only [hw, if_true, hdo]
          rw [hde]
          by_cases hdd : d' = d
          · subst hdd
            simp only [if_true]
            exact ⟨x.2.origins i, FS.get_set_self _ _ _, hxi⟩
          · simp only [hdd, if_false]
            rw [FS.get_set_ne _ _ (fun e => hdd e.symm), hbase]
            exact hdeps d hd
      · simp only [hw, if_false, List.append_nil]
        have hde : (stepD denv env x.1 x.2).2.get d = x.2.get d := by
          show (depEffect denv env x.1 x.2 (step env x.1 x.2).2).get d = _
          unfold depEffect
          rw [hst, hph]
          simp only [hw, if_false]
          exact hbase'
        rw [hde]
        exact hdeps d hd

/-- the invariant along whole runs -/
theorem iterD_rel (denv : DepEnv P) (env : Env P) (W F : P → Prop) (fs₀ : FS P)
    (hdep : ∀ d, IsDep denv d → ¬ F d) :
    ∀ (n : Nat) (x y : DState P × FS P), DRel denv env W F fs₀ x y →
      DRel denv env W F fs₀ (iterD denv env n x) (iter env n y) := by
  intro n
  induction n with
  | zero => intro x y h; exact h
  | succ n ih =>
    intro x y h
    simp only [iterD, iter]
    exact ih _ _ (stepD_rel denv env W F fs₀ hdep x y h)

theorem DRel_init (denv : DepEnv P) (env : Env P) (cmd : Cmd P) (fs : FS P) :
    DRel denv env (Writes env cmd) (Touches env cmd) fs (init cmd, fs) (init cmd, fs) where
  st := rfl
  agree := fun _ _ => rfl
  frame := fun _ _ _ => rfl
  inside := init_inside env cmd
  pend := by intro inp o h; simp [init] at h
  deps := by
    intro d _
    simp [depWrites, cc1Runs, init, lastWriter]

end ChibiVerif.DriverProc
