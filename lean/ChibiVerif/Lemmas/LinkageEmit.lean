/-
Helper lemmas for C15: `scan_globals` does not touch functions; `mark_live` keeps the state well formed;
the object-level reading of the liveness theorem.
-/
import ChibiVerif.Lemmas.LinkageParse
import ChibiVerif.Lemmas.LinkageScan

namespace ChibiVerif.Linkage

variable [Rules]

def notTent (o : Obj) : Bool := !o.isTentative

omit [Rules] in
/-- a type update of the first tentative definition of a name leaves the non-tentative objects alone -/
theorem filter_notTent_updFirst (s : Sym) (t : ObjTy) : ∀ l : List Obj,
    (updFirst (isTentOf s) (fun o => { o with ty := t }) l).filter notTent = l.filter notTent
  | [] => rfl
  | a :: as => by
    unfold updFirst
    by_cases hp : isTentOf s a = true
    · have ht : a.isTentative = true := isTentOf_tent hp
      rw [if_pos hp]
      simp [List.filter, notTent, ht]
    · rw [if_neg hp]
      simp only [List.filter]
      rw [filter_notTent_updFirst s t as]

omit [Rules] in
theorem filter_notTent_scanLoop (all : List Obj) : ∀ (n : Nat) (l : List Obj), l.length ≤ n →
    (scanLoop all n l).filter notTent = l.filter notTent := by
  intro n
  induction n with
  | zero =>
    intro l hn
    cases l with
    | nil => rfl
    | cons _ _ => simp at hn
  | succ n ih =>
    intro l hn
    cases l with
    | nil => rfl
    | cons a as =>
      have hn' : as.length ≤ n := by simp at hn; omega
      unfold scanLoop
      cases ht : a.isTentative
      · simp only [Bool.not_false, if_true]
        simp [List.filter, notTent, ht, ih as hn']
      · simp only [Bool.not_true, Bool.false_eq_true, if_false]
        have hdrop : (a :: as).filter notTent = as.filter notTent := by simp [List.filter, notTent, ht]
        rw [hdrop]
        split
        · exact ih as hn'
        · split
          · split
            · rw [ih _ (by rw [length_updFirst]; exact hn')]
              exact filter_notTent_updFirst _ _ as
            · exact ih as hn'
          · have hc : notTent (completeArray a) = false := by
              obtain ⟨t', ht'⟩ := completeArray_same a
              rw [ht']; simp [notTent, ht]
            simp only [List.filter, hc]
            exact ih as hn'

omit [Rules] in
theorem filter_notTent_scanCore (gs : List Obj) : (scanCore gs).filter notTent = gs.filter notTent :=
  filter_notTent_scanLoop gs gs.length gs (Nat.le_refl _)

omit [Rules] in
/-- `find?` only looks at the sublist where the predicate can hold -/
theorem find?_filter_of_imp {p q : Obj → Bool} : ∀ (l : List Obj), (∀ o, o ∈ l → p o = true → q o = true) →
    l.find? p = (l.filter q).find? p
  | [], _ => rfl
  | a :: as, h => by
    have ih := find?_filter_of_imp (p := p) (q := q) as (fun o ho => h o (List.mem_cons_of_mem _ ho))
    cases hp : p a
    · simp only [List.find?, hp, List.filter]
      split
      · simp only [List.find?, hp]; exact ih
      · exact ih
    · have hq : q a = true := h a List.mem_cons_self hp
      simp [List.find?, hp, List.filter, hq]

omit [Rules] in
theorem fnNotTent_of_tyRel {l l' : List Obj} (h : TyRel l l') (hf : FnNotTent l) : FnNotTent l' := by
  intro b hb hfun
  obtain ⟨a, ha, t, rfl⟩ := h.mem hb
  exact hf a ha hfun

omit [Rules] in
theorem fnNotTent_scanCore {gs : List Obj} (hf : FnNotTent gs) : FnNotTent (scanCore gs) := by
  intro b hb hfun
  -- a member of the result is, up to its type, a member of `scanPure gs gs`, which is a sublist of `gs`
  have hsub : ∀ (all l : List Obj) (x : Obj), x ∈ scanPure all l → x ∈ l := by
    intro all l
    induction l with
    | nil => intro x hx; simp [scanPure] at hx
    | cons a as ih =>
      intro x hx
      unfold scanPure at hx
      split at hx
      · rcases List.mem_cons.mp hx with rfl | hx
        · exact List.mem_cons_self
        · exact List.mem_cons_of_mem _ (ih x hx)
      · split at hx
        · exact List.mem_cons_of_mem _ (ih x hx)
        · split at hx
          · exact List.mem_cons_of_mem _ (ih x hx)
          · rcases List.mem_cons.mp hx with rfl | hx
            · exact List.mem_cons_self
            · exact List.mem_cons_of_mem _ (ih x hx)
  obtain ⟨a, ha, t, rfl⟩ := (scanCore_tyRel gs).mem hb
  exact hf a (hsub gs gs a ha) hfun

omit [Rules] in
theorem fnPred_notTent {gs : List Obj} (hf : FnNotTent gs) (f : Name) :
    ∀ o, o ∈ gs → fnPred f o = true → notTent o = true := by
  intro o ho hp
  unfold fnPred at hp
  simp only [Bool.and_eq_true] at hp
  simp [notTent, hf o ho hp.1]

omit [Rules] in
/-- `scan_globals` does not change what `find_func` returns -/
theorem findFunc_scanCore {gs : List Obj} (hf : FnNotTent gs) (f : Name) :
    findFunc (scanCore gs) f = findFunc gs f := by
  rw [findFunc_eq, findFunc_eq,
    find?_filter_of_imp (q := notTent) _ (fnPred_notTent (fnNotTent_scanCore hf) f),
    find?_filter_of_imp (q := notTent) gs (fnPred_notTent hf f), filter_notTent_scanCore]

omit [Rules] in
theorem filterMap_emitTextFn_filter : ∀ (l : List Obj), FnNotTent l →
    l.filterMap emitTextFn = (l.filter notTent).filterMap emitTextFn
  | [], _ => rfl
  | a :: as, h => by
    have ih := filterMap_emitTextFn_filter as (fun o ho => h o (List.mem_cons_of_mem _ ho))
    cases hfun : a.isFunction
    · have : emitTextFn a = none := by simp [emitTextFn, hfun]
      simp only [List.filterMap_cons, this, List.filter]
      split
      · simp only [List.filterMap_cons, this]; exact ih
      · exact ih
    · have hnt : notTent a = true := by simp [notTent, h a List.mem_cons_self hfun]
      simp only [List.filter, hnt, List.filterMap_cons]
      rw [ih]

omit [Rules] in
/-- ... nor which functions are printed -/
theorem emitText_scanCore {gs : List Obj} (hf : FnNotTent gs) : emitText (scanCore gs) = emitText gs := by
  unfold emitText
  rw [filterMap_emitTextFn_filter _ (fnNotTent_scanCore hf), filterMap_emitTextFn_filter _ hf,
    filter_notTent_scanCore]

omit [Rules] in
/-- a function object is in the list after `scan_globals` iff it was before -/
theorem mem_scanCore_fn {gs : List Obj} (hf : FnNotTent gs) {o : Obj} (hfun : o.isFunction = true) :
    o ∈ scanCore gs ↔ o ∈ gs := by
  constructor
  · intro ho
    have hnt : notTent o = true := by simp [notTent, fnNotTent_scanCore hf o ho hfun]
    have : o ∈ (scanCore gs).filter notTent := List.mem_filter.mpr ⟨ho, hnt⟩
    rw [filter_notTent_scanCore] at this
    exact (List.mem_filter.mp this).1
  · intro ho
    have hnt : notTent o = true := by simp [notTent, hf o ho hfun]
    have : o ∈ gs.filter notTent := List.mem_filter.mpr ⟨ho, hnt⟩
    rw [← filter_notTent_scanCore] at this
    exact (List.mem_filter.mp this).1

/-! ### what `mark_live` keeps -/

omit [Rules] in
theorem LiveUpd.fnNamesOf {gs gs' : List Obj} (h : LiveUpd gs gs') : fnNamesOf gs' = fnNamesOf gs := by
  induction h with
  | nil => rfl
  | cons hr _ ih =>
    rcases hr with rfl | rfl
    · simp only [ChibiVerif.Linkage.fnNamesOf, List.filterMap_cons] at ih ⊢; rw [ih]
    · simp only [ChibiVerif.Linkage.fnNamesOf, List.filterMap_cons] at ih ⊢
      rw [ih]; rfl

omit [Rules] in
theorem LiveUpd.fnNotTent {gs gs' : List Obj} (h : LiveUpd gs gs') (hf : FnNotTent gs) : FnNotTent gs' := by
  intro o' ho' hfun
  obtain ⟨o, ho, hh⟩ := h.mem ho'
  rcases hh with rfl | rfl
  · exact hf _ ho hfun
  · exact hf o ho hfun

omit [Rules] in
/-- the per-object flag of a function is what `find_func(name)->is_live` says -/
theorem isLive_eq_liveFn {gs : List Obj} (hn : (fnNamesOf gs).Nodup) {o : Obj} {f : Name} (ho : o ∈ gs)
    (hfun : o.isFunction = true) (hs : o.sym = .named f) : o.isLive = liveFn gs f := by
  unfold liveFn
  rw [findFunc_of_mem hn ho hfun hs]

omit [Rules] in
theorem refs_eq_refsOf {gs : List Obj} (hn : (fnNamesOf gs).Nodup) {o : Obj} {f : Name} (ho : o ∈ gs)
    (hfun : o.isFunction = true) (hs : o.sym = .named f) : o.refs = refsOf gs f := by
  unfold refsOf
  rw [findFunc_of_mem hn ho hfun hs]

theorem mem_rootNames {gs : List Obj} {o : Obj} {f : Name} (ho : o ∈ gs) (hfun : o.isFunction = true)
    (hs : o.sym = .named f) (hr : effRoot o = true) : f ∈ rootNames gs := by
  unfold rootNames
  rw [List.mem_filterMap]
  exact ⟨o, ho, by simp [hs, hfun, hr]⟩

theorem of_mem_rootNames {gs : List Obj} {f : Name} (h : f ∈ rootNames gs) :
    ∃ o, o ∈ gs ∧ o.isFunction = true ∧ o.sym = .named f ∧ effRoot o = true := by
  unfold rootNames at h
  rw [List.mem_filterMap] at h
  obtain ⟨o, ho, hh⟩ := h
  refine ⟨o, ho, ?_⟩
  cases hs : o.sym with
  | anon k => simp [hs] at hh
  | named n =>
    simp only [hs] at hh
    split at hh
    · rename_i hc
      simp only [Bool.and_eq_true] at hc
      simp only [Option.some.injEq] at hh
      subst hh
      exact ⟨hc.1, rfl, hc.2⟩
    · cases hh

/-- `parseUnit` succeeded: the three phases -/
theorem parseUnit_ok {ds : List Decl} {gs : List Obj} (h : parseUnit ds = .ok gs) :
    ∃ st gs', declAll {} ds = .ok st ∧ markRoots st.globals = some gs' ∧ gs = scanGlobals gs' := by
  unfold parseUnit at h
  simp only [bind, Except.bind] at h
  split at h
  · cases h
  · rename_i st hst
    split at h
    · cases h
    · rename_i gs' hm
      simp only [pure, Except.pure, Except.ok.injEq] at h
      exact ⟨st, gs', hst, hm, h.symm⟩


end ChibiVerif.Linkage
