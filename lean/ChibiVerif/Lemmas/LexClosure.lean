/-
Closure lemmas for C19: scanning the spelling of a produced token again gives that token (so every token of
`tokenize` is self-lexing), and the fuel of `lex` is never exhausted.
-/
import ChibiVerif.Lemmas.LexSeq
namespace ChibiVerif.Lex
open ChibiVerif.LexChar ChibiVerif.Gen.Lex

/-! ### every token the scanner produces has a self-lexing spelling -/

theorem pre_mono (q x a : List Nat) (c : Nat) (hp : x <+: a) (h : q.isPrefixOf (c :: x) = true) :
    q.isPrefixOf (c :: a) = true := by
  rw [List.isPrefixOf_iff_prefix] at h ⊢
  exact h.trans ((List.prefix_cons_inj c).mpr hp)

theorem headIs_mono (p : Nat → Bool) (x a : List Nat) (hp : x <+: a) (h : headIs p x = true) : headIs p a = true := by
  obtain ⟨r, rfl⟩ := hp
  cases x with
  | nil => simp [headIs] at h
  | cons d x' => exact h

theorem ppTake_idem (s : List Nat) : ppTake (ppTake s).1 = ((ppTake s).1, []) := by
  induction s using ppTake.induct with
  | case1 => rfl
  | case2 c d t' hc ih =>
    rw [ppTake_cons_exp c d t' hc]
    have hc' : (ppExpChars.contains c && headIs (fun d => ppSignChars.contains d) (d :: (ppTake t').1)) = true := hc
    simp only
    rw [ppTake_cons_exp c d _ hc', ih]
  | case3 c hc => simp [headIs] at hc
  | case4 c t hc hal ih =>
    rw [ppTake_cons_alnum c t hc hal]
    simp only
    have hpre : (ppTake t).1 <+: t := ⟨(ppTake t).2, ppTake_partition t⟩
    have hc' : ¬ (ppExpChars.contains c && headIs (fun d => ppSignChars.contains d) (ppTake t).1) = true := by
      intro hh
      apply hc
      simp only [Bool.and_eq_true] at hh ⊢
      exact ⟨hh.1, headIs_mono _ _ _ hpre hh.2⟩
    rw [ppTake_cons_alnum c _ hc' hal, ih]
  | case5 c t hc hal => rw [ppTake_cons_stop c t hc hal]; rfl

theorem ppTake_headDigit (a : List Nat) (h : headIs isDigit a = true) : headIs isDigit (ppTake a).1 = true := by
  cases a with
  | nil => simp [headIs] at h
  | cons d t =>
    simp only [headIs] at h
    have hexp : ppExpChars.contains d = false := by
      simp [isDigit] at h
      simp [ppExpChars]
      omega
    have hal : (isAlnum d || d == 46) = true := by simp [isAlnum, h]
    rw [ppTake_cons_alnum d t (by rw [hexp]; simp) hal]
    exact h

theorem strEnd_idem (a : List Nat) : ∀ r, strEnd a = .ok r → strEnd r.1 = .ok (r.1, []) := by
  induction a using strEnd.induct with
  | case1 => intro r h; simp [strEnd] at h
  | case2 c t hc => intro r h; rw [strEnd_cons_quote c t hc] at h; cases h; exact strEnd_cons_quote c [] hc
  | case3 c t h1 h2 =>
    intro r h
    cases t with
    | nil => rw [strEnd.eq_2, if_neg h1, if_pos h2] at h; cases h
    | cons d t' => rw [strEnd.eq_3, if_neg h1, if_pos h2] at h; cases h
  | case4 c h1 h2 h3 => intro r h; rw [strEnd.eq_2, if_neg h1, if_neg h2, if_pos h3] at h; cases h
  | case5 c h1 h2 h3 d t r0 hr ih =>
    intro r h
    rw [strEnd_cons_bs c d t h1 h2 h3, hr] at h
    cases h
    simp only
    rw [strEnd_cons_bs c d _ h1 h2 h3, ih r0 hr]
  | case6 c h1 h2 h3 d t e he ih => intro r h; rw [strEnd_cons_bs c d t h1 h2 h3, he] at h; cases h
  | case7 c t h1 h2 h3 r0 hr ih =>
    intro r h
    rw [strEnd_cons_other c t h1 h2 h3, hr] at h
    cases h
    simp only
    rw [strEnd_cons_other c _ h1 h2 h3, ih r0 hr]
  | case8 c t h1 h2 h3 e he ih => intro r h; rw [strEnd_cons_other c t h1 h2 h3, he] at h; cases h

theorem findQuote_idem (a : List Nat) : ∀ r, findQuote a = some r → findQuote r.1 = some (r.1, []) := by
  induction a with
  | nil => intro r h; simp [findQuote] at h
  | cons c t ih =>
    intro r h
    rw [findQuote.eq_2] at h
    split at h
    · rename_i hc; cases h; simp only; rw [findQuote.eq_2, if_pos hc]
    · rename_i hc
      cases hq : findQuote t with
      | none => rw [hq] at h; cases h
      | some r0 =>
        rw [hq] at h; cases h
        simp only
        rw [findQuote.eq_2, if_neg hc, ih r0 hq]

theorem findQuote_ne_nil (a : List Nat) (r : List Nat × List Nat) (h : findQuote a = some r) : r.1 ≠ [] := by
  cases a with
  | nil => simp [findQuote] at h
  | cons c t =>
    rw [findQuote.eq_2] at h
    split at h
    · cases h; simp
    · cases hq : findQuote t with
      | none => rw [hq] at h; cases h
      | some r0 => rw [hq] at h; cases h; simp

theorem charEnd_idem (a : List Nat) (r : List Nat × List Nat) (h : charEnd a = .ok r) :
    charEnd r.1 = .ok (r.1, []) := by
  match a, h with
  | [], h => simp [charEnd] at h
  | [c], h =>
    rw [charEnd.eq_2] at h
    split at h
    · cases h
    · simp [findQuote] at h
  | c :: d :: t', h =>
    rw [charEnd.eq_3] at h
    split at h
    · rename_i hc
      split at h
      · cases h
      · rename_i hx
        cases hq : findQuote t' with
        | none => rw [hq] at h; cases h
        | some r0 =>
          rw [hq] at h; cases h
          simp only
          have hne := findQuote_ne_nil t' r0 hq
          have hpart := findQuote_partition t' r0 hq
          have hx' : ¬ (d == 120 && !headIs isXDigit r0.1) = true := by
            rw [← hpart, headIs_append _ _ _ hne] at hx; exact hx
          rw [charEnd.eq_3, if_pos hc, if_neg hx', findQuote_idem t' r0 hq]
    · rename_i hc
      cases hq : findQuote (d :: t') with
      | none => rw [hq] at h; cases h
      | some r0 =>
        rw [hq] at h; cases h
        simp only
        have hi := findQuote_idem (d :: t') r0 hq
        have hne := findQuote_ne_nil (d :: t') r0 hq
        -- r0.1 is non-empty: c :: r0.1 has at least two elements
        obtain ⟨e, q, hq1⟩ : ∃ e q, r0.1 = e :: q := by
          cases hr : r0.1 with
          | nil => exact absurd hr hne
          | cons e q => exact ⟨e, q, rfl⟩
        rw [hq1] at hi ⊢
        rw [charEnd.eq_3, if_neg hc, hi]

theorem identTake_idem (s : List Nat) : identTake (identTake s).1 = ((identTake s).1, []) := by
  induction s with
  | nil => rfl
  | cons c t ih =>
    rw [identTake.eq_2]
    split
    · rename_i hc
      simp only
      rw [identTake.eq_2, if_pos hc, ih]
    · rfl

theorem find?_mono' {α : Type} (l : List α) (p q : α → Bool) (k : α)
    (h : l.find? p = some k) (hqp : ∀ y ∈ l, q y = true → p y = true) (hk : q k = true) :
    l.find? q = some k := by
  induction l with
  | nil => simp at h
  | cons y l ih =>
    rw [List.find?_cons] at h ⊢
    cases hpy : p y with
    | true =>
      rw [hpy] at h
      cases h
      rw [hk]
    | false =>
      rw [hpy] at h
      have hqy : q y = false := by
        cases hq : q y with
        | false => rfl
        | true => rw [hqp y (List.mem_cons_self ..) hq] at hpy; cases hpy
      rw [hqy]
      exact ih h (fun z hz => hqp z (List.mem_cons_of_mem _ hz))

theorem readPunct_idem (c : Nat) (a : List Nat) (hn : readPunct (c :: a) ≠ 0) :
    readPunct ((c :: a).take (readPunct (c :: a))) = readPunct (c :: a) := by
  unfold readPunct
  cases hf : punctKw.find? (fun k => k.isPrefixOf (c :: a)) with
  | some k =>
    simp only
    have hk := List.find?_some hf
    have hkp : k <+: c :: a := List.isPrefixOf_iff_prefix.mp hk
    have htake : (c :: a).take k.length = k := by
      obtain ⟨r, hr⟩ := hkp
      rw [← hr, List.take_left']
      rfl
    rw [htake]
    have : punctKw.find? (fun k' => k'.isPrefixOf k) = some k := by
      apply find?_mono' punctKw _ _ k hf
      · intro y _ hy
        rw [List.isPrefixOf_iff_prefix] at hy ⊢
        exact hy.trans hkp
      · rw [List.isPrefixOf_iff_prefix]; exact List.prefix_refl k
    rw [this]
  | none =>
    have hn' := hn
    unfold readPunct at hn'
    rw [hf] at hn'
    simp only at hn' ⊢
    have hp : isPunct c = true := by
      cases hpc : isPunct c with
      | true => rfl
      | false => rw [hpc] at hn'; simp at hn'
    rw [hp]
    simp only [if_true, List.take_succ_cons, List.take_zero]
    have : punctKw.find? (fun k' => k'.isPrefixOf [c]) = none := by
      rw [List.find?_eq_none] at hf ⊢
      intro y hy hyc
      apply hf y hy
      rw [List.isPrefixOf_iff_prefix] at hyc ⊢
      exact hyc.trans ⟨a, rfl⟩
    rw [this]
    simp [hp]

theorem strTok_restrict (pre a : List Nat) (bol sp : Bool) (t : Tok) (r : List Nat)
    (h : strTok pre a bol sp = .tok t r) :
    ∃ b, t.text = pre ++ b ∧ strTok pre b bol sp = .tok t [] := by
  unfold strTok at h
  cases hs : strEnd a with
  | error e => rw [hs] at h; cases h
  | ok r0 =>
    rw [hs] at h
    simp only at h
    split at h
    · rename_i he
      injection h with h1 h2
      subst h1
      refine ⟨r0.1, rfl, ?_⟩
      unfold strTok
      rw [strEnd_idem a r0 hs]
      simp only [if_pos he]
    · cases h

theorem chrTok_restrict (pre a : List Nat) (bol sp : Bool) (t : Tok) (r : List Nat)
    (h : chrTok pre a bol sp = .tok t r) :
    ∃ b, t.text = pre ++ b ∧ chrTok pre b bol sp = .tok t [] := by
  unfold chrTok at h
  cases hs : charEnd a with
  | error e => rw [hs] at h; cases h
  | ok r0 =>
    rw [hs] at h
    simp only at h
    injection h with h1 h2
    subst h1
    refine ⟨r0.1, rfl, ?_⟩
    unfold chrTok
    rw [charEnd_idem a r0 hs]

/-- scanning the spelling of a token again, alone, gives that token and consumes everything -/
theorem lexStep_restrict (s : List Nat) (bol sp : Bool) (t : Tok) (r : List Nat)
    (h : lexStep s bol sp = .tok t r) : lexStep t.text bol sp = .tok t [] := by
  cases s with
  | nil => simp [lexStep] at h
  | cons c a =>
  have inv := lexStep_tok_inv _ _ _ _ _ h
  rw [lexStep.eq_2] at h
  by_cases hlc : [47, 47].isPrefixOf (c :: a) = true
  · rw [if_pos hlc] at h
    cases h
  rw [if_neg hlc] at h
  by_cases hbc : [47, 42].isPrefixOf (c :: a) = true
  · rw [if_pos hbc] at h
    generalize findCommentEnd (List.drop 1 a) = o at h
    cases o <;> cases h
  rw [if_neg hbc] at h
  by_cases hnl : (c == 10) = true
  · rw [if_pos hnl] at h; cases h
  rw [if_neg hnl] at h
  by_cases hsp : isSpace c = true
  · rw [if_pos hsp] at h; cases h
  rw [if_neg hsp] at h
  by_cases hnum : (isDigit c || c == 46 && headIs isDigit a) = true
  · rw [if_pos hnum] at h
    simp only at h
    injection h with h1 h2
    subst h1
    simp only
    have hpre : (ppTake a).1 <+: a := ⟨(ppTake a).2, ppTake_partition a⟩
    have hnum' : (isDigit c || c == 46 && headIs isDigit (ppTake a).1) = true := by
      simp only [Bool.or_eq_true, Bool.and_eq_true] at hnum ⊢
      rcases hnum with hd | ⟨h46, hd⟩
      · exact Or.inl hd
      · exact Or.inr ⟨h46, ppTake_headDigit a hd⟩
    rw [lexStep.eq_2,
      if_neg (fun hh => hlc (pre_mono _ _ _ c hpre hh)),
      if_neg (fun hh => hbc (pre_mono _ _ _ c hpre hh)),
      if_neg hnl, if_neg hsp, if_pos hnum', ppTake_idem]
  rw [if_neg hnum] at h
  by_cases hq : (c == 34) = true
  · rw [if_pos hq] at h
    have := eq_of_beq hq; subst this
    obtain ⟨b, hb, hs⟩ := strTok_restrict _ _ _ _ _ _ h
    rw [hb]; exact hs
  rw [if_neg hq] at h
  by_cases hp1 : [117, 56, 34].isPrefixOf (c :: a) = true
  · rw [if_pos hp1] at h
    obtain ⟨rfl, a', rfl⟩ := pre3_true _ _ _ _ _ hp1
    obtain ⟨b, hb, hs⟩ := strTok_restrict _ _ _ _ _ _ h
    rw [hb]; exact hs
  rw [if_neg hp1] at h
  by_cases hp2 : [117, 34].isPrefixOf (c :: a) = true
  · rw [if_pos hp2] at h
    obtain ⟨rfl, a', rfl⟩ := pre2_true _ _ _ _ hp2
    obtain ⟨b, hb, hs⟩ := strTok_restrict _ _ _ _ _ _ h
    rw [hb]; exact hs
  rw [if_neg hp2] at h
  by_cases hp3 : [76, 34].isPrefixOf (c :: a) = true
  · rw [if_pos hp3] at h
    obtain ⟨rfl, a', rfl⟩ := pre2_true _ _ _ _ hp3
    obtain ⟨b, hb, hs⟩ := strTok_restrict _ _ _ _ _ _ h
    rw [hb]; exact hs
  rw [if_neg hp3] at h
  by_cases hp4 : [85, 34].isPrefixOf (c :: a) = true
  · rw [if_pos hp4] at h
    obtain ⟨rfl, a', rfl⟩ := pre2_true _ _ _ _ hp4
    obtain ⟨b, hb, hs⟩ := strTok_restrict _ _ _ _ _ _ h
    rw [hb]; exact hs
  rw [if_neg hp4] at h
  by_cases hap : (c == 39) = true
  · rw [if_pos hap] at h
    have := eq_of_beq hap; subst this
    obtain ⟨b, hb, hs⟩ := chrTok_restrict _ _ _ _ _ _ h
    rw [hb]; exact hs
  rw [if_neg hap] at h
  by_cases hp5 : [117, 39].isPrefixOf (c :: a) = true
  · rw [if_pos hp5] at h
    obtain ⟨rfl, a', rfl⟩ := pre2_true _ _ _ _ hp5
    obtain ⟨b, hb, hs⟩ := chrTok_restrict _ _ _ _ _ _ h
    rw [hb]; exact hs
  rw [if_neg hp5] at h
  by_cases hp6 : [76, 39].isPrefixOf (c :: a) = true
  · rw [if_pos hp6] at h
    obtain ⟨rfl, a', rfl⟩ := pre2_true _ _ _ _ hp6
    obtain ⟨b, hb, hs⟩ := chrTok_restrict _ _ _ _ _ _ h
    rw [hb]; exact hs
  rw [if_neg hp6] at h
  by_cases hp7 : [85, 39].isPrefixOf (c :: a) = true
  · rw [if_pos hp7] at h
    obtain ⟨rfl, a', rfl⟩ := pre2_true _ _ _ _ hp7
    obtain ⟨b, hb, hs⟩ := chrTok_restrict _ _ _ _ _ _ h
    rw [hb]; exact hs
  rw [if_neg hp7] at h
  -- identifier and punctuator: the spelling is `c :: x` with `x` a prefix of `a`; every condition of the chain that
  -- was false for `c :: a` is false for `c :: x`
  have chain : ∀ x, x <+: a →
      ∀ R : Step, (if isIdent1 c = true then
          (Step.tok ⟨.ident, c :: (identTake x).1, bol, sp⟩ (identTake x).2)
        else
          (if (readPunct (c :: x) == 0) = true then Step.err Err.invalidToken
           else Step.tok ⟨.punct, (c :: x).take (readPunct (c :: x)), bol, sp⟩ ((c :: x).drop (readPunct (c :: x))))) = R →
        lexStep (c :: x) bol sp = R := by
    intro x hx R hR
    have hnum' : ¬ (isDigit c || c == 46 && headIs isDigit x) = true := by
      intro hh; apply hnum
      simp only [Bool.or_eq_true, Bool.and_eq_true] at hh ⊢
      rcases hh with hd | ⟨h46, hd⟩
      · exact Or.inl hd
      · exact Or.inr ⟨h46, headIs_mono _ _ _ hx hd⟩
    rw [lexStep.eq_2,
      if_neg (fun hh => hlc (pre_mono _ _ _ c hx hh)),
      if_neg (fun hh => hbc (pre_mono _ _ _ c hx hh)),
      if_neg hnl, if_neg hsp, if_neg hnum', if_neg hq,
      if_neg (fun hh => hp1 (pre_mono _ _ _ c hx hh)),
      if_neg (fun hh => hp2 (pre_mono _ _ _ c hx hh)),
      if_neg (fun hh => hp3 (pre_mono _ _ _ c hx hh)),
      if_neg (fun hh => hp4 (pre_mono _ _ _ c hx hh)),
      if_neg hap,
      if_neg (fun hh => hp5 (pre_mono _ _ _ c hx hh)),
      if_neg (fun hh => hp6 (pre_mono _ _ _ c hx hh)),
      if_neg (fun hh => hp7 (pre_mono _ _ _ c hx hh))]
    exact hR
  by_cases hid : isIdent1 c = true
  · rw [if_pos hid] at h
    simp only at h
    injection h with h1 h2
    subst h1
    simp only
    apply chain (identTake a).1 ⟨(identTake a).2, identTake_partition a⟩
    rw [if_pos hid, identTake_idem]
  rw [if_neg hid] at h
  simp only at h
  by_cases hn0 : (readPunct (c :: a) == 0) = true
  · rw [if_pos hn0] at h; cases h
  rw [if_neg hn0] at h
  injection h with h1 h2
  subst h1
  simp only
  have hne : readPunct (c :: a) ≠ 0 := by simpa using hn0
  obtain ⟨n, hn⟩ : ∃ n, readPunct (c :: a) = n + 1 := ⟨readPunct (c :: a) - 1, by omega⟩
  have hidem := readPunct_idem c a hne
  rw [hn] at hidem ⊢
  rw [List.take_succ_cons] at hidem ⊢
  apply chain (a.take n) (List.take_prefix n a)
  rw [if_neg hid, hidem, if_neg (by simp)]
  have hlen : (c :: List.take n a).length = n + 1 := by
    have := readPunct_le_length (c :: a)
    rw [hn] at this
    simp only [List.length_cons] at this
    simp only [List.length_cons, List.length_take]
    omega
  rw [List.take_of_length_le (by omega), List.drop_of_length_le (by omega)]

/-- every token `tokenize` produces has a self-lexing spelling -/
theorem selfLexing_of_lexStep (s : List Nat) (bol sp : Bool) (t : Tok) (r : List Nat)
    (h : lexStep s bol sp = .tok t r) : selfLexing t.text = true := by
  have h1 := lexStep_restrict s bol sp t r h
  have inv := lexStep_tok_inv _ _ _ _ _ h
  obtain ⟨k, x, b, p⟩ := t
  cases x with
  | nil => exact absurd rfl inv.ne
  | cons c a =>
    have hb := inv.bol
    have hp := inv.sp
    simp only at hb hp h1
    subst hb; subst hp
    exact selfLexing_of_step c a k _ _ h1

theorem lexLoop_tokens_selfLexing (n : Nat) : ∀ (s : List Nat) (bol sp : Bool) (ts : List Tok),
    lexLoop n s bol sp = .ok ts → ∀ t ∈ ts, selfLexing t.text = true := by
  induction n with
  | zero => intro s bol sp ts h; simp [lexLoop] at h
  | succ n ih =>
    intro s bol sp ts h
    rw [lexLoop] at h
    cases hs : lexStep s bol sp with
    | done => rw [hs] at h; cases h; intro t ht; cases ht
    | skip r b p => rw [hs] at h; exact ih r b p ts h
    | err e => rw [hs] at h; cases h
    | tok t0 r =>
      rw [hs] at h
      simp only at h
      cases hl : lexLoop n r false false with
      | error e => rw [hl] at h; cases h
      | ok ts' =>
        rw [hl] at h
        cases h
        intro t ht
        rcases List.mem_cons.mp ht with rfl | ht
        · exact selfLexing_of_lexStep s bol sp _ r hs
        · exact ih r false false ts' hl t ht

/-! ### the fuel of `lex` is never exhausted -/

theorem skipLine_length (a : List Nat) : (skipLine a).length ≤ a.length := by
  induction a with
  | nil => simp [skipLine]
  | cons c t ih =>
    rw [skipLine]
    split
    · exact Nat.le_refl _
    · simp only [List.length_cons]; omega

theorem findCommentEnd_length (a r : List Nat) (h : findCommentEnd a = some r) : r.length ≤ a.length := by
  induction a with
  | nil => simp [findCommentEnd] at h
  | cons c t ih =>
    rw [findCommentEnd] at h
    split at h
    · cases h; simp only [List.length_tail, List.length_cons]; omega
    · have := ih h; simp only [List.length_cons]; omega

theorem lexStep_skip_length (s : List Nat) (bol sp : Bool) (r : List Nat) (b p : Bool)
    (h : lexStep s bol sp = .skip r b p) : r.length < s.length := by
  cases s with
  | nil => simp [lexStep] at h
  | cons c a =>
  rw [lexStep.eq_2] at h
  by_cases hlc : [47, 47].isPrefixOf (c :: a) = true
  · rw [if_pos hlc] at h
    injection h with h1
    subst h1
    have := skipLine_length (List.drop 1 a)
    simp only [List.length_drop, List.length_cons] at this ⊢
    omega
  rw [if_neg hlc] at h
  by_cases hbc : [47, 42].isPrefixOf (c :: a) = true
  · rw [if_pos hbc] at h
    cases ho : findCommentEnd (List.drop 1 a) with
    | none => rw [ho] at h; cases h
    | some r0 =>
      rw [ho] at h
      injection h with h1
      subst h1
      have := findCommentEnd_length _ _ ho
      simp only [List.length_drop, List.length_cons] at this ⊢
      omega
  rw [if_neg hbc] at h
  by_cases hnl : (c == 10) = true
  · rw [if_pos hnl] at h; injection h with h1; subst h1; simp
  rw [if_neg hnl] at h
  by_cases hsp : isSpace c = true
  · rw [if_pos hsp] at h; injection h with h1; subst h1; simp
  rw [if_neg hsp] at h
  -- every remaining branch produces a token or an error
  exfalso
  by_cases hnum : (isDigit c || c == 46 && headIs isDigit a) = true
  · rw [if_pos hnum] at h; cases h
  rw [if_neg hnum] at h
  have hstr : ∀ pre x, strTok pre x bol sp ≠ .skip r b p := by
    intro pre x hh
    unfold strTok at hh
    cases hs : strEnd x with
    | error e => rw [hs] at hh; cases hh
    | ok r0 => rw [hs] at hh; simp only at hh; split at hh <;> cases hh
  have hchr : ∀ pre x, chrTok pre x bol sp ≠ .skip r b p := by
    intro pre x hh
    unfold chrTok at hh
    cases hs : charEnd x with
    | error e => rw [hs] at hh; cases hh
    | ok r0 => rw [hs] at hh; cases hh
  by_cases hq : (c == 34) = true
  · rw [if_pos hq] at h; exact hstr _ _ h
  rw [if_neg hq] at h
  by_cases hp1 : [117, 56, 34].isPrefixOf (c :: a) = true
  · rw [if_pos hp1] at h; exact hstr _ _ h
  rw [if_neg hp1] at h
  by_cases hp2 : [117, 34].isPrefixOf (c :: a) = true
  · rw [if_pos hp2] at h; exact hstr _ _ h
  rw [if_neg hp2] at h
  by_cases hp3 : [76, 34].isPrefixOf (c :: a) = true
  · rw [if_pos hp3] at h; exact hstr _ _ h
  rw [if_neg hp3] at h
  by_cases hp4 : [85, 34].isPrefixOf (c :: a) = true
  · rw [if_pos hp4] at h; exact hstr _ _ h
  rw [if_neg hp4] at h
  by_cases hap : (c == 39) = true
  · rw [if_pos hap] at h; exact hchr _ _ h
  rw [if_neg hap] at h
  by_cases hp5 : [117, 39].isPrefixOf (c :: a) = true
  · rw [if_pos hp5] at h; exact hchr _ _ h
  rw [if_neg hp5] at h
  by_cases hp6 : [76, 39].isPrefixOf (c :: a) = true
  · rw [if_pos hp6] at h; exact hchr _ _ h
  rw [if_neg hp6] at h
  by_cases hp7 : [85, 39].isPrefixOf (c :: a) = true
  · rw [if_pos hp7] at h; exact hchr _ _ h
  rw [if_neg hp7] at h
  by_cases hid : isIdent1 c = true
  · rw [if_pos hid] at h; cases h
  rw [if_neg hid] at h
  simp only at h
  split at h <;> cases h

theorem strEnd_ne_fuel (a : List Nat) : strEnd a ≠ .error .fuel := by
  induction a using strEnd.induct with
  | case1 => simp [strEnd]
  | case2 c t hc => rw [strEnd_cons_quote c t hc]; simp
  | case3 c t h1 h2 =>
    cases t with
    | nil => rw [strEnd.eq_2, if_neg h1, if_pos h2]; simp
    | cons d t' => rw [strEnd.eq_3, if_neg h1, if_pos h2]; simp
  | case4 c h1 h2 h3 => rw [strEnd.eq_2, if_neg h1, if_neg h2, if_pos h3]; simp
  | case5 c h1 h2 h3 d t r0 hr ih => rw [strEnd_cons_bs c d t h1 h2 h3, hr]; simp
  | case6 c h1 h2 h3 d t e he ih =>
    rw [strEnd_cons_bs c d t h1 h2 h3, he]
    rw [he] at ih
    simpa using ih
  | case7 c t h1 h2 h3 r0 hr ih => rw [strEnd_cons_other c t h1 h2 h3, hr]; simp
  | case8 c t h1 h2 h3 e he ih =>
    rw [strEnd_cons_other c t h1 h2 h3, he]
    rw [he] at ih
    simpa using ih

theorem charEnd_ne_fuel (a : List Nat) : charEnd a ≠ .error .fuel := by
  match a with
  | [] => simp [charEnd]
  | [c] => rw [charEnd.eq_2]; split <;> simp [findQuote]
  | c :: d :: t' =>
    rw [charEnd.eq_3]
    split
    · split
      · simp
      · cases findQuote t' <;> simp
    · cases findQuote (d :: t') <;> simp

theorem lexStep_ne_fuel (s : List Nat) (bol sp : Bool) : lexStep s bol sp ≠ .err .fuel := by
  cases s with
  | nil => simp [lexStep]
  | cons c a =>
  intro h
  rw [lexStep.eq_2] at h
  by_cases hlc : [47, 47].isPrefixOf (c :: a) = true
  · rw [if_pos hlc] at h
    cases h
  rw [if_neg hlc] at h
  by_cases hbc : [47, 42].isPrefixOf (c :: a) = true
  · rw [if_pos hbc] at h
    generalize findCommentEnd (List.drop 1 a) = o at h
    cases o <;> cases h
  rw [if_neg hbc] at h
  by_cases hnl : (c == 10) = true
  · rw [if_pos hnl] at h; cases h
  rw [if_neg hnl] at h
  by_cases hsp : isSpace c = true
  · rw [if_pos hsp] at h; cases h
  rw [if_neg hsp] at h
  by_cases hnum : (isDigit c || c == 46 && headIs isDigit a) = true
  · rw [if_pos hnum] at h; cases h
  rw [if_neg hnum] at h
  have hstr : ∀ pre x, strTok pre x bol sp ≠ .err .fuel := by
    intro pre x hh
    unfold strTok at hh
    cases hs : strEnd x with
    | error e =>
      rw [hs] at hh
      injection hh with hh
      subst hh
      exact strEnd_ne_fuel x hs
    | ok r0 => rw [hs] at hh; simp only at hh; split at hh <;> cases hh
  have hchr : ∀ pre x, chrTok pre x bol sp ≠ .err .fuel := by
    intro pre x hh
    unfold chrTok at hh
    cases hs : charEnd x with
    | error e =>
      rw [hs] at hh
      injection hh with hh
      subst hh
      exact charEnd_ne_fuel x hs
    | ok r0 => rw [hs] at hh; cases hh
  by_cases hq : (c == 34) = true
  · rw [if_pos hq] at h; exact hstr _ _ h
  rw [if_neg hq] at h
  by_cases hp1 : [117, 56, 34].isPrefixOf (c :: a) = true
  · rw [if_pos hp1] at h; exact hstr _ _ h
  rw [if_neg hp1] at h
  by_cases hp2 : [117, 34].isPrefixOf (c :: a) = true
  · rw [if_pos hp2] at h; exact hstr _ _ h
  rw [if_neg hp2] at h
  by_cases hp3 : [76, 34].isPrefixOf (c :: a) = true
  · rw [if_pos hp3] at h; exact hstr _ _ h
  rw [if_neg hp3] at h
  by_cases hp4 : [85, 34].isPrefixOf (c :: a) = true
  · rw [if_pos hp4] at h; exact hstr _ _ h
  rw [if_neg hp4] at h
  by_cases hap : (c == 39) = true
  · rw [if_pos hap] at h; exact hchr _ _ h
  rw [if_neg hap] at h
  by_cases hp5 : [117, 39].isPrefixOf (c :: a) = true
  · rw [if_pos hp5] at h; exact hchr _ _ h
  rw [if_neg hp5] at h
  by_cases hp6 : [76, 39].isPrefixOf (c :: a) = true
  · rw [if_pos hp6] at h; exact hchr _ _ h
  rw [if_neg hp6] at h
  by_cases hp7 : [85, 39].isPrefixOf (c :: a) = true
  · rw [if_pos hp7] at h; exact hchr _ _ h
  rw [if_neg hp7] at h
  by_cases hid : isIdent1 c = true
  · rw [if_pos hid] at h; cases h
  rw [if_neg hid] at h
  simp only at h
  split at h <;> cases h

theorem lexLoop_no_fuel (n : Nat) : ∀ (s : List Nat) (bol sp : Bool), s.length < n →
    lexLoop n s bol sp ≠ .error .fuel := by
  induction n with
  | zero => intro s bol sp h; omega
  | succ n ih =>
    intro s bol sp hlen
    rw [lexLoop]
    cases hs : lexStep s bol sp with
    | done => simp
    | err e =>
      simp only
      intro hh
      injection hh with hh
      subst hh
      -- no step produces `fuel`
      exact absurd hs (lexStep_ne_fuel s bol sp)
    | skip r b p =>
      have := lexStep_skip_length s bol sp r b p hs
      exact ih r b p (by omega)
    | tok t r =>
      have inv := lexStep_tok_inv _ _ _ _ _ hs
      have hl : r.length < s.length := by
        have h1 := congrArg List.length inv.part
        have h2 : t.text.length ≥ 1 := by
          cases ht : t.text with
          | nil => exact absurd ht inv.ne
          | cons _ _ => simp
        simp only [List.length_append] at h1
        omega
      simp only
      cases hl2 : lexLoop n r false false with
      | ok ts => simp
      | error e =>
        simp only
        intro hh
        injection hh with hh
        subst hh
        exact ih r false false (by omega) hl2

end ChibiVerif.Lex
