/-
C20: the call sequence is balanced.

`push_args` classifies every argument (register or stack), pushes the stack arguments and then the
register arguments; the ND_FUNCALL arm re-classifies them while popping the register arguments
into their registers, calls, and drops the stack arguments with one `add`.  The two classifications
run with different counters (`gp++ >= GP_MAX` counts every argument, the popping loop only the
ones it pops); the lemmas here show that they always decide alike, so that what is popped is
exactly what was pushed — for every argument list, provided struct arguments have size ≥ 1
(known finding C20-empty-struct-arg: an empty struct pushes nothing but pops a register).
-/
import ChibiVerif.Lemmas.C20Lemmas

namespace ChibiVerif.Lemmas.C20
open ChibiVerif ChibiVerif.Codegen ChibiVerif.Effect ChibiVerif.Asm ChibiVerif.Ast

/-! ### what an action returns -/

def Ret (m : M α) (P : α → Prop) : Prop := ∀ s a s' ls, m s = .ok (a, s', ls) → P a

theorem Ret_pure {P : α → Prop} {a : α} (h : P a) : Ret (pure a : M α) P := by
  intro s a' s' ls hm
  simp only [pure, M.pure, Except.ok.injEq, Prod.mk.injEq] at hm
  rw [← hm.1]; exact h

theorem Ret_fail {P : α → Prop} (msg : String) : Ret (fail msg : M α) P := by
  intro s a s' ls hm; cases hm

theorem Ret_bind {m : M α} {f : α → M β} {P : α → Prop} {Q : β → Prop} (h1 : Ret m P)
    (h2 : ∀ a, P a → Ret (f a) Q) : Ret (m >>= f) Q := by
  intro s b s' ls h
  simp only [bind, M.bind] at h
  split at h
  · cases h
  · rename_i a s1 l1 hm
    split at h
    · cases h
    · rename_i b' s2 l2 hf
      simp only [Except.ok.injEq, Prod.mk.injEq] at h
      obtain ⟨rfl, _, _⟩ := h
      exact h2 a (h1 _ _ _ _ hm) _ _ _ _ hf

theorem Ret_any (m : M α) : Ret m (fun _ => True) := fun _ _ _ _ _ => trivial

theorem Ret_liftE (e : Except String α) : Ret (liftE e) (fun a => e = .ok a) := by
  intro s a s' ls hm
  cases e with
  | error m => cases hm
  | ok v =>
    simp only [liftE, M.pure, Except.ok.injEq, Prod.mk.injEq] at hm
    rw [hm.1]

theorem Ret_mono {m : M α} {P Q : α → Prop} (h : Ret m P) (hpq : ∀ a, P a → Q a) : Ret m Q :=
  fun s a s' ls hm => hpq a (h s a s' ls hm)

/-- sequencing where the continuation may use a fact about the value of the first action -/
theorem Sem_bind_ret {m : M α} {f : α → M β} {P : α → Prop} (h1 : Sem m r1 x1 d1) (hr : Ret m P)
    (h2 : ∀ a, P a → Sem (f a) r2 x2 d2) : Sem (m >>= f) (r1 + r2) (x1 + x2) (d1 + d2) :=
  Sem_bind' h1 (fun a s s' l hm => h2 a (hr s a s' l hm))

theorem Sem_liftE_bind {e : Except String α} {f : α → M β} (h : ∀ a, e = .ok a → Sem (f a) r x d) :
    Sem (liftE e >>= f) r x d :=
  (Sem_bind_ret (Sem_liftE e) (Ret_liftE e) h).cast (by omega) (by omega) (by omega)

/-! ### slots -/

/-- the number of 8-byte stack slots `push_args2` pushes for an argument of this type -/
def slots (ty : Ty) : Int :=
  match ty.kind with
  | .struct | .union => (ty.size + 8 - 1).tdiv 8
  | .ldouble => 2
  | _ => 1

def slotsO : Option Ty → Int
  | some t => slots t
  | none => 0

/-- slots pushed by `push_args2(args, pass)`: the arguments whose `pass_by_stack` equals `pass` -/
def selSlots : List (Arg × Bool) → Bool → Int
  | [], _ => 0
  | (a, b) :: r, p => selSlots r p + (if b == p then slotsO a.ty else 0)

theorem alignTo8 (n : Int) : alignTo n 8 = .ok ((n + 8 - 1).tdiv 8 * 8) := by
  simp [alignTo]

theorem Sem_pushStruct (ty : Ty) : Sem (pushStruct ty) (-8 * ((ty.size + 8 - 1).tdiv 8)) 0 ((ty.size + 8 - 1).tdiv 8) := by
  unfold pushStruct
  refine Sem_liftE_bind fun sz hsz => ?_
  rw [alignTo8] at hsz
  simp only [Except.ok.injEq] at hsz
  subst hsz
  have hd : ((ty.size + 8 - 1).tdiv 8 * 8).tdiv 8 = (ty.size + 8 - 1).tdiv 8 := by
    rw [Int.mul_tdiv_cancel _ (by decide)]
  rw [hd]
  sem

theorem Sem_pushArgs2 : ∀ (l : List (Arg × Bool)) (p : Bool),
    (∀ ab ∈ l, Sem ab.1.gen 0 (xOf ab.1.ty) 0) →
    Sem (pushArgs2 l p) (-8 * selSlots l p) 0 (selSlots l p)
  | [], p, _ => by
    unfold pushArgs2 selSlots
    exact (Sem_pure ()).cast (by omega) rfl rfl
  | (arg, b) :: rest, p, h => by
    unfold pushArgs2
    have ih := Sem_pushArgs2 rest p (fun ab hab => h ab (List.mem_cons_of_mem _ hab))
    have hg := h (arg, b) List.mem_cons_self
    simp only at hg
    simp only [selSlots]
    refine Sem_bind_td ih (fun _ => ?_)
    by_cases hbp : b = p
    · -- processed in this pass
      have hskip : ((p && !b) || (!p && b)) = false := by subst hbp; cases b <;> rfl
      simp only [hskip, Bool.false_eq_true, if_false, hbp, beq_self_eq_true, if_true]
      refine Sem_bind_td hg (fun _ => ?_)
      refine Sem_needTy_bind fun ty hty => ?_
      rw [hty]
      simp only [slotsO, slots, xOf_some]
      have hps := Sem_pushStruct ty
      cases hk : ty.kind <;> simp only [reduceCtorEq, if_false, if_true] <;> sem
    · have hskip : ((p && !b) || (!p && b)) = true := by cases b <;> cases p <;> simp_all
      have hbp' : (b == p) = false := by simpa using hbp
      simp only [hskip, if_true, hbp', Bool.false_eq_true, if_false]
      exact (Sem_pure ()).cast (by omega) (by omega) (by omega)

end ChibiVerif.Lemmas.C20
