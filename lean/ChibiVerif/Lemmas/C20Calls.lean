/-
C20: the call sequence is balanced.

`push_args` classifies every argument (register or stack), pushes the stack arguments and then the
register arguments; the ND_FUNCALL arm re-classifies them while popping the register arguments
into their registers, calls, and drops the stack arguments with one `add`.  The two classifications
run with different counters (`gp++ >= GP_MAX` counts every argument, the popping loop only the
ones it pops); the lemmas here show that they always decide alike, so that what is popped is
exactly what was pushed — for every argument list (aggregate sizes not negative).  A GNU empty
struct (size 0) takes no register and no stack slot in either loop (/repo b298aee; before that repair
the popping loop popped a register for it: the former known finding C20-empty-struct-arg).
-/
import ChibiVerif.Lemmas.C20Lemmas

namespace ChibiVerif.Lemmas.C20
open ChibiVerif ChibiVerif.Codegen ChibiVerif.Effect ChibiVerif.Asm ChibiVerif.Ast ChibiVerif.C20Scope

variable {K : CodeK} [CodePred K]

/-! ### what an action returns -/

def Ret (m : M α) (P : α → Prop) : Prop := ∀ s a s' ls, m s = .ok (a, s', ls) → P a

theorem Ret_pure {P : α → Prop} {a : α} (h : P a) : Ret (pure a : M α) P := by
  intro s a' s' ls hm
  simp only [pure, M.pure, Except.ok.injEq, Prod.mk.injEq] at hm
  rw [← hm.1]; exact h

theorem Ret_fail {P : α → Prop} (msg : String) : Ret (fail msg : M α) P := by
  intro s a s' ls hm; cases hm

theorem Ret_bind {m : M α} {f : α → M β} {P : α → Prop} {Q : β → Prop} (h1 : Ret m P)
    (h2 : ∀ a, P a → Ret (f a) Q) : Ret (m >>= f) Q := by
  intro s b s' ls h
  simp only [bind, M.bind] at h
  split at h
  · cases h
  · rename_i a s1 l1 hm
    split at h
    · cases h
    · rename_i b' s2 l2 hf
      simp only [Except.ok.injEq, Prod.mk.injEq] at h
      obtain ⟨rfl, _, _⟩ := h
      exact h2 a (h1 _ _ _ _ hm) _ _ _ _ hf

theorem Ret_any (m : M α) : Ret m (fun _ => True) := fun _ _ _ _ _ => trivial

theorem Ret_liftE (e : Except String α) : Ret (liftE e) (fun a => e = .ok a) := by
  intro s a s' ls hm
  cases e with
  | error m => cases hm
  | ok v =>
    simp only [liftE, M.pure, Except.ok.injEq, Prod.mk.injEq] at hm
    rw [hm.1]

theorem Ret_mono {m : M α} {P Q : α → Prop} (h : Ret m P) (hpq : ∀ a, P a → Q a) : Ret m Q :=
  fun s a s' ls hm => hpq a (h s a s' ls hm)

/-- sequencing where the continuation may use a fact about the value of the first action -/
theorem Sem_bind_ret {m : M α} {f : α → M β} {P : α → Prop} (h1 : SemP K m r1 x1 d1) (hr : Ret m P)
    (h2 : ∀ a, P a → SemP K (f a) r2 x2 d2) : SemP K (m >>= f) (r1 + r2) (x1 + x2) (d1 + d2) :=
  Sem_bind' h1 (fun a s s' l hm => h2 a (hr s a s' l hm))

theorem Sem_liftE_bind {e : Except String α} {f : α → M β} (h : ∀ a, e = .ok a → SemP K (f a) r x d) :
    SemP K (liftE e >>= f) r x d :=
  (Sem_bind_ret (Sem_liftE e) (Ret_liftE e) h).cast (by omega) (by omega) (by omega)

/-! ### slots -/

/-- the number of 8-byte stack slots `push_args2` pushes for an argument of this type -/
def slots (ty : Ty) : Int :=
  match ty.kind with
  | .struct | .union => (ty.size + 8 - 1).tdiv 8
  | .ldouble => 2
  | _ => 1

def slotsO : Option Ty → Int
  | some t => slots t
  | none => 0

/-- slots pushed by `push_args2(args, pass)`: the arguments whose `pass_by_stack` equals `pass` -/
def selSlots : List (Arg × Bool) → Bool → Int
  | [], _ => 0
  | (a, b) :: r, p => selSlots r p + (if b == p then slotsO a.ty else 0)

theorem alignTo8 (n : Int) : alignTo n 8 = .ok ((n + 8 - 1).tdiv 8 * 8) := by
  simp [alignTo]

theorem Sem_pushStruct (ty : Ty) : SemP K (pushStruct ty) (-8 * ((ty.size + 8 - 1).tdiv 8)) 0 ((ty.size + 8 - 1).tdiv 8) := by
  unfold pushStruct
  refine Sem_liftE_bind fun sz hsz => ?_
  rw [alignTo8] at hsz
  simp only [Except.ok.injEq] at hsz
  subst hsz
  have hd : ((ty.size + 8 - 1).tdiv 8 * 8).tdiv 8 = (ty.size + 8 - 1).tdiv 8 := by
    rw [Int.mul_tdiv_cancel _ (by decide)]
  rw [hd]
  sem

theorem Sem_pushArgs2 : ∀ (l : List (Arg × Bool)) (p : Bool),
    (∀ ab ∈ l, SemP K ab.1.gen 0 (xOf ab.1.ty) 0) →
    SemP K (pushArgs2 l p) (-8 * selSlots l p) 0 (selSlots l p)
  | [], p, _ => by
    unfold pushArgs2 selSlots
    exact (Sem_pure ()).cast (by omega) rfl rfl
  | (arg, b) :: rest, p, h => by
    unfold pushArgs2
    have ih := Sem_pushArgs2 rest p (fun ab hab => h ab (List.mem_cons_of_mem _ hab))
    have hg := h (arg, b) List.mem_cons_self
    simp only at hg
    simp only [selSlots]
    refine Sem_bind_td ih (fun _ => ?_)
    by_cases hbp : b = p
    · -- processed in this pass
      subst hbp
      have hskip : ((b && !b) || (!b && b)) = false := by cases b <;> rfl
      simp only [hskip, Bool.false_eq_true, if_false, beq_self_eq_true, if_true]
      refine Sem_bind_td hg (fun _ => ?_)
      refine Sem_needTy_bind fun ty hty => ?_
      rw [hty]
      simp only [slotsO, slots, xOf_some]
      have hps := Sem_pushStruct (K := K) ty
      cases hk : ty.kind <;> simp only [reduceCtorEq, if_false, if_true] <;> sem
    · have hskip : ((p && !b) || (!p && b)) = true := by cases b <;> cases p <;> simp_all
      have hbp' : (b == p) = false := by simpa using hbp
      simp only [hskip, if_true, hbp', Bool.false_eq_true, if_false]
      exact (Sem_pure ()).cast (by omega) (by omega) (by omega)


/-! ### the two classification loops decide alike -/

/-- the counters of `push_args`' loop (`gpc`, `fpc`: incremented for every argument of the class)
    and of the popping loop (`gpp`, `fpp`: incremented only when a register is loaded) -/
def Eqv (gpc fpc gpp fpp : Int) : Prop := 0 ≤ gpc ∧ 0 ≤ fpc ∧ gpp = min gpc 6 ∧ fpp = min fpc 8

theorem argreg64_ne_rsp : ∀ r ∈ argreg64, r ≠ "%rsp" := by decide

theorem Ret_argreg64 (r : Int) : Ret (argreg argreg64 r) (fun n => n ≠ "%rsp") := by
  unfold argreg
  split
  · exact Ret_fail _
  · split
    · rename_i s hs
      exact Ret_pure (argreg64_ne_rsp s (List.mem_of_getElem? hs))
    · exact Ret_fail _

theorem Sem_popGp (gp : Int) : SemP K (popGp gp) 8 0 (-1) := by
  unfold popGp
  exact (Sem_bind_ret (Sem_argreg _ _) (Ret_argreg64 gp) (fun a ha => Sem_pop a ha)).cast
    (by omega) (by omega) (by omega)

macro_rules
  | `(tactic| sem_leaf) => `(tactic| first | exact Sem_popGp _ | exact Sem_pushStruct _)

/-- result of a block that ends in `pure v` after actions whose values do not matter -/
theorem Ret_seq_pure {m : M α} {v : β} {P : β → Prop} (h : P v) : Ret (m >>= fun _ => (pure v : M β)) P :=
  Ret_bind (Ret_any m) (fun _ _ => Ret_pure h)

theorem gp_class {gpc fpc gpp fpp : Int} {b : Bool} {gpc' fpc' k : Int} (he : Eqv gpc fpc gpp fpp)
    (hc : (if gpc ≥ GP_MAX then (pure (true, gpc + 1, fpc, 1) : Except String _) else pure (false, gpc + 1, fpc, 0))
      = .ok (b, gpc', fpc', k)) :
    (k = if b then 1 else 0) ∧
    SemP K (if gpp < GP_MAX then (do popGp gpp; pure (gpp + 1, fpp)) else (pure (gpp, fpp) : M (Int × Int)))
      (8 * (if b then 0 else 1)) 0 (-(if b then 0 else 1)) ∧
    Ret (if gpp < GP_MAX then (do popGp gpp; pure (gpp + 1, fpp)) else (pure (gpp, fpp) : M (Int × Int)))
      (fun gf => Eqv gpc' fpc' gf.1 gf.2) := by
  obtain ⟨h1, h2, h3, h4⟩ := he
  simp only [GP_MAX] at hc ⊢
  by_cases hg : gpc ≥ 6
  · simp only [hg, if_true, pure, Except.pure, Except.ok.injEq, Prod.mk.injEq] at hc
    obtain ⟨rfl, rfl, rfl, rfl⟩ := hc
    have : ¬ gpp < 6 := by omega
    simp only [this, if_false, if_true]
    refine ⟨trivial, ?_, ?_⟩
    · exact (Sem_pure _).cast (by omega) rfl (by omega)
    · exact Ret_pure ⟨by omega, h2, by omega, h4⟩
  · simp only [hg, if_false, pure, Except.pure, Except.ok.injEq, Prod.mk.injEq] at hc
    obtain ⟨rfl, rfl, rfl, rfl⟩ := hc
    have : gpp < 6 := by omega
    simp only [this, if_true, Bool.false_eq_true, if_false]
    refine ⟨trivial, ?_, ?_⟩
    · sem
    · exact Ret_seq_pure ⟨by omega, h2, by omega, h4⟩

theorem fp_class {gpc fpc gpp fpp : Int} {b : Bool} {gpc' fpc' k : Int} (he : Eqv gpc fpc gpp fpp)
    (hc : (if fpc ≥ FP_MAX then (pure (true, gpc, fpc + 1, 1) : Except String _) else pure (false, gpc, fpc + 1, 0))
      = .ok (b, gpc', fpc', k)) :
    (k = if b then 1 else 0) ∧
    SemP K (if fpp < FP_MAX then (do popf fpp.toNat; pure (gpp, fpp + 1)) else (pure (gpp, fpp) : M (Int × Int)))
      (8 * (if b then 0 else 1)) 0 (-(if b then 0 else 1)) ∧
    Ret (if fpp < FP_MAX then (do popf fpp.toNat; pure (gpp, fpp + 1)) else (pure (gpp, fpp) : M (Int × Int)))
      (fun gf => Eqv gpc' fpc' gf.1 gf.2) := by
  obtain ⟨h1, h2, h3, h4⟩ := he
  simp only [FP_MAX] at hc ⊢
  by_cases hg : fpc ≥ 8
  · simp only [hg, if_true, pure, Except.pure, Except.ok.injEq, Prod.mk.injEq] at hc
    obtain ⟨rfl, rfl, rfl, rfl⟩ := hc
    have : ¬ fpp < 8 := by omega
    simp only [this, if_false, if_true]
    refine ⟨trivial, ?_, ?_⟩
    · exact (Sem_pure _).cast (by omega) rfl (by omega)
    · exact Ret_pure ⟨h1, by omega, h3, by omega⟩
  · simp only [hg, if_false, pure, Except.pure, Except.ok.injEq, Prod.mk.injEq] at hc
    obtain ⟨rfl, rfl, rfl, rfl⟩ := hc
    have : fpp < 8 := by omega
    simp only [this, if_true, Bool.false_eq_true, if_false]
    refine ⟨trivial, ?_, ?_⟩
    · sem
    · exact Ret_seq_pure ⟨h1, by omega, h3, by omega⟩


/-! ### monad laws of `M` (used to normalise the struct arm of `popArg`) -/

theorem M_pure_bind (v : α) (f : α → M β) : ((pure v : M α) >>= f) = f v := by
  funext s
  simp only [bind, M.bind, pure, M.pure]
  cases f v s with
  | error e => rfl
  | ok r => obtain ⟨b, s2, l2⟩ := r; simp

theorem M_liftE_ok_bind (v : α) (f : α → M β) : (liftE (.ok v) >>= f) = f v := M_pure_bind v f

theorem M_bind_assoc (m : M α) (f : α → M β) (g : β → M γ) :
    ((m >>= f) >>= g) = (m >>= fun a => f a >>= g) := by
  funext s
  simp only [bind, M.bind]
  cases m s with
  | error e => rfl
  | ok r =>
    obtain ⟨a, s1, l1⟩ := r
    simp only
    cases f a s1 with
    | error e => rfl
    | ok r2 =>
      obtain ⟨b, s2, l2⟩ := r2
      simp only
      cases g b s2 with
      | error e => rfl
      | ok r3 => obtain ⟨c, s3, l3⟩ := r3; simp [List.append_assoc]

theorem structCls_ok {env : Env} {ty : Ty} {ngp nfp : Int} (h : structClsE env ty = .ok (ngp, nfp)) :
    ∃ f1, hasFlonum1E env ty = .ok f1 ∧
      (if ty.size > 8 then
        ∃ f2, hasFlonum2E env ty = .ok f2 ∧ ngp = (if f1 then 0 else 1) + (if f2 then 0 else 1) ∧
          nfp = (if f1 then 1 else 0) + (if f2 then 1 else 0)
       else ngp = (if f1 then 0 else 1) ∧ nfp = (if f1 then 1 else 0)) := by
  unfold structClsE at h
  cases h1 : hasFlonum1E env ty with
  | error e => simp [h1] at h
  | ok f1 =>
    refine ⟨f1, rfl, ?_⟩
    simp only [h1] at h
    by_cases hs : ty.size > 8
    · simp only [hs, if_true] at h ⊢
      cases h2 : hasFlonum2E env ty with
      | error e => simp [h2] at h
      | ok f2 =>
        simp only [h2, Except.ok.injEq, Prod.mk.injEq] at h
        exact ⟨f2, rfl, h.1.symm, h.2.symm⟩
    · simp only [hs, if_false, Except.ok.injEq, Prod.mk.injEq] at h ⊢
      exact ⟨h.1.symm, h.2.symm⟩

theorem fits_eqv {gpc fpc gpp fpp ngp nfp : Int} (he : Eqv gpc fpc gpp fpp) (hn : 0 ≤ ngp) (hf : 0 ≤ nfp) :
    fitsRegs gpc fpc ngp nfp = fitsRegs gpp fpp ngp nfp := by
  obtain ⟨h1, h2, h3, h4⟩ := he
  unfold fitsRegs FP_MAX GP_MAX
  have e1 : (nfp == 0 || decide (fpc + nfp ≤ 8)) = (nfp == 0 || decide (fpp + nfp ≤ 8)) := by
    by_cases hz : nfp = 0
    · simp [hz]
    · have : (fpc + nfp ≤ 8) ↔ (fpp + nfp ≤ 8) := by omega
      simp [this]
  have e2 : (ngp == 0 || decide (gpc + ngp ≤ 6)) = (ngp == 0 || decide (gpp + ngp ≤ 6)) := by
    by_cases hz : ngp = 0
    · simp [hz]
    · have : (gpc + ngp ≤ 6) ↔ (gpp + ngp ≤ 6) := by omega
      simp [this]
  rw [e1, e2]


/-- tail of a straight sequence whose last action is `pure v` -/
syntax "ret_tail" term : tactic
macro_rules
  | `(tactic| ret_tail $h) => `(tactic| repeat (first
      | exact Ret_pure $h
      | refine Ret_bind (Ret_any _) (fun _ _ => ?_)))

theorem Sem_popEightbyte (f : Bool) (gp fp : Int) : SemP K (popEightbyte f gp fp) 8 0 (-1) := by
  unfold popEightbyte
  cases f <;> simp only [Bool.false_eq_true, if_false, if_true] <;> sem

theorem Ret_popEightbyte (f : Bool) (gp fp : Int) :
    Ret (popEightbyte f gp fp) (fun gf => gf = (if f then (gp, fp + 1) else (gp + 1, fp))) := by
  unfold popEightbyte
  cases f <;> simp only [Bool.false_eq_true, if_false, if_true] <;> exact Ret_seq_pure rfl

theorem struct_class (env : Env) (ty : Ty)
    {gpc fpc gpp fpp : Int} {b : Bool} {gpc' fpc' k : Int} (he : Eqv gpc fpc gpp fpp) (hs1 : 0 ≤ ty.size)
    (hcr : (if ty.size > 16 then (do
        let sz ← alignTo ty.size 8
        pure (true, gpc, fpc, sz.tdiv 8) : Except String _)
      else do
        let (fits, ngp, nfp) ← structInRegsE env ty gpc fpc
        if fits then pure (false, gpc + ngp, fpc + nfp, 0)
        else do
          let sz ← alignTo ty.size 8
          pure (true, gpc, fpc, sz.tdiv 8)) = .ok (b, gpc', fpc', k)) :
    (k = if b then (ty.size + 8 - 1).tdiv 8 else 0) ∧
    SemP K (popStruct env ty gpp fpp) (8 * (if b then 0 else (ty.size + 8 - 1).tdiv 8)) 0
      (-(if b then 0 else (ty.size + 8 - 1).tdiv 8)) ∧
    Ret (popStruct env ty gpp fpp) (fun gf => Eqv gpc' fpc' gf.1 gf.2) := by
  have hal : alignTo ty.size 8 = .ok ((ty.size + 8 - 1).tdiv 8 * 8) := alignTo8 _
  have hd : ((ty.size + 8 - 1).tdiv 8 * 8).tdiv 8 = (ty.size + 8 - 1).tdiv 8 := by
    rw [Int.mul_tdiv_cancel _ (by decide)]
  unfold popStruct
  by_cases h0 : ty.size = 0
  · -- a GNU empty struct: no register, no stack slot
    have hcls : structInRegsE env ty gpc fpc = .ok (true, 0, 0) := by simp [structInRegsE, h0]
    have hnb : ¬ ty.size > 16 := by omega
    simp only [hnb, if_false, hcls, bind, Except.bind, pure, Except.pure, if_true, Except.ok.injEq,
      Prod.mk.injEq] at hcr
    obtain ⟨rfl, rfl, rfl, rfl⟩ := hcr
    have hc : (decide (ty.size > 16) || ty.size == 0) = true := by simp [h0]
    simp only [hc, if_true, h0]
    refine ⟨by simp, (Sem_pure _).cast (by decide) rfl (by decide), Ret_pure ?_⟩
    obtain ⟨h1, h2, h3, h4⟩ := he
    exact ⟨by omega, by omega, by omega, by omega⟩
  have hs1 : 1 ≤ ty.size := by omega
  have h0b : (ty.size == 0) = false := by simpa using h0
  by_cases hbig : ty.size > 16
  · simp only [hbig, if_true, hal, bind, Except.bind, pure, Except.pure, hd, Except.ok.injEq, Prod.mk.injEq] at hcr
    obtain ⟨rfl, rfl, rfl, rfl⟩ := hcr
    simp only [hbig, decide_true, Bool.true_or, if_true]
    exact ⟨trivial, (Sem_pure _).cast (by omega) rfl (by omega), Ret_pure he⟩
  · simp only [hbig, if_false] at hcr
    simp only [hbig, decide_false, h0b, Bool.or_self, Bool.false_eq_true, if_false]
    cases hsr : structInRegsE env ty gpc fpc with
    | error e => simp [hsr, bind, Except.bind] at hcr
    | ok r =>
      obtain ⟨fits, ngp, nfp⟩ := r
      simp only [hsr, bind, Except.bind] at hcr
      -- what struct_in_regs computed
      unfold structInRegsE at hsr
      cases hcls : structClsE env ty with
      | error e => simp [hcls, h0] at hsr
      | ok c =>
        obtain ⟨ngp0, nfp0⟩ := c
        simp only [h0b, Bool.false_eq_true, if_false, hcls, Except.ok.injEq, Prod.mk.injEq] at hsr
        obtain ⟨hfits, rfl, rfl⟩ := hsr
        obtain ⟨f1, hf1, hrest⟩ := structCls_ok hcls
        have hn0 : 0 ≤ ngp0 ∧ 0 ≤ nfp0 := by
          by_cases h8 : ty.size > 8
          · simp only [h8, if_true] at hrest
            obtain ⟨f2, _, e1, e2⟩ := hrest
            subst e1 e2
            cases f1 <;> cases f2 <;> simp
          · simp only [h8, if_false] at hrest
            obtain ⟨e1, e2⟩ := hrest
            subst e1 e2
            cases f1 <;> simp
        have hfe := fits_eqv he hn0.1 hn0.2
        -- the popping loop asks the same question with its own counters
        have hsr' : structInRegs env ty gpp fpp = liftE (.ok (fits, ngp0, nfp0)) := by
          unfold structInRegs structInRegsE
          simp only [h0b, Bool.false_eq_true, if_false, hcls, ← hfe, hfits]
        rw [hsr']
        show _ ∧ SemP K (liftE (Except.ok (fits, ngp0, nfp0)) >>= _) _ _ _ ∧ Ret (liftE (Except.ok (fits, ngp0, nfp0)) >>= _) _
        rw [M_liftE_ok_bind]
        simp only
        cases fits with
        | false =>
          simp only [Bool.false_eq_true, if_false, hal, hd, pure, Except.pure, Except.ok.injEq, Prod.mk.injEq] at hcr ⊢
          obtain ⟨rfl, rfl, rfl, rfl⟩ := hcr
          simp only [if_true]
          exact ⟨trivial, (Sem_pure _).cast (by omega) rfl (by omega), Ret_pure he⟩
        | true =>
          simp only [if_true, pure, Except.pure, Except.ok.injEq, Prod.mk.injEq] at hcr
          obtain ⟨rfl, rfl, rfl, rfl⟩ := hcr
          simp only [Bool.false_eq_true, if_false, if_true]
          refine ⟨trivial, ?_⟩
          obtain ⟨h1, h2, h3, h4⟩ := he
          have hfits' : fitsRegs gpc fpc ngp0 nfp0 = true := hfits
          unfold fitsRegs FP_MAX GP_MAX at hfits'
          simp only [Bool.and_eq_true, Bool.or_eq_true, beq_iff_eq, decide_eq_true_eq] at hfits'
          unfold hasFlonum1 hasFlonum2
          rw [hf1, M_liftE_ok_bind]
          have s1 := Sem_popEightbyte (K := K) f1 gpp fpp
          have r1 := Ret_popEightbyte f1 gpp fpp
          by_cases h8 : ty.size > 8
          · simp only [h8, if_true] at hrest ⊢
            obtain ⟨f2, hf2, e1, e2⟩ := hrest
            subst e1 e2
            rw [hf2]
            have hS : (ty.size + 8 - 1).tdiv 8 = 2 := by
              have : ty.size ≤ 16 := by omega
              rw [Int.tdiv_eq_ediv_of_nonneg (by omega)]
              omega
            rw [hS]
            constructor
            · refine (Sem_bind s1 (fun gf => ?_)).cast (r := 8 + 8) (x := 0 + 0) (d := -1 + -1) (by omega) (by omega) (by omega)
              rw [M_liftE_ok_bind]
              exact Sem_popEightbyte f2 _ _
            · refine Ret_bind r1 (fun gf hgf => ?_)
              rw [M_liftE_ok_bind]
              refine Ret_mono (Ret_popEightbyte f2 _ _) (fun gf2 hgf2 => ?_)
              subst hgf hgf2
              cases f1 <;> cases f2 <;> simp at hfits' ⊢ <;> exact ⟨by omega, by omega, by omega, by omega⟩
          · simp only [h8, if_false] at hrest ⊢
            obtain ⟨e1, e2⟩ := hrest
            subst e1 e2
            have hS : (ty.size + 8 - 1).tdiv 8 = 1 := by
              rw [Int.tdiv_eq_ediv_of_nonneg (by omega)]
              omega
            rw [hS]
            constructor
            · refine (Sem_bind s1 (fun gf => Sem_pure gf)).cast (by omega) (by omega) (by omega)
            · refine Ret_bind r1 (fun gf hgf => Ret_pure ?_)
              subst hgf
              cases f1 <;> simp at hfits' ⊢ <;> exact ⟨by omega, by omega, by omega, by omega⟩


/-- one argument: the popping loop pops exactly what `push_args2` pushed for it in the register
    pass, and the two loops' counters stay equivalent -/
theorem popArg_spec (env : Env) (ty : Ty) {gpc fpc gpp fpp : Int} {b : Bool} {gpc' fpc' k : Int}
    (he : Eqv gpc fpc gpp fpp) (hs : ty.isStructOrUnion = true → 0 ≤ ty.size)
    (hc : classifyArgE env ty gpc fpc = .ok (b, gpc', fpc', k)) :
    (k = if b then slots ty else 0) ∧
    SemP K (popArg env ty gpp fpp) (8 * (if b then 0 else slots ty)) 0 (-(if b then 0 else slots ty)) ∧
    Ret (popArg env ty gpp fpp) (fun gf => Eqv gpc' fpc' gf.1 gf.2) := by
  unfold classifyArgE at hc
  unfold popArg slots
  cases hk : ty.kind <;> simp only [hk] at hc ⊢
  case struct => exact struct_class env ty he (hs (by simp [Ty.isStructOrUnion, hk])) hc
  case union => exact struct_class env ty he (hs (by simp [Ty.isStructOrUnion, hk])) hc
  case float => exact fp_class he hc
  case double => exact fp_class he hc
  case ldouble =>
    simp only [pure, Except.pure, Except.ok.injEq, Prod.mk.injEq] at hc
    obtain ⟨rfl, rfl, rfl, rfl⟩ := hc
    exact ⟨rfl, (Sem_pure _).cast (by simp) rfl (by simp), Ret_pure he⟩
  all_goals exact gp_class he hc

theorem classifyArgE_nonneg {env : Env} {ty : Ty} {gpc fpc : Int} {b : Bool} {gpc' fpc' k : Int}
    (hc : classifyArgE env ty gpc fpc = .ok (b, gpc', fpc', k)) (h1 : 0 ≤ gpc) (h2 : 0 ≤ fpc) :
    0 ≤ gpc' ∧ 0 ≤ fpc' := by
  unfold classifyArgE at hc
  have hstruct : (if ty.size > 16 then (do
        let sz ← alignTo ty.size 8
        pure (true, gpc, fpc, sz.tdiv 8) : Except String _)
      else do
        let (fits, ngp, nfp) ← structInRegsE env ty gpc fpc
        if fits then pure (false, gpc + ngp, fpc + nfp, 0)
        else do
          let sz ← alignTo ty.size 8
          pure (true, gpc, fpc, sz.tdiv 8)) = .ok (b, gpc', fpc', k) → 0 ≤ gpc' ∧ 0 ≤ fpc' := by
    intro hcr
    by_cases hbig : ty.size > 16
    · simp only [hbig, if_true, alignTo8, bind, Except.bind, pure, Except.pure, Except.ok.injEq, Prod.mk.injEq] at hcr
      obtain ⟨_, rfl, rfl, _⟩ := hcr
      exact ⟨h1, h2⟩
    · simp only [hbig, if_false] at hcr
      cases hsr : structInRegsE env ty gpc fpc with
      | error e => simp [hsr, bind, Except.bind] at hcr
      | ok r =>
        obtain ⟨fits, ngp, nfp⟩ := r
        simp only [hsr, bind, Except.bind] at hcr
        unfold structInRegsE at hsr
        by_cases h0 : ty.size = 0
        · simp only [h0, beq_self_eq_true, if_true, Except.ok.injEq, Prod.mk.injEq] at hsr
          obtain ⟨rfl, rfl, rfl⟩ := hsr
          simp only [if_true, pure, Except.pure, Except.ok.injEq, Prod.mk.injEq] at hcr
          obtain ⟨_, rfl, rfl, _⟩ := hcr
          exact ⟨by omega, by omega⟩
        have h0b : (ty.size == 0) = false := by simpa using h0
        cases hcls : structClsE env ty with
        | error e => simp [hcls, h0] at hsr
        | ok c =>
          obtain ⟨ngp0, nfp0⟩ := c
          simp only [h0b, Bool.false_eq_true, if_false, hcls, Except.ok.injEq, Prod.mk.injEq] at hsr
          obtain ⟨_, rfl, rfl⟩ := hsr
          obtain ⟨f1, _, hrest⟩ := structCls_ok hcls
          have hn0 : 0 ≤ ngp0 ∧ 0 ≤ nfp0 := by
            by_cases h8 : ty.size > 8
            · simp only [h8, if_true] at hrest
              obtain ⟨f2, _, e1, e2⟩ := hrest
              subst e1 e2
              cases f1 <;> cases f2 <;> simp
            · simp only [h8, if_false] at hrest
              obtain ⟨e1, e2⟩ := hrest
              subst e1 e2
              cases f1 <;> simp
          cases fits with
          | false =>
            simp only [Bool.false_eq_true, if_false, alignTo8, pure, Except.pure, Except.ok.injEq, Prod.mk.injEq] at hcr
            obtain ⟨_, rfl, rfl, _⟩ := hcr
            exact ⟨h1, h2⟩
          | true =>
            simp only [if_true, pure, Except.pure, Except.ok.injEq, Prod.mk.injEq] at hcr
            obtain ⟨_, rfl, rfl, _⟩ := hcr
            exact ⟨by omega, by omega⟩
  cases hk : ty.kind <;> simp only [hk] at hc
  case struct => exact hstruct hc
  case union => exact hstruct hc
  case float =>
    by_cases hg : fpc ≥ FP_MAX <;> simp only [hg, if_true, if_false, pure, Except.pure, Except.ok.injEq, Prod.mk.injEq] at hc <;>
      obtain ⟨_, rfl, rfl, _⟩ := hc <;> exact ⟨by omega, by omega⟩
  case double =>
    by_cases hg : fpc ≥ FP_MAX <;> simp only [hg, if_true, if_false, pure, Except.pure, Except.ok.injEq, Prod.mk.injEq] at hc <;>
      obtain ⟨_, rfl, rfl, _⟩ := hc <;> exact ⟨by omega, by omega⟩
  case ldouble =>
    simp only [pure, Except.pure, Except.ok.injEq, Prod.mk.injEq] at hc
    obtain ⟨_, rfl, rfl, _⟩ := hc
    exact ⟨h1, h2⟩
  all_goals
    (by_cases hg : gpc ≥ GP_MAX <;> simp only [hg, if_true, if_false, pure, Except.pure, Except.ok.injEq, Prod.mk.injEq] at hc <;>
      obtain ⟨_, rfl, rfl, _⟩ := hc <;> exact ⟨by omega, by omega⟩)

/-- the sizes of struct/union arguments are not negative (well-formedness of the type table; an empty
    struct, size 0, takes no register and no stack slot since /repo b298aee) -/
def StructArgsOK (tys : List (Option Ty)) : Prop :=
  ∀ t, some t ∈ tys → t.isStructOrUnion = true → 0 ≤ t.size

theorem popArgs_spec (env : Env) : ∀ (args : List Arg) (gpc fpc gpp fpp stack : Int) (flags : List Bool) (st : Int),
    Eqv gpc fpc gpp fpp → StructArgsOK (args.map (·.ty)) →
    classifyArgsE env (args.map (·.ty)) gpc fpc stack = .ok (flags, st) →
    flags.length = args.length ∧ st = stack + selSlots (args.zip flags) true ∧
    SemP K (popArgs env args gpp fpp) (8 * selSlots (args.zip flags) false) 0 (-(selSlots (args.zip flags) false))
  | [], _, _, _, _, stack, flags, st, _, _, hc => by
    simp only [List.map_nil, classifyArgsE, Except.ok.injEq, Prod.mk.injEq] at hc
    obtain ⟨rfl, rfl⟩ := hc
    unfold popArgs
    simp only [List.zip_nil_right, selSlots]
    exact ⟨rfl, by omega, (Sem_pure _).cast (by omega) rfl (by omega)⟩
  | arg :: rest, gpc, fpc, gpp, fpp, stack, flags, st, he, hs, hc => by
    simp only [List.map_cons, classifyArgsE] at hc
    cases hty : arg.ty with
    | none => simp [hty] at hc
    | some ty =>
      simp only [hty] at hc
      cases hca : classifyArgE env ty gpc fpc with
      | error e => simp [hca] at hc
      | ok r =>
        obtain ⟨b, gpc', fpc', k⟩ := r
        simp only [hca] at hc
        cases hrec : classifyArgsE env (rest.map (·.ty)) gpc' fpc' (stack + k) with
        | error e => simp [hrec] at hc
        | ok r2 =>
          obtain ⟨bs, st2⟩ := r2
          simp only [hrec, Except.ok.injEq, Prod.mk.injEq] at hc
          obtain ⟨rfl, rfl⟩ := hc
          have hs1 : ty.isStructOrUnion = true → 0 ≤ ty.size :=
            hs ty (by simp [hty])
          obtain ⟨hk, hsem, hret⟩ := popArg_spec (K := K) env ty he hs1 hca
          have hsr : StructArgsOK (rest.map (·.ty)) := fun t ht => hs t (by simp only [List.map_cons]; exact List.mem_cons_of_mem _ ht)
          unfold popArgs
          simp only [List.zip_cons_cons, selSlots, hty, slotsO, List.length_cons]
          have key : ∀ gf : Int × Int, Eqv gpc' fpc' gf.1 gf.2 →
              bs.length = rest.length ∧ st2 = stack + k + selSlots (rest.zip bs) true ∧
              SemP K (popArgs env rest gf.1 gf.2) (8 * selSlots (rest.zip bs) false) 0 (-(selSlots (rest.zip bs) false)) :=
            fun gf hgf => popArgs_spec env rest gpc' fpc' gf.1 gf.2 (stack + k) bs st2 hgf hsr hrec
          -- the facts that do not depend on the popped registers
          have hn' := classifyArgE_nonneg hca he.1 he.2.1
          have h0 := key (min gpc' 6, min fpc' 8) ⟨hn'.1, hn'.2, rfl, rfl⟩
          refine ⟨by omega, ?_, ?_⟩
          · have := h0.2.1
            cases b <;> simp at hk ⊢ <;> omega
          · refine Sem_needTy_bind fun ty' hty' => ?_
            simp only [Option.some.injEq] at hty'
            subst hty'
            refine (Sem_bind_ret hsem hret (fun gf hgf => (key gf hgf).2.2)).cast ?_ ?_ ?_
            · cases b <;> simp <;> omega
            · omega
            · cases b <;> simp <;> omega


/-! ### the whole call sequence -/

/-- `node->ret_buffer && node->ty->size > 16`, as a value -/
def bigV (i : NInfo) (rb : Option Var) : Bool :=
  match rb, i.ty with
  | some _, some ty => ty.size > 16
  | _, _ => false

theorem Ret_bigRet (i : NInfo) (rb : Option Var) : Ret (bigRet i rb) (fun b => b = bigV i rb) := by
  unfold bigRet bigV
  cases rb with
  | none => exact Ret_pure rfl
  | some v =>
    cases hty : i.ty with
    | none =>
      intro s a s' ls hm
      simp [bind, M.bind, needTy, nullDeref, fail] at hm
    | some ty =>
      simp only [needTy, M_pure_bind]
      exact Ret_pure rfl

theorem Sem_bigRet (i : NInfo) (rb : Option Var) : SemP K (bigRet i rb) 0 0 0 := by
  unfold bigRet
  sem

theorem delta_retBytes (reg1 reg2 : String) (h2 : reg2 ≠ "%rsp") (off : Int) (i n : Nat) :
    delta (retBytes reg1 reg2 off i n) = some ⟨0, 0⟩ := by
  induction n generalizing i with
  | zero => simp [retBytes, delta, H.zero]
  | succ n ih =>
    have h1 : lineDelta (ins2 "mov" (.r reg1) (rbp (off + ↑i))) = some ⟨0, 0⟩ := by rfl
    have h3 : lineDelta (ins2 "shr" (.i 8) (.r reg2)) = some ⟨0, 0⟩ := by
      simp [lineDelta, ins2, insDelta, dstIsRsp, isRsp, h2, x87Push, x87Pop, x87Same, plainOps]
    simp [retBytes, delta, h1, h3, ih]

theorem Sem_retBytes (reg1 reg2 : String) (h2 : reg2 ≠ "%rsp") (off : Int) (i n : Nat) :
    SemP K (emits (retBytes reg1 reg2 off i n)) 0 0 0 :=
  Sem_emits (delta_retBytes reg1 reg2 h2 off i n)

macro_rules
  | `(tactic| sem_leaf) => `(tactic| first
      | exact Sem_retBytes _ _ (by decide) _ _ _
      | exact Sem_bigRet _ _)

theorem Sem_copyRetBuffer (env : Env) (var : Var) : SemP K (copyRetBuffer env var) 0 0 0 := by
  unfold copyRetBuffer hasFlonum1 hasFlonum2
  sem


macro_rules
  | `(tactic| sem_leaf) => `(tactic| exact Sem_copyRetBuffer _ _)

theorem mem_zip_fst {α β : Type} {a : α} {b : β} {l1 : List α} {l2 : List β} (h : (a, b) ∈ l1.zip l2) : a ∈ l1 :=
  (List.of_mem_zip h).1

theorem Sem_callTail (env : Env) (rb : Option Var) (ty : Ty) (st : Int) :
    SemP K (callTail env rb ty st) (8 * st) (xOf (some ty)) (-st) := by
  unfold callTail
  rw [xOf_some]
  cases hk : ty.kind <;> simp only [reduceCtorEq, beq_self_eq_true, if_true, if_false] <;> sem

/-- the arm after `push_args`, for both answers of `node->ret_buffer && node->ty->size > 16` -/
theorem Sem_callRest (env : Env) (i : NInfo) {fn : M Unit} (rb : Option Var) (args : List Arg) (st pops : Int)
    (hfn : SemP K fn 0 0 0)
    (hpop : SemP K (popArgs env args (if bigV i rb = true then 1 else 0) 0) (8 * pops) 0 (-pops)) :
    SemP K (callRest env i fn rb args st)
      (8 * (st + pops + (if bigV i rb = true then 1 else 0))) (xOf i.ty)
      (-(st + pops + (if bigV i rb = true then 1 else 0))) := by
  unfold callRest
  refine Sem_bind_td hfn (fun _ => ?_)
  refine (Sem_bind_ret (Sem_bigRet i rb) (Ret_bigRet i rb) (fun big hbig => ?_)).cast (r := 0 + _) (x := 0 + _)
    (d := 0 + _) (Int.zero_add _) (Int.zero_add _) (Int.zero_add _)
  subst hbig
  have key : ∀ (gf : Int × Int), SemP K (do
      emit (ins2 "mov" rax (.r "%r10"))
      emit (ins2 "mov" (.i gf.2) rax)
      let ty ← needTy "node->ty" i.ty
      callTail env rb ty st) (8 * st) (xOf i.ty) (-st) := by
    intro gf
    refine Sem_bind_td (Sem_emit rfl) (fun _ => ?_)
    refine Sem_bind_td (Sem_emit rfl) (fun _ => ?_)
    refine Sem_needTy_bind fun ty hty => ?_
    rw [hty]
    exact (Sem_callTail env rb ty st).cast (by omega) (by omega) (by omega)
  cases hb : bigV i rb <;> simp only [hb, Bool.false_eq_true, if_false, if_true] at hpop ⊢ <;>
    simp only [M_bind_assoc, M_pure_bind]
  · exact (Sem_bind hpop key).cast (by omega) (by omega) (by omega)
  · exact (Sem_bind (Sem_popGp 0) (fun _ => Sem_bind hpop key)).cast (by omega) (by omega) (by omega)

-- try the hypotheses first: unifying an opaque sub-generator with `emit ?l` by `rfl` unfolds it
macro_rules
  | `(tactic| sem_leaf) => `(tactic| assumption)

/-- **the call sequence is balanced**: for every argument list (struct arguments of at least one
    byte), whatever the callee expression, with or without a return buffer, for every parity of
    `depth` -/
theorem Sem_funcallArm (env : Env) (i : NInfo) {isAlloca : M Bool} {fn : M Unit} (rb : Option Var)
    (args : List Arg) (hia : SemP K isAlloca 0 0 0) (hna : Ret isAlloca (fun b => b = false))
    (hfn : SemP K fn 0 0 0) (hargs : ∀ a ∈ args, SemP K a.gen 0 (xOf a.ty) 0)
    (hs : StructArgsOK (args.map (·.ty))) :
    SemP K (funcallArm env i isAlloca fn rb args) 0 (xOf i.ty) 0 := by
  unfold funcallArm
  refine (Sem_bind_ret hia hna (fun b hb => ?_)).cast (r := 0 + 0) (x := 0 + xOf i.ty) (d := 0 + 0)
    (by omega) (by omega) (by omega)
  subst hb
  simp only [Bool.false_eq_true, if_false]
  unfold pushArgs
  simp only [M_bind_assoc]
  refine (Sem_bind_ret (Sem_bigRet i rb) (Ret_bigRet i rb) (fun big hbig => ?_)).cast (r := 0 + 0)
    (x := 0 + xOf i.ty) (d := 0 + 0) (by omega) (by omega) (by omega)
  subst hbig
  unfold classifyArgs
  refine Sem_liftE_bind fun fs hfs => ?_
  obtain ⟨flags, stack⟩ := fs
  simp only
  have heqv : Eqv (if bigV i rb = true then 1 else 0) 0 (if bigV i rb = true then 1 else 0) 0 := by
    cases bigV i rb <;> exact ⟨by decide, by decide, by decide, by decide⟩
  obtain ⟨_, hst, hpop⟩ := popArgs_spec (K := K) env args _ 0 _ 0 0 flags stack heqv hs hfs
  have hz : ∀ ab ∈ args.zip flags, SemP K ab.1.gen 0 (xOf ab.1.ty) 0 :=
    fun ab hab => hargs ab.1 (mem_zip_fst (b := ab.2) hab)
  have hp1 := Sem_pushArgs2 (args.zip flags) true hz
  have hp2 := Sem_pushArgs2 (args.zip flags) false hz
  have hrest := fun st => Sem_callRest env i rb args st (selSlots (args.zip flags) false) hfn hpop
  refine Sem_bind0 Sem_getDepth (fun depth => ?_)
  have h1 := hrest (stack + 1)
  have h0 := hrest stack
  have hsub : SemP K (emit (ins2 "sub" (.i 8) rsp)) (-8) 0 0 := Sem_emit rfl
  cases hb : bigV i rb <;> simp only [hb, Bool.false_eq_true, if_false, if_true] at h0 h1 ⊢ <;>
    split <;> simp only [M_bind_assoc, M_pure_bind]
  · exact (Sem_bind hsub fun _ => Sem_bind (Sem_addDepth 1) fun _ => Sem_bind hp1 fun _ =>
      Sem_bind hp2 fun _ => h1).cast (by omega) (by omega) (by omega)
  · exact (Sem_bind hp1 fun _ => Sem_bind hp2 fun _ => h0).cast (by omega) (by omega) (by omega)
  · exact (Sem_bind hsub fun _ => Sem_bind (Sem_addDepth 1) fun _ => Sem_bind hp1 fun _ =>
      Sem_bind hp2 fun _ => Sem_bind (Sem_needVar _ _) fun _ => Sem_bind (Sem_emit (r := 0) (x := 0) rfl) fun _ =>
      Sem_bind Sem_push fun _ => h1).cast (by omega) (by omega) (by omega)
  · exact (Sem_bind hp1 fun _ => Sem_bind hp2 fun _ => Sem_bind (Sem_needVar _ _) fun _ =>
      Sem_bind (Sem_emit (r := 0) (x := 0) rfl) fun _ => Sem_bind Sem_push fun _ => h0).cast
      (by omega) (by omega) (by omega)

end ChibiVerif.Lemmas.C20
