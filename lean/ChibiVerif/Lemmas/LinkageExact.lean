/-
Helper lemmas for C15_symbols_partial: the EXACT list every parser step leaves behind.

`parse.c` only ever pushes new objects at the head of `globals` and mutates (a) the function object named by
`current_fn` / by an identifier (`refs`, `is_root`, `is_definition`, `uses`) and (b) the datum it has just
created (`is_tls`, `uses`).  So after any step the list is

    <the new data objects, explicit> ++ <the old list with one function object updated>

This file proves that decomposition for `recordFnRef`, `useRef`, `initItems`, `bodyItem`, `bodyItems`,
`declFunction`, `declObject`.  The name-based lookups the model uses for the pointer mutations
(`updFirst (sym == s && !isFunction)`) are resolved here once and for all: the labels `.L..k` handed out by
`new_unique_name` are distinct, so the first match is the object just created.
-/
import ChibiVerif.Lemmas.LinkageParse
import ChibiVerif.Spec.LinkageSpec

namespace ChibiVerif.Linkage
open ChibiVerif.Spec.Linkage (initFnRefs bodyFnRefs)

variable [Rules]

/-! ### `updFirst` on explicit lists -/

omit [Rules] in
theorem updFirst_skip {p : Obj → Bool} {u : Obj → Obj} : ∀ {l1 : List Obj} (l2 : List Obj),
    (∀ o, o ∈ l1 → p o = false) → updFirst p u (l1 ++ l2) = l1 ++ updFirst p u l2
  | [], _, _ => rfl
  | a :: as, l2, h => by
    have ha : p a = false := h a List.mem_cons_self
    have ih := updFirst_skip (p := p) (u := u) (l1 := as) l2 (fun o ho => h o (List.mem_cons_of_mem _ ho))
    show updFirst p u (a :: (as ++ l2)) = a :: (as ++ updFirst p u l2)
    rw [updFirst, ha]
    simp only [Bool.false_eq_true, if_false]
    rw [ih]

omit [Rules] in
theorem updFirst_hit {p : Obj → Bool} {u : Obj → Obj} {o : Obj} (l : List Obj) (h : p o = true) :
    updFirst p u (o :: l) = u o :: l := by
  rw [updFirst, h]; rfl

omit [Rules] in
theorem updFirst_miss {p : Obj → Bool} {u : Obj → Obj} {o : Obj} (l : List Obj) (h : p o = false) :
    updFirst p u (o :: l) = o :: updFirst p u l := by
  rw [updFirst, h]; rfl

omit [Rules] in
theorem updFirst_id (p : Obj → Bool) : ∀ l : List Obj, updFirst p (fun o => o) l = l
  | [] => rfl
  | a :: as => by
    unfold updFirst
    split
    · rfl
    · rw [updFirst_id p as]

omit [Rules] in
theorem updFirst_updFirst {p : Obj → Bool} {u1 u2 : Obj → Obj} (hp : ∀ o, p (u1 o) = p o) : ∀ l : List Obj,
    updFirst p u2 (updFirst p u1 l) = updFirst p (fun o => u2 (u1 o)) l
  | [] => rfl
  | a :: as => by
    cases ha : p a
    · rw [updFirst_miss _ ha, updFirst_miss _ ha, updFirst_miss _ ha, updFirst_updFirst hp as]
    · rw [updFirst_hit _ ha, updFirst_hit _ ha, updFirst_hit _ (by rw [hp]; exact ha)]

/-! ### the function-side effect of references -/

def addRefsO (l : List Name) : Obj → Obj := fun o => { o with refs := o.refs ++ l }
def setRootO : Obj → Obj := fun o => { o with isRoot := true }

/-- what the identifiers `l` (function names) do to the list: inside the body of `f` they are appended to
    `f->refs`; at file scope each named function becomes a root -/
def fnEffect (cur : Option Name) (gs : List Obj) (l : List Name) : List Obj :=
  match cur with
  | some f => updFunc gs f (addRefsO l)
  | none => l.foldl (fun gs g => updFunc gs g setRootO) gs

omit [Rules] in
theorem updFunc_cons_data {o : Obj} (h : o.isFunction = false) (gs : List Obj) (f : Name) (u : Obj → Obj) :
    updFunc (o :: gs) f u = o :: updFunc gs f u := by
  unfold updFunc
  rw [updFirst_miss]
  simp [h]

omit [Rules] in
theorem updFunc_data_append {l1 : List Obj} (h : ∀ o, o ∈ l1 → o.isFunction = false) (gs : List Obj) (f : Name)
    (u : Obj → Obj) : updFunc (l1 ++ gs) f u = l1 ++ updFunc gs f u := by
  unfold updFunc
  exact updFirst_skip gs (fun o ho => by simp [h o ho])

omit [Rules] in
theorem fnEffect_cons_data {o : Obj} (h : o.isFunction = false) (cur : Option Name) (gs : List Obj) (l : List Name) :
    fnEffect cur (o :: gs) l = o :: fnEffect cur gs l := by
  cases cur with
  | some f => exact updFunc_cons_data h gs f _
  | none =>
    simp only [fnEffect]
    induction l generalizing gs with
    | nil => rfl
    | cons g rest ih => simp only [List.foldl_cons]; rw [updFunc_cons_data h, ih]

omit [Rules] in
theorem addRefsO_nil : addRefsO [] = fun o => o := by
  funext o; simp [addRefsO]

omit [Rules] in
theorem fnEffect_nil (cur : Option Name) (gs : List Obj) : fnEffect cur gs [] = gs := by
  cases cur with
  | some f => simp only [fnEffect, addRefsO_nil]; exact updFirst_id _ gs
  | none => rfl

omit [Rules] in
theorem fnEffect_cons (cur : Option Name) (gs : List Obj) (g : Name) (l : List Name) :
    fnEffect cur (fnEffect cur gs [g]) l = fnEffect cur gs (g :: l) := by
  cases cur with
  | some f =>
    simp only [fnEffect, updFunc]
    rw [updFirst_updFirst (u1 := addRefsO [g]) (fun _ => rfl)]
    congr 1
    funext o
    simp [addRefsO]
  | none => rfl

/-! ### string literals and initializers -/

/-- the object `new_string_literal` / the `__func__` arrays push -/
def strObj (cur : Option Name) (k n : Nat) : Obj := { sym := .anon k, ty := strTy n, hasInit := true, owner := ownerOf cur }

def symOfRef : Ref → Sym
  | .fn g => .named g
  | .obj x => .named x

/-- the objects an initializer pushes (newest first) when the label counter is `k` -/
def initNews (cur : Option Name) : Nat → List InitItem → List Obj
  | _, [] => []
  | k, .ref _ :: r => initNews cur k r
  | k, .str n :: r => initNews cur (k + 1) r ++ [strObj cur k n]

def initCount : List InitItem → Nat
  | [] => 0
  | .ref _ :: r => initCount r
  | .str _ :: r => initCount r + 1

/-- the labels of its relocations -/
def initLabels : Nat → List InitItem → List Sym
  | _, [] => []
  | k, .ref r :: rest => symOfRef r :: initLabels k rest
  | k, .str _ :: rest => .anon k :: initLabels (k + 1) rest

omit [Rules] in
theorem recordFnRef_exact {cur : Option Name} {st st' : PState} {g : Name} (h : recordFnRef cur st g = .ok st') :
    st' = { st with globals := fnEffect cur st.globals [g] } := by
  unfold recordFnRef at h
  split at h
  · cases h
  · cases cur with
    | some f => cases h; rfl
    | none => cases h; rfl

omit [Rules] in
theorem useRef_exact {cur : Option Name} {st st' : PState} {r : Ref} {s : Sym} (h : useRef cur st r = .ok (st', s)) :
    st' = { st with globals := fnEffect cur st.globals (initFnRefs [.ref r]) } ∧ s = symOfRef r := by
  cases r with
  | fn g =>
    simp only [useRef, bind, Except.bind] at h
    split at h
    · cases h
    · rename_i st1 h1
      simp only [pure, Except.pure, Except.ok.injEq, Prod.mk.injEq] at h
      rw [← h.1, ← h.2]
      exact ⟨recordFnRef_exact h1, rfl⟩
  | obj x =>
    simp only [useRef] at h
    split at h
    · cases h
    · simp only [pure, Except.pure, Except.ok.injEq, Prod.mk.injEq] at h
      rw [← h.1, ← h.2]
      refine ⟨?_, rfl⟩
      show st = { st with globals := fnEffect cur st.globals [] }
      rw [fnEffect_nil]

omit [Rules] in
theorem initFnRefs_cons_ref (r : Ref) (rest : List InitItem) :
    initFnRefs (.ref r :: rest) = initFnRefs [.ref r] ++ initFnRefs rest := by
  cases r <;> simp [initFnRefs]

omit [Rules] in
theorem fnEffect_append (cur : Option Name) (gs : List Obj) (a b : List Name) :
    fnEffect cur (fnEffect cur gs a) b = fnEffect cur gs (a ++ b) := by
  cases cur with
  | some f =>
    simp only [fnEffect, updFunc]
    rw [updFirst_updFirst (u1 := addRefsO a) (fun _ => rfl)]
    congr 1
    funext o
    simp [addRefsO, List.append_assoc]
  | none => simp [fnEffect, List.foldl_append]

theorem initItems_exact {cur : Option Name} : ∀ (items : List InitItem) {st st' : PState} {ss : List Sym},
    initItems cur st items = .ok (st', ss) →
      st'.globals = initNews cur st.nextAnon items ++ fnEffect cur st.globals (initFnRefs items) ∧
      st'.nextAnon = st.nextAnon + initCount items ∧ ss = initLabels st.nextAnon items := by
  intro items
  induction items with
  | nil =>
    intro st st' ss h
    simp only [initItems, pure, Except.pure, Except.ok.injEq, Prod.mk.injEq] at h
    rw [← h.1, ← h.2]
    exact ⟨by simp [initNews, initFnRefs, fnEffect_nil], rfl, rfl⟩
  | cons it rest ih =>
    intro st st' ss h
    cases it with
    | ref r =>
      simp only [initItems, bind, Except.bind] at h
      split at h
      · cases h
      · rename_i p1 h1
        split at h
        · cases h
        · rename_i p2 h2
          simp only [pure, Except.pure, Except.ok.injEq, Prod.mk.injEq] at h
          obtain ⟨e1, es⟩ := useRef_exact (st' := p1.1) (s := p1.2) (by simpa using h1)
          obtain ⟨g2, n2, l2⟩ := ih (st := p1.1) (st' := p2.1) (ss := p2.2) (by simpa using h2)
          rw [← h.1, ← h.2, g2, n2, l2, es, e1]
          refine ⟨?_, rfl, rfl⟩
          simp only [initNews]
          rw [fnEffect_append, ← initFnRefs_cons_ref]
    | str n =>
      simp only [initItems, bind, Except.bind] at h
      split at h
      · cases h
      · rename_i p2 h2
        simp only [pure, Except.pure, Except.ok.injEq, Prod.mk.injEq] at h
        obtain ⟨g2, n2, l2⟩ := ih (st := (newAnon cur st (strTy n) true).1) (st' := p2.1) (ss := p2.2) (by simpa using h2)
        rw [← h.1, ← h.2, g2, n2, l2]
        refine ⟨?_, ?_, rfl⟩
        · show initNews cur (st.nextAnon + 1) rest ++ fnEffect cur (strObj cur st.nextAnon n :: st.globals) (initFnRefs rest) = _
          rw [fnEffect_cons_data rfl]
          simp [initNews, initFnRefs]
        · show st.nextAnon + 1 + initCount rest = st.nextAnon + (initCount rest + 1)
          omega

/-- every object an initializer pushes is a datum with a fresh label -/
theorem initNews_spec {cur : Option Name} : ∀ (items : List InitItem) (k : Nat) (o : Obj), o ∈ initNews cur k items →
    o.isFunction = false ∧ ∃ j n, k ≤ j ∧ o = strObj cur j n
  | [], _, _, h => by simp [initNews] at h
  | .ref _ :: r, k, o, h => initNews_spec r k o h
  | .str n :: r, k, o, h => by
    simp only [initNews, List.mem_append, List.mem_singleton] at h
    rcases h with h | h
    · obtain ⟨hf, j, m, hj, ho⟩ := initNews_spec r (k + 1) o h
      exact ⟨hf, j, m, by omega, ho⟩
    · subst h
      exact ⟨rfl, k, n, Nat.le_refl _, rfl⟩

/-! ### the static-ness of the visible prior declaration (`prevStatic`) on explicit lists -/

/-- the environment `global_variable` (repaired) reads: for each identifier, `is_static` of the object `find_var` finds -/
abbrev SEnv := Name → Bool

def envSet (env : SEnv) (x : Name) (b : Bool) : SEnv := fun y => if y = x then b else env y

omit [Rules] in
theorem findObj_cons_anon {o : Obj} {k : Nat} (h : o.sym = .anon k) (gs : List Obj) (x : Name) :
    findObj (o :: gs) x = findObj gs x := by
  have : (Sym.anon k == Sym.named x) = false := by simp
  simp [findObj, List.find?, h, this]

omit [Rules] in
theorem findObj_cons_fn {o : Obj} (h : o.isFunction = true) (gs : List Obj) (x : Name) :
    findObj (o :: gs) x = findObj gs x := by
  simp [findObj, List.find?, h]

omit [Rules] in
theorem findObj_append_anon {l : List Obj} (h : ∀ o, o ∈ l → ∃ k, o.sym = .anon k) (gs : List Obj) (x : Name) :
    findObj (l ++ gs) x = findObj gs x := by
  induction l with
  | nil => rfl
  | cons a as ih =>
    obtain ⟨k, hk⟩ := h a List.mem_cons_self
    rw [List.cons_append, findObj_cons_anon hk, ih (fun o ho => h o (List.mem_cons_of_mem _ ho))]

omit [Rules] in
theorem findObj_updFunc {u : Obj → Obj} (hu : KeepsId u) : ∀ (gs : List Obj) (f x : Name),
    findObj (updFunc gs f u) x = findObj gs x
  | [], _, _ => rfl
  | a :: as, f, x => by
    unfold updFunc
    cases hp : (a.isFunction && a.sym == Sym.named f)
    · rw [updFirst_miss _ hp]
      have ih := findObj_updFunc hu as f x
      unfold updFunc at ih
      simp only [findObj, List.find?] at ih ⊢
      rw [ih]
    · rw [updFirst_hit _ hp]
      simp only [Bool.and_eq_true] at hp
      rw [findObj_cons_fn (by rw [(hu a).1]; exact hp.1), findObj_cons_fn hp.1]

omit [Rules] in
theorem prevStatic_congr {gs gs' : List Obj} (h : ∀ x, findObj gs x = findObj gs' x) : prevStatic gs = prevStatic gs' := by
  funext x; simp [prevStatic, h x]

omit [Rules] in
theorem prevStatic_updFunc {u : Obj → Obj} (hu : KeepsId u) (gs : List Obj) (f : Name) :
    prevStatic (updFunc gs f u) = prevStatic gs :=
  prevStatic_congr (fun x => findObj_updFunc hu gs f x)

omit [Rules] in
theorem prevStatic_append_anon {l : List Obj} (h : ∀ o, o ∈ l → ∃ k, o.sym = .anon k) (gs : List Obj) :
    prevStatic (l ++ gs) = prevStatic gs :=
  prevStatic_congr (fun x => findObj_append_anon h gs x)

omit [Rules] in
theorem prevStatic_cons_named {o : Obj} {x : Name} (hf : o.isFunction = false) (hs : o.sym = .named x) (gs : List Obj) :
    prevStatic (o :: gs) = envSet (prevStatic gs) x o.isStatic := by
  funext y
  by_cases hy : y = x
  · subst hy
    simp [prevStatic, findObj, List.find?, hf, hs, envSet]
  · have : (Sym.named x == Sym.named y) = false := by
      simp only [beq_eq_false_iff_ne, ne_eq, Sym.named.injEq]; exact fun e => hy e.symm
    simp [prevStatic, findObj, List.find?, hf, hs, envSet, hy, this]

omit [Rules] in
theorem prevStatic_fnEffect (cur : Option Name) (gs : List Obj) (l : List Name) : prevStatic (fnEffect cur gs l) = prevStatic gs := by
  cases cur with
  | some f => exact prevStatic_updFunc (u := addRefsO l) (fun _ => ⟨rfl, rfl⟩) gs f
  | none =>
    simp only [fnEffect]
    induction l generalizing gs with
    | nil => rfl
    | cons g rest ih => simp only [List.foldl_cons]; rw [ih, prevStatic_updFunc (u := setRootO) (fun _ => ⟨rfl, rfl⟩)]

theorem initNews_anon {cur : Option Name} (items : List InitItem) (k : Nat) : ∀ o, o ∈ initNews cur k items → ∃ j, o.sym = .anon j := by
  intro o ho
  obtain ⟨_, j, n, _, rfl⟩ := initNews_spec items k o ho
  exact ⟨j, rfl⟩

/-! ### function bodies -/

/-- the object `declaration` makes of `static [_Thread_local] T v [= init];` in the body of `f` when the label counter is `k` -/
def slObj (f : Name) (k : Nat) (tls : Bool) (ty : ObjTy) (init : Option (List InitItem)) : Obj :=
  { sym := .anon k, ty := ty, hasInit := init.isSome, isTls := tls,
    uses := (match init with | none => [] | some items => initLabels (k + 1) items), owner := ownerOf (some f) }

/-- the object of a block-scope `extern` declaration; `stc` = what it inherits from the visible prior declaration -/
def externO (x : Name) (tls : Bool) (ty : ObjTy) (stc : Bool) : Obj :=
  { sym := .named x, isDefinition := false, isStatic := stc, isTls := tls, ty := ty }

/-- `is_static` of a block-scope `extern` declaration of `x` -/
def extStatic (env : SEnv) (x : Name) : Bool := Rules.externInherits && env x

def bodyItemNews (f : Name) (env : SEnv) (k : Nat) : BodyItem → List Obj
  | .ref _ => []
  | .staticLocal tls ty none => [slObj f k tls ty none]
  | .staticLocal tls ty (some items) => initNews (some f) (k + 1) items ++ [slObj f k tls ty (some items)]
  | .str n => [strObj (some f) k n]
  | .externObj x tls ty => [externO x tls ty (extStatic env x)]

/-- what a body item does to the environment of visible declarations -/
def envItem (env : SEnv) : BodyItem → SEnv
  | .externObj x _ _ => envSet env x (extStatic env x)
  | _ => env

def bodyItemCount : BodyItem → Nat
  | .ref _ => 0
  | .staticLocal _ _ none => 1
  | .staticLocal _ _ (some items) => 1 + initCount items
  | .str _ => 1
  | .externObj _ _ _ => 0

def bodyItemLabels (k : Nat) : BodyItem → List Sym
  | .ref r => [symOfRef r]
  | .staticLocal _ _ _ => [.anon k]
  | .str _ => [.anon k]
  | .externObj _ _ _ => []

theorem strObj_sym_ne {cur : Option Name} {j n k : Nat} (h : k < j) :
    ((strObj cur j n).sym == Sym.anon k && !(strObj cur j n).isFunction) = false := by
  have : (Sym.anon j == Sym.anon k) = false := by
    simp only [beq_eq_false_iff_ne, ne_eq, Sym.anon.injEq]; omega
  simp [strObj, this]

theorem bodyItem_exact {f : Name} {st st' : PState} {b : BodyItem} {us : List Sym}
    (h : bodyItem f st b = .ok (st', us)) :
    st'.globals = bodyItemNews f (prevStatic st.globals) st.nextAnon b ++ updFunc st.globals f (addRefsO (bodyFnRefs [b])) ∧
    st'.nextAnon = st.nextAnon + bodyItemCount b ∧ us = bodyItemLabels st.nextAnon b := by
  cases b with
  | ref r =>
    simp only [bodyItem, bind, Except.bind] at h
    split at h
    · cases h
    · rename_i p1 h1
      simp only [pure, Except.pure, Except.ok.injEq, Prod.mk.injEq] at h
      obtain ⟨e1, es⟩ := useRef_exact (st' := p1.1) (s := p1.2) (by simpa using h1)
      rw [← h.1, ← h.2, es, e1]
      refine ⟨?_, rfl, rfl⟩
      cases r <;> simp [bodyItemNews, fnEffect, initFnRefs, bodyFnRefs]
  | staticLocal tls ty init =>
    cases init with
    | none =>
      simp only [bodyItem, pure, Except.pure, Except.ok.injEq, Prod.mk.injEq] at h
      rw [← h.1, ← h.2]
      refine ⟨?_, rfl, rfl⟩
      simp only [newAnon]
      rw [updFirst_hit _ (by simp)]
      have : updFunc st.globals f (addRefsO (bodyFnRefs [BodyItem.staticLocal tls ty none])) = st.globals := by
        simp only [bodyFnRefs, List.flatMap_cons, List.flatMap_nil, List.append_nil, addRefsO_nil]
        exact updFirst_id _ _
      rw [this]
      rfl
    | some items =>
      simp only [bodyItem, bind, Except.bind] at h
      split at h
      · cases h
      · rename_i p1 h1
        simp only [pure, Except.pure, Except.ok.injEq, Prod.mk.injEq] at h
        obtain ⟨g1, n1, l1⟩ := initItems_exact items (st' := p1.1) (ss := p1.2) (by simpa using h1)
        rw [← h.1, ← h.2]
        dsimp only at g1 n1 l1 ⊢
        refine ⟨?_, ?_, rfl⟩
        · rw [g1]
          simp only [newAnon]
          rw [updFirst_hit _ (by simp)]
          simp only [fnEffect]
          rw [updFunc_cons_data rfl]
          unfold setUses
          rw [updFirst_skip _ (fun o ho => by
            obtain ⟨_, j, m, hj, rfl⟩ := initNews_spec items _ o ho
            exact strObj_sym_ne (by omega))]
          rw [updFirst_hit _ (by simp)]
          rw [l1]
          simp [bodyItemNews, slObj, bodyFnRefs, newAnon]
        · rw [n1]; simp [newAnon, bodyItemCount]; omega
  | str n =>
    simp only [bodyItem, pure, Except.pure, Except.ok.injEq, Prod.mk.injEq] at h
    rw [← h.1, ← h.2]
    refine ⟨?_, rfl, rfl⟩
    have : updFunc st.globals f (addRefsO (bodyFnRefs [BodyItem.str n])) = st.globals := by
      simp only [bodyFnRefs, List.flatMap_cons, List.flatMap_nil, List.append_nil, addRefsO_nil]
      exact updFirst_id _ _
    rw [this]
    rfl
  | externObj x tls ty =>
    simp only [bodyItem, pure, Except.pure, Except.ok.injEq, Prod.mk.injEq] at h
    rw [← h.1, ← h.2]
    refine ⟨?_, rfl, rfl⟩
    have : updFunc st.globals f (addRefsO (bodyFnRefs [BodyItem.externObj x tls ty])) = st.globals := by
      simp only [bodyFnRefs, List.flatMap_cons, List.flatMap_nil, List.append_nil, addRefsO_nil]
      exact updFirst_id _ _
    rw [this]
    rfl

theorem bodyItemNews_data (f : Name) (env : SEnv) (k : Nat) (b : BodyItem) : ∀ o, o ∈ bodyItemNews f env k b → o.isFunction = false := by
  intro o ho
  cases b with
  | ref r => simp [bodyItemNews] at ho
  | staticLocal tls ty init =>
    cases init with
    | none => simp only [bodyItemNews, List.mem_singleton] at ho; subst ho; rfl
    | some items =>
      simp only [bodyItemNews, List.mem_append, List.mem_singleton] at ho
      rcases ho with ho | ho
      · exact (initNews_spec items _ o ho).1
      · subst ho; rfl
  | str n => simp only [bodyItemNews, List.mem_singleton] at ho; subst ho; rfl
  | externObj x tls ty => simp only [bodyItemNews, List.mem_singleton] at ho; subst ho; rfl

/-- the environment after one body item -/
theorem prevStatic_bodyItemNews (f : Name) (gs : List Obj) (k : Nat) (b : BodyItem) :
    prevStatic (bodyItemNews f (prevStatic gs) k b ++ gs) = envItem (prevStatic gs) b := by
  cases b with
  | ref r => rfl
  | staticLocal tls ty init =>
    cases init with
    | none => exact prevStatic_append_anon (fun o ho => by
        simp only [bodyItemNews, List.mem_singleton] at ho; subst ho; exact ⟨k, rfl⟩) gs
    | some items => exact prevStatic_append_anon (fun o ho => by
        simp only [bodyItemNews, List.mem_append, List.mem_singleton] at ho
        rcases ho with ho | ho
        · exact initNews_anon items _ o ho
        · subst ho; exact ⟨k, rfl⟩) gs
  | str n => exact prevStatic_append_anon (fun o ho => by
      simp only [bodyItemNews, List.mem_singleton] at ho; subst ho; exact ⟨k, rfl⟩) gs
  | externObj x tls ty =>
    show prevStatic (externO x tls ty (extStatic (prevStatic gs) x) :: gs) = _
    rw [prevStatic_cons_named rfl rfl]
    rfl

def bodyNews (f : Name) : SEnv → Nat → List BodyItem → List Obj
  | _, _, [] => []
  | env, k, b :: rest => bodyNews f (envItem env b) (k + bodyItemCount b) rest ++ bodyItemNews f env k b

def envBody : SEnv → List BodyItem → SEnv
  | env, [] => env
  | env, b :: rest => envBody (envItem env b) rest

def bodyCount : List BodyItem → Nat
  | [] => 0
  | b :: rest => bodyItemCount b + bodyCount rest

def bodyLabels : Nat → List BodyItem → List Sym
  | _, [] => []
  | k, b :: rest => bodyItemLabels k b ++ bodyLabels (k + bodyItemCount b) rest

theorem bodyItems_exact {f : Name} : ∀ (items : List BodyItem) {st st' : PState} {us : List Sym},
    bodyItems f st items = .ok (st', us) →
      st'.globals = bodyNews f (prevStatic st.globals) st.nextAnon items ++ updFunc st.globals f (addRefsO (bodyFnRefs items)) ∧
      st'.nextAnon = st.nextAnon + bodyCount items ∧ us = bodyLabels st.nextAnon items ∧
      prevStatic st'.globals = envBody (prevStatic st.globals) items := by
  intro items
  induction items with
  | nil =>
    intro st st' us h
    simp only [bodyItems, pure, Except.pure, Except.ok.injEq, Prod.mk.injEq] at h
    rw [← h.1, ← h.2]
    refine ⟨?_, rfl, rfl, rfl⟩
    simp only [bodyNews, bodyFnRefs, List.flatMap_nil, addRefsO_nil, List.nil_append]
    exact (updFirst_id _ _).symm
  | cons b rest ih =>
    intro st st' us h
    simp only [bodyItems, bind, Except.bind] at h
    split at h
    · cases h
    · rename_i p1 h1
      split at h
      · cases h
      · rename_i p2 h2
        simp only [pure, Except.pure, Except.ok.injEq, Prod.mk.injEq] at h
        obtain ⟨g1, n1, l1⟩ := bodyItem_exact (st' := p1.1) (us := p1.2) (by simpa using h1)
        obtain ⟨g2, n2, l2, e2⟩ := ih (st := p1.1) (st' := p2.1) (us := p2.2) (by simpa using h2)
        have henv : prevStatic p1.1.globals = envItem (prevStatic st.globals) b := by
          rw [g1]
          have := prevStatic_bodyItemNews f (updFunc st.globals f (addRefsO (bodyFnRefs [b]))) st.nextAnon b
          rw [prevStatic_updFunc (u := addRefsO (bodyFnRefs [b])) (fun _ => ⟨rfl, rfl⟩)] at this
          exact this
        rw [← h.1, ← h.2]
        refine ⟨?_, ?_, ?_, ?_⟩
        rotate_left
        · rw [n2, n1]; simp only [bodyCount]; omega
        · rw [l2, l1, n1]; rfl
        · rw [e2, henv]; rfl
        · rw [g2, henv, n1, g1]
          rw [updFunc_data_append (bodyItemNews_data _ _ _ _)]
          simp only [updFunc]
          rw [updFirst_updFirst (u1 := addRefsO (bodyFnRefs [b])) (fun _ => rfl)]
          simp only [bodyNews, List.append_assoc]
          congr 3
          funext o
          simp [addRefsO, bodyFnRefs, List.append_assoc]

theorem bodyNews_data (f : Name) : ∀ (items : List BodyItem) (env : SEnv) (k : Nat) (o : Obj),
    o ∈ bodyNews f env k items → o.isFunction = false
  | [], _, _, _, h => by simp [bodyNews] at h
  | b :: rest, env, k, o, h => by
    simp only [bodyNews, List.mem_append] at h
    rcases h with h | h
    · exact bodyNews_data f rest _ _ o h
    · exact bodyItemNews_data f env k b o h

/-! ### file-scope declarations -/

/-- the object `global_variable` creates for `[static] [extern] [_Thread_local] T x [= init];`
    (`isStatic` = the value it stores in `var->is_static`) -/
def varObj (k : Nat) (x : Name) (isStatic isExtern isTls : Bool) (ty : ObjTy) (init : Option (List InitItem)) : Obj :=
  match init with
  | none => { sym := .named x, isDefinition := !isExtern, isStatic := isStatic, isTls := isTls, ty := ty,
              isTentative := !isExtern }
  | some items => { sym := .named x, isDefinition := true, isStatic := isStatic, isTls := isTls, ty := ty,
                    hasInit := true, uses := initLabels k items }

/-- `var->is_static` of a file-scope object declaration (repaired: an `extern` declaration inherits) -/
def varStatic (env : SEnv) (x : Name) (s e : Bool) : Bool := s || (Rules.externInherits && e && env x)

/-- the data objects one file-scope declaration pushes (newest first) when the label counter is `k` and the visible
    declarations are `env` -/
def declNews (k : Nat) (env : SEnv) : Decl → List Obj
  | .func _ _ _ _ _ none => []
  | .func f n _ _ _ (some b) => bodyNews f env (k + 2) b ++ [strObj (some f) (k + 1) (n + 1), strObj (some f) k (n + 1)]
  | .obj x s e t ty none => [varObj k x (varStatic env x s e) e t ty none]
  | .obj x s e t ty (some items) => initNews none k items ++ [varObj k x (varStatic env x s e) e t ty (some items)]

/-- what a file-scope declaration does to the environment -/
def envDecl (env : SEnv) : Decl → SEnv
  | .func _ _ _ _ _ none => env
  | .func _ _ _ _ _ (some b) => envBody env b
  | .obj x s e _ _ _ => envSet env x (varStatic env x s e)

def declCount : Decl → Nat
  | .func _ _ _ _ _ none => 0
  | .func _ _ _ _ _ (some b) => 2 + bodyCount b
  | .obj _ _ _ _ _ none => 0
  | .obj _ _ _ _ _ (some items) => initCount items

theorem declNews_data (k : Nat) (env : SEnv) (d : Decl) : ∀ o, o ∈ declNews k env d → o.isFunction = false := by
  intro o ho
  cases d with
  | func f n s e i body =>
    cases body with
    | none => simp [declNews] at ho
    | some b =>
      simp only [declNews, List.mem_append, List.mem_cons, List.not_mem_nil, or_false] at ho
      rcases ho with ho | ho | ho
      · exact bodyNews_data f b _ _ o ho
      · subst ho; rfl
      · subst ho; rfl
  | obj x s e t ty init =>
    cases init with
    | none => simp only [declNews, List.mem_singleton] at ho; subst ho; rfl
    | some items =>
      simp only [declNews, List.mem_append, List.mem_singleton] at ho
      rcases ho with ho | ho
      · exact (initNews_spec items _ o ho).1
      · subst ho; rfl

/-- the non-function objects of a list, in order -/
def dataOf (gs : List Obj) : List Obj := gs.filter (fun o => !o.isFunction)

omit [Rules] in
theorem dataOf_append (a b : List Obj) : dataOf (a ++ b) = dataOf a ++ dataOf b := by
  simp [dataOf]

omit [Rules] in
theorem dataOf_of_data {l : List Obj} (h : ∀ o, o ∈ l → o.isFunction = false) : dataOf l = l := by
  unfold dataOf
  rw [List.filter_eq_self]
  intro o ho
  simp [h o ho]

omit [Rules] in
theorem dataOf_updFunc {u : Obj → Obj} (hu : KeepsId u) : ∀ (gs : List Obj) (f : Name), dataOf (updFunc gs f u) = dataOf gs
  | [], _ => rfl
  | a :: as, f => by
    unfold updFunc
    cases hp : (a.isFunction && a.sym == Sym.named f)
    · rw [updFirst_miss _ hp]
      have ih := dataOf_updFunc hu as f
      unfold updFunc at ih
      simp only [dataOf, List.filter_cons] at ih ⊢
      rw [ih]
    · rw [updFirst_hit _ hp]
      simp only [Bool.and_eq_true] at hp
      simp [dataOf, (hu a).1, hp.1]

omit [Rules] in
theorem dataOf_cons_fn {o : Obj} (h : o.isFunction = true) (gs : List Obj) : dataOf (o :: gs) = dataOf gs := by
  simp [dataOf, h]

omit [Rules] in
theorem dataOf_fnEffect (cur : Option Name) (gs : List Obj) (l : List Name) : dataOf (fnEffect cur gs l) = dataOf gs := by
  cases cur with
  | some f => exact dataOf_updFunc (u := addRefsO l) (fun _ => ⟨rfl, rfl⟩) gs f
  | none =>
    simp only [fnEffect]
    induction l generalizing gs with
    | nil => rfl
    | cons g rest ih => simp only [List.foldl_cons]; rw [ih, dataOf_updFunc (u := setRootO) (fun _ => ⟨rfl, rfl⟩)]

theorem keepsId_rootIf : KeepsId rootIfO := by
  intro o
  unfold rootIfO
  split
  · exact ⟨rfl, rfl⟩
  · split <;> exact ⟨rfl, rfl⟩

theorem keepsId_redeclFlags (e i : Bool) : KeepsId (redeclFlags e i) := by
  intro o
  unfold redeclFlags
  split
  · dsimp only
    split <;> split <;> exact ⟨rfl, rfl⟩
  · exact ⟨rfl, rfl⟩

theorem dataOf_declFunctionHead {st st' : PState} {f : Name} {s e i b : Bool}
    (h : declFunctionHead st f s e i b = .ok st') :
    dataOf st'.globals = dataOf st.globals ∧ st'.nextAnon = st.nextAnon ∧ prevStatic st'.globals = prevStatic st.globals := by
  unfold declFunctionHead at h
  split at h
  · split at h
    · cases h
    · split at h
      · cases h
      · cases h
        dsimp only
        rw [dataOf_updFunc keepsId_rootIf, dataOf_updFunc (u := fun o => { o with isDefinition := o.isDefinition || b }) (fun _ => ⟨rfl, rfl⟩),
          dataOf_updFunc (keepsId_redeclFlags _ _), prevStatic_updFunc keepsId_rootIf,
          prevStatic_updFunc (u := fun o => { o with isDefinition := o.isDefinition || b }) (fun _ => ⟨rfl, rfl⟩),
          prevStatic_updFunc (keepsId_redeclFlags _ _)]
        exact ⟨rfl, rfl, rfl⟩
  · cases h
    dsimp only
    rw [dataOf_updFunc keepsId_rootIf, dataOf_cons_fn rfl, prevStatic_updFunc keepsId_rootIf]
    exact ⟨rfl, rfl, prevStatic_congr (fun x => findObj_cons_fn rfl _ x)⟩

/-- **the data objects after one declaration**: the new ones in front of the old ones -/
theorem dataOf_declStep {st st' : PState} {d : Decl} (h : declStep st d = .ok st') :
    dataOf st'.globals = declNews st.nextAnon (prevStatic st.globals) d ++ dataOf st.globals ∧
    st'.nextAnon = st.nextAnon + declCount d ∧ prevStatic st'.globals = envDecl (prevStatic st.globals) d := by
  cases d with
  | func f n s e i body =>
    simp only [declStep, declFunction] at h
    split at h
    · cases h
    · rename_i st1 h1
      obtain ⟨d1, n1, e1⟩ := dataOf_declFunctionHead h1
      cases body with
      | none =>
        cases h
        exact ⟨by simp [declNews, d1], by simp [declCount, n1], by simp [envDecl, e1]⟩
      | some items =>
        simp only at h
        split at h
        · cases h
        · rename_i st2 uses hp
          cases h
          obtain ⟨g2, n2, _, e2⟩ := bodyItems_exact items hp
          dsimp only
          have hanon2 : prevStatic (newAnon (some f) (newAnon (some f) st1 (strTy (n + 1)) true).1 (strTy (n + 1)) true).1.globals =
              prevStatic st1.globals := by
            simp only [newAnon]
            exact prevStatic_congr (fun x => by rw [findObj_cons_anon rfl, findObj_cons_anon rfl])
          refine ⟨?_, ?_, ?_⟩
          · rw [dataOf_updFunc (u := fun o => { o with uses := uses }) (fun _ => ⟨rfl, rfl⟩), g2, hanon2, e1]
            simp only [newAnon] at *
            rw [updFunc_cons_data rfl, updFunc_cons_data rfl, dataOf_append, dataOf_of_data (bodyNews_data _ _ _ _)]
            simp only [dataOf, List.filter_cons]
            simp only [Bool.not_false, if_true]
            have := dataOf_updFunc (u := addRefsO (bodyFnRefs items)) (fun _ => ⟨rfl, rfl⟩) st1.globals f
            simp only [dataOf] at this d1
            rw [this, d1, n1]
            simp [declNews, strObj]
          · rw [n2]; simp only [newAnon, declCount]; rw [n1]; omega
          · rw [prevStatic_updFunc (u := fun o => { o with uses := uses }) (fun _ => ⟨rfl, rfl⟩), e2, hanon2, e1]
            rfl
  | obj x s e t ty init =>
    simp only [declStep, declObject] at h
    cases init with
    | none =>
      simp only [pure, Except.pure, Except.ok.injEq] at h
      rw [← h]
      refine ⟨by simp [dataOf, declNews, varObj, varStatic], by simp [declCount], ?_⟩
      dsimp only
      rw [prevStatic_cons_named rfl rfl]
      rfl
    | some items =>
      simp only [bind, Except.bind] at h
      split at h
      · cases h
      · rename_i p hp
        simp only [pure, Except.pure, Except.ok.injEq] at h
        obtain ⟨g1, n1, l1⟩ := initItems_exact items (st' := p.1) (ss := p.2) (by simpa using hp)
        rw [← h]
        dsimp only at g1 n1 l1 ⊢
        rw [g1, fnEffect_cons_data rfl]
        rw [updFirst_skip _ (fun o ho => by
          obtain ⟨_, j, m, _, rfl⟩ := initNews_spec items _ o ho
          simp [strObj])]
        rw [updFirst_hit _ (by simp)]
        refine ⟨?_, by rw [n1]; simp [declCount], ?_⟩
        · rw [dataOf_append, dataOf_of_data (fun o ho => (initNews_spec items _ o ho).1)]
          simp only [dataOf, List.filter_cons, Bool.not_false, if_true]
          have := dataOf_fnEffect none st.globals (initFnRefs items)
          simp only [dataOf] at this
          rw [this, l1]
          simp [declNews, varObj, varStatic]
        · rw [prevStatic_append_anon (initNews_anon items _), prevStatic_cons_named rfl rfl, prevStatic_fnEffect]
          rfl

/-- all data objects `ds` pushes, newest first, when the label counter starts at `k` and the visible declarations are `env` -/
def allNews : Nat → SEnv → List Decl → List Obj
  | _, _, [] => []
  | k, env, d :: ds => allNews (k + declCount d) (envDecl env d) ds ++ declNews k env d

theorem dataOf_declAll : ∀ (ds : List Decl) {st st' : PState}, declAll st ds = .ok st' →
    dataOf st'.globals = allNews st.nextAnon (prevStatic st.globals) ds ++ dataOf st.globals := by
  intro ds
  induction ds with
  | nil =>
    intro st st' h
    simp only [declAll, pure, Except.pure, Except.ok.injEq] at h
    rw [← h]; rfl
  | cons d rest ih =>
    intro st st' h
    simp only [declAll, bind, Except.bind] at h
    split at h
    · cases h
    · rename_i st1 h1
      obtain ⟨d1, n1, e1⟩ := dataOf_declStep h1
      rw [ih h, d1, n1, e1]
      simp [allNews, List.append_assoc]

/-- nothing is visible when `parse` starts -/
def env0 : SEnv := fun _ => false

/-- the data objects `parse` has created when it reaches the root loop -/
theorem dataOf_parse {ds : List Decl} {st : PState} (h : declAll {} ds = .ok st) : dataOf st.globals = allNews 0 env0 ds := by
  have := dataOf_declAll ds h
  have h0 : prevStatic ([] : List Obj) = env0 := rfl
  simpa [dataOf, h0] using this

end ChibiVerif.Linkage
