/-
Helper lemmas for C15_symbols_partial: the EXACT list every parser step leaves behind.

`parse.c` only ever pushes new objects at the head of `globals` and mutates (a) the function object named by
`current_fn` / by an identifier (`refs`, `is_root`, `is_definition`, `uses`) and (b) the datum it has just
created (`is_tls`, `uses`).  So after any step the list is

    <the new data objects, explicit> ++ <the old list with one function object updated>

This file proves that decomposition for `recordFnRef`, `useRef`, `initItems`, `bodyItem`, `bodyItems`,
`declFunction`, `declObject`.  The name-based lookups the model uses for the pointer mutations
(`updFirst (sym == s && !isFunction)`) are resolved here once and for all: the labels `.L..k` handed out by
`new_unique_name` are distinct, so the first match is the object just created.
-/
import ChibiVerif.Lemmas.LinkageParse
import ChibiVerif.Spec.LinkageSpec

namespace ChibiVerif.Linkage
open ChibiVerif.Spec.Linkage (initFnRefs bodyFnRefs)

/-! ### `updFirst` on explicit lists -/

theorem updFirst_skip {p : Obj → Bool} {u : Obj → Obj} : ∀ {l1 : List Obj} (l2 : List Obj),
    (∀ o, o ∈ l1 → p o = false) → updFirst p u (l1 ++ l2) = l1 ++ updFirst p u l2
  | [], _, _ => rfl
  | a :: as, l2, h => by
    have ha : p a = false := h a List.mem_cons_self
    have ih := updFirst_skip (p := p) (u := u) (l1 := as) l2 (fun o ho => h o (List.mem_cons_of_mem _ ho))
    show updFirst p u (a :: (as ++ l2)) = a :: (as ++ updFirst p u l2)
    rw [updFirst, ha]
    simp only [Bool.false_eq_true, if_false]
    rw [ih]

theorem updFirst_hit {p : Obj → Bool} {u : Obj → Obj} {o : Obj} (l : List Obj) (h : p o = true) :
    updFirst p u (o :: l) = u o :: l := by
  rw [updFirst, h]; rfl

theorem updFirst_miss {p : Obj → Bool} {u : Obj → Obj} {o : Obj} (l : List Obj) (h : p o = false) :
    updFirst p u (o :: l) = o :: updFirst p u l := by
  rw [updFirst, h]; rfl

theorem updFirst_id (p : Obj → Bool) : ∀ l : List Obj, updFirst p (fun o => o) l = l
  | [] => rfl
  | a :: as => by
    unfold updFirst
    split
    · rfl
    · rw [updFirst_id p as]

theorem updFirst_updFirst {p : Obj → Bool} {u1 u2 : Obj → Obj} (hp : ∀ o, p (u1 o) = p o) : ∀ l : List Obj,
    updFirst p u2 (updFirst p u1 l) = updFirst p (fun o => u2 (u1 o)) l
  | [] => rfl
  | a :: as => by
    cases ha : p a
    · rw [updFirst_miss _ ha, updFirst_miss _ ha, updFirst_miss _ ha, updFirst_updFirst hp as]
    · rw [updFirst_hit _ ha, updFirst_hit _ ha, updFirst_hit _ (by rw [hp]; exact ha)]

/-! ### the function-side effect of references -/

def addRefsO (l : List Name) : Obj → Obj := fun o => { o with refs := o.refs ++ l }
def setRootO : Obj → Obj := fun o => { o with isRoot := true }

/-- what the identifiers `l` (function names) do to the list: inside the body of `f` they are appended to
    `f->refs`; at file scope each named function becomes a root -/
def fnEffect (cur : Option Name) (gs : List Obj) (l : List Name) : List Obj :=
  match cur with
  | some f => updFunc gs f (addRefsO l)
  | none => l.foldl (fun gs g => updFunc gs g setRootO) gs

theorem updFunc_cons_data {o : Obj} (h : o.isFunction = false) (gs : List Obj) (f : Name) (u : Obj → Obj) :
    updFunc (o :: gs) f u = o :: updFunc gs f u := by
  unfold updFunc
  rw [updFirst_miss]
  simp [h]

theorem updFunc_data_append {l1 : List Obj} (h : ∀ o, o ∈ l1 → o.isFunction = false) (gs : List Obj) (f : Name)
    (u : Obj → Obj) : updFunc (l1 ++ gs) f u = l1 ++ updFunc gs f u := by
  unfold updFunc
  exact updFirst_skip gs (fun o ho => by simp [h o ho])

theorem fnEffect_cons_data {o : Obj} (h : o.isFunction = false) (cur : Option Name) (gs : List Obj) (l : List Name) :
    fnEffect cur (o :: gs) l = o :: fnEffect cur gs l := by
  cases cur with
  | some f => exact updFunc_cons_data h gs f _
  | none =>
    simp only [fnEffect]
    induction l generalizing gs with
    | nil => rfl
    | cons g rest ih => simp only [List.foldl_cons]; rw [updFunc_cons_data h, ih]

theorem addRefsO_nil : addRefsO [] = fun o => o := by
  funext o; simp [addRefsO]

theorem fnEffect_nil (cur : Option Name) (gs : List Obj) : fnEffect cur gs [] = gs := by
  cases cur with
  | some f => simp only [fnEffect, addRefsO_nil]; exact updFirst_id _ gs
  | none => rfl

theorem fnEffect_cons (cur : Option Name) (gs : List Obj) (g : Name) (l : List Name) :
    fnEffect cur (fnEffect cur gs [g]) l = fnEffect cur gs (g :: l) := by
  cases cur with
  | some f =>
    simp only [fnEffect, updFunc]
    rw [updFirst_updFirst (u1 := addRefsO [g]) (fun _ => rfl)]
    congr 1
    funext o
    simp [addRefsO]
  | none => rfl

/-! ### string literals and initializers -/

/-- the object `new_string_literal` / the `__func__` arrays push -/
def strObj (k n : Nat) : Obj := { sym := .anon k, ty := strTy n, hasInit := true }

def symOfRef : Ref → Sym
  | .fn g => .named g
  | .obj x => .named x

/-- the objects an initializer pushes (newest first) when the label counter is `k` -/
def initNews : Nat → List InitItem → List Obj
  | _, [] => []
  | k, .ref _ :: r => initNews k r
  | k, .str n :: r => initNews (k + 1) r ++ [strObj k n]

def initCount : List InitItem → Nat
  | [] => 0
  | .ref _ :: r => initCount r
  | .str _ :: r => initCount r + 1

/-- the labels of its relocations -/
def initLabels : Nat → List InitItem → List Sym
  | _, [] => []
  | k, .ref r :: rest => symOfRef r :: initLabels k rest
  | k, .str _ :: rest => .anon k :: initLabels (k + 1) rest

theorem recordFnRef_exact {cur : Option Name} {st st' : PState} {g : Name} (h : recordFnRef cur st g = .ok st') :
    st' = { st with globals := fnEffect cur st.globals [g] } := by
  unfold recordFnRef at h
  split at h
  · cases h
  · cases cur with
    | some f => cases h; rfl
    | none => cases h; rfl

theorem useRef_exact {cur : Option Name} {st st' : PState} {r : Ref} {s : Sym} (h : useRef cur st r = .ok (st', s)) :
    st' = { st with globals := fnEffect cur st.globals (initFnRefs [.ref r]) } ∧ s = symOfRef r := by
  cases r with
  | fn g =>
    simp only [useRef, bind, Except.bind] at h
    split at h
    · cases h
    · rename_i st1 h1
      simp only [pure, Except.pure, Except.ok.injEq, Prod.mk.injEq] at h
      rw [← h.1, ← h.2]
      exact ⟨recordFnRef_exact h1, rfl⟩
  | obj x =>
    simp only [useRef] at h
    split at h
    · cases h
    · simp only [pure, Except.pure, Except.ok.injEq, Prod.mk.injEq] at h
      rw [← h.1, ← h.2]
      refine ⟨?_, rfl⟩
      show st = { st with globals := fnEffect cur st.globals [] }
      rw [fnEffect_nil]

theorem initFnRefs_cons_ref (r : Ref) (rest : List InitItem) :
    initFnRefs (.ref r :: rest) = initFnRefs [.ref r] ++ initFnRefs rest := by
  cases r <;> simp [initFnRefs]

theorem fnEffect_append (cur : Option Name) (gs : List Obj) (a b : List Name) :
    fnEffect cur (fnEffect cur gs a) b = fnEffect cur gs (a ++ b) := by
  cases cur with
  | some f =>
    simp only [fnEffect, updFunc]
    rw [updFirst_updFirst (u1 := addRefsO a) (fun _ => rfl)]
    congr 1
    funext o
    simp [addRefsO, List.append_assoc]
  | none => simp [fnEffect, List.foldl_append]

theorem initItems_exact {cur : Option Name} : ∀ (items : List InitItem) {st st' : PState} {ss : List Sym},
    initItems cur st items = .ok (st', ss) →
      st'.globals = initNews st.nextAnon items ++ fnEffect cur st.globals (initFnRefs items) ∧
      st'.nextAnon = st.nextAnon + initCount items ∧ ss = initLabels st.nextAnon items := by
  intro items
  induction items with
  | nil =>
    intro st st' ss h
    simp only [initItems, pure, Except.pure, Except.ok.injEq, Prod.mk.injEq] at h
    rw [← h.1, ← h.2]
    exact ⟨by simp [initNews, initFnRefs, fnEffect_nil], rfl, rfl⟩
  | cons it rest ih =>
    intro st st' ss h
    cases it with
    | ref r =>
      simp only [initItems, bind, Except.bind] at h
      split at h
      · cases h
      · rename_i p1 h1
        split at h
        · cases h
        · rename_i p2 h2
          simp only [pure, Except.pure, Except.ok.injEq, Prod.mk.injEq] at h
          obtain ⟨e1, es⟩ := useRef_exact (st' := p1.1) (s := p1.2) (by simpa using h1)
          obtain ⟨g2, n2, l2⟩ := ih (st := p1.1) (st' := p2.1) (ss := p2.2) (by simpa using h2)
          rw [← h.1, ← h.2, g2, n2, l2, es, e1]
          refine ⟨?_, rfl, rfl⟩
          simp only [initNews]
          rw [fnEffect_append, ← initFnRefs_cons_ref]
    | str n =>
      simp only [initItems, bind, Except.bind] at h
      split at h
      · cases h
      · rename_i p2 h2
        simp only [pure, Except.pure, Except.ok.injEq, Prod.mk.injEq] at h
        obtain ⟨g2, n2, l2⟩ := ih (st := (newAnon st (strTy n) true).1) (st' := p2.1) (ss := p2.2) (by simpa using h2)
        rw [← h.1, ← h.2, g2, n2, l2]
        refine ⟨?_, ?_, rfl⟩
        · show initNews (st.nextAnon + 1) rest ++ fnEffect cur (strObj st.nextAnon n :: st.globals) (initFnRefs rest) = _
          rw [fnEffect_cons_data rfl]
          simp [initNews, initFnRefs]
        · show st.nextAnon + 1 + initCount rest = st.nextAnon + (initCount rest + 1)
          omega

/-- every object an initializer pushes is a datum with a fresh label -/
theorem initNews_spec : ∀ (items : List InitItem) (k : Nat) (o : Obj), o ∈ initNews k items →
    o.isFunction = false ∧ ∃ j n, k ≤ j ∧ o = strObj j n
  | [], _, _, h => by simp [initNews] at h
  | .ref _ :: r, k, o, h => initNews_spec r k o h
  | .str n :: r, k, o, h => by
    simp only [initNews, List.mem_append, List.mem_singleton] at h
    rcases h with h | h
    · obtain ⟨hf, j, m, hj, ho⟩ := initNews_spec r (k + 1) o h
      exact ⟨hf, j, m, by omega, ho⟩
    · subst h
      exact ⟨rfl, k, n, Nat.le_refl _, rfl⟩

/-! ### function bodies -/

/-- the object `declaration` makes of `static [_Thread_local] T v [= init];` when the label counter is `k` -/
def slObj (k : Nat) (tls : Bool) (ty : ObjTy) (init : Option (List InitItem)) : Obj :=
  { sym := .anon k, ty := ty, hasInit := init.isSome, isTls := tls,
    uses := match init with | none => [] | some items => initLabels (k + 1) items }

/-- the object of a block-scope `extern` declaration -/
def externO (x : Name) (tls : Bool) (ty : ObjTy) : Obj :=
  { sym := .named x, isDefinition := false, isStatic := false, isTls := tls, ty := ty }

def bodyItemNews (k : Nat) : BodyItem → List Obj
  | .ref _ => []
  | .staticLocal tls ty none => [slObj k tls ty none]
  | .staticLocal tls ty (some items) => initNews (k + 1) items ++ [slObj k tls ty (some items)]
  | .str n => [strObj k n]
  | .externObj x tls ty => [externO x tls ty]

def bodyItemCount : BodyItem → Nat
  | .ref _ => 0
  | .staticLocal _ _ none => 1
  | .staticLocal _ _ (some items) => 1 + initCount items
  | .str _ => 1
  | .externObj _ _ _ => 0

def bodyItemLabels (k : Nat) : BodyItem → List Sym
  | .ref r => [symOfRef r]
  | .staticLocal _ _ _ => [.anon k]
  | .str _ => [.anon k]
  | .externObj _ _ _ => []

theorem strObj_sym_ne {j n k : Nat} (h : k < j) : ((strObj j n).sym == Sym.anon k && !(strObj j n).isFunction) = false := by
  have : (Sym.anon j == Sym.anon k) = false := by
    simp only [beq_eq_false_iff_ne, ne_eq, Sym.anon.injEq]; omega
  simp [strObj, this]

theorem bodyItem_exact {f : Name} {st st' : PState} {b : BodyItem} {us : List Sym}
    (h : bodyItem f st b = .ok (st', us)) :
    st'.globals = bodyItemNews st.nextAnon b ++ updFunc st.globals f (addRefsO (bodyFnRefs [b])) ∧
    st'.nextAnon = st.nextAnon + bodyItemCount b ∧ us = bodyItemLabels st.nextAnon b := by
  cases b with
  | ref r =>
    simp only [bodyItem, bind, Except.bind] at h
    split at h
    · cases h
    · rename_i p1 h1
      simp only [pure, Except.pure, Except.ok.injEq, Prod.mk.injEq] at h
      obtain ⟨e1, es⟩ := useRef_exact (st' := p1.1) (s := p1.2) (by simpa using h1)
      rw [← h.1, ← h.2, es, e1]
      refine ⟨?_, rfl, rfl⟩
      cases r <;> simp [bodyItemNews, fnEffect, initFnRefs, bodyFnRefs]
  | staticLocal tls ty init =>
    cases init with
    | none =>
      simp only [bodyItem, pure, Except.pure, Except.ok.injEq, Prod.mk.injEq] at h
      rw [← h.1, ← h.2]
      refine ⟨?_, rfl, rfl⟩
      simp only [newAnon]
      rw [updFirst_hit _ (by simp)]
      have : updFunc st.globals f (addRefsO (bodyFnRefs [BodyItem.staticLocal tls ty none])) = st.globals := by
        simp only [bodyFnRefs, List.flatMap_cons, List.flatMap_nil, List.append_nil, addRefsO_nil]
        exact updFirst_id _ _
      rw [this]
      rfl
    | some items =>
      simp only [bodyItem, bind, Except.bind] at h
      split at h
      · cases h
      · rename_i p1 h1
        simp only [pure, Except.pure, Except.ok.injEq, Prod.mk.injEq] at h
        obtain ⟨g1, n1, l1⟩ := initItems_exact items (st' := p1.1) (ss := p1.2) (by simpa using h1)
        rw [← h.1, ← h.2]
        dsimp only at g1 n1 l1 ⊢
        refine ⟨?_, ?_, rfl⟩
        · rw [g1]
          simp only [newAnon]
          rw [updFirst_hit _ (by simp)]
          simp only [fnEffect]
          rw [updFunc_cons_data rfl]
          unfold setUses
          rw [updFirst_skip _ (fun o ho => by
            obtain ⟨_, j, m, hj, rfl⟩ := initNews_spec items _ o ho
            exact strObj_sym_ne (by omega))]
          rw [updFirst_hit _ (by simp)]
          rw [l1]
          simp [bodyItemNews, slObj, bodyFnRefs, newAnon]
        · rw [n1]; simp [newAnon, bodyItemCount]; omega
  | str n =>
    simp only [bodyItem, pure, Except.pure, Except.ok.injEq, Prod.mk.injEq] at h
    rw [← h.1, ← h.2]
    refine ⟨?_, rfl, rfl⟩
    have : updFunc st.globals f (addRefsO (bodyFnRefs [BodyItem.str n])) = st.globals := by
      simp only [bodyFnRefs, List.flatMap_cons, List.flatMap_nil, List.append_nil, addRefsO_nil]
      exact updFirst_id _ _
    rw [this]
    rfl
  | externObj x tls ty =>
    simp only [bodyItem, pure, Except.pure, Except.ok.injEq, Prod.mk.injEq] at h
    rw [← h.1, ← h.2]
    refine ⟨?_, rfl, rfl⟩
    have : updFunc st.globals f (addRefsO (bodyFnRefs [BodyItem.externObj x tls ty])) = st.globals := by
      simp only [bodyFnRefs, List.flatMap_cons, List.flatMap_nil, List.append_nil, addRefsO_nil]
      exact updFirst_id _ _
    rw [this]
    rfl

def bodyNews : Nat → List BodyItem → List Obj
  | _, [] => []
  | k, b :: rest => bodyNews (k + bodyItemCount b) rest ++ bodyItemNews k b

def bodyCount : List BodyItem → Nat
  | [] => 0
  | b :: rest => bodyItemCount b + bodyCount rest

def bodyLabels : Nat → List BodyItem → List Sym
  | _, [] => []
  | k, b :: rest => bodyItemLabels k b ++ bodyLabels (k + bodyItemCount b) rest

theorem bodyItemNews_data (k : Nat) (b : BodyItem) : ∀ o, o ∈ bodyItemNews k b → o.isFunction = false := by
  intro o ho
  cases b with
  | ref r => simp [bodyItemNews] at ho
  | staticLocal tls ty init =>
    cases init with
    | none => simp only [bodyItemNews, List.mem_singleton] at ho; subst ho; rfl
    | some items =>
      simp only [bodyItemNews, List.mem_append, List.mem_singleton] at ho
      rcases ho with ho | ho
      · exact (initNews_spec items _ o ho).1
      · subst ho; rfl
  | str n => simp only [bodyItemNews, List.mem_singleton] at ho; subst ho; rfl
  | externObj x tls ty => simp only [bodyItemNews, List.mem_singleton] at ho; subst ho; rfl

theorem bodyItems_exact {f : Name} : ∀ (items : List BodyItem) {st st' : PState} {us : List Sym},
    bodyItems f st items = .ok (st', us) →
      st'.globals = bodyNews st.nextAnon items ++ updFunc st.globals f (addRefsO (bodyFnRefs items)) ∧
      st'.nextAnon = st.nextAnon + bodyCount items ∧ us = bodyLabels st.nextAnon items := by
  intro items
  induction items with
  | nil =>
    intro st st' us h
    simp only [bodyItems, pure, Except.pure, Except.ok.injEq, Prod.mk.injEq] at h
    rw [← h.1, ← h.2]
    refine ⟨?_, rfl, rfl⟩
    simp only [bodyNews, bodyFnRefs, List.flatMap_nil, addRefsO_nil, List.nil_append]
    exact (updFirst_id _ _).symm
  | cons b rest ih =>
    intro st st' us h
    simp only [bodyItems, bind, Except.bind] at h
    split at h
    · cases h
    · rename_i p1 h1
      split at h
      · cases h
      · rename_i p2 h2
        simp only [pure, Except.pure, Except.ok.injEq, Prod.mk.injEq] at h
        obtain ⟨g1, n1, l1⟩ := bodyItem_exact (st' := p1.1) (us := p1.2) (by simpa using h1)
        obtain ⟨g2, n2, l2⟩ := ih (st := p1.1) (st' := p2.1) (us := p2.2) (by simpa using h2)
        rw [← h.1, ← h.2, g2, n2, l2, g1, n1, l1]
        refine ⟨?_, ?_, rfl⟩
        · rw [updFunc_data_append (bodyItemNews_data _ _)]
          simp only [updFunc]
          rw [updFirst_updFirst (u1 := addRefsO (bodyFnRefs [b])) (fun _ => rfl)]
          simp only [bodyNews, List.append_assoc]
          congr 3
          funext o
          simp [addRefsO, bodyFnRefs, List.append_assoc]
        · simp only [bodyCount]; omega

theorem bodyNews_data : ∀ (items : List BodyItem) (k : Nat) (o : Obj), o ∈ bodyNews k items → o.isFunction = false
  | [], _, _, h => by simp [bodyNews] at h
  | b :: rest, k, o, h => by
    simp only [bodyNews, List.mem_append] at h
    rcases h with h | h
    · exact bodyNews_data rest _ o h
    · exact bodyItemNews_data k b o h

/-! ### file-scope declarations -/

/-- the object `global_variable` creates for `[static] [extern] [_Thread_local] T x [= init];` -/
def varObj (k : Nat) (x : Name) (isStatic isExtern isTls : Bool) (ty : ObjTy) (init : Option (List InitItem)) : Obj :=
  match init with
  | none => { sym := .named x, isDefinition := !isExtern, isStatic := isStatic, isTls := isTls, ty := ty,
              isTentative := !isExtern }
  | some items => { sym := .named x, isDefinition := true, isStatic := isStatic, isTls := isTls, ty := ty,
                    hasInit := true, uses := initLabels k items }

/-- the data objects one file-scope declaration pushes (newest first) when the label counter is `k` -/
def declNews (k : Nat) : Decl → List Obj
  | .func _ _ _ _ _ none => []
  | .func _ n _ _ _ (some b) => bodyNews (k + 2) b ++ [strObj (k + 1) (n + 1), strObj k (n + 1)]
  | .obj x s e t ty none => [varObj k x s e t ty none]
  | .obj x s e t ty (some items) => initNews k items ++ [varObj k x s e t ty (some items)]

def declCount : Decl → Nat
  | .func _ _ _ _ _ none => 0
  | .func _ _ _ _ _ (some b) => 2 + bodyCount b
  | .obj _ _ _ _ _ none => 0
  | .obj _ _ _ _ _ (some items) => initCount items

theorem declNews_data (k : Nat) (d : Decl) : ∀ o, o ∈ declNews k d → o.isFunction = false := by
  intro o ho
  cases d with
  | func f n s e i body =>
    cases body with
    | none => simp [declNews] at ho
    | some b =>
      simp only [declNews, List.mem_append, List.mem_cons, List.not_mem_nil, or_false] at ho
      rcases ho with ho | ho | ho
      · exact bodyNews_data b _ o ho
      · subst ho; rfl
      · subst ho; rfl
  | obj x s e t ty init =>
    cases init with
    | none => simp only [declNews, List.mem_singleton] at ho; subst ho; rfl
    | some items =>
      simp only [declNews, List.mem_append, List.mem_singleton] at ho
      rcases ho with ho | ho
      · exact (initNews_spec items _ o ho).1
      · subst ho; rfl

/-- the non-function objects of a list, in order -/
def dataOf (gs : List Obj) : List Obj := gs.filter (fun o => !o.isFunction)

theorem dataOf_append (a b : List Obj) : dataOf (a ++ b) = dataOf a ++ dataOf b := by
  simp [dataOf]

theorem dataOf_of_data {l : List Obj} (h : ∀ o, o ∈ l → o.isFunction = false) : dataOf l = l := by
  unfold dataOf
  rw [List.filter_eq_self]
  intro o ho
  simp [h o ho]

theorem dataOf_updFunc {u : Obj → Obj} (hu : KeepsId u) : ∀ (gs : List Obj) (f : Name), dataOf (updFunc gs f u) = dataOf gs
  | [], _ => rfl
  | a :: as, f => by
    unfold updFunc
    cases hp : (a.isFunction && a.sym == Sym.named f)
    · rw [updFirst_miss _ hp]
      have ih := dataOf_updFunc hu as f
      unfold updFunc at ih
      simp only [dataOf, List.filter_cons] at ih ⊢
      rw [ih]
    · rw [updFirst_hit _ hp]
      simp only [Bool.and_eq_true] at hp
      simp [dataOf, (hu a).1, hp.1]

theorem dataOf_cons_fn {o : Obj} (h : o.isFunction = true) (gs : List Obj) : dataOf (o :: gs) = dataOf gs := by
  simp [dataOf, h]

theorem dataOf_fnEffect (cur : Option Name) (gs : List Obj) (l : List Name) : dataOf (fnEffect cur gs l) = dataOf gs := by
  cases cur with
  | some f => exact dataOf_updFunc (u := addRefsO l) (fun _ => ⟨rfl, rfl⟩) gs f
  | none =>
    simp only [fnEffect]
    induction l generalizing gs with
    | nil => rfl
    | cons g rest ih => simp only [List.foldl_cons]; rw [ih, dataOf_updFunc (u := setRootO) (fun _ => ⟨rfl, rfl⟩)]

theorem keepsId_rootIf : KeepsId (fun o : Obj => if !(o.isStatic && o.isInline) then { o with isRoot := true } else o) := by
  intro o
  dsimp only
  split <;> exact ⟨rfl, rfl⟩

theorem dataOf_declFunctionHead {st st' : PState} {f : Name} {s e i b : Bool}
    (h : declFunctionHead st f s e i b = .ok st') : dataOf st'.globals = dataOf st.globals ∧ st'.nextAnon = st.nextAnon := by
  unfold declFunctionHead at h
  split at h
  · split at h
    · cases h
    · split at h
      · cases h
      · cases h
        dsimp only
        rw [dataOf_updFunc keepsId_rootIf, dataOf_updFunc (u := fun o => { o with isDefinition := o.isDefinition || b }) (fun _ => ⟨rfl, rfl⟩)]
        exact ⟨rfl, rfl⟩
  · cases h
    dsimp only
    rw [dataOf_updFunc keepsId_rootIf, dataOf_cons_fn rfl]
    exact ⟨rfl, rfl⟩

/-- **the data objects after one declaration**: the new ones in front of the old ones -/
theorem dataOf_declStep {st st' : PState} {d : Decl} (h : declStep st d = .ok st') :
    dataOf st'.globals = declNews st.nextAnon d ++ dataOf st.globals ∧ st'.nextAnon = st.nextAnon + declCount d := by
  cases d with
  | func f n s e i body =>
    simp only [declStep, declFunction] at h
    split at h
    · cases h
    · rename_i st1 h1
      obtain ⟨d1, n1⟩ := dataOf_declFunctionHead h1
      cases body with
      | none =>
        cases h
        exact ⟨by simp [declNews, d1], by simp [declCount, n1]⟩
      | some items =>
        simp only at h
        split at h
        · cases h
        · rename_i st2 uses hp
          cases h
          obtain ⟨g2, n2, _⟩ := bodyItems_exact items hp
          dsimp only
          rw [dataOf_updFunc (u := fun o => { o with uses := uses }) (fun _ => ⟨rfl, rfl⟩), g2, n2]
          simp only [newAnon] at *
          rw [updFunc_cons_data rfl, updFunc_cons_data rfl, dataOf_append, dataOf_of_data (bodyNews_data _ _)]
          refine ⟨?_, ?_⟩
          · simp only [dataOf, List.filter_cons]
            simp only [Bool.not_false, if_true]
            have := dataOf_updFunc (u := addRefsO (bodyFnRefs items)) (fun _ => ⟨rfl, rfl⟩) st1.globals f
            simp only [dataOf] at this d1
            rw [this, d1, n1]
            simp [declNews, strObj]
          · rw [n1]; simp only [declCount]; omega
  | obj x s e t ty init =>
    simp only [declStep, declObject] at h
    cases init with
    | none =>
      simp only [pure, Except.pure, Except.ok.injEq] at h
      rw [← h]
      exact ⟨by simp [dataOf, declNews, varObj], by simp [declCount]⟩
    | some items =>
      simp only [bind, Except.bind] at h
      split at h
      · cases h
      · rename_i p hp
        simp only [pure, Except.pure, Except.ok.injEq] at h
        obtain ⟨g1, n1, l1⟩ := initItems_exact items (st' := p.1) (ss := p.2) (by simpa using hp)
        rw [← h]
        dsimp only at g1 n1 l1 ⊢
        rw [g1, fnEffect_cons_data rfl]
        rw [updFirst_skip _ (fun o ho => by
          obtain ⟨_, j, m, _, rfl⟩ := initNews_spec items _ o ho
          simp [strObj])]
        rw [updFirst_hit _ (by simp)]
        refine ⟨?_, by rw [n1]; simp [declCount]⟩
        rw [dataOf_append, dataOf_of_data (fun o ho => (initNews_spec items _ o ho).1)]
        simp only [dataOf, List.filter_cons, Bool.not_false, if_true]
        have := dataOf_fnEffect none st.globals (initFnRefs items)
        simp only [dataOf] at this
        rw [this, l1]
        simp [declNews, varObj]

/-- all data objects `ds` pushes, newest first, when the label counter starts at `k` -/
def allNews : Nat → List Decl → List Obj
  | _, [] => []
  | k, d :: ds => allNews (k + declCount d) ds ++ declNews k d

theorem dataOf_declAll : ∀ (ds : List Decl) {st st' : PState}, declAll st ds = .ok st' →
    dataOf st'.globals = allNews st.nextAnon ds ++ dataOf st.globals := by
  intro ds
  induction ds with
  | nil =>
    intro st st' h
    simp only [declAll, pure, Except.pure, Except.ok.injEq] at h
    rw [← h]; rfl
  | cons d rest ih =>
    intro st st' h
    simp only [declAll, bind, Except.bind] at h
    split at h
    · cases h
    · rename_i st1 h1
      obtain ⟨d1, n1⟩ := dataOf_declStep h1
      rw [ih h, d1, n1]
      simp [allNews, List.append_assoc]

/-- the data objects `parse` has created when it reaches the root loop -/
theorem dataOf_parse {ds : List Decl} {st : PState} (h : declAll {} ds = .ok st) : dataOf st.globals = allNews 0 ds := by
  have := dataOf_declAll ds h
  simpa [dataOf] using this

end ChibiVerif.Linkage
