/-
C02, the branchy cell `u64f64` (unsigned long → double when the top bit is set): halving with the lost bit or-ed back in
("sticky"), converting, and doubling rounds exactly like converting the 64-bit value itself — for all 2^63 inputs,
over `Nat` arithmetic with `Spec.Fpu.roundNat` (round to nearest, ties to even, to 53 significant bits).
-/
import ChibiVerif.Spec.FpuSpec

namespace ChibiVerif.Spec.Fpu

theorem or_one_eq (a : Nat) : a ||| 1 = 2 * (a / 2) + 1 := by
  apply Nat.eq_of_testBit_eq
  intro i
  cases i with
  | zero => simp
  | succ j =>
    rw [Nat.testBit_succ, Nat.testBit_succ, Nat.or_div_two]
    have : (2 * (a / 2) + 1) / 2 = a / 2 := by omega
    simp [this]

/-- `shr %rdi` after `mov %rax, %rdi`, then `or` with `%rax & 1` -/
def halveSticky (n : Nat) : Nat := n / 2 ||| n % 2

theorem halveSticky_eq (n : Nat) : halveSticky n = if n % 2 = 1 then 2 * (n / 4) + 1 else n / 2 := by
  unfold halveSticky
  split
  · rename_i h; rw [h, or_one_eq]; omega
  · rename_i h
    have : n % 2 = 0 := by omega
    rw [this]; simp

theorem bitLen_of (n k : Nat) (h1 : 2 ^ k ≤ n) (h2 : n < 2 ^ (k + 1)) : bitLen n = k + 1 := by
  unfold bitLen
  have hn : n ≠ 0 := by
    have := Nat.two_pow_pos k
    omega
  simp [hn]
  exact (Nat.log2_eq_iff hn).2 ⟨h1, h2⟩

theorem halveSticky_lt (n : Nat) (h1 : 2 ^ 63 ≤ n) (h2 : n < 2 ^ 64) : 2 ^ 62 ≤ halveSticky n ∧ halveSticky n < 2 ^ 63 := by
  rw [halveSticky_eq]; split <;> omega

/-- **round₅₃(n) = 2 · round₅₃(⌊n/2⌋ | (n & 1))** for every 64-bit n with the top bit set -/
theorem round_halve (n : Nat) (h1 : 2 ^ 63 ≤ n) (h2 : n < 2 ^ 64) :
    roundNat 53 n = 2 * roundNat 53 (halveSticky n) := by
  have hs := halveSticky_eq n
  have l1 : bitLen n = 64 := bitLen_of n 63 h1 h2
  have l2 : bitLen (halveSticky n) = 63 := by
    apply bitLen_of _ 62
    · rw [hs]; split <;> omega
    · rw [hs]; split <;> omega
  simp only [roundNat, roundQS, l1, l2]
  simp
  generalize halveSticky n = h at *
  have hq : h / 1024 = n / 2048 := by rw [hs]; split <;> omega
  have hc : (512 < h % 1024 ∨ h % 1024 = 512 ∧ h / 1024 % 2 = 1) ↔
      (1024 < n % 2048 ∨ n % 2048 = 1024 ∧ n / 2048 % 2 = 1) := by
    rw [hq, hs]; split <;> omega
  by_cases hd : 1024 < n % 2048 ∨ n % 2048 = 1024 ∧ n / 2048 % 2 = 1
  · rw [if_pos hd, if_pos (hc.2 hd), hq]; simp; omega
  · rw [if_neg hd, if_neg (fun x => hd (hc.1 x)), hq]; simp; omega

/-- the register-level computation is `halveSticky` -/
theorem halve_bv (x : BitVec 64) : ((x >>> 1) ||| (x &&& 1#64)).toNat = halveSticky x.toNat := by
  simp only [BitVec.toNat_or, BitVec.toNat_ushiftRight, BitVec.toNat_and, BitVec.toNat_ofNat, halveSticky,
    Nat.shiftRight_eq_div_pow]
  have : x.toNat &&& 1 % 2 ^ 64 = x.toNat % 2 := by simp [Nat.and_one_is_mod]
  rw [this]

end ChibiVerif.Spec.Fpu
