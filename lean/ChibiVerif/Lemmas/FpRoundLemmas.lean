/-
C02, the branchy cell `u64f64` (unsigned long → double when the top bit is set): halving with the lost bit or-ed back in
("sticky"), converting, and doubling rounds exactly like converting the 64-bit value itself — for all 2^63 inputs,
over `Nat` arithmetic with `Spec.Fpu.roundNat` (round to nearest, ties to even, to 53 significant bits).
-/
import ChibiVerif.Spec.FpuSpec

namespace ChibiVerif.Spec.Fpu

theorem or_one_eq (a : Nat) : a ||| 1 = 2 * (a / 2) + 1 := by
  apply Nat.eq_of_testBit_eq
  intro i
  cases i with
  | zero => simp
  | succ j =>
    rw [Nat.testBit_succ, Nat.testBit_succ, Nat.or_div_two]
    have : (2 * (a / 2) + 1) / 2 = a / 2 := by omega
    simp [this]

/-- `shr %rdi` after `mov %rax, %rdi`, then `or` with `%rax & 1` -/
def halveSticky (n : Nat) : Nat := n / 2 ||| n % 2

theorem halveSticky_eq (n : Nat) : halveSticky n = if n % 2 = 1 then 2 * (n / 4) + 1 else n / 2 := by
  unfold halveSticky
  split
  · rename_i h; rw [h, or_one_eq]; omega
  · rename_i h
    have : n % 2 = 0 := by omega
    rw [this]; simp

theorem bitLen_of (n k : Nat) (h1 : 2 ^ k ≤ n) (h2 : n < 2 ^ (k + 1)) : bitLen n = k + 1 := by
  unfold bitLen
  have hn : n ≠ 0 := by
    have := Nat.two_pow_pos k
    omega
  simp [hn]
  exact (Nat.log2_eq_iff hn).2 ⟨h1, h2⟩

theorem halveSticky_lt (n : Nat) (h1 : 2 ^ 63 ≤ n) (h2 : n < 2 ^ 64) : 2 ^ 62 ≤ halveSticky n ∧ halveSticky n < 2 ^ 63 := by
  rw [halveSticky_eq]; split <;> omega

/-- **round₅₃(n) = 2 · round₅₃(⌊n/2⌋ | (n & 1))** for every 64-bit n with the top bit set -/
theorem round_halve (n : Nat) (h1 : 2 ^ 63 ≤ n) (h2 : n < 2 ^ 64) :
    roundNat 53 n = 2 * roundNat 53 (halveSticky n) := by
  have hs := halveSticky_eq n
  have l1 : bitLen n = 64 := bitLen_of n 63 h1 h2
  have l2 : bitLen (halveSticky n) = 63 := by
    apply bitLen_of _ 62
    · rw [hs]; split <;> omega
    · rw [hs]; split <;> omega
  simp only [roundNat, roundQS, l1, l2]
  simp
  generalize halveSticky n = h at *
  have hq : h / 1024 = n / 2048 := by rw [hs]; split <;> omega
  have hc : (512 < h % 1024 ∨ h % 1024 = 512 ∧ h / 1024 % 2 = 1) ↔
      (1024 < n % 2048 ∨ n % 2048 = 1024 ∧ n / 2048 % 2 = 1) := by
    rw [hq, hs]; split <;> omega
  by_cases hd : 1024 < n % 2048 ∨ n % 2048 = 1024 ∧ n / 2048 % 2 = 1
  · rw [if_pos hd, if_pos (hc.2 hd), hq]; simp; omega
  · rw [if_neg hd, if_neg (fun x => hd (hc.1 x)), hq]; simp; omega

/-- the register-level computation is `halveSticky` -/
theorem halve_bv (x : BitVec 64) : ((x >>> 1) ||| (x &&& 1#64)).toNat = halveSticky x.toNat := by
  simp only [BitVec.toNat_or, BitVec.toNat_ushiftRight, BitVec.toNat_and, BitVec.toNat_ofNat, halveSticky,
    Nat.shiftRight_eq_div_pow]
  have : x.toNat &&& 1 % 2 ^ 64 = x.toNat % 2 := by simp [Nat.and_one_is_mod]
  rw [this]

/-! ### generic facts about `roundNat`: numbers with at most `p` significant bits are fixed points -/

theorem bitLen_lt' (n : Nat) : n < 2 ^ bitLen n := by
  unfold bitLen
  split
  · subst_vars; simp
  · exact Nat.lt_log2_self

theorem bitLen_pos_le (n : Nat) (h : n ≠ 0) : 2 ^ (bitLen n - 1) ≤ n := by
  unfold bitLen
  simp [h]
  exact Nat.log2_self_le h

theorem bitLen_mul_pow (q s : Nat) (hq : q ≠ 0) : bitLen (q * 2 ^ s) = bitLen q + s := by
  have h1 := bitLen_pos_le q hq
  have h2 := bitLen_lt' q
  have hb : 1 ≤ bitLen q := by unfold bitLen; simp [hq]
  have : bitLen q + s = (bitLen q - 1 + s) + 1 := by omega
  rw [this]
  apply bitLen_of
  · rw [Nat.pow_add]; exact Nat.mul_le_mul_right _ h1
  · have : bitLen q - 1 + s + 1 = bitLen q + s := by omega
    rw [this, Nat.pow_add]; exact Nat.mul_lt_mul_of_pos_right h2 (Nat.two_pow_pos s)

theorem roundQS_fst_le (p n : Nat) : (roundQS p n).1 ≤ 2 ^ p := by
  have hl := bitLen_lt' n
  unfold roundQS
  simp only
  split
  · rename_i h
    have : 2 ^ bitLen n ≤ 2 ^ p := Nat.pow_le_pow_right (by omega) h
    simp; omega
  · rename_i h
    have hq : n / 2 ^ (bitLen n - p) < 2 ^ p := by
      rw [Nat.div_lt_iff_lt_mul (Nat.two_pow_pos _)]
      rw [← Nat.pow_add]
      have : p + (bitLen n - p) = bitLen n := by omega
      rw [this]; exact hl
    split <;> simp <;> omega

/-- a number with at most `p` significant bits (q·2^s, q ≤ 2^p) is its own rounding -/
theorem roundNat_exact (p q s : Nat) (hp : 1 ≤ p) (hq : q ≤ 2 ^ p) : roundNat p (q * 2 ^ s) = q * 2 ^ s := by
  by_cases h0 : q = 0
  · subst h0; simp [roundNat, roundQS, bitLen]
  have hbl := bitLen_mul_pow q s h0
  have hq1 := bitLen_pos_le q h0
  have hq2 := bitLen_lt' q
  have hblq : bitLen q ≤ p + 1 := by
    by_cases hle : bitLen q ≤ p + 1
    · exact hle
    · have : 2 ^ (p + 1) ≤ 2 ^ (bitLen q - 1) := Nat.pow_le_pow_right (by omega) (by omega)
      have : (2:Nat) ^ p < 2 ^ (p + 1) := Nat.pow_lt_pow_right (by omega) (by omega)
      omega
  simp only [roundNat, roundQS, hbl]
  split
  · simp
  · rename_i hgt
    -- shift k = bitLen q + s - p ≤ s + 1, and 2^k divides q·2^s
    have hdvd : 2 ^ (bitLen q + s - p) ∣ q * 2 ^ s := by
      by_cases hk : bitLen q + s - p ≤ s
      · exact Nat.dvd_trans (Nat.pow_dvd_pow 2 hk) (Nat.dvd_mul_left _ _)
      · -- bitLen q = p + 1, so q = 2^p
        have hbq : bitLen q = p + 1 := by omega
        have : 2 ^ p ≤ q := by rw [hbq] at hq1; simpa using hq1
        have hqe : q = 2 ^ p := by omega
        have hk2 : bitLen q + s - p = s + 1 := by omega
        have hqs : q * 2 ^ s = 2 ^ (p + s) := by rw [hqe, Nat.pow_add]
        rw [hk2, hqs]
        exact Nat.pow_dvd_pow 2 (by omega)
    have hmod : q * 2 ^ s % 2 ^ (bitLen q + s - p) = 0 := Nat.mod_eq_zero_of_dvd hdvd
    have hpos : 0 < 2 ^ (bitLen q + s - p - 1) := Nat.two_pow_pos _
    simp only [hmod]
    have hne : ¬ (0 > 2 ^ (bitLen q + s - p - 1) ∨ 0 = 2 ^ (bitLen q + s - p - 1) ∧ q * 2 ^ s / 2 ^ (bitLen q + s - p) % 2 = 1) := by
      omega
    rw [if_neg hne]
    exact Nat.div_mul_cancel hdvd

theorem roundNat_idem (p n : Nat) (hp : 1 ≤ p) : roundNat p (roundNat p n) = roundNat p n := by
  unfold roundNat
  exact roundNat_exact p _ _ hp (roundQS_fst_le p n)

theorem roundInt_idem (p : Nat) (v : Int) (hp : 1 ≤ p) : roundInt p (roundInt p v) = roundInt p v := by
  unfold roundInt
  by_cases h : v < 0
  · simp only [h, if_true]
    by_cases h2 : (roundNat p v.natAbs : Int) = 0
    · simp [h2]
      have : roundNat p v.natAbs = 0 := by omega
      simp [roundNat, roundQS, bitLen]
    · have : -(roundNat p v.natAbs : Int) < 0 := by omega
      simp only [this, if_true, Int.natAbs_neg, Int.natAbs_natCast, roundNat_idem p _ hp]
  · simp only [h, if_false]
    have : ¬ ((roundNat p v.natAbs : Int) < 0) := by omega
    simp only [this, if_false, Int.natAbs_natCast, roundNat_idem p _ hp]


theorem roundNat_le (p n l : Nat) (hl : bitLen n ≤ l) (hp : p ≤ l) : roundNat p n ≤ 2 ^ l := by
  have hlt := bitLen_lt' n
  have hmono : 2 ^ bitLen n ≤ 2 ^ l := Nat.pow_le_pow_right (by omega) hl
  have hq := roundQS_fst_le p n
  unfold roundNat
  unfold roundQS at hq ⊢
  simp only at hq ⊢
  split
  · simp; omega
  · rename_i h
    have hs : ∀ q : Nat, q ≤ 2 ^ p → q * 2 ^ (bitLen n - p) ≤ 2 ^ l := by
      intro q hq
      have : q * 2 ^ (bitLen n - p) ≤ 2 ^ p * 2 ^ (bitLen n - p) := Nat.mul_le_mul_right _ hq
      rw [← Nat.pow_add] at this
      have e : p + (bitLen n - p) = bitLen n := by omega
      rw [e] at this
      omega
    rw [if_neg h] at hq
    split
    · rename_i hc; rw [if_pos hc] at hq; exact hs _ hq
    · rename_i hc; rw [if_neg hc] at hq; exact hs _ hq

/-- rounding an integer of magnitude ≤ 2^64 stays ≤ 2^64 -/
theorem roundNat_le64 (p n : Nat) (hp1 : 1 ≤ p) (hp : p ≤ 64) (hn : n ≤ 2 ^ 64) : roundNat p n ≤ 2 ^ 64 := by
  by_cases h : n = 2 ^ 64
  · subst h
    have := roundNat_exact p 1 64 hp1 (Nat.one_le_two_pow)
    simp only [Nat.one_mul] at this
    omega
  · have hlt : n < 2 ^ 64 := by omega
    have hb : bitLen n ≤ 64 := by
      unfold bitLen
      split
      · omega
      · rename_i h0
        have := (Nat.log2_lt h0).2 hlt
        omega
    exact roundNat_le p n 64 hb hp

/-! ### the same halving argument at 24 bits (`u64f32`), and comparison with an integer constant -/

/-- **round₂₄(n) = 2 · round₂₄(⌊n/2⌋ | (n & 1))** for every 64-bit n with the top bit set -/
theorem round_halve24 (n : Nat) (h1 : 2 ^ 63 ≤ n) (h2 : n < 2 ^ 64) :
    roundNat 24 n = 2 * roundNat 24 (halveSticky n) := by
  have hs := halveSticky_eq n
  have l1 : bitLen n = 64 := bitLen_of n 63 h1 h2
  have l2 : bitLen (halveSticky n) = 63 := by
    apply bitLen_of _ 62
    · rw [hs]; split <;> omega
    · rw [hs]; split <;> omega
  simp only [roundNat, roundQS, l1, l2]
  simp
  generalize halveSticky n = h at *
  have hq : h / 549755813888 = n / 1099511627776 := by rw [hs]; split <;> omega
  have hc : (274877906944 < h % 549755813888 ∨ h % 549755813888 = 274877906944 ∧ h / 549755813888 % 2 = 1) ↔
      (549755813888 < n % 1099511627776 ∨ n % 1099511627776 = 549755813888 ∧ n / 1099511627776 % 2 = 1) := by
    rw [hq, hs]; split <;> omega
  by_cases hd : 549755813888 < n % 1099511627776 ∨ n % 1099511627776 = 549755813888 ∧ n / 1099511627776 % 2 = 1
  · rw [if_pos hd, if_pos (hc.2 hd), hq]; simp; omega
  · rw [if_neg hd, if_neg (fun x => hd (hc.1 x)), hq]; simp; omega

/-- comparison of a finite value with the positive constant K = M·2^E (given in any spelling) is comparison of its
    integer part with K, for an integer K -/
theorem Val.cmp_const (n : Bool) (m : Nat) (e : Int) (M E K : Nat) (hK : M * 2 ^ E = K) (hK0 : 0 < K) (t : Int)
    (ht : (Val.fin n m e).trunc? = some t) :
    (Val.cmp (.fin n m e) (.fin false M (E : Int)) = .lt ↔ t < (K : Int)) ∧
    Val.cmp (.fin n m e) (.fin false M (E : Int)) ≠ .un := by
  have hcmp : ∀ a b : Int, ((if a < b then Rel.lt else if a = b then Rel.eq else Rel.gt) = Rel.lt ↔ a < b) ∧
      (if a < b then Rel.lt else if a = b then Rel.eq else Rel.gt) ≠ Rel.un := by
    intro a b; constructor
    · constructor
      · intro h; by_cases h1 : a < b
        · exact h1
        · rw [if_neg h1] at h; split at h <;> simp at h
      · intro h; simp [h]
    · split
      · simp
      · split <;> simp
  simp only [Val.cmp]
  refine ⟨?_, (hcmp _ _).2⟩
  rw [(hcmp _ _).1]
  simp only [Val.trunc?, Option.some.injEq] at ht
  have hMpos : 0 < M := by
    rcases Nat.eq_zero_or_pos M with h | h
    · subst h; simp at hK; omega
    · exact h
  cases n with
  | true =>
    -- negative (or −0): both sides hold
    simp only [Val.scaled, if_true] at ht ⊢
    have hb : (0:Int) < ((M * 2 ^ ((E:Int) - min e (E:Int)).toNat : Nat) : Int) := by
      have : 0 < M * 2 ^ ((E:Int) - min e (E:Int)).toNat := Nat.mul_pos hMpos (Nat.two_pow_pos _)
      omega
    have ha : -((m * 2 ^ (e - min e (E:Int)).toNat : Nat) : Int) ≤ 0 := by omega
    have htn : t ≤ 0 := by rw [← ht]; omega
    simp only [Bool.false_eq_true, if_false]
    constructor <;> intro _ <;> omega
  | false =>
    simp only [Val.scaled, Bool.false_eq_true, if_false] at ht ⊢
    subst ht
    simp only [Val.magTrunc]
    rcases (show e < (E:Int) ∨ (E:Int) ≤ e by omega) with hlt | hge
    · -- e < E: common exponent e
      have hmin : min e (E:Int) = e := by omega
      rw [hmin]
      simp only [Int.sub_self, Int.toNat_zero, Nat.pow_zero, Nat.mul_one]
      by_cases h0 : 0 ≤ e
      · rw [if_pos h0]
        obtain ⟨e', rfl⟩ := Int.eq_ofNat_of_zero_le h0
        have hE : ((E:Int) - (e':Int)).toNat = E - e' := by omega
        rw [hE]
        have hsplit : M * 2 ^ (E - e') * 2 ^ e' = K := by
          rw [Nat.mul_assoc, ← Nat.pow_add]
          have : E - e' + e' = E := by omega
          rw [this, hK]
        simp only [Int.toNat_natCast]
        rw [← hsplit]
        have hp : 0 < 2 ^ e' := Nat.two_pow_pos e'
        constructor
        · intro h
          have h' : m < M * 2 ^ (E - e') := by omega
          have := Nat.mul_lt_mul_of_pos_right h' hp
          exact_mod_cast this
        · intro h
          have h' : m * 2 ^ e' < M * 2 ^ (E - e') * 2 ^ e' := by exact_mod_cast h
          have := Nat.lt_of_mul_lt_mul_right h'
          exact_mod_cast this
      · rw [if_neg h0]
        have hE : ((E:Int) - e).toNat = E + (-e).toNat := by omega
        rw [hE, Nat.pow_add, ← Nat.mul_assoc, hK]
        have hp : 0 < 2 ^ (-e).toNat := Nat.two_pow_pos _
        constructor
        · intro h
          have h' : m < K * 2 ^ (-e).toNat := by exact_mod_cast h
          have := (Nat.div_lt_iff_lt_mul hp).2 h'
          exact_mod_cast this
        · intro h
          have h' : m / 2 ^ (-e).toNat < K := by exact_mod_cast h
          have := (Nat.div_lt_iff_lt_mul hp).1 h'
          exact_mod_cast this
    · -- E ≤ e: common exponent E, and e ≥ 0
      have hmin : min e (E:Int) = (E:Int) := by omega
      rw [hmin]
      simp only [Int.sub_self, Int.toNat_zero, Nat.pow_zero, Nat.mul_one]
      have h0 : 0 ≤ e := by omega
      rw [if_pos h0]
      obtain ⟨e', rfl⟩ := Int.eq_ofNat_of_zero_le h0
      have hE : ((e':Int) - (E:Int)).toNat = e' - E := by omega
      rw [hE]
      simp only [Int.toNat_natCast]
      have hsplit : m * 2 ^ e' = m * 2 ^ (e' - E) * 2 ^ E := by
        rw [Nat.mul_assoc, ← Nat.pow_add]
        have : e' - E + E = e' := by omega
        rw [this]
      rw [hsplit, ← hK]
      have hp : 0 < 2 ^ E := Nat.two_pow_pos E
      constructor
      · intro h
        have h' : m * 2 ^ (e' - E) < M := by exact_mod_cast h
        have := Nat.mul_lt_mul_of_pos_right h' hp
        exact_mod_cast this
      · intro h
        have h' : m * 2 ^ (e' - E) * 2 ^ E < M * 2 ^ E := by exact_mod_cast h
        have := Nat.lt_of_mul_lt_mul_right h'
        exact_mod_cast this

end ChibiVerif.Spec.Fpu
