/-
Lemmas for C05_emit: `emit_data`'s loop lays down exactly the cells of the image.
-/
import ChibiVerif.Model.Init

namespace ChibiVerif.Init

def symCells (l : String) (a : Int) : List Cell := (List.range 8).map (fun k => Cell.sym l a k)

theorem symCells_length (l : String) (a : Int) : (symCells l a).length = 8 := by simp [symCells]

/-- relocations as `write_gvar_data` produces them for a well-formed type: ascending, disjoint, inside the object -/
def RelocsFrom (size : Nat) : Nat → List Reloc → Prop
  | _, [] => True
  | pos, r :: rs => pos ≤ r.offset ∧ r.offset + 8 ≤ size ∧ RelocsFrom size (r.offset + 8) rs

instance (size : Nat) : (pos : Nat) → (rs : List Reloc) → Decidable (RelocsFrom size pos rs)
  | _, [] => isTrue trivial
  | pos, r :: rs =>
    have := instDecidableRelocsFrom size (r.offset + 8) rs
    by unfold RelocsFrom; exact inferInstance

theorem RelocsFrom.mono {size : Nat} : ∀ {rs : List Reloc} {p q : Nat}, q ≤ p → RelocsFrom size p rs → RelocsFrom size q rs
  | [], _, _, _, _ => trivial
  | _ :: _, _, _, h, ⟨h1, h2, h3⟩ => ⟨Nat.le_trans h h1, h2, h3⟩

theorem writeAt_length {α : Type} (m : List α) (o : Nat) (vs : List α) (h : o + vs.length ≤ m.length) :
    (writeAt m o vs).length = m.length := by
  simp [writeAt]; omega

theorem writeAt_take {α : Type} (m : List α) (o : Nat) (vs : List α) (h : o + vs.length ≤ m.length) :
    (writeAt m o vs).take (o + vs.length) = m.take o ++ vs := by
  have h1 : vs.take (m.length - o) = vs := List.take_of_length_le (by omega)
  simp only [writeAt, h1]
  rw [List.take_append_of_le_length (by simp; omega)]
  rw [List.take_of_length_le (by simp; omega)]

theorem map_byte_getElem? (bytes : List Nat) (pos : Nat) (h : pos < bytes.length) :
    (bytes.map Cell.byte)[pos]? = some (Cell.byte (bytes.getD pos 0)) := by
  simp [List.getD_eq_getElem?_getD, List.getElem?_eq_getElem h]

theorem overlay_length (rs : List Reloc) : ∀ (c : List Cell) (size : Nat) (pos : Nat), c.length = size → RelocsFrom size pos rs →
    (overlay c rs).length = size := by
  induction rs with
  | nil => intro c size pos h _; simpa [overlay] using h
  | cons r rs ih =>
    intro c size pos h hr
    obtain ⟨_, h2, h3⟩ := hr
    simp only [overlay]
    exact ih _ size _ (by rw [writeAt_length _ _ _ (by simp only [List.length_map, List.length_range]; omega)]; exact h) h3

/-- the loop invariant of `emit_data`: the cells before `pos` followed by what the remaining iterations print is the image -/
theorem emitLoop_spec (bytes : List Nat) (size : Nat) (hb : bytes.length = size) :
    ∀ (f pos : Nat) (rels : List Reloc) (c : List Cell), c.length = size → pos ≤ size → size - pos ≤ f →
      (∀ i, pos ≤ i → c[i]? = (bytes.map Cell.byte)[i]?) → RelocsFrom size pos rels →
      c.take pos ++ assemble (emitLoop bytes size f pos rels) = overlay c rels := by
  intro f
  induction f with
  | zero =>
    intro pos rels c hc hp hf _ hr
    have : pos = size := by omega
    subst this
    cases rels with
    | nil => simp [emitLoop, assemble, overlay, ← hc]
    | cons r rs => obtain ⟨h1, h2, _⟩ := hr; omega
  | succ f ih =>
    intro pos rels c hc hp hf hagree hr
    by_cases hlt : pos < size
    · cases rels with
      | nil =>
        simp only [emitLoop, hlt, ↓reduceIte, assemble]
        have hget : c[pos]? = some (Cell.byte (bytes.getD pos 0)) := by
          rw [hagree pos (Nat.le_refl _)]
          exact map_byte_getElem? bytes pos (by omega)
        have := ih (pos + 1) [] c hc (by omega) (by omega) (fun i hi => hagree i (by omega)) trivial
        rw [← this]
        rw [List.take_add_one, hget]
        simp
      | cons r rs =>
        obtain ⟨h1, h2, h3⟩ := hr
        by_cases heq : r.offset = pos
        · subst heq
          simp only [emitLoop, hlt, ↓reduceIte, assemble, overlay]
          have hlen : (writeAt c r.offset (symCells r.label r.addend)).length = size := by
            rw [writeAt_length _ _ _ (by rw [symCells_length]; omega)]; exact hc
          have := ih (r.offset + 8) rs (writeAt c r.offset (symCells r.label r.addend)) hlen (by omega) (by omega)
            (by
              intro i hi
              rw [← hagree i (by omega)]
              simp only [writeAt]
              rw [List.getElem?_append_right (by simp [symCells]; omega)]
              simp [symCells]
              congr 1; omega) h3
          have ht := writeAt_take c r.offset (symCells r.label r.addend) (by simp [symCells]; omega)
          simp only [symCells_length] at ht
          rw [ht] at this
          simp only [symCells] at this ⊢
          rw [← this]; simp
        · have hgt : pos < r.offset := by omega
          simp only [emitLoop, hlt, ↓reduceIte, heq, assemble]
          have hget : c[pos]? = some (Cell.byte (bytes.getD pos 0)) := by
            rw [hagree pos (Nat.le_refl _)]
            exact map_byte_getElem? bytes pos (by omega)
          have := ih (pos + 1) (r :: rs) c hc (by omega) (by omega) (fun i hi => hagree i (by omega)) ⟨by omega, h2, h3⟩
          rw [← this, List.take_add_one, hget]
          simp
    · have : pos = size := by omega
      subst this
      cases rels with
      | nil => simp [emitLoop, assemble, overlay, ← hc]
      | cons r rs => obtain ⟨h1, h2, _⟩ := hr; omega

end ChibiVerif.Init
