/-
Helper lemmas for the bit-field family of C04: bit-level descriptions (`getLsbD`) of the mask, of `load`'s extension,
of the and/or merge and of the shl + shr|sar extraction.  Everything is parametric in width and offset; proofs are by
bitwise extensionality with core `BitVec.getLsbD_*` lemmas and `omega`.
-/
import ChibiVerif.Spec.C04Spec
open ChibiVerif.Gen.C04

namespace ChibiVerif.BitField

theorem mask_lt (w : Nat) (h : w < 64) (i : Nat) :
    (((1 : BitVec 64) <<< w) - (1 : BitVec 64)).getLsbD i = decide (i < w) := by
  have h1 : (((1 : BitVec 64) <<< w) - (1 : BitVec 64)) = (BitVec.allOnes w).setWidth 64 := by
    apply BitVec.eq_of_toNat_eq
    have hp : 2 ^ w < 2 ^ 64 := Nat.pow_lt_pow_right (by decide) h
    have hp1 : 0 < 2 ^ w := Nat.two_pow_pos w
    simp [BitVec.toNat_sub, BitVec.toNat_shiftLeft, BitVec.toNat_allOnes, Nat.shiftLeft_eq]
    omega
  rw [h1]
  simp
  omega

theorem allOnes64 : (-(1 : BitVec 64)) = BitVec.allOnes 64 := by decide

theorem bfMask_getLsbD (w : Nat) (hw : w ≤ 64) (i : Nat) (_hi : i < 64) :
    (bfMask w).getLsbD i = decide (i < w) := by
  unfold bfMask
  split
  · subst_vars; rw [allOnes64, BitVec.getLsbD_allOnes]
  · rw [mask_lt w (by omega)]

theorem loadUnit_getLsbD (s : USize) (isU : Bool) (u : BitVec s.bits) (i : Nat) (hi : i < s.bits) :
    (loadUnit s isU u).getLsbD i = u.getLsbD i := by
  cases s <;> cases isU <;> simp [loadUnit, USize.bits, USize.bytes, BitVec.getLsbD_signExtend] at hi ⊢
  all_goals first
    | (intro _; omega)
    | (have h64 : i < 64 := by omega
       have h32 : i < 32 ∨ True := by omega
       simp [hi, h64]; done)
    | (have h64 : i < 64 := by omega
       have h32 : i < 32 := by omega
       simp [hi, h64, h32])

/-- bit `i` of %rax after `and %r9, %rax; or %rdi, %rax` -/
theorem merged_getLsbD (w o : Nat) (hw : 1 ≤ w) (hwo : o + w ≤ 64) (rax v : BitVec 64) (i : Nat) (hi : i < 64) :
    (((rax &&& ~~~(bfMask w <<< o)) ||| ((v &&& bfMask w) <<< shiftCount o))).getLsbD i
      = if o ≤ i ∧ i < o + w then v.getLsbD (i - o) else rax.getLsbD i := by
  have ho : shiftCount (o : Int) = o := by simp [shiftCount]; omega
  rw [ho]
  simp only [BitVec.getLsbD_or, BitVec.getLsbD_and, BitVec.getLsbD_not, BitVec.getLsbD_shiftLeft]
  by_cases h1 : i < o
  · simp [h1, hi]; omega
  · have h2 : i - o < 64 := by omega
    rw [bfMask_getLsbD w (by omega) (i - o) h2]
    by_cases h3 : i < o + w
    · have : i - o < w := by omega
      simp [h1, hi, this, h3]
    · have : ¬ (i - o < w) := by omega
      simp [h1, hi, this, h3]


theorem shl_cnt (w o : Nat) (hw : 1 ≤ w) (hwo : o + w ≤ 64) : shiftCount (bfShlCount w o) = 64 - w - o := by
  simp [shiftCount, bfShlCount]; omega
theorem shr_cnt (w : Nat) (hw : 1 ≤ w) (hw2 : w ≤ 64) : shiftCount (bfShrCount w) = 64 - w := by
  simp [shiftCount, bfShrCount]; omega

/-- bit `j` of the extracted value -/
theorem extract_getLsbD (w o : Nat) (hw : 1 ≤ w) (hwo : o + w ≤ 64) (isU isB : Bool) (rax : BitVec 64) (j : Nat) (hj : j < 64) :
    (extract w o isU isB rax).getLsbD j =
      if j < w then rax.getLsbD (j + o) else (!(bfLogical isU isB) && rax.getLsbD (w - 1 + o)) := by
  unfold extract
  rw [shl_cnt w o hw hwo, shr_cnt w hw (by omega)]
  cases hl : bfLogical isU isB
  · simp only [Bool.false_eq_true, if_false, BitVec.getLsbD_sshiftRight, BitVec.msb_eq_getLsbD_last, BitVec.getLsbD_shiftLeft]
    by_cases h : j < w
    · have e : 64 - w + j - (64 - w - o) = j + o := by omega
      have a1 : 64 - w + j < 64 := by omega
      have a2 : ¬ (64 - w + j < 64 - w - o) := by omega
      have a3 : ¬ (64 ≤ j) := by omega
      simp [h, e, a1, a2, a3]
    · have e : 64 - 1 - (64 - w - o) = w - 1 + o := by omega
      have a1 : ¬ (64 - w + j < 64) := by omega
      have a2 : ¬ (63 < 64 - w - o) := by omega
      have a3 : ¬ (64 ≤ j) := by omega
      simp [h, e, a1, a2, a3]
  · simp only [if_true, BitVec.getLsbD_ushiftRight, BitVec.getLsbD_shiftLeft]
    by_cases h : j < w
    · have e : 64 - w + j - (64 - w - o) = j + o := by omega
      simp [h, e]; omega
    · simp [h]; omega

/-! ### specification side -/
open ChibiVerif.Spec.C04

theorem fieldValue_getLsbD (t : BfType) (w : Nat) (hw : 1 ≤ w) (hw2 : w ≤ 64) (v : BitVec 64) (j : Nat) (hj : j < 64) :
    (fieldValue t w v).getLsbD j = if j < w then v.getLsbD j else (!(bfUnsigned t) && v.getLsbD (w - 1)) := by
  unfold fieldValue
  cases bfUnsigned t
  · simp only [Bool.false_eq_true, if_false, BitVec.getLsbD_signExtend, BitVec.msb_eq_getLsbD_last, BitVec.getLsbD_setWidth]
    by_cases h : j < w
    · simp [h, hj]
    · have : w - 1 < w := by omega
      simp [h, hj, this]
  · simp only [if_true, BitVec.getLsbD_setWidth]
    by_cases h : j < w
    · simp [h, hj]
    · simp [h]

theorem logical_eq_spec (t : BfType) : bfLogical t.implUnsigned t.implBool = bfUnsigned t := by
  cases t <;> decide

/-! ### memory level -/

theorem readLE_getLsbD : ∀ (n : Nat) (m : Mem) (a : Int) (i : Nat), i < 8 * n →
    (readLE m a n).getLsbD i = (m (a + (i / 8 : Nat))).getLsbD (i % 8) := by
  intro n
  induction n with
  | zero => intro m a i hi; omega
  | succ n ih =>
    intro m a i hi
    simp only [readLE, BitVec.getLsbD_cast, BitVec.getLsbD_append]
    by_cases h : i < 8
    · have e1 : i / 8 = 0 := by omega
      have e2 : i % 8 = i := by omega
      simp [h, e1, e2]
    · simp only [h, if_false]
      rw [ih m (a + 1) (i - 8) (by omega)]
      have e1 : (a + 1 + ((i - 8) / 8 : Nat) : Int) = a + (i / 8 : Nat) := by omega
      have e2 : (i - 8) % 8 = i % 8 := by omega
      rw [e1, e2]


theorem writeLE_getLsbD (m : Mem) (a : Int) (n : Nat) (v : BitVec (8 * n)) (i : Nat) (hi : i < 8 * n) :
    (writeLE m a n v (a + (i / 8 : Nat))).getLsbD (i % 8) = v.getLsbD i := by
  unfold writeLE
  have h1 : a ≤ a + ((i / 8 : Nat) : Int) ∧ a + ((i / 8 : Nat) : Int) < a + (n : Int) := by omega
  rw [if_pos h1, BitVec.getLsbD_extractLsb']
  have e : (a + ((i / 8 : Nat) : Int) - a).toNat = i / 8 := by omega
  have h2 : i % 8 < 8 := by omega
  have e2 : 8 * (i / 8) + i % 8 = i := by omega
  rw [e, e2]
  simp [h2]

theorem read_write (m : Mem) (a : Int) (n : Nat) (v : BitVec (8 * n)) : readLE (writeLE m a n v) a n = v := by
  apply BitVec.eq_of_getLsbD_eq
  intro i hi
  rw [readLE_getLsbD n _ a i hi, writeLE_getLsbD m a n v i hi]

theorem write_outside (m : Mem) (a : Int) (n : Nat) (v : BitVec (8 * n)) (x : Int) (h : x < a ∨ a + n ≤ x) :
    writeLE m a n v x = m x := by
  unfold writeLE
  have : ¬ (a ≤ x ∧ x < a + (n : Int)) := by omega
  rw [if_neg this]

/-- bit `b` of the byte at `x` inside a written range -/
theorem write_inside_bit (m : Mem) (a : Int) (n : Nat) (v : BitVec (8 * n)) (x : Int) (b : Nat) (hb : b < 8)
    (h : a ≤ x ∧ x < a + n) : (writeLE m a n v x).getLsbD b = v.getLsbD (8 * (x - a).toNat + b) := by
  unfold writeLE
  rw [if_pos h, BitVec.getLsbD_extractLsb']
  simp [hb]

theorem read_bit (m : Mem) (a : Int) (n : Nat) (x : Int) (b : Nat) (hb : b < 8) (h : a ≤ x ∧ x < a + n) :
    (readLE m a n).getLsbD (8 * (x - a).toNat + b) = (m x).getLsbD b := by
  rw [readLE_getLsbD n m a _ (by omega)]
  have e1 : (8 * (x - a).toNat + b) / 8 = (x - a).toNat := by omega
  have e2 : (8 * (x - a).toNat + b) % 8 = b := by omega
  rw [e1, e2]
  congr 2
  omega


/-- a read depends only on the bits of the field -/
theorem bfLoadT_congr (t : BfType) (w o : Nat) (hw : 1 ≤ w) (hwo : o + w ≤ t.usize.bits) (u1 u2 : BitVec t.usize.bits)
    (h : ∀ i, o ≤ i → i < o + w → u1.getLsbD i = u2.getLsbD i) : bfLoadT t w o u1 = bfLoadT t w o u2 := by
  have hb := t.usize.bits_le
  apply BitVec.eq_of_getLsbD_eq
  intro j hj
  unfold bfLoadT bfLoad
  rw [extract_getLsbD w o hw (by omega) _ _ _ j hj, extract_getLsbD w o hw (by omega) _ _ _ j hj]
  have hs1 := loadUnit_getLsbD t.usize t.implUnsigned u1 (w - 1 + o) (by omega)
  have hs2 := loadUnit_getLsbD t.usize t.implUnsigned u2 (w - 1 + o) (by omega)
  by_cases hjw : j < w
  · simp only [hjw, if_true]
    rw [loadUnit_getLsbD t.usize t.implUnsigned u1 (j + o) (by omega), loadUnit_getLsbD t.usize t.implUnsigned u2 (j + o) (by omega)]
    exact h (j + o) (by omega) (by omega)
  · simp only [hjw, if_false]
    rw [hs1, hs2, h (w - 1 + o) (by omega) (by omega)]


theorem bf_mem_roundtrip (t : BfType) (w o : Nat) (hw : 1 ≤ w) (hwo : o + w ≤ t.usize.bits) (m : Mem) (addr : Int) (v : BitVec 64) :
    bfLoadMem t w o (bfAssignMem t w o m addr v).1 addr = fieldValue t w v := by
  unfold bfLoadMem bfAssignMem
  simp only
  rw [read_write]
  have hb := t.usize.bits_le
  -- the unit-level round trip (restated here to avoid a dependency on Props)
  apply BitVec.eq_of_getLsbD_eq
  intro j hj
  rw [fieldValue_getLsbD t w hw (by omega) v j hj]
  unfold bfLoadT bfLoad bfAssignT bfAssign
  simp only
  rw [extract_getLsbD w o hw (by omega) _ _ _ j hj, logical_eq_spec]
  by_cases h : j < w
  · simp only [h, if_true]
    rw [loadUnit_getLsbD _ _ _ _ (by omega)]
    unfold storeUnit
    rw [BitVec.getLsbD_setWidth, merged_getLsbD w o hw (by omega) _ _ _ (by omega)]
    have h1 : j + o < t.usize.bits := by omega
    have h2 : o ≤ j + o ∧ j + o < o + w := by omega
    simp [h1, h2]
  · simp only [h, if_false]
    rw [loadUnit_getLsbD _ _ _ _ (by omega)]
    unfold storeUnit
    rw [BitVec.getLsbD_setWidth, merged_getLsbD w o hw (by omega) _ _ _ (by omega)]
    have h1 : w - 1 + o < t.usize.bits := by omega
    have h2 : o ≤ w - 1 + o ∧ w - 1 + o < o + w := by omega
    simp [h1, h2]

/-- bit `i` of the unit after the assignment, outside the field -/
theorem bfAssignT_outside (t : BfType) (w o : Nat) (hw : 1 ≤ w) (hwo : o + w ≤ t.usize.bits)
    (old : BitVec t.usize.bits) (v : BitVec 64) (i : Nat) (hi : i < t.usize.bits) (hout : i < o ∨ o + w ≤ i) :
    (bfAssignT t w o old v).unit.getLsbD i = old.getLsbD i := by
  have hb := t.usize.bits_le
  unfold bfAssignT bfAssign storeUnit
  simp only
  rw [BitVec.getLsbD_setWidth, merged_getLsbD w o hw (by omega) _ _ _ (by omega)]
  have h2 : ¬ (o ≤ i ∧ i < o + w) := by omega
  simp only [h2, if_false]
  rw [loadUnit_getLsbD _ _ _ _ hi]
  simp [hi]

/-- every bit of memory outside the field's absolute bit range keeps its value -/
theorem bf_mem_bits (t : BfType) (w o : Nat) (hw : 1 ≤ w) (hwo : o + w ≤ t.usize.bits) (m : Mem) (addr : Int) (v : BitVec 64)
    (x : Int) (b : Nat) (hb : b < 8)
    (hout : 8 * x + b < 8 * addr + o ∨ 8 * addr + o + w ≤ 8 * x + b) :
    ((bfAssignMem t w o m addr v).1 x).getLsbD b = (m x).getLsbD b := by
  unfold bfAssignMem
  simp only
  by_cases hin : addr ≤ x ∧ x < addr + (t.usize.bytes : Nat)
  · rw [write_inside_bit _ _ _ _ x b hb hin]
    have hi : 8 * (x - addr).toNat + b < t.usize.bits := by
      have : (x - addr).toNat < t.usize.bytes := by omega
      show 8 * (x - addr).toNat + b < 8 * t.usize.bytes
      omega
    rw [bfAssignT_outside t w o hw hwo _ v _ hi (by omega)]
    exact read_bit m addr t.usize.bytes x b hb hin
  · rw [write_outside _ _ _ _ x (by omega)]

/-- another bit-field whose bits are disjoint from the assigned one reads the same value before and after, whatever
    its declared type and wherever its (possibly overlapping, possibly differently sized) storage unit lies -/
theorem bf_mem_other_field (t : BfType) (w o : Nat) (hw : 1 ≤ w) (hwo : o + w ≤ t.usize.bits) (m : Mem) (addr : Int) (v : BitVec 64)
    (t' : BfType) (w' o' : Nat) (hw' : 1 ≤ w') (hwo' : o' + w' ≤ t'.usize.bits) (addr' : Int)
    (hdis : 8 * addr' + o' + w' ≤ 8 * addr + o ∨ 8 * addr + o + w ≤ 8 * addr' + o') :
    bfLoadMem t' w' o' (bfAssignMem t w o m addr v).1 addr' = bfLoadMem t' w' o' m addr' := by
  unfold bfLoadMem
  apply bfLoadT_congr t' w' o' hw' hwo'
  intro i h1 h2
  have hi : i < 8 * t'.usize.bytes := by
    have : o' + w' ≤ 8 * t'.usize.bytes := hwo'
    omega
  rw [readLE_getLsbD _ _ addr' i hi, readLE_getLsbD _ _ addr' i hi]
  have hb : i % 8 < 8 := by omega
  apply bf_mem_bits t w o hw hwo m addr v _ _ hb
  omega

end ChibiVerif.BitField
