/-
Helper lemmas for the bit-field family of C04: bit-level descriptions (`getLsbD`) of the mask, of `load`'s extension,
of the and/or merge and of the shl + shr|sar extraction.  Everything is parametric in width and offset; proofs are by
bitwise extensionality with core `BitVec.getLsbD_*` lemmas and `omega`.
-/
import ChibiVerif.Spec.C04Spec
open ChibiVerif.Gen.C04

namespace ChibiVerif.BitField

theorem mask_lt (w : Nat) (h : w < 64) (i : Nat) :
    (((1 : BitVec 64) <<< w) - (1 : BitVec 64)).getLsbD i = decide (i < w) := by
  have h1 : (((1 : BitVec 64) <<< w) - (1 : BitVec 64)) = (BitVec.allOnes w).setWidth 64 := by
    apply BitVec.eq_of_toNat_eq
    have hp : 2 ^ w < 2 ^ 64 := Nat.pow_lt_pow_right (by decide) h
    have hp1 : 0 < 2 ^ w := Nat.two_pow_pos w
    simp [BitVec.toNat_sub, BitVec.toNat_shiftLeft, BitVec.toNat_allOnes, Nat.shiftLeft_eq]
    omega
  rw [h1]
  simp
  omega

theorem allOnes64 : (-(1 : BitVec 64)) = BitVec.allOnes 64 := by decide

theorem bfMask_getLsbD (w : Nat) (hw : w ≤ 64) (i : Nat) (_hi : i < 64) :
    (bfMask w).getLsbD i = decide (i < w) := by
  unfold bfMask
  split
  · subst_vars; rw [allOnes64, BitVec.getLsbD_allOnes]
  · rw [mask_lt w (by omega)]

theorem loadUnit_getLsbD (s : USize) (isU : Bool) (u : BitVec s.bits) (i : Nat) (hi : i < s.bits) :
    (loadUnit s isU u).getLsbD i = u.getLsbD i := by
  cases s <;> cases isU <;> simp [loadUnit, USize.bits, USize.bytes, BitVec.getLsbD_signExtend] at hi ⊢
  all_goals first
    | (intro _; omega)
    | (have h64 : i < 64 := by omega
       have h32 : i < 32 ∨ True := by omega
       simp [hi, h64]; done)
    | (have h64 : i < 64 := by omega
       have h32 : i < 32 := by omega
       simp [hi, h64, h32])

/-- bit `i` of %rax after `and %r9, %rax; or %rdi, %rax` -/
theorem merged_getLsbD (w o : Nat) (hw : 1 ≤ w) (hwo : o + w ≤ 64) (rax v : BitVec 64) (i : Nat) (hi : i < 64) :
    (((rax &&& ~~~(bfMask w <<< o)) ||| ((v &&& bfMask w) <<< shiftCount o))).getLsbD i
      = if o ≤ i ∧ i < o + w then v.getLsbD (i - o) else rax.getLsbD i := by
  have ho : shiftCount (o : Int) = o := by simp [shiftCount]; omega
  rw [ho]
  simp only [BitVec.getLsbD_or, BitVec.getLsbD_and, BitVec.getLsbD_not, BitVec.getLsbD_shiftLeft]
  by_cases h1 : i < o
  · simp [h1, hi]; omega
  · have h2 : i - o < 64 := by omega
    rw [bfMask_getLsbD w (by omega) (i - o) h2]
    by_cases h3 : i < o + w
    · have : i - o < w := by omega
      simp [h1, hi, this, h3]
    · have : ¬ (i - o < w) := by omega
      simp [h1, hi, this, h3]


theorem shl_cnt (w o : Nat) (hw : 1 ≤ w) (hwo : o + w ≤ 64) : shiftCount (bfShlCount w o) = 64 - w - o := by
  simp [shiftCount, bfShlCount]; omega
theorem shr_cnt (w : Nat) (hw : 1 ≤ w) (hw2 : w ≤ 64) : shiftCount (bfShrCount w) = 64 - w := by
  simp [shiftCount, bfShrCount]; omega

/-- bit `j` of the extracted value -/
theorem extract_getLsbD (w o : Nat) (hw : 1 ≤ w) (hwo : o + w ≤ 64) (isU isB : Bool) (rax : BitVec 64) (j : Nat) (hj : j < 64) :
    (extract w o isU isB rax).getLsbD j =
      if j < w then rax.getLsbD (j + o) else (!(bfLogical isU isB) && rax.getLsbD (w - 1 + o)) := by
  unfold extract
  rw [shl_cnt w o hw hwo, shr_cnt w hw (by omega)]
  cases hl : bfLogical isU isB
  · simp only [Bool.false_eq_true, if_false, BitVec.getLsbD_sshiftRight, BitVec.msb_eq_getLsbD_last, BitVec.getLsbD_shiftLeft]
    by_cases h : j < w
    · have e : 64 - w + j - (64 - w - o) = j + o := by omega
      have a1 : 64 - w + j < 64 := by omega
      have a2 : ¬ (64 - w + j < 64 - w - o) := by omega
      have a3 : ¬ (64 ≤ j) := by omega
      simp [h, e, a1, a2, a3]
    · have e : 64 - 1 - (64 - w - o) = w - 1 + o := by omega
      have a1 : ¬ (64 - w + j < 64) := by omega
      have a2 : ¬ (63 < 64 - w - o) := by omega
      have a3 : ¬ (64 ≤ j) := by omega
      simp [h, e, a1, a2, a3]
  · simp only [if_true, BitVec.getLsbD_ushiftRight, BitVec.getLsbD_shiftLeft]
    by_cases h : j < w
    · have e : 64 - w + j - (64 - w - o) = j + o := by omega
      simp [h, e]; omega
    · simp [h]; omega

/-! ### specification side -/
open ChibiVerif.Spec.C04

theorem fieldValue_getLsbD (t : BfType) (w : Nat) (hw : 1 ≤ w) (hw2 : w ≤ 64) (v : BitVec 64) (j : Nat) (hj : j < 64) :
    (fieldValue t w v).getLsbD j = if j < w then v.getLsbD j else (!(bfUnsigned t) && v.getLsbD (w - 1)) := by
  unfold fieldValue
  cases bfUnsigned t
  · simp only [Bool.false_eq_true, if_false, BitVec.getLsbD_signExtend, BitVec.msb_eq_getLsbD_last, BitVec.getLsbD_setWidth]
    by_cases h : j < w
    · simp [h, hj]
    · have : w - 1 < w := by omega
      simp [h, hj, this]
  · simp only [if_true, BitVec.getLsbD_setWidth]
    by_cases h : j < w
    · simp [h, hj]
    · simp [h]

theorem logical_eq_spec (t : BfType) : bfLogical t.implUnsigned t.implBool = bfUnsigned t := by
  cases t <;> decide

end ChibiVerif.BitField
