import ChibiVerif.Model.PrintTokens
namespace ChibiVerif.Lex
open ChibiVerif.LexChar ChibiVerif.Gen.Lex

/-- last character of `c :: t` -/
def lastOr (c : Nat) : List Nat → Nat
  | [] => c
  | x :: t => lastOr x t

theorem getLast?_cons_lastOr (c : Nat) (t : List Nat) : (c :: t).getLast? = some (lastOr c t) := by
  induction t generalizing c with
  | nil => rfl
  | cons x t ih => rw [List.getLast?_cons_cons, ih]; rfl

theorem headIs_append (p : Nat → Bool) (a r : List Nat) (h : a ≠ []) : headIs p (a ++ r) = headIs p a := by
  cases a with
  | nil => exact absurd rfl h
  | cons x t => rfl

/-! ### pp-numbers -/

/-- what may follow a pp-number whose last character is `l` -/
def ppStop (l : Nat) (rest : List Nat) : Prop :=
  headIs (fun r => isAlnum r || r == 46) rest = false ∧
  (ppExpChars.contains l && headIs (fun d => ppSignChars.contains d) rest) = false

theorem ppTake_cons_exp (c d : Nat) (t' : List Nat)
    (h : (ppExpChars.contains c && headIs (fun d => ppSignChars.contains d) (d :: t')) = true) :
    ppTake (c :: d :: t') = (c :: d :: (ppTake t').1, (ppTake t').2) := by
  rw [ppTake.eq_2, if_pos h]

theorem ppTake_cons_alnum (c : Nat) (t : List Nat)
    (h : ¬ (ppExpChars.contains c && headIs (fun d => ppSignChars.contains d) t) = true)
    (hal : (isAlnum c || c == 46) = true) :
    ppTake (c :: t) = (c :: (ppTake t).1, (ppTake t).2) := by
  cases t with
  | nil => rw [ppTake.eq_3, if_neg h, if_pos hal]
  | cons d t' => rw [ppTake.eq_2, if_neg h, if_pos hal]

theorem ppTake_cons_stop (c : Nat) (t : List Nat)
    (h : ¬ (ppExpChars.contains c && headIs (fun d => ppSignChars.contains d) t) = true)
    (hal : ¬ (isAlnum c || c == 46) = true) :
    ppTake (c :: t) = ([], c :: t) := by
  cases t with
  | nil => rw [ppTake.eq_3, if_neg h, if_neg hal]
  | cons d t' => rw [ppTake.eq_2, if_neg h, if_neg hal]

theorem ppTake_stop (rest : List Nat) (h : headIs (fun r => isAlnum r || r == 46) rest = false) :
    ppTake rest = ([], rest) := by
  cases rest with
  | nil => rfl
  | cons r t =>
    simp only [headIs] at h
    have hexp : ppExpChars.contains r = false := by
      simp [isAlnum, isDigit, isUpper, isLower] at h
      simp [ppExpChars]
      omega
    exact ppTake_cons_stop r t (by rw [hexp]; simp) (by simp [h])

theorem ppTake_append (a : List Nat) : ∀ (c0 : Nat) (rest : List Nat),
    ppTake a = (a, []) → ppStop (lastOr c0 a) rest → ppTake (a ++ rest) = (a, rest) := by
  induction a using ppTake.induct with
  | case1 => intro c0 rest _ hs; simpa using ppTake_stop rest hs.1
  | case2 c d t' hc ih =>
    intro c0 rest h hs
    rw [ppTake_cons_exp c d t' hc] at h
    simp only [Prod.mk.injEq, List.cons.injEq, true_and] at h
    have ht : ppTake t' = (t', []) := Prod.ext h.1 h.2
    have hi := ih d rest ht (by simpa [lastOr] using hs)
    have hc' : (ppExpChars.contains c && headIs (fun d => ppSignChars.contains d) (d :: (t' ++ rest))) = true := hc
    rw [List.cons_append, List.cons_append, ppTake_cons_exp c d _ hc', hi]
  | case3 c hc => simp [headIs] at hc
  | case4 c t hc hal ih =>
    intro c0 rest h hs
    rw [ppTake_cons_alnum c t hc hal] at h
    simp only [Prod.mk.injEq, List.cons.injEq, true_and] at h
    have ht : ppTake t = (t, []) := Prod.ext h.1 h.2
    have hi := ih c rest ht (by simpa [lastOr] using hs)
    have hc' : ¬ (ppExpChars.contains c && headIs (fun d => ppSignChars.contains d) (t ++ rest)) = true := by
      cases t with
      | nil => have := hs.2; simp only [lastOr] at this; simpa using this
      | cons x t => exact hc
    rw [List.cons_append, ppTake_cons_alnum c _ hc' hal, hi]
  | case5 c t hc hal => intro c0 rest h; rw [ppTake_cons_stop c t hc hal] at h; simp at h

/-! ### string and character literals -/

theorem strEnd_cons_quote (c : Nat) (t : List Nat) (h : (c == 34) = true) : strEnd (c :: t) = .ok ([c], t) := by
  cases t with
  | nil => rw [strEnd.eq_2, if_pos h]
  | cons d t' => rw [strEnd.eq_3, if_pos h]

theorem strEnd_cons_bs (c d : Nat) (t' : List Nat) (h1 : ¬ (c == 34) = true) (h2 : ¬ (c == 10) = true)
    (h3 : (c == 92) = true) :
    strEnd (c :: d :: t') = match strEnd t' with
      | .ok r => .ok (c :: d :: r.1, r.2)
      | .error e => .error e := by
  rw [strEnd.eq_3, if_neg h1, if_neg h2, if_pos h3]; rfl

theorem strEnd_cons_other (c : Nat) (t : List Nat) (h1 : ¬ (c == 34) = true) (h2 : ¬ (c == 10) = true)
    (h3 : ¬ (c == 92) = true) :
    strEnd (c :: t) = match strEnd t with
      | .ok r => .ok (c :: r.1, r.2)
      | .error e => .error e := by
  cases t with
  | nil => rw [strEnd.eq_2, if_neg h1, if_neg h2, if_neg h3]; rfl
  | cons d t' => rw [strEnd.eq_3, if_neg h1, if_neg h2, if_neg h3]; rfl

theorem strEnd_append (a : List Nat) : ∀ (b r rest : List Nat),
    strEnd a = .ok (b, r) → strEnd (a ++ rest) = .ok (b, r ++ rest) := by
  induction a using strEnd.induct with
  | case1 => intro b r rest h; simp [strEnd] at h
  | case2 c t hc =>
    intro b r rest h
    rw [strEnd_cons_quote c t hc] at h
    rw [List.cons_append, strEnd_cons_quote c _ hc]
    cases h; rfl
  | case3 c t h1 h2 =>
    intro b r rest h
    cases t with
    | nil => rw [strEnd.eq_2, if_neg h1, if_pos h2] at h; cases h
    | cons d t' => rw [strEnd.eq_3, if_neg h1, if_pos h2] at h; cases h
  | case4 c h1 h2 h3 => intro b r rest h; rw [strEnd.eq_2, if_neg h1, if_neg h2, if_pos h3] at h; cases h
  | case5 c h1 h2 h3 d t r0 hr ih =>
    intro b r rest h
    rw [strEnd_cons_bs c d t h1 h2 h3, hr] at h
    have hi := ih r0.1 r0.2 rest hr
    rw [List.cons_append, List.cons_append, strEnd_cons_bs c d _ h1 h2 h3, hi]
    cases h; rfl
  | case6 c h1 h2 h3 d t e he ih =>
    intro b r rest h
    rw [strEnd_cons_bs c d t h1 h2 h3, he] at h; cases h
  | case7 c t h1 h2 h3 r0 hr ih =>
    intro b r rest h
    rw [strEnd_cons_other c t h1 h2 h3, hr] at h
    have hi := ih r0.1 r0.2 rest hr
    rw [List.cons_append, strEnd_cons_other c _ h1 h2 h3, hi]
    cases h; rfl
  | case8 c t h1 h2 h3 e he ih =>
    intro b r rest h
    rw [strEnd_cons_other c t h1 h2 h3, he] at h; cases h

theorem findQuote_append (a : List Nat) : ∀ (b r rest : List Nat),
    findQuote a = some (b, r) → findQuote (a ++ rest) = some (b, r ++ rest) := by
  induction a with
  | nil => intro b r rest h; simp [findQuote] at h
  | cons c t ih =>
    intro b r rest h
    rw [findQuote.eq_2] at h
    rw [List.cons_append, findQuote.eq_2]
    split at h
    · rename_i hc; rw [if_pos hc]; cases h; rfl
    · rename_i hc
      rw [if_neg hc]
      cases hq : findQuote t with
      | none => rw [hq] at h; cases h
      | some r0 =>
        rw [hq] at h
        rw [ih r0.1 r0.2 rest hq]
        cases h; rfl

theorem charEnd_append (a : List Nat) (b r rest : List Nat)
    (h : charEnd a = .ok (b, r)) : charEnd (a ++ rest) = .ok (b, r ++ rest) := by
  match a, h with
  | [], h => simp [charEnd] at h
  | [c], h =>
    rw [charEnd.eq_2] at h
    split at h
    · cases h
    · simp [findQuote] at h
  | c :: d :: t', h =>
    rw [charEnd.eq_3] at h
    rw [List.cons_append, List.cons_append, charEnd.eq_3]
    split at h
    · rename_i hc
      rw [if_pos hc]
      split at h
      · cases h
      · rename_i hx
        have hx' : ¬ (d == 120 && !headIs isXDigit (t' ++ rest)) = true := by
          cases t' with
          | nil => simp [findQuote] at h
          | cons x t'' => exact hx
        rw [if_neg hx']
        cases hq : findQuote t' with
        | none => rw [hq] at h; cases h
        | some r0 =>
          rw [hq] at h
          rw [findQuote_append t' r0.1 r0.2 rest hq]
          cases h; rfl
    · rename_i hc
      rw [if_neg hc]
      cases hq : findQuote (d :: t') with
      | none => rw [hq] at h; cases h
      | some r0 =>
        rw [hq] at h
        have := findQuote_append (d :: t') r0.1 r0.2 rest hq
        rw [List.cons_append] at this
        rw [this]
        cases h; rfl

/-! ### identifiers -/

theorem identTake_append (a rest : List Nat) (h : identTake a = (a, []))
    (hr : headIs isIdent2 rest = false) : identTake (a ++ rest) = (a, rest) := by
  induction a with
  | nil =>
    cases rest with
    | nil => rfl
    | cons r t => simp only [headIs] at hr; simp [identTake, hr]
  | cons c t ih =>
    rw [identTake.eq_2] at h
    split at h
    · rename_i hc
      simp only [Prod.mk.injEq, List.cons.injEq, true_and] at h
      have ht : identTake t = (t, []) := Prod.ext h.1 h.2
      rw [List.cons_append, identTake.eq_2, if_pos hc, ih ht]
    · simp at h

/-! ### punctuators -/

theorem lastOr_mem (c : Nat) (t : List Nat) : lastOr c t ∈ c :: t := by
  induction t generalizing c with
  | nil => simp [lastOr]
  | cons x t ih => simp only [lastOr]; exact List.mem_cons_of_mem _ (ih x)

/-- the cross-file fact need_space's last rule rests on: every character of every entry of
    `kw[]` (tokenize.c read_punct) is in `ops[]` (main.c need_space) -/
theorem kw_chars_in_ops : ∀ k ∈ punctKw, ∀ x ∈ k, ops.contains x = true := by decide

theorem isPrefixOf_append_eq (k : List Nat) : ∀ (p rest : List Nat),
    (∀ s, k = p ++ s → s ≠ [] → s.isPrefixOf rest = false) →
    k.isPrefixOf (p ++ rest) = k.isPrefixOf p := by
  induction k with
  | nil => intro p rest _; simp
  | cons x k' ih =>
    intro p rest h
    cases p with
    | nil =>
      have := h (x :: k') rfl (by simp)
      simpa using this
    | cons y p' =>
      rw [List.cons_append, List.isPrefixOf_cons_cons, List.isPrefixOf_cons_cons]
      by_cases hxy : x = y
      · subst hxy
        rw [ih p' rest (fun s hs hne => h s (by rw [hs]; rfl) hne)]
      · rw [beq_false_of_ne hxy]; rfl

theorem find?_congr' {α : Type} (l : List α) (f g : α → Bool) (h : ∀ x ∈ l, f x = g x) :
    l.find? f = l.find? g := by
  induction l with
  | nil => rfl
  | cons a l ih =>
    rw [List.find?_cons, List.find?_cons, h a (List.mem_cons_self ..),
      ih (fun x hx => h x (List.mem_cons_of_mem _ hx))]

/-- what may follow a punctuator whose last character is `l` (as far as `read_punct` is concerned) -/
def punctStop (l : Nat) (rest : List Nat) : Prop :=
  (ops.contains l && headIs (fun r => ops.contains r) rest) = false

theorem readPunct_append (c : Nat) (a rest : List Nat) (hb : punctStop (lastOr c a) rest) :
    readPunct (c :: a ++ rest) = readPunct (c :: a) := by
  have hcongr : ∀ k ∈ punctKw, k.isPrefixOf (c :: a ++ rest) = k.isPrefixOf (c :: a) := by
    intro k hk
    apply isPrefixOf_append_eq
    intro s hs hne
    cases s with
    | nil => exact absurd rfl hne
    | cons y s' =>
      cases rest with
      | nil => rfl
      | cons r rest' =>
        rw [List.isPrefixOf_cons_cons]
        by_cases hyr : y = r
        · subst hyr
          exfalso
          have h1 : ops.contains (lastOr c a) = true :=
            kw_chars_in_ops k hk _ (by rw [hs]; exact List.mem_append_left _ (lastOr_mem c a))
          have h2 : ops.contains y = true := kw_chars_in_ops k hk _ (by rw [hs]; simp)
          unfold punctStop at hb
          rw [headIs, h1, h2] at hb
          cases hb
        · rw [beq_false_of_ne hyr]; rfl
  unfold readPunct
  rw [find?_congr' punctKw _ _ hcongr]
  rfl

theorem readPunct_le_length (p : List Nat) : readPunct p ≤ p.length := by
  unfold readPunct
  cases hf : punctKw.find? (fun k => k.isPrefixOf p) with
  | some k =>
    have := List.find?_some hf
    exact (List.isPrefixOf_iff_prefix.mp this).length_le
  | none =>
    cases p with
    | nil => simp
    | cons c t => simp only [List.length_cons]; split <;> omega

end ChibiVerif.Lex
