import ChibiVerif.Model.PrintTokens
namespace ChibiVerif.Lex
open ChibiVerif.LexChar ChibiVerif.Gen.Lex

/-- last character of `c :: t` -/
def lastOr (c : Nat) : List Nat → Nat
  | [] => c
  | x :: t => lastOr x t

theorem getLast?_cons_lastOr (c : Nat) (t : List Nat) : (c :: t).getLast? = some (lastOr c t) := by
  induction t generalizing c with
  | nil => rfl
  | cons x t ih => rw [List.getLast?_cons_cons, ih]; rfl

theorem headIs_append (p : Nat → Bool) (a r : List Nat) (h : a ≠ []) : headIs p (a ++ r) = headIs p a := by
  cases a with
  | nil => exact absurd rfl h
  | cons x t => rfl

/-! ### pp-numbers -/

/-- what may follow a pp-number whose last character is `l` -/
def ppStop (l : Nat) (rest : List Nat) : Prop :=
  headIs (fun r => isAlnum r || r == 46) rest = false ∧
  (ppExpChars.contains l && headIs (fun d => ppSignChars.contains d) rest) = false

theorem ppTake_cons_exp (c d : Nat) (t' : List Nat)
    (h : (ppExpChars.contains c && headIs (fun d => ppSignChars.contains d) (d :: t')) = true) :
    ppTake (c :: d :: t') = (c :: d :: (ppTake t').1, (ppTake t').2) := by
  rw [ppTake.eq_2, if_pos h]

theorem ppTake_cons_alnum (c : Nat) (t : List Nat)
    (h : ¬ (ppExpChars.contains c && headIs (fun d => ppSignChars.contains d) t) = true)
    (hal : (isAlnum c || c == 46) = true) :
    ppTake (c :: t) = (c :: (ppTake t).1, (ppTake t).2) := by
  cases t with
  | nil => rw [ppTake.eq_3, if_neg h, if_pos hal]
  | cons d t' => rw [ppTake.eq_2, if_neg h, if_pos hal]

theorem ppTake_cons_stop (c : Nat) (t : List Nat)
    (h : ¬ (ppExpChars.contains c && headIs (fun d => ppSignChars.contains d) t) = true)
    (hal : ¬ (isAlnum c || c == 46) = true) :
    ppTake (c :: t) = ([], c :: t) := by
  cases t with
  | nil => rw [ppTake.eq_3, if_neg h, if_neg hal]
  | cons d t' => rw [ppTake.eq_2, if_neg h, if_neg hal]

theorem ppTake_stop (rest : List Nat) (h : headIs (fun r => isAlnum r || r == 46) rest = false) :
    ppTake rest = ([], rest) := by
  cases rest with
  | nil => rfl
  | cons r t =>
    simp only [headIs] at h
    have hexp : ppExpChars.contains r = false := by
      simp [isAlnum, isDigit, isUpper, isLower] at h
      simp [ppExpChars]
      omega
    exact ppTake_cons_stop r t (by rw [hexp]; simp) (by simp [h])

theorem ppTake_append (a : List Nat) : ∀ (c0 : Nat) (rest : List Nat),
    ppTake a = (a, []) → ppStop (lastOr c0 a) rest → ppTake (a ++ rest) = (a, rest) := by
  induction a using ppTake.induct with
  | case1 => intro c0 rest _ hs; simpa using ppTake_stop rest hs.1
  | case2 c d t' hc ih =>
    intro c0 rest h hs
    rw [ppTake_cons_exp c d t' hc] at h
    simp only [Prod.mk.injEq, List.cons.injEq, true_and] at h
    have ht : ppTake t' = (t', []) := Prod.ext h.1 h.2
    have hi := ih d rest ht (by simpa [lastOr] using hs)
    have hc' : (ppExpChars.contains c && headIs (fun d => ppSignChars.contains d) (d :: (t' ++ rest))) = true := hc
    rw [List.cons_append, List.cons_append, ppTake_cons_exp c d _ hc', hi]
  | case3 c hc => simp [headIs] at hc
  | case4 c t hc hal ih =>
    intro c0 rest h hs
    rw [ppTake_cons_alnum c t hc hal] at h
    simp only [Prod.mk.injEq, List.cons.injEq, true_and] at h
    have ht : ppTake t = (t, []) := Prod.ext h.1 h.2
    have hi := ih c rest ht (by simpa [lastOr] using hs)
    have hc' : ¬ (ppExpChars.contains c && headIs (fun d => ppSignChars.contains d) (t ++ rest)) = true := by
      cases t with
      | nil => have := hs.2; simp only [lastOr] at this; simpa using this
      | cons x t => exact hc
    rw [List.cons_append, ppTake_cons_alnum c _ hc' hal, hi]
  | case5 c t hc hal => intro c0 rest h; rw [ppTake_cons_stop c t hc hal] at h; simp at h

/-! ### string and character literals -/

theorem strEnd_cons_quote (c : Nat) (t : List Nat) (h : (c == 34) = true) : strEnd (c :: t) = .ok ([c], t) := by
  cases t with
  | nil => rw [strEnd.eq_2, if_pos h]
  | cons d t' => rw [strEnd.eq_3, if_pos h]

theorem strEnd_cons_bs (c d : Nat) (t' : List Nat) (h1 : ¬ (c == 34) = true) (h2 : ¬ (c == 10) = true)
    (h3 : (c == 92) = true) :
    strEnd (c :: d :: t') = match strEnd t' with
      | .ok r => .ok (c :: d :: r.1, r.2)
      | .error e => .error e := by
  rw [strEnd.eq_3, if_neg h1, if_neg h2, if_pos h3]; rfl

theorem strEnd_cons_other (c : Nat) (t : List Nat) (h1 : ¬ (c == 34) = true) (h2 : ¬ (c == 10) = true)
    (h3 : ¬ (c == 92) = true) :
    strEnd (c :: t) = match strEnd t with
      | .ok r => .ok (c :: r.1, r.2)
      | .error e => .error e := by
  cases t with
  | nil => rw [strEnd.eq_2, if_neg h1, if_neg h2, if_neg h3]; rfl
  | cons d t' => rw [strEnd.eq_3, if_neg h1, if_neg h2, if_neg h3]; rfl

theorem strEnd_append (a : List Nat) : ∀ (b r rest : List Nat),
    strEnd a = .ok (b, r) → strEnd (a ++ rest) = .ok (b, r ++ rest) := by
  induction a using strEnd.induct with
  | case1 => intro b r rest h; simp [strEnd] at h
  | case2 c t hc =>
    intro b r rest h
    rw [strEnd_cons_quote c t hc] at h
    rw [List.cons_append, strEnd_cons_quote c _ hc]
    cases h; rfl
  | case3 c t h1 h2 =>
    intro b r rest h
    cases t with
    | nil => rw [strEnd.eq_2, if_neg h1, if_pos h2] at h; cases h
    | cons d t' => rw [strEnd.eq_3, if_neg h1, if_pos h2] at h; cases h
  | case4 c h1 h2 h3 => intro b r rest h; rw [strEnd.eq_2, if_neg h1, if_neg h2, if_pos h3] at h; cases h
  | case5 c h1 h2 h3 d t r0 hr ih =>
    intro b r rest h
    rw [strEnd_cons_bs c d t h1 h2 h3, hr] at h
    have hi := ih r0.1 r0.2 rest hr
    rw [List.cons_append, List.cons_append, strEnd_cons_bs c d _ h1 h2 h3, hi]
    cases h; rfl
  | case6 c h1 h2 h3 d t e he ih =>
    intro b r rest h
    rw [strEnd_cons_bs c d t h1 h2 h3, he] at h; cases h
  | case7 c t h1 h2 h3 r0 hr ih =>
    intro b r rest h
    rw [strEnd_cons_other c t h1 h2 h3, hr] at h
    have hi := ih r0.1 r0.2 rest hr
    rw [List.cons_append, strEnd_cons_other c _ h1 h2 h3, hi]
    cases h; rfl
  | case8 c t h1 h2 h3 e he ih =>
    intro b r rest h
    rw [strEnd_cons_other c t h1 h2 h3, he] at h; cases h

theorem findQuote_append (a : List Nat) : ∀ (b r rest : List Nat),
    findQuote a = some (b, r) → findQuote (a ++ rest) = some (b, r ++ rest) := by
  induction a with
  | nil => intro b r rest h; simp [findQuote] at h
  | cons c t ih =>
    intro b r rest h
    rw [findQuote.eq_2] at h
    rw [List.cons_append, findQuote.eq_2]
    split at h
    · rename_i hc; rw [if_pos hc]; cases h; rfl
    · rename_i hc
      rw [if_neg hc]
      cases hq : findQuote t with
      | none => rw [hq] at h; cases h
      | some r0 =>
        rw [hq] at h
        rw [ih r0.1 r0.2 rest hq]
        cases h; rfl

theorem charEnd_append (a : List Nat) (b r rest : List Nat)
    (h : charEnd a = .ok (b, r)) : charEnd (a ++ rest) = .ok (b, r ++ rest) := by
  match a, h with
  | [], h => simp [charEnd] at h
  | [c], h =>
    rw [charEnd.eq_2] at h
    split at h
    · cases h
    · simp [findQuote] at h
  | c :: d :: t', h =>
    rw [charEnd.eq_3] at h
    rw [List.cons_append, List.cons_append, charEnd.eq_3]
    split at h
    · rename_i hc
      rw [if_pos hc]
      split at h
      · cases h
      · rename_i hx
        have hx' : ¬ (d == 120 && !headIs isXDigit (t' ++ rest)) = true := by
          cases t' with
          | nil => simp [findQuote] at h
          | cons x t'' => exact hx
        rw [if_neg hx']
        cases hq : findQuote t' with
        | none => rw [hq] at h; cases h
        | some r0 =>
          rw [hq] at h
          rw [findQuote_append t' r0.1 r0.2 rest hq]
          cases h; rfl
    · rename_i hc
      rw [if_neg hc]
      cases hq : findQuote (d :: t') with
      | none => rw [hq] at h; cases h
      | some r0 =>
        rw [hq] at h
        have := findQuote_append (d :: t') r0.1 r0.2 rest hq
        rw [List.cons_append] at this
        rw [this]
        cases h; rfl

/-! ### identifiers -/

theorem identTake_append (a rest : List Nat) (h : identTake a = (a, []))
    (hr : headIs isIdent2 rest = false) : identTake (a ++ rest) = (a, rest) := by
  induction a with
  | nil =>
    cases rest with
    | nil => rfl
    | cons r t => simp only [headIs] at hr; simp [identTake, hr]
  | cons c t ih =>
    rw [identTake.eq_2] at h
    split at h
    · rename_i hc
      simp only [Prod.mk.injEq, List.cons.injEq, true_and] at h
      have ht : identTake t = (t, []) := Prod.ext h.1 h.2
      rw [List.cons_append, identTake.eq_2, if_pos hc, ih ht]
    · simp at h

/-! ### punctuators -/

theorem lastOr_mem (c : Nat) (t : List Nat) : lastOr c t ∈ c :: t := by
  induction t generalizing c with
  | nil => simp [lastOr]
  | cons x t ih => simp only [lastOr]; exact List.mem_cons_of_mem _ (ih x)

/-- the cross-file fact need_space's last rule rests on: every character of every entry of
    `kw[]` (tokenize.c read_punct) is in `ops[]` (main.c need_space) -/
theorem kw_chars_in_ops : ∀ k ∈ punctKw, ∀ x ∈ k, ops.contains x = true := by decide

theorem isPrefixOf_append_eq (k : List Nat) : ∀ (p rest : List Nat),
    (∀ s, k = p ++ s → s ≠ [] → s.isPrefixOf rest = false) →
    k.isPrefixOf (p ++ rest) = k.isPrefixOf p := by
  induction k with
  | nil => intro p rest _; simp
  | cons x k' ih =>
    intro p rest h
    cases p with
    | nil =>
      have := h (x :: k') rfl (by simp)
      simpa using this
    | cons y p' =>
      rw [List.cons_append, List.isPrefixOf_cons_cons, List.isPrefixOf_cons_cons]
      by_cases hxy : x = y
      · subst hxy
        rw [ih p' rest (fun s hs hne => h s (by rw [hs]; rfl) hne)]
      · rw [beq_false_of_ne hxy]; rfl

theorem find?_congr' {α : Type} (l : List α) (f g : α → Bool) (h : ∀ x ∈ l, f x = g x) :
    l.find? f = l.find? g := by
  induction l with
  | nil => rfl
  | cons a l ih =>
    rw [List.find?_cons, List.find?_cons, h a (List.mem_cons_self ..),
      ih (fun x hx => h x (List.mem_cons_of_mem _ hx))]

/-- what may follow a punctuator whose last character is `l` (as far as `read_punct` is concerned) -/
def punctStop (l : Nat) (rest : List Nat) : Prop :=
  (ops.contains l && headIs (fun r => ops.contains r) rest) = false

theorem readPunct_append (c : Nat) (a rest : List Nat) (hb : punctStop (lastOr c a) rest) :
    readPunct (c :: a ++ rest) = readPunct (c :: a) := by
  have hcongr : ∀ k ∈ punctKw, k.isPrefixOf (c :: a ++ rest) = k.isPrefixOf (c :: a) := by
    intro k hk
    apply isPrefixOf_append_eq
    intro s hs hne
    cases s with
    | nil => exact absurd rfl hne
    | cons y s' =>
      cases rest with
      | nil => rfl
      | cons r rest' =>
        rw [List.isPrefixOf_cons_cons]
        by_cases hyr : y = r
        · subst hyr
          exfalso
          have h1 : ops.contains (lastOr c a) = true :=
            kw_chars_in_ops k hk _ (by rw [hs]; exact List.mem_append_left _ (lastOr_mem c a))
          have h2 : ops.contains y = true := kw_chars_in_ops k hk _ (by rw [hs]; simp)
          unfold punctStop at hb
          rw [headIs, h1, h2] at hb
          cases hb
        · rw [beq_false_of_ne hyr]; rfl
  unfold readPunct
  rw [find?_congr' punctKw _ _ hcongr]
  rfl

theorem readPunct_le_length (p : List Nat) : readPunct p ≤ p.length := by
  unfold readPunct
  cases hf : punctKw.find? (fun k => k.isPrefixOf p) with
  | some k =>
    have := List.find?_some hf
    exact (List.isPrefixOf_iff_prefix.mp this).length_le
  | none =>
    cases p with
    | nil => simp
    | cons c t => simp only [List.length_cons]; split <;> omega

/-! ### dispatch of `lexStep` -/

theorem lexStep_q (t : List Nat) (bol sp : Bool) : lexStep (34 :: t) bol sp = strTok [34] t bol sp := rfl
theorem lexStep_u8q (t : List Nat) (bol sp : Bool) :
    lexStep (117 :: 56 :: 34 :: t) bol sp = strTok [117, 56, 34] t bol sp := rfl
theorem lexStep_uq (t : List Nat) (bol sp : Bool) : lexStep (117 :: 34 :: t) bol sp = strTok [117, 34] t bol sp := rfl
theorem lexStep_Lq (t : List Nat) (bol sp : Bool) : lexStep (76 :: 34 :: t) bol sp = strTok [76, 34] t bol sp := rfl
theorem lexStep_Uq (t : List Nat) (bol sp : Bool) : lexStep (85 :: 34 :: t) bol sp = strTok [85, 34] t bol sp := rfl
theorem lexStep_a (t : List Nat) (bol sp : Bool) : lexStep (39 :: t) bol sp = chrTok [39] t bol sp := rfl
theorem lexStep_ua (t : List Nat) (bol sp : Bool) : lexStep (117 :: 39 :: t) bol sp = chrTok [117, 39] t bol sp := rfl
theorem lexStep_La (t : List Nat) (bol sp : Bool) : lexStep (76 :: 39 :: t) bol sp = chrTok [76, 39] t bol sp := rfl
theorem lexStep_Ua (t : List Nat) (bol sp : Bool) : lexStep (85 :: 39 :: t) bol sp = chrTok [85, 39] t bol sp := rfl

theorem strTok_append (pre a rest : List Nat) (b1 p1 b2 p2 : Bool) (k : Kind) (x : List Nat)
    (h : strTok pre a b1 p1 = .tok ⟨k, x, b1, p1⟩ []) :
    strTok pre (a ++ rest) b2 p2 = .tok ⟨k, x, b2, p2⟩ rest := by
  unfold strTok at h ⊢
  cases hs : strEnd a with
  | error e => rw [hs] at h; cases h
  | ok r =>
    rw [hs] at h
    rw [strEnd_append a r.1 r.2 rest hs]
    simp only at h ⊢
    split at h
    · rename_i he
      rw [if_pos he]
      injection h with h1 h2
      injection h1 with hk hx
      rw [hk, hx, h2]; rfl
    · cases h

theorem chrTok_append (pre a rest : List Nat) (b1 p1 b2 p2 : Bool) (k : Kind) (x : List Nat)
    (h : chrTok pre a b1 p1 = .tok ⟨k, x, b1, p1⟩ []) :
    chrTok pre (a ++ rest) b2 p2 = .tok ⟨k, x, b2, p2⟩ rest := by
  unfold chrTok at h ⊢
  cases hs : charEnd a with
  | error e => rw [hs] at h; cases h
  | ok r =>
    rw [hs] at h
    rw [charEnd_append a r.1 r.2 rest hs]
    simp only at h ⊢
    injection h with h1 h2
    injection h1 with hk hx
    rw [hk, hx, h2]; rfl

theorem pre_ne (x c : Nat) (q t : List Nat) (h : c ≠ x) : (x :: q).isPrefixOf (c :: t) = false := by
  rw [List.isPrefixOf_cons_cons, beq_false_of_ne (Ne.symm h)]; rfl

theorem pre2_true (x y c : Nat) (t : List Nat) (h : [x, y].isPrefixOf (c :: t) = true) :
    c = x ∧ ∃ t', t = y :: t' := by
  cases t with
  | nil => simp [List.isPrefixOf] at h
  | cons d t' =>
    simp only [List.isPrefixOf_cons_cons, List.isPrefixOf_nil_left, Bool.and_true, Bool.and_eq_true,
      beq_iff_eq] at h
    exact ⟨h.1.symm, t', by rw [h.2]⟩

theorem pre3_true (x y z c : Nat) (t : List Nat) (h : [x, y, z].isPrefixOf (c :: t) = true) :
    c = x ∧ ∃ t', t = y :: z :: t' := by
  match t, h with
  | [], h => simp [List.isPrefixOf] at h
  | [d], h => simp [List.isPrefixOf] at h
  | d :: e :: t', h =>
    simp only [List.isPrefixOf_cons_cons, List.isPrefixOf_nil_left, Bool.and_true, Bool.and_eq_true,
      beq_iff_eq] at h
    exact ⟨h.1.symm, t', by rw [h.2.1, h.2.2]⟩


/-! ### character classes and the fusion predicate -/

theorem ident1_cases (c : Nat) (h : isIdent1 c = true) :
    c ≥ 128 ∨ c = 95 ∨ c = 36 ∨ (65 ≤ c ∧ c ≤ 90) ∨ (97 ≤ c ∧ c ≤ 122) := by
  simp [isIdent1, inRange, ident1Ranges] at h
  omega

theorem ident2_cases (c : Nat) (h : isIdent2 c = true) :
    c ≥ 128 ∨ c = 95 ∨ c = 36 ∨ (48 ≤ c ∧ c ≤ 57) ∨ (65 ≤ c ∧ c ≤ 90) ∨ (97 ≤ c ∧ c ≤ 122) := by
  simp only [isIdent2, Bool.or_eq_true] at h
  rcases h with h | h
  · have := ident1_cases c h; omega
  · simp [inRange, ident2Ranges] at h
    omega

theorem isIdent2_isWordChar (c : Nat) (h : isIdent2 c = true) : isWordChar c = true := by
  have := ident2_cases c h
  simp [isWordChar, isAlnum, isDigit, isUpper, isLower]
  omega

/-- `rest` may follow the spelling `c :: a` without changing how that spelling is scanned:
    one condition per token class, in terms of the last character `l` of the spelling and the first of `rest` -/
def noFuse (c : Nat) (a rest : List Nat) : Prop :=
  (isNumStart (c :: a) = true → ppStop (lastOr c a) rest) ∧
  (isIdent1 c = true → isWordChar (lastOr c a) = true →
      headIs (fun r => isIdent2 r || r == 34 || r == 39) rest = false) ∧
  (isNumStart (c :: a) = false → isIdent1 c = false → c ≠ 34 → c ≠ 39 →
      punctStop (lastOr c a) rest ∧ ((lastOr c a == 46) && headIs isDigit rest) = false)

theorem identTake_all (a : List Nat) (h : identTake a = (a, [])) : ∀ x ∈ a, isIdent2 x = true := by
  induction a with
  | nil => intro x hx; cases hx
  | cons c t ih =>
    rw [identTake.eq_2] at h
    split at h
    · rename_i hc
      simp only [Prod.mk.injEq, List.cons.injEq, true_and] at h
      intro x hx
      rcases List.mem_cons.mp hx with rfl | hx
      · exact hc
      · exact ih (Prod.ext h.1 h.2) x hx
    · simp at h

theorem isNumStart_iff (c : Nat) (a : List Nat) :
    isNumStart (c :: a) = (isDigit c || (c == 46 && headIs isDigit a)) := by
  cases a with
  | nil => simp [isNumStart, headIs]
  | cons d t => simp [isNumStart, headIs]


/-! ### the key step: a self-lexing spelling followed by text that does not fuse with it -/

theorem pre2_append_false (x y c : Nat) (a rest : List Nat) (h : ¬ [x, y].isPrefixOf (c :: a) = true)
    (hr : a = [] → c = x → headIs (fun r => y == r) rest = false) :
    ¬ [x, y].isPrefixOf (c :: (a ++ rest)) = true := by
  cases a with
  | nil =>
    by_cases hcx : c = x
    · have := hr rfl hcx
      cases rest with
      | nil => simp [List.isPrefixOf]
      | cons r t =>
        simp only [headIs] at this
        simp only [List.nil_append, List.isPrefixOf_cons_cons, this]; simp
    · rw [List.nil_append, pre_ne x c _ _ hcx]; simp
  | cons d t => exact h

theorem pre3_append_false (x y z c : Nat) (a rest : List Nat) (h : ¬ [x, y, z].isPrefixOf (c :: a) = true)
    (hr1 : headIs (fun r => y == r) rest = false) (hr2 : headIs (fun r => z == r) rest = false) :
    ¬ [x, y, z].isPrefixOf (c :: (a ++ rest)) = true := by
  match a, h with
  | [], h =>
    cases rest with
    | nil => simp [List.isPrefixOf]
    | cons r t =>
      simp only [headIs] at hr1
      simp only [List.nil_append, List.isPrefixOf_cons_cons, hr1]; simp
  | [d], h =>
    cases rest with
    | nil => simp [List.isPrefixOf]
    | cons r t =>
      simp only [headIs] at hr2
      simp only [List.cons_append, List.nil_append, List.isPrefixOf_cons_cons, hr2]; simp
  | d :: e :: t, h => exact h

theorem headIs_false_of (p q : Nat → Bool) (rest : List Nat) (h : headIs p rest = false)
    (hpq : ∀ r, q r = true → p r = true) : headIs q rest = false := by
  cases rest with
  | nil => rfl
  | cons r t =>
    simp only [headIs] at h ⊢
    cases hq : q r with
    | false => rfl
    | true => rw [hpq r hq] at h; cases h

theorem lexStep_append (c : Nat) (a rest : List Nat) (k : Kind) (b1 p1 bol sp : Bool)
    (h : lexStep (c :: a) b1 p1 = .tok ⟨k, c :: a, b1, p1⟩ [])
    (hf : noFuse c a rest) :
    lexStep (c :: a ++ rest) bol sp = .tok ⟨k, c :: a, bol, sp⟩ rest := by
  rw [lexStep.eq_2] at h
  by_cases hlc : [47, 47].isPrefixOf (c :: a) = true
  · rw [if_pos hlc] at h
    cases h
  rw [if_neg hlc] at h
  by_cases hbc : [47, 42].isPrefixOf (c :: a) = true
  · rw [if_pos hbc] at h
    generalize findCommentEnd (List.drop 1 a) = o at h
    cases o <;> cases h
  rw [if_neg hbc] at h
  by_cases hnl : (c == 10) = true
  · rw [if_pos hnl] at h; cases h
  rw [if_neg hnl] at h
  by_cases hsp : isSpace c = true
  · rw [if_pos hsp] at h; cases h
  rw [if_neg hsp] at h
  by_cases hnum : (isDigit c || c == 46 && headIs isDigit a) = true
  · -- pp-number
    rw [if_pos hnum] at h
    simp only at h
    injection h with h1 h2
    injection h1 with hk ht
    have hpp : ppTake a = (a, []) := Prod.ext (List.cons.inj ht).2 h2
    have hstop := hf.1 (by rw [isNumStart_iff]; exact hnum)
    have hc : isDigit c = true ∨ c = 46 := by
      simp only [Bool.or_eq_true, Bool.and_eq_true, beq_iff_eq] at hnum
      rcases hnum with h | h
      · exact Or.inl h
      · exact Or.inr h.1
    have hc47 : c ≠ 47 := by
      rcases hc with h | h
      · simp [isDigit] at h; omega
      · omega
    have hnum' : (isDigit c || c == 46 && headIs isDigit (a ++ rest)) = true := by
      cases a with
      | nil =>
        -- `.` alone is not a pp-number, so `c` is a digit here
        simp only [headIs, Bool.and_false, Bool.or_false] at hnum
        simp [hnum]
      | cons d t => exact hnum
    rw [List.cons_append, lexStep.eq_2, pre_ne 47 c _ _ hc47, pre_ne 47 c _ _ hc47]
    simp only [Bool.false_eq_true, if_false]
    rw [if_neg hnl, if_neg hsp, if_pos hnum', ppTake_append a c rest hpp hstop, ← hk]
  rw [if_neg hnum] at h
  by_cases hq : (c == 34) = true
  · rw [if_pos hq] at h
    have := eq_of_beq hq; subst this
    rw [List.cons_append, lexStep_q]
    exact strTok_append _ _ _ _ _ _ _ _ _ h
  rw [if_neg hq] at h
  by_cases hp1 : [117, 56, 34].isPrefixOf (c :: a) = true
  · rw [if_pos hp1] at h
    obtain ⟨rfl, a', rfl⟩ := pre3_true _ _ _ _ _ hp1
    exact strTok_append _ _ _ _ _ _ _ _ _ h
  rw [if_neg hp1] at h
  by_cases hp2 : [117, 34].isPrefixOf (c :: a) = true
  · rw [if_pos hp2] at h
    obtain ⟨rfl, a', rfl⟩ := pre2_true _ _ _ _ hp2
    exact strTok_append _ _ _ _ _ _ _ _ _ h
  rw [if_neg hp2] at h
  by_cases hp3 : [76, 34].isPrefixOf (c :: a) = true
  · rw [if_pos hp3] at h
    obtain ⟨rfl, a', rfl⟩ := pre2_true _ _ _ _ hp3
    exact strTok_append _ _ _ _ _ _ _ _ _ h
  rw [if_neg hp3] at h
  by_cases hp4 : [85, 34].isPrefixOf (c :: a) = true
  · rw [if_pos hp4] at h
    obtain ⟨rfl, a', rfl⟩ := pre2_true _ _ _ _ hp4
    exact strTok_append _ _ _ _ _ _ _ _ _ h
  rw [if_neg hp4] at h
  by_cases hap : (c == 39) = true
  · rw [if_pos hap] at h
    have := eq_of_beq hap; subst this
    rw [List.cons_append, lexStep_a]
    exact chrTok_append _ _ _ _ _ _ _ _ _ h
  rw [if_neg hap] at h
  by_cases hp5 : [117, 39].isPrefixOf (c :: a) = true
  · rw [if_pos hp5] at h
    obtain ⟨rfl, a', rfl⟩ := pre2_true _ _ _ _ hp5
    exact chrTok_append _ _ _ _ _ _ _ _ _ h
  rw [if_neg hp5] at h
  by_cases hp6 : [76, 39].isPrefixOf (c :: a) = true
  · rw [if_pos hp6] at h
    obtain ⟨rfl, a', rfl⟩ := pre2_true _ _ _ _ hp6
    exact chrTok_append _ _ _ _ _ _ _ _ _ h
  rw [if_neg hp6] at h
  by_cases hp7 : [85, 39].isPrefixOf (c :: a) = true
  · rw [if_pos hp7] at h
    obtain ⟨rfl, a', rfl⟩ := pre2_true _ _ _ _ hp7
    exact chrTok_append _ _ _ _ _ _ _ _ _ h
  rw [if_neg hp7] at h
  have hnum0 : isNumStart (c :: a) = false := by
    rw [isNumStart_iff]; exact Bool.eq_false_iff.mpr hnum
  have hc34 : c ≠ 34 := fun e => hq (by rw [e]; rfl)
  have hc39 : c ≠ 39 := fun e => hap (by rw [e]; rfl)
  by_cases hid : isIdent1 c = true
  · -- identifier
    rw [if_pos hid] at h
    simp only at h
    injection h with h1 h2
    injection h1 with hk ht
    have hit : identTake a = (a, []) := Prod.ext (List.cons.inj ht).2 h2
    have hall := identTake_all a hit
    have hc2 : isIdent2 c = true := by simp [isIdent2, hid]
    have hlw : isWordChar (lastOr c a) = true := by
      apply isIdent2_isWordChar
      rcases List.mem_cons.mp (lastOr_mem c a) with e | e
      · rw [e]; exact hc2
      · exact hall _ e
    have hstop := hf.2.1 hid hlw
    have hc' := ident1_cases c hid
    have hc47 : c ≠ 47 := by omega
    have hr2 : headIs isIdent2 rest = false :=
      headIs_false_of _ _ rest hstop (fun r hr => by simp [hr])
    have hr34 : headIs (fun r => 34 == r) rest = false :=
      headIs_false_of _ _ rest hstop (fun r hr => by have := eq_of_beq hr; subst this; rfl)
    have hr39 : headIs (fun r => 39 == r) rest = false :=
      headIs_false_of _ _ rest hstop (fun r hr => by have := eq_of_beq hr; subst this; rfl)
    have hr56 : headIs (fun r => 56 == r) rest = false :=
      headIs_false_of _ _ rest hr2 (fun r hr => by have := eq_of_beq hr; subst this; decide)
    have hnum' : ¬ (isDigit c || c == 46 && headIs isDigit (a ++ rest)) = true := by
      simp [isDigit]; omega
    rw [List.cons_append, lexStep.eq_2, pre_ne 47 c _ _ hc47, pre_ne 47 c _ _ hc47]
    simp only [Bool.false_eq_true, if_false]
    rw [if_neg hnl, if_neg hsp, if_neg hnum', if_neg hq,
      if_neg (pre3_append_false _ _ _ _ _ _ hp1 hr56 hr34),
      if_neg (pre2_append_false _ _ _ _ _ hp2 (fun _ _ => hr34)),
      if_neg (pre2_append_false _ _ _ _ _ hp3 (fun _ _ => hr34)),
      if_neg (pre2_append_false _ _ _ _ _ hp4 (fun _ _ => hr34)),
      if_neg hap,
      if_neg (pre2_append_false _ _ _ _ _ hp5 (fun _ _ => hr39)),
      if_neg (pre2_append_false _ _ _ _ _ hp6 (fun _ _ => hr39)),
      if_neg (pre2_append_false _ _ _ _ _ hp7 (fun _ _ => hr39)),
      if_pos hid, identTake_append a rest hit hr2, ← hk]
  -- punctuator
  rw [if_neg hid] at h
  have hid0 : isIdent1 c = false := Bool.eq_false_iff.mpr hid
  obtain ⟨hps, hdot⟩ := hf.2.2 hnum0 hid0 hc34 hc39
  simp only at h
  by_cases hn0 : (readPunct (c :: a) == 0) = true
  · rw [if_pos hn0] at h; cases h
  rw [if_neg hn0] at h
  injection h with h1 h2
  injection h1 with hk ht
  have hlen : readPunct (c :: a) = (c :: a).length := by
    have h1 := readPunct_le_length (c :: a)
    have h2 : (c :: a).length ≤ readPunct (c :: a) := List.drop_eq_nil_iff.mp h2
    omega
  have hslash : ∀ y, y = 47 ∨ y = 42 → a = [] → c = 47 → headIs (fun r => y == r) rest = false := by
    intro y hy ha hc
    subst ha; subst hc
    unfold punctStop at hps
    simp only [lastOr] at hps
    have h47 : ops.contains 47 = true := by decide
    rw [h47, Bool.true_and] at hps
    apply headIs_false_of _ _ rest hps
    intro r hr
    have := eq_of_beq hr; subst this
    rcases hy with rfl | rfl <;> decide
  have hnum' : ¬ (isDigit c || c == 46 && headIs isDigit (a ++ rest)) = true := by
    cases a with
    | nil =>
      simp only [lastOr] at hdot
      simp only [headIs, Bool.and_false, Bool.or_false] at hnum
      rw [List.nil_append]
      intro hh
      simp only [Bool.or_eq_true, Bool.and_eq_true] at hh
      rcases hh with hh | hh
      · exact hnum hh
      · rw [hh.1, hh.2] at hdot; cases hdot
    | cons d t => exact hnum
  have hc117 : c ≠ 117 := fun e => hid (by rw [e]; decide)
  have hc76 : c ≠ 76 := fun e => hid (by rw [e]; decide)
  have hc85 : c ≠ 85 := fun e => hid (by rw [e]; decide)
  rw [List.cons_append, lexStep.eq_2,
    if_neg (pre2_append_false _ _ _ _ _ hlc (hslash 47 (Or.inl rfl))),
    if_neg (pre2_append_false _ _ _ _ _ hbc (hslash 42 (Or.inr rfl))),
    if_neg hnl, if_neg hsp, if_neg hnum', if_neg hq,
    pre_ne 117 c _ _ hc117, pre_ne 117 c _ _ hc117, pre_ne 76 c _ _ hc76, pre_ne 85 c _ _ hc85]
  simp only [Bool.false_eq_true, if_false]
  rw [if_neg hap, pre_ne 117 c _ _ hc117, pre_ne 76 c _ _ hc76, pre_ne 85 c _ _ hc85]
  simp only [Bool.false_eq_true, if_false]
  rw [if_neg hid]
  have hrp : readPunct (c :: (a ++ rest)) = (c :: a).length := by
    rw [← List.cons_append, readPunct_append c a rest hps, hlen]
  show (if (readPunct (c :: (a ++ rest)) == 0) = true then _ else _) = _
  rw [hrp, if_neg (by simp)]
  rw [← List.cons_append, List.take_left', List.drop_left', ← hk]
  · rfl
  · rfl


/-! ### when nothing fuses: end of text, white space, and `need_space = false` -/

theorem noFuse_nil (c : Nat) (a : List Nat) : noFuse c a [] := by
  refine ⟨fun _ => ⟨rfl, ?_⟩, fun _ _ => rfl, fun _ _ _ _ => ⟨?_, ?_⟩⟩
  · simp [headIs]
  · simp [punctStop, headIs]
  · simp [headIs]

/-- a blank or a newline never fuses with what precedes it -/
theorem noFuse_blank (c : Nat) (a : List Nat) (r : Nat) (x : List Nat) (hr : r = 32 ∨ r = 10) :
    noFuse c a (r :: x) := by
  refine ⟨fun _ => ⟨?_, ?_⟩, fun _ _ => ?_, fun _ _ _ _ => ⟨?_, ?_⟩⟩
  · simp only [headIs]; rcases hr with rfl | rfl <;> decide
  · have : ppSignChars.contains r = false := by rcases hr with rfl | rfl <;> decide
    simp only [headIs, this, Bool.and_false]
  · simp only [headIs]; rcases hr with rfl | rfl <;> decide
  · have : ops.contains r = false := by rcases hr with rfl | rfl <;> decide
    simp only [punctStop, headIs, this, Bool.and_false]
  · have : isDigit r = false := by rcases hr with rfl | rfl <;> decide
    simp only [headIs, this, Bool.and_false]

/-- **soundness of `need_space` at the character level**: when `need_space` answers "no space needed" for the
    spellings `c :: a` and `b :: bt`, nothing that starts with `b` fuses with `c :: a` -/
theorem noFuse_of_needSpace (c : Nat) (a : List Nat) (b : Nat) (bt x : List Nat)
    (h : needSpace (c :: a) (b :: bt) = false) : noFuse c a (b :: x) := by
  unfold noFuse
  unfold needSpace at h
  rw [getLast?_cons_lastOr] at h
  simp only [List.head?_cons] at h
  generalize lastOr c a = l at h ⊢
  unfold needSpaceCore at h
  split at h
  · cases h
  rename_i h1
  split at h
  · cases h
  rename_i h2
  split at h
  · cases h
  rename_i h3
  refine ⟨fun hn => ⟨?_, ?_⟩, fun _ hw => ?_, fun _ _ _ _ => ⟨?_, ?_⟩⟩
  · rw [hn] at h2
    simp only [headIs]
    simp only [Bool.true_and, Bool.or_eq_true, not_or, Bool.not_eq_true] at h2
    rw [h2.1.2, Bool.false_or]
    simpa using h2.1.1
  · rw [hn] at h2
    simp only [headIs]
    simp only [Bool.true_and, Bool.or_eq_true, not_or, Bool.not_eq_true] at h2
    have h22 := h2.2
    apply Bool.eq_false_iff.mpr
    intro hh
    simp only [ppExpChars, ppSignChars, Bool.and_eq_true, List.contains_eq_mem, List.mem_cons,
      List.not_mem_nil, or_false, decide_eq_true_eq] at hh
    simp only [Bool.and_eq_false_iff, Bool.or_eq_false_iff, List.contains_eq_mem, List.mem_cons,
      List.not_mem_nil, or_false, decide_eq_false_iff_not, beq_eq_false_iff_ne] at h22
    omega
  · rw [hw] at h1
    simp only [headIs]
    simp only [Bool.true_and, Bool.or_eq_true, not_or, Bool.not_eq_true] at h1
    cases hb2 : isIdent2 b with
    | true => rw [isIdent2_isWordChar b hb2] at h1; exact absurd h1.1.1 (by simp)
    | false => rw [h1.1.2, h1.2]; rfl
  · exact Bool.eq_false_iff.mpr (by simpa [punctStop, headIs] using h)
  · simp only [headIs]; exact Bool.eq_false_iff.mpr h3


/-! ### inversion of a token-producing step: flags, partition of the input, non-empty spelling -/

theorem ppTake_partition (s : List Nat) : (ppTake s).1 ++ (ppTake s).2 = s := by
  induction s using ppTake.induct with
  | case1 => rfl
  | case2 c d t' hc ih => rw [ppTake_cons_exp c d t' hc]; simp [ih]
  | case3 c hc => simp [headIs] at hc
  | case4 c t hc hal ih => rw [ppTake_cons_alnum c t hc hal]; simp [ih]
  | case5 c t hc hal => rw [ppTake_cons_stop c t hc hal]; rfl

theorem strEnd_partition (a : List Nat) : ∀ r, strEnd a = .ok r → r.1 ++ r.2 = a := by
  induction a using strEnd.induct with
  | case1 => intro r h; simp [strEnd] at h
  | case2 c t hc => intro r h; rw [strEnd_cons_quote c t hc] at h; cases h; rfl
  | case3 c t h1 h2 =>
    intro r h
    cases t with
    | nil => rw [strEnd.eq_2, if_neg h1, if_pos h2] at h; cases h
    | cons d t' => rw [strEnd.eq_3, if_neg h1, if_pos h2] at h; cases h
  | case4 c h1 h2 h3 => intro r h; rw [strEnd.eq_2, if_neg h1, if_neg h2, if_pos h3] at h; cases h
  | case5 c h1 h2 h3 d t r0 hr ih =>
    intro r h
    rw [strEnd_cons_bs c d t h1 h2 h3, hr] at h
    cases h
    simp [ih r0 hr]
  | case6 c h1 h2 h3 d t e he ih => intro r h; rw [strEnd_cons_bs c d t h1 h2 h3, he] at h; cases h
  | case7 c t h1 h2 h3 r0 hr ih =>
    intro r h
    rw [strEnd_cons_other c t h1 h2 h3, hr] at h
    cases h
    simp [ih r0 hr]
  | case8 c t h1 h2 h3 e he ih => intro r h; rw [strEnd_cons_other c t h1 h2 h3, he] at h; cases h

theorem findQuote_partition (a : List Nat) : ∀ r, findQuote a = some r → r.1 ++ r.2 = a := by
  induction a with
  | nil => intro r h; simp [findQuote] at h
  | cons c t ih =>
    intro r h
    rw [findQuote.eq_2] at h
    split at h
    · cases h; rfl
    · cases hq : findQuote t with
      | none => rw [hq] at h; cases h
      | some r0 => rw [hq] at h; cases h; simp [ih r0 hq]

theorem charEnd_partition (a : List Nat) (r : List Nat × List Nat) (h : charEnd a = .ok r) : r.1 ++ r.2 = a := by
  match a, h with
  | [], h => simp [charEnd] at h
  | [c], h =>
    rw [charEnd.eq_2] at h
    split at h
    · cases h
    · simp [findQuote] at h
  | c :: d :: t', h =>
    rw [charEnd.eq_3] at h
    split at h
    · split at h
      · cases h
      · cases hq : findQuote t' with
        | none => rw [hq] at h; cases h
        | some r0 => rw [hq] at h; cases h; simp [findQuote_partition t' r0 hq]
    · cases hq : findQuote (d :: t') with
      | none => rw [hq] at h; cases h
      | some r0 => rw [hq] at h; cases h; simp [findQuote_partition (d :: t') r0 hq]

theorem identTake_partition (s : List Nat) : (identTake s).1 ++ (identTake s).2 = s := by
  induction s with
  | nil => rfl
  | cons c t ih =>
    rw [identTake.eq_2]
    split
    · simp [ih]
    · rfl

/-- what a token-producing step looks like -/
structure TokOk (s : List Nat) (bol sp : Bool) (t : Tok) (r : List Nat) : Prop where
  bol : t.atBol = bol
  sp : t.hasSpace = sp
  part : t.text ++ r = s
  ne : t.text ≠ []

theorem strTok_inv (pre a : List Nat) (bol sp : Bool) (t : Tok) (r : List Nat) (hpre : pre ≠ [])
    (h : strTok pre a bol sp = .tok t r) : TokOk (pre ++ a) bol sp t r := by
  unfold strTok at h
  cases hs : strEnd a with
  | error e => rw [hs] at h; cases h
  | ok r0 =>
    rw [hs] at h
    simp only at h
    split at h
    · injection h with h1 h2
      subst h1; subst h2
      exact ⟨rfl, rfl, by simp [strEnd_partition a r0 hs], by simp [hpre]⟩
    · cases h

theorem chrTok_inv (pre a : List Nat) (bol sp : Bool) (t : Tok) (r : List Nat) (hpre : pre ≠ [])
    (h : chrTok pre a bol sp = .tok t r) : TokOk (pre ++ a) bol sp t r := by
  unfold chrTok at h
  cases hs : charEnd a with
  | error e => rw [hs] at h; cases h
  | ok r0 =>
    rw [hs] at h
    simp only at h
    injection h with h1 h2
    subst h1; subst h2
    exact ⟨rfl, rfl, by simp [charEnd_partition a r0 hs], by simp [hpre]⟩

theorem lexStep_tok_inv (s : List Nat) (bol sp : Bool) (t : Tok) (r : List Nat)
    (h : lexStep s bol sp = .tok t r) : TokOk s bol sp t r := by
  cases s with
  | nil => simp [lexStep] at h
  | cons c a =>
  rw [lexStep.eq_2] at h
  by_cases hlc : [47, 47].isPrefixOf (c :: a) = true
  · rw [if_pos hlc] at h
    cases h
  rw [if_neg hlc] at h
  by_cases hbc : [47, 42].isPrefixOf (c :: a) = true
  · rw [if_pos hbc] at h
    generalize findCommentEnd (List.drop 1 a) = o at h
    cases o <;> cases h
  rw [if_neg hbc] at h
  by_cases hnl : (c == 10) = true
  · rw [if_pos hnl] at h; cases h
  rw [if_neg hnl] at h
  by_cases hsp : isSpace c = true
  · rw [if_pos hsp] at h; cases h
  rw [if_neg hsp] at h
  by_cases hnum : (isDigit c || c == 46 && headIs isDigit a) = true
  · rw [if_pos hnum] at h
    simp only at h
    injection h with h1 h2
    subst h1; subst h2
    exact ⟨rfl, rfl, by simp [ppTake_partition a], by simp⟩
  rw [if_neg hnum] at h
  by_cases hq : (c == 34) = true
  · rw [if_pos hq] at h
    have := eq_of_beq hq; subst this
    exact strTok_inv [34] a bol sp t r (by simp) h
  rw [if_neg hq] at h
  by_cases hp1 : [117, 56, 34].isPrefixOf (c :: a) = true
  · rw [if_pos hp1] at h
    obtain ⟨rfl, a', rfl⟩ := pre3_true _ _ _ _ _ hp1
    exact strTok_inv [117, 56, 34] a' bol sp t r (by simp) h
  rw [if_neg hp1] at h
  by_cases hp2 : [117, 34].isPrefixOf (c :: a) = true
  · rw [if_pos hp2] at h
    obtain ⟨rfl, a', rfl⟩ := pre2_true _ _ _ _ hp2
    exact strTok_inv [117, 34] a' bol sp t r (by simp) h
  rw [if_neg hp2] at h
  by_cases hp3 : [76, 34].isPrefixOf (c :: a) = true
  · rw [if_pos hp3] at h
    obtain ⟨rfl, a', rfl⟩ := pre2_true _ _ _ _ hp3
    exact strTok_inv [76, 34] a' bol sp t r (by simp) h
  rw [if_neg hp3] at h
  by_cases hp4 : [85, 34].isPrefixOf (c :: a) = true
  · rw [if_pos hp4] at h
    obtain ⟨rfl, a', rfl⟩ := pre2_true _ _ _ _ hp4
    exact strTok_inv [85, 34] a' bol sp t r (by simp) h
  rw [if_neg hp4] at h
  by_cases hap : (c == 39) = true
  · rw [if_pos hap] at h
    have := eq_of_beq hap; subst this
    exact chrTok_inv [39] a bol sp t r (by simp) h
  rw [if_neg hap] at h
  by_cases hp5 : [117, 39].isPrefixOf (c :: a) = true
  · rw [if_pos hp5] at h
    obtain ⟨rfl, a', rfl⟩ := pre2_true _ _ _ _ hp5
    exact chrTok_inv [117, 39] a' bol sp t r (by simp) h
  rw [if_neg hp5] at h
  by_cases hp6 : [76, 39].isPrefixOf (c :: a) = true
  · rw [if_pos hp6] at h
    obtain ⟨rfl, a', rfl⟩ := pre2_true _ _ _ _ hp6
    exact chrTok_inv [76, 39] a' bol sp t r (by simp) h
  rw [if_neg hp6] at h
  by_cases hp7 : [85, 39].isPrefixOf (c :: a) = true
  · rw [if_pos hp7] at h
    obtain ⟨rfl, a', rfl⟩ := pre2_true _ _ _ _ hp7
    exact chrTok_inv [85, 39] a' bol sp t r (by simp) h
  rw [if_neg hp7] at h
  by_cases hid : isIdent1 c = true
  · rw [if_pos hid] at h
    simp only at h
    injection h with h1 h2
    subst h1; subst h2
    exact ⟨rfl, rfl, by simp [identTake_partition a], by simp⟩
  rw [if_neg hid] at h
  simp only at h
  by_cases hn0 : (readPunct (c :: a) == 0) = true
  · rw [if_pos hn0] at h; cases h
  rw [if_neg hn0] at h
  injection h with h1 h2
  subst h1; subst h2
  refine ⟨rfl, rfl, List.take_append_drop _ _, ?_⟩
  have : readPunct (c :: a) ≠ 0 := by simpa using hn0
  obtain ⟨n, hn⟩ : ∃ n, readPunct (c :: a) = n + 1 := ⟨readPunct (c :: a) - 1, by omega⟩
  simp [hn]


end ChibiVerif.Lex
