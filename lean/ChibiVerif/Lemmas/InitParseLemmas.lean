/-
C05, parser = specification: the small helper functions of the parser transcription against their counterparts in the
specification (`struct_designator` / `findMember`, the unnamed-bit-field skips / `nextNamed`, `assign` / `tokExpr`,
`array_designator`, `string_initializer` / `stringValue`).
-/
import ChibiVerif.Lemmas.InitSpecLemmas

namespace ChibiVerif.InitSpec
open ChibiVerif.Init

/-! ### children -/

theorem getChild_ok {cs : List Init} {i : Nat} {c : Init} (h : getChild cs i = .ok c) : cs[i]? = some c := by
  unfold getChild at h
  split at h
  · cases h; assumption
  · cases h

theorem memTy_ok {ms : Members} {k : Nat} {t : Ty} (h : memTy ms k = .ok t) : ∃ mi, ms[k]? = some (mi, t) := by
  unfold memTy at h
  split at h
  · rename_i mi t' hk; cases h; exact ⟨mi, hk⟩
  · cases h

/-! ### `assign` -/

theorem parseAssign_ok {toks rest : List ITok} {e : Expr} (h : parseAssign toks = .ok (e, rest)) :
    ∃ tok, toks = tok :: rest ∧ tokExpr tok = some e ∧ tok ≠ .lbrace ∧ startable tok = true ∧
      ((∃ e', tok = .expr e' ∧ e = e') ∨ (isStrTok tok = true ∧ e.isStruct = false ∧ e.isUnion = false)) := by
  unfold parseAssign at h
  split at h
  · cases h; exact ⟨_, rfl, rfl, by simp, rfl, Or.inl ⟨_, rfl, rfl⟩⟩
  · cases h; exact ⟨_, rfl, rfl, by simp, rfl, Or.inr ⟨rfl, rfl, rfl⟩⟩
  · cases h

/-! ### unnamed bit-fields -/

theorem nextNamed_fuel (ms : Members) : ∀ (n i : Nat), ms.length ≤ i + n → nextNamed ms n i = nextNamed ms (n+1) i
  | 0, i, h => by
    have : ms[i]? = none := List.getElem?_eq_none (by omega)
    simp [nextNamed, this]
  | n+1, i, h => by
    rw [nextNamed, nextNamed]
    cases hi : ms[i]? with
    | none => rfl
    | some m =>
      obtain ⟨mi, t⟩ := m
      simp only
      split
      · exact nextNamed_fuel ms n (i+1) (by omega)
      · rfl

theorem nextNamed_fuel_le (ms : Members) (i : Nat) {n n' : Nat} (h : ms.length ≤ i + n) (hle : n ≤ n') :
    nextNamed ms n i = nextNamed ms n' i := by
  induction hle with
  | refl => rfl
  | @step m hle ih =>
    have hle' : n ≤ m := hle
    rw [ih]; exact nextNamed_fuel ms m i (by omega)

/-- stepping over an unnamed bit-field -/
theorem nextNamed_skip {ms : Members} {i : Nat} {mi : MemInfo} {t : Ty} (hi : ms[i]? = some (mi, t)) (hu : unnamedBf mi = true) :
    nextNamed ms ms.length i = nextNamed ms ms.length (i+1) := by
  have hlt : i < ms.length := (List.getElem?_eq_some_iff.mp hi).1
  obtain ⟨n, hn⟩ : ∃ n, ms.length = n + 1 := ⟨ms.length - 1, by omega⟩
  rw [hn, nextNamed]
  simp only [hi, hu, ↓reduceIte]
  rw [← hn]
  exact nextNamed_fuel_le ms (i+1) (by omega) (by omega)

theorem nextNamed_here {ms : Members} {i : Nat} {mi : MemInfo} {t : Ty} (hi : ms[i]? = some (mi, t)) (hu : unnamedBf mi = false) :
    nextNamed ms ms.length i = some i := by
  have hlt : i < ms.length := (List.getElem?_eq_some_iff.mp hi).1
  obtain ⟨n, hn⟩ : ∃ n, ms.length = n + 1 := ⟨ms.length - 1, by omega⟩
  rw [hn, nextNamed]
  simp [hi, hu]

theorem nextNamed_past {ms : Members} {i : Nat} (hi : ms[i]? = none) : nextNamed ms ms.length i = none := by
  cases hn : ms.length with
  | zero => rfl
  | succ n => rw [nextNamed]; simp [hi]

theorem nextNamed_some {ms : Members} : ∀ {n i j : Nat}, nextNamed ms n i = some j →
    i ≤ j ∧ ∃ mi t, ms[j]? = some (mi, t) ∧ unnamedBf mi = false
  | 0, _, _, h => by simp [nextNamed] at h
  | n+1, i, j, h => by
    rw [nextNamed] at h
    cases hi : ms[i]? with
    | none => simp [hi] at h
    | some m =>
      obtain ⟨mi, t⟩ := m
      simp only [hi] at h
      split at h
      · obtain ⟨h1, h2⟩ := nextNamed_some h
        exact ⟨by omega, h2⟩
      · rename_i hu
        cases h
        exact ⟨Nat.le_refl _, mi, t, hi, by simpa using hu⟩

/-- `while (mem && mem->is_bitfield && !mem->name) mem = mem->next` lands on the specification's next participating member -/
theorem skipUnnamedBf_spec (ms : Members) : ∀ (n i : Nat), ms.length ≤ i + n →
    nextNamed ms n i = (if skipUnnamedBf ms n i < ms.length then some (skipUnnamedBf ms n i) else none)
  | 0, i, h => by
    have : ¬ i < ms.length := by omega
    simp [nextNamed, skipUnnamedBf, this]
  | n+1, i, h => by
    rw [nextNamed, skipUnnamedBf]
    cases hi : ms[i]? with
    | none =>
      have : ¬ i < ms.length := by
        intro hlt; simp [List.getElem?_eq_getElem hlt] at hi
      simp [this]
    | some m =>
      obtain ⟨mi, t⟩ := m
      have hlt : i < ms.length := (List.getElem?_eq_some_iff.mp hi).1
      simp only [unnamedBf]
      by_cases hu : (mi.bf.isSome && mi.name.isNone) = true
      · simp only [hu, ↓reduceIte]
        exact skipUnnamedBf_spec ms n (i+1) (by omega)
      · simp only [hu, Bool.false_eq_true, ↓reduceIte, hlt]

/-- the union default member: `while (mem->next && mem->is_bitfield && !mem->name) mem = mem->next` -/
theorem firstNamed_spec (ms : Members) : ∀ (n i k : Nat), nextNamed ms n i = some k → firstNamed ms n i = k
  | 0, _, _, h => by simp [nextNamed] at h
  | n+1, i, k, h => by
    rw [nextNamed] at h
    rw [firstNamed]
    cases hi : ms[i]? with
    | none => simp [hi] at h
    | some m =>
      obtain ⟨mi, t⟩ := m
      simp only [hi, unnamedBf] at h
      by_cases hu : (mi.bf.isSome && mi.name.isNone) = true
      · simp only [hu, ↓reduceIte] at h
        have hk := (nextNamed_some h).1
        obtain ⟨mi', t', hk', _⟩ := (nextNamed_some h).2
        have hlt : k < ms.length := (List.getElem?_eq_some_iff.mp hk').1
        have : (i + 1) < ms.length := by omega
        simp only [List.getElem?_eq_getElem this, hu, ↓reduceIte]
        exact firstNamed_spec ms n (i+1) k h
      · simp only [hu, Bool.false_eq_true, ↓reduceIte] at h
        cases h
        cases h2 : ms[i+1]? with
        | none => rfl
        | some _ => simp [hu]

/-! ### `struct_designator` -/

mutual
  theorem hasMember_find : ∀ (t : Ty) (n : String), hasMember t n = (findMember t n).isSome
    | .struct ms _ _, n => by rw [hasMember, findMember]; exact hasMemberMs_find ms n 0
    | .union ms _ _, n => by rw [hasMember, findMember]; exact hasMemberMs_find ms n 0
    | .scalar _ _, _ => rfl
    | .array _ _, _ => rfl
    | .inc _, _ => rfl
  theorem hasMemberMs_find : ∀ (ms : Members) (n : String) (i : Nat), hasMemberMs ms n = (findMemberMs ms n i).isSome
    | [], _, _ => rfl
    | (mi, t) :: r, n, i => by
      rw [hasMemberMs, findMemberMs]
      split
      · rw [hasMember_find t n, hasMemberMs_find r n (i+1)]
        cases findMember t n <;> simp
      · cases hn : mi.name with
        | none => simp [hasMemberMs_find r n (i+1)]
        | some m =>
          simp only
          by_cases hm : m = n
          · simp [hm]
          · have : ¬ (some m = some n) := by simpa using hm
            simp [hm, this, hasMemberMs_find r n (i+1)]
end

/-- `struct_designator` finds the member the specification's `findMember` finds: directly (`[k]`), or the anonymous
    struct/union member `k` through which the name is reached -/
theorem structDesignator_spec (name : String) : ∀ (ms : Members) (i k : Nat) (anon : Bool),
    structDesignator name ms i = .ok (k, anon) →
    ∃ j mi t, k = i + j ∧ ms[j]? = some (mi, t) ∧
      ((anon = false ∧ findMemberMs ms name i = some [k]) ∨
       (anon = true ∧ t.isAgg = true ∧ ∃ mp, findMember t name = some mp ∧ findMemberMs ms name i = some (k :: mp)))
  | [], _, _, _, h => by cases h
  | (mi, t) :: r, i, k, anon, h => by
    rw [structDesignator] at h
    have lift : ∀ (e : findMemberMs ((mi, t) :: r) name i = findMemberMs r name (i+1)),
        structDesignator name r (i+1) = .ok (k, anon) →
        ∃ j mi' t', k = i + j ∧ ((mi, t) :: r)[j]? = some (mi', t') ∧
          ((anon = false ∧ findMemberMs ((mi, t) :: r) name i = some [k]) ∨
           (anon = true ∧ t'.isAgg = true ∧ ∃ mp, findMember t' name = some mp ∧
              findMemberMs ((mi, t) :: r) name i = some (k :: mp))) := by
      intro e h'
      obtain ⟨j, mi', t', hk, hj, hh⟩ := structDesignator_spec name r (i+1) k anon h'
      rw [e]
      exact ⟨j+1, mi', t', by omega, by simpa using hj, hh⟩
    by_cases hagg : (t.isAgg && mi.name.isNone) = true
    · simp only [hagg, ↓reduceIte] at h
      rw [hasMember_find] at h
      cases hf : findMember t name with
      | some mp =>
        simp only [hf, Option.isSome_some, ↓reduceIte] at h
        cases h
        have e : findMemberMs ((mi, t) :: r) name i = some (i :: mp) := by rw [findMemberMs]; simp [hagg, hf]
        simp only [Bool.and_eq_true] at hagg
        exact ⟨0, mi, t, rfl, by simp, Or.inr ⟨rfl, hagg.1, mp, hf, e⟩⟩
      | none =>
        simp only [hf, Option.isSome_none, Bool.false_eq_true, ↓reduceIte] at h
        exact lift (by rw [findMemberMs]; simp [hagg, hf]) h
    · simp only [hagg, Bool.false_eq_true, ↓reduceIte] at h
      cases hn : mi.name with
      | none =>
        simp only [hn] at h
        have hagg' : t.isAgg = false := by simpa [hn] using hagg
        exact lift (by rw [findMemberMs]; simp [hagg', hn]) h
      | some m =>
        simp only [hn] at h
        by_cases hm : m = name
        · simp only [hm, ↓reduceIte] at h
          cases h
          have e : findMemberMs ((mi, t) :: r) name i = some [i] := by rw [findMemberMs]; simp [hagg, hn, hm]
          exact ⟨0, mi, t, rfl, by simp, Or.inl ⟨rfl, e⟩⟩
        · simp only [hm, ↓reduceIte] at h
          exact lift (by rw [findMemberMs]; simp [hagg, hn, hm]) h

/-! ### `array_designator` -/

theorem arrayDesignator_ok {len : Nat} {toks tok : List ITok} {b e : Nat} (h : arrayDesignator len toks = .ok (b, e, tok)) :
    (∃ a : Int, toks = .idx a :: tok ∧ 0 ≤ a ∧ a < len ∧ b = a.toNat ∧ e = a.toNat) ∨
    (∃ a c : Int, toks = .range a c :: tok ∧ 0 ≤ a ∧ a ≤ c ∧ c < len ∧ b = a.toNat ∧ e = c.toNat) := by
  unfold arrayDesignator at h
  split at h
  · split at h
    · cases h
    · rename_i hc; cases h
      exact Or.inl ⟨_, rfl, by omega, by omega, rfl, rfl⟩
  · split at h
    · cases h
    · split at h
      · cases h
      · split at h
        · cases h
        · rename_i h1 h2 h3; cases h
          exact Or.inr ⟨_, _, rfl, by omega, by omega, by omega, rfl, rfl⟩
  · cases h


/-! ### string literals -/

theorem strFill_spec (bytes : List Nat) (w : Nat) : ∀ (n : Nat) (cs : List Init) (i : Nat) (cs' : List Init),
    strFill bytes w cs i n = .ok cs' → (∀ c ∈ cs, c = .leaf none) →
    ∃ vals, (List.range' i n).mapM (strLeaf bytes w) = .ok vals ∧ cs' = vals ++ cs.drop n ∧ vals.length = n ∧
      ∀ v ∈ vals, ∃ e, v = .leaf e
  | 0, cs, i, cs', h, _ => by
    rw [strFill] at h; cases h
    exact ⟨[], rfl, by simp, rfl, by simp⟩
  | n+1, [], i, cs', h, _ => by rw [strFill] at h; cases h
  | n+1, c :: cs, i, cs', h, hz => by
    rw [strFill] at h
    cases hv : strElem bytes w i with
    | none => simp [hv] at h
    | some v =>
      simp only [hv] at h
      obtain ⟨rest, hr, h⟩ := bind_eq_ok h
      cases h
      obtain ⟨vals, hm, hc, hl, hleaf⟩ := strFill_spec bytes w n cs (i+1) rest hr (fun c hc => hz c (by simp [hc]))
      have hc0 : c = .leaf none := hz c (by simp)
      refine ⟨.leaf (some (strNum w v)) :: vals, ?_, ?_, by simp [hl], ?_⟩
      · rw [List.range'_succ, List.mapM_cons]
        have : strLeaf bytes w i = .ok (.leaf (some (strNum w v))) := by simp [strLeaf, hv]
        rw [this, ok_bind, hm, ok_bind]; rfl
      · simp [hc0, Init.setExpr, hc]
      · intro x hx
        simp only [List.mem_cons] at hx
        rcases hx with rfl | hx
        · exact ⟨_, rfl⟩
        · exact hleaf x hx

theorem isInteger_scalar {t : Ty} (h : t.isInteger = true) : ∃ sz k, t = .scalar sz k := by
  cases t <;> simp [Ty.isInteger] at h
  exact ⟨_, _, rfl⟩

/-- `string_initializer` on an untouched array is p14 -/
theorem stringInitializer_spec {elem : Ty} {len : Nat} {bytes : List Nat} {esz : Nat} {rest toks' : List ITok} {c c' : Init}
    (hs : shaped (.array elem len) c = true) (hz : hasExpr c = false) (hi : elem.isInteger = true)
    (h : stringInitializer elem bytes esz rest c = .ok (c', toks')) :
    toks' = rest ∧ strFits elem esz = true ∧ stringValue elem (some len) bytes esz = .ok c' ∧ shaped (.array elem len) c' = true := by
  obtain ⟨sz, kd, rfl⟩ := isInteger_scalar hi
  have hzero := zero_of_shaped (.array (.scalar sz kd) len) c (by simp [subOk]) hs hz
  subst hzero
  unfold stringInitializer at h
  split at h
  · cases h
  · rename_i hsz
    simp only [newInit, Init.children, List.length_replicate, Init.withChildren] at h
    split at h
    · obtain ⟨cs', hf, h⟩ := bind_eq_ok h
      cases h
      have hsz' : (sz : Int) = esz := by simpa [Ty.size] using hsz
      have hsz2 : sz = esz := by omega
      subst hsz2
      obtain ⟨vals, hm, hc, hl, hleaf⟩ := strFill_spec bytes sz _ _ 0 cs' (by simpa [Ty.size] using hf)
        (fun c hc => List.eq_of_mem_replicate hc)
      refine ⟨rfl, by simp [strFits, hi, Ty.size], ?_, ?_⟩
      · unfold stringValue
        simp only [hm, ok_bind, hc, List.drop_replicate, zeroOf, newInit]
        rfl
      · rw [hc]
        simp only [shaped, List.length_append, hl, List.drop_replicate, List.length_replicate, Bool.and_eq_true, beq_iff_eq]
        refine ⟨by omega, ?_⟩
        rw [shapedAll_iff]
        intro x hx
        simp only [List.mem_append] at hx
        rcases hx with hx | hx
        · obtain ⟨e, rfl⟩ := hleaf x hx; simp [shaped]
        · rw [List.eq_of_mem_replicate hx]; simp [shaped]
    · cases h

end ChibiVerif.InitSpec
