/-
C05, back-end agreement, part 3: over a list of pairwise compatible leaves, `write_gvar_data`'s stores followed by the
loader's relocation processing produce the same cells as the assignments of `create_lvar_init` executed by the code
generator's stores on a zeroed object.
-/
import ChibiVerif.Lemmas.InitLeafLemmas
import ChibiVerif.Lemmas.InitMemLemmas

namespace ChibiVerif.Init

/-! ### running the assignment chain = folding over the leaves -/

def autoKey (mem : List Cell) (k : Nat × StoreKind × Expr) : Except Fail (List Cell) :=
  runAssign mem { path := [.mem k.1], kind := k.2.1, e := k.2.2 }

theorem runAssign_key (mem : List Cell) (a : Assign) : runAssign mem a = autoKey mem a.key := by
  have h : ({ path := [Desg.mem a.addr], kind := a.kind, e := a.e } : Assign).addr = a.addr := by
    simp [Assign.addr, Desg.disp]
  unfold autoKey runAssign
  simp only [Assign.key, h]
  rfl

def autoLeaf (mem : List Cell) (l : Leaf) : Except Fail (List Cell) := autoKey mem l.key

theorem runAssigns_leaves : ∀ (as : List Assign) (ls : List Leaf) (mem : List Cell), SameAs as ls →
    runAssigns mem as = ls.foldlM autoLeaf mem
  | [], [], _, _ => rfl
  | [], _ :: _, _, h => by simp [SameAs] at h
  | _ :: _, [], _, h => by simp [SameAs] at h
  | a :: as, l :: ls, mem, h => by
    simp only [SameAs, List.map_cons, List.cons.injEq] at h
    simp only [runAssigns, List.foldlM_cons, runAssign_key, autoLeaf, h.1]
    congr 1
    funext m
    exact runAssigns_leaves as ls m h.2

/-! ### leaves: footprints and admissibility -/

/-- bytes a store of this scalar type writes (`fstpt` writes 10 of the 16 bytes of a long double) -/
def storeWidth (sz : Nat) (kind : SKind) : Nat := if kind = .flt ∧ sz = 16 then 10 else sz

def scalarOK (sz : Nat) (kind : SKind) : Bool :=
  match kind with
  | .flt => sz == 4 || sz == 8 || sz == 16
  | .bool => sz == 1
  | _ => sz == 1 || sz == 2 || sz == 4 || sz == 8

def Leaf.bLo (l : Leaf) : Nat := l.off
def Leaf.bHi : Leaf → Nat
  | .val off sz kind _ => off + storeWidth sz kind
  | .bf off sz _ _ _ _ => off + sz
def Leaf.bitLo : Leaf → Nat
  | .val off _ _ _ => 8 * off
  | .bf off _ _ bo _ _ => 8 * off + bo
def Leaf.bitHi : Leaf → Nat
  | .val off sz kind _ => 8 * (off + storeWidth sz kind)
  | .bf off _ _ bo bw _ => 8 * off + bo + bw
def Leaf.isReloc : Leaf → Bool
  | .val _ _ _ e => e.label.isSome
  | .bf .. => false

/-- the value both back ends put into a bit-field: converted to `_Bool` first if that is the member's type -/
def bfVal (kind : SKind) (e : Expr) : Nat := if kind = .bool then (if e.nz then 1 else 0) else u64 e.ival

def Leaf.ok (size : Nat) : Leaf → Prop
  | .val off sz kind e => leafOK sz kind e = true ∧ scalarOK sz kind = true ∧ off + sz ≤ size
  | .bf off sz kind bo bw e => bfOK kind e = true ∧ (sz = 1 ∨ sz = 2 ∨ sz = 4 ∨ sz = 8) ∧ bo + bw ≤ 8 * sz ∧
      off + sz ≤ size

/-- two leaves do not interfere: their bits are disjoint, and a relocation slot shares no byte with the other's store -/
def Leaf.compat (a b : Leaf) : Prop :=
  (a.bitHi ≤ b.bitLo ∨ b.bitHi ≤ a.bitLo) ∧
  ((a.isReloc = true ∨ b.isReloc = true) → (a.bHi ≤ b.bLo ∨ b.bHi ≤ a.bLo))

/-- what must hold of the image before leaf `l` is stored: no relocation in its bytes; a bit-field's bits still zero -/
def Clean (im : Image) : Leaf → Prop
  | .val off sz kind _ => ∀ r ∈ im.relocs, r.offset + 8 ≤ off ∨ off + storeWidth sz kind ≤ r.offset
  | .bf off sz _ bo bw _ => (∀ r ∈ im.relocs, r.offset + 8 ≤ off ∨ off + sz ≤ r.offset) ∧
      ∀ j, bo ≤ j → j < bo + bw → bitOf im.bytes (8 * off + j) = false

/-! ### ordinary scalars -/

/-- the bytes both back ends store for a constant that is not an address -/
def valBytes (e : Expr) (sz : Nat) (kind : SKind) : List Nat :=
  match kind with
  | .flt => if sz = 4 then leBytes e.f32 4 else if sz = 8 then leBytes e.f64 8 else leBytes e.f80 10
  | .bool => leBytes (if e.nz then 1 else 0) sz
  | _ => leBytes (u64 e.ival) sz

theorem valBytes_length (e : Expr) (sz : Nat) (kind : SKind) (h : scalarOK sz kind = true) :
    (valBytes e sz kind).length = storeWidth sz kind := by
  cases kind <;> simp [scalarOK] at h <;> simp only [valBytes, storeWidth]
  · simp [leBytes_length]
  · rcases h with (rfl | rfl) | rfl <;> simp [leBytes_length]
  · simp [leBytes_length]
  · simp [leBytes_length]

theorem writeBuf_ok (buf : List Nat) (off val sz : Nat) (hs : sz = 1 ∨ sz = 2 ∨ sz = 4 ∨ sz = 8) (h : off + sz ≤ buf.length) :
    writeBuf buf off val sz = .ok (writeAt buf off (leBytes val sz)) := by
  simp [writeBuf, hs, h]

theorem writeBytes_ok (buf : List Nat) (off : Nat) (bs : List Nat) (h : off + bs.length ≤ buf.length) :
    writeBytes buf off bs = .ok (writeAt buf off bs) := by
  simp [writeBytes, h]

theorem static_val (im : Image) (off sz : Nat) (kind : SKind) (e : Expr) (hk : scalarOK sz kind = true)
    (hl : e.label = none) (hb : off + sz ≤ im.bytes.length) :
    staticLeaf im (.val off sz kind e) = .ok { im with bytes := writeAt im.bytes off (valBytes e sz kind) } := by
  cases kind <;> simp [scalarOK] at hk <;> simp only [staticLeaf, writeGvarLeaf, hl, valBytes]
  · rw [writeBuf_ok _ _ _ _ (by omega) hb]; rfl
  · rcases hk with (rfl | rfl) | rfl
    · simp only [Option.isSome_none, Bool.false_eq_true, ↓reduceIte]
      rw [writeBytes_ok _ _ _ (by simpa [leBytes_length] using hb)]; rfl
    · simp only [Option.isSome_none, Bool.false_eq_true, ↓reduceIte, Nat.reduceEqDiff]
      rw [writeBytes_ok _ _ _ (by simpa [leBytes_length] using hb)]; rfl
    · simp only [Option.isSome_none, Bool.false_eq_true, ↓reduceIte, Nat.reduceEqDiff]
      rw [writeBytes_ok _ _ _ (by simp only [leBytes_length]; omega)]; rfl
  · rw [writeBuf_ok _ _ _ _ (by omega) hb]; rfl
  · subst hk
    simp only [↓reduceIte]
    rw [writeBuf_ok _ _ _ _ (by omega) hb]; rfl

theorem auto_val (e : Expr) (sz : Nat) (kind : SKind) (hk : scalarOK sz kind = true) (hl : e.label = none) :
    valueCells e sz kind = (valBytes e sz kind).map .byte := by
  cases kind <;> simp [scalarOK] at hk <;> simp only [valueCells, valBytes, hl]
  · rcases hk with ((rfl | rfl) | rfl) | rfl <;> simp
  · rcases hk with (rfl | rfl) | rfl <;> simp
  · rcases hk with ((rfl | rfl) | rfl) | rfl <;> simp
  · subst hk; cases e.nz <;> simp [leBytes]




theorem cells_length (im : Image) (size : Nat) (hb : im.bytes.length = size) (hr : ∀ r ∈ im.relocs, r.offset + 8 ≤ size) :
    im.cells.length = size := by
  simp only [Image.cells]
  rw [overlay_len _ _ (by simpa [hb] using hr)]
  simpa using hb

/-- an ordinary constant: both back ends overwrite the same bytes -/
theorem step_val (im : Image) (size off sz : Nat) (kind : SKind) (e : Expr)
    (hb : im.bytes.length = size) (hr : ∀ r ∈ im.relocs, r.offset + 8 ≤ size)
    (hk : scalarOK sz kind = true) (hl : e.label = none) (hs : off + sz ≤ size)
    (hc : Clean im (.val off sz kind e)) :
    let im' : Image := { im with bytes := writeAt im.bytes off (valBytes e sz kind) }
    staticLeaf im (.val off sz kind e) = .ok im' ∧ autoLeaf im.cells (.val off sz kind e) = .ok im'.cells := by
  intro im'
  have hw : storeWidth sz kind ≤ sz := by simp only [storeWidth]; split <;> omega
  have hlen := valBytes_length e sz kind hk
  refine ⟨static_val im off sz kind e hk hl (by omega), ?_⟩
  have hcl := cells_length im size hb hr
  simp only [autoLeaf, autoKey, Leaf.key, Leaf.off, Leaf.kind, Leaf.e, runAssign, Assign.addr, List.map_cons, List.map_nil,
    Desg.disp, List.foldl_cons, List.foldl_nil, Nat.zero_add, auto_val e sz kind hk hl, List.length_map, hlen, hcl]
  have : off + storeWidth sz kind ≤ size := by omega
  simp only [this, ↓reduceIte]
  congr 1
  simp only [im', Image.cells, writeAt_map]
  rw [overlay_writeAt _ _ _ _ (by simp [hlen, hb]; omega) (by simpa [hb] using hr)]
  simpa [Clean, hlen] using hc

/-- an address constant: a relocation slot on one side, the 8 bytes of the address on the other -/
theorem step_reloc (im : Image) (size off sz : Nat) (kind : SKind) (e : Expr) (lab : String)
    (hb : im.bytes.length = size) (hr : ∀ r ∈ im.relocs, r.offset + 8 ≤ size)
    (hok : leafOK sz kind e = true) (hl : e.label = some lab) (hs : off + sz ≤ size) :
    let im' : Image := { im with relocs := im.relocs ++ [{ offset := off, label := lab, addend := e.ival }] }
    sz = 8 ∧ staticLeaf im (.val off sz kind e) = .ok im' ∧ autoLeaf im.cells (.val off sz kind e) = .ok im'.cells := by
  intro im'
  simp only [leafOK, hl, Option.isNone_some, Bool.false_or, Bool.and_eq_true, beq_iff_eq, Bool.or_eq_true] at hok
  obtain ⟨_, rfl, hkind⟩ := hok
  have hcl := cells_length im size hb hr
  refine ⟨rfl, ?_, ?_⟩
  · rcases hkind with rfl | rfl <;> simp [staticLeaf, writeGvarLeaf, hl, im']
  · have hv : valueCells e 8 kind = symCells lab e.ival := by
      rcases hkind with rfl | rfl <;> simp [valueCells, hl, symCells]
    simp only [autoLeaf, autoKey, Leaf.key, Leaf.off, Leaf.kind, Leaf.e, runAssign, Assign.addr, List.map_cons, List.map_nil,
      Desg.disp, List.foldl_cons, List.foldl_nil, Nat.zero_add, hv, symCells_length, hcl]
    simp only [hs, ↓reduceIte]
    congr 1
    simp only [im', Image.cells, overlay_append]



theorem leBytes_eq_range : ∀ (n v : Nat), leBytes v n = (List.range n).map (fun k => (v / 256 ^ k) % 256) := by
  intro n v
  apply List.ext_getElem?
  intro i
  by_cases h : i < n
  · have h1 : i < (leBytes v n).length := by rw [leBytes_length]; exact h
    have := leBytes_getD n v i h
    rw [List.getD_eq_getElem?_getD, List.getElem?_eq_getElem h1] at this
    simp only [Option.getD_some] at this
    rw [List.getElem?_eq_getElem h1, this]
    simp [h]
  · rw [List.getElem?_eq_none (by rw [leBytes_length]; omega), List.getElem?_eq_none (by simp; omega)]

theorem slice_getD (bytes : List Nat) (off sz k : Nat) (hk : k < sz) :
    ((bytes.drop off).take sz).getD k 0 = bytes.getD (off + k) 0 := by
  simp [List.getD_eq_getElem?_getD, hk]

/-- bits of the unit value `read_buf` returns -/
theorem readBuf_bits (bytes : List Nat) (off sz : Nat) (hs : sz = 1 ∨ sz = 2 ∨ sz = 4 ∨ sz = 8) (hb : off + sz ≤ bytes.length) :
    ∃ old, readBuf bytes off sz = .ok old ∧ ∀ j, j < 8 * sz → old.testBit j = bitOf bytes (8 * off + j) := by
  have hbit : ∀ j, j < 8 * sz → (fromLE ((bytes.drop off).take sz)).testBit j = bitOf bytes (8 * off + j) := by
    intro j hj
    rw [fromLE_testBit, slice_getD _ _ _ _ (by omega)]
    simp only [bitOf]
    have h1 : (8 * off + j) / 8 = off + j / 8 := by omega
    have h2 : (8 * off + j) % 8 = j % 8 := by omega
    rw [h1, h2]
  refine ⟨if sz = 1 ∧ fromLE ((bytes.drop off).take sz) ≥ 128 then fromLE ((bytes.drop off).take sz) + (18446744073709551616 - 256)
          else fromLE ((bytes.drop off).take sz), by simp only [readBuf, hs, hb, ↓reduceIte], ?_⟩
  intro j hj
  split
  · rename_i hx
    obtain ⟨rfl, _⟩ := hx
    rw [← hbit j hj]
    have hv : fromLE ((bytes.drop off).take 1) < 2 ^ 8 := by
      cases h : (bytes.drop off).take 1 with
      | nil => simp [fromLE]
      | cons b r =>
        have : r = [] := by
          have := congrArg List.length h
          simp at this
          cases r with
          | nil => rfl
          | cons _ _ => simp at this; omega
        subst this
        simp [fromLE]; omega
    have e : fromLE ((bytes.drop off).take 1) + (18446744073709551616 - 256) =
        2 ^ 8 * 72057594037927935 + fromLE ((bytes.drop off).take 1) := by omega
    rw [e, Nat.testBit_two_pow_mul_add _ hv]
    simp [show j < 8 by omega]
  · exact hbit j hj



def bfFld (v bo bw : Nat) : Nat := ((v &&& bfMask bw) <<< bo) % 18446744073709551616
def bfMsk (bo bw : Nat) : Nat := (bfMask bw <<< bo) % 18446744073709551616

theorem bfMask_testBit (bw j : Nat) : (bfMask bw).testBit j = (decide (j < 64) && decide (j < bw)) := by
  simp only [bfMask, show (18446744073709551616 : Nat) = 2 ^ 64 from rfl, Nat.testBit_mod_two_pow, Nat.testBit_two_pow_sub_one]

theorem bfMsk_testBit (bo bw j : Nat) :
    (bfMsk bo bw).testBit j = (decide (j < 64) && (decide (j ≥ bo) && (decide (j - bo < 64) && decide (j - bo < bw)))) := by
  simp only [bfMsk, show (18446744073709551616 : Nat) = 2 ^ 64 from rfl, Nat.testBit_mod_two_pow, Nat.testBit_shiftLeft, bfMask_testBit]

theorem bfFld_testBit (v bo bw j : Nat) :
    (bfFld v bo bw).testBit j = ((bfMsk bo bw).testBit j && v.testBit (j - bo)) := by
  simp only [bfFld, bfMsk, show (18446744073709551616 : Nat) = 2 ^ 64 from rfl, Nat.testBit_mod_two_pow, Nat.testBit_shiftLeft,
    Nat.testBit_and]
  cases decide (j < 64) <;> cases decide (j ≥ bo) <;> cases (bfMask bw).testBit (j - bo) <;> simp

theorem bfMsk_range (bo bw j : Nat) (h : (bfMsk bo bw).testBit j = true) : bo ≤ j ∧ j < bo + bw := by
  simp only [bfMsk_testBit, Bool.and_eq_true, decide_eq_true_eq] at h
  omega

/-- byte `k` of the unit: `store(load & ~(mask << off) | field)` and `old | field` agree when the field's bits were zero -/
theorem rmw_byte (old v bo bw k b : Nat)
    (h1 : ∀ i, i < 8 → old.testBit (8 * k + i) = (b % 256).testBit i)
    (h2 : ∀ i, i < 8 → (bfMsk bo bw).testBit (8 * k + i) = true → (b % 256).testBit i = false) :
    ((old ||| bfFld v bo bw) / 256 ^ k) % 256 =
      ((b &&& (255 - (bfMsk bo bw >>> (8 * k)) % 256)) ||| (bfFld v bo bw >>> (8 * k)) % 256) % 256 := by
  apply Nat.eq_of_testBit_eq
  intro i
  have hp : (256 : Nat) ^ k = 2 ^ (8 * k) := by rw [Nat.pow_mul]
  have hm : (bfMsk bo bw >>> (8 * k)) % 256 < 2 ^ 8 := Nat.mod_lt _ (by decide)
  have h255 : 255 - (bfMsk bo bw >>> (8 * k)) % 256 = 2 ^ 8 - ((bfMsk bo bw >>> (8 * k)) % 256 + 1) := by omega
  rw [hp, h255]
  simp only [show (256 : Nat) = 2 ^ 8 from rfl, Nat.testBit_mod_two_pow, Nat.testBit_div_two_pow, Nat.testBit_or, Nat.testBit_and,
    Nat.testBit_two_pow_sub_succ hm, Nat.testBit_shiftRight]
  by_cases hi : i < 8
  · have e1 := h1 i hi
    have e2 := h2 i hi
    simp only [show (256 : Nat) = 2 ^ 8 from rfl, Nat.testBit_mod_two_pow, hi, decide_true, Bool.true_and] at e1 e2
    have hc : i + 8 * k = 8 * k + i := by omega
    simp only [hi, decide_true, Bool.true_and, hc, e1]
    cases hM : (bfMsk bo bw).testBit (8 * k + i)
    · simp
    · simp [e2 hM]
  · simp [hi]


theorem bfFld_congr (v v' bo bw : Nat) (h : v &&& bfMask bw = v' &&& bfMask bw) : bfFld v bo bw = bfFld v' bo bw := by
  simp only [bfFld, h]

theorem cells_getD_clean (im : Image) (size i : Nat) (hb : im.bytes.length = size) (hr : ∀ r ∈ im.relocs, r.offset + 8 ≤ size)
    (hi : i < size) (hc : ∀ r ∈ im.relocs, i < r.offset ∨ r.offset + 8 ≤ i) :
    im.cells[i]? = some (Cell.byte (im.bytes.getD i 0)) := by
  simp only [Image.cells]
  rw [overlay_getElem? _ _ _ (by simpa [hb] using hr) hc]
  exact map_byte_getElem? _ _ (by omega)

/-- a bit-field: `old | field` into `init_data` on one side, load / and-not / or / store on the other -/
theorem step_bf (im : Image) (size off sz : Nat) (kind : SKind) (bo bw : Nat) (e : Expr)
    (hb : im.bytes.length = size) (hr : ∀ r ∈ im.relocs, r.offset + 8 ≤ size)
    (hok : Leaf.ok size (.bf off sz kind bo bw e)) (hc : Clean im (.bf off sz kind bo bw e)) :
    ∃ old, (∀ j, j < 8 * sz → old.testBit j = bitOf im.bytes (8 * off + j)) ∧
      let im' : Image := { im with bytes := writeAt im.bytes off (leBytes (old ||| bfFld (bfVal kind e) bo bw) sz) }
      staticLeaf im (.bf off sz kind bo bw e) = .ok im' ∧ autoLeaf im.cells (.bf off sz kind bo bw e) = .ok im'.cells := by
  obtain ⟨hbf, hsz, hfit, hin⟩ := hok
  obtain ⟨hcr, hcz⟩ := hc
  obtain ⟨old, hread, hold⟩ := readBuf_bits im.bytes off sz hsz (by omega)
  refine ⟨old, hold, ?_⟩
  intro im'
  simp only [bfOK, Bool.and_eq_true, Bool.not_eq_true', Option.isNone_iff_eq_none, Bool.or_eq_true, beq_iff_eq] at hbf
  obtain ⟨⟨_, hlab⟩, hkind⟩ := hbf
  have hcl := cells_length im size hb hr
  constructor
  · have : staticLeaf im (.bf off sz kind bo bw e) =
        (do let bytes ← writeBuf im.bytes off (old ||| bfFld (bfVal kind e) bo bw) sz
            pure ({ im with bytes := bytes } : Image)) := by
      simp only [staticLeaf, hlab, Option.isSome_none, Bool.false_eq_true, ↓reduceIte, hread]
      rfl
    rw [this, writeBuf_ok _ _ _ _ hsz (by omega)]
    rfl
  · -- the value codegen stores
    have hfld : bfFld (if kind = SKind.bool then if e.nz = true then 1 else 0 else u64 e.ival) bo bw = bfFld (bfVal kind e) bo bw := rfl
    simp only [autoLeaf, autoKey, Leaf.key, Leaf.off, Leaf.kind, Leaf.e, runAssign, Assign.addr, List.map_cons, List.map_nil,
      Desg.disp, List.foldl_cons, List.foldl_nil, Nat.zero_add, hcl]
    have hns : ¬ ¬ (sz = 1 ∨ sz = 2 ∨ sz = 4 ∨ sz = 8) := fun h => h hsz
    have hng : ¬ off + sz > size := by omega
    simp only [hns, hng, ↓reduceIte, hlab, Option.isSome_none, Bool.false_eq_true]
    congr 1
    have hnew : (List.range sz).map (fun k =>
        rmwCell (((im.cells.drop off).take sz).getD k Cell.junk)
          ((((2 ^ bw - 1) % 18446744073709551616) <<< bo % 18446744073709551616) >>> (8 * k) % 256)
          ((((if kind = SKind.bool then if e.nz = true then 1 else 0 else u64 e.ival) &&&
              (2 ^ bw - 1) % 18446744073709551616) <<< bo % 18446744073709551616) >>> (8 * k) % 256)) =
        (leBytes (old ||| bfFld (bfVal kind e) bo bw) sz).map Cell.byte := by
      rw [leBytes_eq_range, List.map_map]
      apply List.map_congr_left
      intro k hk
      rw [List.mem_range] at hk
      have hget : ((im.cells.drop off).take sz).getD k Cell.junk = Cell.byte (im.bytes.getD (off + k) 0) := by
        simp only [List.getD_eq_getElem?_getD, List.getElem?_take, hk, ↓reduceIte, List.getElem?_drop]
        rw [cells_getD_clean im size (off + k) hb hr (by omega) (by intro r hr'; have := hcr r hr'; omega)]
        rfl
      rw [hget]
      simp only [rmwCell, Function.comp]
      congr 1
      have := rmw_byte old (bfVal kind e) bo bw k (im.bytes.getD (off + k) 0)
        (by
          intro i hi
          rw [hold (8 * k + i) (by omega)]
          simp only [bitOf]
          have h1 : (8 * off + (8 * k + i)) / 8 = off + k := by omega
          have h2 : (8 * off + (8 * k + i)) % 8 = i := by omega
          rw [h1, h2])
        (by
          intro i hi hm
          have hrange := bfMsk_range bo bw _ hm
          have := hcz (8 * k + i) hrange.1 hrange.2
          simp only [bitOf] at this
          have h1 : (8 * off + (8 * k + i)) / 8 = off + k := by omega
          have h2 : (8 * off + (8 * k + i)) % 8 = i := by omega
          rw [h1, h2] at this
          exact this)
      rw [this, ← hfld]
      rfl
    refine (congrArg (writeAt im.cells off) hnew).trans ?_
    simp only [im', Image.cells, writeAt_map]
    rw [overlay_writeAt _ _ _ _ (by simp [leBytes_length, hb]; omega) (by simpa [hb] using hr)]
    intro r hr'
    have := hcr r hr'
    simp only [List.length_map, leBytes_length]
    omega


/-! ### one leaf: agreement and frame -/

/-- what one step changes: bits inside the leaf's footprint only; at most one relocation, in the leaf's bytes -/
structure StepFrame (size : Nat) (im im' : Image) (l : Leaf) : Prop where
  len : im'.bytes.length = size
  relocs : ∀ r ∈ im'.relocs, r.offset + 8 ≤ size
  bits : ∀ p, (p < l.bitLo ∨ l.bitHi ≤ p) → bitOf im'.bytes p = bitOf im.bytes p
  newReloc : ∀ r ∈ im'.relocs, r ∈ im.relocs ∨ (l.isReloc = true ∧ r.offset = l.bLo ∧ r.offset + 8 = l.bHi)

theorem step (im : Image) (size : Nat) (l : Leaf) (hb : im.bytes.length = size) (hr : ∀ r ∈ im.relocs, r.offset + 8 ≤ size)
    (hok : l.ok size) (hc : Clean im l) :
    ∃ im', staticLeaf im l = .ok im' ∧ autoLeaf im.cells l = .ok im'.cells ∧ StepFrame size im im' l := by
  cases l with
  | val off sz kind e =>
    obtain ⟨hleaf, hk, hs⟩ := hok
    have hw : storeWidth sz kind ≤ sz := by simp only [storeWidth]; split <;> omega
    cases hl : e.label with
    | none =>
      obtain ⟨h1, h2⟩ := step_val im size off sz kind e hb hr hk hl hs hc
      refine ⟨_, h1, h2, ?_⟩
      have hlen := valBytes_length e sz kind hk
      exact {
        len := by simp only; rw [writeAt_length _ _ _ (by rw [hlen]; omega)]; exact hb
        relocs := hr
        bits := by
          intro p hp
          simp only [Leaf.bitLo, Leaf.bitHi] at hp
          exact bitOf_writeAt_outside _ _ _ (by rw [hlen]; omega) p (by rw [hlen]; exact hp)
        newReloc := fun r h => Or.inl h }
    | some lab =>
      obtain ⟨rfl, h1, h2⟩ := step_reloc im size off sz kind e lab hb hr hleaf hl hs
      refine ⟨_, h1, h2, ?_⟩
      have hkind : kind = .int ∨ kind = .ptr := by
        simp only [leafOK, hl, Option.isNone_some, Bool.false_or, Bool.and_eq_true, beq_iff_eq, Bool.or_eq_true] at hleaf
        exact hleaf.2.2
      have hsw : storeWidth 8 kind = 8 := by rcases hkind with rfl | rfl <;> simp [storeWidth]
      exact {
        len := hb
        relocs := by
          intro r h
          simp only [List.mem_append, List.mem_singleton] at h
          rcases h with h | rfl
          · exact hr r h
          · exact hs
        bits := fun _ _ => rfl
        newReloc := by
          intro r h
          simp only [List.mem_append, List.mem_singleton] at h
          rcases h with h | rfl
          · exact Or.inl h
          · exact Or.inr ⟨by simp [Leaf.isReloc, hl], rfl, by simp [Leaf.bHi, hsw]⟩ }
  | bf off sz kind bo bw e =>
    obtain ⟨old, hold, h1, h2⟩ := step_bf im size off sz kind bo bw e hb hr hok hc
    obtain ⟨_, hsz, hfit, hin⟩ := hok
    refine ⟨_, h1, h2, ?_⟩
    exact {
      len := by simp only; rw [writeAt_length _ _ _ (by rw [leBytes_length]; omega)]; exact hb
      relocs := hr
      bits := by
        intro p hp
        simp only [Leaf.bitLo, Leaf.bitHi] at hp
        by_cases hin' : 8 * off ≤ p ∧ p < 8 * (off + sz)
        · rw [bitOf_writeAt_inside _ _ _ (by rw [leBytes_length]; omega) p (by rw [leBytes_length]; exact hin')]
          rw [leBytes_bit _ _ _ (by omega), Nat.testBit_or, hold _ (by omega)]
          have hf : (bfFld (bfVal kind e) bo bw).testBit (p - 8 * off) = false := by
            cases hx : (bfFld (bfVal kind e) bo bw).testBit (p - 8 * off) with
            | false => rfl
            | true =>
              rw [bfFld_testBit, Bool.and_eq_true] at hx
              have := bfMsk_range bo bw _ hx.1
              omega
          rw [hf, Bool.or_false]
          congr 1; omega
        · exact bitOf_writeAt_outside _ _ _ (by rw [leBytes_length]; omega) p (by rw [leBytes_length]; omega)
      newReloc := fun r h => Or.inl h }

/-- a later compatible leaf stays clean -/
theorem clean_step (size : Nat) (im im' : Image) (l l' : Leaf) (hf : StepFrame size im im' l) (hcomp : l.compat l')
    (hc : Clean im l') : Clean im' l' := by
  obtain ⟨hbits, hbytes⟩ := hcomp
  have hrel : ∀ r ∈ im'.relocs, (r.offset + 8 ≤ l'.bLo ∨ l'.bHi ≤ r.offset) ∨ r ∈ im.relocs := by
    intro r hr
    rcases hf.newReloc r hr with h | ⟨h1, h2, h3⟩
    · exact Or.inr h
    · have := hbytes (Or.inl h1)
      left; omega
  cases l' with
  | val off sz kind e =>
    intro r hr
    rcases hrel r hr with h | h
    · simpa [Leaf.bLo, Leaf.bHi, Leaf.off] using h
    · exact hc r h
  | bf off sz kind bo bw e =>
    obtain ⟨hc1, hc2⟩ := hc
    refine ⟨?_, ?_⟩
    · intro r hr
      rcases hrel r hr with h | h
      · simpa [Leaf.bLo, Leaf.bHi, Leaf.off] using h
      · exact hc1 r h
    · intro j h1 h2
      have hb' : l.bitHi ≤ 8 * off + bo ∨ 8 * off + bo + bw ≤ l.bitLo := hbits
      rw [hf.bits _ (by omega)]
      exact hc2 j h1 h2

/-! ### the whole list -/

theorem flat_agree (size : Nat) : ∀ (ls : List Leaf) (im : Image), im.bytes.length = size → (∀ r ∈ im.relocs, r.offset + 8 ≤ size) →
    (∀ l ∈ ls, l.ok size) → ls.Pairwise Leaf.compat → (∀ l ∈ ls, Clean im l) →
    ∃ im', ls.foldlM staticLeaf im = .ok im' ∧ ls.foldlM autoLeaf im.cells = .ok im'.cells ∧
      im'.bytes.length = size ∧ (∀ r ∈ im'.relocs, r.offset + 8 ≤ size) ∧
      (∀ p, (∀ l ∈ ls, p < l.bitLo ∨ l.bitHi ≤ p) → bitOf im'.bytes p = bitOf im.bytes p) ∧
      (∀ r ∈ im'.relocs, r ∈ im.relocs ∨ ∃ l ∈ ls, l.isReloc = true ∧ r.offset = l.bLo ∧ r.offset + 8 = l.bHi)
  | [], im, hb, hr, _, _, _ => ⟨im, rfl, rfl, hb, hr, fun _ _ => rfl, fun _ h => Or.inl h⟩
  | l :: ls, im, hb, hr, hok, hp, hc => by
    obtain ⟨im1, s1, a1, hf⟩ := step im size l hb hr (hok l (List.mem_cons_self ..)) (hc l (List.mem_cons_self ..))
    rw [List.pairwise_cons] at hp
    obtain ⟨im2, s2, a2, hb2, hr2, hbits2, hnew2⟩ := flat_agree size ls im1 hf.len hf.relocs
      (fun l' h => hok l' (List.mem_cons_of_mem _ h)) hp.2
      (fun l' h => clean_step size im im1 l l' hf (hp.1 l' h) (hc l' (List.mem_cons_of_mem _ h)))
    refine ⟨im2, ?_, ?_, hb2, hr2, ?_, ?_⟩
    · simp only [List.foldlM_cons, s1]; exact s2
    · simp only [List.foldlM_cons, a1]; exact a2
    · intro p h
      rw [hbits2 p (fun l' h' => h l' (List.mem_cons_of_mem _ h')), hf.bits p (h l (List.mem_cons_self ..))]
    · intro r h
      rcases hnew2 r h with h | ⟨l', hl', h'⟩
      · rcases hf.newReloc r h with h | h
        · exact Or.inl h
        · exact Or.inr ⟨l, List.mem_cons_self .., h⟩
      · exact Or.inr ⟨l', List.mem_cons_of_mem _ hl', h'⟩

end ChibiVerif.Init
