/-
C14, composition lemmas: the cc1 child's re-parse of the driver's argv, names derived by `replace_extn`, the hypothesis
objects of the concurrency theorem.
-/
import ChibiVerif.Model.C14Compose
import ChibiVerif.Lemmas.C14ArgsLemmas
import ChibiVerif.Lemmas.DriverProcConcurrent

namespace ChibiVerif.C14Compose
open ChibiVerif.C14Args ChibiVerif.DriverProc
open ChibiVerif.Gen.C14Args

/-- the table check on the regenerated tables (re-evaluated by the kernel whenever main.c changes) -/
theorem tables_inSync : inSync takeArgList ladder = true := by decide

theorem st0_noNull : st0.noNull := by
  intro e he x hx
  have : st0.arrs.all (fun e => e.2.isEmpty) = true := by decide
  have := List.all_eq_true.mp this e he
  simp only [List.isEmpty_iff] at this
  rw [this] at hx
  cases hx

/-- `parse_args` returned: pass 1 accepted the words and pass 2 ran to the end -/
theorem parseArgs_ok {args : List String} {st : St} (h : parseArgs args = .ok st) :
    guardPass takeArgList args = true ∧ ∃ s, optRun ladder optXTable args st0 = .ok s ∧ C14Args.finish s = .ok st := by
  unfold parseArgs parseWith at h
  by_cases hg : guardPass takeArgList args = true
  · refine ⟨hg, ?_⟩
    rw [if_pos hg] at h
    cases hr : optRun ladder optXTable args st0 with
    | ok s => rw [hr] at h; exact ⟨s, rfl, h⟩
    | error o =>
      rw [hr] at h
      simp only at h
      -- an error of pass 2 is never `ok`
      have := optRun_error_not_ok ladder optXTable args st0 o hr
      rw [h] at this
      cases this
  · rw [if_neg hg] at h; cases h

/-! ### the option variables the cc1 tail sets -/

theorem getAssoc_setAssoc_ne {α : Type} {k k' : String} (v : α) (l : List (String × α)) (h : k' ≠ k) :
    getAssoc k' (setAssoc k v l) = getAssoc k' l := by
  induction l with
  | nil => simp [setAssoc, getAssoc, h.symm]
  | cons x r ih =>
    obtain ⟨a, b⟩ := x
    simp only [setAssoc]
    by_cases ha : a = k
    · subst ha
      simp [getAssoc, h.symm]
    · simp only [ha, if_false, getAssoc]
      by_cases ha' : a = k'
      · simp [ha']
      · simp [ha', ih]

/-- the option variables of the cc1 child for input `i` and output `o`, given those of the driver -/
def childSt (st : St) (i : String) (o : Option String) : St :=
  let s := (st.setFlag "opt_cc1" true).setStr "base_file" (some i)
  match o with
  | some p => s.setStr "output_file" (some p)
  | none => s

theorem childSt_arr (st : St) (i : String) (o : Option String) (a : String) : (childSt st i o).arr a = st.arr a := by
  cases o <;> rfl

theorem childSt_flag (st : St) (i : String) (o : Option String) (v : String) (hv : v ≠ "opt_cc1") :
    (childSt st i o).flag v = st.flag v := by
  cases o <;> simp [childSt, St.flag, St.setFlag, St.setStr, getAssoc_setAssoc_ne _ _ hv]

theorem childSt_str (st : St) (i : String) (o : Option String) (v : String) (h1 : v ≠ "base_file")
    (h2 : v ≠ "output_file") : (childSt st i o).str v = st.str v := by
  cases o <;> simp [childSt, St.str, St.setFlag, St.setStr, getAssoc_setAssoc_ne _ _ h1, getAssoc_setAssoc_ne _ _ h2]

theorem childSt_x (st : St) (i : String) (o : Option String) : (childSt st i o).x = st.x := by
  cases o <;> rfl

theorem finish_childSt {s st : St} (i : String) (o : Option String) (h : C14Args.finish s = .ok st) :
    C14Args.finish (childSt s i o) = .ok (childSt st i o) := by
  unfold C14Args.finish at h ⊢
  rw [childSt_arr, childSt_flag _ _ _ _ (by decide)]
  by_cases he : (s.arr "input_paths").isEmpty = true
  · rw [if_pos he] at h; cases h
  · rw [if_neg he] at h ⊢
    injection h with h
    subst h
    by_cases hE : s.flag "opt_E" = true
    · simp only [hE, if_true]; cases o <;> rfl
    · simp only [hE]; rfl

/-- pass 2 on the words `run_cc1` appends -/
theorem optRun_cc1Tail (s : St) (i : String) (o : Option String) :
    optRun ladder optXTable (cc1Tail i o) s = .ok (childSt s i o) := by
  have a1 : firstArm ladder "-cc1" = some ⟨[.eq "-cc1"], [.setFlag "opt_cc1" true]⟩ := by decide
  have a2 : firstArm ladder "-cc1-input" = some ⟨[.eq "-cc1-input"], [.setStr "base_file" .next]⟩ := by decide
  have a3 : firstArm ladder "-cc1-output" = some ⟨[.eq "-cc1-output"], [.setStr "output_file" .next]⟩ := by decide
  cases o with
  | none =>
    simp [cc1Tail, cc1Flag, cc1InputFlag, optRun, stepOpt, a1, a2, execBody, execStmt, evalSrc, Arm.readsNext,
      Stmt.readsNext, Stmt.src, Src.isNext, childSt]
  | some p =>
    simp [cc1Tail, cc1Flag, cc1InputFlag, cc1OutputFlag, optRun, stepOpt, a1, a2, a3, execBody, execStmt, evalSrc,
      Arm.readsNext, Stmt.readsNext, Stmt.src, Src.isNext, childSt]

theorem guardPass_cc1Tail (i : String) (o : Option String) : guardPass takeArgList (cc1Tail i o) = true := by
  have b1 : takeArgList.contains "-cc1" = false := by decide
  have b2 : takeArgList.contains "-cc1-input" = true := by decide
  have b3 : takeArgList.contains "-cc1-output" = true := by decide
  cases o <;>
    simp only [cc1Tail, cc1Flag, cc1InputFlag, cc1OutputFlag, List.cons_append, List.nil_append, List.append_nil,
      guardPass, b1, b2, b3, Bool.false_eq_true, if_false, if_true]

/-! ### names derived by `replace_extn` -/

theorem replaceExtn_toList (s ext : String) : ∃ stem : List Char, (replaceExtn s ext).toList = stem ++ ext.toList := by
  unfold replaceExtn
  exact ⟨_, String.toList_ofList⟩

theorem replaceExtn_ne_of_last {a b e1 e2 : String} (c1 c2 : Char) (l1 l2 : List Char)
    (h1 : e1.toList = l1 ++ [c1]) (h2 : e2.toList = l2 ++ [c2]) (hc : c1 ≠ c2) :
    replaceExtn a e1 ≠ replaceExtn b e2 := by
  intro h
  obtain ⟨s1, hs1⟩ := replaceExtn_toList a e1
  obtain ⟨s2, hs2⟩ := replaceExtn_toList b e2
  have := congrArg String.toList h
  rw [hs1, hs2, h1, h2, ← List.append_assoc, ← List.append_assoc] at this
  have := congrArg List.getLast? this
  simp at this
  exact hc this

theorem replaceExtn_ne_lit {a e : String} (lit : String) (c1 c2 : Char) (l1 l2 : List Char)
    (h1 : e.toList = l1 ++ [c1]) (h2 : lit.toList = l2 ++ [c2]) (hc : c1 ≠ c2) : replaceExtn a e ≠ lit := by
  intro h
  obtain ⟨s1, hs1⟩ := replaceExtn_toList a e
  have := congrArg String.toList h
  rw [hs1, h1, h2, ← List.append_assoc] at this
  have := congrArg List.getLast? this
  simp at this
  exact hc this

/-! ### the hypothesis objects of the concurrency theorem -/

variable {P : Type} [DecidableEq P]

/-- **the mkstemp assumption**, as an object: the names `mkstemp` hands to one driver are handed to no other driver,
    and are not names the other driver's command line mentions or derives (requested outputs, inputs) -/
structure MkstempUnique (envA envB : Env P) (cmdA cmdB : Cmd P) : Prop where
  disjoint : ∀ j k p, envA.fresh j = some p → envB.fresh k ≠ some p
  freshA : ∀ k p, envA.fresh k = some p → p ∉ requested cmdB ∧ p ∉ cmdB.inputs.map (·.path)
  freshB : ∀ k p, envB.fresh k = some p → p ∉ requested cmdA ∧ p ∉ cmdA.inputs.map (·.path)

/-- what the USER has to arrange: no requested output of one command is a requested output or an input of the other -/
structure OutputsDisjoint (cmdA cmdB : Cmd P) : Prop where
  ab : ∀ p ∈ requested cmdA, p ∉ requested cmdB ∧ p ∉ cmdB.inputs.map (·.path)
  ba : ∀ p ∈ requested cmdB, p ∉ requested cmdA ∧ p ∉ cmdA.inputs.map (·.path)

/-- the two objects together are exactly the footprint-disjointness that `C14_concurrent` asks for -/
theorem footprints_iff (envA envB : Env P) (cmdA cmdB : Cmd P) :
    ((∀ p, Writes envA cmdA p → ¬ Touches envB cmdB p) ∧ (∀ p, Writes envB cmdB p → ¬ Touches envA cmdA p)) ↔
    (MkstempUnique envA envB cmdA cmdB ∧ OutputsDisjoint cmdA cmdB) := by
  constructor
  · rintro ⟨hAB, hBA⟩
    refine ⟨⟨?_, ?_, ?_⟩, ⟨?_, ?_⟩⟩
    · intro j k p ha hb
      exact hAB p (Or.inr ⟨j, ha⟩) (Or.inl (Or.inr ⟨k, hb⟩))
    · intro k p ha
      exact ⟨fun h => hAB p (Or.inr ⟨k, ha⟩) (Or.inl (Or.inl h)), fun h => hAB p (Or.inr ⟨k, ha⟩) (Or.inr h)⟩
    · intro k p hb
      exact ⟨fun h => hBA p (Or.inr ⟨k, hb⟩) (Or.inl (Or.inl h)), fun h => hBA p (Or.inr ⟨k, hb⟩) (Or.inr h)⟩
    · intro p hp
      exact ⟨fun h => hAB p (Or.inl hp) (Or.inl (Or.inl h)), fun h => hAB p (Or.inl hp) (Or.inr h)⟩
    · intro p hp
      exact ⟨fun h => hBA p (Or.inl hp) (Or.inl (Or.inl h)), fun h => hBA p (Or.inl hp) (Or.inr h)⟩
  · rintro ⟨hM, hO⟩
    constructor
    · intro p hw ht
      rcases hw with hw | ⟨j, hj⟩
      · rcases ht with (ht | ⟨k, hk⟩) | ht
        · exact (hO.ab p hw).1 ht
        · exact (hM.freshB k p hk).1 hw
        · exact (hO.ab p hw).2 ht
      · rcases ht with (ht | ⟨k, hk⟩) | ht
        · exact (hM.freshA j p hj).1 ht
        · exact hM.disjoint j k p hj hk
        · exact (hM.freshA j p hj).2 ht
    · intro p hw ht
      rcases hw with hw | ⟨k, hk⟩
      · rcases ht with (ht | ⟨j, hj⟩) | ht
        · exact (hO.ba p hw).1 ht
        · exact (hM.freshA j p hj).1 hw
        · exact (hO.ba p hw).2 ht
      · rcases ht with (ht | ⟨j, hj⟩) | ht
        · exact (hM.freshB k p hk).1 ht
        · exact hM.disjoint j k p hj hk
        · exact (hM.freshB k p hk).2 ht

end ChibiVerif.C14Compose
