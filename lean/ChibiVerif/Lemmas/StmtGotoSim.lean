/-
C03 — forward simulation for all statements: every step of the abstract machine
`Spec.Ctl.step` from a matched configuration is answered by a run of the generated code to a
position where the next configuration is matched (`step_sim`), hence every run (`run_sim`).
-/
import ChibiVerif.Lemmas.StmtGotoEntry

set_option linter.unusedSimpArgs false
set_option linter.unusedVariables false
namespace ChibiVerif.Ctl
open ChibiVerif.Spec.Ctl

/-! ### small facts about code placement and runs -/

theorem codeAt_nil {P : Prog} {q : Nat} (h : q ≤ P.length) : CodeAt P q [] :=
  ⟨P.take q, P.drop q, by simp, by simp [List.length_take, Nat.min_eq_left h]⟩

theorem CodeAt.end_le {P : Prog} {p : Nat} {code : List CIns} (h : CodeAt P p code) : p + code.length ≤ P.length := by
  obtain ⟨pre, post, hP, hl⟩ := h
  subst hP; subst hl
  simp only [List.length_append]; omega

theorem lt_of_getElem? {P : Prog} {q : Nat} {i : CIns} (h : P[q]? = some i) : q < P.length := by
  rcases Nat.lt_or_ge q P.length with h1 | h1
  · exact h1
  · rw [List.getElem?_eq_none h1] at h; cases h

theorem Runs.castPos {ω : Nat → Val} {P : Prog} {p q p' q' : Nat} {σ σ' : SState}
    (h : Runs ω P (p, σ) (q, σ')) (hp : p = p') (hq : q = q') : Runs ω P (p', σ) (q', σ') := hp ▸ hq ▸ h

/-- `lea L(%rip), %rax; jmp *%rax` arrives at `L` when code addresses fit the register -/
theorem Runs.gotoVal {ω : Nat → Val} {P : Prog} {p q : Nat} {σ : SState} {l : Lbl}
    (h : CodeAt P p [.lea l, .jmpInd]) (hl : findLabel P l = some q) (hq : q < 2 ^ 64) :
    Runs ω P (p, σ) (q, σ) := by
  intro s hp hs
  have h0 := h.get 0 (by simp)
  have h1 := h.get 1 (by simp)
  simp only [List.getElem?_cons_zero, List.getElem?_cons_succ, Nat.add_zero] at h0 h1
  simp only at hp hs
  subst hp; subst hs
  refine ⟨{ s with rax := BitVec.ofNat 64 q, pc := q }, ⟨2, ?_⟩, rfl, rfl⟩
  simp [stepN, ChibiVerif.Ctl.step, h0, h1, hl, MState.next, BitVec.toNat_ofNat, Nat.mod_eq_of_lt hq]

section
variable {ω : Nat → Val} {P : Prog} {fb : SStmt} {R : Nat → Nat → Prop} {V : Prop}

theorem MatchK.cast {k : Cont} {q q' : Nat} {b ct : Option Nat} (h : MatchK ω P fb R V k q b ct) (e : q = q') :
    MatchK ω P fb R V k q' b ct := e ▸ h

theorem good_skip (b ct : Option Nat) : Good fb R V b ct .skip := ⟨trivial, trivial, rfl⟩

theorem matchS_skip {k : Cont} {q : Nat} {b ct : Option Nat} (hq : q ≤ P.length) (hk : MatchK ω P fb R V k q b ct) :
    MatchS ω P fb R V .skip k q :=
  ⟨.skip, 0, b, ct, rfl, codeAt_nil hq, good_skip b ct, by simpa [genStmt] using hk⟩

/-- from the continue label of a `for` back to its head -/
theorem for_back (hu : UniqueLabels P) {p0 c0 : Nat} {cnd inc : Option Nat} {brk cont : Nat} {body : Stmt}
    (h3 : CodeAt P p0 (genStmt (.for_ none cnd inc brk cont body) c0).1) (σ : SState) :
    Runs ω P (p0 + 1 + (condCode cnd brk).length + (genStmt body (c0 + 1)).1.length, σ) (p0, σ.emitOpt inc) := by
  obtain ⟨hBegin, _, _, hCont, hInc, hJmp, _, _⟩ := for_layout h3
  have h1 := Runs.label (ω := ω) (σ := σ) hCont
  cases inc with
  | none =>
    simp only [callOpt, List.length_nil, Nat.add_zero] at hJmp
    exact h1.trans (Runs.jmp hJmp (findLabel_of_unique hu hBegin))
  | some j =>
    simp only [callOpt, List.length_singleton] at hJmp
    have h2 := Runs.callM (ω := ω) (σ := σ) hInc.head
    exact h1.trans (h2.trans (Runs.jmp hJmp (findLabel_of_unique hu hBegin)))

/-- over the break label of a `for` -/
theorem for_exit {p0 c0 : Nat} {cnd inc : Option Nat} {brk cont : Nat} {body : Stmt}
    (h3 : CodeAt P p0 (genStmt (.for_ none cnd inc brk cont body) c0).1) :
    Silent ω P (p0 + 1 + (condCode cnd brk).length + (genStmt body (c0 + 1)).1.length + 1 + (callOpt inc).length + 1)
      (p0 + (genStmt (.for_ none cnd inc brk cont body) c0).1.length) := by
  obtain ⟨_, _, _, _, _, _, hBrk, hlen⟩ := for_layout h3
  intro σ
  rw [hlen]
  exact (Runs.label hBrk).castPos rfl (by omega)

theorem do_exit {p0 c0 c : Nat} {brk cont : Nat} {body : Stmt}
    (h3 : CodeAt P p0 (genStmt (.doWhile brk cont body c) c0).1) :
    Silent ω P (p0 + 1 + (genStmt body (c0 + 1)).1.length + 4) (p0 + (genStmt (.doWhile brk cont body c) c0).1.length) := by
  obtain ⟨_, _, _, _, hBrk, hlen⟩ := do_layout h3
  intro σ
  rw [hlen]
  exact (Runs.label hBrk).castPos rfl (by omega)

/-! ### the context of one function -/

/-- what the simulation uses of the function as a whole: labels are unique, the code ends with the
    return label, code addresses fit a register if there is a computed goto, and a resolved
    `goto` arrives where `find` says -/
structure FnOK (ω : Nat → Val) (P : Prog) (fb : SStmt) (R : Nat → Nat → Prop) (V : Prop) (pend : Nat) : Prop where
  uniq : UniqueLabels P
  ret : P[pend]? = some (.label .ret)
  len : P.length = pend + 1
  size : V → P.length < 2 ^ 64
  goto : ∀ l t, R l t → labelOK fb l = true →
    ∃ (r : SStmt × Cont) (q : Nat), find (.lbl l) fb .stop = some r ∧ P[q]? = some (.label (.u t)) ∧
      MatchS ω P fb R V r.1 r.2 (q + 1)

/-- what one step of the abstract machine from `(s, k)` at position `p` requires of the code -/
def StepOK (ω : Nat → Val) (P : Prog) (fb : SStmt) (R : Nat → Nat → Prop) (V : Prop)
    (s : SStmt) (k : Cont) (p : Nat) (σ : SState) : Prop :=
  match Spec.Ctl.step ω fb s k σ with
  | .next s' k' σ' => ∃ p', Runs ω P (p, σ) (p', σ') ∧ MatchS ω P fb R V s' k' p'
  | .fin _ σ' => Runs ω P (p, σ) (P.length, σ')
  | .stuck => False

variable {pend : Nat}

theorem runs_to_end (H : FnOK ω P fb R V pend) (σ : SState) : Runs ω P (pend, σ) (P.length, σ) := by
  rw [H.len]; exact Runs.label H.ret

theorem sim_skip (H : FnOK ω P fb R V pend) {k : Cont} {p : Nat} {b ct : Option Nat} {σ : SState}
    (hk : MatchK ω P fb R V k p b ct) : StepOK ω P fb R V .skip k p σ := by
  unfold StepOK
  cases hk with
  | @stop _ q0 h1 h2 =>
    simp only [Spec.Ctl.step]
    have : q0 = pend := H.uniq _ _ _ h2 H.ret
    subst this
    exact (h1 σ).trans (runs_to_end H σ)
  | @seq _ q0 c st s k' _ _ h1 h2 h3 h4 h5 =>
    simp only [Spec.Ctl.step]
    exact ⟨q0, h1 σ, st, c, _, _, h2, h3, h4, h5⟩
  | @forK _ q0 p0 c0 cnd inc brk cont bodyT body k' b' ct' h1 h2 h3 h4 h5 h6 =>
    simp only [Spec.Ctl.step]
    refine ⟨p0, (h1 σ).trans ?_, .for_ none cnd inc brk cont bodyT, c0, b', ct', by simp only [erase, h2], h3,
      Good.mk_for none h5, h6⟩
    rw [h4]; exact for_back H.uniq h3 σ
  | @doK _ q0 p0 c0 c brk cont bodyT body k' b' ct' h1 h2 h3 h4 h5 h6 =>
    simp only [Spec.Ctl.step]
    obtain ⟨hBegin, _, hCont, hTest, _, _⟩ := do_layout h3
    have r1 := (h1 σ).trans ((Runs.label (ω := ω) (σ := σ) hCont).castPos h4.symm rfl)
    have r2 := Runs.testJne (ω := ω) (σ := σ) hTest (findLabel_of_unique H.uniq hBegin)
    by_cases htr : truth (σ.call ω (.c c)).1 = true
    · simp only [htr, if_true] at r2 ⊢
      exact ⟨p0, r1.trans r2, .doWhile brk cont bodyT c, c0, b', ct', by simp only [erase, h2], h3, Good.mk_do h5, h6⟩
    · simp only [htr, Bool.false_eq_true, if_false] at r2 ⊢
      refine ⟨_, (r1.trans r2).trans ((do_exit h3 _).castPos (by omega) rfl), matchS_skip h3.end_le h6⟩
  | @swK _ q0 brk k' b' _ h1 h2 h3 =>
    simp only [Spec.Ctl.step]
    exact ⟨q0 + 1, (h1 σ).trans (Runs.label h2), matchS_skip (lt_of_getElem? h2) h3⟩

theorem sim_marker (H : FnOK ω P fb R V pend) {k : Cont} {p c m : Nat} {b ct : Option Nat} {σ : SState}
    (hcode : CodeAt P p (genStmt (.marker m) c).1)
    (hk : MatchK ω P fb R V k (p + (genStmt (.marker m) c).1.length) b ct) :
    StepOK ω P fb R V (erase (.marker m)) k p σ := by
  unfold StepOK
  simp only [erase, Spec.Ctl.step]
  simp only [genStmt, List.length_singleton] at hcode hk
  exact ⟨p + 1, Runs.callM hcode.head, matchS_skip (by have := hcode.end_le; simpa using this) hk⟩

theorem sim_seq (H : FnOK ω P fb R V pend) {k : Cont} {p c : Nat} {x y : Stmt} {b ct : Option Nat} {σ : SState}
    (hcode : CodeAt P p (genStmt (.seq x y) c).1) (hg : Good fb R V b ct (.seq x y))
    (hk : MatchK ω P fb R V k (p + (genStmt (.seq x y) c).1.length) b ct) :
    StepOK ω P fb R V (erase (.seq x y)) k p σ := by
  unfold StepOK
  simp only [erase, Spec.Ctl.step]
  simp only [genStmt, List.length_append] at hcode hk
  exact ⟨p, Runs.refl ω P _, x, c, b, ct, rfl, hcode.left, hg.seq.1,
    .seq (Silent.refl ω P _) rfl hcode.right hg.seq.2 (by rw [Nat.add_assoc]; exact hk)⟩

theorem sim_ifte (H : FnOK ω P fb R V pend) {k : Cont} {p c cnd : Nat} {x y : Stmt} {b ct : Option Nat} {σ : SState}
    (hcode : CodeAt P p (genStmt (.ifte cnd x y) c).1) (hg : Good fb R V b ct (.ifte cnd x y))
    (hk : MatchK ω P fb R V k (p + (genStmt (.ifte cnd x y) c).1.length) b ct) :
    StepOK ω P fb R V (erase (.ifte cnd x y)) k p σ := by
  unfold StepOK
  simp only [erase, Spec.Ctl.step]
  obtain ⟨hT, hX, hJ, hEl, hY, hEnd, hlen⟩ := if_layout hcode
  rw [hlen] at hk
  have hTail : Silent ω P (p + 3 + (genStmt x (c + 1)).1.length + 2 + (genStmt y (genStmt x (c + 1)).2).1.length)
      (p + (3 + (genStmt x (c + 1)).1.length + 2 + (genStmt y (genStmt x (c + 1)).2).1.length + 1)) := by
    intro σ'
    exact (Runs.label hEnd).castPos rfl (by omega)
  have hTest := Runs.testJe (ω := ω) (σ := σ) hT (findLabel_of_unique H.uniq hEl)
  by_cases htr : truth (σ.call ω (.c cnd)).1 = true
  · simp only [htr, if_true] at hTest ⊢
    exact ⟨p + 3, hTest, x, c + 1, b, ct, rfl, hX, hg.ifte.1,
      hk.prepend ((Silent.jmp hJ (findLabel_of_unique H.uniq hEnd)).trans hTail)⟩
  · simp only [htr, Bool.false_eq_true, if_false] at hTest ⊢
    refine ⟨p + 3 + (genStmt x (c + 1)).1.length + 2, hTest.trans ((Runs.label hEl).castPos rfl (by omega)),
      y, (genStmt x (c + 1)).2, b, ct, rfl, hY, hg.ifte.2, hk.prepend hTail⟩

theorem sim_for (H : FnOK ω P fb R V pend) {k : Cont} {p c : Nat} {i cnd inc : Option Nat} {brk cont : Nat} {body : Stmt}
    {b ct : Option Nat} {σ : SState}
    (hcode : CodeAt P p (genStmt (.for_ i cnd inc brk cont body) c).1) (hg : Good fb R V b ct (.for_ i cnd inc brk cont body))
    (hk : MatchK ω P fb R V k (p + (genStmt (.for_ i cnd inc brk cont body) c).1.length) b ct) :
    StepOK ω P fb R V (erase (.for_ i cnd inc brk cont body)) k p σ := by
  unfold StepOK
  cases i with
  | some i =>
    simp only [erase, Spec.Ctl.step]
    rw [gen_for_some] at hcode hk
    refine ⟨p + 1, Runs.callM hcode.left.head, .for_ none cnd inc brk cont body, c, b, ct, rfl, hcode.right,
      Good.mk_for none hg.for_, hk.cast ?_⟩
    simp only [List.length_append, List.length_singleton]; omega
  | none =>
    obtain ⟨hBegin, hCC, hX, _, _, _, hBrk, hlen⟩ := for_layout hcode
    have hStart := Runs.label (ω := ω) (σ := σ) hBegin
    have hkb : MatchK ω P fb R V (.forK cnd inc (erase body) k)
        (p + 1 + (condCode cnd brk).length + (genStmt body (c + 1)).1.length) (some brk) (some cont) :=
      .forK (Silent.refl ω P _) rfl hcode rfl hg.for_ hk
    cases cnd with
    | none =>
      simp only [erase, Spec.Ctl.step]
      exact ⟨p + 1 + (condCode none brk).length, hStart.castPos rfl (by simp [condCode]), body, c + 1, _, _, rfl, hX,
        hg.for_, hkb⟩
    | some cn =>
      simp only [erase, Spec.Ctl.step]
      have hTest := Runs.testJe (ω := ω) (σ := σ) (p := p + 1) (by simpa [condCode] using hCC)
        (findLabel_of_unique H.uniq hBrk)
      by_cases htr : truth (σ.call ω (.c cn)).1 = true
      · simp only [htr, if_true] at hTest ⊢
        exact ⟨p + 1 + (condCode (some cn) brk).length, (hStart.trans hTest).castPos rfl (by simp [condCode]),
          body, c + 1, _, _, rfl, hX, hg.for_, hkb⟩
      · simp only [htr, Bool.false_eq_true, if_false] at hTest ⊢
        refine ⟨_, (hStart.trans hTest).trans (for_exit hcode _), matchS_skip hcode.end_le hk⟩

theorem sim_do (H : FnOK ω P fb R V pend) {k : Cont} {p c cnd : Nat} {brk cont : Nat} {body : Stmt}
    {b ct : Option Nat} {σ : SState}
    (hcode : CodeAt P p (genStmt (.doWhile brk cont body cnd) c).1) (hg : Good fb R V b ct (.doWhile brk cont body cnd))
    (hk : MatchK ω P fb R V k (p + (genStmt (.doWhile brk cont body cnd) c).1.length) b ct) :
    StepOK ω P fb R V (erase (.doWhile brk cont body cnd)) k p σ := by
  unfold StepOK
  simp only [erase, Spec.Ctl.step]
  obtain ⟨hBegin, hX, _, _, _, _⟩ := do_layout hcode
  exact ⟨p + 1, Runs.label hBegin, body, c + 1, _, _, rfl, hX, hg.doWhile,
    .doK (Silent.refl ω P _) rfl hcode rfl hg.doWhile hk⟩

theorem sim_labelled (H : FnOK ω P fb R V pend) {k : Cont} {p c l : Nat} {x : Stmt} {b ct : Option Nat} {σ : SState}
    (hcode : CodeAt P p (.label (.u l) :: (genStmt x c).1)) (hg : Good fb R V b ct x)
    (hk : MatchK ω P fb R V k (p + ((genStmt x c).1.length + 1)) b ct) :
    ∃ p', Runs ω P (p, σ) (p', σ) ∧ MatchS ω P fb R V (erase x) k p' :=
  ⟨p + 1, Runs.label hcode.head, x, c, b, ct, rfl, hcode.tail, hg, hk.cast (by omega)⟩

theorem sim_break (H : FnOK ω P fb R V pend) {k : Cont} {p c t : Nat} {b ct : Option Nat} {σ : SState}
    (hcode : CodeAt P p (genStmt (.goto_ .brk t) c).1) (hg : Good fb R V b ct (.goto_ .brk t))
    (hk : MatchK ω P fb R V k (p + (genStmt (.goto_ .brk t) c).1.length) b ct) :
    StepOK ω P fb R V (erase (.goto_ .brk t)) k p σ := by
  unfold StepOK
  simp only [erase, Spec.Ctl.step]
  obtain ⟨k', q', b', ct', hbk, hq, hm⟩ := hk.break_ t hg.1
  simp only [hbk]
  simp only [genStmt] at hcode
  exact ⟨q' + 1, (Runs.jmp hcode.head (findLabel_of_unique H.uniq hq)).trans (Runs.label hq),
    matchS_skip (lt_of_getElem? hq) hm⟩

theorem sim_continue (H : FnOK ω P fb R V pend) {k : Cont} {p c t : Nat} {b ct : Option Nat} {σ : SState}
    (hcode : CodeAt P p (genStmt (.goto_ .cont t) c).1) (hg : Good fb R V b ct (.goto_ .cont t))
    (hk : MatchK ω P fb R V k (p + (genStmt (.goto_ .cont t) c).1.length) b ct) :
    StepOK ω P fb R V (erase (.goto_ .cont t)) k p σ := by
  unfold StepOK
  simp only [erase, Spec.Ctl.step]
  obtain ⟨k', q', b', ct', hbk, hq, hm⟩ := hk.continue_ t hg.1
  simp only [hbk]
  simp only [genStmt] at hcode
  exact ⟨q', Runs.jmp hcode.head (findLabel_of_unique H.uniq hq),
    matchS_skip (Nat.le_of_lt (lt_of_getElem? hq)) hm⟩

theorem sim_goto (H : FnOK ω P fb R V pend) {k : Cont} {p c l t : Nat} {b ct : Option Nat} {σ : SState}
    (hcode : CodeAt P p (genStmt (.goto_ (.user l) t) c).1) (hg : Good fb R V b ct (.goto_ (.user l) t)) :
    StepOK ω P fb R V (erase (.goto_ (.user l) t)) k p σ := by
  unfold StepOK
  simp only [erase, Spec.Ctl.step]
  have hok : labelOK fb l = true := by have := hg.2.2; simpa [erase, okStmt] using this
  obtain ⟨r, q, hf, hq, hm⟩ := H.goto l t hg.2.1 hok
  simp only [hok, if_true, hf]
  simp only [genStmt] at hcode
  exact ⟨q + 1, (Runs.jmp hcode.head (findLabel_of_unique H.uniq hq)).trans (Runs.label hq), hm⟩

theorem sim_gotoVal (H : FnOK ω P fb R V pend) {k : Cont} {p c l t : Nat} {b ct : Option Nat} {σ : SState}
    (hcode : CodeAt P p (genStmt (.gotoVal l t) c).1) (hg : Good fb R V b ct (.gotoVal l t)) :
    StepOK ω P fb R V (erase (.gotoVal l t)) k p σ := by
  unfold StepOK
  simp only [erase, Spec.Ctl.step]
  have hok : labelOK fb l = true := by have := hg.2.2; simpa [erase, okStmt] using this
  obtain ⟨r, q, hf, hq, hm⟩ := H.goto l t hg.2.1.1 hok
  simp only [hok, if_true, hf]
  simp only [genStmt] at hcode
  have hlt : q < 2 ^ 64 := Nat.lt_trans (lt_of_getElem? hq) (H.size hg.2.1.2)
  exact ⟨q + 1, (Runs.gotoVal hcode (findLabel_of_unique H.uniq hq) hlt).trans (Runs.label hq), hm⟩

theorem sim_ret (H : FnOK ω P fb R V pend) {k : Cont} {p c : Nat} {σ : SState}
    (hcode : CodeAt P p (genStmt .ret c).1) : StepOK ω P fb R V (erase .ret) k p σ := by
  unfold StepOK
  simp only [erase, Spec.Ctl.step]
  simp only [genStmt] at hcode
  exact (Runs.jmp hcode.head (findLabel_of_unique H.uniq H.ret)).trans (runs_to_end H σ)

end

/-! ### `switch`: the ladder and `find` select the same label -/

theorem hitLabels_case (w u : Bool) (v : Val) (st : Stmt) :
    hitLabels (.case_ w u v) st = ((caseEnts st).filter (fun e => caseMatches w u e.lo e.hi v)).map (·.lbl) := by
  induction st with
  | seq a b iha ihb => simp only [hitLabels, caseEnts, List.filter_append, List.map_append, iha, ihb]
  | block s ih => simpa only [hitLabels, caseEnts] using ih
  | ifte c a b iha ihb => simp only [hitLabels, caseEnts, List.filter_append, List.map_append, iha, ihb]
  | for_ i cnd inc brk cont body ih => simpa only [hitLabels, caseEnts] using ih
  | doWhile brk cont body c ih => simpa only [hitLabels, caseEnts] using ih
  | switch_ w' u' key cs d brk body ih => simp [hitLabels, caseEnts, Target.enters]
  | case_ l lo hi s ih =>
    simp only [hitLabels, caseEnts, Target.hitCase, List.filter_cons]
    by_cases h : caseMatches w u lo hi v = true <;> simp [h, ih]
  | default_ l s ih => simp [hitLabels, caseEnts, Target.hitDflt, ih]
  | label l u' s ih => simp [hitLabels, caseEnts, Target.hitLabel, ih]
  | _ => simp [hitLabels, caseEnts]

theorem hitLabels_dflt (st : Stmt) : hitLabels .dflt st = dflts st := by
  induction st with
  | seq a b iha ihb => simp only [hitLabels, dflts, iha, ihb]
  | block s ih => simpa only [hitLabels, dflts] using ih
  | ifte c a b iha ihb => simp only [hitLabels, dflts, iha, ihb]
  | for_ i cnd inc brk cont body ih => simpa only [hitLabels, dflts] using ih
  | doWhile brk cont body c ih => simpa only [hitLabels, dflts] using ih
  | switch_ w' u' key cs d brk body ih => simp [hitLabels, dflts, Target.enters]
  | case_ l lo hi s ih => simp [hitLabels, dflts, Target.hitCase, ih]
  | default_ l s ih => simp [hitLabels, dflts, Target.hitDflt, ih]
  | label l u' s ih => simp [hitLabels, dflts, Target.hitLabel, ih]
  | _ => simp [hitLabels, dflts]

theorem freeCases_erase (st : Stmt) : freeCases (erase st) = (caseEnts st).map (fun e => (e.lo, e.hi)) := by
  induction st with
  | seq a b iha ihb => simp only [erase, freeCases, caseEnts, List.map_append, iha, ihb]
  | block s ih => simpa only [erase, freeCases, caseEnts] using ih
  | ifte c a b iha ihb => simp only [erase, freeCases, caseEnts, List.map_append, iha, ihb]
  | for_ i cnd inc brk cont body ih => simpa only [erase, freeCases, caseEnts] using ih
  | doWhile brk cont body c ih => simpa only [erase, freeCases, caseEnts] using ih
  | case_ l lo hi s ih => simp only [erase, freeCases, caseEnts, List.map_cons, ih]
  | default_ l s ih => simpa only [erase, freeCases, caseEnts] using ih
  | label l u' s ih => simpa only [erase, freeCases, caseEnts] using ih
  | goto_ kind t => cases kind <;> rfl
  | _ => rfl

theorem freeDefaults_erase (st : Stmt) : freeDefaults (erase st) = (dflts st).length := by
  induction st with
  | seq a b iha ihb => simp only [erase, freeDefaults, dflts, List.length_append, iha, ihb]
  | block s ih => simpa only [erase, freeDefaults, dflts] using ih
  | ifte c a b iha ihb => simp only [erase, freeDefaults, dflts, List.length_append, iha, ihb]
  | for_ i cnd inc brk cont body ih => simpa only [erase, freeDefaults, dflts] using ih
  | doWhile brk cont body c ih => simpa only [erase, freeDefaults, dflts] using ih
  | case_ l lo hi s ih => simpa only [erase, freeDefaults, dflts] using ih
  | default_ l s ih => simp only [erase, freeDefaults, dflts, List.length_cons, ih]
  | label l u' s ih => simpa only [erase, freeDefaults, dflts] using ih
  | goto_ kind t => cases kind <;> rfl
  | _ => rfl

section
variable {ω : Nat → Val} {P : Prog} {fb : SStmt} {R : Nat → Nat → Prop} {V : Prop} {pend : Nat}

theorem sim_switch (H : FnOK ω P fb R V pend) {k : Cont} {p c key : Nat} {w u : Bool} {cs : List CaseEnt} {d : Option Nat}
    {brk : Nat} {body : Stmt} {b ct : Option Nat} {σ : SState}
    (hcode : CodeAt P p (genStmt (.switch_ w u key cs d brk body) c).1) (hg : Good fb R V b ct (.switch_ w u key cs d brk body))
    (hk : MatchK ω P fb R V k (p + (genStmt (.switch_ w u key cs d brk body) c).1.length) b ct) :
    StepOK ω P fb R V (erase (.switch_ w u key cs d brk body)) k p σ := by
  unfold StepOK
  simp only [erase, Spec.Ctl.step]
  have hgb := hg.switch_
  obtain ⟨hbnd, hgr, hok⟩ := hg
  simp only [erase, okStmt, Bool.and_eq_true] at hok
  obtain ⟨hsw, _⟩ := hok
  simp only [hsw, if_true]
  obtain ⟨hbb, hcases, hdf⟩ := hbnd
  unfold switchOKG at hsw
  rw [freeCases_erase, freeDefaults_erase] at hsw
  simp only [Bool.and_eq_true, List.all_eq_true, decide_eq_true_eq] at hsw
  obtain ⟨⟨hord, hdisj⟩, hone⟩ := hsw
  have hord' : ∀ e ∈ caseEnts body, toT w u e.lo ≤ toT w u e.hi :=
    fun e he => hord (e.lo, e.hi) (List.mem_map_of_mem (f := fun e : CaseEnt => (e.lo, e.hi)) he)
  obtain ⟨hHead, hX, hB, hlen⟩ := switch_layout hcode
  rw [hlen] at hk
  have hkb : MatchK ω P fb R V (.swK k) (p + (1 + (ladder w cs d brk).length) + (genStmt body c).1.length) (some brk) ct :=
    .swK (Silent.refl ω P _) hB (hk.cast (by omega))
  have hExit : ∀ σ', Runs ω P (p + (1 + (ladder w cs d brk).length) + (genStmt body c).1.length, σ')
      (p + (1 + (ladder w cs d brk).length + (genStmt body c).1.length + 1), σ') :=
    fun σ' => (Runs.label hB).castPos rfl (by omega)
  generalize hv : (σ.call ω (.inp key)).1 = v
  cases hfc : find (.case_ w u v) (erase body) (.swK k) with
  | some r =>
    simp only []
    obtain ⟨ul, rest, q, hhit, hq, hm⟩ := find_entry H.uniq _ body c _ _ _ _ r.1 r.2 hX hgb hkb hfc
    rw [hitLabels_case] at hhit
    have hmem : ul ∈ ((caseEnts body).filter (fun e => caseMatches w u e.lo e.hi v)).map (·.lbl) := by
      rw [hhit]; exact List.mem_cons_self
    obtain ⟨e, he, rfl⟩ := List.mem_map.1 hmem
    obtain ⟨heb, hem⟩ := List.mem_filter.1 he
    have hsel : selectLbl w v cs d brk = e.lbl := by
      apply selectLbl_of_match d brk e cs ((hcases e).2 heb)
        (by rw [entMatches_spec w u e v (hord' e heb)]; exact hem)
      intro e' he' hm'
      have he'b := (hcases e').1 he'
      rw [entMatches_spec w u e' v (hord' e' he'b)] at hm'
      by_cases hee : e' = e
      · rw [hee]
      · have hd := pairwise_map_disjoint w u (fun e : CaseEnt => (e.lo, e.hi)) _ hdisj e' he'b e heb hee
        have := matches_not_disjoint w u (e'.lo, e'.hi) (e.lo, e.hi) v hm' hem
        rw [this] at hd; cases hd
    have hrun := Runs.switchHead (ω := ω) (σ := σ) w cs d brk hHead
      (by rw [hv, hsel]; exact findLabel_of_unique H.uniq hq)
    exact ⟨q + 1, hrun.trans (Runs.label hq), hm⟩
  | none =>
    simp only []
    have hnil := find_none _ body _ hfc
    rw [hitLabels_case] at hnil
    have hno : ∀ e' ∈ cs, entMatches w e' v = false := by
      intro e' he'
      have he'b := (hcases e').1 he'
      rw [entMatches_spec w u e' v (hord' e' he'b)]
      cases hcm : caseMatches w u e'.lo e'.hi v with
      | false => rfl
      | true =>
        have : e'.lbl ∈ ((caseEnts body).filter (fun e => caseMatches w u e.lo e.hi v)).map (·.lbl) :=
          List.mem_map_of_mem (List.mem_filter.2 ⟨he'b, by simpa using hcm⟩)
        rw [hnil] at this; cases this
    have hsel := selectLbl_none (w := w) (v := v) d brk cs hno
    cases hfd : find .dflt (erase body) (.swK k) with
    | some r =>
      simp only []
      obtain ⟨ul, rest, q, hhit, hq, hm⟩ := find_entry H.uniq _ body c _ _ _ _ r.1 r.2 hX hgb hkb hfd
      rw [hitLabels_dflt] at hhit
      rw [hhit] at hone hdf
      have hr : rest = [] := by
        cases rest with
        | nil => rfl
        | cons a r' => simp only [List.length_cons] at hone; omega
      subst hr
      cases d with
      | none => simp [DfltOf] at hdf
      | some x =>
        have hx : x = ul := by simpa [DfltOf] using hdf
        subst hx
        have hrun := Runs.switchHead (ω := ω) (σ := σ) w cs (some x) brk hHead
          (by rw [hv, hsel]; exact findLabel_of_unique H.uniq hq)
        exact ⟨q + 1, hrun.trans (Runs.label hq), hm⟩
    | none =>
      simp only []
      have hnil2 := find_none _ body _ hfd
      rw [hitLabels_dflt] at hnil2
      rw [hnil2] at hdf
      cases d with
      | some x => simp [DfltOf] at hdf
      | none =>
        have hrun := Runs.switchHead (ω := ω) (σ := σ) w cs none brk hHead
          (by rw [hv, hsel]; exact findLabel_of_unique H.uniq hB)
        exact ⟨_, hrun.trans (hExit _), matchS_skip (by have := hcode.end_le; omega) hk⟩

/-- **one step**: from a matched configuration, whatever the abstract machine does next the code does too -/
theorem step_sim (H : FnOK ω P fb R V pend) {s : SStmt} {k : Cont} {p : Nat} {σ : SState}
    (hm : MatchS ω P fb R V s k p) : StepOK ω P fb R V s k p σ := by
  obtain ⟨st, c, b, ct, rfl, hcode, hg, hk⟩ := hm
  cases st with
  | skip =>
    simp only [genStmt, List.length_nil, Nat.add_zero] at hk
    exact sim_skip H hk
  | marker m => exact sim_marker H hcode hk
  | seq x y => exact sim_seq H hcode hg hk
  | block x =>
    unfold StepOK
    simp only [erase, Spec.Ctl.step]
    exact ⟨p, Runs.refl ω P _, x, c, b, ct, rfl, hcode, hg.block, hk⟩
  | ifte cnd x y => exact sim_ifte H hcode hg hk
  | for_ i cnd inc brk cont body => exact sim_for H hcode hg hk
  | doWhile brk cont body cnd => exact sim_do H hcode hg hk
  | switch_ w u key cs d brk body => exact sim_switch H hcode hg hk
  | case_ l lo hi x =>
    unfold StepOK
    simp only [erase, Spec.Ctl.step]
    exact sim_labelled H (by simpa only [genStmt] using hcode) hg.case_ (by simpa only [genStmt, List.length_cons] using hk)
  | default_ l x =>
    unfold StepOK
    simp only [erase, Spec.Ctl.step]
    exact sim_labelled H (by simpa only [genStmt] using hcode) hg.default_ (by simpa only [genStmt, List.length_cons] using hk)
  | label l u x =>
    unfold StepOK
    simp only [erase, Spec.Ctl.step]
    exact sim_labelled H (by simpa only [genStmt] using hcode) hg.label (by simpa only [genStmt, List.length_cons] using hk)
  | goto_ kind t =>
    cases kind with
    | brk => exact sim_break H hcode hg hk
    | cont => exact sim_continue H hcode hg hk
    | user l => exact sim_goto H hcode hg
  | gotoN l => exact absurd hg.2.1 (by simp [GotoR])
  | gotoVal l t => exact sim_gotoVal H hcode hg
  | gotoValN l => exact absurd hg.2.1 (by simp [GotoR])
  | ret => exact sim_ret H hcode

/-- **all steps**: the result of `n` steps of the abstract machine, read as a statement about the code -/
theorem run_sim (H : FnOK ω P fb R V pend) : ∀ (n : Nat) (s : SStmt) (k : Cont) (p : Nat) (σ : SState),
    MatchS ω P fb R V s k p →
    match run ω fb n s k σ with
    | .done _ σ' => Runs ω P (p, σ) (P.length, σ')
    | .timeout σ' => ∃ q, Runs ω P (p, σ) (q, σ')
    | .unsupported => False := by
  intro n
  induction n with
  | zero => intro s k p σ _; simp only [run]; exact ⟨p, Runs.refl ω P _⟩
  | succ n ih =>
    intro s k p σ hm
    have hs := step_sim H (σ := σ) hm
    unfold StepOK at hs
    simp only [run]
    cases hst : Spec.Ctl.step ω fb s k σ with
    | next s' k' σ' =>
      rw [hst] at hs
      obtain ⟨p', hr, hm'⟩ := hs
      simp only []
      have h2 := ih s' k' p' σ' hm'
      cases hr2 : run ω fb n s' k' σ' with
      | done o σ2 => rw [hr2] at h2; exact hr.trans h2
      | timeout σ2 => rw [hr2] at h2; obtain ⟨q, hq⟩ := h2; exact ⟨q, hr.trans hq⟩
      | unsupported => rw [hr2] at h2; exact h2
    | fin o σ' => rw [hst] at hs; exact hs
    | stuck => rw [hst] at hs; exact hs

end

end ChibiVerif.Ctl
