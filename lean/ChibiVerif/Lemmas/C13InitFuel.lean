/-
C13 — the recursion budget of the initializer parser (Model/Init.lean) is never exhausted: every C call or loop iteration of
the thirteen mutually recursive functions consumes a token, descends one level of the type, or steps over one member.
`wt ty` bounds the calls that consume no token (4 per array level: initializer2 → array_initializer2 →
count_array_init_elements → its loop; 4 per struct/union level plus 1 per member); every token pays for at most two
further calls.  Induction over the budget for all functions at once, with the invariant "the rest is no longer than the input".
-/
import ChibiVerif.Model.Init
import ChibiVerif.Lemmas.InitBracedStr

namespace ChibiVerif.C13InitFuel
open ChibiVerif.Init

/-- the outcome is a value satisfying `Q`, a diagnostic or an abort site — never the exhausted recursion budget -/
def NF {α : Type} (Q : α → Prop) : Except Fail α → Prop
  | .ok a => Q a
  | .error .fuel => False
  | .error (.diag _) => True
  | .error (.crash _) => True

theorem NF.pure {α : Type} {Q : α → Prop} {a : α} (h : Q a) : NF Q (Pure.pure a : Except Fail α) := h

theorem NF.mono {α : Type} {P Q : α → Prop} {x : Except Fail α} (h : NF P x) (hpq : ∀ a, P a → Q a) : NF Q x := by
  cases x with
  | ok a => exact hpq a h
  | error e => cases e <;> first | trivial | exact h

theorem NF.bind {α β : Type} {P : α → Prop} {Q : β → Prop} {x : Except Fail α} {k : α → Except Fail β}
    (hx : NF P x) (hk : ∀ a, P a → NF Q (k a)) : NF Q (x >>= k) := by
  cases x with
  | ok a => exact hk a hx
  | error e => cases e <;> first | trivial | exact hx

theorem NF.foldlM {α β : Type} {I : β → Prop} {s : β → α → Except Fail β}
    (hs : ∀ b a, I b → NF I (s b a)) : ∀ (l : List α) (b : β), I b → NF I (l.foldlM s b)
  | [], b, hb => hb
  | a :: l, b, hb => by
    simp only [List.foldlM]
    exact NF.bind (hs b a hb) (fun b' hb' => NF.foldlM hs l b' hb')

theorem NF.iteBind {α β : Type} {c : Prop} [Decidable c] {x y : Except Fail α} {k : α → Except Fail β}
    {P : α → Prop} {Q : β → Prop} (h : NF P (if c then x else y)) (hk : ∀ a, P a → NF Q (k a)) :
    NF Q (if c then x >>= k else y >>= k) := by
  by_cases hc : c <;> simp only [hc, ↓reduceIte] at h ⊢ <;> exact NF.bind h hk

theorem NF.ne_fuel {α : Type} {Q : α → Prop} {x : Except Fail α} (h : NF Q x) : x ≠ .error .fuel := by
  intro e; rw [e] at h; exact h

/-! ## the weight of a type -/

mutual
  /-- calls of the parser on a value of type `ty` that consume no token, along one chain of the recursion -/
  def wt : Ty → Nat
    | .scalar .. => 1
    | .array e _ => wt e + 4
    | .inc e => wt e + 4
    | .struct ms _ _ => wtMs ms + 4
    | .union ms _ _ => wtMs ms + 4
  def wtMs : Members → Nat
    | [] => 0
    | (_, t) :: r => wt t + wtMs r + 1
end

mutual
  theorem wt_le : ∀ ty : Ty, wt ty ≤ 4 * ty.nodes
    | .scalar .. => by simp only [wt, Ty.nodes]; omega
    | .array e _ => by have := wt_le e; simp only [wt, Ty.nodes]; omega
    | .inc e => by have := wt_le e; simp only [wt, Ty.nodes]; omega
    | .struct ms _ _ => by have := wtMs_le ms; simp only [wt, Ty.nodes]; omega
    | .union ms _ _ => by have := wtMs_le ms; simp only [wt, Ty.nodes]; omega
  theorem wtMs_le : ∀ ms : Members, wtMs ms ≤ 4 * nodesMs ms
    | [] => by simp only [wtMs, nodesMs]; omega
    | (_, t) :: r => by have := wt_le t; have := wtMs_le r; simp only [wtMs, nodesMs]; omega
end

theorem wt_pos (ty : Ty) : 1 ≤ wt ty := by cases ty <;> simp only [wt] <;> omega

theorem wtMs_drop_get : ∀ (ms : Members) (k : Nat) (mi : MemInfo) (t : Ty), ms[k]? = some (mi, t) →
    wtMs (ms.drop k) = wt t + wtMs (ms.drop (k+1)) + 1
  | [], k, _, _, h => by simp at h
  | (m, t') :: r, 0, mi, t, h => by
    simp only [List.getElem?_cons_zero, Option.some.injEq, Prod.mk.injEq] at h
    obtain ⟨_, rfl⟩ := h
    simp [wtMs]
  | _ :: r, k+1, mi, t, h => by
    simp only [List.getElem?_cons_succ] at h
    simpa using wtMs_drop_get r k mi t h

theorem wtMs_drop_le : ∀ (ms : Members) (k : Nat), wtMs (ms.drop k) ≤ wtMs ms
  | [], k => by simp
  | _ :: _, 0 => by simp
  | (m, t) :: r, k+1 => by have := wtMs_drop_le r k; simp only [List.drop_succ_cons, wtMs]; omega

theorem wt_mem_le (ms : Members) (k : Nat) (mi : MemInfo) (t : Ty) (h : ms[k]? = some (mi, t)) : wt t + 1 ≤ wtMs ms := by
  have h1 := wtMs_drop_get ms k mi t h
  have h2 := wtMs_drop_le ms k
  omega

/-! ## the functions outside the mutual block -/

theorem skipTok_nf (t : ITok) (w : String) (toks : List ITok) :
    NF (fun r => r.length + 1 = toks.length) (skipTok t w toks) := by
  cases toks with
  | nil => simp [skipTok, NF]
  | cons x r => simp only [skipTok]; split <;> simp [NF]

theorem parseAssign_nf (toks : List ITok) : NF (fun r => r.2.length + 1 = toks.length) (parseAssign toks) := by
  unfold parseAssign; split <;> simp [NF]

theorem consumeEnd_lt {toks rest : List ITok} (h : consumeEnd toks = some rest) : rest.length + 1 ≤ toks.length := by
  unfold consumeEnd at h
  split at h
  · cases h; simp only [List.length_cons]; omega
  · cases h; simp only [List.length_cons]; omega
  · cases h

theorem optComma_nf (c : Bool) (toks : List ITok) :
    NF (fun r => r.length ≤ toks.length ∧ (c = false → r.length + 1 = toks.length))
      (if c = true then (pure toks : Except Fail (List ITok)) else skipTok .comma "," toks) := by
  cases c
  · simp only [Bool.false_eq_true, ↓reduceIte]
    exact (skipTok_nf _ _ _).mono (fun r hr => ⟨by omega, fun _ => hr⟩)
  · simp only [↓reduceIte]; exact ⟨Nat.le_refl _, fun h => by cases h⟩

theorem optComma'_nf (c : Prop) [Decidable c] (toks : List ITok) :
    NF (fun r => r.length ≤ toks.length ∧ (c → r.length + 1 = toks.length))
      (if c then skipTok .comma "," toks else (pure toks : Except Fail (List ITok))) := by
  by_cases h : c
  · simp only [h, ↓reduceIte]
    exact (skipTok_nf _ _ _).mono (fun r hr => ⟨by omega, fun _ => hr⟩)
  · simp only [h, ↓reduceIte]; exact ⟨Nat.le_refl _, fun h' => by first | exact h'.elim | exact absurd h' h⟩

theorem skipExcess_nf : ∀ (f : Nat) (toks : List ITok), toks.length + 1 ≤ f →
    NF (fun r => r.length ≤ toks.length) (skipExcess f toks)
  | 0, _, h => by omega
  | f+1, toks, h => by
    have hfall : ∀ toks : List ITok, NF (fun r => r.length ≤ toks.length)
        (do let (_, r) ← parseAssign toks; pure r : Except Fail (List ITok)) := by
      intro toks
      exact NF.bind (parseAssign_nf toks) (fun a ha => by show a.2.length ≤ _; omega)
    cases toks with
    | nil => exact hfall _
    | cons t r =>
      cases t <;> first | exact hfall _ | skip
      simp only [skipExcess]
      simp only [List.length_cons] at h
      refine NF.bind (skipExcess_nf f r (by omega)) ?_
      intro a ha
      exact (skipTok_nf _ _ a).mono (fun b hb => by simp only [List.length_cons]; omega)

theorem arrayDesignator_nf (len : Nat) (toks : List ITok) :
    NF (fun r => r.2.2.length + 1 = toks.length) (arrayDesignator len toks) := by
  unfold arrayDesignator
  repeat' split
  all_goals simp [NF]

theorem structDesignator_nf (name : String) : ∀ (ms : Members) (i : Nat), NF (fun _ => True) (structDesignator name ms i)
  | [], i => by simp [structDesignator, NF]
  | (mi, t) :: r, i => by
    have := structDesignator_nf name r (i+1)
    simp only [structDesignator]
    repeat' split
    all_goals first | exact this | simp [NF]

theorem getChild_nf (cs : List Init) (i : Nat) : NF (fun _ => True) (getChild cs i) := by
  unfold getChild; split <;> simp [NF]

theorem memTy_nf (ms : Members) (k : Nat) : NF (fun t => ∃ mi, ms[k]? = some (mi, t)) (memTy ms k) := by
  unfold memTy
  split
  · rename_i mi t h; exact ⟨mi, h⟩
  · trivial

theorem strFill_nf (bytes : List Nat) (w : Nat) : ∀ (n : Nat) (cs : List Init) (i : Nat),
    NF (fun _ => True) (strFill bytes w cs i n)
  | 0, cs, i => by cases cs <;> simp [strFill, NF]
  | n+1, [], i => by simp [strFill, NF]
  | n+1, c :: cs, i => by
    simp only [strFill]
    split
    · trivial
    · exact NF.bind (strFill_nf bytes w n cs (i+1)) (fun _ _ => trivial)

theorem stringInitializer_nf (elem : Ty) (bytes : List Nat) (esz : Nat) (rest : List ITok) (init : Init) :
    NF (fun r => r.2 = rest) (stringInitializer elem bytes esz rest init) := by
  unfold stringInitializer
  split
  · trivial
  · simp only []
    split
    · exact NF.bind (strFill_nf ..) (fun _ _ => rfl)
    · trivial

/-! ## the mutually recursive block -/

def b2n : Bool → Nat
  | true => 1
  | false => 0

/-- all functions of the block at one budget: enough budget ⇒ not "out of fuel", and the rest is no longer than the input -/
structure NH (f : Nat) : Prop where
  designation : ∀ ty toks init, 2 * toks.length + wt ty + 1 ≤ f →
    NF (fun r => r.2.length ≤ toks.length) (designation f ty toks init)
  countLoop : ∀ elem toks d i mx first, 2 * toks.length + wt elem + b2n first ≤ f →
    NF (fun _ => True) (countLoop f elem toks d i mx first)
  countArrayInit : ∀ elem toks, 2 * toks.length + wt elem + 2 ≤ f → NF (fun _ => True) (countArrayInit f elem toks)
  arrayInit1Loop : ∀ elem toks init i first, 2 * toks.length + wt elem + b2n first ≤ f →
    NF (fun r => r.2.length ≤ toks.length) (arrayInit1Loop f elem toks init i first)
  arrayInit1 : ∀ elem toks init, 2 * toks.length + wt elem + 3 ≤ f →
    NF (fun r => r.2.length ≤ toks.length) (arrayInit1 f elem toks init)
  arrayInit2Loop : ∀ elem toks init i, 2 * toks.length + wt elem + (1 - i) ≤ f →
    NF (fun r => r.2.length ≤ toks.length) (arrayInit2Loop f elem toks init i)
  arrayInit2 : ∀ elem toks init i, 2 * toks.length + wt elem + 3 ≤ f →
    NF (fun r => r.2.length ≤ toks.length) (arrayInit2 f elem toks init i)
  structInit1Loop : ∀ ms toks init mem first, 2 * toks.length + wtMs ms + 1 + b2n first ≤ f →
    NF (fun r => r.2.length ≤ toks.length) (structInit1Loop f ms toks init mem first)
  structInit1 : ∀ ms toks init, 2 * toks.length + wtMs ms + 2 ≤ f →
    NF (fun r => r.2.length ≤ toks.length) (structInit1 f ms toks init)
  structInit2 : ∀ ms toks init mem first, 2 * toks.length + wtMs (ms.drop mem) + 1 + b2n first ≤ f →
    NF (fun r => r.2.length ≤ toks.length) (structInit2 f ms toks init mem first)
  unionRest : ∀ ms toks init, 2 * toks.length + wtMs ms + 1 ≤ f →
    NF (fun r => r.2.length ≤ toks.length) (unionRest f ms toks init)
  unionInit : ∀ ms toks init, 2 * toks.length + wtMs ms + 3 ≤ f →
    NF (fun r => r.2.length ≤ toks.length) (unionInit f ms toks init)
  initializer2 : ∀ ty toks init, 2 * toks.length + wt ty ≤ f →
    NF (fun r => r.2.length ≤ toks.length) (initializer2 f ty toks init)

theorem initializer2_succ (f : Nat) (ih : NH f) (ty : Ty) (toks : List ITok) (init : Init)
    (hf : 2 * toks.length + wt ty ≤ f + 1) :
    NF (fun r => r.2.length ≤ toks.length) (initializer2 (f + 1) ty toks init) := by
  simp only [initializer2]
  split
  · -- array
    simp only [wt] at hf
    split
    · split
      · refine (stringInitializer_nf ..).mono ?_
        intro r hr; rw [hr]; simp only [List.length_cons]; omega
      · exact ih.arrayInit2 _ _ _ _ (by omega)
    · split
      · rename_i hbs
        refine (stringInitializer_nf ..).mono ?_
        intro r hr; rw [hr]; have := bracedStr_length hbs; simp only [List.length_cons]; omega
      · exact ih.arrayInit1 _ _ _ (by omega)
    · exact ih.arrayInit2 _ _ _ _ (by omega)
  · simp only [wt] at hf
    split
    · split
      · refine (stringInitializer_nf ..).mono ?_
        intro r hr; rw [hr]; simp only [List.length_cons]; omega
      · exact ih.arrayInit2 _ _ _ _ (by omega)
    · split
      · rename_i hbs
        refine (stringInitializer_nf ..).mono ?_
        intro r hr; rw [hr]; have := bracedStr_length hbs; simp only [List.length_cons]; omega
      · exact ih.arrayInit1 _ _ _ (by omega)
    · exact ih.arrayInit2 _ _ _ _ (by omega)
  · -- struct
    simp only [wt] at hf
    split
    · exact ih.structInit1 _ _ _ (by omega)
    · refine NF.bind (parseAssign_nf toks) (fun r hr => ?_)
      split
      · show r.2.length ≤ _; omega
      · refine ih.structInit2 _ toks init 0 true ?_
        simp only [List.drop_zero, b2n]; omega
  · simp only [wt] at hf
    split
    · exact ih.unionInit _ _ _ (by omega)
    · refine NF.bind (parseAssign_nf toks) (fun r hr => ?_)
      split
      · show r.2.length ≤ _; omega
      · exact ih.unionInit _ _ _ (by omega)
  · -- scalar
    simp only [wt] at hf
    split
    · rename_i r
      try simp only [List.length_cons] at hf
      refine NF.bind (ih.initializer2 _ r init (by simp only [wt]; omega)) (fun a ha => ?_)
      refine NF.bind (skipTok_nf _ _ _) (fun b hb => ?_)
      show b.length ≤ _
      simp only [List.length_cons]
      split at hb
      · rename_i t heq
        have ha' : a.2.length ≤ r.length := ha
        rw [heq] at ha'
        simp only [List.length_cons] at ha'
        omega
      · have ha' : a.2.length ≤ r.length := ha
        omega
    · refine NF.bind (parseAssign_nf toks) (fun r hr => ?_)
      show r.2.length ≤ _; omega

theorem countArrayInit_succ (f : Nat) (ih : NH f) (elem : Ty) (toks : List ITok)
    (hf : 2 * toks.length + wt elem + 2 ≤ f + 1) : NF (fun _ => True) (countArrayInit (f + 1) elem toks) := by
  simp only [countArrayInit]
  exact NF.bind (ih.countLoop elem toks _ 0 0 true (by simp only [b2n]; omega)) (fun _ _ => trivial)

theorem arrayInit2_succ (f : Nat) (ih : NH f) (elem : Ty) (toks : List ITok) (init : Init) (i : Nat)
    (hf : 2 * toks.length + wt elem + 3 ≤ f + 1) :
    NF (fun r => r.2.length ≤ toks.length) (arrayInit2 (f + 1) elem toks init i) := by
  simp only [arrayInit2]
  have hl : ∀ x, NF (fun r => r.2.length ≤ toks.length) (arrayInit2Loop f elem toks x i) :=
    fun x => ih.arrayInit2Loop elem toks x i (by omega)
  split
  · exact NF.bind (NF.bind (ih.countArrayInit elem toks (by omega)) (fun _ _ => NF.pure (Q := fun _ => True) trivial))
      (fun x _ => hl x)
  · exact hl _

theorem arrayInit1_succ (f : Nat) (ih : NH f) (elem : Ty) (toks : List ITok) (init : Init)
    (hf : 2 * toks.length + wt elem + 3 ≤ f + 1) :
    NF (fun r => r.2.length ≤ toks.length) (arrayInit1 (f + 1) elem toks init) := by
  simp only [arrayInit1]
  refine NF.bind (skipTok_nf _ _ toks) (fun t ht => ?_)
  have hl : ∀ x, NF (fun r => r.2.length ≤ toks.length) (arrayInit1Loop f elem t x 0 true) :=
    fun x => (ih.arrayInit1Loop elem t x 0 true (by simp only [b2n]; omega)).mono (fun r hr => by
      have hr' : r.2.length ≤ t.length := hr
      show r.2.length ≤ _; omega)
  split
  · exact NF.bind (NF.bind (ih.countArrayInit elem t (by omega)) (fun _ _ => NF.pure (Q := fun _ => True) trivial))
      (fun x _ => hl x)
  · exact hl _

theorem structInit1_succ (f : Nat) (ih : NH f) (ms : Members) (toks : List ITok) (init : Init)
    (hf : 2 * toks.length + wtMs ms + 2 ≤ f + 1) :
    NF (fun r => r.2.length ≤ toks.length) (structInit1 (f + 1) ms toks init) := by
  simp only [structInit1]
  refine NF.bind (skipTok_nf _ _ toks) (fun t ht => ?_)
  exact (ih.structInit1Loop ms t init 0 true (by simp only [b2n]; omega)).mono (fun r hr => by
      have hr' : r.2.length ≤ t.length := hr
      show r.2.length ≤ _; omega)

theorem arrayInit2Loop_succ (f : Nat) (ih : NH f) (elem : Ty) (toks : List ITok) (init : Init) (i : Nat)
    (hf : 2 * toks.length + wt elem + (1 - i) ≤ f + 1) :
    NF (fun r => r.2.length ≤ toks.length) (arrayInit2Loop (f + 1) elem toks init i) := by
  simp only [arrayInit2Loop]
  split
  · refine NF.iteBind (optComma'_nf (i > 0) toks) (fun t ht => ?_)
    split
    · exact Nat.le_refl _
    · refine NF.bind (getChild_nf _ _) (fun c _ => ?_)
      have h1 : 2 * t.length + wt elem ≤ f := by
        by_cases hi : i > 0
        · have := ht.2 hi; omega
        · have : i = 0 := by omega
          subst this; have := ht.1; omega
      refine NF.bind (ih.initializer2 elem t c h1) (fun r hr => ?_)
      have hr' : r.2.length ≤ t.length := hr
      refine (ih.arrayInit2Loop elem r.2 _ (i + 1) ?_).mono (fun q hq => ?_)
      · have : 1 - (i + 1) = 0 := by omega
        rw [this]
        by_cases hi : i > 0
        · have := ht.2 hi; omega
        · have : i = 0 := by omega
          subst this; have := ht.1; omega
      · have hq' : q.2.length ≤ r.2.length := hq
        have := ht.1
        show q.2.length ≤ _; omega
  · exact Nat.le_refl _

theorem structInit2_succ (f : Nat) (ih : NH f) (ms : Members) (toks : List ITok) (init : Init) (mem : Nat) (first : Bool)
    (hf : 2 * toks.length + wtMs (ms.drop mem) + 1 + b2n first ≤ f + 1) :
    NF (fun r => r.2.length ≤ toks.length) (structInit2 (f + 1) ms toks init mem first) := by
  simp only [structInit2]
  split
  · exact Nat.le_refl _
  · rename_i mi mty hget
    have hd := wtMs_drop_get ms mem mi mty hget
    split
    · exact Nat.le_refl _
    · split
      · exact ih.structInit2 ms toks init (mem + 1) first (by omega)
      · refine NF.iteBind (optComma_nf first toks) (fun t ht => ?_)
        split
        · exact Nat.le_refl _
        · refine NF.bind (getChild_nf _ _) (fun c _ => ?_)
          have h1 : 2 * t.length + wt mty ≤ f ∧ 2 * t.length + wtMs (ms.drop (mem + 1)) + 1 ≤ f := by
            cases first
            · have := ht.2 rfl; simp only [b2n] at hf; omega
            · have := ht.1; simp only [b2n] at hf; omega
          refine NF.bind (ih.initializer2 mty t c h1.1) (fun r hr => ?_)
          have hr' : r.2.length ≤ t.length := hr
          refine (ih.structInit2 ms r.2 _ (mem + 1) false (by simp only [b2n]; omega)).mono (fun q hq => ?_)
          have hq' : q.2.length ≤ r.2.length := hq
          have := ht.1
          show q.2.length ≤ _; omega

theorem wt_elem {ty e : Ty} (h : ty.elem? = some e) : wt ty = wt e + 4 := by
  cases ty <;> simp only [Ty.elem?, Option.some.injEq] at h <;> first | (subst h; simp only [wt]) | cases h

theorem rangeLoop_nf (f : Nat) (ih : NH f) (elem : Ty) (tok : List ITok) (hf : 2 * tok.length + wt elem + 1 ≤ f)
    (init : Init) (l : List Nat) :
    NF (fun r => r.2.length ≤ tok.length)
      (l.foldlM (fun (acc : Init × List ITok) i => do
          let c ← getChild acc.1.children i
          let __x ← designation f elem tok c
          pure (acc.1.setChild i __x.1, __x.2)) (init, tok)) := by
  refine NF.foldlM (I := fun r => r.2.length ≤ tok.length) ?_ l (init, tok) (Nat.le_refl _)
  intro b a _
  refine NF.bind (getChild_nf _ _) (fun c _ => ?_)
  refine NF.bind (ih.designation elem tok c hf) (fun r hr => ?_)
  exact hr

theorem countLoop_succ (f : Nat) (ih : NH f) (elem : Ty) (toks : List ITok) (d : Init) (i mx : Int) (first : Bool)
    (hf : 2 * toks.length + wt elem + b2n first ≤ f + 1) :
    NF (fun _ => True) (countLoop (f + 1) elem toks d i mx first) := by
  simp only [countLoop]
  split
  · trivial
  · refine NF.iteBind (optComma_nf first toks) (fun t ht => ?_)
    have h1 : 2 * t.length + wt elem ≤ f := by
      cases first
      · have := ht.2 rfl; simp only [b2n] at hf; omega
      · have := ht.1; simp only [b2n] at hf; omega
    refine NF.bind (P := fun x => x.2.1.length ≤ t.length) ?_ (fun x hx => ?_)
    · split
      · rename_i a r
        simp only [List.length_cons] at h1 ⊢
        refine NF.bind (ih.designation elem r d (by omega)) (fun y hy => ?_)
        have hy' : y.2.length ≤ r.length := hy
        show y.2.length ≤ _; omega
      · rename_i a b r
        simp only [List.length_cons] at h1 ⊢
        refine NF.bind (ih.designation elem r d (by omega)) (fun y hy => ?_)
        have hy' : y.2.length ≤ r.length := hy
        show y.2.length ≤ _; omega
      · refine NF.bind (ih.initializer2 elem t d h1) (fun y hy => ?_)
        exact hy
    · have hx' : x.2.1.length ≤ t.length := hx
      exact ih.countLoop elem x.2.1 x.1 _ _ false (by simp only [b2n]; omega)

theorem arrayInit1Loop_succ (f : Nat) (ih : NH f) (elem : Ty) (toks : List ITok) (init : Init) (i : Nat) (first : Bool)
    (hf : 2 * toks.length + wt elem + b2n first ≤ f + 1) :
    NF (fun r => r.2.length ≤ toks.length) (arrayInit1Loop (f + 1) elem toks init i first) := by
  simp only [arrayInit1Loop]
  split
  · rename_i rest hce
    have := consumeEnd_lt hce
    show rest.length ≤ _; omega
  · refine NF.iteBind (optComma_nf first toks) (fun t ht => ?_)
    have h1 : 2 * t.length + wt elem ≤ f := by
      cases first
      · have := ht.2 rfl; simp only [b2n] at hf; omega
      · have := ht.1; simp only [b2n] at hf; omega
    have htl := ht.1
    have hwp := wt_pos elem
    have fin : ∀ (t2 : List ITok) (x : Init) (j : Nat), t2.length ≤ t.length →
        NF (fun r => r.2.length ≤ toks.length) (arrayInit1Loop f elem t2 x j false) := by
      intro t2 x j h2
      refine (ih.arrayInit1Loop elem t2 x j false (by simp only [b2n]; omega)).mono (fun q hq => ?_)
      have hq' : q.2.length ≤ t2.length := hq
      show q.2.length ≤ _; omega
    split
    · refine NF.bind (arrayDesignator_nf _ t) (fun r hr => ?_)
      have hr' : r.2.2.length + 1 = t.length := hr
      refine NF.bind (rangeLoop_nf f ih elem r.2.2 (by omega) init _) (fun r2 hr2 => ?_)
      have hr2' : r2.2.length ≤ r.2.2.length := hr2
      exact fin _ _ _ (by omega)
    · split
      · refine NF.bind (getChild_nf _ _) (fun c _ => ?_)
        refine NF.bind (ih.initializer2 elem t c h1) (fun r hr => ?_)
        exact fin _ _ _ hr
      · refine NF.bind (skipExcess_nf f t (by omega)) (fun r hr => ?_)
        exact fin _ _ _ hr

theorem desg_tok_len (anon : Bool) (name : String) (r : List ITok) :
    (if anon = true then (ITok.dot name :: r) else r).length ≤ r.length + 1 := by
  cases anon <;> simp

theorem structInit1Loop_succ (f : Nat) (ih : NH f) (ms : Members) (toks : List ITok) (init : Init) (mem : Nat) (first : Bool)
    (hf : 2 * toks.length + wtMs ms + 1 + b2n first ≤ f + 1) :
    NF (fun r => r.2.length ≤ toks.length) (structInit1Loop (f + 1) ms toks init mem first) := by
  simp only [structInit1Loop]
  split
  · rename_i rest hce
    have := consumeEnd_lt hce
    show rest.length ≤ _; omega
  · refine NF.iteBind (optComma_nf first toks) (fun t ht => ?_)
    have h1 : 2 * t.length + wtMs ms + 1 ≤ f := by
      cases first
      · have := ht.2 rfl; simp only [b2n] at hf; omega
      · have := ht.1; simp only [b2n] at hf; omega
    have htl := ht.1
    have fin : ∀ (t2 : List ITok) (x : Init) (j : Nat), t2.length ≤ t.length →
        NF (fun r => r.2.length ≤ toks.length) (structInit1Loop f ms t2 x j false) := by
      intro t2 x j h2
      refine (ih.structInit1Loop ms t2 x j false (by simp only [b2n]; omega)).mono (fun q hq => ?_)
      have hq' : q.2.length ≤ t2.length := hq
      show q.2.length ≤ _; omega
    split
    · rename_i name r
      simp only [List.length_cons] at h1 htl
      refine NF.bind (structDesignator_nf name ms 0) (fun kd _ => ?_)
      refine NF.bind (memTy_nf ms kd.1) (fun mty hm => ?_)
      obtain ⟨mi, hget⟩ := hm
      have hw := wt_mem_le ms _ mi mty hget
      refine NF.bind (getChild_nf _ _) (fun c _ => ?_)
      have hl := desg_tok_len kd.2 name r
      refine NF.bind (ih.designation mty _ c (by omega)) (fun r2 hr2 => ?_)
      have hr2' : r2.2.length ≤ _ := hr2
      exact fin _ _ _ (by simp only [List.length_cons]; omega)
    · split
      · refine NF.bind (memTy_nf ms _) (fun mty hm => ?_)
        obtain ⟨mi, hget⟩ := hm
        have hw := wt_mem_le ms _ mi mty hget
        refine NF.bind (getChild_nf _ _) (fun c _ => ?_)
        refine NF.bind (ih.initializer2 mty t c (by omega)) (fun r hr => ?_)
        exact fin _ _ _ hr
      · refine NF.bind (skipExcess_nf f t (by omega)) (fun r hr => ?_)
        exact fin _ _ _ hr

theorem unionRest_succ (f : Nat) (ih : NH f) (ms : Members) (toks : List ITok) (init : Init)
    (hf : 2 * toks.length + wtMs ms + 1 ≤ f + 1) :
    NF (fun r => r.2.length ≤ toks.length) (unionRest (f + 1) ms toks init) := by
  simp only [unionRest]
  split
  · rename_i rest hce
    have := consumeEnd_lt hce
    show rest.length ≤ _; omega
  · refine NF.bind (skipTok_nf _ _ toks) (fun t ht => ?_)
    have ht' : t.length + 1 = toks.length := ht
    have fin : ∀ (t2 : List ITok) (x : Init), t2.length ≤ t.length →
        NF (fun r => r.2.length ≤ toks.length) (unionRest f ms t2 x) := by
      intro t2 x h2
      refine (ih.unionRest ms t2 x (by omega)).mono (fun q hq => ?_)
      have hq' : q.2.length ≤ t2.length := hq
      show q.2.length ≤ _; omega
    split
    · rename_i name r
      simp only [List.length_cons] at ht'
      refine NF.bind (structDesignator_nf name ms 0) (fun kd _ => ?_)
      refine NF.bind (memTy_nf ms kd.1) (fun mty hm => ?_)
      obtain ⟨mi, hget⟩ := hm
      have hw := wt_mem_le ms _ mi mty hget
      refine NF.bind (getChild_nf _ _) (fun c _ => ?_)
      have hl := desg_tok_len kd.2 name r
      refine NF.bind (ih.designation mty _ c (by omega)) (fun r2 hr2 => ?_)
      have hr2' : r2.2.length ≤ _ := hr2
      exact fin _ _ (by simp only [List.length_cons]; omega)
    · refine NF.bind (skipExcess_nf f t (by omega)) (fun r hr => ?_)
      exact fin _ _ hr

theorem unionInit_succ (f : Nat) (ih : NH f) (ms : Members) (toks : List ITok) (init : Init)
    (hf : 2 * toks.length + wtMs ms + 3 ≤ f + 1) :
    NF (fun r => r.2.length ≤ toks.length) (unionInit (f + 1) ms toks init) := by
  simp only [unionInit]
  have fin : ∀ (t2 : List ITok) (x : Init), t2.length + 1 ≤ toks.length →
      NF (fun r => r.2.length ≤ toks.length) (unionRest f ms t2 x) := by
    intro t2 x h2
    refine (ih.unionRest ms t2 x (by omega)).mono (fun q hq => ?_)
    have hq' : q.2.length ≤ t2.length := hq
    show q.2.length ≤ _; omega
  split
  · rename_i name r
    simp only [List.length_cons] at hf fin ⊢
    refine NF.bind (structDesignator_nf name ms 0) (fun kd _ => ?_)
    refine NF.bind (memTy_nf ms kd.1) (fun mty hm => ?_)
    obtain ⟨mi, hget⟩ := hm
    have hw := wt_mem_le ms _ mi mty hget
    refine NF.bind (getChild_nf _ _) (fun c _ => ?_)
    have hl := desg_tok_len kd.2 name r
    refine NF.bind (ih.designation mty _ c (by omega)) (fun r2 hr2 => ?_)
    have hr2' : r2.2.length ≤ _ := hr2
    exact fin _ _ (by omega)
  · split
    · split
      · exact ih.structInit1 ms toks init (by omega)
      · exact Nat.le_refl _
    · split
      · rename_i r _
        simp only [List.length_cons] at hf fin ⊢
        refine NF.bind (memTy_nf ms _) (fun mty hm => ?_)
        obtain ⟨mi, hget⟩ := hm
        have hw := wt_mem_le ms _ mi mty hget
        refine NF.bind (getChild_nf _ _) (fun c _ => ?_)
        refine NF.bind (ih.initializer2 mty r c (by omega)) (fun r2 hr2 => ?_)
        have hr2' : r2.2.length ≤ _ := hr2
        exact fin _ _ (by omega)
      · refine NF.bind (memTy_nf ms _) (fun mty hm => ?_)
        obtain ⟨mi, hget⟩ := hm
        have hw := wt_mem_le ms _ mi mty hget
        refine NF.bind (getChild_nf _ _) (fun c _ => ?_)
        refine NF.bind (ih.initializer2 mty toks c (by omega)) (fun r2 hr2 => ?_)
        exact hr2

theorem designation_succ (f : Nat) (ih : NH f) (ty : Ty) (toks : List ITok) (init : Init)
    (hf : 2 * toks.length + wt ty + 1 ≤ f + 1) :
    NF (fun r => r.2.length ≤ toks.length) (designation (f + 1) ty toks init) := by
  simp only [designation]
  have arr : ∀ (t : List ITok), isBracket t = true → t = toks →
      NF (fun r => r.2.length ≤ toks.length)
        (match ty.elem? with
        | none => .error (.diag "array index in non-array initializer")
        | some elem =>
          match init with
          | .flex => .error (.diag "array designator index exceeds array bounds")
          | _ => do
            let (b, e, tok) ← arrayDesignator init.children.length t
            let (init, tok2) ← (List.range' b (e + 1 - b)).foldlM
              (fun (acc : Init × List ITok) i => do
                let c ← getChild acc.1.children i
                let (c', t2) ← designation f elem tok c
                pure (acc.1.setChild i c', t2)) (init, tok)
            arrayInit2 f elem tok2 init (e + 1)) := by
    intro t _ htt
    subst htt
    split
    · trivial
    · rename_i elem hel
      have hw := wt_elem hel
      split
      · trivial
      · refine NF.bind (arrayDesignator_nf _ t) (fun r hr => ?_)
        have hr' : r.2.2.length + 1 = t.length := hr
        refine NF.bind (rangeLoop_nf f ih elem r.2.2 (by omega) init _) (fun r2 hr2 => ?_)
        have hr2' : r2.2.length ≤ r.2.2.length := hr2
        refine (ih.arrayInit2 elem r2.2 r2.1 _ (by omega)).mono (fun q hq => ?_)
        have hq' : q.2.length ≤ r2.2.length := hq
        show q.2.length ≤ _; omega
  split
  · exact arr _ rfl rfl
  · exact arr _ rfl rfl
  · rename_i name r
    simp only [List.length_cons] at hf ⊢
    have hl : ∀ anon : Bool, (if anon = true then (ITok.dot name :: r) else r).length ≤ r.length + 1 :=
      fun anon => desg_tok_len anon name r
    split
    · rename_i ms sz fl
      simp only [wt] at hf
      refine NF.bind (structDesignator_nf name ms 0) (fun kd _ => ?_)
      refine NF.bind (memTy_nf ms kd.1) (fun mty hm => ?_)
      obtain ⟨mi, hget⟩ := hm
      have hw := wt_mem_le ms _ mi mty hget
      refine NF.bind (getChild_nf _ _) (fun c _ => ?_)
      have := hl kd.2
      refine NF.bind (ih.designation mty _ c (by omega)) (fun r2 hr2 => ?_)
      have hr2' : r2.2.length ≤ _ := hr2
      have hdl := wtMs_drop_le ms (kd.1 + 1)
      refine (ih.structInit2 ms r2.2 _ (kd.1 + 1) false (by simp only [b2n]; omega)).mono (fun q hq => ?_)
      have hq' : q.2.length ≤ r2.2.length := hq
      show q.2.length ≤ _; omega
    · rename_i ms sz fl
      simp only [wt] at hf
      refine NF.bind (structDesignator_nf name ms 0) (fun kd _ => ?_)
      refine NF.bind (memTy_nf ms kd.1) (fun mty hm => ?_)
      obtain ⟨mi, hget⟩ := hm
      have hw := wt_mem_le ms _ mi mty hget
      refine NF.bind (getChild_nf _ _) (fun c _ => ?_)
      have := hl kd.2
      refine NF.bind (ih.designation mty _ c (by omega)) (fun r2 hr2 => ?_)
      have hr2' : r2.2.length ≤ _ := hr2
      show r2.2.length ≤ _; omega
    · trivial
  · rename_i r
    simp only [List.length_cons] at hf ⊢
    refine (ih.initializer2 ty r init (by omega)).mono (fun q hq => ?_)
    have hq' : q.2.length ≤ r.length := hq
    show q.2.length ≤ _; omega
  · exact ih.initializer2 ty toks init (by omega)

theorem nh_zero : NH 0 where
  designation := fun _ _ _ h => by omega
  countLoop := fun e _ _ _ _ _ h => by have := wt_pos e; omega
  countArrayInit := fun _ _ h => by omega
  arrayInit1Loop := fun e _ _ _ _ h => by have := wt_pos e; omega
  arrayInit1 := fun _ _ _ h => by omega
  arrayInit2Loop := fun e _ _ _ h => by have := wt_pos e; omega
  arrayInit2 := fun _ _ _ _ h => by omega
  structInit1Loop := fun _ _ _ _ _ h => by omega
  structInit1 := fun _ _ _ h => by omega
  structInit2 := fun _ _ _ _ _ h => by omega
  unionRest := fun _ _ _ h => by omega
  unionInit := fun _ _ _ h => by omega
  initializer2 := fun t _ _ h => by have := wt_pos t; omega

theorem nh_succ (f : Nat) (ih : NH f) : NH (f + 1) where
  designation := designation_succ f ih
  countLoop := countLoop_succ f ih
  countArrayInit := countArrayInit_succ f ih
  arrayInit1Loop := arrayInit1Loop_succ f ih
  arrayInit1 := arrayInit1_succ f ih
  arrayInit2Loop := arrayInit2Loop_succ f ih
  arrayInit2 := arrayInit2_succ f ih
  structInit1Loop := structInit1Loop_succ f ih
  structInit1 := structInit1_succ f ih
  structInit2 := structInit2_succ f ih
  unionRest := unionRest_succ f ih
  unionInit := unionInit_succ f ih
  initializer2 := initializer2_succ f ih

theorem nh_all : ∀ f, NH f
  | 0 => nh_zero
  | f + 1 => nh_succ f (nh_all f)

/-- the explicit budget: two calls per token, `wt ty` calls that consume no token -/
def needFuel (ty : Ty) (toks : List ITok) : Nat := 2 * toks.length + wt ty

theorem needFuel_le_stdFuel (ty : Ty) (toks : List ITok) : needFuel ty toks ≤ stdFuel ty toks := by
  have h1 := wt_le ty
  have h2 : 1 ≤ ty.nodes := by cases ty <;> simp only [Ty.nodes] <;> omega
  unfold needFuel stdFuel
  have h3 : (toks.length + 2) * (2 * ty.nodes + 6) = 2 * (toks.length * ty.nodes) + 6 * toks.length + 4 * ty.nodes + 12 := by
    simp only [Nat.add_mul, Nat.mul_add, Nat.mul_comm, Nat.mul_left_comm]; omega
  have h4 : toks.length * 1 ≤ toks.length * ty.nodes := Nat.mul_le_mul_left _ h2
  omega

/-- with at least `needFuel` the parser does not run out of budget, and its rest is no longer than its input -/
theorem initializer2_enough (ty : Ty) (toks : List ITok) (init : Init) (f : Nat) (h : needFuel ty toks ≤ f) :
    NF (fun r => r.2.length ≤ toks.length) (initializer2 f ty toks init) :=
  (nh_all f).initializer2 ty toks init h

end ChibiVerif.C13InitFuel
