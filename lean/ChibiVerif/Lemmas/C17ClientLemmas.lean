/-
C17 — lemmas about the key conventions of `Model/C17Clients.lean`.
-/
import ChibiVerif.Model.C17Clients

namespace ChibiVerif.C17Clients

/-- the part of a byte list before its first NUL -/
def untilNul (l : Bytes) : Bytes := l.takeWhile (· ≠ 0)

theorem untilNul_nil : untilNul [] = [] := rfl

theorem untilNul_cons (b : UInt8) (l : Bytes) :
    untilNul (b :: l) = if b = 0 then [] else b :: untilNul l := by
  unfold untilNul
  rw [List.takeWhile_cons]
  by_cases hb : b = 0 <;> simp [hb]

theorem untilNul_of_not_mem : ∀ {l : Bytes}, (0 : UInt8) ∉ l → untilNul l = l := by
  intro l
  induction l with
  | nil => intro _; rfl
  | cons b l ih =>
    intro h
    rw [untilNul_cons]
    have hb : b ≠ 0 := fun e => h (by rw [e]; exact List.mem_cons_self)
    have hl : (0 : UInt8) ∉ l := fun e => h (List.mem_cons_of_mem _ e)
    simp [hb, ih hl]

theorem zero_not_mem_untilNul (l : Bytes) : (0 : UInt8) ∉ untilNul l := by
  induction l with
  | nil => simp [untilNul]
  | cons b l ih =>
    rw [untilNul_cons]
    by_cases hb : b = 0
    · simp [hb]
    · simp only [hb, if_false, List.mem_cons, not_or]
      exact ⟨fun e => hb e.symm, ih⟩

theorem untilNul_length_le (l : Bytes) : (untilNul l).length ≤ l.length := by
  induction l with
  | nil => simp [untilNul]
  | cons b l ih =>
    rw [untilNul_cons]
    by_cases hb : b = 0
    · simp [hb]
    · simp [hb]; omega

theorem untilNul_append_nul : ∀ {l : Bytes} (r : Bytes), (0 : UInt8) ∉ l → untilNul (l ++ 0 :: r) = l := by
  intro l
  induction l with
  | nil => intro r _; simp [untilNul_cons]
  | cons b l ih =>
    intro r h
    have hb : b ≠ 0 := fun e => h (by rw [e]; exact List.mem_cons_self)
    have hl : (0 : UInt8) ∉ l := fun e => h (List.mem_cons_of_mem _ e)
    rw [List.cons_append, untilNul_cons]
    simp [hb, ih r hl]

theorem take_untilNul_length (l : Bytes) : l.take (untilNul l).length = untilNul l := by
  induction l with
  | nil => rfl
  | cons b l ih =>
    rw [untilNul_cons]
    by_cases hb : b = 0
    · simp [hb]
    · simp [hb, ih]

/-! ### `strlen`, `strndup`, the span -/

theorem strlenC_of_mem : ∀ {obj : Bytes}, (0 : UInt8) ∈ obj →
    strlenC obj = .ok (untilNul obj).length := by
  intro obj
  induction obj with
  | nil => intro h; simp at h
  | cons b l ih =>
    intro h
    rw [strlenC, untilNul_cons]
    by_cases hb : b = 0
    · simp [hb]
    · have hl : (0 : UInt8) ∈ l := by
        rcases List.mem_cons.1 h with e | e
        · exact absurd e.symm hb
        · exact e
      simp [hb, ih hl]

theorem strlenC_error_of_not_mem : ∀ {obj : Bytes}, (0 : UInt8) ∉ obj →
    strlenC obj = .error .overread := by
  intro obj
  induction obj with
  | nil => intro _; rfl
  | cons b l ih =>
    intro h
    have hb : b ≠ 0 := fun e => h (by rw [e]; exact List.mem_cons_self)
    have hl : (0 : UInt8) ∉ l := fun e => h (List.mem_cons_of_mem _ e)
    rw [strlenC]
    simp [hb, ih hl]

/-- `strndup` inside the object: the bytes up to the first NUL among the first `len`, terminated -/
theorem strndupC_of_le : ∀ (len : Nat) (obj : Bytes), len ≤ obj.length →
    strndupC obj len = .ok (untilNul (obj.take len) ++ [0]) := by
  intro len
  induction len with
  | zero => intro obj _; cases obj <;> simp [strndupC, untilNul]
  | succ n ih =>
    intro obj h
    cases obj with
    | nil => simp at h
    | cons b l =>
      have hl : n ≤ l.length := by simpa using h
      rw [strndupC, List.take_succ_cons, untilNul_cons]
      by_cases hb : b = 0
      · simp [hb]
      · simp [hb, ih l hl]

theorem spanC_append_nul (l rest : Bytes) : spanC (l ++ rest) l.length = .ok l := by
  simp [spanC]

/-- the key of a copied token, whether or not the token contains a NUL -/
theorem key_dup_general {obj : Bytes} {len : Nat} (h : len ≤ obj.length) :
    (Src.dup obj len).key = .ok (untilNul (obj.take len)) := by
  have hz : (0 : UInt8) ∈ untilNul (obj.take len) ++ [0] := by simp
  have hu : untilNul (untilNul (obj.take len) ++ [0]) = untilNul (obj.take len) :=
    untilNul_append_nul [] (zero_not_mem_untilNul _)
  simp only [Src.key, strndupC_of_le len obj h, strlenC_of_mem hz, hu]
  exact spanC_append_nul _ _

theorem key_cstr {obj : Bytes} (h : (0 : UInt8) ∈ obj) : (Src.cstr obj).key = .ok (untilNul obj) := by
  simp only [Src.key, strlenC_of_mem h, spanC]
  simp [untilNul_length_le, take_untilNul_length]

theorem key_span {obj : Bytes} {len : Nat} (h : len ≤ obj.length) :
    (Src.span obj len).key = .ok (obj.take len) := by
  simp [Src.key, spanC, h]

theorem contains_zero_iff (l : Bytes) : l.contains 0 = true ↔ (0 : UInt8) ∈ l := by
  simp

/-- under the side conditions the key is the spelling -/
theorem key_of_wf : ∀ {s : Src}, s.wf = true → s.key = .ok s.spelling := by
  intro s h
  cases s with
  | span obj len =>
    simp only [Src.wf, decide_eq_true_eq] at h
    exact key_span h
  | dup obj len =>
    simp only [Src.wf, Bool.and_eq_true, decide_eq_true_eq, Bool.not_eq_true'] at h
    have hnz : (0 : UInt8) ∉ obj.take len := by
      intro hm
      have := (contains_zero_iff _).2 hm
      rw [h.2] at this
      cases this
    rw [key_dup_general h.1, untilNul_of_not_mem hnz]
    rfl
  | cstr obj =>
    simp only [Src.wf] at h
    exact key_cstr ((contains_zero_iff _).1 h)

/-! ### `memcmp` and `match` -/

theorem memcmpEq_iff : ∀ (a b : Bytes), a.length = b.length →
    (memcmpEq a b b.length = true ↔ a = b) := by
  intro a
  induction a with
  | nil =>
    intro b h
    cases b with
    | nil => simp [memcmpEq]
    | cons _ _ => simp at h
  | cons x a ih =>
    intro b h
    cases b with
    | nil => simp at h
    | cons y b =>
      have hl : a.length = b.length := by simpa using h
      simp only [memcmpEq, List.length_cons, Bool.and_eq_true, beq_iff_eq, ih b hl, List.cons.injEq]

/-- the comparison hashmap.c makes is equality of byte strings -/
theorem matchC_iff (a b : Bytes) : matchC a b = true ↔ a = b := by
  unfold matchC
  constructor
  · intro h
    simp only [Bool.and_eq_true, beq_iff_eq] at h
    exact (memcmpEq_iff a b h.1).1 h.2
  · intro h
    subst h
    simp only [Bool.and_eq_true, beq_iff_eq, true_and]
    exact (memcmpEq_iff a a rfl).2 rfl

/-! ### Histories -/

theorem toOp_of_wf {c : COp} (h : c.src.wf = true) : c.toOp = .ok c.spellOp := by
  cases c <;> simp only [COp.src] at h <;> simp [COp.toOp, COp.spellOp, key_of_wf h]

theorem toOps_of_wf : ∀ {cs : List COp}, (∀ c ∈ cs, c.src.wf = true) →
    toOps cs = .ok (cs.map COp.spellOp) := by
  intro cs
  induction cs with
  | nil => intro _; rfl
  | cons c cs ih =>
    intro h
    have h1 := toOp_of_wf (h c List.mem_cons_self)
    have h2 := ih (fun c' hc' => h c' (List.mem_cons_of_mem _ hc'))
    simp [toOps, h1, h2]

end ChibiVerif.C17Clients
