/-
6.4.5p5-6 as a whole on the translated code: a run of adjacent string literals given by their prefixes and bodies (source characters
and escape sequences) is joined into one array whose bytes are the code units of every body item at the prefix of the sequence,
followed by one zero unit.  Composition of the whole-literal theorem (`readString_items`, Lemmas/LiteralsReaderLemmas) with the
equivalence of the hand model and the translated passes (`joinRun_eq`, Lemmas/C11Join).
-/
import ChibiVerif.Lemmas.C11Join

set_option linter.unusedSimpArgs false
set_option linter.unusedVariables false

namespace ChibiVerif.Lemmas.Concat
open ChibiVerif.Gen.Literals
open ChibiVerif.Gen.StrJoin
open ChibiVerif.StrJoin
open ChibiVerif.Literals
open ChibiVerif.Spec.Literals (StrPrefix joinPrefix joinPrefixFrom)
open ChibiVerif.Lemmas.Readers
open ChibiVerif.Lemmas.Join

abbrev Piece := StrPrefix × List SrcItem

theorem tokHasPrefix_piece (p : StrPrefix) (its : List SrcItem) : TokHasPrefix (pieceTok p its) p := by
  cases p <;> refine ⟨?_, ?_⟩ <;>
    simp [pieceTok, ChibiVerif.Literals.getStringKind, prefixBytes, byteAt, kindOf, tyOf, StrPrefix.elemSize, Ty.size]

theorem allPairs_pieces : ∀ pcs : List Piece, AllPairs TokHasPrefix (pcs.map (fun pc => pieceTok pc.1 pc.2)) (pcs.map (·.1))
  | [] => .nil
  | pc :: pcs => .cons (tokHasPrefix_piece pc.1 pc.2) (allPairs_pieces pcs)

/-- what the first pass of the hand model does to one piece of a sequence with prefix `P` -/
theorem piece_step (P : StrPrefix) (basety : Ty) (hbs : basety.size = P.elemSize) (p : StrPrefix) (its : List SrcItem)
    (hp : p = .none ∨ p = P) (hok : p = .none → 1 < P.elemSize → ItemsOK [] its) :
    ∃ t', (if basety.size > 1 ∧ (pieceTok p its).elem.size = 1 then retokenize (pieceTok p its) basety else pure (pieceTok p its)) = .ok t' ∧
      t'.units = its.flatMap (itemUnits (readerOf P)) ∧ t'.elem.size = P.elemSize := by
  have keep : ∀ q : StrPrefix, readerOf q = readerOf P → q.elemSize = P.elemSize → ¬ (basety.size > 1 ∧ (pieceTok q its).elem.size = 1) →
      ∃ t', (if basety.size > 1 ∧ (pieceTok q its).elem.size = 1 then retokenize (pieceTok q its) basety else pure (pieceTok q its)) = .ok t' ∧
        t'.units = its.flatMap (itemUnits (readerOf P)) ∧ t'.elem.size = P.elemSize := by
    intro q hr hs hc
    refine ⟨pieceTok q its, by rw [if_neg hc]; rfl, by simp [pieceTok, hr], ?_⟩
    rw [← hs]; cases q <;> rfl
  rcases hp with hp | hp
  · subst hp
    by_cases hw : 1 < P.elemSize
    · -- a narrow piece in a wide sequence is read again by the wide reader
      have hok' := hok rfl hw
      have hc : basety.size > 1 ∧ (pieceTok .none its).elem.size = 1 := ⟨by omega, rfl⟩
      rw [if_pos hc]
      unfold retokenize
      have hsrc : (pieceTok .none its).src = ([] : List Byte) ++ 34#8 :: (renderItems its ++ 34#8 :: []) := rfl
      by_cases h2 : basety.size = 2
      · rw [if_pos h2, hsrc]
        have := readString_items .utf16 .ty_ushort [] [] its hok'
        simp only [List.length_nil] at this
        refine ⟨_, this, ?_, ?_⟩
        · have hP : P = .u := by cases P <;> simp [StrPrefix.elemSize] at hbs h2 ⊢ <;> omega
          subst hP; rfl
        · rw [← hbs, h2]; rfl
      · rw [if_neg h2, hsrc]
        have := readString_items .utf32 basety [] [] its hok'
        simp only [List.length_nil] at this
        refine ⟨_, this, ?_, hbs⟩
        have hP : readerOf P = .utf32 := by cases P <;> simp [StrPrefix.elemSize, readerOf] at hbs h2 hw ⊢ <;> omega
        rw [hP]
    · have hs : StrPrefix.none.elemSize = P.elemSize := by
        cases P <;> simp [StrPrefix.elemSize] at hw ⊢
      exact keep .none (by cases P <;> simp [StrPrefix.elemSize, readerOf] at hw ⊢) hs (fun h => by omega)
  · subst hp
    refine keep p rfl rfl ?_
    rintro ⟨h1, h2⟩
    have : (pieceTok p its).elem.size = p.elemSize := by cases p <;> rfl
    omega

/-- the first pass of the hand model on all pieces -/
theorem pieces_mapM (P : StrPrefix) (basety : Ty) (hbs : basety.size = P.elemSize) : ∀ (pcs : List Piece),
    (∀ pc ∈ pcs, pc.1 = .none ∨ pc.1 = P) → (∀ pc ∈ pcs, pc.1 = .none → 1 < P.elemSize → ItemsOK [] pc.2) →
    ∃ toks, (pcs.map (fun pc => pieceTok pc.1 pc.2)).mapM
        (fun t => if basety.size > 1 ∧ t.elem.size = 1 then retokenize t basety else pure t) = .ok toks ∧
      toks.map (·.units) = pcs.map (fun pc => pc.2.flatMap (itemUnits (readerOf P))) ∧ (∀ t ∈ toks, t.elem.size = P.elemSize) ∧
      toks.length = pcs.length
  | [], _, _ => ⟨[], rfl, rfl, by simp, rfl⟩
  | pc :: pcs, hp, hok => by
    obtain ⟨t', h1, h2, h3⟩ := piece_step P basety hbs pc.1 pc.2 (hp pc (by simp)) (hok pc (by simp))
    obtain ⟨toks, g1, g2, g3, g4⟩ := pieces_mapM P basety hbs pcs (fun x hx => hp x (by simp [hx])) (fun x hx => hok x (by simp [hx]))
    refine ⟨t' :: toks, ?_, by simp [h2, g2], ?_, by simp [g4]⟩
    · rw [List.map_cons, List.mapM_cons, h1, g1]; rfl
    · intro t ht
      rcases List.mem_cons.mp ht with rfl | ht
      · exact h3
      · exact g3 t ht

/-- **6.4.5p5-6 for a run given by prefixes and bodies, on the translated passes** -/
theorem concat_spec (pc1 pc2 : Piece) (pcs : List Piece) (P : StrPrefix)
    (hj : joinPrefix ((pc1 :: pc2 :: pcs).map (·.1)) = some P)
    (hok : ∀ pc ∈ pc1 :: pc2 :: pcs, pc.1 = .none → 1 < P.elemSize → ItemsOK [] pc.2) :
    ∃ r, joinRun (toTok (pieceTok pc1.1 pc1.2)) ((pc2 :: pcs).map (fun pc => toTok (pieceTok pc.1 pc.2))) = .ok r ∧
      r.base.size = P.elemSize ∧
      r.str = strBytes P.elemSize ((pc1 :: pc2 :: pcs).flatMap (fun pc => pc.2.flatMap (itemUnits (readerOf P)))) ∧
      r.arrayLen = ((((pc1 :: pc2 :: pcs).flatMap (fun pc => pc.2.flatMap (itemUnits (readerOf P)))).length : Nat) : Int) + 1 := by
  have hall := allPairs_pieces (pc1 :: pc2 :: pcs)
  have hpre : ∀ pc ∈ pc1 :: pc2 :: pcs, pc.1 = .none ∨ pc.1 = P := by
    intro pc hpc
    exact ((joinPrefix_spec _ P).mp hj).1 pc.1 (List.mem_map_of_mem hpc)
  have key := joinRun_eq (pieceTok pc1.1 pc1.2) (pieceTok pc2.1 pc2.2) (pcs.map (fun pc : Piece => pieceTok pc.1 pc.2))
    ((pc1 :: pc2 :: pcs).map (fun pc : Piece => pc.1)) hall
  -- compute the hand model on the pieces
  have hjs : ∃ hd, joinStrings ((pc1 :: pc2 :: pcs).map (fun pc => pieceTok pc.1 pc.2)) = .ok hd ∧ hd.elem.size = P.elemSize ∧
      hd.units = (pc1 :: pc2 :: pcs).flatMap (fun pc => pc.2.flatMap (itemUnits (readerOf P))) := by
    have h1 := tokHasPrefix_piece pc1.1 pc1.2
    have hrest := allPairs_pieces (pc2 :: pcs)
    have hj' : joinPrefixFrom pc1.1 ((pc2 :: pcs).map (·.1)) = some P := by simpa [joinPrefix, joinPrefixFrom] using hj
    obtain ⟨basety, hres, hsz⟩ := (resolveKind_spec _ _ hrest pc1.1 (pieceTok pc1.1 pc1.2).elem h1.2).2 P hj'
    obtain ⟨toks, g1, g2, g3, g4⟩ := pieces_mapM P basety hsz (pc1 :: pc2 :: pcs) hpre hok
    simp only [List.map_cons] at g1 hres ⊢
    simp only [joinStrings, h1.1, bind, Except.bind, hres, g1]
    match toks, g4 with
    | f :: toks', _ =>
      refine ⟨_, rfl, g3 f (by simp), ?_⟩
      show ((f :: toks').map (·.units)).flatten = _
      rw [g2, List.flatMap_def]
  obtain ⟨hd, hhd, hsz, hun⟩ := hjs
  simp only [List.map_cons] at hhd key
  rw [hhd] at key
  obtain ⟨r, hr, hb, hal, hstr⟩ := relE_ok key
  have hmap : (pc2 :: pcs).map (fun pc => toTok (pieceTok pc.1 pc.2)) =
      (pieceTok pc2.1 pc2.2 :: pcs.map (fun pc : Piece => pieceTok pc.1 pc.2)).map toTok := by
    simp [List.map_map, Function.comp_def]
  refine ⟨r, by rw [hmap]; exact hr, by rw [hb]; exact hsz, by rw [hstr, hsz, hun], by rw [hal, hun]⟩

/-- `pieceTok` is the token the reader of the prefix makes of the literal, whatever follows it -/
theorem piece_read (p : StrPrefix) (its : List SrcItem) (post : List Byte) (hok : ItemsOK post its) :
    readString (readerOf p) (tyOf p) (prefixBytes p ++ 34#8 :: (renderItems its ++ 34#8 :: post)) (prefixBytes p).length =
      .ok (pieceTok p its) := by
  rw [readString_items _ _ _ post its hok]
  have h : prefixBytes p ++ 34#8 :: (renderItems its ++ 34#8 :: post) = (prefixBytes p ++ 34#8 :: (renderItems its ++ [34#8])) ++ post := by
    simp
  unfold pieceTok
  congr 2
  rw [h, List.take_left' (by simp; omega)]

/-- the units a reader stores for one item are the C11 code units at the element width of the prefix -/
theorem item_spec (P : StrPrefix) :
    (∀ c : BitVec 32, CharOK c → itemUnits (readerOf P) (.char c) = ChibiVerif.Spec.Literals.encodeChar P c.toNat) ∧
    (∀ (body : List Byte) (v : BitVec 32), itemUnits (readerOf P) (.esc body v) = [v.toNat % 2 ^ (8 * P.elemSize)]) := by
  constructor
  · intro c hc
    have h := hc.1
    cases P <;> simp [itemUnits, readerOf, ChibiVerif.Spec.Literals.encodeChar, ChibiVerif.Lemmas.Literals.encode_toNat c (by omega),
      ChibiVerif.Lemmas.Literals.utf16_toNat c h]
  · intro body v
    have := v.isLt
    cases P <;> simp [itemUnits, readerOf, StrPrefix.elemSize, BitVec.toNat_setWidth] <;> omega

end ChibiVerif.Lemmas.Concat
