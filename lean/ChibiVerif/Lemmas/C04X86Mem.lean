/-
C04 over Model/X86: byte- and bit-level description of the memory after the store of a storage unit (`memSet`).
-/
import ChibiVerif.Lemmas.C04X86

namespace ChibiVerif.C04X86
open ChibiVerif.X86 ChibiVerif.Asm ChibiVerif.BitField ChibiVerif.Gen.C04

macro "byte_ext" : tactic => `(tactic| (
  apply BitVec.eq_of_getLsbD_eq
  intro i hi
  try simp [USize.bits, USize.bytes] at hi
  have h1 : 8 + i < 16 := by omega
  have h2 : 16 + (8 + i) < 32 := by omega
  have h3 : 16 + i < 32 := by omega
  try simp only [BitVec.getLsbD_extractLsb', BitVec.getLsbD_setWidth, BitVec.getLsbD_ushiftRight]
  try simp [hi, h1, h2, h3, ← Nat.add_assoc]
  try (intro _; omega)))

/-- byte `k` of the stored unit lands at address `p + k` -/
theorem memSet_byte (m : Mem64) (p : BitVec 64) (u : BitField.USize) (v : BitVec u.bits) (k : Nat) (hk : k < u.bytes) :
    memSet m p u v (p + BitVec.ofNat 64 k) = v.extractLsb' (8 * k) 8 := by
  cases u
  · have : k = 0 := by simp [USize.bytes] at hk; omega
    subst this
    simp [memSet, wr8]
    byte_ext
  · have : k = 0 ∨ k = 1 := by simp [USize.bytes] at hk; omega
    rcases this with rfl | rfl <;> simp [memSet, wr16, wr8] <;> byte_ext
  · have : k = 0 ∨ k = 1 ∨ k = 2 ∨ k = 3 := by simp [USize.bytes] at hk; omega
    rcases this with rfl | rfl | rfl | rfl <;> simp [memSet, wr32, wr16, wr8, BitVec.add_assoc] <;> byte_ext
  · have : k = 0 ∨ k = 1 ∨ k = 2 ∨ k = 3 ∨ k = 4 ∨ k = 5 ∨ k = 6 ∨ k = 7 := by simp [USize.bytes] at hk; omega
    rcases this with rfl | rfl | rfl | rfl | rfl | rfl | rfl | rfl <;> simp [memSet, wr64, wr32, wr16, wr8, BitVec.add_assoc] <;> byte_ext

/-- an address outside the unit keeps its byte -/
theorem memSet_outside (m : Mem64) (p : BitVec 64) (u : BitField.USize) (v : BitVec u.bits) (x : BitVec 64)
    (h : ∀ k : Nat, k < u.bytes → x ≠ p + BitVec.ofNat 64 k) : memSet m p u v x = m x := by
  cases u <;> simp only [USize.bytes] at h
  · have h0 := h 0 (by omega); simp at h0
    simp [memSet, wr8, h0]
  · have h0 := h 0 (by omega); have h1 := h 1 (by omega); simp at h0
    simp [memSet, wr16, wr8, h0, h1]
  · have h0 := h 0 (by omega); have h1 := h 1 (by omega); have h2 := h 2 (by omega); have h3 := h 3 (by omega); simp at h0
    simp [memSet, wr32, wr16, wr8, BitVec.add_assoc, h0, h1, h2, h3]
  · have h0 := h 0 (by omega); have h1 := h 1 (by omega); have h2 := h 2 (by omega); have h3 := h 3 (by omega)
    have h4 := h 4 (by omega); have h5 := h 5 (by omega); have h6 := h 6 (by omega); have h7 := h 7 (by omega); simp at h0
    simp [memSet, wr64, wr32, wr16, wr8, BitVec.add_assoc, h0, h1, h2, h3, h4, h5, h6, h7]

macro "unit_bits" : tactic => `(tactic| (
  simp only [unitAt, State.read64, State.read32, State.read16, State.read8, BitVec.getLsbD_append, BitVec.add_assoc]
  repeat' split
  all_goals first | omega | (congr 1 <;> first | omega | simp)))

/-- bit `8k + b` of the unit read at `p` is bit `b` of the byte at `p + k` -/
theorem unitAt_bit (s : State) (p : BitVec 64) (u : BitField.USize) (k b : Nat) (hk : k < u.bytes) (hb : b < 8) :
    (unitAt s p u).getLsbD (8 * k + b) = (s.mem (p + BitVec.ofNat 64 k)).getLsbD b := by
  cases u
  · have : k = 0 := by simp [USize.bytes] at hk; omega
    subst this
    simp [unitAt, State.read8]
  · have : k = 0 ∨ k = 1 := by simp [USize.bytes] at hk; omega
    rcases this with rfl | rfl <;> unit_bits
  · have : k = 0 ∨ k = 1 ∨ k = 2 ∨ k = 3 := by simp [USize.bytes] at hk; omega
    rcases this with rfl | rfl | rfl | rfl <;> unit_bits
  · have : k = 0 ∨ k = 1 ∨ k = 2 ∨ k = 3 ∨ k = 4 ∨ k = 5 ∨ k = 6 ∨ k = 7 := by simp [USize.bytes] at hk; omega
    rcases this with rfl | rfl | rfl | rfl | rfl | rfl | rfl | rfl <;> unit_bits

/-- bit `b` of the byte at `p + k` after the store is bit `8k + b` of the stored unit -/
theorem memSet_bit (m : Mem64) (p : BitVec 64) (u : BitField.USize) (v : BitVec u.bits) (k b : Nat) (hk : k < u.bytes) (hb : b < 8) :
    (memSet m p u v (p + BitVec.ofNat 64 k)).getLsbD b = v.getLsbD (8 * k + b) := by
  rw [memSet_byte m p u v k hk, BitVec.getLsbD_extractLsb']
  simp [hb]

/-- reading the unit back -/
theorem unitAt_memSet (s s' : State) (p : BitVec 64) (u : BitField.USize) (v : BitVec u.bits)
    (h : s'.mem = memSet s.mem p u v) : unitAt s' p u = v := by
  apply BitVec.eq_of_getLsbD_eq
  intro i hi
  have hk : i / 8 < u.bytes := by
    have : i < 8 * u.bytes := hi
    omega
  have hb : i % 8 < 8 := by omega
  have e : 8 * (i / 8) + i % 8 = i := by omega
  have := unitAt_bit s' p u (i / 8) (i % 8) hk hb
  rw [e] at this
  rw [this, h, memSet_bit _ _ _ _ _ _ hk hb, e]

/-- is `x` one of the addresses `p, p+1, …, p+n-1` (modulo 2^64)? -/
def inUnit (p : BitVec 64) (n : Nat) (x : BitVec 64) : Prop := ∃ k : Nat, k < n ∧ x = p + BitVec.ofNat 64 k

/-- `pop %rdi; mov %al|%ax|%eax|%rax, (%rdi)` in observational form -/
theorem store_run (t : BfType) (s : State) :
    ∃ s', X86.run (insOf (storeIntLines t.implSize)) s = some s' ∧
      s'.mem = memSet s.mem (s.read64 (s.get .rsp)) t.usize (storeUnit t.usize (s.get .rax)) ∧
      s'.get .rsp = s.get .rsp + 8 ∧ s'.get .rdi = s.read64 (s.get .rsp) ∧
      ∀ x, x ≠ .rdi → x ≠ .rsp → s'.get x = s.get x := by
  rw [store_step]
  refine ⟨_, rfl, ?_, ?_, ?_, ?_⟩
  · rw [mem_setUnit]; rfl
  · simp
  · simp
  · intro x h1 h2
    simp [h1, h2]

/-- `load(ty)` in observational form -/
theorem load_run (t : BfType) (s : State) :
    ∃ s', X86.run (insOf [loadIntLine t.implSize t.implUnsigned]) s = some s' ∧
      s'.get .rax = loadUnit t.usize t.implUnsigned (unitAt s (s.get .rax) t.usize) ∧ s'.mem = s.mem ∧
      ∀ x, x ≠ .rax → s'.get x = s.get x := by
  rw [load_step]
  refine ⟨_, rfl, ?_, rfl, ?_⟩
  · simp
  · intro x hx; simp [hx]

/-- the value `load` leaves in %rax, bit by bit: the unit's bits, then copies of the sign bit (signed types) or zeros
    (unsigned types) up to bit 31; a 4-byte unit is sign-extended to 64 bits whatever its signedness (`movsxd`), an 8-byte
    unit fills the register -/
theorem loadUnit_bits (u : BitField.USize) (isU : Bool) (x : BitVec u.bits) (i : Nat) (hi : i < 32 ∨ u = .b4) (hi64 : i < 64) :
    (loadUnit u isU x).getLsbD i =
      if i < u.bits then x.getLsbD i else (!(isU && decide (u.bits < 32)) && x.getLsbD (u.bits - 1)) := by
  cases u <;> cases isU <;>
    simp only [loadUnit, USize.bits, USize.bytes, BitVec.getLsbD_setWidth, BitVec.getLsbD_signExtend, BitVec.msb_eq_getLsbD_last,
      Bool.false_and, Bool.true_and, Bool.not_false, Bool.false_eq_true, if_false, if_true]
  all_goals (rcases hi with hi | hi <;> first | (cases hi; done) | skip)
  all_goals (by_cases h8 : i < 8 <;> by_cases h16 : i < 16 <;> by_cases h32 : i < 32 <;> simp [hi64, h8, h16, h32] <;> first | done | omega | (apply BitVec.getLsbD_of_ge; omega))

/-- a 1- or 2-byte load writes %eax: bits 32..63 of %rax are cleared -/
theorem loadUnit_high (u : BitField.USize) (isU : Bool) (x : BitVec u.bits) (hu : u.bits < 32) (i : Nat) (h32 : 32 ≤ i) :
    (loadUnit u isU x).getLsbD i = false := by
  cases u <;> cases isU <;> simp [USize.bits, USize.bytes] at hu <;>
    simp only [loadUnit] <;>
    (have : ¬ i < 32 := by omega
     simp [this]
     try (intro _
          apply BitVec.getLsbD_of_ge
          first | omega | (simp only [USize.bits, USize.bytes]; omega)))

end ChibiVerif.C04X86
