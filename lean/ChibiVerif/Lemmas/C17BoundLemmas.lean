/-
C17 — resource bound of hashmap.c: lemmas for `Props/C17Bound.lean`.

* shape lemmas read off the definitions (`put`/`delete`/`rehash` change the number of
  buckets only through `INIT_SIZE` and `growCap`);
* `growCap n f cap ≤ max cap (4 n)` and `growCap` keeps the shape `INIT_SIZE * 2^e`;
* the number of live slots equals the size of the abstract dictionary;
* the run invariant `run_cap_bound`.
-/
import ChibiVerif.Lemmas.HashMapLemmas

namespace ChibiVerif.HashMap
open ChibiVerif.Gen.HashMap (INIT_SIZE HIGH_WATERMARK LOW_WATERMARK)

variable {α β : Type}

/-! ### Shape of a capacity -/

/-- `0` (unallocated) or `INIT_SIZE * 2^e` -/
def CapShape (c : Nat) : Prop := c = 0 ∨ ∃ e, c = INIT_SIZE * 2 ^ e

theorem CapShape.double {c : Nat} (hc : CapShape c) : CapShape (c * 2) := by
  rcases hc with h0 | ⟨e, he⟩
  · exact Or.inl (by omega)
  · exact Or.inr ⟨e + 1, by rw [he, Nat.pow_succ, Nat.mul_assoc]⟩

theorem CapShape.init : CapShape INIT_SIZE := Or.inr ⟨0, by simp⟩

theorem growCap_shape (nkeys : Nat) : ∀ f cap, CapShape cap → CapShape (HM.growCap nkeys f cap) := by
  intro f
  induction f with
  | zero => intro cap hc; exact hc
  | succ f ih =>
    intro cap hc
    rw [HM.growCap]
    split
    · exact ih _ hc.double
    · exact hc

/-- the doubling loop stops at the first capacity that is more than twice the number of
    keys: it never exceeds `4 * nkeys` unless it did not move at all -/
theorem growCap_le (nkeys : Nat) : ∀ f cap, HM.growCap nkeys f cap ≤ max cap (4 * nkeys) := by
  intro f
  induction f with
  | zero => intro cap; simp [HM.growCap]; omega
  | succ f ih =>
    intro cap
    rw [HM.growCap]
    split
    · rename_i hge
      have h1 := ih (cap * 2)
      have h2 : cap * 2 ≤ 4 * nkeys := by
        by_cases hc : cap = 0
        · omega
        · have hpos : 0 < cap := Nat.pos_of_ne_zero hc
          have := (Nat.le_div_iff_mul_le hpos).1 hge
          unfold LOW_WATERMARK at this
          omega
      omega
    · omega

/-! ### `put`, `delete`, `rehash` and the number of buckets -/

theorem applyIns_length (m : HM α β) (k : α) (v : β) (p : HM.InsPos) :
    (HM.applyIns m k v p).buckets.length = m.buckets.length := by
  cases p <;> simp [HM.applyIns]

section shape
variable [DecidableEq α]

theorem putNoRehash_length {h : α → Nat} {m m' : HM α β} {k : α} {v : β}
    (e : HM.putNoRehash h m k v = .ok m') : m'.buckets.length = m.buckets.length := by
  unfold HM.putNoRehash at e
  split at e
  · cases e
  · split at e
    · cases e
    · cases hp : HM.insLoop m.buckets (h k) k m.buckets.length 0 none with
      | error c => simp [hp, bind, Except.bind] at e
      | ok p =>
        simp [hp, bind, Except.bind, pure, Except.pure] at e
        subst e
        exact applyIns_length _ _ _ _

theorem foldlM_putNoRehash_length {h : α → Nat} : ∀ (l : List (α × β)) (acc r : HM α β),
    l.foldlM (fun acc kv => HM.putNoRehash h acc kv.1 kv.2) acc = .ok r →
      r.buckets.length = acc.buckets.length := by
  intro l
  induction l with
  | nil =>
    intro acc r e
    simp [List.foldlM, pure, Except.pure] at e
    subst e; rfl
  | cons kv l ih =>
    intro acc r e
    rw [List.foldlM_cons] at e
    cases hs : HM.putNoRehash h acc kv.1 kv.2 with
    | error c => simp [hs, bind, Except.bind] at e
    | ok acc' =>
      simp only [hs, bind, Except.bind] at e
      rw [ih acc' r e, putNoRehash_length hs]

/-- the table `rehash` returns has exactly `growCap nkeys _ capacity` buckets -/
theorem rehash_length {h : α → Nat} {m m2 : HM α β} (e : HM.rehash h m = .ok m2) :
    m2.buckets.length =
      HM.growCap (HM.liveEntries m.buckets).length ((HM.liveEntries m.buckets).length + 2)
        m.buckets.length := by
  unfold HM.rehash at e
  simp only [bind, Except.bind, pure, Except.pure, throw, throwThe, MonadExceptOf.throw] at e
  split at e
  · cases e
  · split at e
    · cases e
    · rename_i hc0
      split at e
      · cases e
      · rename_i r hr
        split at e
        · cases e
        · injection e with e
          subst e
          have := foldlM_putNoRehash_length _ _ _ hr
          simpa using this

theorem delete_length {h : α → Nat} {m m' : HM α β} {k : α} (e : HM.delete h m k = .ok m') :
    m'.buckets.length = m.buckets.length := by
  unfold HM.delete at e
  cases hg : HM.getEntry h m k with
  | error c => simp [hg, bind, Except.bind] at e
  | ok o =>
    cases o with
    | none => simp [hg, bind, Except.bind, pure, Except.pure] at e; subst e; rfl
    | some idx => simp [hg, bind, Except.bind, pure, Except.pure] at e; subst e; simp

/-- the three ways `hashmap_put2` determines the capacity -/
theorem put_length {h : α → Nat} {m m' : HM α β} {k : α} {v : β} (e : HM.put h m k v = .ok m') :
    (m.buckets.length = 0 ∧ m'.buckets.length = INIT_SIZE) ∨
    (0 < m.buckets.length ∧ m'.buckets.length = m.buckets.length) ∨
    (0 < m.buckets.length ∧ m.used * 100 / m.buckets.length ≥ HIGH_WATERMARK ∧
      m'.buckets.length =
        HM.growCap (HM.liveEntries m.buckets).length ((HM.liveEntries m.buckets).length + 2)
          m.buckets.length) := by
  unfold HM.put at e
  by_cases hb : m.buckets.isEmpty = true
  · have h0 : m.buckets.length = 0 := by
      cases hm : m.buckets with
      | nil => rfl
      | cons _ _ => simp [hm] at hb
    left
    refine ⟨h0, ?_⟩
    simp only [hb, if_true, bind, Except.bind, pure, Except.pure] at e
    split at e
    · cases e
    · injection e with e
      subst e
      rw [applyIns_length]; simp
  · have hpos : 0 < m.buckets.length := by
      cases hm : m.buckets with
      | nil => simp [hm] at hb
      | cons _ _ => simp
    simp only [hb, if_false, Bool.false_eq_true] at e
    by_cases hhigh : m.used * 100 / m.buckets.length ≥ HIGH_WATERMARK
    · right; right
      refine ⟨hpos, hhigh, ?_⟩
      simp only [hhigh, if_true, bind, Except.bind, pure, Except.pure] at e
      cases hr : HM.rehash h m with
      | error c => simp [hr] at e
      | ok m2 =>
        simp only [hr] at e
        split at e
        · cases e
        · injection e with e
          subst e
          rw [applyIns_length, rehash_length hr]
    · right; left
      refine ⟨hpos, ?_⟩
      simp only [hhigh, if_false, bind, Except.bind, pure, Except.pure] at e
      split at e
      · cases e
      · injection e with e
        subst e
        rw [applyIns_length]

end shape

/-! ### Size of the abstract dictionary = number of live slots -/

/-- no two entries of an association list have the same key -/
def KeysNodup (l : List (α × β)) : Prop := l.Pairwise (fun a b => a.1 ≠ b.1)

theorem length_le_of_subset : ∀ {l1 l2 : List (α × β)}, KeysNodup l1 →
    (∀ kv, kv ∈ l1 → kv ∈ l2) → l1.length ≤ l2.length := by
  intro l1
  induction l1 with
  | nil => intro l2 _ _; simp
  | cons a t ih =>
    intro l2 hn hs
    obtain ⟨s1, s2, hl2⟩ := List.append_of_mem (hs a List.mem_cons_self)
    have hn' := List.pairwise_cons.1 hn
    have hsub : ∀ kv, kv ∈ t → kv ∈ s1 ++ s2 := by
      intro kv hkv
      have h2 := hs kv (List.mem_cons_of_mem _ hkv)
      rw [hl2] at h2
      have hne : kv ≠ a := fun e => hn'.1 kv hkv (by rw [e])
      simp only [List.mem_append, List.mem_cons] at h2 ⊢
      rcases h2 with h2 | h2 | h2
      · exact Or.inl h2
      · exact absurd h2 hne
      · exact Or.inr h2
    have := ih hn'.2 hsub
    rw [hl2]
    simp only [List.length_append, List.length_cons] at this ⊢
    omega

section amap
variable [DecidableEq α]

theorem AMap.get_eq_some_of_mem : ∀ {l : List (α × β)} {k : α} {v : β}, KeysNodup l →
    (k, v) ∈ l → AMap.get (α := α) (β := β) l k = some v := by
  intro l
  induction l with
  | nil => intro k v _ hm; simp at hm
  | cons a t ih =>
    intro k v hn hm
    obtain ⟨k', v'⟩ := a
    have hn' := List.pairwise_cons.1 hn
    by_cases hk : k' = k
    · subst hk
      rcases List.mem_cons.1 hm with e | hmt
      · injection e with _ e2
        subst e2
        simp [AMap.get]
      · exact absurd rfl (hn'.1 (k', v) hmt)
    · have hmt : (k, v) ∈ t := by
        rcases List.mem_cons.1 hm with e | hmt
        · injection e with e1 _
          exact absurd e1.symm hk
        · exact hmt
      have := ih hn'.2 hmt
      simp only [AMap.get] at this ⊢
      rw [List.find?_cons]
      have hb : ((k', v').1 == k) = false := by simpa using hk
      rw [hb]
      exact this

/-- two key-distinct association lists that answer every lookup alike have the same size -/
theorem length_eq_of_get_eq {l1 l2 : List (α × β)} (h1 : KeysNodup l1) (h2 : KeysNodup l2)
    (hg : ∀ k, AMap.get (α := α) (β := β) l1 k = AMap.get (α := α) (β := β) l2 k) :
    l1.length = l2.length := by
  apply Nat.le_antisymm
  · apply length_le_of_subset h1
    intro kv hkv
    obtain ⟨k, v⟩ := kv
    have := AMap.get_eq_some_of_mem h1 hkv
    rw [hg] at this
    exact AMap.mem_of_get_eq_some this
  · apply length_le_of_subset h2
    intro kv hkv
    obtain ⟨k, v⟩ := kv
    have := AMap.get_eq_some_of_mem h2 hkv
    rw [← hg] at this
    exact AMap.mem_of_get_eq_some this

theorem KeysNodup.erase {A : AMap α β} (hn : KeysNodup A) (k : α) : KeysNodup (A.erase k) :=
  List.Pairwise.sublist List.filter_sublist hn

theorem KeysNodup.put {A : AMap α β} (hn : KeysNodup A) (k : α) (v : β) : KeysNodup (A.put k v) := by
  refine List.Pairwise.cons ?_ (hn.erase k)
  intro b hb
  have := (List.mem_filter.1 hb).2
  intro e
  simp at this
  exact this e.symm

/-- transition of the abstract dictionary -/
def astep (A : AMap α β) : Op α β → AMap α β
  | .put k v => A.put k v
  | .del k => A.erase k
  | .get _ => A

theorem KeysNodup.astep {A : AMap α β} (hn : KeysNodup A) (op : Op α β) : KeysNodup (astep A op) := by
  cases op with
  | put k v => exact hn.put k v
  | del k => exact hn.erase k
  | get k => exact hn

/-- the largest number of names the dictionary holds at the beginning of any operation of
    the history, or at its end -/
def peak : AMap α β → List (Op α β) → Nat
  | A, [] => A.length
  | A, op :: ops => max A.length (peak (astep A op) ops)

theorem peak_ge_length (A : AMap α β) (ops : List (Op α β)) : A.length ≤ peak A ops := by
  cases ops <;> simp [peak]
  omega

theorem arun_cons_fst (A : AMap α β) (op : Op α β) (ops : List (Op α β)) :
    (arun A (op :: ops)).1 = (arun (astep A op) ops).1 := by
  cases op <;> simp [arun, astep]

/-- the number of puts bounds the peak (each put adds at most one name) -/
def nputs : List (Op α β) → Nat
  | [] => 0
  | .put _ _ :: ops => nputs ops + 1
  | _ :: ops => nputs ops

theorem length_erase_le (A : AMap α β) (k : α) : (A.erase k).length ≤ A.length :=
  List.length_filter_le _ _

theorem peak_le_nputs : ∀ (ops : List (Op α β)) (A : AMap α β), peak A ops ≤ A.length + nputs ops := by
  intro ops
  induction ops with
  | nil => intro A; simp [peak, nputs]
  | cons op ops ih =>
    intro A
    cases op with
    | put k v =>
      have := ih (A.put k v)
      have h2 : (A.put k v).length ≤ A.length + 1 := by
        have h3 : (A.put k v).length = (A.erase k).length + 1 := rfl
        have := length_erase_le A k
        omega
      simp only [peak, astep, nputs]
      omega
    | del k =>
      have := ih (A.erase k)
      have h2 := length_erase_le A k
      simp only [peak, astep, nputs]
      omega
    | get k =>
      have := ih A
      simp only [peak, astep, nputs]
      omega

/-- live slots of a well-formed table = entries of the abstract dictionary it denotes -/
theorem live_length_eq {h : α → Nat} {m : HM α β} {A : AMap α β} (hinv : Inv h m)
    (habs : ∀ k, absGet m k = A.get k) (hn : KeysNodup A) :
    (HM.liveEntries m.buckets).length = A.length := by
  rcases hinv with ⟨h0, _⟩ | w
  · have hb : m.buckets = [] := List.eq_nil_of_length_eq_zero h0
    have hA : A = [] := by
      cases hA : A with
      | nil => rfl
      | cons a t =>
        exfalso
        have := habs a.1
        rw [absGet_of_length_zero h0, hA] at this
        simp [AMap.get] at this
    simp [hb, hA, HM.liveEntries]
  · exact length_eq_of_get_eq w.live_pairwise hn habs

end amap

/-! ### The run invariant -/

section run
variable [DecidableEq α]

theorem step_ok_of_inv {h : α → Nat} {m : HM α β} {A : AMap α β} (hinv : Inv h m)
    (habs : ∀ k, absGet m k = A.get k) (op : Op α β) :
    ∃ m' o, step h m op = .ok (m', o) ∧ Inv h m' ∧ (∀ k, absGet m' k = (astep A op).get k) := by
  cases op with
  | put k v =>
    obtain ⟨m', hm', w', habs'⟩ := hinv.put_spec k v
    refine ⟨m', none, by simp [step, hm', bind, Except.bind, pure, Except.pure], Or.inr w', ?_⟩
    intro k'; rw [habs', astep, AMap.get_put, habs]
  | del k =>
    obtain ⟨m', hm', hinv', habs'⟩ := hinv.delete_spec k
    refine ⟨m', none, by simp [step, hm', bind, Except.bind, pure, Except.pure], hinv', ?_⟩
    intro k'; rw [habs', astep, AMap.get_erase, habs]
  | get k =>
    refine ⟨m, some (absGet m k), by simp [step, hinv.get_eq k, bind, Except.bind, pure, Except.pure],
      hinv, ?_⟩
    intro k'; rw [astep, habs]

/-- one operation: the shape is kept and the capacity grows at most to four times the
    number of names held before the operation -/
theorem step_cap {h : α → Nat} {m m' : HM α β} {A : AMap α β} {op : Op α β}
    {o : Option (Option β)} (hinv : Inv h m) (habs : ∀ k, absGet m k = A.get k)
    (hn : KeysNodup A) (hshape : CapShape m.buckets.length) (e : step h m op = .ok (m', o)) :
    CapShape m'.buckets.length ∧
      m'.buckets.length ≤ max (max INIT_SIZE m.buckets.length) (4 * A.length) := by
  cases op with
  | put k v =>
    cases hp : HM.put h m k v with
    | error c => simp [step, hp, bind, Except.bind] at e
    | ok m1 =>
      simp [step, hp, bind, Except.bind, pure, Except.pure] at e
      obtain ⟨e1, _⟩ := e
      subst e1
      have hlive := live_length_eq hinv habs hn
      rcases put_length hp with ⟨_, h2⟩ | ⟨_, h2⟩ | ⟨_, _, h2⟩
      · rw [h2]; exact ⟨CapShape.init, by omega⟩
      · rw [h2]; exact ⟨hshape, by omega⟩
      · rw [h2, hlive]
        refine ⟨growCap_shape _ _ _ hshape, ?_⟩
        have := growCap_le A.length (A.length + 2) m.buckets.length
        omega
  | del k =>
    cases hp : HM.delete h m k with
    | error c => simp [step, hp, bind, Except.bind] at e
    | ok m1 =>
      simp [step, hp, bind, Except.bind, pure, Except.pure] at e
      obtain ⟨e1, _⟩ := e
      subst e1
      rw [delete_length hp]
      exact ⟨hshape, by omega⟩
  | get k =>
    cases hp : HM.get h m k with
    | error c => simp [step, hp, bind, Except.bind] at e
    | ok r =>
      simp [step, hp, bind, Except.bind, pure, Except.pure] at e
      obtain ⟨e1, _⟩ := e
      subst e1
      exact ⟨hshape, by omega⟩

theorem run_cap_bound (h : α → Nat) (ops : List (Op α β)) :
    ∀ (m : HM α β) (A : AMap α β), Inv h m → (∀ k, absGet m k = A.get k) → KeysNodup A →
      CapShape m.buckets.length →
      ∃ s outs, run h m ops = .ok (s, outs) ∧ Inv h s ∧ CapShape s.buckets.length ∧
        s.buckets.length ≤ max (max INIT_SIZE m.buckets.length) (4 * peak A ops) := by
  induction ops with
  | nil =>
    intro m A hinv _ _ hshape
    exact ⟨m, [], rfl, hinv, hshape, by omega⟩
  | cons op ops ih =>
    intro m A hinv habs hn hshape
    obtain ⟨m', o, hstep, hinv', habs'⟩ := step_ok_of_inv hinv habs op
    obtain ⟨hshape', hcap'⟩ := step_cap hinv habs hn hshape hstep
    obtain ⟨s, outs, hrun, hinvs, hshapes, hcaps⟩ := ih m' (astep A op) hinv' habs' (hn.astep op) hshape'
    refine ⟨s, (match o with | some a => a :: outs | none => outs), ?_, hinvs, hshapes, ?_⟩
    · simp only [run, hstep, hrun, bind, Except.bind, pure, Except.pure]
      cases o <;> rfl
    · simp only [peak]
      omega

end run

end ChibiVerif.HashMap
