/-
Binary / unary operator sequences of `gen_expr` (C01): the distinct sequences, what each leaves in `%rax`
for every machine state (effect lemmas), and which sequence the model selects for each (operator, type).
-/
import ChibiVerif.Lemmas.C01Lemmas

namespace ChibiVerif.C01
open ChibiVerif.X86 ChibiVerif.Asm ChibiVerif.Spec.IntSpec ChibiVerif.Gen.CommonType ChibiVerif.C01Codegen

-- `nodeTy`, `opSeq`, `unSeq` are defined in Model/C01Expr.lean

/-- the distinct operator sequences -/
inductive OpKind where
  | add32 | sub32 | mul32 | and32 | or32 | xor32
  | add64 | sub64 | mul64 | and64 | or64 | xor64
  | divs32 | divu32 | divs64 | divu64
  | mods32 | modu32 | mods64 | modu64
  | eq32 | ne32 | lts32 | ltu32 | les32 | leu32
  | eq64 | ne64 | lts64 | ltu64 | les64 | leu64
  | shl32 | shr32 | sar32 | shl64 | shr64 | sar64
  deriving DecidableEq, Repr

def OpKind.all : List OpKind :=
  [.add32, .sub32, .mul32, .and32, .or32, .xor32, .add64, .sub64, .mul64, .and64, .or64, .xor64,
   .divs32, .divu32, .divs64, .divu64, .mods32, .modu32, .mods64, .modu64,
   .eq32, .ne32, .lts32, .ltu32, .les32, .leu32, .eq64, .ne64, .lts64, .ltu64, .les64, .leu64,
   .shl32, .shr32, .sar32, .shl64, .shr64, .sar64]

def i2 (op a b : String) : Ins := ⟨op, [.r a, .r b]⟩
def cmpSeq (w64 : Bool) (setcc : String) : List Ins :=
  [if w64 then i2 "cmp" "%rdi" "%rax" else i2 "cmp" "%edi" "%eax", ⟨setcc, [.r "%al"]⟩, i2 "movzb" "%al" "%rax"]

def OpKind.seq : OpKind → List Ins
  | .add32 => [i2 "add" "%edi" "%eax"] | .sub32 => [i2 "sub" "%edi" "%eax"] | .mul32 => [i2 "imul" "%edi" "%eax"]
  | .and32 => [i2 "and" "%edi" "%eax"] | .or32 => [i2 "or" "%edi" "%eax"] | .xor32 => [i2 "xor" "%edi" "%eax"]
  | .add64 => [i2 "add" "%rdi" "%rax"] | .sub64 => [i2 "sub" "%rdi" "%rax"] | .mul64 => [i2 "imul" "%rdi" "%rax"]
  | .and64 => [i2 "and" "%rdi" "%rax"] | .or64 => [i2 "or" "%rdi" "%rax"] | .xor64 => [i2 "xor" "%rdi" "%rax"]
  | .divs32 => [⟨"cdq", []⟩, ⟨"idiv", [.r "%edi"]⟩]
  | .divu32 => [⟨"mov", [.i 0, .r "%edx"]⟩, ⟨"div", [.r "%edi"]⟩]
  | .divs64 => [⟨"cqo", []⟩, ⟨"idiv", [.r "%rdi"]⟩]
  | .divu64 => [⟨"mov", [.i 0, .r "%rdx"]⟩, ⟨"div", [.r "%rdi"]⟩]
  | .mods32 => [⟨"cdq", []⟩, ⟨"idiv", [.r "%edi"]⟩, i2 "mov" "%rdx" "%rax"]
  | .modu32 => [⟨"mov", [.i 0, .r "%edx"]⟩, ⟨"div", [.r "%edi"]⟩, i2 "mov" "%rdx" "%rax"]
  | .mods64 => [⟨"cqo", []⟩, ⟨"idiv", [.r "%rdi"]⟩, i2 "mov" "%rdx" "%rax"]
  | .modu64 => [⟨"mov", [.i 0, .r "%rdx"]⟩, ⟨"div", [.r "%rdi"]⟩, i2 "mov" "%rdx" "%rax"]
  | .eq32 => cmpSeq false "sete" | .ne32 => cmpSeq false "setne" | .lts32 => cmpSeq false "setl"
  | .ltu32 => cmpSeq false "setb" | .les32 => cmpSeq false "setle" | .leu32 => cmpSeq false "setbe"
  | .eq64 => cmpSeq true "sete" | .ne64 => cmpSeq true "setne" | .lts64 => cmpSeq true "setl"
  | .ltu64 => cmpSeq true "setb" | .les64 => cmpSeq true "setle" | .leu64 => cmpSeq true "setbe"
  | .shl32 => [i2 "mov" "%rdi" "%rcx", i2 "shl" "%cl" "%eax"]
  | .shr32 => [i2 "mov" "%rdi" "%rcx", i2 "shr" "%cl" "%eax"]
  | .sar32 => [i2 "mov" "%rdi" "%rcx", i2 "sar" "%cl" "%eax"]
  | .shl64 => [i2 "mov" "%rdi" "%rcx", i2 "shl" "%cl" "%rax"]
  | .shr64 => [i2 "mov" "%rdi" "%rcx", i2 "shr" "%cl" "%rax"]
  | .sar64 => [i2 "mov" "%rdi" "%rcx", i2 "sar" "%cl" "%rax"]

def classifyOp (is : List Ins) : Option OpKind := OpKind.all.find? (fun k => k.seq == is)

theorem classifyOp_sound {is : List Ins} {k : OpKind} (h : classifyOp is = some k) : is = k.seq := by
  unfold classifyOp at h
  have := List.find?_some h
  simp at this
  exact this.symm

/-- 32-bit operation on the low halves, result zero-extended (a 32-bit register write) -/
def alu32 (f : BitVec 32 → BitVec 32 → BitVec 32) (r d : BitVec 64) : BitVec 64 :=
  (f (r.setWidth 32) (d.setWidth 32)).setWidth 64

def b64 (c : Bool) : BitVec 64 := if c then 1 else 0

/-- what each sequence leaves in `%rax` given `%rax = r`, `%rdi = d` on entry; `none` = the CPU raises #DE -/
def OpKind.fn (k : OpKind) (r d : BitVec 64) : Option (BitVec 64) :=
  let a32 := r.setWidth 32
  let d32 := d.setWidth 32
  match k with
  | .add32 => some (alu32 (· + ·) r d) | .sub32 => some (alu32 (· - ·) r d) | .mul32 => some (alu32 (· * ·) r d)
  | .and32 => some (alu32 (· &&& ·) r d) | .or32 => some (alu32 (· ||| ·) r d) | .xor32 => some (alu32 (· ^^^ ·) r d)
  | .add64 => some (r + d) | .sub64 => some (r - d) | .mul64 => some (r * d)
  | .and64 => some (r &&& d) | .or64 => some (r ||| d) | .xor64 => some (r ^^^ d)
  | .divs32 =>
      if d32.toInt = 0 then none
      else if Int.tdiv a32.toInt d32.toInt < -(2 ^ 31) ∨ Int.tdiv a32.toInt d32.toInt ≥ 2 ^ 31 then none
      else some ((BitVec.ofInt 32 (Int.tdiv a32.toInt d32.toInt)).setWidth 64)
  | .mods32 =>
      if d32.toInt = 0 then none
      else if Int.tdiv a32.toInt d32.toInt < -(2 ^ 31) ∨ Int.tdiv a32.toInt d32.toInt ≥ 2 ^ 31 then none
      else some ((BitVec.ofInt 32 (Int.tmod a32.toInt d32.toInt)).setWidth 64)
  | .divu32 => if d32.toNat = 0 then none else some ((BitVec.ofNat 32 (a32.toNat / d32.toNat)).setWidth 64)
  | .modu32 => if d32.toNat = 0 then none else some ((BitVec.ofNat 32 (a32.toNat % d32.toNat)).setWidth 64)
  | .divs64 =>
      if d.toInt = 0 then none
      else if Int.tdiv r.toInt d.toInt < -(2 ^ 63) ∨ Int.tdiv r.toInt d.toInt ≥ 2 ^ 63 then none
      else some (BitVec.ofInt 64 (Int.tdiv r.toInt d.toInt))
  | .mods64 =>
      if d.toInt = 0 then none
      else if Int.tdiv r.toInt d.toInt < -(2 ^ 63) ∨ Int.tdiv r.toInt d.toInt ≥ 2 ^ 63 then none
      else some (BitVec.ofInt 64 (Int.tmod r.toInt d.toInt))
  | .divu64 => if d.toNat = 0 then none else some (BitVec.ofNat 64 (r.toNat / d.toNat))
  | .modu64 => if d.toNat = 0 then none else some (BitVec.ofNat 64 (r.toNat % d.toNat))
  | .eq32 => some (b64 (a32 = d32)) | .ne32 => some (b64 (a32 ≠ d32))
  | .lts32 => some (b64 (a32.toInt < d32.toInt)) | .ltu32 => some (b64 (a32.toNat < d32.toNat))
  | .les32 => some (b64 (a32.toInt ≤ d32.toInt)) | .leu32 => some (b64 (a32.toNat ≤ d32.toNat))
  | .eq64 => some (b64 (r = d)) | .ne64 => some (b64 (r ≠ d))
  | .lts64 => some (b64 (r.toInt < d.toInt)) | .ltu64 => some (b64 (r.toNat < d.toNat))
  | .les64 => some (b64 (r.toInt ≤ d.toInt)) | .leu64 => some (b64 (r.toNat ≤ d.toNat))
  | .shl32 => some ((a32 <<< ((d.setWidth 8).toNat % 32)).setWidth 64)
  | .shr32 => some ((a32 >>> ((d.setWidth 8).toNat % 32)).setWidth 64)
  | .sar32 => some ((a32.sshiftRight ((d.setWidth 8).toNat % 32)).setWidth 64)
  | .shl64 => some (r <<< ((d.setWidth 8).toNat % 64))
  | .shr64 => some (r >>> ((d.setWidth 8).toNat % 64))
  | .sar64 => some (r.sshiftRight ((d.setWidth 8).toNat % 64))

/-- statement of the effect lemma for one sequence -/
def OpKind.Effect (k : OpKind) : Prop :=
  ∀ s : State, match k.fn (s.get .rax) (s.get .rdi) with
    | some x => ∃ s', X86.run k.seq s = some s' ∧ s'.get .rax = x
    | none => X86.run k.seq s = none

/-! ### flags after `cmp`: the conditions `setl`/`setle` test are the signed comparisons -/

theorem sf_ne_of_32 (x y : BitVec 32) : ((x - y).msb != BitVec.ssubOverflow x y) = decide (x.toInt < y.toInt) := by
  have h1 := @BitVec.toInt_lt 32 x; have h2 := @BitVec.le_toInt 32 x
  have h3 := @BitVec.toInt_lt 32 y; have h4 := @BitVec.le_toInt 32 y
  rw [BitVec.msb_eq_toInt, BitVec.toInt_sub, BitVec.ssubOverflow, Int.bmod_def]
  simp at h1 h2 h3 h4
  rw [Bool.eq_iff_iff]
  simp only [bne_iff_ne, ne_eq, decide_eq_true_eq, ← Bool.decide_or, decide_eq_decide]
  simp
  split <;> omega
theorem sf_ne_of_64 (x y : BitVec 64) : ((x - y).msb != BitVec.ssubOverflow x y) = decide (x.toInt < y.toInt) := by
  have h1 := @BitVec.toInt_lt 64 x; have h2 := @BitVec.le_toInt 64 x
  have h3 := @BitVec.toInt_lt 64 y; have h4 := @BitVec.le_toInt 64 y
  rw [BitVec.msb_eq_toInt, BitVec.toInt_sub, BitVec.ssubOverflow, Int.bmod_def]
  simp at h1 h2 h3 h4
  rw [Bool.eq_iff_iff]
  simp only [bne_iff_ne, ne_eq, decide_eq_true_eq, ← Bool.decide_or, decide_eq_decide]
  simp
  split <;> omega

theorem sub_eq_zero_iff {n : Nat} (x y : BitVec n) : (x - y == 0#n) = decide (x = y) := by
  by_cases h : x = y
  · subst h; simp
  · simp [h]
    intro h0
    apply h
    have := congrArg (· + y) h0
    simp only [BitVec.sub_add_cancel, BitVec.zero_add] at this
    exact this

/-! ### effect lemmas: ALU operations (by evaluation of the model) -/

theorem effect_add32 : OpKind.add32.Effect := fun _ => ⟨_, rfl, rfl⟩
theorem effect_sub32 : OpKind.sub32.Effect := fun _ => ⟨_, rfl, rfl⟩
theorem effect_mul32 : OpKind.mul32.Effect := fun _ => ⟨_, rfl, rfl⟩
theorem effect_and32 : OpKind.and32.Effect := fun _ => ⟨_, rfl, rfl⟩
theorem effect_or32 : OpKind.or32.Effect := fun _ => ⟨_, rfl, rfl⟩
theorem effect_xor32 : OpKind.xor32.Effect := fun _ => ⟨_, rfl, rfl⟩
theorem effect_add64 : OpKind.add64.Effect := fun _ => ⟨_, rfl, rfl⟩
theorem effect_sub64 : OpKind.sub64.Effect := fun _ => ⟨_, rfl, rfl⟩
theorem effect_mul64 : OpKind.mul64.Effect := fun _ => ⟨_, rfl, rfl⟩
theorem effect_and64 : OpKind.and64.Effect := fun _ => ⟨_, rfl, rfl⟩
theorem effect_or64 : OpKind.or64.Effect := fun _ => ⟨_, rfl, rfl⟩
theorem effect_xor64 : OpKind.xor64.Effect := fun _ => ⟨_, rfl, rfl⟩
theorem effect_shl32 : OpKind.shl32.Effect := fun _ => ⟨_, rfl, rfl⟩
theorem effect_shr32 : OpKind.shr32.Effect := fun _ => ⟨_, rfl, rfl⟩
theorem effect_sar32 : OpKind.sar32.Effect := fun _ => ⟨_, rfl, rfl⟩
theorem effect_shl64 : OpKind.shl64.Effect := fun _ => ⟨_, rfl, rfl⟩
theorem effect_shr64 : OpKind.shr64.Effect := fun _ => ⟨_, rfl, rfl⟩
theorem effect_sar64 : OpKind.sar64.Effect := fun _ => ⟨_, rfl, rfl⟩

/-! ### effect lemmas: `cmp; setcc; movzb` -/

/-- like `bv_ints`, for goals `h₁ → h₂ → … → P` whose hypotheses contain `if`s as well -/
macro "bv_ints'" : tactic => `(tactic| (
  try simp only [BitVec.toInt_eq_toNat_cond, BitVec.toNat_setWidth, BitVec.toNat_signExtend, BitVec.msb_eq_decide,
             BitVec.toNat_add, BitVec.toNat_sub, BitVec.toNat_neg, BitVec.toNat_not, BitVec.toNat_ofNat,
             BitVec.toNat_eq, Int.bmod_def] at *
  try simp at *
  repeat' (first | split | intro _)
  all_goals (first | omega | (simp at * <;> omega) | (simp at *; done))))

macro "cmp_effect" : tactic => `(tactic| (
  intro s
  refine ⟨_, rfl, ?_⟩
  show ((BitVec.ofNat 64 _).setWidth 8).setWidth 64 = _
  rw [low8_write]
  simp [State.cond, State.flags, State.src, State.getW, b64, sub_eq_zero_iff, sf_ne_of_32, sf_ne_of_64,
        BitVec.usubOverflow]
  try (generalize s.get Reg.rax = r
       generalize s.get Reg.rdi = d
       repeat' split
       all_goals first
         | rfl
         | (exfalso; rename_i h1 h2; revert h1 h2; bv_ints'))))

theorem effect_eq32 : OpKind.eq32.Effect := by cmp_effect
theorem effect_ne32 : OpKind.ne32.Effect := by cmp_effect
theorem effect_lts32 : OpKind.lts32.Effect := by cmp_effect
theorem effect_ltu32 : OpKind.ltu32.Effect := by cmp_effect
theorem effect_les32 : OpKind.les32.Effect := by cmp_effect
theorem effect_leu32 : OpKind.leu32.Effect := by cmp_effect
theorem effect_eq64 : OpKind.eq64.Effect := by cmp_effect
theorem effect_ne64 : OpKind.ne64.Effect := by cmp_effect
theorem effect_lts64 : OpKind.lts64.Effect := by cmp_effect
theorem effect_ltu64 : OpKind.ltu64.Effect := by cmp_effect
theorem effect_les64 : OpKind.les64.Effect := by cmp_effect
theorem effect_leu64 : OpKind.leu64.Effect := by cmp_effect

/-! ### effect lemmas: division -/

theorem cdq_dividend (a : BitVec 32) : (a.sshiftRight 31).toInt * 2 ^ 32 + (a.toNat : Int) = a.toInt := by
  rw [BitVec.toInt_sshiftRight, Int.shiftRight_eq_div_pow, BitVec.toInt_eq_toNat_cond]
  have := a.isLt
  split <;> omega

theorem cqo_dividend (a : BitVec 64) : (a.sshiftRight 63).toInt * 2 ^ 64 + (a.toNat : Int) = a.toInt := by
  rw [BitVec.toInt_sshiftRight, Int.shiftRight_eq_div_pow, BitVec.toInt_eq_toNat_cond]
  have := a.isLt
  split <;> omega

theorem setWidth_32_64_32 (x : BitVec 32) : (x.setWidth 64).setWidth 32 = x := by
  apply BitVec.eq_of_toNat_eq; have := x.isLt; simp

theorem effect_divs32 : OpKind.divs32.Effect := by
  intro s
  rw [run_eq_execs OpKind.divs32.seq [.cdq, .idiv .w32 .rdi] rfl]
  have hdi : ((s.setW .rdx .w32 ((s.getW .rax .w32).sshiftRight 31)).getW .rdi .w32) = (s.get .rdi).setWidth 32 := rfl
  have hax : ((s.setW .rdx .w32 ((s.getW .rax .w32).sshiftRight 31)).getW .rax .w32) = (s.get .rax).setWidth 32 := rfl
  have hdx : ((s.setW .rdx .w32 ((s.getW .rax .w32).sshiftRight 31)).getW .rdx .w32) = ((s.get .rax).setWidth 32).sshiftRight 31 :=
    setWidth_32_64_32 _
  simp only [OpKind.fn, execs, exec, hdi, hax, hdx, cdq_dividend]
  generalize (BitVec.setWidth 32 (s.get Reg.rax)) = a
  generalize (BitVec.setWidth 32 (s.get Reg.rdi)) = d
  by_cases c1 : d.toInt = 0
  · simp only [c1, if_true]
  · by_cases c2 : a.toInt.tdiv d.toInt < -(2 ^ 31) ∨ a.toInt.tdiv d.toInt ≥ 2 ^ 31
    · simp only [c1, c2, if_true, if_false]
    · simp only [c1, c2, if_false]
      refine ⟨_, rfl, ?_⟩
      simp [State.setW, State.get, State.set]

theorem effect_mods32 : OpKind.mods32.Effect := by
  intro s
  rw [run_eq_execs OpKind.mods32.seq [.cdq, .idiv .w32 .rdi, .mov .w64 (.reg .rdx) (.reg .rax)] rfl]
  have hdi : ((s.setW .rdx .w32 ((s.getW .rax .w32).sshiftRight 31)).getW .rdi .w32) = (s.get .rdi).setWidth 32 := rfl
  have hax : ((s.setW .rdx .w32 ((s.getW .rax .w32).sshiftRight 31)).getW .rax .w32) = (s.get .rax).setWidth 32 := rfl
  have hdx : ((s.setW .rdx .w32 ((s.getW .rax .w32).sshiftRight 31)).getW .rdx .w32) = ((s.get .rax).setWidth 32).sshiftRight 31 :=
    setWidth_32_64_32 _
  simp only [OpKind.fn, execs, exec, hdi, hax, hdx, cdq_dividend]
  generalize (BitVec.setWidth 32 (s.get Reg.rax)) = a
  generalize (BitVec.setWidth 32 (s.get Reg.rdi)) = d
  by_cases c1 : d.toInt = 0
  · simp only [c1, if_true]
  · by_cases c2 : a.toInt.tdiv d.toInt < -(2 ^ 31) ∨ a.toInt.tdiv d.toInt ≥ 2 ^ 31
    · simp only [c1, c2, if_true, if_false]
    · simp only [c1, c2, if_false]
      refine ⟨_, rfl, ?_⟩
      simp [State.setW, State.get, State.set, State.src, State.getW]

theorem effect_divs64 : OpKind.divs64.Effect := by
  intro s
  rw [run_eq_execs OpKind.divs64.seq [.cqo, .idiv .w64 .rdi] rfl]
  have hdi : ((s.set .rdx ((s.get .rax).sshiftRight 63)).get .rdi) = s.get .rdi := rfl
  have hax : ((s.set .rdx ((s.get .rax).sshiftRight 63)).get .rax) = s.get .rax := rfl
  have hdx : ((s.set .rdx ((s.get .rax).sshiftRight 63)).get .rdx) = (s.get .rax).sshiftRight 63 := rfl
  simp only [OpKind.fn, execs, exec, hdi, hax, hdx, cqo_dividend]
  generalize (s.get Reg.rax) = a
  generalize (s.get Reg.rdi) = d
  by_cases c1 : d.toInt = 0
  · simp only [c1, if_true]
  · by_cases c2 : a.toInt.tdiv d.toInt < -(2 ^ 63) ∨ a.toInt.tdiv d.toInt ≥ 2 ^ 63
    · simp only [c1, c2, if_true, if_false]
    · simp only [c1, c2, if_false]
      refine ⟨_, rfl, ?_⟩
      simp [State.get, State.set]

theorem effect_mods64 : OpKind.mods64.Effect := by
  intro s
  rw [run_eq_execs OpKind.mods64.seq [.cqo, .idiv .w64 .rdi, .mov .w64 (.reg .rdx) (.reg .rax)] rfl]
  have hdi : ((s.set .rdx ((s.get .rax).sshiftRight 63)).get .rdi) = s.get .rdi := rfl
  have hax : ((s.set .rdx ((s.get .rax).sshiftRight 63)).get .rax) = s.get .rax := rfl
  have hdx : ((s.set .rdx ((s.get .rax).sshiftRight 63)).get .rdx) = (s.get .rax).sshiftRight 63 := rfl
  simp only [OpKind.fn, execs, exec, hdi, hax, hdx, cqo_dividend]
  generalize (s.get Reg.rax) = a
  generalize (s.get Reg.rdi) = d
  by_cases c1 : d.toInt = 0
  · simp only [c1, if_true]
  · by_cases c2 : a.toInt.tdiv d.toInt < -(2 ^ 63) ∨ a.toInt.tdiv d.toInt ≥ 2 ^ 63
    · simp only [c1, c2, if_true, if_false]
    · simp only [c1, c2, if_false]
      refine ⟨_, rfl, ?_⟩
      simp [State.get, State.set, State.src, State.getW, State.setW]

theorem effect_divu32 : OpKind.divu32.Effect := by
  intro s
  rw [run_eq_execs OpKind.divu32.seq [.mov .w32 (.imm 0) (.reg .rdx), .div .w32 .rdi] rfl]
  simp only [OpKind.fn, execs, exec, State.dst, State.src]
  have hdi : ((s.setW .rdx .w32 (BitVec.ofInt 32 0)).getW .rdi .w32) = (s.get .rdi).setWidth 32 := rfl
  have hax : ((s.setW .rdx .w32 (BitVec.ofInt 32 0)).getW .rax .w32) = (s.get .rax).setWidth 32 := rfl
  have hdx : ((s.setW .rdx .w32 (BitVec.ofInt 32 0)).getW .rdx .w32) = 0#32 := rfl
  simp only [hdi, hax, hdx]
  generalize (BitVec.setWidth 32 (s.get Reg.rax)) = a
  generalize (BitVec.setWidth 32 (s.get Reg.rdi)) = d
  have hq : ¬ ((0#32).toNat * 2 ^ 32 + a.toNat) / d.toNat ≥ 2 ^ 32 := by
    have := Nat.div_le_self a.toNat d.toNat
    have := a.isLt
    simp; omega
  by_cases c1 : d.toNat = 0
  · simp only [c1, if_true]
  · simp only [c1, hq, if_false]
    refine ⟨_, rfl, ?_⟩
    simp [State.setW, State.get, State.set]


theorem effect_modu32 : OpKind.modu32.Effect := by
  intro s
  rw [run_eq_execs OpKind.modu32.seq [.mov .w32 (.imm 0) (.reg .rdx), .div .w32 .rdi, .mov .w64 (.reg .rdx) (.reg .rax)] rfl]
  simp only [OpKind.fn, execs, exec, State.dst, State.src]
  have hdi : ((s.setW .rdx .w32 (BitVec.ofInt 32 0)).getW .rdi .w32) = (s.get .rdi).setWidth 32 := rfl
  have hax : ((s.setW .rdx .w32 (BitVec.ofInt 32 0)).getW .rax .w32) = (s.get .rax).setWidth 32 := rfl
  have hdx : ((s.setW .rdx .w32 (BitVec.ofInt 32 0)).getW .rdx .w32) = 0#32 := rfl
  simp only [hdi, hax, hdx]
  generalize (BitVec.setWidth 32 (s.get Reg.rax)) = a
  generalize (BitVec.setWidth 32 (s.get Reg.rdi)) = d
  have hq : ¬ ((0#32).toNat * 2 ^ 32 + a.toNat) / d.toNat ≥ 2 ^ 32 := by
    have := Nat.div_le_self a.toNat d.toNat
    have := a.isLt
    simp; omega
  by_cases c1 : d.toNat = 0
  · simp only [c1, if_true]
  · simp only [c1, hq, if_false]
    refine ⟨_, rfl, ?_⟩
    simp [State.setW, State.get, State.set, State.getW]

theorem effect_divu64 : OpKind.divu64.Effect := by
  intro s
  rw [run_eq_execs OpKind.divu64.seq [.mov .w64 (.imm 0) (.reg .rdx), .div .w64 .rdi] rfl]
  simp only [OpKind.fn, execs, exec, State.dst, State.src]
  have hdi : ((s.setW .rdx .w64 (BitVec.ofInt 64 0)).get .rdi) = s.get .rdi := rfl
  have hax : ((s.setW .rdx .w64 (BitVec.ofInt 64 0)).get .rax) = s.get .rax := rfl
  have hdx : ((s.setW .rdx .w64 (BitVec.ofInt 64 0)).get .rdx) = 0#64 := rfl
  simp only [hdi, hax, hdx]
  generalize (s.get Reg.rax) = a
  generalize (s.get Reg.rdi) = d
  have hq : ¬ ((0#64).toNat * 2 ^ 64 + a.toNat) / d.toNat ≥ 2 ^ 64 := by
    have := Nat.div_le_self a.toNat d.toNat
    have := a.isLt
    simp; omega
  by_cases c1 : d.toNat = 0
  · simp only [c1, if_true]
  · simp only [c1, hq, if_false]
    refine ⟨_, rfl, ?_⟩
    simp [State.setW, State.get, State.set]

theorem effect_modu64 : OpKind.modu64.Effect := by
  intro s
  rw [run_eq_execs OpKind.modu64.seq [.mov .w64 (.imm 0) (.reg .rdx), .div .w64 .rdi, .mov .w64 (.reg .rdx) (.reg .rax)] rfl]
  simp only [OpKind.fn, execs, exec, State.dst, State.src]
  have hdi : ((s.setW .rdx .w64 (BitVec.ofInt 64 0)).get .rdi) = s.get .rdi := rfl
  have hax : ((s.setW .rdx .w64 (BitVec.ofInt 64 0)).get .rax) = s.get .rax := rfl
  have hdx : ((s.setW .rdx .w64 (BitVec.ofInt 64 0)).get .rdx) = 0#64 := rfl
  simp only [hdi, hax, hdx]
  generalize (s.get Reg.rax) = a
  generalize (s.get Reg.rdi) = d
  have hq : ¬ ((0#64).toNat * 2 ^ 64 + a.toNat) / d.toNat ≥ 2 ^ 64 := by
    have := Nat.div_le_self a.toNat d.toNat
    have := a.isLt
    simp; omega
  by_cases c1 : d.toNat = 0
  · simp only [c1, if_true]
  · simp only [c1, hq, if_false]
    refine ⟨_, rfl, ?_⟩
    simp [State.setW, State.get, State.set, State.getW]

/-- **effect of every operator sequence, for every machine state** (including exactly when the CPU faults) -/
theorem OpKind.effect (k : OpKind) : k.Effect := by
  cases k
  case add32 => exact effect_add32
  case sub32 => exact effect_sub32
  case mul32 => exact effect_mul32
  case and32 => exact effect_and32
  case or32 => exact effect_or32
  case xor32 => exact effect_xor32
  case add64 => exact effect_add64
  case sub64 => exact effect_sub64
  case mul64 => exact effect_mul64
  case and64 => exact effect_and64
  case or64 => exact effect_or64
  case xor64 => exact effect_xor64
  case divs32 => exact effect_divs32
  case divu32 => exact effect_divu32
  case divs64 => exact effect_divs64
  case divu64 => exact effect_divu64
  case mods32 => exact effect_mods32
  case modu32 => exact effect_modu32
  case mods64 => exact effect_mods64
  case modu64 => exact effect_modu64
  case eq32 => exact effect_eq32
  case ne32 => exact effect_ne32
  case lts32 => exact effect_lts32
  case ltu32 => exact effect_ltu32
  case les32 => exact effect_les32
  case leu32 => exact effect_leu32
  case eq64 => exact effect_eq64
  case ne64 => exact effect_ne64
  case lts64 => exact effect_lts64
  case ltu64 => exact effect_ltu64
  case les64 => exact effect_les64
  case leu64 => exact effect_leu64
  case shl32 => exact effect_shl32
  case shr32 => exact effect_shr32
  case sar32 => exact effect_sar32
  case shl64 => exact effect_shl64
  case shr64 => exact effect_shr64
  case sar64 => exact effect_sar64

end ChibiVerif.C01
