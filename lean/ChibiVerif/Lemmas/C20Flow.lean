/-
C20: code with labels and jumps — the label-height calculus.

`Effect.scanRel h ss cur` scans a control-flow skeleton (`List Step`) with a labelling `h` (one
(rsp, x87) height per label): every jump must leave at its label's height, every fall-through into
a label must arrive at the label's height.  This module turns that into a compositional calculus:

* `Cons h ss c d` — with labelling `h`, the skeleton `ss` is consistent at base height `c` with
  fall-through effect `d`: entered at height `c` (or dead: after an unconditional jump) the scan
  succeeds and ends dead or at height `c + d`.
* `FlowR A o ss G d` — the *raw* skeleton `ss` (before `renameLocals`) placed at any base height
  `c`, after any earlier numeric local labels (`seen`), has a labelling `hf` of exactly the labels it
  defines such that every global labelling that extends `hf` and satisfies the assumptions `A`
  makes it consistent with effect `d`.  `A` (assumed) and `G` (guaranteed) list labels with heights
  relative to the *region base* `c + o`: the height at which the enclosing statements of the
  region — the function body, or the body of a statement expression — run.
* `SemF A ro xo m G r x dd` — the judgment for a code generator `m : M α`; `FlowP` is the code
  predicate (`CodePred`) of closed code (no assumptions, no guarantees), so that every arm lemma of
  Lemmas/C20Lemmas.lean and Lemmas/C20Calls.lean holds for code with labels as well.
-/
import ChibiVerif.Lemmas.C20Calls
import ChibiVerif.Model.C20Flow
import ChibiVerif.Lemmas.C20Labels

namespace ChibiVerif.Lemmas.C20
open ChibiVerif ChibiVerif.Codegen ChibiVerif.Effect ChibiVerif.Asm ChibiVerif.Ast ChibiVerif.C20Scope

/-! ### arithmetic of heights -/

theorem H.ext_iff' {a b : H} : a = b ↔ a.rsp = b.rsp ∧ a.x87 = b.x87 := by
  cases a; cases b; simp

@[simp] theorem H.add_rsp (a b : H) : (a + b).rsp = a.rsp + b.rsp := rfl
@[simp] theorem H.add_x87 (a b : H) : (a + b).x87 = a.x87 + b.x87 := rfl
@[simp] theorem H.zero_rsp : H.zero.rsp = 0 := rfl
@[simp] theorem H.zero_x87 : H.zero.x87 = 0 := rfl

/-- decide an equation between heights: componentwise linear arithmetic -/
syntax "harith" : tactic
macro_rules
  | `(tactic| harith) => `(tactic|
      (simp only [H.ext_iff', H.add_rsp, H.add_x87, H.zero_rsp, H.zero_x87] at * <;> omega))

theorem H.add_assoc' (a b c : H) : a + b + c = a + (b + c) := by harith
theorem H.add_zero' (a : H) : a + H.zero = a := by harith
theorem H.add_mk_zero (a : H) : a + ⟨0, 0⟩ = a := by harith

/-! ### skeletons: append lemmas -/

theorem labelNames_append (a b : List Step) : labelNames (a ++ b) = labelNames a ++ labelNames b :=
  labelNames_append' a b

/-- the `seen` table of `renameLocals` after a skeleton -/
def seenAfter : List Step → List (String × Nat) → List (String × Nat)
  | [], seen => seen
  | .label l :: r, seen =>
    if isNumLabel l then seenAfter r ((l, (seen.lookup l).getD 0 + 1) :: seen) else seenAfter r seen
  | _ :: r, seen => seenAfter r seen

theorem renameLocals_append (a b : List Step) (seen : List (String × Nat)) :
    renameLocals (a ++ b) seen = renameLocals a seen ++ renameLocals b (seenAfter a seen) := by
  induction a generalizing seen with
  | nil => rfl
  | cons s r ih =>
    cases s with
    | label l =>
      by_cases hl : isNumLabel l = true
      · simp [renameLocals, seenAfter, hl, ih]
      · simp [renameLocals, seenAfter, hl, ih]
    | delta d => simp [renameLocals, seenAfter, ih]
    | cond l => simp [renameLocals, seenAfter, ih]
    | jump l => simp [renameLocals, seenAfter, ih]
    | leave => simp [renameLocals, seenAfter, ih]
    | bad w => simp [renameLocals, seenAfter, ih]

theorem scanRel_append (h : Labelling) (a b : List Step) (cur : Option H) :
    scanRel h (a ++ b) cur =
      (match scanRel h a cur with
       | .ok e => scanRel h b e
       | .error m => .error m) := by
  induction a generalizing cur with
  | nil => rfl
  | cons s r ih =>
    cases s with
    | delta d => simp only [List.cons_append, scanRel, ih]
    | cond l =>
      cases cur with
      | none => simp only [List.cons_append, scanRel, ih]
      | some c =>
        simp only [List.cons_append, scanRel]
        split
        · exact ih _
        · rfl
    | jump l =>
      cases cur with
      | none => simp only [List.cons_append, scanRel, ih]
      | some c =>
        simp only [List.cons_append, scanRel]
        split
        · exact ih _
        · rfl
    | leave => simp only [List.cons_append, scanRel, ih]
    | label l =>
      simp only [List.cons_append, scanRel]
      split
      · rfl
      · split
        · exact ih _
        · rfl
    | bad w => simp only [List.cons_append, scanRel]

/-! ### consistency at a base height -/

/-- with labelling `h`, the skeleton is consistent at base height `c` with fall-through effect `d` -/
def Cons (h : Labelling) (ss : List Step) (c d : H) : Prop :=
  ∀ cur : Option H, (cur = none ∨ cur = some c) →
    ∃ e, scanRel h ss cur = .ok e ∧ (e = none ∨ e = some (c + d))

theorem Cons_append {h : Labelling} {a b : List Step} {c d1 d2 : H}
    (h1 : Cons h a c d1) (h2 : Cons h b (c + d1) d2) : Cons h (a ++ b) c (d1 + d2) := by
  intro cur hc
  obtain ⟨e1, he1, hd1⟩ := h1 cur hc
  obtain ⟨e2, he2, hd2⟩ := h2 e1 hd1
  refine ⟨e2, ?_, ?_⟩
  · rw [scanRel_append, he1]; exact he2
  · rw [← H.add_assoc']; exact hd2

theorem Cons_nil (h : Labelling) (c : H) : Cons h [] c H.zero := by
  intro cur hc
  refine ⟨cur, rfl, ?_⟩
  rcases hc with rfl | rfl
  · exact Or.inl rfl
  · exact Or.inr (by rw [H.add_zero'])

theorem Cons_cast {h : Labelling} {ss : List Step} {c d d' : H} (h1 : Cons h ss c d) (hd : d = d') :
    Cons h ss c d' := hd ▸ h1

/-! ### fragments -/

/-- `h` extends the labelling `hf` of a fragment -/
def Ext (h hf : Labelling) : Prop := ∀ l v, (l, v) ∈ hf → h.lookup l = some v

theorem Ext_append {h a b : Labelling} : Ext h (a ++ b) ↔ Ext h a ∧ Ext h b := by
  constructor
  · intro hx
    exact ⟨fun l v hm => hx l v (List.mem_append_left _ hm), fun l v hm => hx l v (List.mem_append_right _ hm)⟩
  · rintro ⟨h1, h2⟩ l v hm
    rcases List.mem_append.mp hm with hm | hm
    · exact h1 l v hm
    · exact h2 l v hm

/-- see the head of this file -/
def FlowR (A : List (String × H)) (o : H) (ss : List Step) (G : List (String × H)) (d : H) : Prop :=
  ∀ (c : H) (seen : List (String × Nat)), ∃ hf : Labelling,
    hf.map Prod.fst = labelNames (renameLocals ss seen) ∧
    (∀ l r, (l, r) ∈ G → (l, c + o + r) ∈ hf) ∧
    ∀ h : Labelling, Ext h hf → (∀ l r, (l, r) ∈ A → h.lookup l = some (c + o + r)) →
      Cons h (renameLocals ss seen) c d

theorem FlowR_append {A : List (String × H)} {o o' : H} {a b : List Step} {G1 G2 : List (String × H)}
    {d1 d2 : H} (h1 : FlowR A o a G1 d1) (h2 : FlowR A o' b G2 d2) (ho : o' + d1 = o) :
    FlowR A o (a ++ b) (G1 ++ G2) (d1 + d2) := by
  intro c seen
  obtain ⟨hf1, hk1, hg1, hc1⟩ := h1 c seen
  obtain ⟨hf2, hk2, hg2, hc2⟩ := h2 (c + d1) (seenAfter a seen)
  have hbase : c + d1 + o' = c + o := by harith
  refine ⟨hf1 ++ hf2, ?_, ?_, ?_⟩
  · rw [renameLocals_append, labelNames_append, List.map_append, hk1, hk2]
  · intro l r hm
    rcases List.mem_append.mp hm with hm | hm
    · exact List.mem_append_left _ (hg1 l r hm)
    · have := hg2 l r hm
      rw [hbase] at this
      exact List.mem_append_right _ this
  · intro h hx ha
    obtain ⟨hx1, hx2⟩ := Ext_append.mp hx
    rw [renameLocals_append]
    refine Cons_append (hc1 h hx1 ha) (hc2 h hx2 ?_)
    intro l r hm
    rw [hbase]
    exact ha l r hm

/-- discharge assumptions that the fragment itself guarantees, weaken the rest; forget guarantees -/
theorem FlowR.conv {A A' : List (String × H)} {o : H} {ss : List Step} {G G' : List (String × H)} {d d' : H}
    (h1 : FlowR A o ss G d) (hd : d = d')
    (hA : ∀ l r, (l, r) ∈ A → (l, r) ∈ G ∨ (l, r) ∈ A')
    (hG : ∀ l r, (l, r) ∈ G' → (l, r) ∈ G) : FlowR A' o ss G' d' := by
  subst hd
  intro c seen
  obtain ⟨hf, hk, hg, hc⟩ := h1 c seen
  refine ⟨hf, hk, fun l r hm => hg l r (hG l r hm), ?_⟩
  intro h hx ha
  refine hc h hx ?_
  intro l r hm
  rcases hA l r hm with hm' | hm'
  · exact hx l _ (hg l r hm')
  · exact ha l r hm'

/-- closed code (no assumptions, no guarantees) may be placed in any region, at any offset -/
theorem FlowR_closed {A : List (String × H)} {o o' : H} {ss : List Step} {d : H}
    (h1 : FlowR [] o ss [] d) : FlowR A o' ss [] d := by
  intro c seen
  obtain ⟨hf, hk, _, hc⟩ := h1 c seen
  refine ⟨hf, hk, fun l r hm => (List.not_mem_nil hm).elim, ?_⟩
  intro h hx _
  exact hc h hx (fun l r hm => (List.not_mem_nil hm).elim)

/-! ### straight-line code -/

theorem labelNames_deltas (ds : List H) : labelNames (ds.map Step.delta) = [] := labelNames_deltas' ds

theorem scanRel_deltas_none (h : Labelling) (ds : List H) :
    scanRel h (ds.map Step.delta) none = .ok none := by
  induction ds with
  | nil => rfl
  | cons d r ih => simpa [scanRel] using ih

theorem foldl_add_start (xs : List H) (c y : H) : xs.foldl (· + ·) (c + y) = c + xs.foldl (· + ·) y := by
  induction xs generalizing y with
  | nil => rfl
  | cons z zs ih =>
    simp only [List.foldl_cons]
    rw [H.add_assoc', ih]

theorem FlowR_deltas (o : H) (ds : List H) :
    FlowR [] o (ds.map Step.delta) [] (ds.foldl (· + ·) H.zero) := by
  intro c seen
  refine ⟨[], ?_, fun l r hm => (List.not_mem_nil hm).elim, ?_⟩
  · rw [renameLocals_deltas, labelNames_deltas]; rfl
  · intro h _ _ cur hc
    rw [renameLocals_deltas]
    rcases hc with rfl | rfl
    · exact ⟨none, scanRel_deltas_none h ds, Or.inl rfl⟩
    · refine ⟨_, scanRel_deltas h ds c, Or.inr ?_⟩
      rw [← foldl_add_start, H.add_zero']

theorem FlowR_of_delta {ls : List Line} {d : H} (o : H) (h : delta ls = some d) :
    FlowR [] o (ls.flatMap classify) [] d := by
  obtain ⟨ds, e1, e2⟩ := flatMap_classify_of_delta ls d h
  rw [e1, ← e2]
  exact FlowR_deltas o ds

/-! ### the code predicate of closed code, and the judgment for code generators -/

/-- closed code with labels, printed while `count()` went from `lo` to `hi`: one height per label,
    effect (r, x); its counter labels are pairwise distinct and numbered in [lo, hi) -/
def FlowP (lo hi : Nat) (ls : List Line) (r x : Int) : Prop :=
  FlowR [] ⟨0, 0⟩ (ls.flatMap classify) [] ⟨r, x⟩ ∧ LabsR (ls.flatMap classify) [] lo hi

theorem labelNames_of_delta {ls : List Line} {d : H} (h : delta ls = some d) :
    labelNames (ls.flatMap classify) = [] := by
  obtain ⟨ds, e1, _⟩ := flatMap_classify_of_delta ls d h
  rw [e1, labelNames_deltas]

instance : CodePred FlowP where
  lines h hl := ⟨FlowR_of_delta _ h, LabsR_noLabels (labelNames_of_delta h) hl⟩
  append := by
    intro lo mid hi a b r1 x1 r2 x2 h1 h2
    unfold FlowP at *
    rw [List.flatMap_append]
    have := FlowR_append (o := ⟨0, 0⟩) (o' := ⟨-r1, -x1⟩) h1.1 (FlowR_closed h2.1) (by harith)
    exact ⟨this.conv (by simp [H.add_def]) (fun l r hm => (List.not_mem_nil hm).elim)
      (fun l r hm => (List.not_mem_nil hm).elim), LabsR_append h1.2 h2.2⟩

/-- the judgment for a code generator: whenever `m` succeeds, its code is a fragment with assumptions
    `A` and guarantees `G` relative to the region base (fragment base + (ro, xo)), effect (r, x), and
    `depth` has changed by `dd`; `own` are the counter labels of the enclosing arm it defines -/
def SemF (own : List String) (A : List (String × H)) (ro xo : Int) (m : M α) (G : List (String × H))
    (r x dd : Int) : Prop :=
  ∀ s a s' ls, m s = .ok (a, s', ls) →
    FlowR A ⟨ro, xo⟩ (ls.flatMap classify) G ⟨r, x⟩ ∧ s'.depth = s.depth + dd ∧
      LabsR (ls.flatMap classify) own s.count s'.count

theorem SemF_of_SemP {A : List (String × H)} {ro xo : Int} {m : M α} {r x dd : Int}
    (h : SemP FlowP m r x dd) : SemF [] A ro xo m [] r x dd := by
  unfold SemP at h
  intro s a s' ls hm
  obtain ⟨h1, h2⟩ := h s a s' ls hm
  exact ⟨FlowR_closed h1.1, h2, h1.2⟩

theorem SemP_of_SemF {ro xo : Int} {m : M α} {r x dd : Int}
    (h : SemF [] [] ro xo m [] r x dd) : SemP FlowP m r x dd := by
  unfold SemP
  intro s a s' ls hm
  obtain ⟨h1, h2, h3⟩ := h s a s' ls hm
  exact ⟨⟨FlowR_closed h1, h3⟩, h2⟩

theorem SemF_bind' {own1 own2 : List String} {A : List (String × H)} {ro xo : Int} {m : M α} {f : α → M β}
    {G1 G2 : List (String × H)}
    {r1 x1 d1 r2 x2 d2 : Int} (h1 : SemF own1 A ro xo m G1 r1 x1 d1)
    (h2 : ∀ a s s' l, m s = .ok (a, s', l) → SemF own2 A (ro - r1) (xo - x1) (f a) G2 r2 x2 d2) :
    SemF (own1 ++ own2) A ro xo (m >>= f) (G1 ++ G2) (r1 + r2) (x1 + x2) (d1 + d2) := by
  intro s b s' ls h
  simp only [bind, M.bind] at h
  split at h
  · cases h
  · rename_i a s1 l1 hm
    split at h
    · cases h
    · rename_i b' s2 l2 hf
      simp only [Except.ok.injEq, Prod.mk.injEq] at h
      obtain ⟨rfl, rfl, rfl⟩ := h
      obtain ⟨e1, e2, e5⟩ := h1 _ _ _ _ hm
      obtain ⟨e3, e4, e6⟩ := h2 a _ _ _ hm _ _ _ _ hf
      refine ⟨?_, by simp [e4, e2, Int.add_assoc], ?_⟩
      · rw [List.flatMap_append]
        exact (FlowR_append e1 e3 (by harith)).conv (by simp [H.add_def]) (fun l r hm => Or.inr hm)
          (fun l r hm => hm)
      · rw [List.flatMap_append]
        exact LabsR_append e5 e6

theorem SemF_bind {own1 own2 : List String} {A : List (String × H)} {ro xo : Int} {m : M α} {f : α → M β}
    {G1 G2 : List (String × H)}
    {r1 x1 d1 r2 x2 d2 : Int} (h1 : SemF own1 A ro xo m G1 r1 x1 d1)
    (h2 : ∀ a, SemF own2 A (ro - r1) (xo - x1) (f a) G2 r2 x2 d2) :
    SemF (own1 ++ own2) A ro xo (m >>= f) (G1 ++ G2) (r1 + r2) (x1 + x2) (d1 + d2) :=
  SemF_bind' h1 (fun a _ _ _ _ => h2 a)

/-- change the presentation of a judgment: arithmetic, discharge of internal labels, weakening -/
theorem SemF.conv {own own' : List String} {A A' : List (String × H)} {ro xo ro' xo' : Int} {m : M α}
    {G G' : List (String × H)}
    {r x dd r' x' dd' : Int} (h : SemF own A ro xo m G r x dd)
    (hro : ro = ro') (hxo : xo = xo') (hr : r = r') (hx : x = x') (hd : dd = dd')
    (hA : ∀ l v, (l, v) ∈ A → (l, v) ∈ G ∨ (l, v) ∈ A')
    (hG : ∀ l v, (l, v) ∈ G' → (l, v) ∈ G) (hown : own = own' := by rfl) :
    SemF own' A' ro' xo' m G' r' x' dd' := by
  subst hro hxo hr hx hd hown
  intro s a s' ls hm
  obtain ⟨h1, h2, h3⟩ := h s a s' ls hm
  exact ⟨h1.conv rfl hA hG, h2, h3⟩

theorem SemF_fail {own : List String} {A : List (String × H)} {ro xo : Int} {G : List (String × H)}
    {r x dd : Int} (msg : String) :
    SemF own A ro xo (fail msg : M α) G r x dd := by
  intro s a s' ls h; cases h

/-- an arm that draws its label number from `count()`: its own labels `own k` join the fresh ones -/
theorem SemF_count {A : List (String × H)} {ro xo : Int} {f : Nat → M β} {G : List (String × H)}
    {r x dd : Int} {own : Nat → List String} (h : ∀ k, SemF (own k) A ro xo (f k) G r x dd)
    (hn : ∀ k, (own k).Nodup) (ho : ∀ k l, l ∈ own k → ∃ t, t ∈ ctrTags ∧ l = ctr t k) :
    SemF [] A ro xo (count >>= f) G r x dd := by
  intro s b s' ls hm
  simp only [bind, M.bind, count] at hm
  split at hm
  · cases hm
  · rename_i b' s2 l2 hf
    simp only [List.nil_append, Except.ok.injEq, Prod.mk.injEq] at hm
    obtain ⟨rfl, rfl, rfl⟩ := hm
    obtain ⟨h1, h2, h3⟩ := h s.count _ _ _ _ hf
    exact ⟨h1, by simpa using h2, LabsR_close h3 (hn _) (ho _)⟩

/-! ### atoms: jumps and labels -/

theorem lookup_of_assumed {A : List (String × H)} {h : Labelling} {c o r : H} {l : String}
    (ha : ∀ l r, (l, r) ∈ A → h.lookup l = some (c + o + r)) (hm : (l, r) ∈ A) (ho : o + r = H.zero) :
    h.lookup l = some c := by
  rw [ha l r hm]
  congr 1
  harith

theorem FlowR_cond {A : List (String × H)} {o : H} {l : String} {r : H} (hl : localRef l = none)
    (hm : (l, r) ∈ A) (ho : o + r = H.zero) : FlowR A o [.cond l] [] H.zero := by
  intro c seen
  refine ⟨[], by simp [renameLocals, hl, labelNames], fun l r hm => (List.not_mem_nil hm).elim, ?_⟩
  intro h _ ha cur hc
  have hlk := lookup_of_assumed ha hm ho
  simp only [renameLocals, hl]
  rcases hc with rfl | rfl
  · exact ⟨none, rfl, Or.inl rfl⟩
  · refine ⟨some c, by simp [scanRel, hlk], Or.inr (by rw [H.add_zero'])⟩

theorem FlowR_jump {A : List (String × H)} {o : H} {l : String} {r d : H} (hl : localRef l = none)
    (hm : (l, r) ∈ A) (ho : o + r = H.zero) : FlowR A o [.jump l] [] d := by
  intro c seen
  refine ⟨[], by simp [renameLocals, hl, labelNames], fun l r hm => (List.not_mem_nil hm).elim, ?_⟩
  intro h _ ha cur hc
  have hlk := lookup_of_assumed ha hm ho
  simp only [renameLocals, hl]
  rcases hc with rfl | rfl
  · exact ⟨none, rfl, Or.inl rfl⟩
  · exact ⟨none, by simp [scanRel, hlk], Or.inl rfl⟩

theorem FlowR_leave {A : List (String × H)} {o d : H} : FlowR A o [.leave] [] d := by
  intro c seen
  refine ⟨[], by simp [renameLocals, labelNames], fun l r hm => (List.not_mem_nil hm).elim, ?_⟩
  intro h _ _ cur _
  exact ⟨none, by simp [renameLocals, scanRel], Or.inl rfl⟩

theorem FlowR_label {A : List (String × H)} {o : H} {l : String} {r : H} (hl : isNumLabel l = false)
    (ho : o + r = H.zero) : FlowR A o [.label l] [(l, r)] H.zero := by
  intro c seen
  have hb : c + o + r = c := by harith
  refine ⟨[(l, c)], by simp [renameLocals, hl, labelNames], ?_, ?_⟩
  · intro l' r' hm
    simp only [List.mem_singleton, Prod.mk.injEq] at hm
    obtain ⟨rfl, rfl⟩ := hm
    rw [hb]
    exact List.mem_singleton.mpr rfl
  · intro h hx _ cur hc
    have hlk : h.lookup l = some c := hx l c (List.mem_singleton.mpr rfl)
    simp only [renameLocals, hl]
    refine ⟨some c, ?_, Or.inr (by rw [H.add_zero'])⟩
    rcases hc with rfl | rfl <;> simp [scanRel, hlk]

/-! ### what `classify` makes of the jump and label lines the generator prints -/

theorem startsDot_elim {l : String} (h : startsDot l = true) : ∃ rest, l.toList = '.' :: rest := by
  unfold startsDot at h
  split at h
  · rename_i rest hl; exact ⟨rest, hl⟩
  · cases h

theorem jumpTarget_of_startsDot (op : String) {l : String} (h : startsDot l = true) :
    jumpTarget ⟨op, [.s l]⟩ = some l := by
  obtain ⟨rest, hl⟩ := startsDot_elim h
  simp only [jumpTarget, hl]
  have : List.dropWhile (fun x => x == ' ') ('.' :: rest) = '.' :: rest := by
    simp [List.dropWhile]
  rw [this]
  split
  · rename_i tail heq
    simp at heq
  · rw [← hl, String.ofList_toList]

theorem localRef_of_startsDot {l : String} (h : startsDot l = true) : localRef l = none := by
  obtain ⟨rest, hl⟩ := startsDot_elim h
  unfold localRef
  rw [hl]
  split
  · rename_i d hd
    simp only [List.cons.injEq] at hd
    have : ('.' : Char).isDigit = false := by decide
    rw [← hd.1, this]; rfl
  · rename_i d hd
    simp only [List.cons.injEq] at hd
    have : ('.' : Char).isDigit = false := by decide
    rw [← hd.1, this]; rfl
  · rfl

theorem isNumLabel_of_startsDot {l : String} (h : startsDot l = true) : isNumLabel l = false := by
  obtain ⟨rest, hl⟩ := startsDot_elim h
  unfold isNumLabel
  rw [hl]
  split
  · rename_i c hc
    simp only [List.cons.injEq] at hc
    rw [← hc.1]; decide
  · rfl

theorem classify_label (n : String) : classify (.label n) = [.label n] := rfl

theorem classify_jmp {t l : String} (h : jumpTarget ⟨"jmp", [.s t]⟩ = some l) :
    classify (ins1 "jmp" (.s t)) = [.jump l] := by
  have hd : insDelta ⟨"jmp", [.s t]⟩ = none := rfl
  simp only [classify, lineDelta, ins1, hd, classifyIns, h]
  rfl

theorem jumpTarget_op (op op' : String) (t : String) : jumpTarget ⟨op, [.s t]⟩ = jumpTarget ⟨op', [.s t]⟩ := rfl

theorem classify_je {t l : String} (h : jumpTarget ⟨"je", [.s t]⟩ = some l) :
    classify (ins1 "je" (.s t)) = [.cond l] := by
  have hd : insDelta ⟨"je", [.s t]⟩ = none := rfl
  simp only [classify, lineDelta, ins1, hd, classifyIns, h]
  rfl

theorem classify_jne {t l : String} (h : jumpTarget ⟨"jne", [.s t]⟩ = some l) :
    classify (ins1 "jne" (.s t)) = [.cond l] := by
  have hd : insDelta ⟨"jne", [.s t]⟩ = none := rfl
  simp only [classify, lineDelta, ins1, hd, classifyIns, h]
  rfl

theorem classify_jbe {t l : String} (h : jumpTarget ⟨"jbe", [.s t]⟩ = some l) :
    classify (ins1 "jbe" (.s t)) = [.cond l] := by
  have hd : insDelta ⟨"jbe", [.s t]⟩ = none := rfl
  simp only [classify, lineDelta, ins1, hd, classifyIns, h]
  rfl

/-- a line whose skeleton is known -/
theorem SemF_emit {own : List String} {A : List (String × H)} {ro xo : Int} {l : Line} {G : List (String × H)}
    {r x : Int}
    (h : FlowR A ⟨ro, xo⟩ (classify l) G ⟨r, x⟩) (hl : ∀ n, LabsR (classify l) own n n) :
    SemF own A ro xo (emit l) G r x 0 := by
  intro s a s' ls hm
  simp only [emit, Except.ok.injEq, Prod.mk.injEq] at hm
  obtain ⟨_, rfl, rfl⟩ := hm
  exact ⟨by simpa using h, by simp, by simpa using hl s.count⟩

/-- `je l` / `jne l` / `jbe l`, `l` assumed at the current height -/
theorem SemF_je {A : List (String × H)} {ro xo : Int} {l : String} {v : H} (hs : startsDot l = true)
    (hm : (l, v) ∈ A) (hv : v.rsp = -ro ∧ v.x87 = -xo) : SemF [] A ro xo (emit (ins1 "je" (.s l))) [] 0 0 0 := by
  refine SemF_emit ?_ ?_
  · rw [classify_je (jumpTarget_of_startsDot _ hs)]
    exact FlowR_cond (localRef_of_startsDot hs) hm (by harith)
  · rw [classify_je (jumpTarget_of_startsDot _ hs)]
    exact fun n => LabsR_noLabels rfl (Nat.le_refl n)

theorem SemF_jne {A : List (String × H)} {ro xo : Int} {l : String} {v : H} (hs : startsDot l = true)
    (hm : (l, v) ∈ A) (hv : v.rsp = -ro ∧ v.x87 = -xo) : SemF [] A ro xo (emit (ins1 "jne" (.s l))) [] 0 0 0 := by
  refine SemF_emit ?_ ?_
  · rw [classify_jne (jumpTarget_of_startsDot _ hs)]
    exact FlowR_cond (localRef_of_startsDot hs) hm (by harith)
  · rw [classify_jne (jumpTarget_of_startsDot _ hs)]
    exact fun n => LabsR_noLabels rfl (Nat.le_refl n)

/-- `jmp l`, `l` assumed at the current height; what follows is dead, so any effect may be claimed -/
theorem SemF_jmp {A : List (String × H)} {ro xo : Int} {l : String} {v : H} {r x : Int} (hs : startsDot l = true)
    (hm : (l, v) ∈ A) (hv : v.rsp = -ro ∧ v.x87 = -xo) : SemF [] A ro xo (emit (ins1 "jmp" (.s l))) [] r x 0 := by
  refine SemF_emit ?_ ?_
  · rw [classify_jmp (jumpTarget_of_startsDot _ hs)]
    exact FlowR_jump (localRef_of_startsDot hs) hm (by harith)
  · rw [classify_jmp (jumpTarget_of_startsDot _ hs)]
    exact fun n => LabsR_noLabels rfl (Nat.le_refl n)

/-- a counter label of the enclosing arm is guaranteed at the current height -/
theorem SemF_label_ctr {A : List (String × H)} {ro xo : Int} {t : String} (ht : t ∈ ctrTags) (k : Nat) :
    SemF [ctr t k] A ro xo (emit (.label (ctr t k))) [(ctr t k, ⟨-ro, -xo⟩)] 0 0 0 := by
  refine SemF_emit ?_ ?_
  · rw [classify_label]
    exact FlowR_label (isNumLabel_of_startsDot (startsDot_ctr ht k)) (by harith)
  · rw [classify_label]
    exact fun n => LabsR_own ht k n

/-- a parser label is guaranteed at the current height -/
theorem SemF_label_user {A : List (String × H)} {ro xo : Int} {l : String} (hu : userLabel l = true) :
    SemF [] A ro xo (emit (.label l)) [(l, ⟨-ro, -xo⟩)] 0 0 0 := by
  refine SemF_emit ?_ ?_
  · rw [classify_label]
    exact FlowR_label (isNumLabel_of_startsDot (userLabel_elim hu).1) (by harith)
  · rw [classify_label]
    exact fun n => LabsR_user hu n

end ChibiVerif.Lemmas.C20
