/-
Memory lemmas for Model/X86's byte-addressed memory, used by the C02 proofs about the cast-table cells that go
through a scratch slot below %rsp (`mov %eax, -4(%rsp); fildl -4(%rsp)`, the x87 control-word dance of FROM_F80, the
two 64-bit words of a long double constant).

`mem_norm` unfolds every read/write to bytes and decides the address comparisons `a + k₁ = a + k₂` on the offsets.
-/
import ChibiVerif.Model.FpMachine

namespace ChibiVerif.X86

theorem State.mem_write8 (s : State) (a x : BitVec 64) (v : BitVec 8) :
    (s.write8 a v).mem x = if x = a then v else s.mem x := rfl

macro "mem_norm" : tactic => `(tactic|
  simp only [State.read8, State.read16, State.read32, State.read64, State.write16, State.write32, State.write64,
    State.mem_write8, BitVec.add_assoc, BitVec.add_right_inj, BitVec.add_right_eq_self, BitVec.self_eq_add_right,
    BitVec.reduceAdd, BitVec.reduceEq, if_true, if_false, ite_true, ite_false, BitVec.ofNat_eq_ofNat])

theorem split16 (v : BitVec 16) : (v >>> 8).setWidth 8 ++ v.setWidth 8 = v := by
  apply BitVec.eq_of_getLsbD_eq
  intro i hi
  simp only [BitVec.getLsbD_append, BitVec.getLsbD_setWidth, BitVec.getLsbD_ushiftRight]
  by_cases h : i < 8
  · simp [h]
  · have : 8 + (i - 8) = i := by omega
    simp [h, this]; omega

theorem split32 (v : BitVec 32) : (v >>> 16).setWidth 16 ++ v.setWidth 16 = v := by
  apply BitVec.eq_of_getLsbD_eq
  intro i hi
  simp only [BitVec.getLsbD_append, BitVec.getLsbD_setWidth, BitVec.getLsbD_ushiftRight]
  by_cases h : i < 16
  · simp [h]
  · have : 16 + (i - 16) = i := by omega
    simp [h, this]; omega

theorem split64 (v : BitVec 64) : (v >>> 32).setWidth 32 ++ v.setWidth 32 = v := by
  apply BitVec.eq_of_getLsbD_eq
  intro i hi
  simp only [BitVec.getLsbD_append, BitVec.getLsbD_setWidth, BitVec.getLsbD_ushiftRight]
  by_cases h : i < 32
  · simp [h]
  · have : 32 + (i - 32) = i := by omega
    simp [h, this]; omega

theorem split80 (v : BitVec 80) : (v >>> 64).setWidth 16 ++ v.setWidth 64 = v := by
  apply BitVec.eq_of_getLsbD_eq
  intro i hi
  simp only [BitVec.getLsbD_append, BitVec.getLsbD_setWidth, BitVec.getLsbD_ushiftRight]
  by_cases h : i < 64
  · simp [h]
  · have : 64 + (i - 64) = i := by omega
    simp [h, this]; omega

/-! ### read after write, same address -/

theorem State.read16_write16 (s : State) (a : BitVec 64) (v : BitVec 16) : (s.write16 a v).read16 a = v := by
  mem_norm; exact split16 v

theorem State.read8_write16 (s : State) (a : BitVec 64) (v : BitVec 16) : (s.write16 a v).read8 a = v.setWidth 8 := by
  mem_norm

/-- the byte at `p + c2` is not touched by a one-byte write at `p + c1` when the offsets differ -/
theorem State.mem_write8_off (s : State) (p c1 c2 : BitVec 64) (v : BitVec 8) (h : (c2 != c1) = true) :
    (s.write8 (p + c1) v).mem (p + c2) = s.mem (p + c2) := by
  simp only [bne_iff_ne, ne_eq] at h
  simp [State.mem_write8, BitVec.add_right_inj, h]

theorem State.read32_write32 (s : State) (a : BitVec 64) (v : BitVec 32) : (s.write32 a v).read32 a = v := by
  mem_norm
  rw [split16, split16, split32]

theorem State.read16_write32 (s : State) (a : BitVec 64) (v : BitVec 32) : (s.write32 a v).read16 a = v.setWidth 16 := by
  mem_norm
  rw [split16]

theorem State.read64_write64 (s : State) (a : BitVec 64) (v : BitVec 64) : (s.write64 a v).read64 a = v := by
  mem_norm
  rw [split16, split16, split16, split16, split32, split32, split64]

theorem State.read32_write64 (s : State) (a : BitVec 64) (v : BitVec 64) : (s.write64 a v).read32 a = v.setWidth 32 := by
  mem_norm
  rw [split16, split16, split32]

end ChibiVerif.X86
