/-
C03 — forward simulation for *all* statements (goto, computed goto, `case` labels nested in
other statements): definitions.  The relation between a configuration `(s, k)` of the small-step
abstract machine `Spec.Ctl.step` (Spec/ControlSpecG.lean) and a position in the generated code:
the code of (an annotated copy of) `s` starts at the position, and the continuation `k` is
matched, frame by frame, by what the code does after it (`MatchK`).  Also the code layouts of
the compound statements and the labels a control transfer can arrive at (`hitLabels`).
-/
import ChibiVerif.Lemmas.StmtSim
import ChibiVerif.Spec.ControlSpecG

set_option linter.unusedSimpArgs false
set_option linter.unusedVariables false
namespace ChibiVerif.Ctl
open ChibiVerif.Spec.Ctl

/-! ### what the parsed tree says about labels and jumps -/

/-- unique labels of the label nodes the target designates, in the order `Spec.Ctl.find` visits them -/
def hitLabels (t : Target) : Stmt → List Nat
  | .seq a b => hitLabels t a ++ hitLabels t b
  | .block s => hitLabels t s
  | .ifte _ a b => hitLabels t a ++ hitLabels t b
  | .for_ _ _ _ _ _ body => hitLabels t body
  | .doWhile _ _ body _ => hitLabels t body
  | .switch_ _ _ _ _ _ _ body => if t.enters then hitLabels t body else []
  | .case_ l lo hi s => if t.hitCase lo hi then l :: hitLabels t s else hitLabels t s
  | .default_ l s => if t.hitDflt then l :: hitLabels t s else hitLabels t s
  | .label l u s => if t.hitLabel l then u :: hitLabels t s else hitLabels t s
  | _ => []

/-! ### code layouts -/

/-- the test at the head of a `for` -/
def condCode (cnd : Option Nat) (brk : Nat) : List CIns :=
  match cnd with
  | some k => [.call (.c k), cmpZero, .je (.u brk)]
  | none => []

theorem gen_for_none (cnd inc : Option Nat) (brk cont : Nat) (body : Stmt) (c0 : Nat) :
    (genStmt (.for_ none cnd inc brk cont body) c0).1 =
      [.label (.begin_ c0)] ++ condCode cnd brk ++ (genStmt body (c0 + 1)).1 ++ [.label (.u cont)] ++ callOpt inc ++
        [.jmp (.begin_ c0), .label (.u brk)] := by
  cases cnd <;> simp [genStmt, callOpt, condCode]

theorem gen_for_some (i : Nat) (cnd inc : Option Nat) (brk cont : Nat) (body : Stmt) (c0 : Nat) :
    (genStmt (.for_ (some i) cnd inc brk cont body) c0).1 =
      [.call (.m i)] ++ (genStmt (.for_ none cnd inc brk cont body) c0).1 := by
  simp [genStmt, callOpt, List.append_assoc]

theorem if_layout {P : Prog} {p c0 k : Nat} {t e : Stmt} (hcode : CodeAt P p (genStmt (.ifte k t e) c0).1) :
    CodeAt P p [.call (.c k), cmpZero, .je (.else_ c0)] ∧
    CodeAt P (p + 3) (genStmt t (c0 + 1)).1 ∧
    P[p + 3 + (genStmt t (c0 + 1)).1.length]? = some (.jmp (.end_ c0)) ∧
    P[p + 3 + (genStmt t (c0 + 1)).1.length + 1]? = some (.label (.else_ c0)) ∧
    CodeAt P (p + 3 + (genStmt t (c0 + 1)).1.length + 2) (genStmt e (genStmt t (c0 + 1)).2).1 ∧
    P[p + 3 + (genStmt t (c0 + 1)).1.length + 2 + (genStmt e (genStmt t (c0 + 1)).2).1.length]? = some (.label (.end_ c0)) ∧
    (genStmt (.ifte k t e) c0).1.length =
      3 + (genStmt t (c0 + 1)).1.length + 2 + (genStmt e (genStmt t (c0 + 1)).2).1.length + 1 := by
  simp only [genStmt] at hcode ⊢
  have hT : CodeAt P p [.call (.c k), cmpZero, .je (.else_ c0)] := hcode.left.left.left.left
  have hX : CodeAt P (p + 3) (genStmt t (c0 + 1)).1 := hcode.left.left.left.right
  have hJ : CodeAt P (p + 3 + (genStmt t (c0 + 1)).1.length) [.jmp (.end_ c0), .label (.else_ c0)] :=
    hcode.left.left.right.cast (by simp only [List.length_append, List.length_cons, List.length_nil]; omega)
  have hY : CodeAt P (p + 3 + (genStmt t (c0 + 1)).1.length + 2) (genStmt e (genStmt t (c0 + 1)).2).1 :=
    hcode.left.right.cast (by simp only [List.length_append, List.length_cons, List.length_nil]; omega)
  have hE : CodeAt P (p + 3 + (genStmt t (c0 + 1)).1.length + 2 + (genStmt e (genStmt t (c0 + 1)).2).1.length)
      [.label (.end_ c0)] :=
    hcode.right.cast (by simp only [List.length_append, List.length_cons, List.length_nil]; omega)
  refine ⟨hT, hX, hJ.head, ?_, hY, hE.head, ?_⟩
  · have := hJ.get 1 (by simp); simpa using this
  · simp only [List.length_append, List.length_cons, List.length_nil]

theorem for_layout {P : Prog} {p c0 : Nat} {cnd inc : Option Nat} {brk cont : Nat} {body : Stmt}
    (hcode : CodeAt P p (genStmt (.for_ none cnd inc brk cont body) c0).1) :
    P[p]? = some (.label (.begin_ c0)) ∧
    CodeAt P (p + 1) (condCode cnd brk) ∧
    CodeAt P (p + 1 + (condCode cnd brk).length) (genStmt body (c0 + 1)).1 ∧
    P[p + 1 + (condCode cnd brk).length + (genStmt body (c0 + 1)).1.length]? = some (.label (.u cont)) ∧
    CodeAt P (p + 1 + (condCode cnd brk).length + (genStmt body (c0 + 1)).1.length + 1) (callOpt inc) ∧
    P[p + 1 + (condCode cnd brk).length + (genStmt body (c0 + 1)).1.length + 1 + (callOpt inc).length]? =
      some (.jmp (.begin_ c0)) ∧
    P[p + 1 + (condCode cnd brk).length + (genStmt body (c0 + 1)).1.length + 1 + (callOpt inc).length + 1]? =
      some (.label (.u brk)) ∧
    (genStmt (.for_ none cnd inc brk cont body) c0).1.length =
      1 + (condCode cnd brk).length + (genStmt body (c0 + 1)).1.length + 1 + (callOpt inc).length + 2 := by
  rw [gen_for_none] at hcode ⊢
  have hBegin : P[p]? = some (.label (.begin_ c0)) := hcode.left.left.left.left.left.head
  have hCC : CodeAt P (p + 1) (condCode cnd brk) := hcode.left.left.left.left.right
  have hX : CodeAt P (p + 1 + (condCode cnd brk).length) (genStmt body (c0 + 1)).1 :=
    hcode.left.left.left.right.cast (by simp only [List.length_append, List.length_cons, List.length_nil]; omega)
  have hCont : P[p + 1 + (condCode cnd brk).length + (genStmt body (c0 + 1)).1.length]? = some (.label (.u cont)) :=
    (hcode.left.left.right.cast (by simp only [List.length_append, List.length_cons, List.length_nil]; omega)).head
  have hInc : CodeAt P (p + 1 + (condCode cnd brk).length + (genStmt body (c0 + 1)).1.length + 1) (callOpt inc) :=
    hcode.left.right.cast (by simp only [List.length_append, List.length_cons, List.length_nil]; omega)
  have hTail : CodeAt P (p + 1 + (condCode cnd brk).length + (genStmt body (c0 + 1)).1.length + 1 + (callOpt inc).length)
      [.jmp (.begin_ c0), .label (.u brk)] :=
    hcode.right.cast (by simp only [List.length_append, List.length_cons, List.length_nil]; omega)
  refine ⟨hBegin, hCC, hX, hCont, hInc, hTail.head, ?_, ?_⟩
  · have := hTail.get 1 (by simp); simpa using this
  · simp only [List.length_append, List.length_cons, List.length_nil]

theorem do_layout {P : Prog} {p c0 k : Nat} {brk cont : Nat} {body : Stmt}
    (hcode : CodeAt P p (genStmt (.doWhile brk cont body k) c0).1) :
    P[p]? = some (.label (.begin_ c0)) ∧
    CodeAt P (p + 1) (genStmt body (c0 + 1)).1 ∧
    P[p + 1 + (genStmt body (c0 + 1)).1.length]? = some (.label (.u cont)) ∧
    CodeAt P (p + 1 + (genStmt body (c0 + 1)).1.length + 1) [.call (.c k), cmpZero, .jne (.begin_ c0)] ∧
    P[p + 1 + (genStmt body (c0 + 1)).1.length + 4]? = some (.label (.u brk)) ∧
    (genStmt (.doWhile brk cont body k) c0).1.length = 1 + (genStmt body (c0 + 1)).1.length + 5 := by
  have hgen : (genStmt (.doWhile brk cont body k) c0).1 =
      [.label (.begin_ c0)] ++ (genStmt body (c0 + 1)).1 ++
        [.label (.u cont), .call (.c k), cmpZero, .jne (.begin_ c0), .label (.u brk)] := by
    simp [genStmt]
  rw [hgen] at hcode ⊢
  have hBegin : P[p]? = some (.label (.begin_ c0)) := hcode.left.left.head
  have hX : CodeAt P (p + 1) (genStmt body (c0 + 1)).1 := hcode.left.right
  have hTail : CodeAt P (p + 1 + (genStmt body (c0 + 1)).1.length)
      [.label (.u cont), .call (.c k), cmpZero, .jne (.begin_ c0), .label (.u brk)] :=
    hcode.right.cast (by simp only [List.length_append, List.length_cons, List.length_nil]; omega)
  have hTest : CodeAt P (p + 1 + (genStmt body (c0 + 1)).1.length + 1) [.call (.c k), cmpZero, .jne (.begin_ c0)] := by
    have h1 : CodeAt P (p + 1 + (genStmt body (c0 + 1)).1.length)
        ([.label (.u cont)] ++ ([.call (.c k), cmpZero, .jne (.begin_ c0)] ++ [.label (.u brk)])) := hTail
    exact h1.right.left
  refine ⟨hBegin, hX, hTail.head, hTest, ?_, ?_⟩
  · have := hTail.get 4 (by simp); simpa using this
  · simp only [List.length_append, List.length_cons, List.length_nil]

theorem switch_layout {P : Prog} {p c0 k : Nat} {w u : Bool} {cases : List CaseEnt} {dflt : Option Nat} {brk : Nat}
    {body : Stmt} (hcode : CodeAt P p (genStmt (.switch_ w u k cases dflt brk body) c0).1) :
    CodeAt P p ([.call (.inp k)] ++ ladder w cases dflt brk) ∧
    CodeAt P (p + (1 + (ladder w cases dflt brk).length)) (genStmt body c0).1 ∧
    P[p + (1 + (ladder w cases dflt brk).length) + (genStmt body c0).1.length]? = some (.label (.u brk)) ∧
    (genStmt (.switch_ w u k cases dflt brk body) c0).1.length =
      (1 + (ladder w cases dflt brk).length) + (genStmt body c0).1.length + 1 := by
  simp only [genStmt] at hcode ⊢
  refine ⟨hcode.left.left, ?_, ?_, ?_⟩
  · exact hcode.left.right.cast (by simp only [List.length_append, List.length_cons, List.length_nil] <;> omega)
  · exact (hcode.right.cast (by simp only [List.length_append, List.length_cons, List.length_nil]; omega)).head
  · simp only [List.length_append, List.length_cons, List.length_nil]

/-! ### the matching relation -/

section
variable (ω : Nat → Val) (P : Prog) (fb : SStmt) (R : Nat → Nat → Prop) (V : Prop)

/-- the machine runs from `q` to `q'` without a call, whatever the observable state -/
def Silent (q q' : Nat) : Prop := ∀ σ, Runs ω P (q, σ) (q', σ)

theorem Silent.refl (q : Nat) : Silent ω P q q := fun σ => Runs.refl ω P _

variable {ω P}
theorem Silent.trans {a b c : Nat} (h1 : Silent ω P a b) (h2 : Silent ω P b c) : Silent ω P a c :=
  fun σ => (h1 σ).trans (h2 σ)

theorem Silent.label {p : Nat} {l : Lbl} (h : P[p]? = some (.label l)) : Silent ω P p (p + 1) :=
  fun _ => Runs.label h

theorem Silent.jmp {p q : Nat} {l : Lbl} (h : P[p]? = some (.jmp l)) (hl : findLabel P l = some q) : Silent ω P p q :=
  fun _ => Runs.jmp h hl
variable (ω P)

/-- what the simulation needs to know about an annotated statement in the context of its
    enclosing constructs (`b`/`ct` = their break / continue labels) -/
def Good (b ct : Option Nat) (st : Stmt) : Prop :=
  Bound b ct st ∧ GotoR R V st ∧ okStmt fb (erase st) = true

/-- `MatchK k q b ct`: started at `q`, the code does what the continuation `k` says; `b`/`ct` are the
    break / continue labels of the innermost loop-or-switch / loop among the frames of `k` -/
inductive MatchK : Cont → Nat → Option Nat → Option Nat → Prop where
  | stop {q q0 : Nat} : Silent ω P q q0 → P[q0]? = some (.label .ret) → MatchK .stop q none none
  | seq {q q0 c : Nat} {st : Stmt} {s : SStmt} {k : Cont} {b ct : Option Nat} :
      Silent ω P q q0 → erase st = s → CodeAt P q0 (genStmt st c).1 → Good fb R V b ct st →
      MatchK k (q0 + (genStmt st c).1.length) b ct → MatchK (.seq s k) q b ct
  | forK {q q0 p0 c0 : Nat} {cnd inc : Option Nat} {brk cont : Nat} {bodyT : Stmt} {body : SStmt} {k : Cont}
      {b ct : Option Nat} :
      Silent ω P q q0 → erase bodyT = body → CodeAt P p0 (genStmt (.for_ none cnd inc brk cont bodyT) c0).1 →
      q0 = p0 + 1 + (condCode cnd brk).length + (genStmt bodyT (c0 + 1)).1.length →
      Good fb R V (some brk) (some cont) bodyT →
      MatchK k (p0 + (genStmt (.for_ none cnd inc brk cont bodyT) c0).1.length) b ct →
      MatchK (.forK cnd inc body k) q (some brk) (some cont)
  | doK {q q0 p0 c0 c : Nat} {brk cont : Nat} {bodyT : Stmt} {body : SStmt} {k : Cont} {b ct : Option Nat} :
      Silent ω P q q0 → erase bodyT = body → CodeAt P p0 (genStmt (.doWhile brk cont bodyT c) c0).1 →
      q0 = p0 + 1 + (genStmt bodyT (c0 + 1)).1.length →
      Good fb R V (some brk) (some cont) bodyT →
      MatchK k (p0 + (genStmt (.doWhile brk cont bodyT c) c0).1.length) b ct →
      MatchK (.doK body c k) q (some brk) (some cont)
  | swK {q q0 brk : Nat} {k : Cont} {b ct : Option Nat} :
      Silent ω P q q0 → P[q0]? = some (.label (.u brk)) → MatchK k (q0 + 1) b ct →
      MatchK (.swK k) q (some brk) ct

/-- the configuration `(s, k)` is at position `p` -/
def MatchS (s : SStmt) (k : Cont) (p : Nat) : Prop :=
  ∃ (st : Stmt) (c : Nat) (b ct : Option Nat), erase st = s ∧ CodeAt P p (genStmt st c).1 ∧ Good fb R V b ct st ∧
    MatchK ω P fb R V k (p + (genStmt st c).1.length) b ct

variable {ω P fb R V}

theorem MatchK.prepend {k : Cont} {q q' : Nat} {b ct : Option Nat} (hs : Silent ω P q' q)
    (h : MatchK ω P fb R V k q b ct) : MatchK ω P fb R V k q' b ct := by
  cases h with
  | stop h1 h2 => exact .stop (hs.trans h1) h2
  | seq h1 h2 h3 h4 h5 => exact .seq (hs.trans h1) h2 h3 h4 h5
  | forK h1 h2 h3 h4 h5 h6 => exact .forK (hs.trans h1) h2 h3 h4 h5 h6
  | doK h1 h2 h3 h4 h5 h6 => exact .doK (hs.trans h1) h2 h3 h4 h5 h6
  | swK h1 h2 h3 => exact .swK (hs.trans h1) h2 h3

/-- `break`: the code after the break label of the innermost enclosing construct matches `breakK k` -/
theorem MatchK.break_ {k : Cont} {q : Nat} {b ct : Option Nat} (h : MatchK ω P fb R V k q b ct) :
    ∀ t, b = some t → ∃ (k' : Cont) (q' : Nat) (b' ct' : Option Nat), breakK k = some k' ∧
      P[q']? = some (.label (.u t)) ∧ MatchK ω P fb R V k' (q' + 1) b' ct' := by
  induction h with
  | stop h1 h2 => intro t ht; cases ht
  | seq h1 h2 h3 h4 h5 ih =>
    intro t ht
    obtain ⟨k', q', b', ct', hk, hq, hm⟩ := ih t ht
    exact ⟨k', q', b', ct', by simpa [breakK] using hk, hq, hm⟩
  | @forK q q0 p0 c0 cnd inc brk cont bodyT body k b ct h1 h2 h3 h4 h5 h6 ih =>
    intro t ht
    simp only [Option.some.injEq] at ht
    subst ht
    obtain ⟨_, _, _, _, _, _, hB, hlen⟩ := for_layout h3
    refine ⟨k, _, b, ct, rfl, hB, ?_⟩
    rw [hlen] at h6
    exact h6.prepend (by
      rw [show p0 + 1 + (condCode cnd brk).length + (genStmt bodyT (c0 + 1)).1.length + 1 + (callOpt inc).length + 1 + 1 =
        p0 + (1 + (condCode cnd brk).length + (genStmt bodyT (c0 + 1)).1.length + 1 + (callOpt inc).length + 2) by omega]
      exact Silent.refl ω P _)
  | @doK q q0 p0 c0 c brk cont bodyT body k b ct h1 h2 h3 h4 h5 h6 ih =>
    intro t ht
    simp only [Option.some.injEq] at ht
    subst ht
    obtain ⟨_, _, _, _, hB, hlen⟩ := do_layout h3
    refine ⟨k, _, b, ct, rfl, hB, ?_⟩
    rw [hlen] at h6
    exact h6.prepend (by
      rw [show p0 + 1 + (genStmt bodyT (c0 + 1)).1.length + 4 + 1 = p0 + (1 + (genStmt bodyT (c0 + 1)).1.length + 5) by omega]
      exact Silent.refl ω P _)
  | @swK q q0 brk k b ct h1 h2 h3 ih =>
    intro t ht
    simp only [Option.some.injEq] at ht
    subst ht
    exact ⟨k, q0, b, ct, rfl, h2, h3⟩

/-- `continue`: the continue label of the innermost enclosing loop is where `contK k` is matched -/
theorem MatchK.continue_ {k : Cont} {q : Nat} {b ct : Option Nat} (h : MatchK ω P fb R V k q b ct) :
    ∀ t, ct = some t → ∃ (k' : Cont) (q' : Nat) (b' ct' : Option Nat), contK k = some k' ∧
      P[q']? = some (.label (.u t)) ∧ MatchK ω P fb R V k' q' b' ct' := by
  induction h with
  | stop h1 h2 => intro t ht; cases ht
  | seq h1 h2 h3 h4 h5 ih =>
    intro t ht
    obtain ⟨k', q', b', ct', hk, hq, hm⟩ := ih t ht
    exact ⟨k', q', b', ct', by simpa [contK] using hk, hq, hm⟩
  | @forK q q0 p0 c0 cnd inc brk cont bodyT body k b ct h1 h2 h3 h4 h5 h6 ih =>
    intro t ht
    simp only [Option.some.injEq] at ht
    subst ht
    obtain ⟨_, _, _, hC, _, _, _, _⟩ := for_layout h3
    exact ⟨_, q0, _, _, rfl, by rw [h4]; exact hC, .forK (Silent.refl ω P _) h2 h3 h4 h5 h6⟩
  | @doK q q0 p0 c0 c brk cont bodyT body k b ct h1 h2 h3 h4 h5 h6 ih =>
    intro t ht
    simp only [Option.some.injEq] at ht
    subst ht
    obtain ⟨_, _, hC, _, _, _⟩ := do_layout h3
    exact ⟨_, q0, _, _, rfl, by rw [h4]; exact hC, .doK (Silent.refl ω P _) h2 h3 h4 h5 h6⟩
  | @swK q q0 brk k b ct h1 h2 h3 ih =>
    intro t ht
    obtain ⟨k', q', b', ct', hk, hq, hm⟩ := ih t ht
    exact ⟨k', q', b', ct', by simpa [contK] using hk, hq, hm⟩

/-! ### `Good` through the statement forms -/

theorem Good.seq {b ct : Option Nat} {x y : Stmt} (h : Good fb R V b ct (.seq x y)) :
    Good fb R V b ct x ∧ Good fb R V b ct y := by
  obtain ⟨h1, h2, h3⟩ := h
  simp only [erase, okStmt, Bool.and_eq_true] at h3
  exact ⟨⟨h1.1, h2.1, h3.1⟩, ⟨h1.2, h2.2, h3.2⟩⟩

theorem Good.block {b ct : Option Nat} {x : Stmt} (h : Good fb R V b ct (.block x)) : Good fb R V b ct x := h

theorem Good.ifte {b ct : Option Nat} {c : Nat} {x y : Stmt} (h : Good fb R V b ct (.ifte c x y)) :
    Good fb R V b ct x ∧ Good fb R V b ct y := by
  obtain ⟨h1, h2, h3⟩ := h
  simp only [erase, okStmt, Bool.and_eq_true] at h3
  exact ⟨⟨h1.1, h2.1, h3.1⟩, ⟨h1.2, h2.2, h3.2⟩⟩

theorem Good.for_ {b ct : Option Nat} {i cnd inc : Option Nat} {brk cont : Nat} {body : Stmt}
    (h : Good fb R V b ct (.for_ i cnd inc brk cont body)) : Good fb R V (some brk) (some cont) body := h

theorem Good.mk_for {b ct : Option Nat} {cnd inc : Option Nat} {brk cont : Nat} {body : Stmt} (i : Option Nat)
    (h : Good fb R V (some brk) (some cont) body) : Good fb R V b ct (.for_ i cnd inc brk cont body) := h

theorem Good.doWhile {b ct : Option Nat} {c : Nat} {brk cont : Nat} {body : Stmt}
    (h : Good fb R V b ct (.doWhile brk cont body c)) : Good fb R V (some brk) (some cont) body := h

theorem Good.mk_do {b ct : Option Nat} {c : Nat} {brk cont : Nat} {body : Stmt}
    (h : Good fb R V (some brk) (some cont) body) : Good fb R V b ct (.doWhile brk cont body c) := h

theorem Good.switch_ {b ct : Option Nat} {w u : Bool} {k : Nat} {cs : List CaseEnt} {d : Option Nat} {brk : Nat} {body : Stmt}
    (h : Good fb R V b ct (.switch_ w u k cs d brk body)) : Good fb R V (some brk) ct body := by
  obtain ⟨h1, h2, h3⟩ := h
  simp only [erase, okStmt, Bool.and_eq_true] at h3
  exact ⟨h1.1, h2, h3.2⟩

theorem Good.case_ {b ct : Option Nat} {l : Nat} {lo hi : Val} {x : Stmt} (h : Good fb R V b ct (.case_ l lo hi x)) :
    Good fb R V b ct x := h

theorem Good.default_ {b ct : Option Nat} {l : Nat} {x : Stmt} (h : Good fb R V b ct (.default_ l x)) :
    Good fb R V b ct x := h

theorem Good.label {b ct : Option Nat} {l u : Nat} {x : Stmt} (h : Good fb R V b ct (.label l u x)) :
    Good fb R V b ct x := h

end

end ChibiVerif.Ctl
