/-
C01: the composition theorem for side-effect-free expressions (`C01_value` in Props/C01.lean), by induction on the
expression through the push/pop stack discipline of `gen_expr`.

`value_pure`: for every expression `compileE` handles, every store, every machine state whose frame holds the store with
at least `depthE e` free stack slots: the code runs, `%rax` represents the C11 value in the C11 type, the store is
unchanged, and `%rsp`, `%rbp` and every byte at or above `%rsp` are unchanged (`Keeps`).
-/
import ChibiVerif.Lemmas.C01Frame

namespace ChibiVerif.C01
open ChibiVerif.X86 ChibiVerif.Asm ChibiVerif.Spec.IntSpec ChibiVerif.Gen.CommonType ChibiVerif.C01Codegen

/-! ### facts about the specification -/

theorem usualArith_comm (a b : ITy) : usualArith a b = usualArith b a := by cases a <;> cases b <;> rfl
theorem usualArith_mem (a b : ITy) :
    usualArith a b = .i32 ∨ usualArith a b = .u32 ∨ usualArith a b = .i64 ∨ usualArith a b = .u64 := by
  cases a <;> cases b <;> decide
theorem usualArith_idem (a b : ITy) : usualArith (usualArith a b) (usualArith a b) = usualArith a b := by
  cases a <;> cases b <;> rfl

theorem convert_promote_of_inRange (t : ITy) (v : Int) (h : t.inRange v) : convert (promote t) v = v := by
  cases t <;>
    simp [promote, ITy.rank, ITy.min, ITy.max, ITy.signed, ITy.bits, convert, wrap, ITy.inRange, Int.bmod_def] at h ⊢ <;>
    (repeat' split) <;> omega

theorem arith_gt_swap (t : ITy) (a b : Int) : arith .gt t a b = arith .lt t b a := by simp [arith]
theorem arith_ge_swap (t : ITy) (a b : Int) : arith .ge t a b = arith .le t b a := by simp [arith]

theorem lit_represents (t : ITy) (v : Int) (h : t.inRange v) : Represents t (BitVec.ofInt 64 (immOf v)) v := by
  refine ⟨h, ?_⟩
  cases t <;> simp only [BitVec.toNat_ofInt, immOf, Int.bmod_def] <;> omega

/-! ### machine steps with symbolic operands -/

theorem lea_step (d : Int) (s : State) :
    X86.step ⟨"lea", [.m d "%rbp", .r "%rax"]⟩ s = some (s.set .rax (s.ea d .rbp)) := rfl

theorem movimm_step (n : Int) (s : State) :
    X86.step ⟨"mov", [.i n, .r "%rax"]⟩ s = some (s.set .rax (BitVec.ofInt 64 n)) := rfl

theorem run_append_some {a b : List Ins} {s s1 s2 : State} (h1 : X86.run a s = some s1) (h2 : X86.run b s1 = some s2) :
    X86.run (a ++ b) s = some s2 := by rw [run_append, h1]; exact h2

theorem run_cons_some {i : Ins} {is : List Ins} {s s1 s2 : State} (h1 : X86.step i s = some s1)
    (h2 : X86.run is s1 = some s2) : X86.run (i :: is) s = some s2 := by
  simp only [X86.run, h1]; exact h2

/-! ### the frame under `push` -/

theorem FrameHolds.push {σ : Env} {off : Nat → Int} {n : Nat} {m s1 : State} (h : FrameHolds σ off (n + 1) m)
    (hrsp : (s1.get .rsp).toNat = (m.get .rsp).toNat - 8) (hrbp : s1.get .rbp = m.get .rbp)
    (hmem : ∀ x : BitVec 64, (x.toNat < (m.get .rsp).toNat - 8 ∨ (m.get .rsp).toNat ≤ x.toNat) → s1.mem x = m.mem x) :
    FrameHolds σ off n s1 := by
  refine ⟨by have := h.1; omega, ?_⟩
  intro i t v ht hv
  obtain ⟨hm, hlo, hhi⟩ := h.2 i t v ht hv
  rw [ea_eq hrbp, hrsp]
  refine ⟨memHolds_congr t m s1 _ v ?_ hm, by omega, hhi⟩
  intro k hk8
  apply hmem
  rw [toNat_add_ofNat _ _ (by omega)]; omega

/-- result of evaluating a piece of code: `%rax` satisfies `R`, nothing at or above `%rsp` moved -/
def Ev (code : List Ins) (m : State) (R : BitVec 64 → Prop) : Prop :=
  ∃ m', X86.run code m = some m' ∧ R (m'.get .rax) ∧ Keeps m m'

/-- continue with a sequence that only touches registers -/
theorem Ev.then {c c2 : List Ins} {m : State} {R R2 : BitVec 64 → Prop} (h : Ev c m R)
    (h2 : ∀ s, R (s.get .rax) → ∃ s', X86.run c2 s = some s' ∧ R2 (s'.get .rax) ∧ Same s s') : Ev (c ++ c2) m R2 := by
  obtain ⟨m1, r1, p1, k1⟩ := h
  obtain ⟨m2, r2, p2, k2⟩ := h2 m1 p1
  exact ⟨m2, run_append_some r1 r2, p2, k1.trans k2.keeps⟩

/-- **the push/pop discipline of a binary node**: right operand, `push`, left operand (one slot deeper), `pop %rdi`,
    operator.  The left operand's code runs below the pushed value and does not disturb it. -/
theorem bin_glue {σ : Env} {off : Nat → Int} {n : Nat} {m : State} (crhs clhs cop : List Ins)
    (Rr Rl Rres : BitVec 64 → Prop)
    (hf : FrameHolds σ off (n + 1) m)
    (hr : Ev crhs m Rr)
    (hl : ∀ m2, FrameHolds σ off n m2 → Ev clhs m2 Rl)
    (hop : ∀ s, Rl (s.get .rax) → Rr (s.get .rdi) → ∃ s', X86.run cop s = some s' ∧ Rres (s'.get .rax) ∧ Same s s') :
    Ev (crhs ++ ([⟨"push", [.r "%rax"]⟩] ++ (clhs ++ ([⟨"pop", [.r "%rdi"]⟩] ++ cop)))) m Rres := by
  obtain ⟨m1, r1, p1, k1⟩ := hr
  have hf1 : FrameHolds σ off (n + 1) m1 := hf.keeps k1
  have h8 : 8 ≤ (m1.get .rsp).toNat := by have := hf1.1; omega
  obtain ⟨m2, r2, sp2, bp2, ax2, top2, spn2, mem2⟩ := push_rax m1 h8
  have hf2 : FrameHolds σ off n m2 := hf1.push spn2 bp2 mem2
  obtain ⟨m3, r3, p3, k3⟩ := hl m2 hf2
  obtain ⟨m4, r4, di4, sp4, bp4, ax4, mem4⟩ := pop_rdi m3
  -- the pushed value is still on top of the stack
  have htop : m3.read64 (m3.get .rsp) = m1.get .rax := by
    rw [k3.rsp, sp2, ← top2]
    refine (read_congr m2 m3 _ ?_).2.2.2
    intro k hk
    apply k3.mem
    rw [sp2, toNat_add_ofNat _ _ (by have := (m1.get .rsp).isLt; rw [← sp2, spn2]; omega)]
    omega
  have hdi : Rr (m4.get .rdi) := by rw [di4, htop]; exact p1
  have hax : Rl (m4.get .rax) := by rw [ax4]; exact p3
  obtain ⟨m5, r5, p5, k5⟩ := hop m4 hax hdi
  refine ⟨m5, run_append_some r1 (run_append_some r2 (run_append_some r3 (run_append_some r4 r5))), p5, ?_⟩
  have hsp : m4.get .rsp = m.get .rsp := by
    rw [sp4, k3.rsp, sp2, k1.rsp]
    apply BitVec.eq_of_toNat_eq
    simp only [BitVec.toNat_add, BitVec.toNat_sub]
    have := (m.get .rsp).isLt
    simp; omega
  refine ⟨k5.rsp.trans hsp, k5.rbp.trans (bp4.trans (k3.rbp.trans (bp2.trans k1.rbp))), ?_⟩
  intro x hx
  have hx1 : (m1.get .rsp).toNat ≤ x.toNat := by rw [k1.rsp]; exact hx
  rw [congrFun k5.mem x, congrFun mem4 x, k3.mem x (by omega), mem2 x (Or.inr hx1), k1.mem x hx]

/-! ### typing and purity of the compiled fragment -/

theorem compileE_typeOf (σ : Env) (off : Nat → Int) (e : E) : ∀ (t : ITy) (code : List Ins),
    compileE σ.tys off e = some (t, code) → typeOf σ e = some t := by
  induction e with
  | lit t0 v0 => intro t code h; simp [compileE] at h; simp [typeOf, h.1]
  | var i =>
    intro t code h
    simp only [compileE, Option.map_eq_some_iff] at h
    obtain ⟨t0, h0, h1⟩ := h
    simp only [Prod.mk.injEq] at h1
    simp [typeOf, Env.ty?, h0, h1.1]
  | cast t0 e ih =>
    intro t code h
    simp only [compileE, Option.map_eq_some_iff] at h
    obtain ⟨⟨te, c⟩, _, h1⟩ := h
    simp only [Prod.mk.injEq] at h1
    simp [typeOf, h1.1]
  | un op e ih =>
    intro t code h
    simp only [compileE, Option.map_eq_some_iff] at h
    obtain ⟨⟨te, c⟩, h0, h1⟩ := h
    have := ih te c h0
    cases op <;> simp only [Prod.mk.injEq] at h1 <;> simp [typeOf, this, unopType, h1.1]
  | bin op a b iha ihb =>
    intro t code h
    simp only [compileE] at h
    cases ha : compileE σ.tys off a with
    | none => simp [ha] at h
    | some pa =>
      cases hb : compileE σ.tys off b with
      | none => simp [ha, hb] at h
      | some pb =>
        obtain ⟨ta, ca⟩ := pa
        obtain ⟨tb, cb⟩ := pb
        simp only [ha, hb, Option.some.injEq, Prod.mk.injEq] at h
        simp [typeOf, iha ta ca ha, ihb tb cb hb, h.1]
  | land a b => intro t code h; simp [compileE] at h
  | lor a b => intro t code h; simp [compileE] at h
  | cond c a b => intro t code h; simp [compileE] at h
  | comma a b => intro t code h; simp [compileE] at h
  | assign i e => intro t code h; simp [compileE] at h
  | opassign op i e => intro t code h; simp [compileE] at h
  | preinc i => intro t code h; simp [compileE] at h
  | predec i => intro t code h; simp [compileE] at h
  | postinc i => intro t code h; simp [compileE] at h
  | postdec i => intro t code h; simp [compileE] at h

/-! ### binary nodes -/

/-- a binary node that is not a shift: both operands converted to the common type -/
theorem bin_arith_ev {σ : Env} {off : Nat → Int} {n : Nat} {m : State} (k : NK) (op : BinOp) (hop : specOp k = some op)
    (hns : op.isShift = false) (ta tb : ITy) (ca cb : List Ins) (va vb x : Int)
    (hf : FrameHolds σ off (n + 1) m)
    (hb : Ev cb m (fun r => Represents tb r vb))
    (ha : ∀ m2, FrameHolds σ off n m2 → Ev ca m2 (fun r => Represents ta r va))
    (hx : binop op ta tb va vb = some x) :
    Ev (cb ++ castSeq tb (binopOperandType op ta tb) ++ [⟨"push", [.r "%rax"]⟩] ++ ca ++
          castSeq ta (binopOperandType op ta tb) ++ [⟨"pop", [.r "%rdi"]⟩] ++ opSeq k (binopOperandType op ta tb)) m
      (fun r => Represents (binopType op ta tb) r x) := by
  have ht : binopOperandType op ta tb = usualArith ta tb := by simp [binopOperandType, hns]
  simp only [binop, hns, Bool.false_eq_true, if_false] at hx
  rw [ht] at hx ⊢
  have hres : binopType op (usualArith ta tb) (usualArith ta tb) = binopType op ta tb := by
    simp only [binopType, binopOperandType, hns, Bool.false_eq_true, if_false, usualArith_idem]
  simp only [List.append_assoc]
  rw [← List.append_assoc cb, ← List.append_assoc ca]
  refine bin_glue (cb ++ castSeq tb _) (ca ++ castSeq ta _) _ (fun r => Represents (usualArith ta tb) r (convert (usualArith ta tb) vb))
    (fun r => Represents (usualArith ta tb) r (convert (usualArith ta tb) va)) _ hf ?_ ?_ ?_
  · exact hb.then (fun s hs => cast_run tb _ s vb hs)
  · exact fun m2 hf2 => (ha m2 hf2).then (fun s hs => cast_run ta _ s va hs)
  · intro s hax hdi
    have := binop_run k op hop hns _ (usualArith_mem ta tb) s _ _ x hax hdi hx
    rw [hres] at this
    exact this

/-- a shift: the left operand is promoted, the right operand is left alone -/
theorem bin_shift_ev {σ : Env} {off : Nat → Int} {n : Nat} {m : State} (k : NK) (op : BinOp) (hop : specOp k = some op)
    (hs : op.isShift = true) (ta tb : ITy) (ca cb : List Ins) (va vb x : Int)
    (hf : FrameHolds σ off (n + 1) m)
    (hb : Ev cb m (fun r => Represents tb r vb))
    (ha : ∀ m2, FrameHolds σ off n m2 → Ev ca m2 (fun r => Represents ta r va))
    (hx : binop op ta tb va vb = some x) :
    Ev (cb ++ [⟨"push", [.r "%rax"]⟩] ++ ca ++
          castSeq ta (binopOperandType op ta tb) ++ [⟨"pop", [.r "%rdi"]⟩] ++ opSeq k (binopOperandType op ta tb)) m
      (fun r => Represents (binopType op ta tb) r x) := by
  have ht : binopOperandType op ta tb = promote ta := by simp [binopOperandType, hs]
  have hrel : op.isRel = false := by cases op <;> simp [BinOp.isShift] at hs <;> rfl
  simp only [binop, hs, if_true] at hx
  have hres : binopType op ta tb = promote ta := by simp [binopType, hrel, ht]
  rw [ht] at hx ⊢
  rw [hres]
  simp only [List.append_assoc]
  rw [← List.append_assoc ca]
  refine bin_glue cb (ca ++ castSeq ta _) _ (fun r => Represents tb r vb)
    (fun r => Represents (promote ta) r (convert (promote ta) va)) _ hf hb ?_ ?_
  · exact fun m2 hf2 => (ha m2 hf2).then (fun s hs => cast_run ta _ s va hs)
  · intro s hax hdi
    rw [convert_promote_of_inRange tb vb hdi.1] at hx
    exact shift_run k op hop hs _ (promote_mem ta) tb s _ _ x hax hdi hx

theorem specOp_nodeOf (op : BinOp) (h : (nodeOf op).2 = false) : specOp (nodeOf op).1 = some op := by
  cases op <;> simp [nodeOf] at h <;> rfl

theorem bin_arith_ev' {σ : Env} {off : Nat → Int} {n : Nat} {m : State} {op : BinOp} {ta tb : ITy} {va vb x : Int}
    (hx : binop op ta tb va vb = some x) (hsw : (nodeOf op).2 = false) (hns : op.isShift = false) (ca cb : List Ins)
    (hf : FrameHolds σ off (n + 1) m)
    (hb : Ev cb m (fun r => Represents tb r vb))
    (ha : ∀ m2, FrameHolds σ off n m2 → Ev ca m2 (fun r => Represents ta r va)) :
    Ev (cb ++ castSeq tb (binopOperandType op ta tb) ++ [⟨"push", [.r "%rax"]⟩] ++ ca ++
          castSeq ta (binopOperandType op ta tb) ++ [⟨"pop", [.r "%rdi"]⟩] ++
          opSeq (nodeOf op).1 (binopOperandType op ta tb)) m
      (fun r => Represents (binopType op ta tb) r x) :=
  bin_arith_ev (nodeOf op).1 op (specOp_nodeOf op hsw) hns ta tb ca cb va vb x hf hb ha hx

/-- **value of every side-effect-free expression** -/
theorem value_pure (σ : Env) (off : Nat → Int) (e : E) : ∀ (t : ITy) (code : List Ins) (v : Int) (σ' : Env) (m : State) (n : Nat),
    compileE σ.tys off e = some (t, code) → evalE σ e = some (v, σ') → depthE e ≤ n → FrameHolds σ off n m →
    σ' = σ ∧ Ev code m (fun r => Represents t r v) := by
  induction e with
  | lit t0 v0 =>
    intro t code v σ' m n hc hv hd hf
    simp only [compileE, Option.some.injEq, Prod.mk.injEq] at hc
    obtain ⟨rfl, rfl⟩ := hc
    simp only [evalE] at hv
    split at hv
    · rename_i hr
      simp only [Option.some.injEq, Prod.mk.injEq] at hv
      obtain ⟨rfl, rfl⟩ := hv
      refine ⟨rfl, _, run_cons_some (movimm_step _ _) rfl, ?_, (same_set _ _ _ rfl).keeps⟩
      rw [State.get_set_same]; exact lit_represents _ _ hr
    · simp at hv
  | var i =>
    intro t code v σ' m n hc hv hd hf
    simp only [compileE, Option.map_eq_some_iff] at hc
    obtain ⟨t0, h0, h1⟩ := hc
    simp only [Prod.mk.injEq] at h1
    obtain ⟨rfl, rfl⟩ := h1
    simp only [evalE, Env.val?, Option.map_eq_some_iff] at hv
    obtain ⟨v0, hv0, h2⟩ := hv
    simp only [Prod.mk.injEq] at h2
    obtain ⟨rfl, rfl⟩ := h2
    obtain ⟨hm, hlo, hhi⟩ := hf.2 i t0 v0 h0 hv0
    have hm1 : MemHolds t0 (m.set .rax (m.ea (off i) .rbp)) ((m.set .rax (m.ea (off i) .rbp)).get .rax) v0 := by
      rw [State.get_set_same]; exact memHolds_congr t0 m _ _ _ (fun _ _ => rfl) hm
    obtain ⟨m2, r2, p2, _⟩ := load_ok t0 _ v0 hm1
    have s2 := run_safe _ _ _ (loadSeq_safe t0) r2
    exact ⟨rfl, m2, run_cons_some (lea_step _ _) r2, p2, ((same_set m .rax _ rfl).trans s2).keeps⟩
  | cast t0 e ih =>
    intro t code v σ' m n hc hv hd hf
    simp only [compileE, Option.map_eq_some_iff] at hc
    obtain ⟨⟨te, c⟩, h0, h1⟩ := hc
    simp only [Prod.mk.injEq] at h1
    obtain ⟨rfl, rfl⟩ := h1
    simp only [evalE] at hv
    cases he : evalE σ e with
    | none => simp [he] at hv
    | some p =>
      obtain ⟨v1, σ1⟩ := p
      simp [he] at hv
      obtain ⟨rfl, rfl⟩ := hv
      obtain ⟨hσ, hev⟩ := ih te c v1 σ1 m n h0 he (by simpa [depthE] using hd) hf
      exact ⟨hσ, hev.then (fun s hs => cast_run te t0 s v1 hs)⟩
  | un op e ih =>
    intro t code v σ' m n hc hv hd hf
    simp only [compileE, Option.map_eq_some_iff] at hc
    obtain ⟨⟨te, c⟩, h0, h1⟩ := hc
    have hty := compileE_typeOf σ off e te c h0
    simp only [evalE, hty] at hv
    cases he : evalE σ e with
    | none => simp [he] at hv
    | some p =>
      obtain ⟨v1, σ1⟩ := p
      simp [he, Option.bind_eq_some_iff] at hv
      obtain ⟨x, hx, rfl, rfl⟩ := hv
      obtain ⟨hσ, hev⟩ := ih te c v1 σ1 m n h0 he (by simpa [depthE] using hd) hf
      refine ⟨hσ, ?_⟩
      cases op with
      | plus =>
        simp only [Prod.mk.injEq] at h1
        obtain ⟨rfl, rfl⟩ := h1
        simp only [unop, Option.some.injEq] at hx
        subst hx
        exact hev.then (fun s hs => cast_run te _ s v1 hs)
      | lognot =>
        simp only [Prod.mk.injEq] at h1
        obtain ⟨rfl, rfl⟩ := h1
        simp only [unop, Option.some.injEq] at hx
        subst hx
        exact hev.then (fun s hs => lognot_run te s v1 hs)
      | neg =>
        simp only [Prod.mk.injEq] at h1
        obtain ⟨rfl, rfl⟩ := h1
        rw [unop_promote .neg (by decide)] at hx
        exact (hev.then (R2 := fun r => Represents (promote te) r (convert (promote te) v1))
          (fun s hs => cast_run te _ s v1 hs)).then (fun s hs => neg_run _ (promote_mem te) s _ x hs hx)
      | bitnot =>
        simp only [Prod.mk.injEq] at h1
        obtain ⟨rfl, rfl⟩ := h1
        rw [unop_promote .bitnot (by decide)] at hx
        exact (hev.then (R2 := fun r => Represents (promote te) r (convert (promote te) v1))
          (fun s hs => cast_run te _ s v1 hs)).then (fun s hs => bitnot_run _ (promote_mem te) s _ x hs hx)
  | bin op a b iha ihb =>
    intro t code v σ' m n hc hv hd hf
    simp only [compileE] at hc
    cases ha : compileE σ.tys off a with
    | none => simp [ha] at hc
    | some pa =>
      cases hb : compileE σ.tys off b with
      | none => simp [ha, hb] at hc
      | some pb =>
        obtain ⟨ta, ca⟩ := pa
        obtain ⟨tb, cb⟩ := pb
        simp only [ha, hb, Option.some.injEq, Prod.mk.injEq] at hc
        have hta := compileE_typeOf σ off a ta ca ha
        have htb := compileE_typeOf σ off b tb cb hb
        simp only [evalE, hta, htb] at hv
        cases hea : evalE σ a with
        | none => simp [hea] at hv
        | some p =>
          obtain ⟨va, σ1⟩ := p
          -- at least one slot
          obtain ⟨n', rfl⟩ : ∃ n', n = n' + 1 := by
            refine ⟨n - 1, ?_⟩
            simp only [depthE] at hd
            split at hd <;> omega
          have hda : depthE a ≤ n' + 1 := by simp only [depthE] at hd; split at hd <;> omega
          have hdb : depthE b ≤ n' + 1 := by simp only [depthE] at hd; split at hd <;> omega
          obtain ⟨rfl, _⟩ := iha ta ca va σ1 m (n' + 1) ha hea hda hf
          simp [hea] at hv
          cases heb : evalE σ1 b with
          | none => simp [heb] at hv
          | some q =>
            obtain ⟨vb, σ2⟩ := q
            obtain ⟨rfl, _⟩ := ihb tb cb vb σ2 m (n' + 1) hb heb hdb hf
            simp [heb, Option.bind_eq_some_iff] at hv
            obtain ⟨x, hx, rfl, rfl⟩ := hv
            refine ⟨rfl, ?_⟩
            obtain ⟨rfl, rfl⟩ := hc
            have evA := fun (k : Nat) (hk : depthE a ≤ k) (m2 : State) (hf2 : FrameHolds σ2 off k m2) =>
              (iha ta ca va σ2 m2 k ha hea hk hf2).2
            have evB := fun (k : Nat) (hk : depthE b ≤ k) (m2 : State) (hf2 : FrameHolds σ2 off k m2) =>
              (ihb tb cb vb σ2 m2 k hb heb hk hf2).2
            cases op
            case gt =>
              have hd' : depthE b ≤ n' := by simp [depthE, nodeOf] at hd; omega
              have hx' : binop .lt tb ta vb va = some x := by
                simpa [binop, binopOperandType, BinOp.isShift, usualArith_comm tb ta, arith] using hx
              have := bin_arith_ev .ND_LT .lt rfl rfl tb ta cb ca vb va x hf (evA _ hda m hf) (evB n' hd') hx'
              simpa [nodeOf, BinOp.isShift, binopOperandType, binopType, BinOp.isRel] using this
            case ge =>
              have hd' : depthE b ≤ n' := by simp [depthE, nodeOf] at hd; omega
              have hx' : binop .le tb ta vb va = some x := by
                simpa [binop, binopOperandType, BinOp.isShift, usualArith_comm tb ta, arith] using hx
              have := bin_arith_ev .ND_LE .le rfl rfl tb ta cb ca vb va x hf (evA _ hda m hf) (evB n' hd') hx'
              simpa [nodeOf, BinOp.isShift, binopOperandType, binopType, BinOp.isRel] using this
            case shl =>
              have hd' : depthE a ≤ n' := by simp [depthE, nodeOf] at hd; omega
              have := bin_shift_ev .ND_SHL .shl rfl rfl ta tb ca cb va vb x hf (evB _ hdb m hf) (evA n' hd') hx
              simpa [nodeOf, BinOp.isShift] using this
            case shr =>
              have hd' : depthE a ≤ n' := by simp [depthE, nodeOf] at hd; omega
              have := bin_shift_ev .ND_SHR .shr rfl rfl ta tb ca cb va vb x hf (evB _ hdb m hf) (evA n' hd') hx
              simpa [nodeOf, BinOp.isShift] using this
            all_goals
              have hd' : depthE a ≤ n' := by simp [depthE, nodeOf] at hd; omega
              have := bin_arith_ev' hx rfl rfl ca cb hf (evB _ hdb m hf) (evA n' hd')
              simpa [nodeOf, BinOp.isShift] using this
  | land a b => intro t code v σ' m n hc; simp [compileE] at hc
  | lor a b => intro t code v σ' m n hc; simp [compileE] at hc
  | cond c a b => intro t code v σ' m n hc; simp [compileE] at hc
  | comma a b => intro t code v σ' m n hc; simp [compileE] at hc
  | assign i e => intro t code v σ' m n hc; simp [compileE] at hc
  | opassign op i e => intro t code v σ' m n hc; simp [compileE] at hc
  | preinc i => intro t code v σ' m n hc; simp [compileE] at hc
  | predec i => intro t code v σ' m n hc; simp [compileE] at hc
  | postinc i => intro t code v σ' m n hc; simp [compileE] at hc
  | postdec i => intro t code v σ' m n hc; simp [compileE] at hc


/-! ### a concrete instance (non-vacuity of `C01_value`): `v0 + v1 * 2 > -(long)5 - v0` with `signed char v0 = -3`, `unsigned v1 = 7` -/

def exEnv : Env := ⟨[.i8, .u32], [-3, 7]⟩
def exOff : Nat → Int := fun i => -8 * ((i : Int) + 1)
def exE : E :=
  .bin .gt (.bin .add (.var 0) (.bin .mul (.var 1) (.lit .i32 2))) (.bin .sub (.un .neg (.cast .i64 (.lit .i32 5))) (.var 0))
/-- `%rsp` = 0x1000, `%rbp` = 0x2000, `v0` (one byte 0xfd) at -8(%rbp), `v1` (7,0,0,0) at -16(%rbp) -/
def exState : State :=
  { regs := fun r => match r with | .rsp => 0x1000#64 | .rbp => 0x2000#64 | _ => 0xdeadbeef#64,
    mem := fun a => if a = 0x1ff8#64 then 0xfd#8 else if a = 0x1ff0#64 then 7#8 else 0#8 }

theorem exFrame : FrameHolds exEnv exOff (depthE exE) exState := by
  refine ⟨by decide, ?_⟩
  intro i t v ht hv
  match i with
  | 0 =>
    simp [exEnv] at ht hv; subst ht; subst hv
    exact ⟨⟨by decide, by decide⟩, by decide, by decide⟩
  | 1 =>
    simp [exEnv] at ht hv; subst ht; subst hv
    exact ⟨⟨by decide, by decide⟩, by decide, by decide⟩
  | k + 2 => simp [exEnv] at ht

end ChibiVerif.C01
