/-
C20: freshness of the labels `gen_expr`/`gen_stmt` make up from the monotone counter `count()`.

* `ctr tag k` — the label `.L.<tag>.<k>`; injective in (tag, k), never spelled like a parser label or
  like `.L.return.*`.
* `LabsR ss own lo hi` — the labels a skeleton `ss` defines, for code printed while `count()` went
  from `lo` to `hi`: those spelled like counter labels are, up to order, `own` (labels of the
  enclosing arm, whose number was drawn before `lo`) followed by pairwise distinct labels with
  numbers in [lo, hi); every other label is a numeric local label (`1:`) or a parser label.
  Closed under concatenation of code printed one after the other.
-/
import ChibiVerif.Model.C20Flow
import Std.Data.String.ToNat

namespace ChibiVerif.Lemmas.C20
open ChibiVerif ChibiVerif.Codegen ChibiVerif.Effect ChibiVerif.Asm ChibiVerif.Ast ChibiVerif.C20Scope

/-- `.L.<tag>.<k>` (`tag` is one of `ctrTags`, written with its dots) -/
def ctr (tag : String) (k : Nat) : String := tag ++ toString k

theorem toList_toString_nat (k : Nat) : (toString k).toList = Nat.toDigits 10 k := by
  show (Nat.repr k).toList = _
  rw [Nat.repr_eq_ofList_toDigits, String.toList_ofList]

theorem digits_all (k : Nat) : ∀ c ∈ (toString k).toList, c.isDigit = true := by
  intro c hc
  rw [toList_toString_nat] at hc
  exact Nat.isDigit_of_mem_toDigits (by decide) (by decide) hc

theorem takeWhile_append_of {p : Char → Bool} : ∀ (a x : List Char), (∀ c ∈ a, p c = true) →
    (∀ c ∈ x, p c = false) → (a ++ x).takeWhile p = a
  | [], [], _, _ => rfl
  | [], c :: x, _, hx => by
    have := hx c List.mem_cons_self
    simp [List.takeWhile, this]
  | c :: a, x, ha, hx => by
    have h1 := ha c List.mem_cons_self
    simp only [List.cons_append, List.takeWhile, h1]
    rw [takeWhile_append_of a x (fun d hd => ha d (List.mem_cons_of_mem _ hd)) hx]

theorem tag_no_digit : ∀ t ∈ ctrTags, ∀ c ∈ t.toList, (!c.isDigit) = true := by decide

theorem ctr_toList (t : String) (k : Nat) : (ctr t k).toList = t.toList ++ (toString k).toList := by
  unfold ctr
  rw [String.toList_append]

theorem ctr_inj {t t' : String} {k k' : Nat} (ht : t ∈ ctrTags) (ht' : t' ∈ ctrTags)
    (h : ctr t k = ctr t' k') : t = t' ∧ k = k' := by
  have hl : t.toList ++ (toString k).toList = t'.toList ++ (toString k').toList := by
    rw [← ctr_toList, ← ctr_toList, h]
  have e1 := takeWhile_append_of (p := fun c => !c.isDigit) t.toList (toString k).toList (tag_no_digit t ht)
    (fun c hc => by simp [digits_all k c hc])
  have e2 := takeWhile_append_of (p := fun c => !c.isDigit) t'.toList (toString k').toList (tag_no_digit t' ht')
    (fun c hc => by simp [digits_all k' c hc])
  rw [hl, e2] at e1
  have ett : t = t' := by
    rw [← String.ofList_toList (s := t), ← String.ofList_toList (s := t'), e1]
  subst ett
  refine ⟨rfl, ?_⟩
  have := List.append_cancel_left hl
  have hs : toString k = toString k' := by
    rw [← String.ofList_toList (s := toString k), ← String.ofList_toList (s := toString k'), this]
  exact Nat.repr_inj.mp hs

theorem isPrefixOf_append_left (a b : List Char) : a.isPrefixOf (a ++ b) = true :=
  List.isPrefixOf_iff_prefix.mpr (List.prefix_append _ _)

theorem isCtr_ctr {t : String} (ht : t ∈ ctrTags) (k : Nat) : isCtr (ctr t k) = true := by
  unfold isCtr
  rw [List.any_eq_true]
  exact ⟨t, ht, by rw [ctr_toList]; exact isPrefixOf_append_left _ _⟩

theorem startsDot_of_tag : ∀ t ∈ ctrTags, startsDot t = true := by decide

theorem startsDot_append' (a b : String) (h : startsDot a = true) : startsDot (a ++ b) = true := by
  unfold startsDot at h ⊢
  rw [String.toList_append]
  split at h
  · rename_i rest hl
    rw [hl]
    rfl
  · cases h

theorem startsDot_ctr {t : String} (ht : t ∈ ctrTags) (k : Nat) : startsDot (ctr t k) = true :=
  startsDot_append' _ _ (startsDot_of_tag t ht)

/-- no label of `count()` is spelled `.L.return.*` -/
theorem ctr_not_return {t : String} (ht : t ∈ ctrTags) (k : Nat) : isReturnLabel (ctr t k) = false := by
  unfold isReturnLabel
  rw [ctr_toList]
  simp only [ctrTags, List.mem_cons, List.not_mem_nil, or_false] at ht
  rcases ht with rfl | rfl | rfl | rfl | rfl <;> rfl

theorem isCtr_not_return {l : String} (h : isCtr l = true) : isReturnLabel l = false := by
  unfold isCtr at h
  rw [List.any_eq_true] at h
  obtain ⟨t, ht, hp⟩ := h
  obtain ⟨r, hr⟩ := List.isPrefixOf_iff_prefix.mp hp
  unfold isReturnLabel
  rw [← hr]
  simp only [ctrTags, List.mem_cons, List.not_mem_nil, or_false] at ht
  rcases ht with rfl | rfl | rfl | rfl | rfl <;> rfl

theorem isCtr_startsDot {l : String} (h : isCtr l = true) : startsDot l = true := by
  unfold isCtr at h
  rw [List.any_eq_true] at h
  obtain ⟨t, ht, hp⟩ := h
  obtain ⟨r, hr⟩ := List.isPrefixOf_iff_prefix.mp hp
  unfold startsDot
  rw [← hr]
  simp only [ctrTags, List.mem_cons, List.not_mem_nil, or_false] at ht
  rcases ht with rfl | rfl | rfl | rfl | rfl <;> rfl

theorem userLabel_elim {l : String} (h : userLabel l = true) :
    startsDot l = true ∧ isCtr l = false ∧ isReturnLabel l = false := by
  have := by simpa [userLabel] using h
  exact ⟨this.1.1, this.1.2, this.2⟩

/-! ### the labels of a skeleton -/

/-- the labels of a skeleton spelled like counter labels -/
def ctrLabels (ss : List Step) : List String := (labelNames ss).filter isCtr

/-- `l` is a counter label whose number is in [lo, hi) -/
def InRange (lo hi : Nat) (l : String) : Prop := ∃ t, t ∈ ctrTags ∧ ∃ k, l = ctr t k ∧ lo ≤ k ∧ k < hi

/-- every label is a counter label, a numeric local label or a parser label -/
def LabOK (ss : List Step) : Prop :=
  ∀ l, l ∈ labelNames ss → isCtr l = true ∨ isNumLabel l = true ∨ userLabel l = true

/-- see the head of this file -/
def LabsR (ss : List Step) (own : List String) (lo hi : Nat) : Prop :=
  lo ≤ hi ∧ LabOK ss ∧
    ∃ F : List String, (ctrLabels ss).Perm (own ++ F) ∧ F.Nodup ∧ ∀ l, l ∈ F → InRange lo hi l

theorem labelNames_append' (a b : List Step) : labelNames (a ++ b) = labelNames a ++ labelNames b := by
  induction a with
  | nil => rfl
  | cons s r ih => cases s <;> simp [labelNames, ih]

theorem ctrLabels_append (a b : List Step) : ctrLabels (a ++ b) = ctrLabels a ++ ctrLabels b := by
  simp [ctrLabels, labelNames_append']

theorem perm_4 (a b c d : List String) : ((a ++ b) ++ (c ++ d)).Perm ((a ++ c) ++ (b ++ d)) := by
  simp only [List.append_assoc]
  refine List.Perm.append_left a ?_
  rw [← List.append_assoc, ← List.append_assoc]
  exact List.Perm.append_right d List.perm_append_comm

theorem LabsR_append {a b : List Step} {own1 own2 : List String} {lo mid hi : Nat}
    (h1 : LabsR a own1 lo mid) (h2 : LabsR b own2 mid hi) : LabsR (a ++ b) (own1 ++ own2) lo hi := by
  obtain ⟨l1, k1, F1, p1, n1, r1⟩ := h1
  obtain ⟨l2, k2, F2, p2, n2, r2⟩ := h2
  refine ⟨Nat.le_trans l1 l2, ?_, F1 ++ F2, ?_, ?_, ?_⟩
  · intro l hl
    rw [labelNames_append', List.mem_append] at hl
    rcases hl with hl | hl
    · exact k1 l hl
    · exact k2 l hl
  · rw [ctrLabels_append]
    exact (List.Perm.append p1 p2).trans (perm_4 own1 F1 own2 F2)
  · rw [List.nodup_append]
    refine ⟨n1, n2, ?_⟩
    intro x hx y hy hxy
    subst hxy
    obtain ⟨t, ht, k, e, _, hk⟩ := r1 x hx
    obtain ⟨t', ht', k', e', hk', _⟩ := r2 x hy
    have := (ctr_inj ht ht' (e ▸ e')).2
    omega
  · intro l hl
    rcases List.mem_append.mp hl with hl | hl
    · obtain ⟨t, ht, k, e, h3, h4⟩ := r1 l hl
      exact ⟨t, ht, k, e, h3, by omega⟩
    · obtain ⟨t, ht, k, e, h3, h4⟩ := r2 l hl
      exact ⟨t, ht, k, e, by omega, h4⟩

theorem labelNames_deltas' (ds : List H) : labelNames (ds.map Step.delta) = [] := by
  induction ds with
  | nil => rfl
  | cons d r ih => simpa [labelNames] using ih

/-- a skeleton without labels -/
theorem LabsR_noLabels {ss : List Step} {lo hi : Nat} (h : labelNames ss = []) (hl : lo ≤ hi) :
    LabsR ss [] lo hi := by
  refine ⟨hl, ?_, [], ?_, List.nodup_nil, fun l hm => (List.not_mem_nil hm).elim⟩
  · intro l hm
    rw [h] at hm
    cases hm
  · simp [ctrLabels, h]

/-- one label of the enclosing arm -/
theorem LabsR_own {t : String} (ht : t ∈ ctrTags) (k n : Nat) : LabsR [.label (ctr t k)] [ctr t k] n n := by
  refine ⟨Nat.le_refl _, ?_, [], ?_, List.nodup_nil, fun l hm => (List.not_mem_nil hm).elim⟩
  · intro l hm
    simp only [labelNames, List.mem_singleton] at hm
    subst hm
    exact Or.inl (isCtr_ctr ht k)
  · simp [ctrLabels, labelNames, isCtr_ctr ht k]

/-- one parser label -/
theorem LabsR_user {l : String} (hu : userLabel l = true) (n : Nat) : LabsR [.label l] [] n n := by
  refine ⟨Nat.le_refl _, ?_, [], ?_, List.nodup_nil, fun l hm => (List.not_mem_nil hm).elim⟩
  · intro l' hm
    simp only [labelNames, List.mem_singleton] at hm
    subst hm
    exact Or.inr (Or.inr hu)
  · simp [ctrLabels, labelNames, (userLabel_elim hu).2.1]

/-- numeric local labels only -/
theorem LabsR_numeric {ss : List Step} {lo hi : Nat} (h : ∀ l, l ∈ labelNames ss → isNumLabel l = true ∧ isCtr l = false)
    (hl : lo ≤ hi) : LabsR ss [] lo hi := by
  refine ⟨hl, fun l hm => Or.inr (Or.inl (h l hm).1), [], ?_, List.nodup_nil,
    fun l hm => (List.not_mem_nil hm).elim⟩
  have : ctrLabels ss = [] := by
    unfold ctrLabels
    rw [List.filter_eq_nil_iff]
    intro l hm
    simp [(h l hm).2]
  rw [this]
  exact List.Perm.refl _

/-- closing an arm: the labels the arm drew from `count()` (number `k`, the counter value at its
    start) join the fresh ones -/
theorem LabsR_close {ss : List Step} {own : List String} {k hi : Nat} (h : LabsR ss own (k + 1) hi)
    (hn : own.Nodup) (ho : ∀ l, l ∈ own → ∃ t, t ∈ ctrTags ∧ l = ctr t k) : LabsR ss [] k hi := by
  obtain ⟨hle, hok, F, hp, hnF, hr⟩ := h
  refine ⟨by omega, hok, own ++ F, by simpa using hp, ?_, ?_⟩
  · rw [List.nodup_append]
    refine ⟨hn, hnF, ?_⟩
    intro x hx y hy hxy
    subst hxy
    obtain ⟨t, ht, e⟩ := ho x hx
    obtain ⟨t', ht', k', e', hk', _⟩ := hr x hy
    have := (ctr_inj ht ht' (e ▸ e')).2
    omega
  · intro l hl
    rcases List.mem_append.mp hl with hl | hl
    · obtain ⟨t, ht, e⟩ := ho l hl
      exact ⟨t, ht, k, e, Nat.le_refl _, by omega⟩
    · obtain ⟨t, ht, k', e, h3, h4⟩ := hr l hl
      exact ⟨t, ht, k', e, by omega, h4⟩

/-- widen the range -/
theorem LabsR_mono {ss : List Step} {own : List String} {lo hi lo' hi' : Nat} (h : LabsR ss own lo hi)
    (h1 : lo' ≤ lo) (h2 : hi ≤ hi') : LabsR ss own lo' hi' := by
  obtain ⟨hle, hok, F, hp, hnF, hr⟩ := h
  refine ⟨by omega, hok, F, hp, hnF, ?_⟩
  intro l hl
  obtain ⟨t, ht, k, e, h3, h4⟩ := hr l hl
  exact ⟨t, ht, k, e, by omega, by omega⟩

end ChibiVerif.Lemmas.C20
