/-
C02: from the machine effect of each cast-table cell (Lemmas/FpCellLemmas) to "the cell chosen for (from, to) implements the
C11 conversion" (`select`).  The integer side is exact BitVec/Int arithmetic; the floating side is one application of
an `FpuSpec` contract.

`Holds t s x`: the value `x` of type `t` is where `gen_expr` leaves it: integers in %rax under the representation invariant
of codegen.c (`RInt`, the same as C01's `Represents`), a float in the low 32 bits of %xmm0, a double in %xmm0, a long
double in %st(0).
-/
import ChibiVerif.Lemmas.FpFlagLemmas
import ChibiVerif.Lemmas.FpRoundLemmas

set_option linter.unusedSimpArgs false
set_option linter.unusedVariables false

namespace ChibiVerif.Fp
open ChibiVerif.Asm ChibiVerif.X86 ChibiVerif.Spec.Fpu ChibiVerif.FpCodegen ChibiVerif.Spec.FpC11
open ChibiVerif.Spec.IntSpec ChibiVerif.Gen.CommonType ChibiVerif.Gen.CastTable

/-- the chibicc type descriptor of each of the twelve arithmetic types -/
def descr : ATy → TyD
  | .int .bool => ty_bool | .int .i8 => ty_char | .int .i16 => ty_short | .int .i32 => ty_int | .int .i64 => ty_long
  | .int .u8 => ty_uchar | .int .u16 => ty_ushort | .int .u32 => ty_uint | .int .u64 => ty_ulong
  | .f32 => ty_float | .f64 => ty_double | .f80 => ty_ldouble

/-- the instructions `cast(from, to)` prints (generated table, or the `_Bool` sequence) -/
def castSeq (f t : ATy) : List Ins := instrsOf (FpCodegen.cast (descr f) (descr t))

/-- representation invariant of integers in %rax (comment above `load` in codegen.c) -/
def RInt (t : ITy) (r : BitVec 64) (v : Int) : Prop :=
  t.inRange v ∧
  match t with
  | .i64 | .u64 | .bool => (r.toNat : Int) = v % 18446744073709551616
  | _ => ((r.toNat % 4294967296 : Nat) : Int) = v % 4294967296

def Holds (t : ATy) (s : FState) (x : AVal) : Prop :=
  match t, x with
  | .int t, .int v => RInt t (s.x.get .rax) v
  | .f32, .f32 b => s.xmm0.setWidth 32 = b
  | .f64, .f64 b => s.xmm0 = b
  | .f80, .f80 b => ∃ rest, s.st = b :: rest
  | _, _ => False

/-- the x87 stack below the operand -/
def stBelow (t : ATy) (s : FState) : List (BitVec 80) := if t = .f80 then s.st.tail else s.st

/-- the two cells that do x87 *arithmetic* (`fadds` of 2^64 after `fildq`; `fsub` of 2^63 before `fistpq`): their results
    are exact only in double extended precision, the x87 precision the psABI prescribes (control word 0x37f) -/
def usesX87Arith (frm to : ATy) : Bool :=
  (frm == .int .u64 && to == .f80) || (frm == .f80 && to == .int .u64)

macro "fp_ints" : tactic => `(tactic| (
  try simp only [BitVec.toInt_eq_toNat_cond, BitVec.toNat_setWidth, BitVec.toNat_signExtend, BitVec.msb_eq_decide,
             BitVec.toNat_add, BitVec.toNat_sub, BitVec.toNat_neg, BitVec.toNat_not, BitVec.toNat_ofNat, BitVec.toNat_ofInt,
             BitVec.toNat_eq, Int.bmod_def] at *
  try simp at *
  repeat' split
  all_goals (first | omega | (simp at * <;> omega) | (simp at *; done))))

macro "unfold_rint" : tactic => `(tactic|
  simp [RInt, ITy.inRange, ITy.min, ITy.max, ITy.signed, ITy.bits] at *)

theorem truncTo_fit (n : Nat) (v : Val) (i : Int) (h : v.trunc? = some i)
    (lo : -(2 ^ (n - 1) : Int) ≤ i) (hi : i < 2 ^ (n - 1)) : truncTo n v = BitVec.ofInt n i := by
  simp [truncTo, h, lo, hi]

theorem fpToInt_some (t : ITy) (ht : t ≠ .bool) (v : Val) (i : Int) (h : fpToInt t v = some i) :
    v.trunc? = some i ∧ t.inRange i := by
  cases t <;> simp [fpToInt] at h ht ⊢ <;>
    (cases hv : v.trunc? <;> simp [hv] at h <;> (obtain ⟨h1, h2⟩ := h; subst h2; exact ⟨rfl, h1⟩))


/-! ### unsigned long at ≥ 2^63: comparison with the constant 2^63, the top bit, round-to-odd -/

/-- CF after comparing with a constant that denotes 2^63: set exactly when the integral part is below 2^63 -/
theorem cf_two63 (v : Val) (M E : Nat) (hK : M * 2 ^ E = 9223372036854775808) (t : Int) (ht : v.trunc? = some t) :
    ((Val.cmp v (.fin false M (E : Int))).flags.2.2 = true ↔ t < 9223372036854775808) := by
  cases v with
  | nan => simp [Val.trunc?] at ht
  | inf n => simp [Val.trunc?] at ht
  | fin n m e =>
    obtain ⟨h1, h2⟩ := Val.cmp_const n m e M E 9223372036854775808 hK (by decide) t ht
    rw [← (show ((9223372036854775808 : Nat) : Int) = 9223372036854775808 from rfl)]
    rw [← h1]
    cases hc : Val.cmp (Val.fin n m e) (Val.fin false M (E : Int)) <;> simp_all [Rel.flags]

theorem xor_top (x : BitVec 64) (h : x.toNat < 9223372036854775808) :
    (x ^^^ (1#64 <<< 63)).toNat = x.toNat + 9223372036854775808 := by
  have hmsb : x.msb = false := by rw [BitVec.msb_eq_decide]; simp; omega
  have hand : x &&& (1#64 <<< 63) = 0#64 := by
    apply BitVec.eq_of_getLsbD_eq
    intro i hi
    by_cases h63 : i = 63
    · subst h63
      have : x.getLsbD 63 = false := by simpa [BitVec.msb_eq_getLsbD_last] using hmsb
      rw [BitVec.getLsbD_and, this]; simp
    · have h1 : (1#64 <<< 63).getLsbD i = false := by
        rw [BitVec.getLsbD_shiftLeft]
        have : i < 63 := by omega
        simp [this]
      rw [BitVec.getLsbD_and, h1]; simp
  have e : x ^^^ (1#64 <<< 63) = x + (1#64 <<< 63) := by
    rw [BitVec.add_eq_or_of_and_eq_zero _ _ hand]
    apply BitVec.eq_of_getLsbD_eq
    intro i hi
    have hb := congrArg (fun b => b.getLsbD i) hand
    simp only [BitVec.getLsbD_and, BitVec.getLsbD_zero] at hb
    simp only [BitVec.getLsbD_xor, BitVec.getLsbD_or]
    cases hx : x.getLsbD i <;> cases hc : (1#64 <<< 63).getLsbD i <;> simp_all
  rw [e, BitVec.toNat_add]
  simp
  omega

/-- the integer t − 2^63 with bit 63 complemented represents the unsigned long t -/
theorem tgt_u64_above (t : Int) (h1 : 9223372036854775808 ≤ t) (h2 : t < 18446744073709551616) :
    RInt .u64 (BitVec.ofInt 64 (t - 9223372036854775808) ^^^ (1#64 <<< 63)) t := by
  have hn : (BitVec.ofInt 64 (t - 9223372036854775808)).toNat = (t - 9223372036854775808).toNat := by
    simp only [BitVec.toNat_ofInt]; omega
  refine ⟨by simp [ITy.inRange, ITy.min, ITy.max, ITy.signed, ITy.bits]; omega, ?_⟩
  simp only
  rw [xor_top _ (by rw [hn]; omega), hn]
  omega

/-- the register-level halving (`shr`, `and $1`, `or`) read as a signed number is `halveSticky` of the unsigned value -/
theorem halve_toInt (r : BitVec 64) (h : 2 ^ 63 ≤ r.toNat) :
    (r >>> 1 ||| r &&& 1#64).toInt = (halveSticky r.toNat : Int) := by
  have hh := halveSticky_lt _ h r.isLt
  rw [BitVec.toInt_eq_toNat_cond, halve_bv]
  split <;> omega

theorem roundInt_nat (p n : Nat) : roundInt p (n : Int) = (roundNat p n : Int) := by
  simp [roundInt]; intro h; omega

theorem ofInt32_round (F : FpuSpec) (v : Int) (h0 : 0 ≤ v) (h1 : v ≤ 18446744073709551616) :
    F.ofInt32 (roundInt 24 v) = F.ofInt32 v := by
  obtain ⟨n, rfl⟩ := Int.eq_ofNat_of_zero_le h0
  have hb := roundNat_le64 24 n (by decide) (by decide) (by omega)
  rw [roundInt_nat]
  apply F.ofInt32_congr
  · simp; omega
  · simp; omega
  · constructor <;> intro h <;> omega
  · rw [roundInt_nat, roundInt_nat, roundNat_idem 24 n (by decide)]

theorem ofInt64_round (F : FpuSpec) (v : Int) (h0 : 0 ≤ v) (h1 : v ≤ 18446744073709551616) :
    F.ofInt64 (roundInt 53 v) = F.ofInt64 v := by
  obtain ⟨n, rfl⟩ := Int.eq_ofNat_of_zero_le h0
  have hb := roundNat_le64 53 n (by decide) (by decide) (by omega)
  rw [roundInt_nat]
  apply F.ofInt64_congr
  · simp; omega
  · simp; omega
  · constructor <;> intro h <;> omega
  · rw [roundInt_nat, roundInt_nat, roundNat_idem 53 n (by decide)]

/-- an unsigned long with the top bit set, as the register holds it -/
theorem src_u64_top (r : BitVec 64) (v : Int) (h : RInt .u64 r v) (hv : ¬ v < 9223372036854775808) :
    (r.toNat : Int) = v ∧ 2 ^ 63 ≤ r.toNat ∧ r.msb = true ∧ r.toInt = v - 18446744073709551616 := by
  have hr : ITy.u64.inRange v := h.1
  simp [ITy.inRange, ITy.min, ITy.max, ITy.signed, ITy.bits] at hr
  have hnat : (r.toNat : Int) = v := by have := h.2; simp only at this; omega
  have hlt := r.isLt
  refine ⟨hnat, by omega, ?_, ?_⟩
  · rw [BitVec.msb_eq_decide]; simp; omega
  · rw [BitVec.toInt_eq_toNat_cond]; split <;> omega

/-! ### integer sources: the signed reading the conversion instruction makes of the register is the C value -/

theorem src32_i8 (r : BitVec 64) (v : Int) (h : RInt .i8 r v) : (r.setWidth 32).toInt = v := by
  unfold_rint; fp_ints

theorem src32_i16 (r : BitVec 64) (v : Int) (h : RInt .i16 r v) : (r.setWidth 32).toInt = v := by
  unfold_rint; fp_ints

theorem src32_i32 (r : BitVec 64) (v : Int) (h : RInt .i32 r v) : (r.setWidth 32).toInt = v := by
  unfold_rint; fp_ints

theorem src32_u8 (r : BitVec 64) (v : Int) (h : RInt .u8 r v) : (r.setWidth 32).toInt = v := by
  unfold_rint; fp_ints

theorem src32_u16 (r : BitVec 64) (v : Int) (h : RInt .u16 r v) : (r.setWidth 32).toInt = v := by
  unfold_rint; fp_ints

theorem src64_i64 (r : BitVec 64) (v : Int) (h : RInt .i64 r v) : r.toInt = v := by
  unfold_rint; fp_ints

theorem srcz_u32 (r : BitVec 64) (v : Int) (h : RInt .u32 r v) : ((r.setWidth 32).setWidth 64).toInt = v := by
  unfold_rint; fp_ints

theorem src64_u64 (r : BitVec 64) (v : Int) (h : RInt .u64 r v) (hv : v < 9223372036854775808) :
    r.toInt = v ∧ r.msb = false := by
  unfold_rint; constructor <;> fp_ints

theorem src64_bool (r : BitVec 64) (v : Int) (h : RInt .bool r v) (hv : v < 9223372036854775808) :
    r.toInt = v ∧ r.msb = false := by
  unfold_rint; constructor <;> fp_ints

/-! ### integer targets: what the cell leaves in %rax represents the integral part -/

theorem tgt_sse_i8 (i : Int) (h : ITy.i8.inRange i) : RInt .i8 ((((BitVec.ofInt 32 i).setWidth 8).signExtend 32).setWidth 64) i := by
  unfold_rint; fp_ints

theorem tgt_sse_i16 (i : Int) (h : ITy.i16.inRange i) : RInt .i16 ((((BitVec.ofInt 32 i).setWidth 16).signExtend 32).setWidth 64) i := by
  unfold_rint; fp_ints

theorem tgt_sse_i32 (i : Int) (h : ITy.i32.inRange i) : RInt .i32 ((BitVec.ofInt 32 i).setWidth 64) i := by
  unfold_rint; fp_ints

theorem tgt_sse_i64 (i : Int) (h : ITy.i64.inRange i) : RInt .i64 (BitVec.ofInt 64 i) i := by
  unfold_rint; fp_ints

theorem tgt_sse_u8 (i : Int) (h : ITy.u8.inRange i) : RInt .u8 ((((BitVec.ofInt 32 i).setWidth 8).setWidth 32).setWidth 64) i := by
  unfold_rint; fp_ints

theorem tgt_sse_u16 (i : Int) (h : ITy.u16.inRange i) : RInt .u16 ((((BitVec.ofInt 32 i).setWidth 16).setWidth 32).setWidth 64) i := by
  unfold_rint; fp_ints

theorem tgt_sse_u32 (i : Int) (h : ITy.u32.inRange i) : RInt .u32 (BitVec.ofInt 64 i) i := by
  unfold_rint; fp_ints

theorem tgt_sse_u64 (i : Int) (h : ITy.u64.inRange i) : RInt .u64 (BitVec.ofInt 64 i) i := by
  unfold_rint; fp_ints

theorem tgt_x87_i8 (i : Int) (h : ITy.i8.inRange i) : RInt .i8 ((((BitVec.ofInt 16 i).setWidth 8).signExtend 32).setWidth 64) i := by
  unfold_rint; fp_ints

theorem tgt_x87_u8 (i : Int) (h : ITy.u8.inRange i) : RInt .u8 ((((BitVec.ofInt 16 i).setWidth 8).setWidth 32).setWidth 64) i := by
  unfold_rint; fp_ints

theorem tgt_x87_i16 (i : Int) (h : ITy.i16.inRange i) : RInt .i16 (((BitVec.ofInt 16 i).signExtend 32).setWidth 64) i := by
  unfold_rint; fp_ints

theorem tgt_x87_u16 (i : Int) (h : ITy.u16.inRange i) : RInt .u16 ((((BitVec.ofInt 32 i).setWidth 16).setWidth 32).setWidth 64) i := by
  unfold_rint; fp_ints

theorem tgt_x87_i32 (i : Int) (h : ITy.i32.inRange i) : RInt .i32 ((BitVec.ofInt 32 i).setWidth 64) i := by
  unfold_rint; fp_ints

theorem tgt_x87_u32 (i : Int) (h : ITy.u32.inRange i) : RInt .u32 (((BitVec.ofInt 64 i).setWidth 32).setWidth 64) i := by
  unfold_rint; fp_ints

theorem tgt_x87_i64 (i : Int) (h : ITy.i64.inRange i) : RInt .i64 (BitVec.ofInt 64 i) i := by
  unfold_rint; fp_ints

theorem tgt_x87_u64 (i : Int) (h : ITy.u64.inRange i) : RInt .u64 (BitVec.ofInt 64 i) i := by
  unfold_rint; fp_ints

/-! ### one lemma per (from, to): the selected cell implements the conversion -/

theorem b2bv_rint (z : Bool) : RInt .bool (b2bv (!z)) (if z = true then 0 else 1) := by
  cases z <;> simp [RInt, ITy.inRange, ITy.min, ITy.max, ITy.signed, ITy.bits, b2bv]

theorem sel_bool_f32 (F : FpuSpec) (s : FState) (v : Int) (h : RInt .bool (s.x.get .rax) v) (hv : v < 9223372036854775808) :
    ∃ s', run F (castSeq (.int .bool) (.f32)) s = some s' ∧ s'.xmm0.setWidth 32 = F.ofInt32 v ∧ s'.st = s.st ∧ s'.cw = s.cw ∧ s'.x.get .rsp = s.x.get .rsp := by
  obtain ⟨s', hrun, hx, hst, hcw, hrsp⟩ := eff_u64f32_nonneg F s (src64_bool _ _ h hv).2
  refine ⟨s', hrun, ?_, hst, hcw, hrsp⟩
  rw [hx, F.cvtsi2ss64_spec, (src64_bool _ _ h hv).1]

theorem sel_bool_f64 (F : FpuSpec) (s : FState) (v : Int) (h : RInt .bool (s.x.get .rax) v) (hv : v < 9223372036854775808) :
    ∃ s', run F (castSeq (.int .bool) (.f64)) s = some s' ∧ s'.xmm0 = F.ofInt64 v ∧ s'.st = s.st ∧ s'.cw = s.cw ∧ s'.x.get .rsp = s.x.get .rsp := by
  obtain ⟨s', hrun, hx, hst, hcw, hrsp⟩ := eff_u64f64_nonneg F s (src64_bool _ _ h hv).2
  refine ⟨s', hrun, ?_, hst, hcw, hrsp⟩
  rw [hx, F.cvtsi2sd64_spec, (src64_bool _ _ h hv).1]

theorem sel_bool_f80 (F : FpuSpec) (s : FState) (v : Int) (h : RInt .bool (s.x.get .rax) v) (hv : v < 9223372036854775808) :
    ∃ s', run F (castSeq (.int .bool) (.f80)) s = some s' ∧ s'.st = F.ofInt80 v :: s.st ∧ s'.cw = s.cw ∧ s'.x.get .rsp = s.x.get .rsp := by
  obtain ⟨s', hrun, hst, hcw, hrsp⟩ := eff_u64f80_nonneg F s (src64_bool _ _ h hv).2
  refine ⟨s', hrun, ?_, hcw, hrsp⟩
  rw [hst, F.fild64_spec, (src64_bool _ _ h hv).1]

theorem sel_i8_f32 (F : FpuSpec) (s : FState) (v : Int) (h : RInt .i8 (s.x.get .rax) v)  :
    ∃ s', run F (castSeq (.int .i8) (.f32)) s = some s' ∧ s'.xmm0.setWidth 32 = F.ofInt32 v ∧ s'.st = s.st ∧ s'.cw = s.cw ∧ s'.x.get .rsp = s.x.get .rsp := by
  obtain ⟨s', hrun, hx, hst, hcw, hrsp⟩ := eff_i32f32 F s
  refine ⟨s', hrun, ?_, hst, hcw, hrsp⟩
  rw [hx, F.cvtsi2ss32_spec, src32_i8 _ _ h]

theorem sel_i8_f64 (F : FpuSpec) (s : FState) (v : Int) (h : RInt .i8 (s.x.get .rax) v)  :
    ∃ s', run F (castSeq (.int .i8) (.f64)) s = some s' ∧ s'.xmm0 = F.ofInt64 v ∧ s'.st = s.st ∧ s'.cw = s.cw ∧ s'.x.get .rsp = s.x.get .rsp := by
  obtain ⟨s', hrun, hx, hst, hcw, hrsp⟩ := eff_i32f64 F s
  refine ⟨s', hrun, ?_, hst, hcw, hrsp⟩
  rw [hx, F.cvtsi2sd32_spec, src32_i8 _ _ h]

theorem sel_i8_f80 (F : FpuSpec) (s : FState) (v : Int) (h : RInt .i8 (s.x.get .rax) v)  :
    ∃ s', run F (castSeq (.int .i8) (.f80)) s = some s' ∧ s'.st = F.ofInt80 v :: s.st ∧ s'.cw = s.cw ∧ s'.x.get .rsp = s.x.get .rsp := by
  obtain ⟨s', hrun, hst, hcw, hrsp⟩ := eff_i32f80 F s
  refine ⟨s', hrun, ?_, hcw, hrsp⟩
  rw [hst, F.fild32_spec, src32_i8 _ _ h]

theorem sel_i16_f32 (F : FpuSpec) (s : FState) (v : Int) (h : RInt .i16 (s.x.get .rax) v)  :
    ∃ s', run F (castSeq (.int .i16) (.f32)) s = some s' ∧ s'.xmm0.setWidth 32 = F.ofInt32 v ∧ s'.st = s.st ∧ s'.cw = s.cw ∧ s'.x.get .rsp = s.x.get .rsp := by
  obtain ⟨s', hrun, hx, hst, hcw, hrsp⟩ := eff_i32f32 F s
  refine ⟨s', hrun, ?_, hst, hcw, hrsp⟩
  rw [hx, F.cvtsi2ss32_spec, src32_i16 _ _ h]

theorem sel_i16_f64 (F : FpuSpec) (s : FState) (v : Int) (h : RInt .i16 (s.x.get .rax) v)  :
    ∃ s', run F (castSeq (.int .i16) (.f64)) s = some s' ∧ s'.xmm0 = F.ofInt64 v ∧ s'.st = s.st ∧ s'.cw = s.cw ∧ s'.x.get .rsp = s.x.get .rsp := by
  obtain ⟨s', hrun, hx, hst, hcw, hrsp⟩ := eff_i32f64 F s
  refine ⟨s', hrun, ?_, hst, hcw, hrsp⟩
  rw [hx, F.cvtsi2sd32_spec, src32_i16 _ _ h]

theorem sel_i16_f80 (F : FpuSpec) (s : FState) (v : Int) (h : RInt .i16 (s.x.get .rax) v)  :
    ∃ s', run F (castSeq (.int .i16) (.f80)) s = some s' ∧ s'.st = F.ofInt80 v :: s.st ∧ s'.cw = s.cw ∧ s'.x.get .rsp = s.x.get .rsp := by
  obtain ⟨s', hrun, hst, hcw, hrsp⟩ := eff_i32f80 F s
  refine ⟨s', hrun, ?_, hcw, hrsp⟩
  rw [hst, F.fild32_spec, src32_i16 _ _ h]

theorem sel_i32_f32 (F : FpuSpec) (s : FState) (v : Int) (h : RInt .i32 (s.x.get .rax) v)  :
    ∃ s', run F (castSeq (.int .i32) (.f32)) s = some s' ∧ s'.xmm0.setWidth 32 = F.ofInt32 v ∧ s'.st = s.st ∧ s'.cw = s.cw ∧ s'.x.get .rsp = s.x.get .rsp := by
  obtain ⟨s', hrun, hx, hst, hcw, hrsp⟩ := eff_i32f32 F s
  refine ⟨s', hrun, ?_, hst, hcw, hrsp⟩
  rw [hx, F.cvtsi2ss32_spec, src32_i32 _ _ h]

theorem sel_i32_f64 (F : FpuSpec) (s : FState) (v : Int) (h : RInt .i32 (s.x.get .rax) v)  :
    ∃ s', run F (castSeq (.int .i32) (.f64)) s = some s' ∧ s'.xmm0 = F.ofInt64 v ∧ s'.st = s.st ∧ s'.cw = s.cw ∧ s'.x.get .rsp = s.x.get .rsp := by
  obtain ⟨s', hrun, hx, hst, hcw, hrsp⟩ := eff_i32f64 F s
  refine ⟨s', hrun, ?_, hst, hcw, hrsp⟩
  rw [hx, F.cvtsi2sd32_spec, src32_i32 _ _ h]

theorem sel_i32_f80 (F : FpuSpec) (s : FState) (v : Int) (h : RInt .i32 (s.x.get .rax) v)  :
    ∃ s', run F (castSeq (.int .i32) (.f80)) s = some s' ∧ s'.st = F.ofInt80 v :: s.st ∧ s'.cw = s.cw ∧ s'.x.get .rsp = s.x.get .rsp := by
  obtain ⟨s', hrun, hst, hcw, hrsp⟩ := eff_i32f80 F s
  refine ⟨s', hrun, ?_, hcw, hrsp⟩
  rw [hst, F.fild32_spec, src32_i32 _ _ h]

theorem sel_i64_f32 (F : FpuSpec) (s : FState) (v : Int) (h : RInt .i64 (s.x.get .rax) v)  :
    ∃ s', run F (castSeq (.int .i64) (.f32)) s = some s' ∧ s'.xmm0.setWidth 32 = F.ofInt32 v ∧ s'.st = s.st ∧ s'.cw = s.cw ∧ s'.x.get .rsp = s.x.get .rsp := by
  obtain ⟨s', hrun, hx, hst, hcw, hrsp⟩ := eff_i64f32 F s
  refine ⟨s', hrun, ?_, hst, hcw, hrsp⟩
  rw [hx, F.cvtsi2ss64_spec, src64_i64 _ _ h]

theorem sel_i64_f64 (F : FpuSpec) (s : FState) (v : Int) (h : RInt .i64 (s.x.get .rax) v)  :
    ∃ s', run F (castSeq (.int .i64) (.f64)) s = some s' ∧ s'.xmm0 = F.ofInt64 v ∧ s'.st = s.st ∧ s'.cw = s.cw ∧ s'.x.get .rsp = s.x.get .rsp := by
  obtain ⟨s', hrun, hx, hst, hcw, hrsp⟩ := eff_i64f64 F s
  refine ⟨s', hrun, ?_, hst, hcw, hrsp⟩
  rw [hx, F.cvtsi2sd64_spec, src64_i64 _ _ h]

theorem sel_i64_f80 (F : FpuSpec) (s : FState) (v : Int) (h : RInt .i64 (s.x.get .rax) v)  :
    ∃ s', run F (castSeq (.int .i64) (.f80)) s = some s' ∧ s'.st = F.ofInt80 v :: s.st ∧ s'.cw = s.cw ∧ s'.x.get .rsp = s.x.get .rsp := by
  obtain ⟨s', hrun, hst, hcw, hrsp⟩ := eff_i64f80 F s
  refine ⟨s', hrun, ?_, hcw, hrsp⟩
  rw [hst, F.fild64_spec, src64_i64 _ _ h]

theorem sel_u8_f32 (F : FpuSpec) (s : FState) (v : Int) (h : RInt .u8 (s.x.get .rax) v)  :
    ∃ s', run F (castSeq (.int .u8) (.f32)) s = some s' ∧ s'.xmm0.setWidth 32 = F.ofInt32 v ∧ s'.st = s.st ∧ s'.cw = s.cw ∧ s'.x.get .rsp = s.x.get .rsp := by
  obtain ⟨s', hrun, hx, hst, hcw, hrsp⟩ := eff_i32f32 F s
  refine ⟨s', hrun, ?_, hst, hcw, hrsp⟩
  rw [hx, F.cvtsi2ss32_spec, src32_u8 _ _ h]

theorem sel_u8_f64 (F : FpuSpec) (s : FState) (v : Int) (h : RInt .u8 (s.x.get .rax) v)  :
    ∃ s', run F (castSeq (.int .u8) (.f64)) s = some s' ∧ s'.xmm0 = F.ofInt64 v ∧ s'.st = s.st ∧ s'.cw = s.cw ∧ s'.x.get .rsp = s.x.get .rsp := by
  obtain ⟨s', hrun, hx, hst, hcw, hrsp⟩ := eff_i32f64 F s
  refine ⟨s', hrun, ?_, hst, hcw, hrsp⟩
  rw [hx, F.cvtsi2sd32_spec, src32_u8 _ _ h]

theorem sel_u8_f80 (F : FpuSpec) (s : FState) (v : Int) (h : RInt .u8 (s.x.get .rax) v)  :
    ∃ s', run F (castSeq (.int .u8) (.f80)) s = some s' ∧ s'.st = F.ofInt80 v :: s.st ∧ s'.cw = s.cw ∧ s'.x.get .rsp = s.x.get .rsp := by
  obtain ⟨s', hrun, hst, hcw, hrsp⟩ := eff_i32f80 F s
  refine ⟨s', hrun, ?_, hcw, hrsp⟩
  rw [hst, F.fild32_spec, src32_u8 _ _ h]

theorem sel_u16_f32 (F : FpuSpec) (s : FState) (v : Int) (h : RInt .u16 (s.x.get .rax) v)  :
    ∃ s', run F (castSeq (.int .u16) (.f32)) s = some s' ∧ s'.xmm0.setWidth 32 = F.ofInt32 v ∧ s'.st = s.st ∧ s'.cw = s.cw ∧ s'.x.get .rsp = s.x.get .rsp := by
  obtain ⟨s', hrun, hx, hst, hcw, hrsp⟩ := eff_i32f32 F s
  refine ⟨s', hrun, ?_, hst, hcw, hrsp⟩
  rw [hx, F.cvtsi2ss32_spec, src32_u16 _ _ h]

theorem sel_u16_f64 (F : FpuSpec) (s : FState) (v : Int) (h : RInt .u16 (s.x.get .rax) v)  :
    ∃ s', run F (castSeq (.int .u16) (.f64)) s = some s' ∧ s'.xmm0 = F.ofInt64 v ∧ s'.st = s.st ∧ s'.cw = s.cw ∧ s'.x.get .rsp = s.x.get .rsp := by
  obtain ⟨s', hrun, hx, hst, hcw, hrsp⟩ := eff_i32f64 F s
  refine ⟨s', hrun, ?_, hst, hcw, hrsp⟩
  rw [hx, F.cvtsi2sd32_spec, src32_u16 _ _ h]

theorem sel_u16_f80 (F : FpuSpec) (s : FState) (v : Int) (h : RInt .u16 (s.x.get .rax) v)  :
    ∃ s', run F (castSeq (.int .u16) (.f80)) s = some s' ∧ s'.st = F.ofInt80 v :: s.st ∧ s'.cw = s.cw ∧ s'.x.get .rsp = s.x.get .rsp := by
  obtain ⟨s', hrun, hst, hcw, hrsp⟩ := eff_i32f80 F s
  refine ⟨s', hrun, ?_, hcw, hrsp⟩
  rw [hst, F.fild32_spec, src32_u16 _ _ h]

theorem sel_u32_f32 (F : FpuSpec) (s : FState) (v : Int) (h : RInt .u32 (s.x.get .rax) v)  :
    ∃ s', run F (castSeq (.int .u32) (.f32)) s = some s' ∧ s'.xmm0.setWidth 32 = F.ofInt32 v ∧ s'.st = s.st ∧ s'.cw = s.cw ∧ s'.x.get .rsp = s.x.get .rsp := by
  obtain ⟨s', hrun, hx, hst, hcw, hrsp⟩ := eff_u32f32 F s
  refine ⟨s', hrun, ?_, hst, hcw, hrsp⟩
  rw [hx, F.cvtsi2ss64_spec, srcz_u32 _ _ h]

theorem sel_u32_f64 (F : FpuSpec) (s : FState) (v : Int) (h : RInt .u32 (s.x.get .rax) v)  :
    ∃ s', run F (castSeq (.int .u32) (.f64)) s = some s' ∧ s'.xmm0 = F.ofInt64 v ∧ s'.st = s.st ∧ s'.cw = s.cw ∧ s'.x.get .rsp = s.x.get .rsp := by
  obtain ⟨s', hrun, hx, hst, hcw, hrsp⟩ := eff_u32f64 F s
  refine ⟨s', hrun, ?_, hst, hcw, hrsp⟩
  rw [hx, F.cvtsi2sd64_spec, srcz_u32 _ _ h]

theorem sel_u32_f80 (F : FpuSpec) (s : FState) (v : Int) (h : RInt .u32 (s.x.get .rax) v)  :
    ∃ s', run F (castSeq (.int .u32) (.f80)) s = some s' ∧ s'.st = F.ofInt80 v :: s.st ∧ s'.cw = s.cw ∧ s'.x.get .rsp = s.x.get .rsp := by
  obtain ⟨s', hrun, hst, hcw, hrsp⟩ := eff_u32f80 F s
  refine ⟨s', hrun, ?_, hcw, hrsp⟩
  rw [hst, F.fild64_spec, srcz_u32 _ _ h]

/-- unsigned long → float, **all 2^64 values**: below 2^63 the signed conversion; from 2^63 on, halving with the lost bit
    or-ed back in (round to odd), converting and doubling is the correctly rounded conversion of the unsigned value -/
theorem sel_u64_f32 (F : FpuSpec) (s : FState) (v : Int) (h : RInt .u64 (s.x.get .rax) v) :
    ∃ s', run F (castSeq (.int .u64) (.f32)) s = some s' ∧ s'.xmm0.setWidth 32 = F.ofInt32 v ∧ s'.st = s.st ∧ s'.cw = s.cw ∧ s'.x.get .rsp = s.x.get .rsp := by
  by_cases hv : v < 9223372036854775808
  · obtain ⟨s', hrun, hx, hst, hcw, hrsp⟩ := eff_u64f32_nonneg F s (src64_u64 _ _ h hv).2
    refine ⟨s', hrun, ?_, hst, hcw, hrsp⟩
    rw [hx, F.cvtsi2ss64_spec, (src64_u64 _ _ h hv).1]
  · obtain ⟨hnat, hn1, hmsb, _⟩ := src_u64_top _ _ h hv
    have hn2 : (s.x.get .rax).toNat < 2 ^ 64 := (s.x.get .rax).isLt
    have hh := halveSticky_lt _ hn1 hn2
    obtain ⟨s', hrun, hx, hst, hcw, hrsp⟩ := eff_u64f32_neg F s hmsb
    refine ⟨s', hrun, ?_, hst, hcw, hrsp⟩
    rw [hx, F.cvtsi2ss64_spec, halve_toInt _ hn1, F.addss_double _ (by omega), roundInt_nat]
    have e : (2 * (roundNat 24 (halveSticky (s.x.get .rax).toNat) : Int)) = roundInt 24 v := by
      rw [← hnat, roundInt_nat, round_halve24 _ hn1 hn2]; simp
    rw [e]
    exact ofInt32_round F v (by omega) (by omega)

/-- unsigned long → double, all 2^64 values (the same argument at 53 bits) -/
theorem sel_u64_f64 (F : FpuSpec) (s : FState) (v : Int) (h : RInt .u64 (s.x.get .rax) v) :
    ∃ s', run F (castSeq (.int .u64) (.f64)) s = some s' ∧ s'.xmm0 = F.ofInt64 v ∧ s'.st = s.st ∧ s'.cw = s.cw ∧ s'.x.get .rsp = s.x.get .rsp := by
  by_cases hv : v < 9223372036854775808
  · obtain ⟨s', hrun, hx, hst, hcw, hrsp⟩ := eff_u64f64_nonneg F s (src64_u64 _ _ h hv).2
    refine ⟨s', hrun, ?_, hst, hcw, hrsp⟩
    rw [hx, F.cvtsi2sd64_spec, (src64_u64 _ _ h hv).1]
  · obtain ⟨hnat, hn1, hmsb, _⟩ := src_u64_top _ _ h hv
    have hn2 : (s.x.get .rax).toNat < 2 ^ 64 := (s.x.get .rax).isLt
    have hh := halveSticky_lt _ hn1 hn2
    obtain ⟨s', hrun, hx, hst, hcw, hrsp⟩ := eff_u64f64_neg F s hmsb
    refine ⟨s', hrun, ?_, hst, hcw, hrsp⟩
    rw [hx, F.cvtsi2sd64_spec, halve_toInt _ hn1, F.addsd_double _ (by omega), roundInt_nat]
    have e : (2 * (roundNat 53 (halveSticky (s.x.get .rax).toNat) : Int)) = roundInt 53 v := by
      rw [← hnat, roundInt_nat, round_halve _ hn1 hn2]; simp
    rw [e]
    exact ofInt64_round F v (by omega) (by omega)

/-- unsigned long → long double, all 2^64 values: `fildq` reads a pattern with the top bit set as v − 2^64; 2^64 is then
    added, exactly, in double extended precision -/
theorem sel_u64_f80 (F : FpuSpec) (s : FState) (v : Int) (h : RInt .u64 (s.x.get .rax) v)
    (hpc : ¬ v < 9223372036854775808 → pc s.cw = 3#2) :
    ∃ s', run F (castSeq (.int .u64) (.f80)) s = some s' ∧ s'.st = F.ofInt80 v :: s.st ∧ s'.cw = s.cw ∧ s'.x.get .rsp = s.x.get .rsp := by
  by_cases hv : v < 9223372036854775808
  · obtain ⟨s', hrun, hst, hcw, hrsp⟩ := eff_u64f80_nonneg F s (src64_u64 _ _ h hv).2
    refine ⟨s', hrun, ?_, hcw, hrsp⟩
    rw [hst, F.fild64_spec, (src64_u64 _ _ h hv).1]
  · obtain ⟨hnat, hn1, hmsb, hint⟩ := src_u64_top _ _ h hv
    have hr : ITy.u64.inRange v := h.1
    simp [ITy.inRange, ITy.min, ITy.max, ITy.signed, ITy.bits] at hr
    obtain ⟨s', hrun, hst, hcw, hrsp⟩ := eff_u64f80_neg F s hmsb
    refine ⟨s', hrun, ?_, hcw, hrsp⟩
    rw [hst, F.fild64_spec, hint]
    exact congrArg (· :: s.st) (F.fadd_two64 s.cw v (hpc hv) (by omega) (by omega))

theorem sel_f32_i8 (F : FpuSpec) (s : FState) (b : BitVec 32) (hs : s.xmm0.setWidth 32 = b) (i : Int)
    (htr : (F.val32 b).trunc? = some i) (hin : ITy.i8.inRange i)  :
    ∃ s', run F (castSeq .f32 (.int .i8)) s = some s' ∧ RInt .i8 (s'.x.get .rax) i ∧ s'.st = s.st ∧ s'.cw = s.cw ∧
      s'.x.get .rsp = s.x.get .rsp := by
  obtain ⟨s', hrun, hrax, hst, hcw, hrsp⟩ := eff_f32i8 F s
  refine ⟨s', hrun, ?_, hst, hcw, hrsp⟩
  have hb : -(2 ^ (32 - 1) : Int) ≤ i ∧ i < 2 ^ (32 - 1) := by
    simp [ITy.inRange, ITy.min, ITy.max, ITy.signed, ITy.bits] at hin; omega
  rw [hrax, hs, F.cvttss2si32_spec, truncTo_fit 32 _ i htr hb.1 hb.2]
  exact tgt_sse_i8 i hin

theorem sel_f32_i16 (F : FpuSpec) (s : FState) (b : BitVec 32) (hs : s.xmm0.setWidth 32 = b) (i : Int)
    (htr : (F.val32 b).trunc? = some i) (hin : ITy.i16.inRange i)  :
    ∃ s', run F (castSeq .f32 (.int .i16)) s = some s' ∧ RInt .i16 (s'.x.get .rax) i ∧ s'.st = s.st ∧ s'.cw = s.cw ∧
      s'.x.get .rsp = s.x.get .rsp := by
  obtain ⟨s', hrun, hrax, hst, hcw, hrsp⟩ := eff_f32i16 F s
  refine ⟨s', hrun, ?_, hst, hcw, hrsp⟩
  have hb : -(2 ^ (32 - 1) : Int) ≤ i ∧ i < 2 ^ (32 - 1) := by
    simp [ITy.inRange, ITy.min, ITy.max, ITy.signed, ITy.bits] at hin; omega
  rw [hrax, hs, F.cvttss2si32_spec, truncTo_fit 32 _ i htr hb.1 hb.2]
  exact tgt_sse_i16 i hin

theorem sel_f32_i32 (F : FpuSpec) (s : FState) (b : BitVec 32) (hs : s.xmm0.setWidth 32 = b) (i : Int)
    (htr : (F.val32 b).trunc? = some i) (hin : ITy.i32.inRange i)  :
    ∃ s', run F (castSeq .f32 (.int .i32)) s = some s' ∧ RInt .i32 (s'.x.get .rax) i ∧ s'.st = s.st ∧ s'.cw = s.cw ∧
      s'.x.get .rsp = s.x.get .rsp := by
  obtain ⟨s', hrun, hrax, hst, hcw, hrsp⟩ := eff_f32i32 F s
  refine ⟨s', hrun, ?_, hst, hcw, hrsp⟩
  have hb : -(2 ^ (32 - 1) : Int) ≤ i ∧ i < 2 ^ (32 - 1) := by
    simp [ITy.inRange, ITy.min, ITy.max, ITy.signed, ITy.bits] at hin; omega
  rw [hrax, hs, F.cvttss2si32_spec, truncTo_fit 32 _ i htr hb.1 hb.2]
  exact tgt_sse_i32 i hin

theorem sel_f32_i64 (F : FpuSpec) (s : FState) (b : BitVec 32) (hs : s.xmm0.setWidth 32 = b) (i : Int)
    (htr : (F.val32 b).trunc? = some i) (hin : ITy.i64.inRange i)  :
    ∃ s', run F (castSeq .f32 (.int .i64)) s = some s' ∧ RInt .i64 (s'.x.get .rax) i ∧ s'.st = s.st ∧ s'.cw = s.cw ∧
      s'.x.get .rsp = s.x.get .rsp := by
  obtain ⟨s', hrun, hrax, hst, hcw, hrsp⟩ := eff_f32i64 F s
  refine ⟨s', hrun, ?_, hst, hcw, hrsp⟩
  have hb : -(2 ^ (64 - 1) : Int) ≤ i ∧ i < 2 ^ (64 - 1) := by
    simp [ITy.inRange, ITy.min, ITy.max, ITy.signed, ITy.bits] at hin; omega
  rw [hrax, hs, F.cvttss2si64_spec, truncTo_fit 64 _ i htr hb.1 hb.2]
  exact tgt_sse_i64 i hin

theorem sel_f32_u8 (F : FpuSpec) (s : FState) (b : BitVec 32) (hs : s.xmm0.setWidth 32 = b) (i : Int)
    (htr : (F.val32 b).trunc? = some i) (hin : ITy.u8.inRange i)  :
    ∃ s', run F (castSeq .f32 (.int .u8)) s = some s' ∧ RInt .u8 (s'.x.get .rax) i ∧ s'.st = s.st ∧ s'.cw = s.cw ∧
      s'.x.get .rsp = s.x.get .rsp := by
  obtain ⟨s', hrun, hrax, hst, hcw, hrsp⟩ := eff_f32u8 F s
  refine ⟨s', hrun, ?_, hst, hcw, hrsp⟩
  have hb : -(2 ^ (32 - 1) : Int) ≤ i ∧ i < 2 ^ (32 - 1) := by
    simp [ITy.inRange, ITy.min, ITy.max, ITy.signed, ITy.bits] at hin; omega
  rw [hrax, hs, F.cvttss2si32_spec, truncTo_fit 32 _ i htr hb.1 hb.2]
  exact tgt_sse_u8 i hin

theorem sel_f32_u16 (F : FpuSpec) (s : FState) (b : BitVec 32) (hs : s.xmm0.setWidth 32 = b) (i : Int)
    (htr : (F.val32 b).trunc? = some i) (hin : ITy.u16.inRange i)  :
    ∃ s', run F (castSeq .f32 (.int .u16)) s = some s' ∧ RInt .u16 (s'.x.get .rax) i ∧ s'.st = s.st ∧ s'.cw = s.cw ∧
      s'.x.get .rsp = s.x.get .rsp := by
  obtain ⟨s', hrun, hrax, hst, hcw, hrsp⟩ := eff_f32u16 F s
  refine ⟨s', hrun, ?_, hst, hcw, hrsp⟩
  have hb : -(2 ^ (32 - 1) : Int) ≤ i ∧ i < 2 ^ (32 - 1) := by
    simp [ITy.inRange, ITy.min, ITy.max, ITy.signed, ITy.bits] at hin; omega
  rw [hrax, hs, F.cvttss2si32_spec, truncTo_fit 32 _ i htr hb.1 hb.2]
  exact tgt_sse_u16 i hin

theorem sel_f32_u32 (F : FpuSpec) (s : FState) (b : BitVec 32) (hs : s.xmm0.setWidth 32 = b) (i : Int)
    (htr : (F.val32 b).trunc? = some i) (hin : ITy.u32.inRange i)  :
    ∃ s', run F (castSeq .f32 (.int .u32)) s = some s' ∧ RInt .u32 (s'.x.get .rax) i ∧ s'.st = s.st ∧ s'.cw = s.cw ∧
      s'.x.get .rsp = s.x.get .rsp := by
  obtain ⟨s', hrun, hrax, hst, hcw, hrsp⟩ := eff_f32u32 F s
  refine ⟨s', hrun, ?_, hst, hcw, hrsp⟩
  have hb : -(2 ^ (64 - 1) : Int) ≤ i ∧ i < 2 ^ (64 - 1) := by
    simp [ITy.inRange, ITy.min, ITy.max, ITy.signed, ITy.bits] at hin; omega
  rw [hrax, hs, F.cvttss2si64_spec, truncTo_fit 64 _ i htr hb.1 hb.2]
  exact tgt_sse_u32 i hin

/-- float → unsigned long for **every** value with 0 ≤ trunc x < 2^64: below 2^63 the signed truncation; from 2^63 on,
    x − 2^63 (exact), signed truncation, bit 63 complemented -/
theorem sel_f32_u64 (F : FpuSpec) (s : FState) (b : BitVec 32) (hs : s.xmm0.setWidth 32 = b) (i : Int)
    (htr : (F.val32 b).trunc? = some i) (hin : ITy.u64.inRange i) :
    ∃ s', run F (castSeq .f32 (.int .u64)) s = some s' ∧ RInt .u64 (s'.x.get .rax) i ∧ s'.st = s.st ∧ s'.cw = s.cw ∧
      s'.x.get .rsp = s.x.get .rsp := by
  have hr : 0 ≤ i ∧ i < 18446744073709551616 := by
    simp [ITy.inRange, ITy.min, ITy.max, ITy.signed, ITy.bits] at hin; omega
  have hcf := cf_two63 (F.val32 b) 8388608 40 (by decide) i htr
  have hcm : F.comiss (s.xmm0.setWidth 32) 0x5f000000#32 = Val.cmp (F.val32 b) (.fin false 8388608 ((40 : Nat) : Int)) := by
    rw [F.comiss_spec, hs, F.val32_two63]; rfl
  by_cases hlt : i < 9223372036854775808
  · obtain ⟨s', hrun, hrax, hst, hcw, hrsp⟩ := eff_f32u64_below F s (by rw [hcm]; exact hcf.2 hlt)
    refine ⟨s', hrun, ?_, hst, hcw, hrsp⟩
    rw [hrax, hs, F.cvttss2si64_spec, truncTo_fit 64 _ i htr (by omega) (by omega)]
    exact tgt_sse_u64 i hin
  · have hcf0 : (F.comiss (s.xmm0.setWidth 32) 0x5f000000#32).flags.2.2 = false := by
      rw [hcm]
      cases hc : (Val.cmp (F.val32 b) (.fin false 8388608 ((40 : Nat) : Int))).flags.2.2
      · rfl
      · exact absurd (hcf.1 hc) hlt
    obtain ⟨s', hrun, hrax, hst, hcw, hrsp⟩ := eff_f32u64_above F s hcf0
    refine ⟨s', hrun, ?_, hst, hcw, hrsp⟩
    have hsub := F.subss_two63 b i htr (by omega) hr.2
    rw [hrax, hs, F.cvttss2si64_spec, truncTo_fit 64 _ _ hsub (by omega) (by omega)]
    exact tgt_u64_above i (by omega) hr.2

theorem sel_f64_i8 (F : FpuSpec) (s : FState) (b : BitVec 64) (hs : s.xmm0 = b) (i : Int)
    (htr : (F.val64 b).trunc? = some i) (hin : ITy.i8.inRange i)  :
    ∃ s', run F (castSeq .f64 (.int .i8)) s = some s' ∧ RInt .i8 (s'.x.get .rax) i ∧ s'.st = s.st ∧ s'.cw = s.cw ∧
      s'.x.get .rsp = s.x.get .rsp := by
  obtain ⟨s', hrun, hrax, hst, hcw, hrsp⟩ := eff_f64i8 F s
  refine ⟨s', hrun, ?_, hst, hcw, hrsp⟩
  have hb : -(2 ^ (32 - 1) : Int) ≤ i ∧ i < 2 ^ (32 - 1) := by
    simp [ITy.inRange, ITy.min, ITy.max, ITy.signed, ITy.bits] at hin; omega
  rw [hrax, hs, F.cvttsd2si32_spec, truncTo_fit 32 _ i htr hb.1 hb.2]
  exact tgt_sse_i8 i hin

theorem sel_f64_i16 (F : FpuSpec) (s : FState) (b : BitVec 64) (hs : s.xmm0 = b) (i : Int)
    (htr : (F.val64 b).trunc? = some i) (hin : ITy.i16.inRange i)  :
    ∃ s', run F (castSeq .f64 (.int .i16)) s = some s' ∧ RInt .i16 (s'.x.get .rax) i ∧ s'.st = s.st ∧ s'.cw = s.cw ∧
      s'.x.get .rsp = s.x.get .rsp := by
  obtain ⟨s', hrun, hrax, hst, hcw, hrsp⟩ := eff_f64i16 F s
  refine ⟨s', hrun, ?_, hst, hcw, hrsp⟩
  have hb : -(2 ^ (32 - 1) : Int) ≤ i ∧ i < 2 ^ (32 - 1) := by
    simp [ITy.inRange, ITy.min, ITy.max, ITy.signed, ITy.bits] at hin; omega
  rw [hrax, hs, F.cvttsd2si32_spec, truncTo_fit 32 _ i htr hb.1 hb.2]
  exact tgt_sse_i16 i hin

theorem sel_f64_i32 (F : FpuSpec) (s : FState) (b : BitVec 64) (hs : s.xmm0 = b) (i : Int)
    (htr : (F.val64 b).trunc? = some i) (hin : ITy.i32.inRange i)  :
    ∃ s', run F (castSeq .f64 (.int .i32)) s = some s' ∧ RInt .i32 (s'.x.get .rax) i ∧ s'.st = s.st ∧ s'.cw = s.cw ∧
      s'.x.get .rsp = s.x.get .rsp := by
  obtain ⟨s', hrun, hrax, hst, hcw, hrsp⟩ := eff_f64i32 F s
  refine ⟨s', hrun, ?_, hst, hcw, hrsp⟩
  have hb : -(2 ^ (32 - 1) : Int) ≤ i ∧ i < 2 ^ (32 - 1) := by
    simp [ITy.inRange, ITy.min, ITy.max, ITy.signed, ITy.bits] at hin; omega
  rw [hrax, hs, F.cvttsd2si32_spec, truncTo_fit 32 _ i htr hb.1 hb.2]
  exact tgt_sse_i32 i hin

theorem sel_f64_i64 (F : FpuSpec) (s : FState) (b : BitVec 64) (hs : s.xmm0 = b) (i : Int)
    (htr : (F.val64 b).trunc? = some i) (hin : ITy.i64.inRange i)  :
    ∃ s', run F (castSeq .f64 (.int .i64)) s = some s' ∧ RInt .i64 (s'.x.get .rax) i ∧ s'.st = s.st ∧ s'.cw = s.cw ∧
      s'.x.get .rsp = s.x.get .rsp := by
  obtain ⟨s', hrun, hrax, hst, hcw, hrsp⟩ := eff_f64i64 F s
  refine ⟨s', hrun, ?_, hst, hcw, hrsp⟩
  have hb : -(2 ^ (64 - 1) : Int) ≤ i ∧ i < 2 ^ (64 - 1) := by
    simp [ITy.inRange, ITy.min, ITy.max, ITy.signed, ITy.bits] at hin; omega
  rw [hrax, hs, F.cvttsd2si64_spec, truncTo_fit 64 _ i htr hb.1 hb.2]
  exact tgt_sse_i64 i hin

theorem sel_f64_u8 (F : FpuSpec) (s : FState) (b : BitVec 64) (hs : s.xmm0 = b) (i : Int)
    (htr : (F.val64 b).trunc? = some i) (hin : ITy.u8.inRange i)  :
    ∃ s', run F (castSeq .f64 (.int .u8)) s = some s' ∧ RInt .u8 (s'.x.get .rax) i ∧ s'.st = s.st ∧ s'.cw = s.cw ∧
      s'.x.get .rsp = s.x.get .rsp := by
  obtain ⟨s', hrun, hrax, hst, hcw, hrsp⟩ := eff_f64u8 F s
  refine ⟨s', hrun, ?_, hst, hcw, hrsp⟩
  have hb : -(2 ^ (32 - 1) : Int) ≤ i ∧ i < 2 ^ (32 - 1) := by
    simp [ITy.inRange, ITy.min, ITy.max, ITy.signed, ITy.bits] at hin; omega
  rw [hrax, hs, F.cvttsd2si32_spec, truncTo_fit 32 _ i htr hb.1 hb.2]
  exact tgt_sse_u8 i hin

theorem sel_f64_u16 (F : FpuSpec) (s : FState) (b : BitVec 64) (hs : s.xmm0 = b) (i : Int)
    (htr : (F.val64 b).trunc? = some i) (hin : ITy.u16.inRange i)  :
    ∃ s', run F (castSeq .f64 (.int .u16)) s = some s' ∧ RInt .u16 (s'.x.get .rax) i ∧ s'.st = s.st ∧ s'.cw = s.cw ∧
      s'.x.get .rsp = s.x.get .rsp := by
  obtain ⟨s', hrun, hrax, hst, hcw, hrsp⟩ := eff_f64u16 F s
  refine ⟨s', hrun, ?_, hst, hcw, hrsp⟩
  have hb : -(2 ^ (32 - 1) : Int) ≤ i ∧ i < 2 ^ (32 - 1) := by
    simp [ITy.inRange, ITy.min, ITy.max, ITy.signed, ITy.bits] at hin; omega
  rw [hrax, hs, F.cvttsd2si32_spec, truncTo_fit 32 _ i htr hb.1 hb.2]
  exact tgt_sse_u16 i hin

theorem sel_f64_u32 (F : FpuSpec) (s : FState) (b : BitVec 64) (hs : s.xmm0 = b) (i : Int)
    (htr : (F.val64 b).trunc? = some i) (hin : ITy.u32.inRange i)  :
    ∃ s', run F (castSeq .f64 (.int .u32)) s = some s' ∧ RInt .u32 (s'.x.get .rax) i ∧ s'.st = s.st ∧ s'.cw = s.cw ∧
      s'.x.get .rsp = s.x.get .rsp := by
  obtain ⟨s', hrun, hrax, hst, hcw, hrsp⟩ := eff_f64u32 F s
  refine ⟨s', hrun, ?_, hst, hcw, hrsp⟩
  have hb : -(2 ^ (64 - 1) : Int) ≤ i ∧ i < 2 ^ (64 - 1) := by
    simp [ITy.inRange, ITy.min, ITy.max, ITy.signed, ITy.bits] at hin; omega
  rw [hrax, hs, F.cvttsd2si64_spec, truncTo_fit 64 _ i htr hb.1 hb.2]
  exact tgt_sse_u32 i hin

theorem sel_f64_u64 (F : FpuSpec) (s : FState) (b : BitVec 64) (hs : s.xmm0 = b) (i : Int)
    (htr : (F.val64 b).trunc? = some i) (hin : ITy.u64.inRange i) :
    ∃ s', run F (castSeq .f64 (.int .u64)) s = some s' ∧ RInt .u64 (s'.x.get .rax) i ∧ s'.st = s.st ∧ s'.cw = s.cw ∧
      s'.x.get .rsp = s.x.get .rsp := by
  have hr : 0 ≤ i ∧ i < 18446744073709551616 := by
    simp [ITy.inRange, ITy.min, ITy.max, ITy.signed, ITy.bits] at hin; omega
  have hcf := cf_two63 (F.val64 b) 4503599627370496 11 (by decide) i htr
  have hcm : F.comisd s.xmm0 0x43e0000000000000#64 = Val.cmp (F.val64 b) (.fin false 4503599627370496 ((11 : Nat) : Int)) := by
    rw [F.comisd_spec, hs, F.val64_two63]; rfl
  by_cases hlt : i < 9223372036854775808
  · obtain ⟨s', hrun, hrax, hst, hcw, hrsp⟩ := eff_f64u64_below F s (by rw [hcm]; exact hcf.2 hlt)
    refine ⟨s', hrun, ?_, hst, hcw, hrsp⟩
    rw [hrax, hs, F.cvttsd2si64_spec, truncTo_fit 64 _ i htr (by omega) (by omega)]
    exact tgt_sse_u64 i hin
  · have hcf0 : (F.comisd s.xmm0 0x43e0000000000000#64).flags.2.2 = false := by
      rw [hcm]
      cases hc : (Val.cmp (F.val64 b) (.fin false 4503599627370496 ((11 : Nat) : Int))).flags.2.2
      · rfl
      · exact absurd (hcf.1 hc) hlt
    obtain ⟨s', hrun, hrax, hst, hcw, hrsp⟩ := eff_f64u64_above F s hcf0
    refine ⟨s', hrun, ?_, hst, hcw, hrsp⟩
    have hsub := F.subsd_two63 b i htr (by omega) hr.2
    rw [hrax, hs, F.cvttsd2si64_spec, truncTo_fit 64 _ _ hsub (by omega) (by omega)]
    exact tgt_u64_above i (by omega) hr.2

theorem sel_f80_i8 (F : FpuSpec) (s : FState) (b : BitVec 80) (rest : List (BitVec 80)) (hs : s.st = b :: rest) (i : Int)
    (htr : (F.val80 b).trunc? = some i) (hin : ITy.i8.inRange i)  :
    ∃ s', run F (castSeq .f80 (.int .i8)) s = some s' ∧ RInt .i8 (s'.x.get .rax) i ∧ s'.st = rest ∧ s'.cw = s.cw ∧
      s'.x.get .rsp = s.x.get .rsp := by
  obtain ⟨s', hrun, hrax, hst, hcw, hrsp⟩ := eff_f80i8 F s b rest hs
  refine ⟨s', hrun, ?_, hst, hcw, hrsp⟩
  have hb : -(2 ^ (16 - 1) : Int) ≤ i ∧ i < 2 ^ (16 - 1) := by
    simp [ITy.inRange, ITy.min, ITy.max, ITy.signed, ITy.bits] at hin; omega
  rw [hrax, F.fistp16_rz _ _ (rc_cwOr s.cw), truncTo_fit 16 _ i htr hb.1 hb.2]
  exact tgt_x87_i8 i hin

theorem sel_f80_i16 (F : FpuSpec) (s : FState) (b : BitVec 80) (rest : List (BitVec 80)) (hs : s.st = b :: rest) (i : Int)
    (htr : (F.val80 b).trunc? = some i) (hin : ITy.i16.inRange i)  :
    ∃ s', run F (castSeq .f80 (.int .i16)) s = some s' ∧ RInt .i16 (s'.x.get .rax) i ∧ s'.st = rest ∧ s'.cw = s.cw ∧
      s'.x.get .rsp = s.x.get .rsp := by
  obtain ⟨s', hrun, hrax, hst, hcw, hrsp⟩ := eff_f80i16 F s b rest hs
  refine ⟨s', hrun, ?_, hst, hcw, hrsp⟩
  have hb : -(2 ^ (16 - 1) : Int) ≤ i ∧ i < 2 ^ (16 - 1) := by
    simp [ITy.inRange, ITy.min, ITy.max, ITy.signed, ITy.bits] at hin; omega
  rw [hrax, F.fistp16_rz _ _ (rc_cwOr s.cw), truncTo_fit 16 _ i htr hb.1 hb.2]
  exact tgt_x87_i16 i hin

theorem sel_f80_i32 (F : FpuSpec) (s : FState) (b : BitVec 80) (rest : List (BitVec 80)) (hs : s.st = b :: rest) (i : Int)
    (htr : (F.val80 b).trunc? = some i) (hin : ITy.i32.inRange i)  :
    ∃ s', run F (castSeq .f80 (.int .i32)) s = some s' ∧ RInt .i32 (s'.x.get .rax) i ∧ s'.st = rest ∧ s'.cw = s.cw ∧
      s'.x.get .rsp = s.x.get .rsp := by
  obtain ⟨s', hrun, hrax, hst, hcw, hrsp⟩ := eff_f80i32 F s b rest hs
  refine ⟨s', hrun, ?_, hst, hcw, hrsp⟩
  have hb : -(2 ^ (32 - 1) : Int) ≤ i ∧ i < 2 ^ (32 - 1) := by
    simp [ITy.inRange, ITy.min, ITy.max, ITy.signed, ITy.bits] at hin; omega
  rw [hrax, F.fistp32_rz _ _ (rc_cwOr s.cw), truncTo_fit 32 _ i htr hb.1 hb.2]
  exact tgt_x87_i32 i hin

theorem sel_f80_i64 (F : FpuSpec) (s : FState) (b : BitVec 80) (rest : List (BitVec 80)) (hs : s.st = b :: rest) (i : Int)
    (htr : (F.val80 b).trunc? = some i) (hin : ITy.i64.inRange i)  :
    ∃ s', run F (castSeq .f80 (.int .i64)) s = some s' ∧ RInt .i64 (s'.x.get .rax) i ∧ s'.st = rest ∧ s'.cw = s.cw ∧
      s'.x.get .rsp = s.x.get .rsp := by
  obtain ⟨s', hrun, hrax, hst, hcw, hrsp⟩ := eff_f80i64 F s b rest hs
  refine ⟨s', hrun, ?_, hst, hcw, hrsp⟩
  have hb : -(2 ^ (64 - 1) : Int) ≤ i ∧ i < 2 ^ (64 - 1) := by
    simp [ITy.inRange, ITy.min, ITy.max, ITy.signed, ITy.bits] at hin; omega
  rw [hrax, F.fistp64_rz _ _ (rc_cwOr s.cw), truncTo_fit 64 _ i htr hb.1 hb.2]
  exact tgt_x87_i64 i hin

theorem sel_f80_u8 (F : FpuSpec) (s : FState) (b : BitVec 80) (rest : List (BitVec 80)) (hs : s.st = b :: rest) (i : Int)
    (htr : (F.val80 b).trunc? = some i) (hin : ITy.u8.inRange i)  :
    ∃ s', run F (castSeq .f80 (.int .u8)) s = some s' ∧ RInt .u8 (s'.x.get .rax) i ∧ s'.st = rest ∧ s'.cw = s.cw ∧
      s'.x.get .rsp = s.x.get .rsp := by
  obtain ⟨s', hrun, hrax, hst, hcw, hrsp⟩ := eff_f80u8 F s b rest hs
  refine ⟨s', hrun, ?_, hst, hcw, hrsp⟩
  have hb : -(2 ^ (16 - 1) : Int) ≤ i ∧ i < 2 ^ (16 - 1) := by
    simp [ITy.inRange, ITy.min, ITy.max, ITy.signed, ITy.bits] at hin; omega
  rw [hrax, F.fistp16_rz _ _ (rc_cwOr s.cw), truncTo_fit 16 _ i htr hb.1 hb.2]
  exact tgt_x87_u8 i hin

theorem sel_f80_u16 (F : FpuSpec) (s : FState) (b : BitVec 80) (rest : List (BitVec 80)) (hs : s.st = b :: rest) (i : Int)
    (htr : (F.val80 b).trunc? = some i) (hin : ITy.u16.inRange i)  :
    ∃ s', run F (castSeq .f80 (.int .u16)) s = some s' ∧ RInt .u16 (s'.x.get .rax) i ∧ s'.st = rest ∧ s'.cw = s.cw ∧
      s'.x.get .rsp = s.x.get .rsp := by
  obtain ⟨s', hrun, hrax, hst, hcw, hrsp⟩ := eff_f80u16 F s b rest hs
  refine ⟨s', hrun, ?_, hst, hcw, hrsp⟩
  have hb : -(2 ^ (32 - 1) : Int) ≤ i ∧ i < 2 ^ (32 - 1) := by
    simp [ITy.inRange, ITy.min, ITy.max, ITy.signed, ITy.bits] at hin; omega
  rw [hrax, F.fistp32_rz _ _ (rc_cwOr s.cw), truncTo_fit 32 _ i htr hb.1 hb.2]
  exact tgt_x87_u16 i hin

theorem sel_f80_u32 (F : FpuSpec) (s : FState) (b : BitVec 80) (rest : List (BitVec 80)) (hs : s.st = b :: rest) (i : Int)
    (htr : (F.val80 b).trunc? = some i) (hin : ITy.u32.inRange i)  :
    ∃ s', run F (castSeq .f80 (.int .u32)) s = some s' ∧ RInt .u32 (s'.x.get .rax) i ∧ s'.st = rest ∧ s'.cw = s.cw ∧
      s'.x.get .rsp = s.x.get .rsp := by
  obtain ⟨s', hrun, hrax, hst, hcw, hrsp⟩ := eff_f80u32 F s b rest hs
  refine ⟨s', hrun, ?_, hst, hcw, hrsp⟩
  have hb : -(2 ^ (64 - 1) : Int) ≤ i ∧ i < 2 ^ (64 - 1) := by
    simp [ITy.inRange, ITy.min, ITy.max, ITy.signed, ITy.bits] at hin; omega
  rw [hrax, F.fistp64_rz _ _ (rc_cwOr s.cw), truncTo_fit 64 _ i htr hb.1 hb.2]
  exact tgt_x87_u32 i hin

/-- long double → unsigned long: the x87 form of the same sequence (`fcomi` with the extended 2^63, `fsub`, `fistpq` under
    RC = 11b, bit 63 from `setae`); the subtraction is exact in double extended precision -/
theorem sel_f80_u64 (F : FpuSpec) (s : FState) (b : BitVec 80) (rest : List (BitVec 80)) (hs : s.st = b :: rest) (i : Int)
    (htr : (F.val80 b).trunc? = some i) (hin : ITy.u64.inRange i) (hpc : ¬ i < 9223372036854775808 → pc s.cw = 3#2) :
    ∃ s', run F (castSeq .f80 (.int .u64)) s = some s' ∧ RInt .u64 (s'.x.get .rax) i ∧ s'.st = rest ∧ s'.cw = s.cw ∧
      s'.x.get .rsp = s.x.get .rsp := by
  have hr : 0 ≤ i ∧ i < 18446744073709551616 := by
    simp [ITy.inRange, ITy.min, ITy.max, ITy.signed, ITy.bits] at hin; omega
  have hcf := cf_two63 (F.val80 b) 9223372036854775808 0 (by decide) i htr
  have hcm : F.fcomi b (F.fld32 0x5f000000#32) = Val.cmp (F.val80 b) (.fin false 9223372036854775808 ((0 : Nat) : Int)) := by
    rw [F.fcomi_spec, F.val80_two63]; rfl
  obtain ⟨s', hrun, hrax, hst, hcw, hrsp⟩ := eff_f80u64 F s b rest hs
  refine ⟨s', hrun, ?_, hst, hcw, hrsp⟩
  rw [hrax, hcm]
  by_cases hlt : i < 9223372036854775808
  · rw [if_pos (hcf.2 hlt), F.fistp64_rz _ _ (rc_cwOr s.cw), truncTo_fit 64 _ i htr (by omega) (by omega)]
    exact tgt_x87_u64 i hin
  · have hcf0 : (Val.cmp (F.val80 b) (.fin false 9223372036854775808 ((0 : Nat) : Int))).flags.2.2 = false := by
      cases hc : (Val.cmp (F.val80 b) (.fin false 9223372036854775808 ((0 : Nat) : Int))).flags.2.2
      · rfl
      · exact absurd (hcf.1 hc) hlt
    have hsub := F.fsub_two63 s.cw b i (hpc hlt) htr (by omega) hr.2
    rw [hcf0]
    simp only [Bool.false_eq_true, if_false]
    rw [F.fistp64_rz _ _ (rc_cwOr s.cw), truncTo_fit 64 _ _ hsub (by omega) (by omega)]
    exact tgt_u64_above i (by omega) hr.2


/-! ### floating → _Bool: `cmp_zero`, `setne %al`, `movzx %al, %eax` -/

theorem truth_cmp_zero (v : Val) (n : Bool) (e : Int) : truth (Val.cmp v (.fin n 0 e)) = !v.isZero := by
  have := Val.cmp_zero_eq v n e
  cases h : Val.cmp v (.fin n 0 e) <;> cases hz : v.isZero <;> simp_all [truth]

theorem truth_cmp_zero_left (v : Val) (n : Bool) (e : Int) : truth (Val.cmp (.fin n 0 e) v) = !v.isZero := by
  have := Val.cmp_zero_left_eq v n e
  cases h : Val.cmp (.fin n 0 e) v <;> cases hz : v.isZero <;> simp_all [truth]

theorem sel_f32_bool (F : FpuSpec) (s : FState) (b : BitVec 32) (hs : s.xmm0.setWidth 32 = b) :
    ∃ s', run F (castSeq .f32 (.int .bool)) s = some s' ∧
      RInt .bool (s'.x.get .rax) (if (F.val32 b).isZero = true then 0 else 1) ∧ s'.st = s.st ∧ s'.cw = s.cw ∧
      s'.x.get .rsp = s.x.get .rsp := by
  obtain ⟨x, xmm0, xmm1, st, cw⟩ := s
  simp only at hs
  have hseq : castSeq .f32 (.int .bool) = ⟨"xorps", [.r "%xmm1", .r "%xmm1"]⟩ :: ⟨"ucomiss", [.r "%xmm1", .r "%xmm0"]⟩ ::
      instrsOf (cmpZeroTail ++ [ins1 "setne" (.r "%al"), ins2 "movzx" (.r "%al") (.r "%eax")]) := rfl
  simp only [hseq, Fp.run]
  rw [runFrom_step F _ _ _ _ rfl rfl rfl, runFrom_step F _ _ _ _ rfl rfl rfl]
  obtain ⟨s', hrun, hrax, hst, hcw, hrsp⟩ :=
    truth_bool F (F.ucomiss (xmm0.setWidth 32) ((xmm1 ^^^ xmm1).setWidth 32)) ⟨x, xmm0, xmm1 ^^^ xmm1, st, cw⟩
  refine ⟨s', hrun, ?_, hst, hcw, hrsp⟩
  rw [hrax, hs, BitVec.xor_self, BitVec.setWidth_zero, F.ucomiss_spec, F.val32_zero, truth_cmp_zero]
  exact b2bv_rint _

theorem sel_f64_bool (F : FpuSpec) (s : FState) (b : BitVec 64) (hs : s.xmm0 = b) :
    ∃ s', run F (castSeq .f64 (.int .bool)) s = some s' ∧
      RInt .bool (s'.x.get .rax) (if (F.val64 b).isZero = true then 0 else 1) ∧ s'.st = s.st ∧ s'.cw = s.cw ∧
      s'.x.get .rsp = s.x.get .rsp := by
  obtain ⟨x, xmm0, xmm1, st, cw⟩ := s
  simp only at hs
  have hseq : castSeq .f64 (.int .bool) = ⟨"xorpd", [.r "%xmm1", .r "%xmm1"]⟩ :: ⟨"ucomisd", [.r "%xmm1", .r "%xmm0"]⟩ ::
      instrsOf (cmpZeroTail ++ [ins1 "setne" (.r "%al"), ins2 "movzx" (.r "%al") (.r "%eax")]) := rfl
  simp only [hseq, Fp.run]
  rw [runFrom_step F _ _ _ _ rfl rfl rfl, runFrom_step F _ _ _ _ rfl rfl rfl]
  obtain ⟨s', hrun, hrax, hst, hcw, hrsp⟩ :=
    truth_bool F (F.ucomisd xmm0 (xmm1 ^^^ xmm1)) ⟨x, xmm0, xmm1 ^^^ xmm1, st, cw⟩
  refine ⟨s', hrun, ?_, hst, hcw, hrsp⟩
  rw [hrax, hs, BitVec.xor_self, F.ucomisd_spec, F.val64_zero, truth_cmp_zero]
  exact b2bv_rint _

theorem sel_f80_bool (F : FpuSpec) (s : FState) (b : BitVec 80) (rest : List (BitVec 80)) (hs : s.st = b :: rest) :
    ∃ s', run F (castSeq .f80 (.int .bool)) s = some s' ∧
      RInt .bool (s'.x.get .rax) (if (F.val80 b).isZero = true then 0 else 1) ∧ s'.st = rest ∧ s'.cw = s.cw ∧
      s'.x.get .rsp = s.x.get .rsp := by
  obtain ⟨x, xmm0, xmm1, st, cw⟩ := s
  simp only at hs
  subst hs
  have hseq : castSeq .f80 (.int .bool) = ⟨"fldz", []⟩ :: ⟨"fucomip", []⟩ :: ⟨"fstp", [.r "%st(0)"]⟩ ::
      instrsOf (cmpZeroTail ++ [ins1 "setne" (.r "%al"), ins2 "movzx" (.r "%al") (.r "%eax")]) := rfl
  simp only [hseq, Fp.run]
  rw [runFrom_step F _ _ _ _ rfl rfl rfl, runFrom_step F _ _ _ _ rfl rfl rfl, runFrom_step F _ _ _ _ rfl rfl rfl]
  obtain ⟨s', hrun, hrax, hst, hcw, hrsp⟩ := truth_bool F (F.fcomi F.fldz b) ⟨x, xmm0, xmm1, rest, cw⟩
  refine ⟨s', hrun, ?_, hst, hcw, hrsp⟩
  rw [hrax, F.fcomi_spec, F.val80_fldz, truth_cmp_zero_left]
  exact b2bv_rint _

/-! ### the selection theorem -/

theorem run_nil (F : FpuSpec) (s : FState) : run F [] s = some s := rfl

/-- **the instruction list chosen for (from, to) implements the C11 conversion**, for every machine state, every operand value
    and every FPU meeting the contract (the two cells that do x87 arithmetic: under the ABI's x87 precision) -/
theorem select (F : FpuSpec) (frm to : ATy) (s : FState) (x y : AVal)
    (hfp : frm.isFp = true ∨ to.isFp = true) (hh : Holds frm s x) (hc : convert F s.cw to x = some y)
    (hpc : usesX87Arith frm to = true → pc s.cw = 3#2) :
    ∃ s', run F (castSeq frm to) s = some s' ∧ Holds to s' y ∧ s'.cw = s.cw ∧ stBelow to s' = stBelow frm s ∧
      s'.x.get .rsp = s.x.get .rsp := by
  cases frm with
  | int f =>
    cases x with
    | int v =>
      cases to with
      | int t => simp [ATy.isFp] at hfp

      | f32 =>
        simp only [ChibiVerif.Spec.FpC11.convert, Option.some.injEq] at hc; subst hc
        cases f with
        | bool =>
          obtain ⟨s', hrun, hx, hst, hcw, hrsp⟩ := sel_bool_f32 F s v hh (by have := hh.1; simp [ITy.inRange, ITy.min, ITy.max, ITy.signed, ITy.bits] at this; omega)
          exact ⟨s', hrun, hx, hcw, by simp [stBelow, hst], hrsp⟩
        | i8 =>
          obtain ⟨s', hrun, hx, hst, hcw, hrsp⟩ := sel_i8_f32 F s v hh
          exact ⟨s', hrun, hx, hcw, by simp [stBelow, hst], hrsp⟩
        | i16 =>
          obtain ⟨s', hrun, hx, hst, hcw, hrsp⟩ := sel_i16_f32 F s v hh
          exact ⟨s', hrun, hx, hcw, by simp [stBelow, hst], hrsp⟩
        | i32 =>
          obtain ⟨s', hrun, hx, hst, hcw, hrsp⟩ := sel_i32_f32 F s v hh
          exact ⟨s', hrun, hx, hcw, by simp [stBelow, hst], hrsp⟩
        | i64 =>
          obtain ⟨s', hrun, hx, hst, hcw, hrsp⟩ := sel_i64_f32 F s v hh
          exact ⟨s', hrun, hx, hcw, by simp [stBelow, hst], hrsp⟩
        | u8 =>
          obtain ⟨s', hrun, hx, hst, hcw, hrsp⟩ := sel_u8_f32 F s v hh
          exact ⟨s', hrun, hx, hcw, by simp [stBelow, hst], hrsp⟩
        | u16 =>
          obtain ⟨s', hrun, hx, hst, hcw, hrsp⟩ := sel_u16_f32 F s v hh
          exact ⟨s', hrun, hx, hcw, by simp [stBelow, hst], hrsp⟩
        | u32 =>
          obtain ⟨s', hrun, hx, hst, hcw, hrsp⟩ := sel_u32_f32 F s v hh
          exact ⟨s', hrun, hx, hcw, by simp [stBelow, hst], hrsp⟩
        | u64 =>
          obtain ⟨s', hrun, hx, hst, hcw, hrsp⟩ := sel_u64_f32 F s v hh
          exact ⟨s', hrun, hx, hcw, by simp [stBelow, hst], hrsp⟩
      | f64 =>
        simp only [ChibiVerif.Spec.FpC11.convert, Option.some.injEq] at hc; subst hc
        cases f with
        | bool =>
          obtain ⟨s', hrun, hx, hst, hcw, hrsp⟩ := sel_bool_f64 F s v hh (by have := hh.1; simp [ITy.inRange, ITy.min, ITy.max, ITy.signed, ITy.bits] at this; omega)
          exact ⟨s', hrun, hx, hcw, by simp [stBelow, hst], hrsp⟩
        | i8 =>
          obtain ⟨s', hrun, hx, hst, hcw, hrsp⟩ := sel_i8_f64 F s v hh
          exact ⟨s', hrun, hx, hcw, by simp [stBelow, hst], hrsp⟩
        | i16 =>
          obtain ⟨s', hrun, hx, hst, hcw, hrsp⟩ := sel_i16_f64 F s v hh
          exact ⟨s', hrun, hx, hcw, by simp [stBelow, hst], hrsp⟩
        | i32 =>
          obtain ⟨s', hrun, hx, hst, hcw, hrsp⟩ := sel_i32_f64 F s v hh
          exact ⟨s', hrun, hx, hcw, by simp [stBelow, hst], hrsp⟩
        | i64 =>
          obtain ⟨s', hrun, hx, hst, hcw, hrsp⟩ := sel_i64_f64 F s v hh
          exact ⟨s', hrun, hx, hcw, by simp [stBelow, hst], hrsp⟩
        | u8 =>
          obtain ⟨s', hrun, hx, hst, hcw, hrsp⟩ := sel_u8_f64 F s v hh
          exact ⟨s', hrun, hx, hcw, by simp [stBelow, hst], hrsp⟩
        | u16 =>
          obtain ⟨s', hrun, hx, hst, hcw, hrsp⟩ := sel_u16_f64 F s v hh
          exact ⟨s', hrun, hx, hcw, by simp [stBelow, hst], hrsp⟩
        | u32 =>
          obtain ⟨s', hrun, hx, hst, hcw, hrsp⟩ := sel_u32_f64 F s v hh
          exact ⟨s', hrun, hx, hcw, by simp [stBelow, hst], hrsp⟩
        | u64 =>
          obtain ⟨s', hrun, hx, hst, hcw, hrsp⟩ := sel_u64_f64 F s v hh
          exact ⟨s', hrun, hx, hcw, by simp [stBelow, hst], hrsp⟩
      | f80 =>
        simp only [ChibiVerif.Spec.FpC11.convert, Option.some.injEq] at hc; subst hc
        cases f with
        | bool =>
          obtain ⟨s', hrun, hst, hcw, hrsp⟩ := sel_bool_f80 F s v hh (by have := hh.1; simp [ITy.inRange, ITy.min, ITy.max, ITy.signed, ITy.bits] at this; omega)
          exact ⟨s', hrun, ⟨s.st, hst⟩, hcw, by simp [stBelow, hst], hrsp⟩
        | i8 =>
          obtain ⟨s', hrun, hst, hcw, hrsp⟩ := sel_i8_f80 F s v hh
          exact ⟨s', hrun, ⟨s.st, hst⟩, hcw, by simp [stBelow, hst], hrsp⟩
        | i16 =>
          obtain ⟨s', hrun, hst, hcw, hrsp⟩ := sel_i16_f80 F s v hh
          exact ⟨s', hrun, ⟨s.st, hst⟩, hcw, by simp [stBelow, hst], hrsp⟩
        | i32 =>
          obtain ⟨s', hrun, hst, hcw, hrsp⟩ := sel_i32_f80 F s v hh
          exact ⟨s', hrun, ⟨s.st, hst⟩, hcw, by simp [stBelow, hst], hrsp⟩
        | i64 =>
          obtain ⟨s', hrun, hst, hcw, hrsp⟩ := sel_i64_f80 F s v hh
          exact ⟨s', hrun, ⟨s.st, hst⟩, hcw, by simp [stBelow, hst], hrsp⟩
        | u8 =>
          obtain ⟨s', hrun, hst, hcw, hrsp⟩ := sel_u8_f80 F s v hh
          exact ⟨s', hrun, ⟨s.st, hst⟩, hcw, by simp [stBelow, hst], hrsp⟩
        | u16 =>
          obtain ⟨s', hrun, hst, hcw, hrsp⟩ := sel_u16_f80 F s v hh
          exact ⟨s', hrun, ⟨s.st, hst⟩, hcw, by simp [stBelow, hst], hrsp⟩
        | u32 =>
          obtain ⟨s', hrun, hst, hcw, hrsp⟩ := sel_u32_f80 F s v hh
          exact ⟨s', hrun, ⟨s.st, hst⟩, hcw, by simp [stBelow, hst], hrsp⟩
        | u64 =>
          obtain ⟨s', hrun, hst, hcw, hrsp⟩ := sel_u64_f80 F s v hh (fun _ => hpc rfl)
          exact ⟨s', hrun, ⟨s.st, hst⟩, hcw, by simp [stBelow, hst], hrsp⟩
    | f32 b => exact absurd hh (by simp [Holds])
    | f64 b => exact absurd hh (by simp [Holds])
    | f80 b => exact absurd hh (by simp [Holds])
  | f32 =>
    cases x with
    | int v => exact absurd hh (by simp [Holds])
    | f64 b => exact absurd hh (by simp [Holds])
    | f80 b => exact absurd hh (by simp [Holds])
    | f32 b =>
      cases to with
      | int t =>
        simp only [ChibiVerif.Spec.FpC11.convert, Option.map_eq_some_iff] at hc
        obtain ⟨i, hi, rfl⟩ := hc
        cases t with
        | bool =>
          simp only [fpToInt, Option.some.injEq] at hi; subst hi
          obtain ⟨s', hrun, hr, hst, hcw, hrsp⟩ := sel_f32_bool F s b hh
          exact ⟨s', hrun, hr, hcw, by simp [stBelow, hst], hrsp⟩
        | i8 =>
          obtain ⟨htr, hin⟩ := fpToInt_some _ (by decide) _ _ hi
          obtain ⟨s', hrun, hr, hst, hcw, hrsp⟩ := sel_f32_i8 F s b hh i htr hin
          exact ⟨s', hrun, hr, hcw, by simp [stBelow, hst], hrsp⟩
        | i16 =>
          obtain ⟨htr, hin⟩ := fpToInt_some _ (by decide) _ _ hi
          obtain ⟨s', hrun, hr, hst, hcw, hrsp⟩ := sel_f32_i16 F s b hh i htr hin
          exact ⟨s', hrun, hr, hcw, by simp [stBelow, hst], hrsp⟩
        | i32 =>
          obtain ⟨htr, hin⟩ := fpToInt_some _ (by decide) _ _ hi
          obtain ⟨s', hrun, hr, hst, hcw, hrsp⟩ := sel_f32_i32 F s b hh i htr hin
          exact ⟨s', hrun, hr, hcw, by simp [stBelow, hst], hrsp⟩
        | i64 =>
          obtain ⟨htr, hin⟩ := fpToInt_some _ (by decide) _ _ hi
          obtain ⟨s', hrun, hr, hst, hcw, hrsp⟩ := sel_f32_i64 F s b hh i htr hin
          exact ⟨s', hrun, hr, hcw, by simp [stBelow, hst], hrsp⟩
        | u8 =>
          obtain ⟨htr, hin⟩ := fpToInt_some _ (by decide) _ _ hi
          obtain ⟨s', hrun, hr, hst, hcw, hrsp⟩ := sel_f32_u8 F s b hh i htr hin
          exact ⟨s', hrun, hr, hcw, by simp [stBelow, hst], hrsp⟩
        | u16 =>
          obtain ⟨htr, hin⟩ := fpToInt_some _ (by decide) _ _ hi
          obtain ⟨s', hrun, hr, hst, hcw, hrsp⟩ := sel_f32_u16 F s b hh i htr hin
          exact ⟨s', hrun, hr, hcw, by simp [stBelow, hst], hrsp⟩
        | u32 =>
          obtain ⟨htr, hin⟩ := fpToInt_some _ (by decide) _ _ hi
          obtain ⟨s', hrun, hr, hst, hcw, hrsp⟩ := sel_f32_u32 F s b hh i htr hin
          exact ⟨s', hrun, hr, hcw, by simp [stBelow, hst], hrsp⟩
        | u64 =>
          obtain ⟨htr, hin⟩ := fpToInt_some _ (by decide) _ _ hi
          obtain ⟨s', hrun, hr, hst, hcw, hrsp⟩ := sel_f32_u64 F s b hh i htr hin
          exact ⟨s', hrun, hr, hcw, by simp [stBelow, hst], hrsp⟩
      | f32 =>
        simp only [ChibiVerif.Spec.FpC11.convert, Option.some.injEq] at hc; subst hc
        exact ⟨s, run_nil F s, hh, rfl, rfl, rfl⟩
      | f64 =>
        simp only [ChibiVerif.Spec.FpC11.convert, Option.some.injEq] at hc; subst hc
        obtain ⟨s', hrun, hx, hst, hcw, hrsp⟩ := eff_f32f64 F s
        refine ⟨s', hrun, ?_, hcw, by simp [stBelow, hst], hrsp⟩
        simp only [Holds] at hh ⊢; rw [hx, hh]
      | f80 =>
        simp only [ChibiVerif.Spec.FpC11.convert, Option.some.injEq] at hc; subst hc
        obtain ⟨s', hrun, hst, hcw, hrsp⟩ := eff_f32f80 F s
        refine ⟨s', hrun, ⟨s.st, ?_⟩, hcw, by simp [stBelow, hst], hrsp⟩
        rw [hst]; simp only [Holds] at hh; rw [hh]
  | f64 =>
    cases x with
    | int v => exact absurd hh (by simp [Holds])
    | f32 b => exact absurd hh (by simp [Holds])
    | f80 b => exact absurd hh (by simp [Holds])
    | f64 b =>
      cases to with
      | int t =>
        simp only [ChibiVerif.Spec.FpC11.convert, Option.map_eq_some_iff] at hc
        obtain ⟨i, hi, rfl⟩ := hc
        cases t with
        | bool =>
          simp only [fpToInt, Option.some.injEq] at hi; subst hi
          obtain ⟨s', hrun, hr, hst, hcw, hrsp⟩ := sel_f64_bool F s b hh
          exact ⟨s', hrun, hr, hcw, by simp [stBelow, hst], hrsp⟩
        | i8 =>
          obtain ⟨htr, hin⟩ := fpToInt_some _ (by decide) _ _ hi
          obtain ⟨s', hrun, hr, hst, hcw, hrsp⟩ := sel_f64_i8 F s b hh i htr hin
          exact ⟨s', hrun, hr, hcw, by simp [stBelow, hst], hrsp⟩
        | i16 =>
          obtain ⟨htr, hin⟩ := fpToInt_some _ (by decide) _ _ hi
          obtain ⟨s', hrun, hr, hst, hcw, hrsp⟩ := sel_f64_i16 F s b hh i htr hin
          exact ⟨s', hrun, hr, hcw, by simp [stBelow, hst], hrsp⟩
        | i32 =>
          obtain ⟨htr, hin⟩ := fpToInt_some _ (by decide) _ _ hi
          obtain ⟨s', hrun, hr, hst, hcw, hrsp⟩ := sel_f64_i32 F s b hh i htr hin
          exact ⟨s', hrun, hr, hcw, by simp [stBelow, hst], hrsp⟩
        | i64 =>
          obtain ⟨htr, hin⟩ := fpToInt_some _ (by decide) _ _ hi
          obtain ⟨s', hrun, hr, hst, hcw, hrsp⟩ := sel_f64_i64 F s b hh i htr hin
          exact ⟨s', hrun, hr, hcw, by simp [stBelow, hst], hrsp⟩
        | u8 =>
          obtain ⟨htr, hin⟩ := fpToInt_some _ (by decide) _ _ hi
          obtain ⟨s', hrun, hr, hst, hcw, hrsp⟩ := sel_f64_u8 F s b hh i htr hin
          exact ⟨s', hrun, hr, hcw, by simp [stBelow, hst], hrsp⟩
        | u16 =>
          obtain ⟨htr, hin⟩ := fpToInt_some _ (by decide) _ _ hi
          obtain ⟨s', hrun, hr, hst, hcw, hrsp⟩ := sel_f64_u16 F s b hh i htr hin
          exact ⟨s', hrun, hr, hcw, by simp [stBelow, hst], hrsp⟩
        | u32 =>
          obtain ⟨htr, hin⟩ := fpToInt_some _ (by decide) _ _ hi
          obtain ⟨s', hrun, hr, hst, hcw, hrsp⟩ := sel_f64_u32 F s b hh i htr hin
          exact ⟨s', hrun, hr, hcw, by simp [stBelow, hst], hrsp⟩
        | u64 =>
          obtain ⟨htr, hin⟩ := fpToInt_some _ (by decide) _ _ hi
          obtain ⟨s', hrun, hr, hst, hcw, hrsp⟩ := sel_f64_u64 F s b hh i htr hin
          exact ⟨s', hrun, hr, hcw, by simp [stBelow, hst], hrsp⟩
      | f32 =>
        simp only [ChibiVerif.Spec.FpC11.convert, Option.some.injEq] at hc; subst hc
        obtain ⟨s', hrun, hx, hst, hcw, hrsp⟩ := eff_f64f32 F s
        refine ⟨s', hrun, ?_, hcw, by simp [stBelow, hst], hrsp⟩
        simp only [Holds] at hh ⊢; rw [hx, hh]
      | f64 =>
        simp only [ChibiVerif.Spec.FpC11.convert, Option.some.injEq] at hc; subst hc
        exact ⟨s, run_nil F s, hh, rfl, rfl, rfl⟩
      | f80 =>
        simp only [ChibiVerif.Spec.FpC11.convert, Option.some.injEq] at hc; subst hc
        obtain ⟨s', hrun, hst, hcw, hrsp⟩ := eff_f64f80 F s
        refine ⟨s', hrun, ⟨s.st, ?_⟩, hcw, by simp [stBelow, hst], hrsp⟩
        rw [hst]; simp only [Holds] at hh; rw [hh]
  | f80 =>
    cases x with
    | int v => exact absurd hh (by simp [Holds])
    | f32 b => exact absurd hh (by simp [Holds])
    | f64 b => exact absurd hh (by simp [Holds])
    | f80 b =>
      obtain ⟨rest, hrest⟩ := hh
      cases to with
      | int t =>
        simp only [ChibiVerif.Spec.FpC11.convert, Option.map_eq_some_iff] at hc
        obtain ⟨i, hi, rfl⟩ := hc
        cases t with
        | bool =>
          simp only [fpToInt, Option.some.injEq] at hi; subst hi
          obtain ⟨s', hrun, hr, hst, hcw, hrsp⟩ := sel_f80_bool F s b rest hrest
          exact ⟨s', hrun, hr, hcw, by simp [stBelow, hst, hrest], hrsp⟩
        | i8 =>
          obtain ⟨htr, hin⟩ := fpToInt_some _ (by decide) _ _ hi
          obtain ⟨s', hrun, hr, hst, hcw, hrsp⟩ := sel_f80_i8 F s b rest hrest i htr hin
          exact ⟨s', hrun, hr, hcw, by simp [stBelow, hst, hrest], hrsp⟩
        | i16 =>
          obtain ⟨htr, hin⟩ := fpToInt_some _ (by decide) _ _ hi
          obtain ⟨s', hrun, hr, hst, hcw, hrsp⟩ := sel_f80_i16 F s b rest hrest i htr hin
          exact ⟨s', hrun, hr, hcw, by simp [stBelow, hst, hrest], hrsp⟩
        | i32 =>
          obtain ⟨htr, hin⟩ := fpToInt_some _ (by decide) _ _ hi
          obtain ⟨s', hrun, hr, hst, hcw, hrsp⟩ := sel_f80_i32 F s b rest hrest i htr hin
          exact ⟨s', hrun, hr, hcw, by simp [stBelow, hst, hrest], hrsp⟩
        | i64 =>
          obtain ⟨htr, hin⟩ := fpToInt_some _ (by decide) _ _ hi
          obtain ⟨s', hrun, hr, hst, hcw, hrsp⟩ := sel_f80_i64 F s b rest hrest i htr hin
          exact ⟨s', hrun, hr, hcw, by simp [stBelow, hst, hrest], hrsp⟩
        | u8 =>
          obtain ⟨htr, hin⟩ := fpToInt_some _ (by decide) _ _ hi
          obtain ⟨s', hrun, hr, hst, hcw, hrsp⟩ := sel_f80_u8 F s b rest hrest i htr hin
          exact ⟨s', hrun, hr, hcw, by simp [stBelow, hst, hrest], hrsp⟩
        | u16 =>
          obtain ⟨htr, hin⟩ := fpToInt_some _ (by decide) _ _ hi
          obtain ⟨s', hrun, hr, hst, hcw, hrsp⟩ := sel_f80_u16 F s b rest hrest i htr hin
          exact ⟨s', hrun, hr, hcw, by simp [stBelow, hst, hrest], hrsp⟩
        | u32 =>
          obtain ⟨htr, hin⟩ := fpToInt_some _ (by decide) _ _ hi
          obtain ⟨s', hrun, hr, hst, hcw, hrsp⟩ := sel_f80_u32 F s b rest hrest i htr hin
          exact ⟨s', hrun, hr, hcw, by simp [stBelow, hst, hrest], hrsp⟩
        | u64 =>
          obtain ⟨htr, hin⟩ := fpToInt_some _ (by decide) _ _ hi
          obtain ⟨s', hrun, hr, hst, hcw, hrsp⟩ := sel_f80_u64 F s b rest hrest i htr hin (fun _ => hpc rfl)
          exact ⟨s', hrun, hr, hcw, by simp [stBelow, hst, hrest], hrsp⟩
      | f32 =>
        simp only [ChibiVerif.Spec.FpC11.convert, Option.some.injEq] at hc; subst hc
        obtain ⟨s', hrun, hx, hst, hcw, hrsp⟩ := eff_f80f32 F s b rest hrest
        exact ⟨s', hrun, hx, hcw, by simp [stBelow, hst, hrest], hrsp⟩
      | f64 =>
        simp only [ChibiVerif.Spec.FpC11.convert, Option.some.injEq] at hc; subst hc
        obtain ⟨s', hrun, hx, hst, hcw, hrsp⟩ := eff_f80f64 F s b rest hrest
        exact ⟨s', hrun, hx, hcw, by simp [stBelow, hst, hrest], hrsp⟩
      | f80 =>
        simp only [ChibiVerif.Spec.FpC11.convert, Option.some.injEq] at hc; subst hc
        exact ⟨s, run_nil F s, ⟨rest, hrest⟩, rfl, rfl, rfl⟩

end ChibiVerif.Fp
