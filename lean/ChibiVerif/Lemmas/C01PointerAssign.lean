/-
C01: compound assignment and `++` / `--` on pointers (parse.c `to_assign` / `new_inc_dec` over `new_add` / `new_sub`):
`p += i`, `p -= i`, `++p`, `--p` (`ptrOpAssignCode`: `tmp = &p, *tmp = *tmp ± i * sizeof *p` through the hidden pointer
temporary) and `p++`, `p--` (`ptrPostCode`: `(T*)((p += ±1) + ∓1)`), in the judgment `EvX` (Lemmas/C01Machine.lean), so
that the index may be any expression `compileX` handles, side effects included.

The pointer lives in an 8-byte variable of the frame (type `unsigned long` in the store, as in `C01_ptr_add`); addresses are
taken modulo 2^64.
-/
import ChibiVerif.Lemmas.C01EffectsValue
import ChibiVerif.Lemmas.C01Pointer

namespace ChibiVerif.C01
open ChibiVerif.X86 ChibiVerif.Asm ChibiVerif.Spec.IntSpec ChibiVerif.Gen.CommonType ChibiVerif.C01Codegen

theorem castSeq_u64_u64 : castSeq .u64 .u64 = [] := by decide

theorem ofInt64_emod (v : Int) : BitVec.ofInt 64 (v % 18446744073709551616) = BitVec.ofInt 64 v := by
  apply BitVec.eq_of_toNat_eq
  simp only [BitVec.toNat_ofInt]
  omega

/-- a register that is `v` modulo 2^64 represents `v mod 2^64` as an `unsigned long` -/
theorem rep_u64_of_eq (r : BitVec 64) (v : Int) (h : r = BitVec.ofInt 64 v) : Represents .u64 r (v % 18446744073709551616) := by
  rw [rep_u64, h, BitVec.toNat_ofInt]
  omega

theorem convert_u64_emod (v : Int) : convert .u64 (v % 18446744073709551616) = v % 18446744073709551616 := by
  simp [convert, wrap, ITy.signed, ITy.bits]

section
variable {off toff : Nat → Int} {K : Nat}

/-- a weaker postcondition on `%rax` -/
theorem EvX.post {c : List Ins} {σ σ' : Env} {R R2 : BitVec 64 → Prop} {W : List Nat} {k0 k1 d : Nat}
    (h : EvX off toff K c σ σ' R W k0 k1 d) (hr : ∀ r, R r → R2 r) : EvX off toff K c σ σ' R2 W k0 k1 d := by
  refine ⟨h.1, ?_⟩
  intro m n B l hdn hsp hB hH
  obtain ⟨m1, r1, p1, H1, u1⟩ := h.2 m n B l hdn hsp hB hH
  exact ⟨m1, r1, hr _ p1, H1, u1⟩

/-- **the scaled index** `idx * sizeof *p` for an index computed by any code in the judgment (side effects included): a
    64-bit multiplication of the sign/zero-extended index, modulo 2^64 -/
theorem EvX.scale {ci : List Ins} {σ σ1 : Env} {W : List Nat} {k0 k1 d : Nat} (ti : ITy) (size vi : Int)
    (hs : ITy.i64.inRange size) (hi : EvX off toff K ci σ σ1 (fun r => Represents ti r vi) W k0 k1 d) (hk : k0 ≤ k1)
    (hK : k1 ≤ K) :
    EvX off toff K (scaleCode ti size ci) σ σ1 (fun r => r = BitVec.ofInt 64 (vi * size)) W k0 k1 (d + 1) := by
  have htm := usualArith_i64 ti
  have hr := (EvX.lit (off := off) (toff := toff) (K := K) σ .i64 size hs k0).then_same
    (R2 := fun r => Represents (usualArith ti .i64) r (convert (usualArith ti .i64) size)) (fun s h => cast_run .i64 _ s size h)
  have hl := hi.then_same (R2 := fun r => Represents (usualArith ti .i64) r (convert (usualArith ti .i64) vi))
    (fun s h => cast_run ti _ s vi h)
  have := EvX.bin (k0 := k0) (k1 := k1) hr hl (cop := opSeq .ND_MUL (usualArith ti .i64))
    (Rres := fun r => r = BitVec.ofInt 64 (vi * size))
    (fun s hax hdi => by
      rw [opSeq_mul64 _ htm]
      obtain ⟨s', h1, h2, h3⟩ := mul64_run s
      refine ⟨s', h1, ?_, h3⟩
      rw [h2, rep64_eq _ htm _ _ hax, rep64_eq _ htm _ _ hdi, BitVec.ofInt_mul])
    ⟨Nat.le_refl _, hk, Nat.le_refl _, Nat.le_refl _⟩ hK
  simpa [scaleCode, List.append_assoc] using this

theorem ptrOpAssignCode_eq (isSub : Bool) (ti : ITy) (size : Int) (offP tmp : Int) (ci : List Ins) :
    ptrOpAssignCode isSub ti size offP tmp ci =
      opAssignNF (if isSub then .ND_SUB else .ND_ADD) .u64 .u64 .u64 offP tmp (scaleCode ti size ci) [] := by
  simp [ptrOpAssignCode, ptrAddCode, opAssignNF, List.append_assoc, castSeq_u64_u64]

/-- the new value of the pointer -/
def ptrStep (isSub : Bool) (pv vi size : Int) : Int := if isSub then pv - vi * size else pv + vi * size

/-- **`p += i`, `p -= i`** (`++p`, `--p`) through the hidden pointer temporary `k1`: the pointer variable `j` receives
    `p ± idx * size` modulo 2^64, which is also the value of the expression; the index is evaluated once, before `*tmp` is
    read -/
theorem EvX.ptr_opassign (isSub : Bool) {ci : List Ins} {σ σ1 : Env} {W : List Nat} {k0 k1 d j : Nat} (ti : ITy)
    (size vi pv : Int) (hs : ITy.i64.inRange size) (hj : σ.tys[j]? = some .u64)
    (hi : EvX off toff K ci σ σ1 (fun r => Represents ti r vi) W k0 k1 d) (hpv : σ1.vals[j]? = some pv)
    (hk0 : k0 ≤ k1) (hk1 : k1 < K) :
    EvX off toff K (ptrOpAssignCode isSub ti size (off j) (toff k1) ci) σ
      (σ1.set j (ptrStep isSub pv vi size % 18446744073709551616))
      (fun r => r = BitVec.ofInt 64 (ptrStep isSub pv vi size)) (j :: W) k0 (k1 + 1) (d + 2) := by
  rw [ptrOpAssignCode_eq]
  have hsc := (EvX.scale ti size vi hs hi hk0 (by omega)).post
    (R2 := fun r => Represents .u64 r (vi * size % 18446744073709551616)) (fun r h => rep_u64_of_eq r _ h)
  have := EvX.opassign (castB := []) (Rr := fun r => Represents .u64 r (vi * size % 18446744073709551616)) (t := .u64)
    (tres := .u64) (x := pv) (y := ptrStep isSub pv vi size % 18446744073709551616)
    (nk := if isSub then .ND_SUB else .ND_ADD) hj hsc (fun s h => ⟨s, rfl, h, Same.refl s⟩) hpv
    (fun s hax hdi => by
      have eax := rep64_eq .u64 (Or.inr rfl) _ _ hax
      have edi := rep_u64_eq _ _ hdi
      cases isSub
      · obtain ⟨s', h1, h2, h3⟩ := add64_run s
        refine ⟨s', h1, ?_, h3⟩
        have : s'.get .rax = BitVec.ofInt 64 (pv + vi * size) := by
          rw [h2, eax, edi, ofInt64_emod, BitVec.ofInt_add]
        simpa [ptrStep] using rep_u64_of_eq _ _ this
      · obtain ⟨s', h1, h2, h3⟩ := sub64_run .u64 (Or.inr rfl) s
        refine ⟨s', h1, ?_, h3⟩
        have : s'.get .rax = BitVec.ofInt 64 (pv - vi * size) := by
          rw [h2, eax, edi, ofInt64_emod, ofInt_sub64]
        simpa [ptrStep] using rep_u64_of_eq _ _ this)
    hk0 hk1
  rw [convert_u64_emod] at this
  have h2 := this.post (R2 := fun r => r = BitVec.ofInt 64 (ptrStep isSub pv vi size))
    (fun r h => by rw [rep_u64_eq r _ h, ofInt64_emod])
  have hd : max (d + 1 + 1) 2 = d + 2 := by omega
  rw [hd] at h2
  exact h2

/-- **`p++`, `p--`**: `(T*)((p += ±1) + ∓1)` — the value is the old pointer, the variable receives `p ± size` -/
theorem EvX.ptr_postfix (isDec : Bool) {σ : Env} {k0 j : Nat} (size pv : Int) (hs : ITy.i64.inRange size)
    (hj : σ.tys[j]? = some .u64) (hpv : σ.vals[j]? = some pv) (hk : k0 < K) :
    EvX off toff K (ptrPostCode isDec size (off j) (toff k0)) σ
      (σ.set j ((if isDec then pv - size else pv + size) % 18446744073709551616))
      (fun r => r = BitVec.ofInt 64 pv) [j] k0 (k0 + 1) 3 := by
  have ha : ITy.i32.inRange (if isDec then (1 : Int) else -1) := by cases isDec <;> decide
  have hb : ITy.i32.inRange (if isDec then (-1 : Int) else 1) := by cases isDec <;> decide
  have hr := EvX.scale (off := off) (toff := toff) (K := K) .i32 size _ hs (EvX.lit σ .i32 _ ha k0) (Nat.le_refl _) (by omega)
  have hl := EvX.ptr_opassign (off := off) (toff := toff) (K := K) false .i32 size _ pv hs hj (EvX.lit σ .i32 _ hb k0) hpv
    (Nat.le_refl _) hk
  have := EvX.bin (k0 := k0) (k1 := k0 + 1) hr hl (cop := opSeq .ND_ADD .u64) (Rres := fun r => r = BitVec.ofInt 64 pv)
    (fun s hax hdi => by
      obtain ⟨s', h1, h2, h3⟩ := add64_run s
      refine ⟨s', h1, ?_, h3⟩
      rw [h2, hax, hdi, ← BitVec.ofInt_add]
      congr 1
      cases isDec <;> simp [ptrStep] <;> omega)
    ⟨Nat.le_refl _, by omega, Nat.le_refl _, Nat.le_refl _⟩ (by omega)
  have hv : ptrStep false pv (if isDec then (-1 : Int) else 1) size = (if isDec then pv - size else pv + size) := by
    cases isDec <;> simp [ptrStep] <;> omega
  rw [hv] at this
  simpa [ptrPostCode, ptrAddCode, List.append_assoc] using this

end

/-! ### a concrete instance: `int *p = (int *)0x100000000000; int i = 600000000`, one hidden temporary at -24(%rbp) -/

def ptrToff : Nat → Int := fun k => -24 - 8 * (k : Int)

theorem ptrFrameX : FrameX ptrEnv exOff ptrToff 1 3 ptrState :=
  ⟨by decide, lay_of_layoutOK ptrEnv.tys exOff ptrToff 1 4096 (by decide) _ _ (by decide) (by decide),
   fun i t v ht hv => (ptrFrame.2 i t v ht hv).1⟩

end ChibiVerif.C01
