/-
Helper lemmas for C15_symbols_partial: the list `parse` returns (after the root loop and `scan_globals`),
object by object, in terms of the state `declAll` reached.

* a function object of the result is `find_func(f)` of that state with `is_live` set to what the root loop
  computed, and every function has its object;
* a non-tentative data object of the result is one of the data objects `parse` created (`allNews`), unchanged,
  and each of those is in the result;
* a tentative one is one of them up to its type.
-/
import ChibiVerif.Lemmas.LinkageLemmas
import ChibiVerif.Lemmas.LinkageParse
import ChibiVerif.Lemmas.LinkageScan
import ChibiVerif.Lemmas.LinkageTent
import ChibiVerif.Lemmas.LinkageEmit
import ChibiVerif.Lemmas.LinkageView
import ChibiVerif.Lemmas.LinkageExact
import ChibiVerif.Lemmas.LinkageData
import ChibiVerif.Lemmas.LinkagePre

namespace ChibiVerif.Linkage
open ChibiVerif.Spec.Linkage

variable [Rules]

/-! ### `mark_live` does not touch data -/

omit [Rules] in
theorem dataOf_setLive (gs : List Obj) (f : Name) : dataOf (setLive gs f) = dataOf gs :=
  dataOf_updFunc (u := fun o => { o with isLive := true }) (fun _ => ⟨rfl, rfl⟩) gs f

omit [Rules] in
theorem dataOf_markLive : ∀ (n : Nat) (gs : List Obj) (f : Name) (gs' : List Obj), markLive n gs f = some gs' →
    dataOf gs' = dataOf gs := by
  intro n
  induction n with
  | zero =>
    intro gs f gs' h
    unfold markLive at h
    split at h
    · cases h; rfl
    · split at h
      · cases h; rfl
      · cases h
  | succ n ih =>
    intro gs f gs' h
    unfold markLive at h
    split at h
    · cases h; rfl
    · rename_i o _
      split at h
      · cases h; rfl
      · have loop : ∀ (l : List Name) (g0 g' : List Obj), l.foldlM (fun gs g => markLive n gs g) g0 = some g' →
            dataOf g' = dataOf g0 := by
          intro l
          induction l with
          | nil => intro g0 g' hh; simp only [List.foldlM_nil, pure, Option.some.injEq] at hh; rw [hh]
          | cons r rs ihl =>
            intro g0 g' hh
            simp only [List.foldlM_cons, bind, Option.bind] at hh
            split at hh
            · cases hh
            · rename_i g1 h1
              rw [ihl g1 g' hh, ih g0 r g1 h1]
        rw [loop o.refs _ gs' h, dataOf_setLive]

theorem dataOf_markRoots {gs gs' : List Obj} (h : markRoots gs = some gs') : dataOf gs' = dataOf gs := by
  unfold markRoots at h
  have loop : ∀ (l : List Name) (g0 g' : List Obj), l.foldlM (fun gs r => markLive gs.length gs r) g0 = some g' →
      dataOf g' = dataOf g0 := by
    intro l
    induction l with
    | nil => intro g0 g' hh; simp only [List.foldlM_nil, pure, Option.some.injEq] at hh; rw [hh]
    | cons r rs ihl =>
      intro g0 g' hh
      simp only [List.foldlM_cons, bind, Option.bind] at hh
      split at hh
      · cases hh
      · rename_i g1 h1
        rw [ihl g1 g' hh, dataOf_markLive _ g0 r g1 h1]
  exact loop _ gs gs' h

/-! ### function objects carry identifiers -/

def FnNamed (gs : List Obj) : Prop := ∀ o, o ∈ gs → o.isFunction = true → ∃ f, o.sym = .named f

omit [Rules] in
theorem fnNamed_evolves {gs gs' : List Obj} (h : Evolves gs gs') (w : FnNamed gs) : FnNamed gs' := by
  induction h with
  | refl => exact w
  | upd p u hu _ ih =>
    intro o' ho' hf
    obtain ⟨o, ho, hh⟩ := mem_updFirst ho'
    rcases hh with rfl | rfl
    · exact ih _ ho hf
    · rw [(hu o).1] at hf
      rw [(hu o).2.1]
      exact ih o ho hf
  | consData o hfd _ _ ih =>
    intro x hx hf
    rcases List.mem_cons.mp hx with rfl | hx
    · rw [hfd] at hf; cases hf
    · exact ih x hx hf
  | consFn o f _ hs _ _ _ _ ih =>
    intro x hx hf
    rcases List.mem_cons.mp hx with rfl | hx
    · exact ⟨f, hs⟩
    · exact ih x hx hf

theorem fnNamed_declAll {ds : List Decl} {st : PState} (h : declAll {} ds = .ok st) : FnNamed st.globals :=
  fnNamed_evolves (evolves_declAll ds h) (fun _ ho => absurd ho List.not_mem_nil)

omit [Rules] in
theorem LiveUpd.mem_left {gs gs' : List Obj} (h : LiveUpd gs gs') {o : Obj} (ho : o ∈ gs) :
    ∃ o', o' ∈ gs' ∧ (o' = o ∨ o' = { o with isLive := true }) := by
  induction h with
  | nil => cases ho
  | cons hr _ ih =>
    rcases List.mem_cons.mp ho with rfl | ho
    · exact ⟨_, List.mem_cons_self, hr⟩
    · obtain ⟨o', hm, hh⟩ := ih ho
      exact ⟨o', List.mem_cons_of_mem _ hm, hh⟩

omit [Rules] in
theorem mem_dataOf {l : List Obj} {o : Obj} : o ∈ dataOf l ↔ o ∈ l ∧ o.isFunction = false := by
  simp [dataOf, List.mem_filter]

/-! ### the three phases -/

/-- `parse` ran: declarations, root loop, `scan_globals` -/
structure Parsed (ds : List Decl) (st : PState) (gs1 gs : List Obj) : Prop where
  hst : declAll {} ds = .ok st
  hm : markRoots st.globals = some gs1
  hgs : gs = scanGlobals gs1

theorem Parsed.parseUnit {ds : List Decl} {st : PState} {gs1 gs : List Obj} (p : Parsed ds st gs1 gs) :
    parseUnit ds = .ok gs := by
  simp [ChibiVerif.Linkage.parseUnit, p.hst, p.hm, p.hgs, bind, Except.bind, pure, Except.pure]

theorem parsed_of_declAll {ds : List Decl} {st : PState} (h : declAll {} ds = .ok st) :
    ∃ gs1, Parsed ds st gs1 (scanGlobals gs1) := by
  obtain ⟨gs1, hm, _, _⟩ := markRoots_spec st.globals (wf_declAll h).noneLive
  exact ⟨gs1, h, hm, rfl⟩

section
variable {ds : List Decl} {st : PState} {gs1 gs : List Obj} (p : Parsed ds st gs1 gs)
include p

theorem Parsed.ext : Ext st.globals gs1 := by
  obtain ⟨gs1', hm, he, _⟩ := markRoots_spec st.globals (wf_declAll p.hst).noneLive
  rw [p.hm] at hm; cases hm
  exact he

theorem Parsed.live (x : Name) : liveFn gs1 x = true ↔ ∃ r, r ∈ rootNames st.globals ∧ Reach st.globals r x := by
  obtain ⟨gs1', hm, _, hl⟩ := markRoots_spec st.globals (wf_declAll p.hst).noneLive
  rw [p.hm] at hm; cases hm
  exact hl x

theorem Parsed.fnNotTent1 : FnNotTent gs1 := p.ext.upd.fnNotTent (wf_declAll p.hst).fnNotTent

theorem Parsed.nodup1 : (fnNamesOf gs1).Nodup := by rw [p.ext.upd.fnNamesOf]; exact (wf_declAll p.hst).nodup

theorem Parsed.data1 : dataOf gs1 = allNews 0 env0 ds := by rw [dataOf_markRoots p.hm, dataOf_parse p.hst]

theorem Parsed.fnNotTent2 : FnNotTent (preScan gs1) := fnNotTent_preScan p.fnNotTent1

/-- a function object of the result -/
theorem Parsed.fn_of_mem {o : Obj} (ho : o ∈ gs) (hf : o.isFunction = true) :
    ∃ f o0, findFunc st.globals f = some o0 ∧ o = { o0 with isLive := liveFn gs1 f } := by
  rw [p.hgs] at ho
  have ho1 : o ∈ gs1 := (mem_preScan_fn hf).mp ((mem_scanCore_fn p.fnNotTent2 hf).mp ho)
  obtain ⟨o0, ho0, hh⟩ := p.ext.upd.mem ho1
  have hf0 : o0.isFunction = true := by rcases hh with rfl | rfl <;> exact hf
  obtain ⟨f, hs0⟩ := fnNamed_declAll p.hst o0 ho0 hf0
  have hs : o.sym = .named f := by rcases hh with rfl | rfl <;> exact hs0
  have hlive := isLive_eq_liveFn p.nodup1 ho1 hf hs
  have h0 : o0.isLive = false := (wf_declAll p.hst).noneLive o0 ho0
  refine ⟨f, o0, findFunc_of_mem (wf_declAll p.hst).nodup ho0 hf0 hs0, ?_⟩
  rcases hh with rfl | rfl
  · rw [← hlive, h0]
    cases o
    simp_all
  · rw [← hlive]

/-- every function has its object in the result -/
theorem Parsed.mem_of_fn {f : Name} {o0 : Obj} (h0 : findFunc st.globals f = some o0) :
    ({ o0 with isLive := liveFn gs1 f } : Obj) ∈ gs := by
  have ho0 : o0 ∈ st.globals := List.mem_of_find?_eq_some h0
  have hp := List.find?_some h0
  simp only [Bool.and_eq_true, beq_iff_eq] at hp
  obtain ⟨o', ho', hh⟩ := p.ext.upd.mem_left ho0
  have hf' : o'.isFunction = true := by rcases hh with rfl | rfl <;> exact hp.1
  have hs' : o'.sym = .named f := by rcases hh with rfl | rfl <;> exact hp.2
  have hlive := isLive_eq_liveFn p.nodup1 ho' hf' hs'
  have hl0 : o0.isLive = false := (wf_declAll p.hst).noneLive o0 ho0
  have : o' = { o0 with isLive := liveFn gs1 f } := by
    rcases hh with rfl | rfl
    · rw [← hlive, hl0]
      cases o'
      simp_all
    · rw [← hlive]
  rw [← this, p.hgs]
  exact (mem_scanCore_fn p.fnNotTent2 hf').mpr ((mem_preScan_fn hf').mpr ho')

/-- the functions of the result are found as in the list the root loop left -/
theorem Parsed.findFunc_gs (f : Name) : findFunc gs f = findFunc gs1 f := by
  rw [p.hgs]
  unfold scanGlobals
  rw [findFunc_scanCore p.fnNotTent2, findFunc_preScan]

/-- a non-tentative data object of the result is one of the objects `parse` created (after the pass in front of
    `scan_globals`) -/
theorem Parsed.data_nt_of_mem {o : Obj} (ho : o ∈ gs) (hf : o.isFunction = false) (ht : o.isTentative = false) :
    ∃ a, a ∈ allNews 0 env0 ds ∧ o = preOne gs1 a := by
  rw [p.hgs] at ho
  have : o ∈ (scanCore (preScan gs1)).filter notTent := List.mem_filter.mpr ⟨ho, by simp [notTent, ht]⟩
  rw [filter_notTent_scanCore] at this
  obtain ⟨a, ha, rfl⟩ := mem_preScan.mp (List.mem_filter.mp this).1
  refine ⟨a, ?_, rfl⟩
  rw [← p.data1]
  obtain ⟨t, hta⟩ := preOne_same gs1 a
  exact mem_dataOf.mpr ⟨ha, by rw [hta] at hf; exact hf⟩

/-- ... and each of those is in the result -/
theorem Parsed.mem_of_data_nt {a : Obj} (ha : a ∈ allNews 0 env0 ds) (ht : a.isTentative = false) : preOne gs1 a ∈ gs := by
  rw [← p.data1] at ha
  have h1 := (mem_dataOf.mp ha).1
  obtain ⟨t, hta⟩ := preOne_same gs1 a
  have : preOne gs1 a ∈ (preScan gs1).filter notTent :=
    List.mem_filter.mpr ⟨mem_preScan.mpr ⟨a, h1, rfl⟩, by rw [hta]; simp [notTent, ht]⟩
  rw [← filter_notTent_scanCore] at this
  rw [p.hgs]
  exact (List.mem_filter.mp this).1

/-- a data object of the result is, up to its type, one of the objects `parse` created and `scan_globals` kept -/
theorem Parsed.data_of_mem {o : Obj} (ho : o ∈ gs) (hf : o.isFunction = false) :
    ∃ a, a ∈ allNews 0 env0 ds ∧ preOne gs1 a ∈ scanPure (preScan gs1) (preScan gs1) ∧ SameButTy o (preOne gs1 a) ∧ SameButTy o a := by
  rw [p.hgs] at ho
  obtain ⟨a2, ha2, hsame⟩ := (scanCore_tyRel (preScan gs1)).mem ho
  obtain ⟨a, ha, rfl⟩ := mem_preScan.mp (scanPure_sub _ _ a2 ha2)
  have hsa := (preOne_same gs1 a).trans hsame
  have hfa : a.isFunction = false := by obtain ⟨t, rfl⟩ := hsa; exact hf
  refine ⟨a, ?_, ha2, hsame, hsa⟩
  rw [← p.data1]
  exact mem_dataOf.mpr ⟨ha, hfa⟩

/-- a function object named `x` exists only if `x` is declared as a function -/
theorem Parsed.fn_declared {o : Obj} {x : Name} (ho : o ∈ gs1) (hf : o.isFunction = true) (hs : o.sym = .named x) :
    (firstFlags ds x).isSome = true := by
  have h1 : isFn gs1 x = true := by
    unfold isFn
    rw [findFunc_of_mem p.nodup1 ho hf hs]; rfl
  rw [p.ext.isFn] at h1
  rw [isFn_eq_T, T_parse p.hst] at h1
  obtain ⟨hnone, _⟩ := evolve_none ds x
  cases hff : firstFlags ds x with
  | none => rw [hnone hff] at h1; cases h1
  | some _ => rfl

end

end ChibiVerif.Linkage
