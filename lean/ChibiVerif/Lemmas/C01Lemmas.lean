/-
Helper definitions and lemmas for Props/C01.lean.

* `Represents t r v`: the representation invariant of codegen.c (comment above `load`): a register holds the value `v`
  of type `t` — 64-bit types and `_Bool` in the whole register, everything else in the low 32 bits, already
  sign- or zero-extended from the type's width (so: `r ≡ v (mod 2^32)` with `v` in the type's range).
* the instruction sequences the model attributes to each conversion / operator (`castSeq`, `opSeq`, `unSeq`),
  taken from `Model/C01Codegen` over the *generated* tables;
* per distinct instruction sequence one *effect lemma* (what it leaves in `%rax`, for every machine state),
  and per (sequence, type) the arithmetic lemma that the effect is the C11 result.

Proof style: unfold to `toNat`/`Int` arithmetic (`bv_ints`), split the finitely many `if`s, `omega`.
-/
import ChibiVerif.Model.X86
import ChibiVerif.Model.C01Codegen
import ChibiVerif.Model.C01Expr
import ChibiVerif.Spec.IntSpec

namespace ChibiVerif.C01
open ChibiVerif.X86 ChibiVerif.Asm ChibiVerif.Spec.IntSpec ChibiVerif.Gen.CommonType ChibiVerif.C01Codegen

-- `descr` (the chibicc type descriptor of a C11 integer type) and `castSeq` are defined in Model/C01Expr.lean

/-- the C11 integer type a chibicc descriptor denotes (an enumerated type is compatible with `int`);
    `none` for non-integer descriptors and for descriptors that denote no type (e.g. a 3-byte int) -/
def ityOf (d : TyD) : Option ITy :=
  match d.kind, d.size, d.isUnsigned with
  | .TY_BOOL, 1, false => some .bool
  | .TY_CHAR, 1, false => some .i8 | .TY_CHAR, 1, true => some .u8
  | .TY_SHORT, 2, false => some .i16 | .TY_SHORT, 2, true => some .u16
  | .TY_INT, 4, false => some .i32 | .TY_INT, 4, true => some .u32
  | .TY_ENUM, 4, false => some .i32
  | .TY_LONG, 8, false => some .i64 | .TY_LONG, 8, true => some .u64
  | _, _, _ => none

/-- the ten integer descriptors: the nine C11 types and the enumerated type -/
def allDescr : List TyD := ITy.all.map descr ++ [ty_enum]

/-- **Representation invariant.**  `v` is in the range of `t`; 64-bit types and `_Bool` occupy the whole register,
    all other types the low 32 bits, as the sign- or zero-extension of `v` (i.e. congruent to `v` modulo 2^32). -/
def Represents (t : ITy) (r : BitVec 64) (v : Int) : Prop :=
  t.inRange v ∧
  match t with
  | .i64 | .u64 | .bool => (r.toNat : Int) = v % 18446744073709551616
  | _ => ((r.toNat % 4294967296 : Nat) : Int) = v % 4294967296

/-- the same invariant in the wording of DESIGN.md §6 C01 -/
theorem represents_iff (t : ITy) (r : BitVec 64) (v : Int) :
    Represents t r v ↔ t.inRange v ∧
      (if t.size = 8 ∨ t = .bool then r = BitVec.ofInt 64 v else r.setWidth 32 = BitVec.ofInt 32 v) := by
  unfold Represents
  cases t <;> simp [ITy.size] <;> intro _ <;>
    simp [← BitVec.toNat_inj, BitVec.toNat_ofInt, BitVec.toNat_setWidth] <;> omega

/-- all terms to `Nat`/`Int` arithmetic, split the `if`s, `omega` -/
macro "bv_ints" : tactic => `(tactic| (
  try simp only [BitVec.toInt_eq_toNat_cond, BitVec.toNat_setWidth, BitVec.toNat_signExtend, BitVec.msb_eq_decide,
             BitVec.toNat_add, BitVec.toNat_sub, BitVec.toNat_neg, BitVec.toNat_not, BitVec.toNat_ofNat,
             BitVec.toNat_eq, Int.bmod_def] at *
  try simp at *
  repeat' split
  all_goals (first | omega | (simp at * <;> omega) | (simp at *; done))))

macro "unfold_spec" : tactic => `(tactic|
  simp [Represents, ITy.inRange, ITy.min, ITy.max, ITy.signed, ITy.bits, convert, wrap, fit, b2i, toBits, ofBits] at *)

/-! ## conversions -/

/-- the distinct conversion sequences -/
inductive CastKind where
  | nop | movsbl | movzbl | movswl | movzwl | movsxd | movl | tobool32 | tobool64
  deriving DecidableEq, Repr

def CastKind.seq : CastKind → List Ins
  | .nop => []
  | .movsbl => [⟨"movsbl", [.r "%al", .r "%eax"]⟩]
  | .movzbl => [⟨"movzbl", [.r "%al", .r "%eax"]⟩]
  | .movswl => [⟨"movswl", [.r "%ax", .r "%eax"]⟩]
  | .movzwl => [⟨"movzwl", [.r "%ax", .r "%eax"]⟩]
  | .movsxd => [⟨"movsxd", [.r "%eax", .r "%rax"]⟩]
  | .movl => [⟨"mov", [.r "%eax", .r "%eax"]⟩]
  | .tobool32 => [⟨"cmp", [.i 0, .r "%eax"]⟩, ⟨"setne", [.r "%al"]⟩, ⟨"movzx", [.r "%al", .r "%eax"]⟩]
  | .tobool64 => [⟨"cmp", [.i 0, .r "%rax"]⟩, ⟨"setne", [.r "%al"]⟩, ⟨"movzx", [.r "%al", .r "%eax"]⟩]

def CastKind.all : List CastKind := [.nop, .movsbl, .movzbl, .movswl, .movzwl, .movsxd, .movl, .tobool32, .tobool64]

/-- which of the known sequences a list of instructions is -/
def classify (is : List Ins) : Option CastKind := CastKind.all.find? (fun k => k.seq == is)

theorem classify_sound {is : List Ins} {k : CastKind} (h : classify is = some k) : is = k.seq := by
  unfold classify at h
  have := List.find?_some h
  simp at this
  exact this.symm

/-- what each sequence leaves in `%rax` -/
def CastKind.fn (k : CastKind) (r : BitVec 64) : BitVec 64 :=
  match k with
  | .nop => r
  | .movsbl => ((r.setWidth 8).signExtend 32).setWidth 64
  | .movzbl => ((r.setWidth 8).setWidth 32).setWidth 64
  | .movswl => ((r.setWidth 16).signExtend 32).setWidth 64
  | .movzwl => ((r.setWidth 16).setWidth 32).setWidth 64
  | .movsxd => (r.setWidth 32).signExtend 64
  | .movl => (r.setWidth 32).setWidth 64
  | .tobool32 => if r.setWidth 32 = 0 then 0 else 1
  | .tobool64 => if r = 0 then 0 else 1

theorem low8_write (r : BitVec 64) (b : BitVec 8) :
    (BitVec.ofNat 64 (r.toNat / 256 * 256 + b.toNat)).setWidth 8 = b := by
  apply BitVec.eq_of_toNat_eq
  have := b.isLt
  simp only [BitVec.toNat_setWidth, BitVec.toNat_ofNat]
  omega

/-- **effect of every conversion sequence, for every machine state** -/
theorem CastKind.effect (k : CastKind) (s : State) :
    ∃ s', X86.run k.seq s = some s' ∧ s'.get .rax = k.fn (s.get .rax) := by
  cases k
  case nop => exact ⟨_, rfl, rfl⟩
  case movsbl => exact ⟨_, rfl, rfl⟩
  case movzbl => exact ⟨_, rfl, rfl⟩
  case movswl => exact ⟨_, rfl, rfl⟩
  case movzwl => exact ⟨_, rfl, rfl⟩
  case movsxd => exact ⟨_, rfl, rfl⟩
  case movl => exact ⟨_, rfl, rfl⟩
  case tobool32 =>
    refine ⟨_, rfl, ?_⟩
    show (((BitVec.ofNat 64 _).setWidth 8).setWidth 32).setWidth 64 = _
    rw [low8_write]
    simp [State.cond, State.flags, State.src, State.getW, CastKind.fn]
    split <;> simp
  case tobool64 =>
    refine ⟨_, rfl, ?_⟩
    show (((BitVec.ofNat 64 _).setWidth 8).setWidth 32).setWidth 64 = _
    rw [low8_write]
    simp [State.cond, State.flags, State.src, State.getW, CastKind.fn]
    split <;> simp

/-- every cell of the generated table among the nine integer types is one of the known sequences -/
theorem castSeq_classified (f t : ITy) : ∃ k, classify (castSeq f t) = some k := by
  cases f <;> cases t <;> exact ⟨_, rfl⟩

set_option maxRecDepth 2048 in
/-- **the effect of the sequence the table selects for (from, to) is the C11 conversion** -/
theorem cast_arith (f t : ITy) (k : CastKind) (hk : classify (castSeq f t) = some k) (r : BitVec 64) (v : Int)
    (h : Represents f r v) : Represents t (k.fn r) (convert t v) := by
  cases f <;> cases t <;> cases k <;>
    first
    | exact absurd hk (by decide)
    | (clear hk; simp only [CastKind.fn]; unfold_spec; bv_ints)

end ChibiVerif.C01
