/-
The splice-transparency theorem for files with CR / CR LF line ends and for every spelling of the inserted
backslash-newline (`\` LF, `\` CR LF, `\` CR): what phase 1 (`canonicalize_newline` after the final newline and the BOM
skip) does to a text into which one such splice was inserted.  Used by Props/C11.lean `C11_text_transparent_eol`.
-/
import ChibiVerif.Lemmas.C11Rewrite

set_option linter.unusedSimpArgs false
set_option linter.unusedVariables false

namespace ChibiVerif.Lemmas.SpliceEol
open ChibiVerif.Text
open ChibiVerif.Gen.Literals
open ChibiVerif.Spec.Literals
open ChibiVerif.Literals (Byte)
open ChibiVerif.Lemmas.Text
open ChibiVerif.Lemmas.Splice
open ChibiVerif.Lemmas.Rewrite
open ChibiVerif.Lemmas.Literals

theorem getLast?_cons_some (a : Byte) (t : List Byte) (c : Byte) (h : t.getLast? = some c) : (a :: t).getLast? = some c := by
  cases t with
  | nil => simp at h
  | cons b r => simpa [List.getLast?_cons_cons] using h

theorem head_ne_byteAt (y : List Byte) (h : y.head? ≠ some LF) : byteAt y 0 ≠ LF := by
  cases y with
  | nil => simp [byteAt, LF]
  | cons b r => simpa [byteAt_zero] using h

/-- `canonicalize_newline` works on the two halves of a text separately unless the cut separates a CR from its LF -/
theorem canon_append (x y : List Byte) (h : ¬ (x.getLast? = some CR ∧ y.head? = some LF)) :
    canonicalizeNewline (x ++ y) = canonicalizeNewline x ++ canonicalizeNewline y := by
  induction x using canonicalizeNewline.induct with
  | case1 => simp [canonicalizeNewline]
  | case2 =>
    have hy : y.head? ≠ some LF := fun e => h ⟨rfl, e⟩
    rw [show [CR] ++ y = CR :: y from rfl, canon_cr_other y (head_ne_byteAt y hy)]
    simp [canonicalizeNewline]
  | case3 a ha =>
    rw [show [a] ++ y = a :: y from rfl, canon_cons_ne a y ha]
    simp [canonicalizeNewline, ha]
  | case4 rest ih =>
    have h' : ¬ (rest.getLast? = some CR ∧ y.head? = some LF) :=
      fun e => h ⟨getLast?_cons_some _ _ _ (getLast?_cons_some _ _ _ e.1), e.2⟩
    rw [show CR :: LF :: rest ++ y = CR :: LF :: (rest ++ y) from rfl, canon_cr_lf, canon_cr_lf, ih h']
    rfl
  | case5 b rest hb ih =>
    have h' : ¬ ((b :: rest).getLast? = some CR ∧ y.head? = some LF) :=
      fun e => h ⟨getLast?_cons_some _ _ _ e.1, e.2⟩
    have hb0 : byteAt (b :: rest ++ y) 0 ≠ LF := by simpa [byteAt_zero] using hb
    have hb1 : byteAt (b :: rest) 0 ≠ LF := by simpa [byteAt_zero] using hb
    rw [show CR :: b :: rest ++ y = CR :: (b :: rest ++ y) from rfl, canon_cr_other _ hb0, canon_cr_other _ hb1, ih h']
    rfl
  | case6 a b rest ha ih =>
    have h' : ¬ ((b :: rest).getLast? = some CR ∧ y.head? = some LF) :=
      fun e => h ⟨getLast?_cons_some _ _ _ e.1, e.2⟩
    rw [show a :: b :: rest ++ y = a :: (b :: rest ++ y) from rfl, canon_cons_ne _ _ ha, canon_cons_ne _ _ ha, ih h']
    rfl

/-- a final newline after a text that ends in CR is the LF of that line end -/
theorem canon_append_lf_of_cr (x : List Byte) (h : x.getLast? = some CR) :
    canonicalizeNewline (x ++ [LF]) = canonicalizeNewline x := by
  induction x using canonicalizeNewline.induct with
  | case1 => simp at h
  | case2 => simp [canonicalizeNewline]
  | case3 a ha => exfalso; apply ha; simpa using h
  | case4 rest ih =>
    have hr : rest ≠ [] := by
      intro e; subst e
      simp [CR, LF] at h
    have h' : rest.getLast? = some CR := by
      rw [getLast?_cons_ne_nil _ _ (by simp), getLast?_cons_ne_nil _ _ hr] at h; exact h
    rw [show CR :: LF :: rest ++ [LF] = CR :: LF :: (rest ++ [LF]) from rfl, canon_cr_lf, canon_cr_lf, ih h']
  | case5 b rest hb ih =>
    have h' : (b :: rest).getLast? = some CR := by
      rw [getLast?_cons_ne_nil _ _ (by simp)] at h; exact h
    have hb0 : byteAt (b :: rest ++ [LF]) 0 ≠ LF := by simpa [byteAt_zero] using hb
    have hb1 : byteAt (b :: rest) 0 ≠ LF := by simpa [byteAt_zero] using hb
    rw [show CR :: b :: rest ++ [LF] = CR :: (b :: rest ++ [LF]) from rfl, canon_cr_other _ hb0, canon_cr_other _ hb1, ih h']
  | case6 a b rest ha ih =>
    have h' : (b :: rest).getLast? = some CR := by
      rw [getLast?_cons_ne_nil _ _ (by simp)] at h; exact h
    rw [show a :: b :: rest ++ [LF] = a :: (b :: rest ++ [LF]) from rfl, canon_cons_ne _ _ ha, canon_cons_ne _ _ ha, ih h']

theorem getLast?_cons_ne_bsl (a : Byte) (t : List Byte) (ha : a ≠ BSL) (ht : t.getLast? ≠ some BSL) :
    (a :: t).getLast? ≠ some BSL := by
  cases t with
  | nil => simpa using ha
  | cons b r => simpa [List.getLast?_cons_cons] using ht

theorem canon_last_ne_bsl (x : List Byte) (h : x.getLast? ≠ some BSL) : (canonicalizeNewline x).getLast? ≠ some BSL := by
  have lfb : LF ≠ BSL := by decide
  induction x using canonicalizeNewline.induct with
  | case1 => simp [canonicalizeNewline]
  | case2 => simp [canonicalizeNewline, lfb]
  | case3 a ha => simpa [canonicalizeNewline, ha] using h
  | case4 rest ih =>
    rw [canon_cr_lf]
    exact getLast?_cons_ne_bsl _ _ lfb (ih (getLast?_tail_ne (getLast?_tail_ne h)))
  | case5 b rest hb ih =>
    have hb1 : byteAt (b :: rest) 0 ≠ LF := by simpa [byteAt_zero] using hb
    rw [canon_cr_other _ hb1]
    exact getLast?_cons_ne_bsl _ _ lfb (ih (getLast?_tail_ne h))
  | case6 a b rest ha ih =>
    rw [canon_cons_ne _ _ ha]
    have hab : a ≠ BSL ∨ True := Or.inr trivial
    have h' := ih (getLast?_tail_ne h)
    have hne : canonicalizeNewline (b :: rest) ≠ [] := by
      by_cases hb : b = CR
      · subst hb
        cases rest with
        | nil => simp [canonicalizeNewline]
        | cons c r => by_cases hc : c = LF <;> simp [canonicalizeNewline, hc]
      · rw [canon_cons_ne _ _ hb]; simp
    rw [getLast?_cons_ne_nil _ _ hne]
    exact h'

/-- the spellings of an inserted backslash-newline, as they stand after `read_file` (a file that ends in `\` CR gets its LF) -/
def IsSplice (m : List Byte) (next : List Byte) : Prop :=
  m = [BSL, LF] ∨ m = [BSL, CR, LF] ∨ (m = [BSL, CR] ∧ next.head? ≠ some LF)

theorem canon_splice (m y : List Byte) (h : IsSplice m y) :
    canonicalizeNewline (m ++ y) = BSL :: LF :: canonicalizeNewline y := by
  have b1 : BSL ≠ CR := by decide
  have b2 : LF ≠ CR := by decide
  rcases h with h | h | ⟨h, hy⟩
  · subst h
    rw [show [BSL, LF] ++ y = BSL :: LF :: y from rfl, canon_cons_ne _ _ b1, canon_cons_ne _ _ b2]
  · subst h
    rw [show [BSL, CR, LF] ++ y = BSL :: CR :: LF :: y from rfl, canon_cons_ne _ _ b1, canon_cr_lf]
  · subst h
    rw [show [BSL, CR] ++ y = BSL :: CR :: y from rfl, canon_cons_ne _ _ b1, canon_cr_other _ (head_ne_byteAt y hy)]

theorem splice_head (m y : List Byte) (h : IsSplice m y) : ∃ r, m = BSL :: r := by
  rcases h with h | h | ⟨h, _⟩ <;> exact ⟨_, h⟩

theorem skipBOM_short_mid (a r t : List Byte) (h : a.length < 3) : skipBOM (a ++ BSL :: r ++ t) = a ++ BSL :: r ++ t := by
  obtain ⟨h1, h2, h3, h4, h5⟩ := bsl_not_bom
  match a, h with
  | [], _ =>
    apply skipBOM_of_take
    cases hr : r ++ t with
    | nil => simp [BOM, hr]
    | cons c r' =>
      cases r' with
      | nil => simp [BOM, hr]
      | cons d r'' => simp [BOM, hr, h1]
  | [p], _ =>
    apply skipBOM_of_take
    cases hr : r ++ t with
    | nil => simp [BOM, hr]
    | cons c r' => simp [BOM, hr, h2]
  | [p, q], _ =>
    apply skipBOM_of_take
    simp [BOM, h3]

/-- `firstLine ∘ unsplice` of the phase-1 text is not changed by one more backslash-newline in any spelling -/
theorem firstLine_phase1_splice_eol (a sp b : List Byte)
    (hsp : sp = [BSL, LF] ∨ sp = [BSL, CR, LF] ∨ (sp = [BSL, CR] ∧ b.head? ≠ some LF))
    (ha : a.getLast? ≠ some BSL) (hcr : ¬ (a.getLast? = some CR ∧ b.head? = some LF))
    (hbom : 3 ≤ a.length ∨ (a ++ b).take 3 ≠ BOM) :
    firstLine (unsplice BSL LF (phase1 (a ++ sp ++ b))) = firstLine (unsplice BSL LF (phase1 (a ++ b))) := by
  -- after read_file: a ++ m ++ b2 and a ++ b2 ++ e
  have key : ∃ m b2 e, ensureFinalNewline (a ++ sp ++ b) = a ++ m ++ b2 ∧ ensureFinalNewline (a ++ b) = (a ++ b2) ++ e ∧
      IsSplice m b2 ∧ (e = [] ∨ (e = [LF] ∧ b2 = [])) ∧ b2.head? = b.head? := by
    by_cases hb : b = []
    · subst hb
      rcases efn_cases a with ea | ea
      · rcases hsp with h | h | ⟨h, _⟩
        · subst h
          exact ⟨[BSL, LF], [], [], by simpa using efn_splice_end a, by simp [ea], Or.inl rfl, Or.inl rfl, rfl⟩
        · subst h
          refine ⟨[BSL, CR, LF], [], [], ?_, by simp [ea], Or.inr (Or.inl rfl), Or.inl rfl, rfl⟩
          have : (a ++ [BSL, CR, LF] ++ []).getLast? = some LF := by simp [List.getLast?_append]
          unfold ensureFinalNewline; rw [this]; simp
        · subst h
          refine ⟨[BSL, CR, LF], [], [], ?_, by simp [ea], Or.inr (Or.inl rfl), Or.inl rfl, rfl⟩
          have : (a ++ [BSL, CR] ++ []).getLast? = some CR := by simp [List.getLast?_append]
          unfold ensureFinalNewline; rw [this]
          simp [CR, LF]
      · rcases hsp with h | h | ⟨h, _⟩
        · subst h
          exact ⟨[BSL, LF], [], [LF], by simpa using efn_splice_end a, by simp [ea], Or.inl rfl, Or.inr ⟨rfl, rfl⟩, rfl⟩
        · subst h
          refine ⟨[BSL, CR, LF], [], [LF], ?_, by simp [ea], Or.inr (Or.inl rfl), Or.inr ⟨rfl, rfl⟩, rfl⟩
          have : (a ++ [BSL, CR, LF] ++ []).getLast? = some LF := by simp [List.getLast?_append]
          unfold ensureFinalNewline; rw [this]; simp
        · subst h
          refine ⟨[BSL, CR, LF], [], [LF], ?_, by simp [ea], Or.inr (Or.inl rfl), Or.inr ⟨rfl, rfl⟩, rfl⟩
          have : (a ++ [BSL, CR] ++ []).getLast? = some CR := by simp [List.getLast?_append]
          unfold ensureFinalNewline; rw [this]
          simp [CR, LF]
    · have hh : (ensureFinalNewline b).head? = b.head? := by
        rcases efn_cases b with e | e
        · rw [e]
        · rw [e]; cases b with
          | nil => exact absurd rfl hb
          | cons c r => rfl
      refine ⟨sp, ensureFinalNewline b, [], efn_append (a ++ sp) b hb, by simpa using efn_append a b hb, ?_, Or.inl rfl, hh⟩
      rcases hsp with h | h | ⟨h, hy⟩
      · exact Or.inl h
      · exact Or.inr (Or.inl h)
      · exact Or.inr (Or.inr ⟨h, by rw [hh]; exact hy⟩)
  obtain ⟨m, b2, e, h1, h2, hm, he, hh⟩ := key
  obtain ⟨r, hr⟩ := splice_head m b2 hm
  -- after the BOM skip
  have key2 : ∃ a2, a2.getLast? ≠ some BSL ∧ (a2.getLast? = some CR → a.getLast? = some CR) ∧
      skipBOM (a ++ m ++ b2) = a2 ++ m ++ b2 ∧ skipBOM ((a ++ b2) ++ e) = (a2 ++ b2) ++ e := by
    by_cases hl : 3 ≤ a.length
    · refine ⟨skipBOM a, skipBOM_last a ha, ?_, ?_, ?_⟩
      · intro hc
        rcases skipBOM_cases a with ea | ea
        · rw [ea] at hc; exact hc
        · rw [ea, List.getLast?_append, hc]; rfl
      · rw [List.append_assoc, skipBOM_append_of_le a _ hl, List.append_assoc]
      · rw [List.append_assoc, skipBOM_append_of_le a _ hl, List.append_assoc]
    · refine ⟨a, ha, id, ?_, ?_⟩
      · rw [hr]; exact skipBOM_short_mid a r b2 (by omega)
      · have hb3 : (a ++ b).take 3 ≠ BOM := by
          rcases hbom with h | h
          · exact absurd h hl
          · exact h
        rw [← h2]
        exact skipBOM_of_take _ (take3_efn _ hb3)
  obtain ⟨a2, ha2, hcr2, k1, k2⟩ := key2
  unfold phase1
  rw [h1, h2, k1, k2]
  -- canonicalize_newline on both
  have c1 : canonicalizeNewline (a2 ++ m ++ b2) = canonicalizeNewline a2 ++ BSL :: LF :: canonicalizeNewline b2 := by
    rw [List.append_assoc, canon_append a2 (m ++ b2) (by rw [hr]; simp [LF, BSL]), canon_splice m b2 hm]
  have hl2 := canon_last_ne_bsl a2 ha2
  rw [c1, unsplice_splice _ _ hl2]
  rcases he with he | ⟨he, hb2⟩
  · subst he
    have hc : ¬ (a2.getLast? = some CR ∧ b2.head? = some LF) := fun h => hcr ⟨hcr2 h.1, by rw [← hh]; exact h.2⟩
    rw [List.append_nil, canon_append a2 b2 hc]
  · subst he; subst hb2
    simp only [List.append_nil, canonicalizeNewline]
    by_cases hc : a2.getLast? = some CR
    · rw [canon_append_lf_of_cr a2 hc]
    · rw [canon_append a2 [LF] (fun h => hc h.1)]
      have : canonicalizeNewline [LF] = [LF] := by simp [canonicalizeNewline, LF, CR]
      rw [this, unsplice_append _ [LF] hl2]
      simp only [unsplice]
      exact (firstLine_append_single_lf _).symm

end ChibiVerif.Lemmas.SpliceEol
