/-
C04 over Model/X86: a whole assignment statement to a bit-field of a local object,
`gen_addr(lhs)` (`lea d(%rbp), %rax; add $k, %rax`), `push %rax`, the right-hand side (`mov $c, %rax`), the bit-field arm.
-/
import ChibiVerif.Lemmas.C04X86Mem

namespace ChibiVerif.C04X86
open ChibiVerif.X86 ChibiVerif.Asm ChibiVerif.BitField ChibiVerif.Gen.C04

theorem dec_lea_rbp (d : Int) : decode ⟨"lea", [.m d "%rbp", .r "%rax"]⟩ = some (.lea d .rbp .rax) := rfl
theorem dec_add_imm_rax (k : Int) : decode ⟨"add", [.i k, .r "%rax"]⟩ = some (.alu .add .w64 (.imm k) (.reg .rax)) := rfl
theorem dec_push_rax : decode ⟨"push", [.r "%rax"]⟩ = some (.push .rax) := rfl
theorem dec_mov_imm_rax (c : Int) : decode ⟨"mov", [.i c, .r "%rax"]⟩ = some (.mov .w64 (.imm c) (.reg .rax)) := rfl

/-- `gen_addr` of a member of a local, `push`, a constant right-hand side -/
def lhsRhsCode (d k c : Int) : List Ins :=
  [⟨"lea", [.m d "%rbp", .r "%rax"]⟩, ⟨"add", [.i k, .r "%rax"]⟩, ⟨"push", [.r "%rax"]⟩, ⟨"mov", [.i c, .r "%rax"]⟩]

/-- a unit read depends only on the unit's bytes -/
theorem unitAt_congr (s s' : State) (p : BitVec 64) (u : BitField.USize)
    (h : ∀ k : Nat, k < u.bytes → s'.mem (p + BitVec.ofNat 64 k) = s.mem (p + BitVec.ofNat 64 k)) : unitAt s' p u = unitAt s p u := by
  apply BitVec.eq_of_getLsbD_eq
  intro i hi
  have hk : i / 8 < u.bytes := by
    have : i < 8 * u.bytes := hi
    omega
  have hb : i % 8 < 8 := by omega
  have e : 8 * (i / 8) + i % 8 = i := by omega
  have h1 := unitAt_bit s' p u (i / 8) (i % 8) hk hb
  have h2 := unitAt_bit s p u (i / 8) (i % 8) hk hb
  rw [e] at h1 h2
  rw [h1, h2, h (i / 8) hk]

theorem step_lea_rbp (d : Int) (s : State) :
    X86.step ⟨"lea", [.m d "%rbp", .r "%rax"]⟩ s = some (s.set .rax (s.get .rbp + BitVec.ofInt 64 d)) := by
  simp only [X86.step, dec_lea_rbp, exec, State.ea]

theorem step_add_imm_rax (k : Int) (s : State) :
    ∃ s', X86.step ⟨"add", [.i k, .r "%rax"]⟩ s = some s' ∧ s'.get .rax = s.get .rax + BitVec.ofInt 64 k ∧ s'.mem = s.mem ∧
      ∀ x, x ≠ .rax → s'.get x = s.get x := by
  simp only [X86.step, dec_add_imm_rax, exec, aluExec, Alu.writes, State.src, State.dst, State.getW, State.setW, if_true]
  refine ⟨_, rfl, ?_, rfl, ?_⟩
  · simp
  · intro x hx; simp [hx]

theorem step_push_rax (s : State) :
    X86.step ⟨"push", [.r "%rax"]⟩ s = some ((s.set .rsp (s.get .rsp - 8)).write64 (s.get .rsp - 8) (s.get .rax)) := by
  simp only [X86.step, dec_push_rax, exec]

theorem step_mov_imm_rax (c : Int) (s : State) :
    X86.step ⟨"mov", [.i c, .r "%rax"]⟩ s = some (s.set .rax (BitVec.ofInt 64 c)) := by
  simp only [X86.step, dec_mov_imm_rax, exec, State.src, State.dst, State.setW, W.bits]

/-- the address is on top of the stack after `lea; add; push; mov $c` and the constant is in %rax -/
theorem lhsRhs_run (d k c : Int) (s : State) :
    ∃ s', X86.run (lhsRhsCode d k c) s = some s' ∧
      s'.get .rsp = s.get .rsp - 8 ∧
      s'.read64 (s'.get .rsp) = s.get .rbp + BitVec.ofInt 64 d + BitVec.ofInt 64 k ∧
      s'.get .rax = BitVec.ofInt 64 c ∧
      s'.mem = memSet s.mem (s.get .rsp - 8) .b8 (s.get .rbp + BitVec.ofInt 64 d + BitVec.ofInt 64 k) ∧
      ∀ x, x ≠ .rax → x ≠ .rsp → s'.get x = s.get x := by
  obtain ⟨s2, h2, a2, m2, o2⟩ := step_add_imm_rax k (s.set .rax (s.get .rbp + BitVec.ofInt 64 d))
  rw [State.get_set_same] at a2
  simp only [lhsRhsCode, X86.run, step_lea_rbp, h2, step_push_rax, step_mov_imm_rax]
  have hrsp : s2.get .rsp = s.get .rsp := by rw [o2 .rsp (by decide), State.get_set_ne _ _ _ _ (by decide)]
  have hmem : (((s2.set .rsp (s2.get .rsp - 8)).write64 (s2.get .rsp - 8) (s2.get .rax)).set .rax (BitVec.ofInt 64 c)).mem =
      memSet s.mem (s.get .rsp - 8) .b8 (s.get .rbp + BitVec.ofInt 64 d + BitVec.ofInt 64 k) := by
    rw [mem_set, mem_write64, mem_set, m2, mem_set, hrsp, a2]
    rfl
  have hsp : (((s2.set .rsp (s2.get .rsp - 8)).write64 (s2.get .rsp - 8) (s2.get .rax)).set .rax (BitVec.ofInt 64 c)).get .rsp =
      s.get .rsp - 8 := by
    rw [State.get_set_ne _ _ _ _ (by decide), get_write64, State.get_set_same, hrsp]
  have hax : (((s2.set .rsp (s2.get .rsp - 8)).write64 (s2.get .rsp - 8) (s2.get .rax)).set .rax (BitVec.ofInt 64 c)).get .rax =
      BitVec.ofInt 64 c := by rw [State.get_set_same]
  have hoth : ∀ x, x ≠ .rax → x ≠ .rsp →
      (((s2.set .rsp (s2.get .rsp - 8)).write64 (s2.get .rsp - 8) (s2.get .rax)).set .rax (BitVec.ofInt 64 c)).get x = s.get x := by
    intro x h1 h2
    rw [State.get_set_ne _ _ _ _ h1, get_write64, State.get_set_ne _ _ _ _ h2, o2 x h1, State.get_set_ne _ _ _ _ h1]
  generalize (((s2.set .rsp (s2.get .rsp - 8)).write64 (s2.get .rsp - 8) (s2.get .rax)).set .rax (BitVec.ofInt 64 c)) = S at *
  refine ⟨S, rfl, hsp, ?_, hax, hmem, hoth⟩
  rw [hsp]
  exact unitAt_memSet s S (s.get .rsp - 8) .b8 _ hmem

/-- the code of the statement `local.member = c` for a bit-field member -/
def bfAssignLocalCode (d k c : Int) (t : BfType) (w o : Nat) : List Ins := lhsRhsCode d k c ++ insOf (assignSeq t w o)

theorem assignLocalSeq_ins (d k c : Int) (t : BfType) (w o : Nat) :
    insOf (assignLocalSeq d k c t w o) = bfAssignLocalCode d k c t w o := by
  unfold assignLocalSeq bfAssignLocalCode
  rw [insOf_append]
  rfl

theorem sub8_add8 (r : BitVec 64) : r - 8 + 8 = r := by
  apply BitVec.eq_of_toNat_eq
  simp only [BitVec.toNat_add, BitVec.toNat_sub]
  have := r.isLt
  omega

theorem bf_assign_local_run (d k c : Int) (t : BfType) (w o : Nat) (hw : 1 ≤ w) (hwo : o + w ≤ t.usize.bits) (s : State)
    (p : BitVec 64) (hp : p = s.get .rbp + BitVec.ofInt 64 d + BitVec.ofInt 64 k)
    (hsep : ∀ i j : Nat, i < t.usize.bytes → j < 8 → p + BitVec.ofNat 64 i ≠ s.get .rsp - 8 + BitVec.ofNat 64 j) :
    ∃ s', X86.run (bfAssignLocalCode d k c t w o) s = some s' ∧
      unitAt s' p t.usize = (bfAssignT t w o (unitAt s p t.usize) (BitVec.ofInt 64 c)).unit ∧
      s'.get .rax = (bfAssignT t w o (unitAt s p t.usize) (BitVec.ofInt 64 c)).rax ∧
      s'.get .rsp = s.get .rsp ∧ s'.get .rbp = s.get .rbp ∧
      ∀ x : BitVec 64, (∀ i : Nat, i < t.usize.bytes → x ≠ p + BitVec.ofNat 64 i) →
        (∀ j : Nat, j < 8 → x ≠ s.get .rsp - 8 + BitVec.ofNat 64 j) → s'.mem x = s.mem x := by
  obtain ⟨s1, r1, sp1, top1, ax1, m1, o1⟩ := lhsRhs_run d k c s
  rw [← hp] at top1 m1
  obtain ⟨s2, r2, ax2, m2, sp2, o2⟩ := bf_assign_run t w o hw hwo s1
  rw [top1, ax1] at ax2 m2
  have hold : unitAt s1 p t.usize = unitAt s p t.usize := by
    apply unitAt_congr
    intro i hi
    rw [m1]
    exact memSet_outside _ _ .b8 _ _ (fun j hj => hsep i j hi hj)
  rw [hold] at ax2 m2
  refine ⟨s2, ?_, unitAt_memSet s1 s2 p t.usize _ m2, ax2, ?_, ?_, ?_⟩
  · unfold bfAssignLocalCode
    rw [run_append, r1]
    exact r2
  · rw [sp2, sp1, sub8_add8]
  · rw [o2 .rbp (by decide) (by decide) (by decide) (by decide), o1 .rbp (by decide) (by decide)]
  · intro x hx hs
    rw [m2, memSet_outside _ _ _ _ x hx, m1]
    exact memSet_outside _ _ .b8 _ x hs

end ChibiVerif.C04X86
