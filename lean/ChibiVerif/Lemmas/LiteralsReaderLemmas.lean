/-
Helper lemmas for the C11 theorems about the literal readers and `join_adjacent_string_literals`
(Model/Literals.lean): one loop iteration per source character for each reader, hexadecimal
escapes, kind resolution and concatenation.
-/
import ChibiVerif.Lemmas.LiteralsLemmas
import ChibiVerif.Lemmas.TextLemmas

set_option linter.unusedSimpArgs false

namespace ChibiVerif.Lemmas.Readers
open ChibiVerif.Gen.Literals
open ChibiVerif.Spec.Literals
open ChibiVerif.Literals
open ChibiVerif.Lemmas.Literals
open ChibiVerif.Lemmas.Text (fromHex_eq hexVal)

-- ------------------------------------------------------------------ one source character per iteration

theorem byteAt_drop (p : List Byte) (i k : Nat) : byteAt (p.drop i) k = byteAt p (i + k) := by
  simp [byteAt, List.getD_eq_getElem?_getD, List.getElem?_drop]

theorem byteAt_of_drop (p : List Byte) (i : Nat) (b : Byte) (rest : List Byte) (h : p.drop i = b :: rest) :
    byteAt p i = b := by
  have := byteAt_drop p i 0
  rw [h] at this
  simpa [byteAt] using this.symm

/-- first byte written by `encode_utf8` is a backslash only for the backslash itself -/
theorem encode_head_ne_bsl (c : BitVec 32) (hc : c.toNat < 0x200000) (hne : c.toNat ≠ 92) :
    ∃ b rest, encodeUtf8 c = b :: rest ∧ b ≠ 92#8 := by
  have h := encode_eq c hc
  unfold utf8 at h
  by_cases h1 : c.toNat < 0x80
  · simp only [h1, if_true, List.map] at h
    refine ⟨_, _, h, ?_⟩
    intro hb
    have := congrArg BitVec.toNat hb
    simp at this; omega
  · by_cases h2 : c.toNat < 0x800
    · simp only [h1, h2, if_true, if_false, List.map] at h
      refine ⟨_, _, h, ?_⟩
      intro hb
      have := congrArg BitVec.toNat hb
      simp at this; omega
    · by_cases h3 : c.toNat < 0x10000
      · simp only [h1, h2, h3, if_true, if_false, List.map] at h
        refine ⟨_, _, h, ?_⟩
        intro hb
        have := congrArg BitVec.toNat hb
        simp at this; omega
      · simp only [h1, h2, h3, if_false, List.map] at h
        refine ⟨_, _, h, ?_⟩
        intro hb
        have := congrArg BitVec.toNat hb
        simp at this; omega

theorem encode_length (c : BitVec 32) (hc : c.toNat < 0x200000) : (encodeUtf8 c).length = utf8Len c.toNat := by
  have := congrArg List.length (encode_toNat c hc)
  simp only [List.length_map] at this
  rw [this]
  unfold utf8 utf8Len
  split
  · rfl
  · split
    · rfl
    · split <;> rfl

theorem decodeAt_encoded (p : List Byte) (i : Nat) (c : BitVec 32) (rest : List Byte) (hc : c.toNat < 0x200000)
    (hd : p.drop i = encodeUtf8 c ++ rest) : decodeAt p i = .ok (c, utf8Len c.toNat) := by
  unfold decodeAt
  rw [hd, roundtrip c hc rest, encode_length c hc]

/-- one iteration of the `u"..."` reader on a source character -/
theorem utf16Loop_char (p : List Byte) (endp fuel i : Nat) (acc : List Nat) (c : BitVec 32) (rest : List Byte)
    (hc : c.toNat < 0x110000) (hne : c.toNat ≠ 92) (hi : i < endp) (hd : p.drop i = encodeUtf8 c ++ rest) :
    utf16Loop p endp (fuel + 1) i acc =
      utf16Loop p endp fuel (i + utf8Len c.toNat) ((utf16 c.toNat).reverse ++ acc) := by
  obtain ⟨b, r, hb, hb92⟩ := encode_head_ne_bsl c (by omega) hne
  have h0 : byteAt p i = b := byteAt_of_drop p i b (r ++ rest) (by rw [hd, hb]; rfl)
  rw [utf16Loop]
  simp only [hi, if_true, h0, hb92, if_false, decodeAt_encoded p i c rest (by omega) hd]
  show utf16Loop p endp fuel (i + utf8Len c.toNat) ((List.map BitVec.toNat (utf16Units c)).reverse ++ acc) = _
  rw [utf16_toNat c hc]

/-- one iteration of the `U"..."` / `L"..."` reader on a source character -/
theorem utf32Loop_char (p : List Byte) (endp fuel i : Nat) (acc : List Nat) (c : BitVec 32) (rest : List Byte)
    (hc : c.toNat < 0x110000) (hne : c.toNat ≠ 92) (hi : i < endp) (hd : p.drop i = encodeUtf8 c ++ rest) :
    utf32Loop p endp (fuel + 1) i acc = utf32Loop p endp fuel (i + utf8Len c.toNat) (c.toNat :: acc) := by
  obtain ⟨b, r, hb, hb92⟩ := encode_head_ne_bsl c (by omega) hne
  have h0 : byteAt p i = b := byteAt_of_drop p i b (r ++ rest) (by rw [hd, hb]; rfl)
  rw [utf32Loop]
  simp only [hi, if_true, h0, hb92, if_false, decodeAt_encoded p i c rest (by omega) hd]
  rfl

theorem narrowLoop_bytes (p : List Byte) (endp fuel : Nat) : ∀ (bs : List Byte) (i : Nat) (acc : List Nat) (rest : List Byte),
    (∀ b ∈ bs, b ≠ 92#8) → p.drop i = bs ++ rest → i + bs.length ≤ endp →
    narrowLoop p endp (fuel + bs.length) i acc =
      narrowLoop p endp fuel (i + bs.length) ((bs.map BitVec.toNat).reverse ++ acc) := by
  intro bs
  induction bs with
  | nil => intro i acc rest _ _ _; simp
  | cons b bs ih =>
    intro i acc rest hne hd hi
    have h0 : byteAt p i = b := byteAt_of_drop p i b (bs ++ rest) (by simpa using hd)
    have hd' : p.drop (i + 1) = bs ++ rest := by
      have := congrArg (List.drop 1) hd
      simpa [List.drop_drop, Nat.add_comm] using this
    have hlt : i < endp := by simp at hi; omega
    have e : fuel + (b :: bs).length = (fuel + bs.length) + 1 := by simp; omega
    rw [e, narrowLoop]
    simp only [hlt, if_true, h0, hne b (by simp), if_false]
    rw [ih (i + 1) _ rest (fun x hx => hne x (List.mem_cons_of_mem _ hx)) hd' (by simp at hi ⊢; omega)]
    simp [Nat.add_assoc, Nat.add_comm 1]

theorem utf8_bytes_ne_bsl (c : BitVec 32) (hc : c.toNat < 0x200000) (hne : c.toNat ≠ 92) : ∀ b ∈ encodeUtf8 c, b ≠ 92#8 := by
  intro b hb h92
  have hm : b.toNat ∈ utf8 c.toNat := by
    rw [← encode_toNat c hc]; exact List.mem_map_of_mem hb
  have h92' : b.toNat = 92 := by rw [h92]; rfl
  rw [h92'] at hm
  unfold utf8 at hm
  split at hm
  · simp at hm; omega
  · split at hm
    · simp at hm; omega
    · split at hm
      · simp at hm; omega
      · simp at hm; omega

/-- the iterations of the `"..."` / `u8"..."` reader on a source character copy its UTF-8 bytes -/
theorem narrowLoop_char (p : List Byte) (endp fuel i : Nat) (acc : List Nat) (c : BitVec 32) (rest : List Byte)
    (hc : c.toNat < 0x110000) (hne : c.toNat ≠ 92) (hi : i + utf8Len c.toNat ≤ endp) (hd : p.drop i = encodeUtf8 c ++ rest) :
    narrowLoop p endp (fuel + utf8Len c.toNat) i acc =
      narrowLoop p endp fuel (i + utf8Len c.toNat) ((utf8 c.toNat).reverse ++ acc) := by
  have hl := encode_length c (by omega)
  have := narrowLoop_bytes p endp fuel (encodeUtf8 c) i acc rest (utf8_bytes_ne_bsl c (by omega) hne) hd (by omega)
  rw [hl, encode_toNat c (by omega)] at this
  exact this

-- ------------------------------------------------------------------ hexadecimal escapes

theorem shl4_add_ofNat (a d : Nat) : (BitVec.ofNat 32 a <<< 4) + BitVec.ofNat 32 d = BitVec.ofNat 32 (a * 16 + d) := by
  apply BitVec.eq_of_toNat_eq
  simp only [BitVec.toNat_add, BitVec.toNat_shiftLeft, BitVec.toNat_ofNat, Nat.shiftLeft_eq, Nat.reducePow]
  omega

/-- the hexadecimal-escape loop over the digits `xs` followed by a byte that is not a hexadecimal digit -/
theorem hexLoop_digits (p : List Byte) : ∀ (xs : List Byte) (fuel i a : Nat),
    xs.length < fuel → (∀ k, k < xs.length → byteAt p (i + k) = xs.getD k 0#8) → (∀ x ∈ xs, isXDigit x = true) →
    isXDigit (byteAt p (i + xs.length)) = false →
    hexLoop p fuel i (BitVec.ofNat 32 a) =
      (BitVec.ofNat 32 (xs.foldl (fun a d => a * 16 + hexVal d) a), i + xs.length) := by
  intro xs
  induction xs with
  | nil =>
    intro fuel i a hf _ _ hend
    cases fuel with
    | zero => simp at hf
    | succ fuel => simp at hend; simp [hexLoop, hend]
  | cons x xs ih =>
    intro fuel i a hf hb hx hend
    cases fuel with
    | zero => simp at hf
    | succ fuel =>
      have h0 : byteAt p i = x := by simpa using hb 0 (by simp)
      have hxx := hx x (by simp)
      rw [hexLoop]
      simp only [h0, hxx, if_true, (fromHex_eq x hxx).1, shl4_add_ofNat]
      rw [ih fuel (i + 1) _ (by simp at hf; omega) ?_ (fun y hy => hx y (List.mem_cons_of_mem _ hy)) ?_]
      · simp [Nat.add_assoc, Nat.add_comm 1]
      · intro k hk
        have := hb (k + 1) (by simp; omega)
        simpa [Nat.add_assoc, Nat.add_comm 1] using this
      · simpa [Nat.add_assoc, Nat.add_comm 1] using hend

/-- **hexadecimal escape**: `\x` followed by the hexadecimal digits `x :: xs` and then by a byte that is not
    a hexadecimal digit: all digits are consumed and the value is that of the digit sequence (modulo 2^32: `int`) -/
theorem readEscapedChar_hex (x : Byte) (xs rest : List Byte) (hx : ∀ y ∈ x :: xs, isXDigit y = true)
    (hend : isXDigit (byteAt rest 0) = false) :
    readEscapedChar (120#8 :: x :: (xs ++ rest)) =
      .ok (BitVec.ofNat 32 (digitsValue 16 ((x :: xs).map hexVal)), 2 + xs.length) := by
  have hx0 := hx x (by simp)
  have hnotoct : isOctDigit (120#8 : Byte) = false := by decide
  unfold readEscapedChar
  simp only [byteAt_zero, hnotoct, Bool.false_eq_true, if_false, if_true, byteAt_succ, hx0, Bool.not_true]
  have := hexLoop_digits (120#8 :: x :: (xs ++ rest)) (x :: xs) ((120#8 :: x :: (xs ++ rest)).length + 1) 1 0 (by simp; omega)
    (by
      intro k hk
      rw [Nat.add_comm, byteAt_succ]
      have : x :: (xs ++ rest) = (x :: xs) ++ rest := rfl
      rw [this]
      simp only [byteAt]
      rw [List.getD_eq_getElem?_getD, List.getD_eq_getElem?_getD, List.getElem?_append_left hk])
    hx
    (by
      rw [Nat.add_comm, byteAt_succ]
      have e : x :: (xs ++ rest) = (x :: xs) ++ rest := rfl
      have : byteAt ((x :: xs) ++ rest) (x :: xs).length = byteAt rest 0 := by
        simp only [byteAt, List.getD_eq_getElem?_getD]
        rw [List.getElem?_append_right (Nat.le_refl _)]; simp
      rw [e, this]; exact hend)
  have e : (0 : BitVec 32) = BitVec.ofNat 32 0 := rfl
  rw [e, this]
  simp only [digitsValue, List.foldl_map, List.length_cons, Nat.add_comm 1, Nat.add_assoc]
  congr 2
  omega

-- ------------------------------------------------------------------ join_adjacent_string_literals

theorem joinPrefixFrom_spec (ps : List StrPrefix) : ∀ (acc P : StrPrefix),
    joinPrefixFrom acc ps = some P ↔
      ((acc = .none ∨ acc = P) ∧ (∀ p ∈ ps, p = .none ∨ p = P) ∧ (P = .none ∨ P = acc ∨ P ∈ ps)) := by
  induction ps with
  | nil => intro acc P; cases acc <;> cases P <;> simp [joinPrefixFrom]
  | cons p ps ih =>
    intro acc P
    by_cases ha : acc = .none
    · subst ha
      simp only [joinPrefixFrom, if_true, ih p P, List.mem_cons, true_or, true_and, forall_eq_or_imp]
      constructor
      · rintro ⟨h1, h2, h3⟩
        refine ⟨⟨h1, h2⟩, ?_⟩
        rcases h3 with h | h | h
        · exact Or.inl h
        · exact Or.inr (Or.inr (Or.inl h))
        · exact Or.inr (Or.inr (Or.inr h))
      · rintro ⟨⟨h1, h2⟩, h3⟩
        refine ⟨h1, h2, ?_⟩
        rcases h3 with h | h | h | h
        · exact Or.inl h
        · exact Or.inl h
        · exact Or.inr (Or.inl h)
        · exact Or.inr (Or.inr h)
    · by_cases hp : p = .none ∨ p = acc
      · simp only [joinPrefixFrom, ha, if_false, hp, if_true, ih acc P, List.mem_cons, forall_eq_or_imp]
        constructor
        · rintro ⟨h1, h2, h3⟩
          have hacc : acc = P := by rcases h1 with h | h; exact h.elim; exact h
          refine ⟨h1, ⟨?_, h2⟩, ?_⟩
          · rcases hp with h | h
            · exact Or.inl h
            · exact Or.inr (h.trans hacc)
          · rcases h3 with h | h | h
            · exact Or.inl h
            · exact Or.inr (Or.inl h)
            · exact Or.inr (Or.inr (Or.inr h))
        · rintro ⟨h1, ⟨_, h2⟩, h3⟩
          have hacc : acc = P := by rcases h1 with h | h; exact h.elim; exact h
          exact ⟨h1, h2, Or.inr (Or.inl hacc.symm)⟩
      · simp only [joinPrefixFrom, ha, if_false, hp, List.mem_cons, forall_eq_or_imp]
        constructor
        · intro h; cases h
        · rintro ⟨h1, ⟨h2, _⟩, _⟩
          have hacc : acc = P := by rcases h1 with h | h; exact h.elim; exact h
          exfalso
          apply hp
          rcases h2 with h | h
          · exact Or.inl h
          · exact Or.inr (h.trans hacc.symm)

/-- declarative reading of 6.4.5p5 -/
theorem joinPrefix_spec (ps : List StrPrefix) (P : StrPrefix) :
    joinPrefix ps = some P ↔ ((∀ p ∈ ps, p = .none ∨ p = P) ∧ (P = .none ∨ P ∈ ps)) := by
  unfold joinPrefix
  rw [joinPrefixFrom_spec]
  constructor
  · rintro ⟨_, h2, h3⟩
    refine ⟨h2, ?_⟩
    rcases h3 with h | h | h
    · exact Or.inl h
    · exact Or.inl h
    · exact Or.inr h
  · rintro ⟨h2, h3⟩
    refine ⟨Or.inl rfl, h2, ?_⟩
    rcases h3 with h | h
    · exact Or.inl h
    · exact Or.inr (Or.inr h)

theorem kindOf_inj (a b : StrPrefix) : kindOf a = kindOf b ↔ a = b := by
  cases a <;> cases b <;> simp [kindOf]

theorem kindOf_none (a : StrPrefix) : kindOf a = .none ↔ a = .none := by
  cases a <;> simp [kindOf]

theorem resolveKind_spec : ∀ (ts : List StrTok) (ps : List StrPrefix), AllPairs TokHasPrefix ts ps →
    ∀ (acc : StrPrefix) (ty : Ty), ty.size = acc.elemSize →
      (joinPrefixFrom acc ps = none → resolveKind (kindOf acc) ty ts = .error .nonStandardConcat) ∧
      (∀ P, joinPrefixFrom acc ps = some P →
        ∃ ty', resolveKind (kindOf acc) ty ts = .ok (kindOf P, ty') ∧ ty'.size = P.elemSize) := by
  intro ts ps h
  induction h with
  | nil =>
    intro acc ty hty
    refine ⟨fun h => ?_, fun P hP => ?_⟩
    · simp [joinPrefixFrom] at h
    · have : acc = P := by simpa [joinPrefixFrom] using hP
      subst this
      exact ⟨ty, by simp [resolveKind], hty⟩
  | @cons t p ts ps htp _ ih =>
    intro acc ty hty
    by_cases ha : acc = .none
    · subst ha
      have := ih p t.elem htp.2
      simp only [joinPrefixFrom, if_true, resolveKind, htp.1, kindOf, bind, Except.bind]
      exact this
    · have hk : kindOf acc ≠ .none := fun h => ha ((kindOf_none acc).mp h)
      by_cases hp : p = .none ∨ p = acc
      · have := ih acc ty hty
        have hcond : ¬ (kindOf p ≠ StrKind.none ∧ kindOf acc ≠ kindOf p) := by
          rintro ⟨h1, h2⟩
          rcases hp with h | h
          · exact h1 ((kindOf_none p).mpr h)
          · exact h2 (by rw [h])
        simp only [joinPrefixFrom, ha, if_false, hp, if_true, resolveKind, htp.1, bind, Except.bind, hk, hcond]
        exact this
      · have hcond : (kindOf p ≠ StrKind.none ∧ kindOf acc ≠ kindOf p) := by
          constructor
          · intro h; exact hp (Or.inl ((kindOf_none p).mp h))
          · intro h; exact hp (Or.inr ((kindOf_inj _ _).mp h).symm)
        simp only [joinPrefixFrom, ha, if_false, hp, resolveKind, htp.1, bind, Except.bind, hk]
        rw [if_pos hcond]
        exact ⟨fun _ => rfl, fun P hP => by cases hP⟩

theorem mapM_ok {α β ε : Type} (f : α → Except ε β) : ∀ (l : List α) (l' : List β),
    l.mapM f = .ok l' → AllPairs (fun a b => f a = .ok b) l l' := by
  intro l
  induction l with
  | nil => intro l' h; simp [List.mapM_nil, pure, Except.pure] at h; subst h; exact .nil
  | cons a l ih =>
    intro l' h
    rw [List.mapM_cons] at h
    cases hfa : f a with
    | error e => rw [hfa] at h; simp [bind, Except.bind] at h
    | ok b =>
      rw [hfa] at h
      cases hl : l.mapM f with
      | error e => rw [hl] at h; simp [bind, Except.bind] at h
      | ok bs =>
        rw [hl] at h
        simp [bind, Except.bind, pure, Except.pure] at h
        subst h
        exact .cons hfa (ih bs hl)

theorem readString_elem (r : StrReader) (ty : Ty) (p : List Byte) (q : Nat) (t : StrTok)
    (h : readString r ty p q = .ok t) : t.elem = ty := by
  unfold readString at h
  simp only [bind, Except.bind, pure, Except.pure] at h
  split at h
  · cases h
  · cases r <;> simp only at h <;> split at h <;> first | (cases h; done) | (cases h; rfl)

theorem retokenize_elem (t t' : StrTok) (ty : Ty) (h : retokenize t ty = .ok t') :
    t'.elem.size = ty.size := by
  unfold retokenize at h
  split at h
  · rename_i hs; rw [readString_elem _ _ _ _ _ h, hs]; rfl
  · rw [readString_elem _ _ _ _ _ h]

theorem elemSize_cases (P : StrPrefix) : P.elemSize = 1 ∨ P.elemSize = 2 ∨ P.elemSize = 4 := by
  cases P <;> simp [StrPrefix.elemSize]

/-- adjacent literals with two different prefixes are diagnosed -/
theorem join_diagnosed (t1 t2 : StrTok) (rest : List StrTok) (ps : List StrPrefix)
    (h : AllPairs TokHasPrefix (t1 :: t2 :: rest) ps) (hj : joinPrefix ps = none) :
    joinStrings (t1 :: t2 :: rest) = .error .nonStandardConcat := by
  cases h with
  | @cons _ p1 _ ps' h1 hrest =>
    have hj' : joinPrefixFrom p1 ps' = none := by simpa [joinPrefix, joinPrefixFrom] using hj
    have := (resolveKind_spec _ _ hrest p1 t1.elem h1.2).1 hj'
    simp only [joinStrings, h1.1, bind, Except.bind, this]

/-- adjacent literals of compatible prefixes: element size of the common prefix, code units = concatenation of the
    units of the tokens (narrow tokens re-read at the wide element type), one terminator -/
theorem join_result (t1 t2 : StrTok) (rest : List StrTok) (ps : List StrPrefix) (P : StrPrefix) (r : StrTok)
    (h : AllPairs TokHasPrefix (t1 :: t2 :: rest) ps) (hj : joinPrefix ps = some P)
    (hr : joinStrings (t1 :: t2 :: rest) = .ok r) :
    r.elem.size = P.elemSize ∧
    ∃ toks, AllPairs (fun t t' => t' = t ∨ (t.elem.size = 1 ∧ ∃ ty, ty.size = P.elemSize ∧ 1 < ty.size ∧ retokenize t ty = .ok t'))
        (t1 :: t2 :: rest) toks ∧
      r.units = (toks.map (·.units)).flatten ∧
      r.units.length + 1 = (toks.map (fun t => (t.units.length + 1) - 1)).sum + 1 := by
  cases h with
  | @cons _ p1 _ ps' h1 hrest =>
    have hj' : joinPrefixFrom p1 ps' = some P := by simpa [joinPrefix, joinPrefixFrom] using hj
    obtain ⟨basety, hres, hsz⟩ := (resolveKind_spec _ _ hrest p1 t1.elem h1.2).2 P hj'
    simp only [joinStrings, h1.1, bind, Except.bind, hres] at hr
    cases hm : List.mapM (fun t => if basety.size > 1 ∧ t.elem.size = 1 then retokenize t basety else pure t) (t1 :: t2 :: rest) with
    | error e => rw [hm] at hr; cases hr
    | ok toks =>
      rw [hm] at hr
      have hp := mapM_ok _ _ _ hm
      cases hp with
      | @cons _ f _ toks' hf hp' =>
        simp only [pure, Except.pure, Except.ok.injEq] at hr
        subst hr
        refine ⟨?_, f :: toks', ?_, rfl, ?_⟩
        · -- element size
          show f.elem.size = P.elemSize
          have hp1 : p1 = .none ∨ p1 = P := ((joinPrefix_spec _ P).mp hj).1 p1 (by simp)
          by_cases hc : basety.size > 1 ∧ t1.elem.size = 1
          · rw [if_pos hc] at hf
            rw [retokenize_elem _ _ _ hf, hsz]
          · rw [if_neg hc] at hf
            simp only [pure, Except.pure, Except.ok.injEq] at hf
            subst hf
            rcases hp1 with hp1 | hp1
            · have h1s : t1.elem.size = 1 := by rw [h1.2, hp1]; rfl
              have := elemSize_cases P
              omega
            · rw [h1.2, hp1]
        · -- provenance of every token
          have key : ∀ (l : List StrTok) (l' : List StrTok),
              AllPairs (fun a b => (if basety.size > 1 ∧ a.elem.size = 1 then retokenize a basety else pure a) = Except.ok b) l l' →
              AllPairs (fun t t' => t' = t ∨ (t.elem.size = 1 ∧ ∃ ty, ty.size = P.elemSize ∧ 1 < ty.size ∧ retokenize t ty = .ok t')) l l' := by
            intro l l' hl
            induction hl with
            | nil => exact .nil
            | @cons a b _ _ hab _ ih =>
              refine .cons ?_ ih
              by_cases hc : basety.size > 1 ∧ a.elem.size = 1
              · rw [if_pos hc] at hab
                exact Or.inr ⟨hc.2, basety, hsz, hc.1, hab⟩
              · rw [if_neg hc] at hab
                simp only [pure, Except.pure, Except.ok.injEq] at hab
                exact Or.inl hab.symm
          exact key _ _ (.cons hf hp')
        · simp [List.length_flatten, Function.comp_def]

-- ------------------------------------------------------------------ whole string literal

theorem drop_add (p : List Byte) (i k : Nat) (bs rest : List Byte) (h : p.drop i = bs ++ rest) (hk : bs.length = k) :
    p.drop (i + k) = rest := by
  have := congrArg (List.drop k) h
  rw [List.drop_drop] at this
  rw [Nat.add_comm] at this
  rw [Nat.add_comm, this, ← hk]; simp

/-- plain bytes (no quote, new-line, NUL, backslash) are skipped one at a time by `string_literal_end` -/
theorem strEnd_bytes (p : List Byte) : ∀ (bs : List Byte) (fuel i : Nat) (rest : List Byte),
    (∀ b ∈ bs, b ≠ 34#8 ∧ b ≠ 10#8 ∧ b ≠ 0#8 ∧ b ≠ 92#8) → p.drop i = bs ++ rest →
    strEnd p (fuel + bs.length) i = strEnd p fuel (i + bs.length) := by
  intro bs
  induction bs with
  | nil => intro fuel i rest _ _; rfl
  | cons b bs ih =>
    intro fuel i rest hb hd
    have h0 : byteAt p i = b := byteAt_of_drop p i b (bs ++ rest) (by simpa using hd)
    have hd' : p.drop (i + 1) = bs ++ rest := drop_add p i 1 [b] (bs ++ rest) (by simpa using hd) rfl
    obtain ⟨h1, h2, h3, h4⟩ := hb b (by simp)
    have e : fuel + (b :: bs).length = (fuel + bs.length) + 1 := by simp; omega
    rw [e, strEnd]
    simp only [h0, h1, h2, h3, h4, if_false, false_or, false_and]
    rw [ih fuel (i + 1) rest (fun x hx => hb x (List.mem_cons_of_mem _ hx)) hd']
    simp [Nat.add_assoc, Nat.add_comm 1]

theorem xdigit_plain (x : Byte) : isXDigit x = true → x ≠ 34#8 ∧ x ≠ 10#8 ∧ x ≠ 0#8 ∧ x ≠ 92#8 := by
  revert x; apply forall_byte; decide +kernel

theorem charOK_bytes (c : BitVec 32) (hc : CharOK c) : ∀ b ∈ encodeUtf8 c, b ≠ 34#8 ∧ b ≠ 10#8 ∧ b ≠ 0#8 ∧ b ≠ 92#8 := by
  obtain ⟨h1, h2, h3, h4, h5⟩ := hc
  intro b hb
  have hm : b.toNat ∈ utf8 c.toNat := by
    rw [← encode_toNat c (by omega)]; exact List.mem_map_of_mem hb
  have key : b.toNat ≠ 34 ∧ b.toNat ≠ 10 ∧ b.toNat ≠ 0 ∧ b.toNat ≠ 92 := by
    unfold utf8 at hm
    split at hm
    · simp at hm; omega
    · split at hm
      · simp at hm; omega
      · split at hm
        · simp at hm; omega
        · simp at hm; omega
  refine ⟨?_, ?_, ?_, ?_⟩ <;> (intro h; rw [h] at key; simp at key)

/-- `string_literal_end` walks over a well-formed body and stops at the closing quote -/
theorem strEnd_items (p : List Byte) (post : List Byte) : ∀ (its : List SrcItem) (fuel i : Nat),
    ItemsOK post its → p.drop i = renderItems its ++ 34#8 :: post →
    strEnd p (fuel + (renderItems its).length + 1) i = .ok (i + (renderItems its).length) := by
  intro its
  induction its with
  | nil =>
    intro fuel i _ hd
    have h0 : byteAt p i = 34#8 := byteAt_of_drop p i _ post (by simpa [renderItems] using hd)
    simp [renderItems, strEnd, h0]
  | cons it its ih =>
    intro fuel i hok hd
    cases it with
    | char c =>
      obtain ⟨hc, hrest⟩ := hok
      simp only [renderItems, renderItem, List.append_assoc] at hd ⊢
      have hd' := drop_add p i _ _ _ hd rfl
      have := strEnd_bytes p (encodeUtf8 c) (fuel + (renderItems its).length + 1) i _ (charOK_bytes c hc) hd
      rw [List.length_append]
      have e : fuel + ((encodeUtf8 c).length + (renderItems its).length) + 1 =
          fuel + (renderItems its).length + 1 + (encodeUtf8 c).length := by omega
      rw [e, this, ih fuel _ hrest hd']
      simp [Nat.add_assoc]
    | esc body v =>
      obtain ⟨⟨b, tl, hb, hb0, hb10, hx⟩, _, hrest⟩ := hok
      subst hb
      simp only [renderItems, renderItem, List.cons_append, List.append_assoc] at hd ⊢
      have h0 : byteAt p i = 92#8 := byteAt_of_drop p i _ _ hd
      have hd2 : p.drop (i + 2) = tl ++ (renderItems its ++ 34#8 :: post) :=
        drop_add p i 2 [92#8, b] _ (by simpa using hd) rfl
      have hd3 := drop_add p (i + 2) _ _ _ hd2 rfl
      have e : fuel + ((92#8 :: b :: (tl ++ renderItems its)).length) + 1 =
          (fuel + (renderItems its).length + 1 + tl.length + 1) + 1 := by simp; omega
      rw [e, strEnd]
      have n1 : (92#8 : Byte) ≠ 34#8 := by decide
      have n2 : ¬ ((92#8 : Byte) = 10#8 ∨ (92#8 : Byte) = 0#8) := by decide
      have h1 : byteAt p (i + 1) = b :=
        byteAt_of_drop p (i + 1) b _ (drop_add p i 1 [92#8] _ (by simpa using hd) rfl)
      simp only [h0, n1, n2, if_false, if_true, h1, hb0, ne_eq, not_false_eq_true, and_self]
      have e2 : fuel + (renderItems its).length + 1 + tl.length + 1 = (fuel + (renderItems its).length + 1 + 1) + tl.length := by omega
      rw [e2, strEnd_bytes p tl _ (i + 2) _ (fun x hx' => xdigit_plain x (hx x hx')) hd2]
      -- one unit of fuel is left over: harmless
      have := ih (fuel + 1) (i + 2 + tl.length) hrest hd3
      have e3 : fuel + 1 + (renderItems its).length + 1 = fuel + (renderItems its).length + 1 + 1 := by omega
      rw [e3] at this
      rw [this]
      simp [Nat.add_assoc]; omega

theorem utf8Len_pos (n : Nat) : 0 < utf8Len n := by
  unfold utf8Len; split <;> (try split) <;> (try split) <;> omega

theorem narrowLoop_items (p post : List Byte) (endp : Nat) : ∀ (its : List SrcItem) (fuel i : Nat) (acc : List Nat),
    ItemsOK post its → p.drop i = renderItems its ++ 34#8 :: post → endp = i + (renderItems its).length →
    (renderItems its).length < fuel →
    narrowLoop p endp fuel i acc = .ok (acc.reverse ++ its.flatMap (itemUnits .narrow)) := by
  intro its
  induction its with
  | nil =>
    intro fuel i acc _ _ he hf
    cases fuel with
    | zero => simp at hf
    | succ f =>
      simp only [renderItems, List.length_nil, Nat.add_zero] at he
      rw [narrowLoop]; simp [he]
  | cons it its ih =>
    intro fuel i acc hok hd he hf
    cases it with
    | char c =>
      obtain ⟨hc, hrest⟩ := hok
      simp only [renderItems, renderItem, List.append_assoc, List.length_append] at hd he hf
      have hl := encode_length c (by have := hc.1; omega)
      have hd' := drop_add p i _ _ _ hd rfl
      obtain ⟨f', hf'⟩ : ∃ f', fuel = f' + utf8Len c.toNat := ⟨fuel - utf8Len c.toNat, by omega⟩
      subst hf'
      rw [narrowLoop_char p endp f' i acc c _ hc.1 hc.2.2.2.2 (by omega) hd]
      rw [ih f' _ _ hrest (by rw [← hl]; exact hd') (by omega) (by omega)]
      simp [itemUnits, encode_toNat c (by have := hc.1; omega)]
    | esc body v =>
      obtain ⟨⟨b, tl, hb, _, _, _⟩, hread, hrest⟩ := hok
      simp only [renderItems, renderItem, List.cons_append, List.append_assoc, List.length_cons, List.length_append] at hd he hf
      have h0 : byteAt p i = 92#8 := byteAt_of_drop p i _ _ hd
      have hd1 : p.drop (i + 1) = body ++ (renderItems its ++ 34#8 :: post) := drop_add p i 1 [92#8] _ (by simpa using hd) rfl
      have hd2 := drop_add p (i + 1) _ _ _ hd1 rfl
      cases fuel with
      | zero => simp at hf
      | succ f =>
        rw [narrowLoop]
        have hi : i < endp := by omega
        simp only [hi, if_true, h0, hd1, hread, bind, Except.bind]
        rw [ih f _ _ hrest hd2 (by omega) (by omega)]
        simp [itemUnits]

theorem utf16Loop_items (p post : List Byte) (endp : Nat) : ∀ (its : List SrcItem) (fuel i : Nat) (acc : List Nat),
    ItemsOK post its → p.drop i = renderItems its ++ 34#8 :: post → endp = i + (renderItems its).length →
    (renderItems its).length < fuel →
    utf16Loop p endp fuel i acc = .ok (acc.reverse ++ its.flatMap (itemUnits .utf16)) := by
  intro its
  induction its with
  | nil =>
    intro fuel i acc _ _ he hf
    cases fuel with
    | zero => simp at hf
    | succ f =>
      simp only [renderItems, List.length_nil, Nat.add_zero] at he
      rw [utf16Loop]; simp [he]
  | cons it its ih =>
    intro fuel i acc hok hd he hf
    cases fuel with
    | zero => simp at hf
    | succ f =>
      cases it with
      | char c =>
        obtain ⟨hc, hrest⟩ := hok
        simp only [renderItems, renderItem, List.append_assoc, List.length_append] at hd he hf
        have hl := encode_length c (by have := hc.1; omega)
        have hpos := utf8Len_pos c.toNat
        have hd' := drop_add p i _ _ _ hd rfl
        rw [utf16Loop_char p endp f i acc c _ hc.1 hc.2.2.2.2 (by omega) hd]
        rw [ih f _ _ hrest (by rw [← hl]; exact hd') (by omega) (by omega)]
        simp [itemUnits, utf16_toNat c hc.1]
      | esc body v =>
        obtain ⟨⟨b, tl, hb, _, _, _⟩, hread, hrest⟩ := hok
        simp only [renderItems, renderItem, List.cons_append, List.append_assoc, List.length_cons, List.length_append] at hd he hf
        have h0 : byteAt p i = 92#8 := byteAt_of_drop p i _ _ hd
        have hd1 : p.drop (i + 1) = body ++ (renderItems its ++ 34#8 :: post) := drop_add p i 1 [92#8] _ (by simpa using hd) rfl
        have hd2 := drop_add p (i + 1) _ _ _ hd1 rfl
        rw [utf16Loop]
        have hi : i < endp := by omega
        simp only [hi, if_true, h0, hd1, hread, bind, Except.bind]
        rw [ih f _ _ hrest hd2 (by omega) (by omega)]
        simp [itemUnits]

theorem utf32Loop_items (p post : List Byte) (endp : Nat) : ∀ (its : List SrcItem) (fuel i : Nat) (acc : List Nat),
    ItemsOK post its → p.drop i = renderItems its ++ 34#8 :: post → endp = i + (renderItems its).length →
    (renderItems its).length < fuel →
    utf32Loop p endp fuel i acc = .ok (acc.reverse ++ its.flatMap (itemUnits .utf32)) := by
  intro its
  induction its with
  | nil =>
    intro fuel i acc _ _ he hf
    cases fuel with
    | zero => simp at hf
    | succ f =>
      simp only [renderItems, List.length_nil, Nat.add_zero] at he
      rw [utf32Loop]; simp [he]
  | cons it its ih =>
    intro fuel i acc hok hd he hf
    cases fuel with
    | zero => simp at hf
    | succ f =>
      cases it with
      | char c =>
        obtain ⟨hc, hrest⟩ := hok
        simp only [renderItems, renderItem, List.append_assoc, List.length_append] at hd he hf
        have hl := encode_length c (by have := hc.1; omega)
        have hpos := utf8Len_pos c.toNat
        have hd' := drop_add p i _ _ _ hd rfl
        rw [utf32Loop_char p endp f i acc c _ hc.1 hc.2.2.2.2 (by omega) hd]
        rw [ih f _ _ hrest (by rw [← hl]; exact hd') (by omega) (by omega)]
        simp [itemUnits]
      | esc body v =>
        obtain ⟨⟨b, tl, hb, _, _, _⟩, hread, hrest⟩ := hok
        simp only [renderItems, renderItem, List.cons_append, List.append_assoc, List.length_cons, List.length_append] at hd he hf
        have h0 : byteAt p i = 92#8 := byteAt_of_drop p i _ _ hd
        have hd1 : p.drop (i + 1) = body ++ (renderItems its ++ 34#8 :: post) := drop_add p i 1 [92#8] _ (by simpa using hd) rfl
        have hd2 := drop_add p (i + 1) _ _ _ hd1 rfl
        rw [utf32Loop]
        have hi : i < endp := by omega
        simp only [hi, if_true, h0, hd1, hread, bind, Except.bind]
        rw [ih f _ _ hrest hd2 (by omega) (by omega)]
        simp [itemUnits]

/-- **whole literal**: reader `r` on `pre "body" post` where the body is a well-formed item sequence -/
theorem readString_items (r : StrReader) (ty : Ty) (pre post : List Byte) (its : List SrcItem) (hok : ItemsOK post its) :
    readString r ty (pre ++ 34#8 :: (renderItems its ++ 34#8 :: post)) pre.length =
      .ok ⟨ty, its.flatMap (itemUnits r), pre.length + 1 + (renderItems its).length + 1,
           (pre ++ 34#8 :: (renderItems its ++ 34#8 :: post)).take (pre.length + 1 + (renderItems its).length + 1)⟩ := by
  have hd : (pre ++ 34#8 :: (renderItems its ++ 34#8 :: post)).drop (pre.length + 1) = renderItems its ++ 34#8 :: post := by
    have : pre ++ 34#8 :: (renderItems its ++ 34#8 :: post) = (pre ++ [34#8]) ++ (renderItems its ++ 34#8 :: post) := by simp
    rw [this, List.drop_left' (by simp)]
  have hend : stringLiteralEnd (pre ++ 34#8 :: (renderItems its ++ 34#8 :: post)) (pre.length + 1) =
      .ok (pre.length + 1 + (renderItems its).length) := by
    unfold stringLiteralEnd
    have := strEnd_items _ post its (pre.length + post.length + 2) (pre.length + 1) hok hd
    have e : (pre ++ 34#8 :: (renderItems its ++ 34#8 :: post)).length + 2 =
        pre.length + post.length + 2 + (renderItems its).length + 1 + 1 := by simp; omega
    -- one unit more than needed: use the lemma with fuel + 1
    have := strEnd_items _ post its (pre.length + post.length + 3) (pre.length + 1) hok hd
    have e2 : (pre ++ 34#8 :: (renderItems its ++ 34#8 :: post)).length + 2 =
        pre.length + post.length + 3 + (renderItems its).length + 1 := by simp; omega
    rw [e2, this]
  unfold readString
  simp only [hend, bind, Except.bind, pure, Except.pure]
  cases r with
  | narrow =>
    simp only
    rw [narrowLoop_items _ post _ its _ _ [] hok hd rfl (by omega)]
    simp
  | utf16 =>
    simp only
    rw [utf16Loop_items _ post _ its _ _ [] hok hd rfl (by omega)]
    simp
  | utf32 =>
    simp only
    rw [utf32Loop_items _ post _ its _ _ [] hok hd rfl (by omega)]
    simp

-- ------------------------------------------------------------------ convert_pp_int on a whole token

theorem byteAt_append_right (a b : List Byte) (k : Nat) : byteAt (a ++ b) (a.length + k) = byteAt b k := by
  simp only [byteAt, List.getD_eq_getElem?_getD]
  rw [List.getElem?_append_right (by omega)]
  simp

theorem byteAt_append_left (a b : List Byte) (k : Nat) (h : k < a.length) : byteAt (a ++ b) k = byteAt a k := by
  simp only [byteAt, List.getD_eq_getElem?_getD]
  rw [List.getElem?_append_left h]

/-- the suffix tests only look at the bytes from `i` on -/
theorem matchText_offset (front sfx : List Byte) : ∀ (pat : List Nat) (k : Nat) (ci : Bool),
    matchText (front ++ sfx) (front.length + k) pat ci = matchText sfx k pat ci := by
  intro pat
  induction pat with
  | nil => intro k ci; rfl
  | cons c cs ih =>
    intro k ci
    simp only [matchText, byteAt_append_right, Nat.add_assoc, ih]

theorem matchSuffix_offset (front sfx : List Byte) :
    matchSuffix (front ++ sfx) front.length = matchSuffix sfx 0 := by
  unfold matchSuffix
  have : (fun (a : SuffixArm) => a.pats.any (fun pt => matchText (front ++ sfx) front.length pt.1 pt.2)) =
      (fun (a : SuffixArm) => a.pats.any (fun pt => matchText sfx 0 pt.1 pt.2)) := by
    funext a
    congr 1
    funext pt
    exact matchText_offset front sfx pt.1 0 pt.2
  rw [this]

/-- value of a digit character in the sense of `strtoul` agrees with the hexadecimal digit value -/
theorem digitVal_hex (b : Byte) : isXDigit b = true → digitVal b = some (hexDigitValue b.toNat) ∧ hexDigitValue b.toNat < 16 := by
  revert b; apply forall_byte; decide +kernel

/-- the digit loop of `strtoul`: digits `ds` (each below the base) followed by a byte that is not a digit of the base -/
theorem strtoulDigits_spec (p : List Byte) (base : Nat) : ∀ (ds : List Byte) (fuel i v : Nat),
    ds.length < fuel → (∀ k, k < ds.length → byteAt p (i + k) = ds.getD k 0#8) →
    (∀ d ∈ ds, isXDigit d = true ∧ hexDigitValue d.toNat < base) →
    (∀ x, digitVal (byteAt p (i + ds.length)) = some x → ¬ x < base) →
    strtoulDigits p base fuel i v = (ds.foldl (fun a d => a * base + hexDigitValue d.toNat) v, i + ds.length) := by
  intro ds
  induction ds with
  | nil =>
    intro fuel i v hf _ _ hend
    cases fuel with
    | zero => simp at hf
    | succ fuel =>
      simp only [List.length_nil, Nat.add_zero] at hend
      rw [strtoulDigits]
      cases hdv : digitVal (byteAt p i) with
      | none => simp
      | some x => simp [hend x hdv]
  | cons d ds ih =>
    intro fuel i v hf hb hd hend
    cases fuel with
    | zero => simp at hf
    | succ fuel =>
      have h0 : byteAt p i = d := by simpa using hb 0 (by simp)
      obtain ⟨hx, hlt⟩ := hd d (by simp)
      rw [strtoulDigits]
      simp only [h0, (digitVal_hex d hx).1, hlt, if_true, List.foldl_cons]
      rw [ih fuel (i + 1) _ (by simp at hf; omega) ?_ (fun y hy => hd y (List.mem_cons_of_mem _ hy)) ?_]
      · simp [Nat.add_assoc, Nat.add_comm 1]
      · intro k hk
        have := hb (k + 1) (by simp; omega)
        simpa [Nat.add_assoc, Nat.add_comm 1] using this
      · simpa [Nat.add_assoc, Nat.add_comm 1] using hend

/-- facts about each of the 23 suffix spellings -/
theorem suffix_facts : ∀ e ∈ suffixSpellings,
    matchSuffix (sfxBytes e.1) 0 = ((sfxBytes e.1).length, e.2.hasL, e.2.hasU) ∧
    (∀ x, digitVal (byteAt (sfxBytes e.1) 0) = some x → ¬ x < 17) ∧
    toLower (byteAt (sfxBytes e.1) 0) ≠ 120#8 ∧ toLower (byteAt (sfxBytes e.1) 0) ≠ 98#8 := by
  decide +kernel

theorem convertPpInt_parts (front ds sfx : List Byte) (base : Nat) (l u : Bool)
    (hbase : detectBase (front ++ ds ++ sfx) = (base, front.length))
    (hds : ∀ d ∈ ds, isXDigit d = true ∧ hexDigitValue d.toNat < base)
    (hnext : ∀ x, digitVal (byteAt sfx 0) = some x → ¬ x < base)
    (hsfx : matchSuffix sfx 0 = (sfx.length, l, u))
    (hv : digitsValue base (ds.map (fun d => hexDigitValue d.toNat)) < 2 ^ 64) :
    convertPpInt (front ++ ds ++ sfx) =
      some (BitVec.ofNat 64 (digitsValue base (ds.map (fun d => hexDigitValue d.toNat))),
            intLitType base l u (BitVec.ofNat 64 (digitsValue base (ds.map (fun d => hexDigitValue d.toNat))))) := by
  have hdig := strtoulDigits_spec (front ++ ds ++ sfx) base ds ((front ++ ds ++ sfx).length + 1) front.length 0
    (by simp; omega)
    (by
      intro k hk
      rw [List.append_assoc, byteAt_append_right, byteAt_append_left _ _ _ hk]; rfl)
    hds
    (by
      have : front.length + ds.length = (front ++ ds).length := by simp
      rw [this, ← Nat.add_zero (front ++ ds).length, byteAt_append_right]
      exact hnext)
  have hm : matchSuffix (front ++ ds ++ sfx) (front.length + ds.length) = (sfx.length, l, u) := by
    have := matchSuffix_offset (front ++ ds) sfx
    simp only [List.length_append] at this
    rw [this, hsfx]
  unfold convertPpInt strtoul
  simp only [hbase, hdig, hm]
  have hfold : ds.foldl (fun a d => a * base + hexDigitValue d.toNat) 0 =
      digitsValue base (ds.map (fun d => hexDigitValue d.toNat)) := by
    simp [digitsValue, List.foldl_map]
  rw [hfold]
  simp [hv]
  omega

theorem detectBase_hex (x d : Byte) (rest : List Byte) (hx : x = 120#8 ∨ x = 88#8) (hd : isXDigit d = true) :
    detectBase (48#8 :: x :: d :: rest) = (16, 2) := by
  rcases hx with rfl | rfl <;>
    simp [detectBase, basePrefixes, matchText, nextOk, byteAt_zero, byteAt_succ, hd, toLower]

theorem detectBase_bin (x d : Byte) (rest : List Byte) (hx : x = 98#8 ∨ x = 66#8) (hd : d = 48#8 ∨ d = 49#8) :
    detectBase (48#8 :: x :: d :: rest) = (2, 2) := by
  rcases hx with rfl | rfl <;> rcases hd with rfl | rfl <;>
    simp [detectBase, basePrefixes, List.find?, matchText, nextOk, byteAt_zero, byteAt_succ, toLower]

theorem tl120 : toLower (BitVec.ofNat 8 120) = 120#8 := by decide
theorem tl98 : toLower (BitVec.ofNat 8 98) = 98#8 := by decide
theorem tl48 : toLower (BitVec.ofNat 8 48) = 48#8 := by decide

theorem detectBase_oct (rest : List Byte) (h1 : toLower (byteAt rest 0) ≠ 120#8) (h2 : toLower (byteAt rest 0) ≠ 98#8) :
    detectBase (48#8 :: rest) = (8, 0) := by
  have e1 : byteAt (48#8 :: rest) 1 = byteAt rest 0 := byteAt_succ _ _ 0
  have b1 : (toLower (byteAt rest 0) == 120#8) = false := by simpa using h1
  have b2 : (toLower (byteAt rest 0) == 98#8) = false := by simpa using h2
  have a1 : matchText (48#8 :: rest) 0 [48, 120] true = false := by
    simp only [matchText, byteAt_zero, Nat.zero_add, e1, if_true, tl120, b1, Bool.and_false, Bool.false_and]
  have a2 : matchText (48#8 :: rest) 0 [48, 98] true = false := by
    simp only [matchText, byteAt_zero, Nat.zero_add, e1, if_true, tl98, b2, Bool.and_false, Bool.false_and]
  have a3 : matchText (48#8 :: rest) 0 [48] false = true := by
    simp [matchText, byteAt_zero]
  simp only [detectBase, basePrefixes, List.find?, a1, a2, a3, nextOk, Bool.false_and, Bool.and_true]

theorem detectBase_dec (d : Byte) (rest : List Byte) (hd : 49 ≤ d.toNat ∧ d.toNat ≤ 57) :
    detectBase (d :: rest) = (10, 0) := by
  have hlow : toLower d = d := by
    unfold toLower
    have : ¬ (65 ≤ d.toNat ∧ d.toNat ≤ 90) := by omega
    simp only [decide_eq_true_eq, Bool.and_eq_true]
    rw [if_neg this]
  have hne : (d == 48#8) = false := by
    apply beq_eq_false_iff_ne.mpr
    intro h; rw [h] at hd; simp at hd
  have a1 : matchText (d :: rest) 0 [48, 120] true = false := by
    simp only [matchText, byteAt_zero, if_true, hlow, tl48, hne, Bool.and_false, Bool.false_and]
  have a2 : matchText (d :: rest) 0 [48, 98] true = false := by
    simp only [matchText, byteAt_zero, if_true, hlow, tl48, hne, Bool.and_false, Bool.false_and]
  have a3 : matchText (d :: rest) 0 [48] false = false := by
    have : (d == BitVec.ofNat 8 48) = false := hne
    simp only [matchText, byteAt_zero, this, Bool.and_false, Bool.false_and, Bool.false_eq_true, if_false]
  simp only [detectBase, basePrefixes, List.find?, a1, a2, a3, Bool.false_and, defaultBase]

theorem oct_facts (y : Byte) : isOctDigit y = true →
    isXDigit y = true ∧ hexDigitValue y.toNat < 8 ∧ toLower y ≠ 120#8 ∧ toLower y ≠ 98#8 := by
  revert y; apply forall_byte; decide +kernel

theorem dec_facts (y : Byte) : ChibiVerif.Literals.isDigit y = true → isXDigit y = true ∧ hexDigitValue y.toNat < 10 := by
  revert y; apply forall_byte; decide +kernel

theorem hex_facts (y : Byte) : isXDigit y = true → hexDigitValue y.toNat < 16 := by
  revert y; apply forall_byte; decide +kernel

theorem int_value (base : Nat) (front ds : List Byte) (h : IntSpelling base front ds)
    (e : String × Suffix) (he : e ∈ suffixSpellings)
    (hv : digitsValue base (ds.map (fun d => hexDigitValue d.toNat)) < 2 ^ 64) :
    convertPpInt (front ++ ds ++ sfxBytes e.1) =
      some (BitVec.ofNat 64 (digitsValue base (ds.map (fun d => hexDigitValue d.toNat))),
            intLitType base e.2.hasL e.2.hasU (BitVec.ofNat 64 (digitsValue base (ds.map (fun d => hexDigitValue d.toNat))))) := by
  obtain ⟨hs1, hs2, hs3, hs4⟩ := suffix_facts e he
  cases h with
  | hex x d ds hx hd =>
    apply convertPpInt_parts _ _ _ _ _ _ ?_ (fun y hy => ⟨hd y hy, hex_facts y (hd y hy)⟩)
      (fun x hx' hlt => hs2 x hx' (by omega)) hs1 hv
    simp only [List.cons_append, List.nil_append, List.length_cons, List.length_nil]
    exact detectBase_hex x d _ hx (hd d (by simp))
  | bin x d ds hx hd =>
    have hb : ∀ y ∈ d :: ds, isXDigit y = true ∧ hexDigitValue y.toNat < 2 := by
      intro y hy; rcases hd y hy with rfl | rfl <;> decide
    apply convertPpInt_parts _ _ _ _ _ _ ?_ hb (fun x hx' hlt => hs2 x hx' (by omega)) hs1 hv
    simp only [List.cons_append, List.nil_append, List.length_cons, List.length_nil]
    exact detectBase_bin x d _ hx (hd d (by simp))
  | oct ds hd =>
    have hb : ∀ y ∈ 48#8 :: ds, isXDigit y = true ∧ hexDigitValue y.toNat < 8 := by
      intro y hy
      rcases List.mem_cons.mp hy with rfl | hy
      · decide
      · exact ⟨(oct_facts y (hd y hy)).1, (oct_facts y (hd y hy)).2.1⟩
    apply convertPpInt_parts _ _ _ _ _ _ ?_ hb (fun x hx' hlt => hs2 x hx' (by omega)) hs1 hv
    simp only [List.nil_append, List.cons_append, List.length_nil]
    apply detectBase_oct
    · cases ds with
      | nil => simpa using hs3
      | cons y ys => simp only [List.cons_append, byteAt_zero]; exact (oct_facts y (hd y (by simp))).2.2.1
    · cases ds with
      | nil => simpa using hs4
      | cons y ys => simp only [List.cons_append, byteAt_zero]; exact (oct_facts y (hd y (by simp))).2.2.2
  | dec d ds hd0 hd =>
    have hb : ∀ y ∈ d :: ds, isXDigit y = true ∧ hexDigitValue y.toNat < 10 := by
      intro y hy
      rcases List.mem_cons.mp hy with rfl | hy
      · have : ChibiVerif.Literals.isDigit y = true := by simp [ChibiVerif.Literals.isDigit]; omega
        exact dec_facts y this
      · exact dec_facts y (hd y hy)
    apply convertPpInt_parts _ _ _ _ _ _ ?_ hb (fun x hx' hlt => hs2 x hx' (by omega)) hs1 hv
    simp only [List.nil_append, List.cons_append, List.length_nil]
    exact detectBase_dec d _ hd0

-- ------------------------------------------------------------------ character constants

theorem findQuote_here (p : List Byte) (fuel j : Nat) (hj : j < p.length) (h : byteAt p j = 39#8) :
    findQuote p (fuel + 1) j = some j := by
  rw [findQuote]
  have : ¬ j ≥ p.length := by omega
  simp [this, h]

/-- a character constant whose body is one source character -/
theorem readCharLiteral_char (pre post : List Byte) (c : BitVec 32) (hc : c.toNat < 0x110000) (h0 : c.toNat ≠ 0)
    (h92 : c.toNat ≠ 92) :
    readCharLiteral (pre ++ 39#8 :: (encodeUtf8 c ++ 39#8 :: post)) pre.length =
      .ok (c, pre.length + 1 + utf8Len c.toNat) := by
  have hd : (pre ++ 39#8 :: (encodeUtf8 c ++ 39#8 :: post)).drop (pre.length + 1) = encodeUtf8 c ++ 39#8 :: post := by
    have : pre ++ 39#8 :: (encodeUtf8 c ++ 39#8 :: post) = (pre ++ [39#8]) ++ (encodeUtf8 c ++ 39#8 :: post) := by simp
    rw [this, List.drop_left' (by simp)]
  obtain ⟨b, r, hb, hb92⟩ := encode_head_ne_bsl c (by omega) h92
  have hb0 : b ≠ 0#8 := by
    intro hz
    have hm : b.toNat ∈ utf8 c.toNat := by
      rw [← encode_toNat c (by omega), hb]; simp
    rw [hz] at hm
    unfold utf8 at hm
    split at hm
    · simp at hm; omega
    · split at hm
      · simp at hm; omega
      · split at hm <;> (simp at hm; omega)
  have hbyte : byteAt (pre ++ 39#8 :: (encodeUtf8 c ++ 39#8 :: post)) (pre.length + 1) = b :=
    byteAt_of_drop _ _ b (r ++ 39#8 :: post) (by rw [hd, hb]; rfl)
  have hl := encode_length c (by omega)
  have hq : byteAt (pre ++ 39#8 :: (encodeUtf8 c ++ 39#8 :: post)) (pre.length + 1 + utf8Len c.toNat) = 39#8 := by
    have := drop_add _ (pre.length + 1) (utf8Len c.toNat) _ _ hd hl
    exact byteAt_of_drop _ _ _ post this
  unfold readCharLiteral
  simp only [hbyte, hb0, hb92, if_false, false_and, decodeAt_encoded _ _ c _ (by omega) hd, bind, Except.bind, pure, Except.pure]
  rw [findQuote_here _ _ _ (by simp; omega) hq]

/-- `tok->val` after the per-prefix post-processing, for values in the range of the constant's type -/
theorem charPost_values :
    (∀ n, n < 256 → charPost .castChar (BitVec.ofNat 32 n) = BitVec.ofInt 64 (if n < 128 then (n : Int) else (n : Int) - 256)) ∧
    (∀ c : BitVec 32, c.toNat < 0x10000 → (charPost (.mask 0xFFFF) c).toNat = c.toNat) ∧
    (∀ c : BitVec 32, (charPost .none c).toInt = c.toInt) := by
  refine ⟨by decide +kernel, ?_, ?_⟩
  · intro c hc
    have hm : c.msb = false := by
      rw [BitVec.msb_eq_decide]; simp; omega
    simp only [charPost, BitVec.signExtend_eq_setWidth_of_msb_false hm, BitVec.toNat_and, BitVec.toNat_setWidth,
      BitVec.toNat_ofNat]
    have : (65535 : Nat) = 2 ^ 16 - 1 := by decide
    simp only [Nat.reducePow, Nat.reduceMod]
    rw [this, Nat.and_two_pow_sub_one_eq_mod]
    omega
  · intro c
    simp only [charPost]
    exact BitVec.toInt_signExtend_of_le (by decide)

/-- `cur->val = (uint32_t)cur->val` (the `U'…'` arm; translated as `.mask 0xFFFFFFFF`): the `int` returned by
    `read_char_literal` is zero-extended — the value of the constant as a `char32_t` (unsigned) -/
theorem charPost_mask32 (c : BitVec 32) : (charPost (.mask 0xFFFFFFFF) c).toNat = c.toNat := by
  simp only [charPost, BitVec.toNat_and, BitVec.toNat_ofNat, BitVec.toNat_signExtend, BitVec.toNat_setWidth]
  have h32 : (4294967295 : Nat) % 2 ^ 64 = 2 ^ 32 - 1 := by decide
  rw [h32, Nat.and_two_pow_sub_one_eq_mod]
  have := c.isLt
  cases c.msb <;> simp <;> omega

end ChibiVerif.Lemmas.Readers
