/-
C06, return values: the machine side (integer-class values in %rax).

* which instructions `return e;` adds (`retSeq_int`: the cast-table cell of C01),
* the epilogue `mov %rbp, %rsp; pop %rbp` leaves %rax alone (`epilogue_ok`),
* the caller's normalisation after `call`, for *any* callee that obeys the psABI minimum (`caller_norm_ok`): `LowHolds t x w`
  — the low `sizeof t` bytes of %rax are the object representation of `w` — is all that is needed.
-/
import ChibiVerif.Model.C06Ret
import ChibiVerif.Lemmas.C06ArgLemmas

namespace ChibiVerif.C06Ret
open ChibiVerif.X86 ChibiVerif.Asm ChibiVerif.Spec.IntSpec ChibiVerif.C01 ChibiVerif.C06Args
open ChibiVerif.Gen.CommonType ChibiVerif.Gen.ReturnStmt

/-- return type and expression of integer type: exactly the cast-table sequence of C01 -/
theorem retSeq_int (frm to : ITy) : retSeq (descr to) (descr frm) = castSeq frm to := by
  cases frm <;> cases to <;> rfl

/-- a pointer / enumeration is returned like `unsigned long` / `int` -/
theorem retSeq_ptr_enum :
    retSeq ty_ptr ty_ptr = [] ∧ retSeq ty_enum ty_enum = [] ∧ retSeq ty_enum (descr .i32) = [] ∧
    retSeq (descr .i32) ty_enum = [] := ⟨rfl, rfl, rfl, rfl⟩

/-- the generated epilogue is `mov %rbp, %rsp; pop %rbp; ret` -/
theorem epilogue_shape : epilogue = epilogueSeq ++ [⟨"ret", []⟩] ∧
    epilogueSeq = [⟨"mov", [.r "%rbp", .r "%rsp"]⟩, ⟨"pop", [.r "%rbp"]⟩] := ⟨rfl, rfl⟩

/-- `mov %rbp, %rsp; pop %rbp`: %rax (and every register but %rsp, %rbp) is untouched; %rsp points at the return address, %rbp is
    the word the prologue saved -/
theorem epilogue_ok (s : State) :
    ∃ s', X86.run epilogueSeq s = some s' ∧ s'.get .rax = s.get .rax ∧ s'.get .rsp = s.get .rbp + 8 ∧
      s'.get .rbp = s.read64 (s.get .rbp) ∧ s'.mem = s.mem := by
  refine ⟨_, rfl, ?_, ?_, ?_, rfl⟩
  · simp [State.dst, State.src, State.setW, State.getW, State.get, State.set]
  · simp [State.dst, State.src, State.setW, State.getW, State.get, State.set]
  · simp [State.dst, State.src, State.setW, State.getW, State.get, State.set, State.read64, State.read32, State.read16]

theorem run_append_some (a b : List Ins) (s s1 : State) (h : X86.run a s = some s1) : X86.run (a ++ b) s = X86.run b s1 := by
  rw [run_append, h]; rfl

/-- the caller's instruction per return type, as generated from the `switch (node->ty->kind)` of `case ND_FUNCALL` -/
theorem callerRetSeq_int :
    callerRetSeq (descr .bool) = [⟨"movzx", [.r "%al", .r "%eax"]⟩] ∧
    callerRetSeq (descr .i8) = CastKind.movsbl.seq ∧ callerRetSeq (descr .u8) = CastKind.movzbl.seq ∧
    callerRetSeq (descr .i16) = CastKind.movswl.seq ∧ callerRetSeq (descr .u16) = CastKind.movzwl.seq ∧
    callerRetSeq (descr .i32) = [] ∧ callerRetSeq (descr .u32) = [] ∧ callerRetSeq (descr .i64) = [] ∧
    callerRetSeq (descr .u64) = [] ∧ callerRetSeq ty_ptr = [] ∧ callerRetSeq ty_enum = [] := by
  refine ⟨rfl, rfl, rfl, rfl, rfl, rfl, rfl, rfl, rfl, rfl, rfl⟩

theorem movzx_al_eax (s : State) :
    ∃ s', X86.run [⟨"movzx", [.r "%al", .r "%eax"]⟩] s = some s' ∧
      s'.get .rax = (((s.get .rax).setWidth 8).setWidth 32).setWidth 64 ∧ ∀ r, r ≠ .rax → s'.get r = s.get r := by
  refine ⟨_, rfl, rfl, ?_⟩
  intro r hr
  simp [State.src, State.setW, State.getW, State.get, State.set, hr]

/-- registers other than %rax survive each of the normalising instructions -/
theorem norm_frame (k : CastKind) (hk : k = .movsbl ∨ k = .movzbl ∨ k = .movswl ∨ k = .movzwl ∨ k = .nop) (s : State) :
    ∃ s', X86.run k.seq s = some s' ∧ s'.get .rax = k.fn (s.get .rax) ∧ ∀ r, r ≠ .rax → s'.get r = s.get r := by
  rcases hk with rfl | rfl | rfl | rfl | rfl <;> refine ⟨_, rfl, rfl, ?_⟩ <;> intro r hr <;>
    simp [State.src, State.setW, State.getW, State.get, State.set, hr]

/-- **the caller's normalisation**: whatever the bits of %rax above the low `sizeof t` bytes are, after the instruction that
    `case ND_FUNCALL` prints for the return type `t` %rax represents `w` (codegen.c's invariant: extended to 32 bits, `_Bool` and
    64-bit types in the whole register); no other register changes -/
theorem caller_norm_ok (t : ITy) (c : State) (w : Int) (h : LowHolds t (c.get .rax) w) :
    ∃ c', X86.run (callerRetSeq (descr t)) c = some c' ∧ Represents t (c'.get .rax) w ∧ ∀ r, r ≠ .rax → c'.get r = c.get r := by
  obtain ⟨hb, h8, hu8, h16, hu16, h32, hu32, h64, hu64, _, _⟩ := callerRetSeq_int
  obtain ⟨hin, hlow⟩ := h
  cases t
  case bool =>
    obtain ⟨c', h1, h2, h3⟩ := movzx_al_eax c
    refine ⟨c', hb ▸ h1, ?_, h3⟩
    rw [h2]
    simp [ITy.size] at hlow
    unfold_spec; bv_ints
  case i8 =>
    obtain ⟨c', h1, h2, h3⟩ := norm_frame .movsbl (by simp) c
    refine ⟨c', h8 ▸ h1, ?_, h3⟩
    rw [h2]
    simp [ITy.size] at hlow
    simp only [CastKind.fn]; unfold_spec; bv_ints
  case u8 =>
    obtain ⟨c', h1, h2, h3⟩ := norm_frame .movzbl (by simp) c
    refine ⟨c', hu8 ▸ h1, ?_, h3⟩
    rw [h2]
    simp [ITy.size] at hlow
    simp only [CastKind.fn]; unfold_spec; bv_ints
  case i16 =>
    obtain ⟨c', h1, h2, h3⟩ := norm_frame .movswl (by simp) c
    refine ⟨c', h16 ▸ h1, ?_, h3⟩
    rw [h2]
    simp [ITy.size] at hlow
    simp only [CastKind.fn]; unfold_spec; bv_ints
  case u16 =>
    obtain ⟨c', h1, h2, h3⟩ := norm_frame .movzwl (by simp) c
    refine ⟨c', hu16 ▸ h1, ?_, h3⟩
    rw [h2]
    simp [ITy.size] at hlow
    simp only [CastKind.fn]; unfold_spec; bv_ints
  case i32 =>
    refine ⟨c, h32 ▸ rfl, ⟨hin, ?_⟩, fun _ _ => rfl⟩
    simp [ITy.size] at hlow ⊢; omega
  case u32 =>
    refine ⟨c, hu32 ▸ rfl, ⟨hin, ?_⟩, fun _ _ => rfl⟩
    simp [ITy.size] at hlow ⊢; omega
  case i64 =>
    refine ⟨c, h64 ▸ rfl, ⟨hin, ?_⟩, fun _ _ => rfl⟩
    simp [ITy.size] at hlow ⊢; omega
  case u64 =>
    refine ⟨c, hu64 ▸ rfl, ⟨hin, ?_⟩, fun _ _ => rfl⟩
    simp [ITy.size] at hlow ⊢; omega

/-- what a register that `Represents` a value looks like from outside (the guarantee to a caller compiled by another compiler) -/
theorem represents_image (t : ITy) (x : BitVec 64) (w : Int) (h : Represents t x w) :
    (if t.size = 8 then x = BitVec.ofInt 64 w else x.setWidth 32 = BitVec.ofInt 32 w) ∧
    (t = .bool → (x = 0#64 ∨ x = 1#64)) := by
  have := (represents_iff t x w).1 h
  refine ⟨?_, ?_⟩
  · cases t
    case bool =>
      -- `_Bool`: the whole register is 0 or 1
      obtain ⟨hr, hx⟩ := this
      simp [ITy.size] at hx ⊢
      have hw : w = 0 ∨ w = 1 := by
        simp [ITy.inRange, ITy.min, ITy.max, ITy.signed, ITy.bits] at hr; omega
      rcases hw with rfl | rfl <;> subst hx <;> rfl
    all_goals simp_all [ITy.size]
  · intro ht; subst ht; exact (represents_bool x w h).1

end ChibiVerif.C06Ret
