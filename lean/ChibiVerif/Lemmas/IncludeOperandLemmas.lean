/-
Helper lemmas for C10, the operand of #include (Model/IncludeOperand.lean): the three patterns of
`read_include_filename`, `join_tokens`, and the object-like expander used by the driver.
-/
import ChibiVerif.Model.IncludeOperand

namespace ChibiVerif.IncludeOperand
open ChibiVerif.CondIncl

/-- pattern 1: a string token is the file name, quoted form; the tokens after it and the macro table are irrelevant -/
theorem readOperand_str (xp : List OTok → Except Diag (List OTok)) (t : OTok) (rest : List OTok) (h : t.kind = .str) :
    readOperand xp (t :: rest) = .ok (t.text, true) := by
  simp [readOperand, readDirect, h]

theorem takeWhile_notGt (ts : List OTok) (gt : OTok) (rest : List OTok) (hgt : isGt gt = true)
    (hno : ∀ u ∈ ts, isGt u = false) : (ts ++ gt :: rest).takeWhile (fun u => !isGt u) = ts := by
  induction ts with
  | nil => simp [hgt]
  | cons a as ih =>
    have ha : isGt a = false := hno a (by simp)
    simp only [List.cons_append, List.takeWhile, ha, Bool.not_false]
    rw [ih (fun u hu => hno u (by simp [hu]))]

/-- pattern 2: `<` t₁ … tₙ `>` …: the file name is `join_tokens(t₁ … tₙ)`, angle form; what follows the first `>`
    is irrelevant -/
theorem readOperand_angle (xp : List OTok → Except Diag (List OTok)) (lt gt : OTok) (ts rest : List OTok)
    (hlt : isLt lt = true) (hgt : isGt gt = true) (hno : ∀ u ∈ ts, isGt u = false) :
    readOperand xp (lt :: (ts ++ gt :: rest)) = .ok (joinToks ts, false) := by
  have hk : lt.kind = .other := by
    simp only [isLt, Bool.and_eq_true, beq_iff_eq] at hlt; exact hlt.1
  have hany : (ts ++ gt :: rest).any isGt = true := by simp [hgt]
  simp [readOperand, readDirect, hk, hlt, hany, takeWhile_notGt ts gt rest hgt hno]

/-- pattern 2 without a closing `>` on the line: "expected '>'" -/
theorem readOperand_angle_open (xp : List OTok → Except Diag (List OTok)) (lt : OTok) (ts : List OTok)
    (hlt : isLt lt = true) (hno : ∀ u ∈ ts, isGt u = false) :
    readOperand xp (lt :: ts) = .error .badDirective := by
  have hk : lt.kind = .other := by
    simp only [isLt, Bool.and_eq_true, beq_iff_eq] at hlt; exact hlt.1
  have hany : ts.any isGt = false := by
    simp only [List.any_eq_false]; intro u hu; simp [hno u hu]
  simp [readOperand, readDirect, hk, hlt, hany]

/-- pattern 3: an operand that starts with an identifier is macro-expanded as a whole line and read again by
    patterns 1/2; a result that still starts with an identifier (or is empty) is "expected a filename" -/
theorem readOperand_macro (xp : List OTok → Except Diag (List OTok)) (t : OTok) (rest : List OTok) (h : t.kind = .ident) :
    readOperand xp (t :: rest) =
      match xp (t :: rest) with
      | .error e => .error e
      | .ok [] => .error .badDirective
      | .ok (t' :: r') => if t'.kind = .ident then .error .badDirective else readDirect (t' :: r') := by
  simp only [readOperand, h, if_true]
  cases xp (t :: rest) with
  | error e => rfl
  | ok ts' => cases ts' <;> rfl

/-- anything else: "expected a filename" -/
theorem readOperand_other (xp : List OTok → Except Diag (List OTok)) (t : OTok) (rest : List OTok)
    (h1 : t.kind = .other) (h2 : isLt t = false) : readOperand xp (t :: rest) = .error .badDirective := by
  simp [readOperand, readDirect, h1, h2]

/-- `join_tokens` of tokens without white space between them is the concatenation of the spellings -/
theorem joinToks_noSpace (ts : List OTok) (h : ∀ u ∈ ts.tail, u.hasSpace = false) :
    joinToks ts = String.join (ts.map OTok.spelling) := by
  cases ts with
  | nil => rfl
  | cons t rest =>
    simp only [joinToks, List.map_cons, String.join_cons]
    congr 1
    congr 1
    apply List.map_congr_left
    intro u hu
    have := h u (by simpa using hu)
    simp [this]

-- ------------------------------------------------------------------ the object-like expander

/-- tokens none of which names a macro are left alone (budget ≥ number of tokens) -/
theorem expandObj_inert (defs : ODefs) : ∀ (fuel : Nat) (ts : List OTok), ts.length ≤ fuel →
    (∀ t ∈ ts, t.kind = .ident → defs.lookup t.text = none) → expandObj defs fuel ts = .ok ts
  | _, [], _, _ => by cases ‹Nat› <;> rfl
  | 0, _ :: _, h, _ => by simp at h
  | fuel + 1, t :: rest, h, hno => by
    have ih := expandObj_inert defs fuel rest (by simp at h; omega) (fun u hu => hno u (by simp [hu]))
    have hsel : (if t.kind = .ident ∧ (!t.hide.contains t.text) = true then defs.lookup t.text else none) = none := by
      split
      · rename_i hc; exact hno t (by simp) hc.1
      · rfl
    simp only [expandObj, hsel, ih]

theorem setHeadSpace_mem (ts : List OTok) (sp : Bool) (u : OTok) (hu : u ∈ setHeadSpace ts sp) :
    ∃ v ∈ ts, v.kind = u.kind ∧ v.text = u.text := by
  cases ts with
  | nil => simp [setHeadSpace] at hu
  | cons a r =>
    simp only [setHeadSpace, List.mem_cons] at hu
    rcases hu with rfl | hu
    · exact ⟨a, by simp, rfl, rfl⟩
    · exact ⟨u, by simp [hu], rfl, rfl⟩

theorem setHeadSpace_length (ts : List OTok) (sp : Bool) : (setHeadSpace ts sp).length = ts.length := by
  cases ts <;> rfl

/-- one replacement: a macro name whose body names no macro is replaced by the body, the first token of the body
    taking over the white-space flag of the name, every token the name in its hide set -/
theorem expandObj_one (defs : ODefs) (t : OTok) (body rest : List OTok) (fuel : Nat)
    (ht : t.kind = .ident) (hh : t.hide.contains t.text = false) (hb : defs.lookup t.text = some body)
    (hlen : body.length + rest.length ≤ fuel)
    (hno : ∀ u ∈ body ++ rest, u.kind = .ident → defs.lookup u.text = none) :
    expandObj defs (fuel + 1) (t :: rest) =
      .ok (setHeadSpace (body.map (fun u => { u with hide := u.hide ++ t.hide ++ [t.text] })) t.hasSpace ++ rest) := by
  have hsel : (if t.kind = .ident ∧ (!t.hide.contains t.text) = true then defs.lookup t.text else none) = some body := by
    rw [if_pos ⟨ht, by rw [hh]; rfl⟩, hb]
  simp only [expandObj, hsel]
  apply expandObj_inert
  · simp only [List.length_append, setHeadSpace_length, List.length_map]; exact hlen
  · intro u hu hk
    have hmem : ∃ v ∈ body ++ rest, v.kind = u.kind ∧ v.text = u.text := by
      rcases List.mem_append.mp hu with hu | hu
      · obtain ⟨w, hw, h1, h2⟩ := setHeadSpace_mem _ _ u hu
        obtain ⟨v, hv, rfl⟩ := List.mem_map.mp hw
        exact ⟨v, List.mem_append_left _ hv, h1, h2⟩
      · exact ⟨u, List.mem_append_right _ hu, rfl, rfl⟩
    obtain ⟨v, hv, h1, h2⟩ := hmem
    rw [← h2]
    exact hno v hv (h1 ▸ hk)

-- ------------------------------------------------------------------ object-like expansion terminates

theorem cost_pos (b k : Nat) : 1 ≤ cost b k := Nat.pow_pos (by omega)

theorem cost_mono (b : Nat) {i j : Nat} (h : i ≤ j) : cost b i ≤ cost b j :=
  Nat.pow_le_pow_right (by omega) h

theorem cost_succ (b k : Nat) : 1 + b * cost b k ≤ cost b (k + 1) := by
  have := cost_pos b k
  simp only [cost, Nat.pow_succ] at this ⊢
  have : (b + 2) ^ k * (b + 2) = b * (b + 2) ^ k + 2 * (b + 2) ^ k := by rw [Nat.mul_comm, Nat.add_mul]
  omega

theorem lookup_mem (defs : ODefs) (n : String) (body : List OTok) (h : defs.lookup n = some body) :
    n ∈ defs.map (·.1) ∧ body.length ≤ maxBody defs := by
  induction defs with
  | nil => simp [ODefs.lookup] at h
  | cons d ds ih =>
    simp only [ODefs.lookup, List.find?_cons] at h
    cases hd : (d.1 == n) with
    | true =>
      simp only [hd, Option.map_some, Option.some.injEq] at h
      have : d.1 = n := by simpa using hd
      subst h
      exact ⟨by simp [this], by simp [maxBody]; omega⟩
    | false =>
      simp only [hd] at h
      obtain ⟨h1, h2⟩ := ih h
      exact ⟨by simp only [List.map_cons, List.mem_cons]; exact Or.inr h1, by simp only [maxBody]; omega⟩

/-- adding a name of the table that is not yet hidden strictly lowers the rank -/
theorem countP_lt (names : List String) (hide hide' : List String) (x : String)
    (hsub : ∀ n, hide.contains n = true → hide'.contains n = true) (hx' : hide'.contains x = true)
    (hx : hide.contains x = false) (hmem : x ∈ names) :
    names.countP (fun n => !hide'.contains n) < names.countP (fun n => !hide.contains n) := by
  induction names with
  | nil => simp at hmem
  | cons a as ih =>
    have hle : as.countP (fun n => !hide'.contains n) ≤ as.countP (fun n => !hide.contains n) := by
      apply List.countP_mono_left
      intro n _ hn
      cases h : hide.contains n with
      | true => rw [hsub n h] at hn; simp at hn
      | false => rfl
    simp only [List.countP_cons]
    rcases List.mem_cons.mp hmem with rfl | hm
    · simp only [hx', hx, Bool.not_true, Bool.not_false, Bool.false_eq_true, if_false, if_true]
      omega
    · have := ih hm
      cases h : hide.contains a with
      | true => rw [hsub a h]; simpa using this
      | false =>
        simp only [Bool.not_false, if_true]
        split <;> omega

theorem total_append (defs : ODefs) (a b : List OTok) : total defs (a ++ b) = total defs a + total defs b := by
  simp [total, List.map_append, List.sum_append]

theorem total_setHeadSpace (defs : ODefs) (ts : List OTok) (sp : Bool) : total defs (setHeadSpace ts sp) = total defs ts := by
  cases ts <;> rfl

theorem total_le_of_all (defs : ODefs) (ts : List OTok) (c : Nat)
    (h : ∀ u ∈ ts, cost (maxBody defs) (rank defs u.hide) ≤ c) : total defs ts ≤ ts.length * c := by
  induction ts with
  | nil => simp [total]
  | cons t r ih =>
    have h1 := h t (by simp)
    have h2 := ih (fun u hu => h u (by simp [hu]))
    simp only [total, List.map_cons, List.sum_cons, List.length_cons] at h2 ⊢
    rw [Nat.add_mul]
    omega

/-- **object-like expansion terminates**: the budget `total defs ts` suffices -/
theorem expandObj_total (defs : ODefs) : ∀ (fuel : Nat) (ts : List OTok), total defs ts ≤ fuel →
    ∃ r, expandObj defs fuel ts = .ok r := by
  intro fuel
  induction fuel with
  | zero =>
    intro ts h
    cases ts with
    | nil => exact ⟨[], rfl⟩
    | cons t r =>
      have := cost_pos (maxBody defs) (rank defs t.hide)
      simp only [total, List.map_cons, List.sum_cons] at h
      omega
  | succ fuel ih =>
    intro ts h
    cases ts with
    | nil => exact ⟨[], rfl⟩
    | cons t rest =>
      simp only [total, List.map_cons, List.sum_cons] at h
      have hpos := cost_pos (maxBody defs) (rank defs t.hide)
      simp only [expandObj]
      cases hsel : (if t.kind = .ident ∧ (!t.hide.contains t.text) = true then defs.lookup t.text else none) with
      | none =>
        obtain ⟨r, hr⟩ := ih rest (by simp only [total]; omega)
        exact ⟨t :: r, by simp [hr]⟩
      | some body =>
        simp only
        apply ih
        split at hsel
        · rename_i hc
          obtain ⟨hk, hh⟩ := hc
          have hh' : t.hide.contains t.text = false := by simpa using hh
          obtain ⟨hmem, hlen⟩ := lookup_mem defs t.text body hsel
          -- every token of the replacement has a smaller rank
          have hrank : ∀ u ∈ body.map (fun u => { u with hide := u.hide ++ t.hide ++ [t.text] }),
              rank defs u.hide + 1 ≤ rank defs t.hide := by
            intro u hu
            obtain ⟨v, _, rfl⟩ := List.mem_map.mp hu
            apply countP_lt _ t.hide _ t.text _ _ hh' hmem
            · intro n hn
              simp only [List.contains_eq_mem, List.mem_append, decide_eq_true_eq] at hn ⊢
              exact Or.inl (Or.inr hn)
            · simp
          cases hk' : rank defs t.hide with
          | zero =>
            -- impossible: t.text is a name of the table that is not hidden
            exfalso
            have : 0 < rank defs t.hide := by
              have := countP_lt (defs.map (·.1)) t.hide (t.hide ++ [t.text]) t.text
                (by intro n hn; simp only [List.contains_eq_mem, List.mem_append, decide_eq_true_eq] at hn ⊢; exact Or.inl hn)
                (by simp) hh' hmem
              exact Nat.lt_of_le_of_lt (Nat.zero_le _) this
            omega
          | succ k =>
            have hall : ∀ u ∈ body.map (fun u => { u with hide := u.hide ++ t.hide ++ [t.text] }),
                cost (maxBody defs) (rank defs u.hide) ≤ cost (maxBody defs) k := by
              intro u hu
              have := hrank u hu
              exact cost_mono _ (by omega)
            have hb := total_le_of_all defs _ _ hall
            simp only [List.length_map] at hb
            have hcs := cost_succ (maxBody defs) k
            have hmul : body.length * cost (maxBody defs) k ≤ maxBody defs * cost (maxBody defs) k :=
              Nat.mul_le_mul_right _ hlen
            rw [total_append, total_setHeadSpace]
            rw [hk'] at h
            simp only [total] at hb ⊢
            omega
        · cases hsel

/-- the budget-free expander never reports `outOfFuel` – it always delivers a token list -/
theorem expandObjT_ok (defs : ODefs) (ts : List OTok) : ∃ r, expandObjT defs ts = .ok r :=
  expandObj_total defs (total defs ts) ts (Nat.le_refl _)

theorem expandObjT_ne_outOfFuel (defs : ODefs) (ts : List OTok) : expandObjT defs ts ≠ .error .outOfFuel := by
  obtain ⟨r, hr⟩ := expandObjT_ok defs ts
  rw [hr]; simp

/-- more budget does not change a finished expansion, so `expandObjT` is `expandObj` with any sufficient budget -/
theorem expandObj_mono (defs : ODefs) : ∀ (fuel : Nat) (ts r : List OTok), expandObj defs fuel ts = .ok r →
    expandObj defs (fuel + 1) ts = .ok r := by
  intro fuel
  induction fuel with
  | zero =>
    intro ts r h
    cases ts with
    | nil => simpa [expandObj] using h
    | cons t rest => simp [expandObj] at h
  | succ fuel ih =>
    intro ts r h
    cases ts with
    | nil => simpa [expandObj] using h
    | cons t rest =>
      simp only [expandObj] at h ⊢
      cases hsel : (if t.kind = .ident ∧ (!t.hide.contains t.text) = true then defs.lookup t.text else none) with
      | some body => rw [hsel] at h; simp only at h ⊢; exact ih _ _ h
      | none =>
        rw [hsel] at h
        simp only at h ⊢
        cases hr : expandObj defs fuel rest with
        | error e => simp [hr] at h
        | ok r' => rw [hr] at h; rw [ih rest r' hr]; exact h

theorem expandObj_eq_T (defs : ODefs) (ts : List OTok) (fuel : Nat) (h : total defs ts ≤ fuel) :
    expandObj defs fuel ts = expandObjT defs ts := by
  obtain ⟨r, hr⟩ := expandObjT_ok defs ts
  rw [hr]
  unfold expandObjT at hr
  induction h with
  | refl => exact hr
  | step _ ih => exact expandObj_mono defs _ ts r ih

end ChibiVerif.IncludeOperand
