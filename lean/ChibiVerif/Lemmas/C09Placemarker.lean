/-
C09 — the repaired defect C09-placemarker (`fix:` 5a15c0f in /repo), as a record.

`substLoopOld` is `substLoop` of Model/PP.lean as it was before the repair: in the arm "parameter with an EMPTY argument
   followed by `##`" the right operand of that `##` was copied at once — also when it was an empty argument itself and
   another `##` followed, so that the next `##` found the output as it was before the chain: nothing at all
   ("'##' cannot appear at start of macro expansion", `t(,,)`) or an unrelated earlier token (`a x##y##z` with `(,,3)` gave
   `a3`).  C11 6.10.3.3p2-3: an empty argument next to `##` is a placemarker, placemarker ## placemarker = placemarker,
   which is the left operand of the following `##`.  The present code moves over the whole run of empty operands
   (`skipEmptyOperands`).  Witnesses: Findings/C09.lean.
-/
import ChibiVerif.Model.PP
import ChibiVerif.Lemmas.PPSubst

namespace ChibiVerif.PP

/-- `subst` BEFORE `fix:` 5a15c0f (verbatim the former `substLoop`; only the arm `a.toks = []` differs from the present one) -/
def substLoopOld (lx : String → LexOne) (pp : PreExpand) (isObj : Bool) :
    Nat → St → List MacroArg → List Tok → List Tok → Except Err (List Tok × List MacroArg × St)
  | _, st, args, [], acc => .ok (acc.reverse, args, st)
  | 0, _, _, _ :: _, _ => .error .fuel
  | n + 1, st, args, tok :: rest, acc =>
    -- "#" followed by a parameter
    if tok.text == "#" && !isObj then
      match findArg args rest.head? with
      | none => .error .hashNotParam
      | some a => substLoopOld lx pp isObj n st args (rest.drop 1) (stringize tok a.toks :: acc)
    else
    -- [GNU] `, ## __VA_ARGS__`
    match (if tok.text == "," && textIs rest.head? "##" then (findArg args (rest.drop 1).head?).filter (·.isVa) else none) with
    | some a =>
      if a.toks.isEmpty then substLoopOld lx pp isObj n st args (rest.drop 2) acc
      else substLoopOld lx pp isObj n st args (rest.drop 1) (tok :: acc)
    | none =>
    -- "##"
    if tok.text == "##" then
      match acc with
      | [] => .error .pasteAtStart
      | cur :: acc' =>
        match rest with
        | [] => .error .pasteAtEnd
        | nxt :: rest' =>
          match findArg args (some nxt) with
          | some a =>
            match a.toks with
            | [] => substLoopOld lx pp isObj n st args rest' acc
            | t0 :: ts =>
              match paste lx cur t0 with
              | .error e => .error e
              | .ok p => substLoopOld lx pp isObj n st args rest' (ts.reverse ++ p :: acc')
          | none =>
            match paste lx cur nxt with
            | .error e => .error e
            | .ok p => substLoopOld lx pp isObj n st args rest' (p :: acc')
    else
    match findArg args (some tok) with
    | some a =>
      -- a parameter followed by "##": its argument is copied without macro replacement
      if textIs rest.head? "##" then
        match rest.drop 1 with
        | [] => .error .pasteAtEnd
        | rhs :: rest3 =>
          match a.toks with
          | [] =>
            match findArg args (some rhs) with
            | some a2 => substLoopOld lx pp isObj n st args rest3 (a2.toks.reverse ++ acc)
            | none => substLoopOld lx pp isObj n st args rest3 (rhs :: acc)
          | _ :: _ =>
            substLoopOld lx pp isObj n st args rest ((setHeadFlags a.toks tok.atBol tok.hasSpace).reverse ++ acc)
      else
        -- a parameter: the completely macro-replaced argument (a copy is expanded, once)
        match a.expanded with
        | some e => substLoopOld lx pp isObj n st args rest ((setHeadFlags e tok.atBol tok.hasSpace).reverse ++ acc)
        | none =>
          match pp st (addHideset a.toks []) with
          | .error e => .error e
          | .ok (e, st') =>
            substLoopOld lx pp isObj n st' (setExpanded args a.name e) rest
              ((setHeadFlags e tok.atBol tok.hasSpace).reverse ++ acc)
    | none =>
      -- __VA_OPT__(x)
      if tok.text == "__VA_OPT__" && textIs rest.head? "(" then
        match readMacroArgOne true 0 (rest.drop 1) with
        | .error e => .error e
        | .ok (content, r) =>
          if hasVarargs args then
            match substLoopOld lx pp false n st args content [] with
            | .error e => .error e
            | .ok (out, args', st') => substLoopOld lx pp isObj n st' args' (r.drop 1) (out.reverse ++ acc)
          else substLoopOld lx pp isObj n st args (r.drop 1) acc
      else
        -- any other token
        substLoopOld lx pp isObj n st args rest (tok :: acc)


def substOld (lx : String → LexOne) (pp : PreExpand) (st : St) (body : List Tok) (args : List MacroArg) (isObj : Bool) :
    Except Err (List Tok × St) :=
  (substLoopOld lx pp isObj (body.length + 1) st args body []).map fun (out, _, st') => (out, st')

end ChibiVerif.PP
