/-
C05: the relocation cursor of `write_gvar_data` (Model/InitCursor.lean).  When every arm hands the cursor of its recursive calls
on - the array loop, the struct's member loop (a bit-field leaves it alone), the union arm - the linked list behind `head` is the
list `writeGvar` appends to, and the cursor the call returns is its last node: one lemma per arm, mutual induction on the tree.
-/
import ChibiVerif.Model.InitCursor

namespace ChibiVerif.Init

/-- a result of `writeGvar` together with the cursor at the end of its relocation list -/
def withEnd : Except Fail Image → Except Fail (Image × Nat)
  | .ok im => .ok (im, im.relocs.length)
  | .error e => .error e

theorem linkReloc_end (rels : List Reloc) (r : Reloc) : linkReloc rels rels.length r = (rels ++ [r], (rels ++ [r]).length) := by
  simp [linkReloc]

theorem withEnd_bind (x : Except Fail Image) (k : Image → Except Fail Image) :
    (withEnd x >>= fun p => withEnd (k p.1)) = withEnd (x >>= k) := by
  cases x <;> rfl

/-- the scalar arm: a relocation is linked behind the cursor and the cursor moves to it; everything else leaves the list alone -/
theorem writeGvarLeafC_end (e : Expr) (sz : Nat) (kind : SKind) (im : Image) (off : Nat) :
    writeGvarLeafC e sz kind im im.relocs.length off = withEnd (writeGvarLeaf e sz kind im off) := by
  have hfl : ∀ (x : Except Fail (List Nat)),
      ((do let b ← x; pure { im with bytes := b } : Except Fail Image) >>= fun im' => (pure (im', im.relocs.length) : Except Fail (Image × Nat)))
        = withEnd (do let b ← x; pure { im with bytes := b }) := by
    intro x; cases x <;> rfl
  cases kind with
  | flt =>
    simp only [writeGvarLeafC, writeGvarLeaf]
    split
    · rfl
    · split
      · exact hfl _
      · split
        · exact hfl _
        · split
          · exact hfl _
          · rfl
  | int =>
    simp only [writeGvarLeafC, writeGvarLeaf]
    cases e.label with
    | none => exact hfl _
    | some l => simp [linkReloc, withEnd]
  | ptr =>
    simp only [writeGvarLeafC, writeGvarLeaf]
    cases e.label with
    | none => exact hfl _
    | some l => simp [linkReloc, withEnd]
  | bool =>
    simp only [writeGvarLeafC, writeGvarLeaf]
    cases e.label with
    | none => exact hfl _
    | some l => simp [linkReloc, withEnd]

theorem bind_ok' {α β : Type} {x : Except Fail α} {k : α → Except Fail β} {b : β} (h : (x >>= k) = .ok b) :
    ∃ a, x = .ok a ∧ k a = .ok b := by
  cases x with
  | error e => cases h
  | ok a => exact ⟨a, rfl, h⟩

/-- the bit-field arm of the member loop never touches the relocation list -/
theorem writeGvarMs_bf_relocs (c : Init) (mi : MemInfo) (t : Ty) (bo bw : Nat) (hbf : mi.bf = some (bo, bw)) (im im' : Image) (off : Nat)
    (h : writeGvarMs [c] [(mi, t)] im off = .ok im') : im'.relocs = im.relocs := by
  rw [writeGvarMs] at h
  simp only [hbf] at h
  cases he : c.expr? with
  | none => simp only [he, writeGvarMs] at h; cases h; rfl
  | some e =>
    simp only [he] at h
    split at h
    · cases h
    · obtain ⟨v, _, h⟩ := bind_ok' h
      obtain ⟨b, _, h⟩ := bind_ok' h
      simp only [writeGvarMs] at h
      cases h; rfl

theorem writeGvarMs_bf_split (c : Init) (cs : List Init) (mi : MemInfo) (t : Ty) (ms : Members) (bo bw : Nat)
    (hbf : mi.bf = some (bo, bw)) (im : Image) (off : Nat) :
    writeGvarMs (c :: cs) ((mi, t) :: ms) im off = (writeGvarMs [c] [(mi, t)] im off >>= fun im' => writeGvarMs cs ms im' off) := by
  rw [writeGvarMs, writeGvarMs]
  simp only [hbf]
  cases c.expr? with
  | none => simp only [writeGvarMs]; rfl
  | some e =>
    simp only
    split
    · rfl
    · cases readBuf im.bytes (off + mi.offset) t.size.toNat with
      | error err => rfl
      | ok v =>
        simp only [bind, Except.bind]
        split
        · rfl
        · simp only [writeGvarMs]

theorem writeGvarMs_nobf_split (c : Init) (cs : List Init) (mi : MemInfo) (t : Ty) (ms : Members) (hbf : mi.bf = none) (im : Image)
    (off : Nat) :
    writeGvarMs (c :: cs) ((mi, t) :: ms) im off = (writeGvar c t im (off + mi.offset) >>= fun im' => writeGvarMs cs ms im' off) := by
  rw [writeGvarMs]
  simp only [hbf]

mutual
  /-- **the cursor of `write_gvar_data`**: the call returns the end of the list it built -/
  theorem writeGvarC_end : ∀ (init : Init) (ty : Ty) (im : Image) (off : Nat),
      writeGvarC Arms.code init ty im im.relocs.length off = withEnd (writeGvar init ty im off)
    | .arr cs, .array elem n, im, off => by
      rw [writeGvarC, writeGvar, writeGvarArrC_end cs elem im off]
      cases writeGvarArr cs elem im off <;> rfl
    | .flex, .array _ _, im, off => by rw [writeGvarC, writeGvar]; rfl
    | .struct e cs, .struct ms sz fl, im, off => by
      rw [writeGvarC, writeGvar, writeGvarMsC_end cs ms im off]
      cases writeGvarMs cs ms im off <;> rfl
    | .union e none cs, .union ms sz fl, im, off => by rw [writeGvarC, writeGvar]; rfl
    | .union e (some k) cs, .union ms sz fl, im, off => by
      rw [writeGvarC, writeGvar, writeGvarNthC_end cs ms k im off]
      cases writeGvarNth cs ms k im off <;> rfl
    | .leaf none, .scalar _ _, im, off => by rw [writeGvarC, writeGvar]; rfl
    | .leaf (some e), .scalar sz kind, im, off => by rw [writeGvarC, writeGvar]; exact writeGvarLeafC_end e sz kind im off
    | .arr _, .scalar _ _, _, _ => by rfl
    | .arr _, .inc _, _, _ => by rfl
    | .arr _, .struct _ _ _, _, _ => by rfl
    | .arr _, .union _ _ _, _, _ => by rfl
    | .flex, .scalar _ _, _, _ => by rfl
    | .flex, .inc _, _, _ => by rfl
    | .flex, .struct _ _ _, _, _ => by rfl
    | .flex, .union _ _ _, _, _ => by rfl
    | .struct _ _, .scalar _ _, _, _ => by rfl
    | .struct _ _, .array _ _, _, _ => by rfl
    | .struct _ _, .inc _, _, _ => by rfl
    | .struct _ _, .union _ _ _, _, _ => by rfl
    | .union _ m _, .scalar _ _, _, _ => by cases m <;> rfl
    | .union _ m _, .array _ _, _, _ => by cases m <;> rfl
    | .union _ m _, .inc _, _, _ => by cases m <;> rfl
    | .union _ m _, .struct _ _ _, _, _ => by cases m <;> rfl
    | .leaf e, .array _ _, _, _ => by cases e <;> rfl
    | .leaf e, .inc _, _, _ => by cases e <;> rfl
    | .leaf e, .struct _ _ _, _, _ => by cases e <;> rfl
    | .leaf e, .union _ _ _, _, _ => by cases e <;> rfl
  /-- the array arm: `cur = write_gvar_data(cur, …)` for every element -/
  theorem writeGvarArrC_end : ∀ (cs : List Init) (elem : Ty) (im : Image) (off : Nat),
      writeGvarArrC Arms.code cs elem im im.relocs.length off = withEnd (writeGvarArr cs elem im off)
    | [], _, im, _ => by rw [writeGvarArrC, writeGvarArr]; rfl
    | c :: cs, elem, im, off => by
      rw [writeGvarArrC, writeGvarArr, writeGvarC_end c elem im off]
      cases h : writeGvar c elem im off with
      | error err => rfl
      | ok im' =>
        simp only [withEnd, Arms.code, ↓reduceIte, bind, Except.bind]
        exact writeGvarArrC_end cs elem im' (off + elem.size.toNat)
  /-- the struct arm: `cur = write_gvar_data(cur, …)` for every member that is not a bit-field; a bit-field leaves the list alone -/
  theorem writeGvarMsC_end : ∀ (cs : List Init) (ms : Members) (im : Image) (off : Nat),
      writeGvarMsC Arms.code cs ms im im.relocs.length off = withEnd (writeGvarMs cs ms im off)
    | _, [], im, _ => by rw [writeGvarMsC, writeGvarMs]; rfl
    | [], _ :: _, _, _ => by rw [writeGvarMsC, writeGvarMs]; rfl
    | c :: cs, (mi, t) :: ms, im, off => by
      cases hbf : mi.bf with
      | some b =>
        obtain ⟨bo, bw⟩ := b
        rw [writeGvarMsC, writeGvarMs_bf_split c cs mi t ms bo bw hbf]
        simp only [hbf]
        cases h : writeGvarMs [c] [(mi, t)] im off with
        | error err => rfl
        | ok im' =>
          have hr := writeGvarMs_bf_relocs c mi t bo bw hbf im im' off h
          have him : ({ im' with relocs := im.relocs } : Image) = im' := by cases im'; simp_all
          simp only [bind, Except.bind]
          rw [him, ← hr]
          exact writeGvarMsC_end cs ms im' off
      | none =>
        rw [writeGvarMsC, writeGvarMs_nobf_split c cs mi t ms hbf]
        simp only [hbf]
        rw [writeGvarC_end c t im (off + mi.offset)]
        cases h : writeGvar c t im (off + mi.offset) with
        | error err => rfl
        | ok im' =>
          simp only [withEnd, Arms.code, ↓reduceIte, bind, Except.bind]
          exact writeGvarMsC_end cs ms im' off
  /-- the union arm: `return write_gvar_data(cur, the initialised member, …)` -/
  theorem writeGvarNthC_end : ∀ (cs : List Init) (ms : Members) (k : Nat) (im : Image) (off : Nat),
      writeGvarNthC Arms.code cs ms k im im.relocs.length off = withEnd (writeGvarNth cs ms k im off)
    | c :: _, (_, t) :: _, 0, im, off => by rw [writeGvarNthC, writeGvarNth]; exact writeGvarC_end c t im off
    | _ :: cs, _ :: ms, k+1, im, off => by rw [writeGvarNthC, writeGvarNth]; exact writeGvarNthC_end cs ms k im off
    | [], _, _, _, _ => by rfl
    | _ :: _, [], _, _, _ => by rfl
end

/-- `gvar_initializer` with the linked list and the cursor is `gvar_initializer` with the appended list -/
theorem gvarInitC_code (init : Init) (ty : Ty) : gvarInitC Arms.code init ty = gvarInit init ty := by
  unfold gvarInitC gvarInit
  have := writeGvarC_end init ty { bytes := List.replicate ty.size.toNat 0, relocs := [] } 0
  simp only [List.length_nil] at this
  rw [this]
  cases writeGvar init ty { bytes := List.replicate ty.size.toNat 0, relocs := [] } 0 <;> rfl

end ChibiVerif.Init
