/-
C01: code generation for the side-effect-free expression fragment (literals, variables in the frame, casts, unary and
binary operators), assembled from the pieces the C01 theorems are about: `castSeq`, `unSeq`, `opSeq`, `loadSeq`.
It is the object of the composition theorem `C01_value` in Props/C01.lean (proved in Lemmas/C01Value.lean).
-/
import ChibiVerif.Lemmas.C01MemLemmas

namespace ChibiVerif.C01
open ChibiVerif.X86 ChibiVerif.Asm ChibiVerif.Spec.IntSpec ChibiVerif.Gen.CommonType ChibiVerif.C01Codegen

-- `nodeOf`, `compileE`, `depthE` are defined in Model/C01Expr.lean (core only: the driver runs them)

/-- the frame holds the store: variable `i` of type `tys[i]` lives at `off i (%rbp)` with value `vals[i]`, and the frame
    lies above the `n` free stack slots below `%rsp` (no address wrap-around) -/
def FrameHolds (σ : Env) (off : Nat → Int) (n : Nat) (m : State) : Prop :=
  8 * n ≤ (m.get .rsp).toNat ∧
  ∀ i t v, σ.tys[i]? = some t → σ.vals[i]? = some v →
    MemHolds t m (m.ea (off i) .rbp) v ∧
    (m.get .rsp).toNat ≤ (m.ea (off i) .rbp).toNat ∧ (m.ea (off i) .rbp).toNat + 8 ≤ 2 ^ 64

end ChibiVerif.C01
