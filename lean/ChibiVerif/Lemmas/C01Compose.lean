/-
C01: code generation for the side-effect-free expression fragment (literals, variables in the frame, casts, unary and
binary operators), assembled from the pieces the C01 theorems are about: `castSeq`, `unSeq`, `opSeq`, `loadSeq`.
It is the object of the (open) composition statement `C01_value_Statement` in Props/C01.lean.
-/
import ChibiVerif.Lemmas.C01MemLemmas

namespace ChibiVerif.C01
open ChibiVerif.X86 ChibiVerif.Asm ChibiVerif.Spec.IntSpec ChibiVerif.Gen.CommonType ChibiVerif.C01Codegen

/-- node kind and operand order of a C11 binary operator (`a > b` is `b < a`) -/
def nodeOf : BinOp → NK × Bool
  | .add => (.ND_ADD, false) | .sub => (.ND_SUB, false) | .mul => (.ND_MUL, false) | .div => (.ND_DIV, false)
  | .mod => (.ND_MOD, false) | .band => (.ND_BITAND, false) | .bor => (.ND_BITOR, false) | .bxor => (.ND_BITXOR, false)
  | .shl => (.ND_SHL, false) | .shr => (.ND_SHR, false)
  | .eq => (.ND_EQ, false) | .ne => (.ND_NE, false) | .lt => (.ND_LT, false) | .le => (.ND_LE, false)
  | .gt => (.ND_LT, true) | .ge => (.ND_LE, true)

/-- `gen_expr` on the typed tree `add_type` builds for a pure expression over variables at `off i (%rbp)` -/
def compileE (tys : List ITy) (off : Nat → Int) : E → Option (ITy × List Ins)
  | .lit t v => some (t, [⟨"mov", [.i v, .r "%rax"]⟩])
  | .var i => (tys[i]?).map fun t => (t, ⟨"lea", [.m (off i) "%rbp", .r "%rax"]⟩ :: loadSeq t)
  | .cast t e => (compileE tys off e).map fun (te, c) => (t, c ++ castSeq te t)
  | .un op e =>
      (compileE tys off e).map fun (te, c) =>
        match op with
        | .plus => (promote te, c ++ castSeq te (promote te))
        | .lognot => (.i32, c ++ unSeq .ND_NOT te)
        | .neg => (promote te, c ++ castSeq te (promote te) ++ unSeq .ND_NEG (promote te))
        | .bitnot => (promote te, c ++ castSeq te (promote te) ++ unSeq .ND_BITNOT (promote te))
  | .bin op a b =>
      match compileE tys off a, compileE tys off b with
      | some (ta, ca), some (tb, cb) =>
        let (k, swap) := nodeOf op
        let (tl, cl, tr, cr) := if swap then (tb, cb, ta, ca) else (ta, ca, tb, cb)
        let t := binopOperandType op tl tr
        let rhs := if op.isShift then cr else cr ++ castSeq tr t
        some (binopType op ta tb,
              rhs ++ [⟨"push", [.r "%rax"]⟩] ++ cl ++ castSeq tl t ++ [⟨"pop", [.r "%rdi"]⟩] ++ opSeq k t)
      | _, _ => none
  | _ => none

/-- stack slots `compileE` needs below `%rsp` -/
def depthE : E → Nat
  | .cast _ e | .un _ e => depthE e
  | .bin _ a b => max (depthE a) (depthE b + 1) + 1
  | _ => 0

/-- the frame holds the store: variable `i` of type `tys[i]` lives at `off i (%rbp)` with value `vals[i]`, and the frame
    lies above the `n` free stack slots below `%rsp` (no address wrap-around) -/
def FrameHolds (σ : Env) (off : Nat → Int) (n : Nat) (m : State) : Prop :=
  8 * n ≤ (m.get .rsp).toNat ∧
  ∀ i t v, σ.tys[i]? = some t → σ.vals[i]? = some v →
    MemHolds t m (m.ea (off i) .rbp) v ∧
    (m.get .rsp).toNat ≤ (m.ea (off i) .rbp).toNat ∧ (m.ea (off i) .rbp).toNat + 8 ≤ 2 ^ 64

end ChibiVerif.C01
