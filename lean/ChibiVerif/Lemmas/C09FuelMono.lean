/-
C09 — the answer of `preprocess2` does not depend on the fuel once the fuel suffices: a run that ends with output or
with a diagnostic (anything but `.error .fuel`) ends the same way with any larger amount of fuel.  Together with
`C09_terminates` this makes `preprocess2 lx (fuelBound defs ts)` *the* result of macro expansion, and every run of the
driver that does not report `fuel` (the correspondence runs use a fixed large constant) computes exactly it.
-/
import ChibiVerif.Model.PP
import ChibiVerif.Lemmas.PPLemmas

namespace ChibiVerif.PP

/-- `pp'` answers like `pp` wherever `pp` does not run out of fuel -/
def PPExtends (pp pp' : PreExpand) : Prop :=
  ∀ st ts r, pp st ts = r → r ≠ .error .fuel → pp' st ts = r

theorem substLoop_mono (lx : String → LexOne) (pp pp' : PreExpand) (hpp : PPExtends pp pp') :
    ∀ (fuel : Nat) (isObj : Bool) (st : St) (args : List MacroArg) (body acc : List Tok)
      (r : Except Err (List Tok × List MacroArg × St)),
      substLoop lx pp isObj fuel st args body acc = r → r ≠ .error .fuel →
      substLoop lx pp' isObj fuel st args body acc = r := by
  intro fuel
  induction fuel with
  | zero =>
    intro isObj st args body acc r h hr
    cases body with
    | nil => simpa [substLoop] using h
    | cons t b => simp only [substLoop] at h; exact absurd h.symm hr
  | succ n ih =>
    intro isObj st args body acc r h hr
    cases body with
    | nil => simpa [substLoop] using h
    | cons tok rest =>
      unfold substLoop at h ⊢
      repeat' split at h
      all_goals try simp only [*, ↓reduceIte, Bool.false_eq_true]
      all_goals first
        | (exact ih _ _ _ _ _ _ h hr)
        | (rw [‹MacroArg.toks _ = _ :: _›] at h; exact ih _ _ _ _ _ _ h hr)
        | (have hp := hpp _ _ _ ‹pp st _ = Except.error _›
             (by intro hc; simp only [Except.error.injEq] at hc; subst hc; exact hr h.symm)
           rw [hp]; exact h)
        | (have hp := hpp _ _ _ ‹pp st _ = Except.ok _› (by simp)
           rw [hp]; exact ih _ _ _ _ _ _ h hr)
        | (have hs := ih _ _ _ _ _ _ ‹substLoop lx pp false n st args _ [] = Except.error _› (by rw [h]; exact hr)
           rw [hs]; exact h)
        | (have hs := ih _ _ _ _ _ _ ‹substLoop lx pp false n st args _ [] = Except.ok _› (by simp)
           rw [hs]; exact ih _ _ _ _ _ _ h hr)

theorem subst_mono (lx : String → LexOne) (pp pp' : PreExpand) (hpp : PPExtends pp pp')
    (st : St) (body : List Tok) (args : List MacroArg) (isObj : Bool) (r : Except Err (List Tok × St))
    (h : subst lx pp st body args isObj = r) (hr : r ≠ .error .fuel) : subst lx pp' st body args isObj = r := by
  unfold subst at h ⊢
  cases hs : substLoop lx pp isObj (body.length + 1) st args body [] with
  | error e =>
    rw [hs] at h
    have := substLoop_mono lx pp pp' hpp _ _ _ _ _ _ _ hs
      (by intro hc; simp only [Except.error.injEq] at hc; subst hc; simp only [Except.map] at h; exact hr h.symm)
    rw [this]; exact h
  | ok v =>
    rw [hs] at h
    have := substLoop_mono lx pp pp' hpp _ _ _ _ _ _ _ hs (by simp)
    rw [this]; exact h

theorem expandMacro_mono (lx : String → LexOne) (pp pp' : PreExpand) (hpp : PPExtends pp pp')
    (st : St) (tok : Tok) (rest : List Tok) (r : Except Err (Option (List Tok × St)))
    (h : expandMacro lx pp st tok rest = r) (hr : r ≠ .error .fuel) : expandMacro lx pp' st tok rest = r := by
  unfold expandMacro at h ⊢
  repeat' split at h
  all_goals try dsimp only at h
  all_goals repeat' split at h
  all_goals try simp only [*, ↓reduceIte, Bool.false_eq_true]
  all_goals first
    | (have hs := subst_mono lx pp pp' hpp _ _ _ _ _ ‹subst lx pp _ _ _ _ = Except.error _›
         (by intro hc; simp only [Except.error.injEq] at hc; subst hc; exact hr h.symm)
       rw [hs]; exact h)
    | (have hs := subst_mono lx pp pp' hpp _ _ _ _ _ ‹subst lx pp _ _ _ _ = Except.ok _› (by simp)
       rw [hs]; exact h)
    | skip

/-- **fuel does not matter once it suffices** -/
theorem preprocess2_mono (lx : String → LexOne) : ∀ (n m : Nat), n ≤ m →
    PPExtends (fun st ts => preprocess2 lx n st ts) (fun st ts => preprocess2 lx m st ts) := by
  intro n
  induction n with
  | zero =>
    intro m _ st ts r h hr
    cases ts with
    | nil => cases m <;> simpa [preprocess2] using h
    | cons t b => simp only [preprocess2] at h; exact absurd h.symm hr
  | succ n ih =>
    intro m hnm st ts r h hr
    obtain ⟨m', rfl⟩ : ∃ m', m = m' + 1 := ⟨m - 1, by omega⟩
    have hext := ih m' (by omega)
    cases ts with
    | nil => simpa [preprocess2] using h
    | cons tok rest =>
      simp only [preprocess2] at h ⊢
      cases hexp : expandMacro lx (fun st ts => preprocess2 lx n st ts) st tok rest with
      | error e =>
        rw [hexp] at h
        simp only at h
        have := expandMacro_mono lx _ _ hext st tok rest _ hexp
          (by intro hc; simp only [Except.error.injEq] at hc; subst hc; exact hr h.symm)
        rw [this]; exact h
      | ok o =>
        rw [hexp] at h
        have hm := expandMacro_mono lx _ _ hext st tok rest _ hexp (by simp)
        rw [hm]
        cases o with
        | some v =>
          obtain ⟨ts', st'⟩ := v
          simp only at h ⊢
          exact hext st' ts' r h hr
        | none =>
          simp only at h ⊢
          by_cases hh : isHash tok = true
          · simp only [hh, Bool.not_true, Bool.false_eq_true, if_false] at h ⊢
            cases hd : directive st rest with
            | error e => rw [hd] at h; exact h
            | ok v =>
              obtain ⟨st', rest'⟩ := v
              rw [hd] at h
              simp only at h ⊢
              exact hext st' rest' r h hr
          · have hh' : isHash tok = false := by simpa using hh
            simp only [hh', Bool.not_false, if_true] at h ⊢
            cases hrec : preprocess2 lx n st rest with
            | error e =>
              rw [hrec] at h
              simp only [Except.map] at h
              have := hext st rest _ hrec
                (by intro hc; simp only [Except.error.injEq] at hc; subst hc; exact hr h.symm)
              simp only at this
              rw [this]; exact h
            | ok v =>
              rw [hrec] at h
              have := hext st rest _ hrec (by simp)
              simp only at this
              rw [this]; exact h

/-- the same for the two entry points -/
theorem expand_mono (n m : Nat) (hnm : n ≤ m) (defs : List (String × Macro)) (ts : List Tok) (r : Except Err (List Tok))
    (h : expand n defs ts = r) (hr : r ≠ .error .fuel) : expand m defs ts = r := by
  unfold expand at h ⊢
  cases hp : preprocess2 Lex.lexOne n { defs := defs } ts with
  | error e =>
    rw [hp] at h
    have := preprocess2_mono Lex.lexOne n m hnm _ _ _ hp
      (by intro hc; simp only [Except.error.injEq] at hc; subst hc; exact hr h.symm)
    simp only at this
    rw [this]; exact h
  | ok v =>
    rw [hp] at h
    have := preprocess2_mono Lex.lexOne n m hnm _ _ _ hp (by simp)
    simp only at this
    rw [this]; exact h
