/-
C02, floating constants from the spelling to the machine: `convert_pp_number` (Model/FpLiteral over the regenerated
suffix ladder) followed by `ND_NUM` (Model/FpCodegen) leaves the datum that libc's function *of the constant's own type*
returned — nothing rounds a second time.
-/
import ChibiVerif.Model.FpLiteral
import ChibiVerif.Lemmas.FpOpLemmas

namespace ChibiVerif.FpLiteral
open ChibiVerif.Gen.FpLiteral ChibiVerif.Spec.Fpu ChibiVerif.Asm ChibiVerif.Spec.FpC11 ChibiVerif.Fp ChibiVerif.FpCodegen

theorem selectArm_mem (sfx : Nat) (arms : List (List Nat × FTy × Parser)) (t : FTy) (q : Parser)
    (h : selectArm sfx arms = some (t, q)) : ∃ bs, (bs, t, q) ∈ arms ∧ bs.contains sfx = true := by
  induction arms with
  | nil => simp [selectArm] at h
  | cons a rest ih =>
    obtain ⟨bs, t', q'⟩ := a
    simp only [selectArm] at h
    split at h
    · rename_i hc
      simp only [Option.some.injEq, Prod.mk.injEq] at h
      obtain ⟨rfl, rfl⟩ := h
      exact ⟨bs, by simp, hc⟩
    · obtain ⟨bs', hm, hc⟩ := ih h
      exact ⟨bs', by simp [hm], hc⟩

/-- every arm of the regenerated ladder keeps the result of the libc function of the arm's own type -/
theorem arms_own_parser : (∀ a ∈ suffixArms, a.2.2 = ownParser a.2.1) ∧ defaultArm.2 = ownParser defaultArm.1 := by decide

/-- the value `convert_pp_number` stores is the own-type datum, widened -/
theorem convert_own (F : FpuSpec) (p : Parsed) (ty : FTy) (fval : BitVec 80)
    (h : convertPpNumberFp F p = .num ty fval) : fval = parserVal F p (ownParser ty) := by
  simp only [convertPpNumberFp] at h
  split at h
  · rename_i t q hsel
    split at h
    · simp only [Outcome.num.injEq] at h
      obtain ⟨rfl, rfl⟩ := h
      obtain ⟨bs, hm, _⟩ := selectArm_mem _ _ _ _ hsel
      have := arms_own_parser.1 _ hm
      simp only at this
      rw [this]
    · simp at h
  · split at h
    · simp only [Outcome.num.injEq] at h
      obtain ⟨rfl, rfl⟩ := h
      rw [arms_own_parser.2]
    · simp at h

/-- spelling → type and value → immediates → machine: the datum of the constant's own type, as libc returned it -/
theorem literal_datum (F : FpuSpec) (hostCw : BitVec 16) (p : Parsed) (ty : FTy) (fval : BitVec 80) (s : FState)
    (hconv : convertPpNumberFp F p = .num ty fval)
    (hnn : (F.val32 p.f32).isNaN = false ∧ (F.val64 p.f64).isNaN = false) :
    ∃ s', Fp.run F (instrsOf (numLines F hostCw ty fval)) s = some s' ∧ Holds (atyOf ty) s' (datumOf p ty) ∧
      s'.cw = s.cw ∧ stBelow (atyOf ty) s' = s.st ∧ s'.x.get .rsp = s.x.get .rsp := by
  have hv := convert_own F p ty fval hconv
  subst hv
  cases ty with
  | ty_float =>
    simp only [numLines, ownParser, parserVal, F.fst32_fld32 hostCw p.f32 hnn.1]
    obtain ⟨s', h1, h2, h3, h4, h5⟩ := num_f32 F p.f32 s
    exact ⟨s', h1, h2, h4, by simp [stBelow, atyOf, h3], h5⟩
  | ty_double =>
    simp only [numLines, ownParser, parserVal, F.fst64_fld64 hostCw p.f64 hnn.2]
    obtain ⟨s', h1, h2, h3, h4, h5⟩ := num_f64 F p.f64 s
    exact ⟨s', h1, h2, h4, by simp [stBelow, atyOf, h3], h5⟩
  | ty_ldouble =>
    simp only [numLines, ownParser, parserVal]
    obtain ⟨s', h1, h2, h3, h4⟩ := num_f80 F p.f80 s
    exact ⟨s', h1, ⟨s.st, h2⟩, h3, by simp [stBelow, atyOf, h2], h4⟩

end ChibiVerif.FpLiteral
