/-
C20: from the label-height judgment (`SemP FlowP`, `SemF`) to the statements of Props/C20.lean:
`Effect.Balanced` / `Effect.BalancedOrLeaves` (the relative scan `scanRel`) and `FnBalanced`
(`verifyL`: `Effect.verify` without the range check), for code whose labels are pairwise distinct.
-/
import ChibiVerif.Lemmas.C20FlowInduction
import ChibiVerif.Lemmas.C20Fresh

namespace ChibiVerif.Lemmas.C20
open ChibiVerif ChibiVerif.Codegen ChibiVerif.Effect ChibiVerif.Asm ChibiVerif.Ast ChibiVerif.C20Scope

theorem lookup_of_mem_nodup : ∀ (hf : Labelling), (hf.map Prod.fst).Nodup → ∀ l v, (l, v) ∈ hf → hf.lookup l = some v
  | [], _, _, _, hm => by cases hm
  | (k, w) :: rest, hn, l, v, hm => by
    simp only [List.map_cons, List.nodup_cons] at hn
    simp only [List.mem_cons, Prod.mk.injEq] at hm
    rcases hm with ⟨rfl, rfl⟩ | hm
    · simp [List.lookup]
    · have hne : l ≠ k := by
        intro e
        subst e
        exact hn.1 (List.mem_map.mpr ⟨(l, v), hm, rfl⟩)
      have : (l == k) = false := by simpa using hne
      simp only [List.lookup, this]
      exact lookup_of_mem_nodup rest hn.2 l v hm

theorem Ext_self {hf : Labelling} (hn : (hf.map Prod.fst).Nodup) : Ext hf hf :=
  fun l v hm => lookup_of_mem_nodup hf hn l v hm

theorem lookup_none_of_not_mem : ∀ (hf : Labelling) (l : String), l ∉ hf.map Prod.fst → hf.lookup l = none
  | [], _, _ => rfl
  | (k, w) :: rest, l, hn => by
    simp only [List.map_cons, List.mem_cons, not_or] at hn
    have : (l == k) = false := by simpa using hn.1
    simp only [List.lookup, this]
    exact lookup_none_of_not_mem rest l hn.2

theorem H_zero_add (d : H) : H.zero + d = d := by harith

theorem nodup_of_labelsDistinct {ret : String} {ls : List Line} (h : labelsDistinct ret ls = true) :
    (labelNames (steps ls)).Nodup := by
  simp only [labelsDistinct, Bool.and_eq_true, decide_eq_true_eq, List.nodup_cons] at h
  exact h.1.2

/-- closed generated code whose parser labels are pairwise distinct is balanced in the sense of `scanRel` -/
theorem balancedOrLeaves_of_FlowP {lo hi : Nat} {ls : List Line} {r x : Int} (h : FlowP lo hi ls r x)
    (hu : userDistinct ls = true) : BalancedOrLeaves ls ⟨r, x⟩ := by
  have hn : (labelNames (steps ls)).Nodup :=
    nodup_of_labelsDistinct (labelsDistinct_of_LabsR (ret := ".L.return.") (by decide) h.2 hu)
  obtain ⟨hf, hk, _, hc⟩ := h.1 H.zero []
  have hk' : hf.map Prod.fst = labelNames (steps ls) := hk
  obtain ⟨e, he, hd⟩ := hc hf (Ext_self (hk' ▸ hn)) (fun l r hm => (List.not_mem_nil hm).elim) (some H.zero) (Or.inr rfl)
  refine ⟨hf, e, he, ?_⟩
  rw [H_zero_add] at hd
  exact hd

/-! ### falling out of the end -/

theorem scanRel_live (h : Labelling) : ∀ (ss : List Step) (cur e : Option H), scanRel h ss cur = .ok e →
    e.isSome = liveEnd ss cur.isSome
  | [], cur, e, hs => by
    simp only [scanRel, Except.ok.injEq] at hs
    subst hs
    rfl
  | .delta d :: r, cur, e, hs => by
    simp only [scanRel] at hs
    have := scanRel_live h r _ e hs
    simpa [liveEnd] using this
  | .cond l :: r, cur, e, hs => by
    cases cur with
    | none =>
      simp only [scanRel] at hs
      simpa [liveEnd] using scanRel_live h r _ e hs
    | some c =>
      simp only [scanRel] at hs
      split at hs
      · simpa [liveEnd] using scanRel_live h r _ e hs
      · cases hs
  | .jump l :: r, cur, e, hs => by
    cases cur with
    | none =>
      simp only [scanRel] at hs
      simpa [liveEnd] using scanRel_live h r _ e hs
    | some c =>
      simp only [scanRel] at hs
      split at hs
      · simpa [liveEnd] using scanRel_live h r _ e hs
      · cases hs
  | .leave :: r, cur, e, hs => by
    simp only [scanRel] at hs
    simpa [liveEnd] using scanRel_live h r _ e hs
  | .label l :: r, cur, e, hs => by
    simp only [scanRel] at hs
    split at hs
    · cases hs
    · split at hs
      · simpa [liveEnd] using scanRel_live h r _ e hs
      · cases hs
  | .bad w :: r, cur, e, hs => by
    simp only [scanRel] at hs
    cases hs

/-- balanced-or-leaves code that falls out of its end is balanced -/
theorem balanced_of_fallsThrough {ls : List Line} {d : H} (h : BalancedOrLeaves ls d)
    (hf : fallsThrough ls = true) : Balanced ls d := by
  obtain ⟨lab, e, he, hd⟩ := h
  have hl := scanRel_live lab (steps ls) (some H.zero) e he
  have hf' : liveEnd (steps ls) true = true := hf
  simp only [Option.isSome_some, hf'] at hl
  rcases hd with rfl | rfl
  · simp at hl
  · exact ⟨lab, he⟩

/-! ### `verifyL` accepts what `scanRel` accepts -/

theorem verifyL_of_scanRel (h : Labelling)
    (hret : ∀ l v, isReturnLabel l = true → h.lookup l = some v → v.rsp = 0) :
    ∀ (ss : List Step) (cur : Option H) (e : Option H), scanRel h ss cur = .ok e →
      (∀ l, l ∈ labelNames ss → isReturnLabel l = false) → verifyL h ss cur = .ok ()
  | [], _, _, _, _ => rfl
  | .delta d :: r, cur, e, hs, hl => by
    simp only [scanRel] at hs
    simp only [verifyL]
    exact verifyL_of_scanRel h hret r _ e hs (fun l hm => hl l (by simpa [labelNames] using hm))
  | .cond l :: r, cur, e, hs, hl => by
    have hl' : ∀ l, l ∈ labelNames r → isReturnLabel l = false := fun l hm => hl l (by simpa [labelNames] using hm)
    cases cur with
    | none =>
      simp only [scanRel] at hs
      simp only [verifyL]
      exact verifyL_of_scanRel h hret r _ e hs hl'
    | some c =>
      simp only [scanRel] at hs
      split at hs
      · rename_i hlk
        have hlk' : h.lookup l = some c := by simpa using hlk
        have ih := verifyL_of_scanRel h hret r _ e hs hl'
        simp only [verifyL]
        by_cases hr : isReturnLabel l = true
        · have := hret l c hr hlk'
          simp [hr, this, ih]
        · simp [hr, hlk', ih]
      · cases hs
  | .jump l :: r, cur, e, hs, hl => by
    have hl' : ∀ l, l ∈ labelNames r → isReturnLabel l = false := fun l hm => hl l (by simpa [labelNames] using hm)
    cases cur with
    | none =>
      simp only [scanRel] at hs
      simp only [verifyL]
      exact verifyL_of_scanRel h hret r _ e hs hl'
    | some c =>
      simp only [scanRel] at hs
      split at hs
      · rename_i hlk
        have hlk' : h.lookup l = some c := by simpa using hlk
        have ih := verifyL_of_scanRel h hret r _ e hs hl'
        simp only [verifyL]
        by_cases hr : isReturnLabel l = true
        · have := hret l c hr hlk'
          simp [hr, this, ih]
        · simp [hr, hlk', ih]
      · cases hs
  | .leave :: r, cur, e, hs, hl => by
    simp only [scanRel] at hs
    simp only [verifyL]
    exact verifyL_of_scanRel h hret r _ e hs (fun l hm => hl l (by simpa [labelNames] using hm))
  | .label l :: r, cur, e, hs, hl => by
    have hl' : ∀ l, l ∈ labelNames r → isReturnLabel l = false := fun l' hm => hl l' (by simp [labelNames, hm])
    have hnr : isReturnLabel l = false := hl l (by simp [labelNames])
    simp only [scanRel] at hs
    split at hs
    · cases hs
    · rename_i hv hlk
      split at hs
      · rename_i hcur
        have ih := verifyL_of_scanRel h hret r _ e hs hl'
        simp only [verifyL, hnr, Bool.false_eq_true, if_false, hlk]
        cases cur with
        | none => simpa using ih
        | some c =>
          have : c = hv := by simpa using hcur
          subst this
          simpa using ih
      · cases hs
  | .bad w :: r, cur, e, hs, _ => by
    simp only [scanRel] at hs
    cases hs

theorem retLabel_isReturn (env : Env) : isReturnLabel (retLabel env) = true := by
  unfold isReturnLabel retLabel
  show List.isPrefixOf _ (toString ".L.return." ++ toString (cstr env.fnName)).toList = true
  rw [String.toList_append]
  exact List.isPrefixOf_iff_prefix.mpr (List.prefix_append _ _)

/-- the code of a function body in scope, with pairwise distinct labels, passes `verifyL` -/
theorem fnBalanced_of_SemF {env : Env} {R : List String} {xr : Int} {ls : List Line} {G : List (String × H)}
    (h : FlowR ((retLabel env, ⟨0, xr⟩) :: at0 R) ⟨0, 0⟩ (ls.flatMap classify) G ⟨0, 0⟩)
    (hg : ∀ l, l ∈ R → (l, (⟨0, 0⟩ : H)) ∈ G) {lo hi : Nat}
    (hl : LabsR (ls.flatMap classify) [] lo hi) (hu : userDistinct ls = true) :
    FnBalanced ls ∧ BalancedOrLeaves ls ⟨0, 0⟩ := by
  have hd : labelsDistinct (retLabel env) ls = true :=
    labelsDistinct_of_LabsR (retLabel_isReturn env) hl hu
  simp only [labelsDistinct, Bool.and_eq_true, decide_eq_true_eq, List.all_eq_true, Bool.not_eq_true',
    List.nodup_cons] at hd
  obtain ⟨⟨hnotin, hnd⟩, hnr⟩ := hd
  obtain ⟨hf, hk, hgg, hc⟩ := h H.zero []
  have hk' : hf.map Prod.fst = labelNames (steps ls) := hk
  let hh : Labelling := (retLabel env, ⟨0, xr⟩) :: hf
  have hx : Ext hh hf := by
    intro l v hm
    have hne : l ≠ retLabel env := by
      intro e
      subst e
      exact hnotin (hk' ▸ List.mem_map.mpr ⟨(_, v), hm, rfl⟩)
    have : (l == retLabel env) = false := by simpa using hne
    simp only [hh, List.lookup, this]
    exact lookup_of_mem_nodup hf (hk' ▸ hnd) l v hm
  have ha : ∀ l r, (l, r) ∈ (retLabel env, (⟨0, xr⟩ : H)) :: at0 R → hh.lookup l = some (H.zero + ⟨0, 0⟩ + r) := by
    intro l r hm
    have e0 : H.zero + ⟨0, 0⟩ + r = r := by harith
    rw [e0]
    simp only [List.mem_cons, Prod.mk.injEq] at hm
    rcases hm with ⟨rfl, rfl⟩ | hm
    · simp [hh, List.lookup]
    · obtain ⟨h1, rfl⟩ := mem_at0.mp hm
      have := hgg l _ (hg l h1)
      have e1 : H.zero + ⟨0, 0⟩ + ⟨0, 0⟩ = (⟨0, 0⟩ : H) := by decide
      rw [e1] at this
      exact hx l _ this
  obtain ⟨e, he, hde⟩ := hc hh hx ha (some H.zero) (Or.inr rfl)
  have he' : scanRel hh (steps ls) (some H.zero) = .ok e := he
  refine ⟨⟨hh, ?_⟩, ⟨hh, e, he', ?_⟩⟩
  · refine verifyL_of_scanRel hh ?_ (steps ls) _ e he' (fun l hm => hnr l hm)
    intro l v hr hlk
    by_cases hl : l = retLabel env
    · subst hl
      simp only [hh, List.lookup, beq_self_eq_true, Option.some.injEq] at hlk
      rw [← hlk]
    · have : (l == retLabel env) = false := by simpa using hl
      simp only [hh, List.lookup, this] at hlk
      have hmem : l ∈ hf.map Prod.fst := by
        by_cases hn : l ∈ hf.map Prod.fst
        · exact hn
        · rw [lookup_none_of_not_mem hf l hn] at hlk
          cases hlk
      have := hnr l (hk' ▸ hmem)
      rw [this] at hr
      cases hr
  · rw [H_zero_add] at hde
    exact hde


/-! ### `verify` (with the range check) implies `verifyL` -/

theorem verifyL_of_verify (h : Labelling) : ∀ (ss : List Step) (cur : Option H),
    verify h ss cur = .ok () → verifyL h ss cur = .ok ()
  | [], _, _ => rfl
  | .delta d :: r, cur, hv => by
    cases cur with
    | none =>
      simp only [verify] at hv
      simp only [verifyL, Option.map_none]
      exact verifyL_of_verify h r none hv
    | some c =>
      simp only [verify] at hv
      split at hv
      · simp only [verifyL, Option.map_some]
        exact verifyL_of_verify h r _ hv
      · cases hv
  | .cond l :: r, cur, hv => by
    cases cur with
    | none =>
      simp only [verify] at hv
      simp only [verifyL]
      exact verifyL_of_verify h r none hv
    | some c =>
      simp only [verify] at hv
      simp only [verifyL]
      split at hv
      · rename_i hr
        split at hv
        · rename_i h0
          simp only [hr, if_true, h0]
          exact verifyL_of_verify h r _ hv
        · cases hv
      · rename_i hr
        simp only [hr, Bool.false_eq_true, if_false]
        split at hv
        · rename_i hl hlk
          split at hv
          · rename_i heq
            simp only [hlk, heq, if_true]
            exact verifyL_of_verify h r _ hv
          · cases hv
        · cases hv
  | .jump l :: r, cur, hv => by
    cases cur with
    | none =>
      simp only [verify] at hv
      simp only [verifyL]
      exact verifyL_of_verify h r none hv
    | some c =>
      simp only [verify] at hv
      simp only [verifyL]
      split at hv
      · rename_i hr
        split at hv
        · rename_i h0
          simp only [hr, if_true, h0]
          exact verifyL_of_verify h r _ hv
        · cases hv
      · rename_i hr
        simp only [hr, Bool.false_eq_true, if_false]
        split at hv
        · rename_i hl hlk
          split at hv
          · rename_i heq
            simp only [hlk, heq, if_true]
            exact verifyL_of_verify h r _ hv
          · cases hv
        · cases hv
  | .leave :: r, cur, hv => by
    simp only [verify] at hv
    simp only [verifyL]
    exact verifyL_of_verify h r none hv
  | .label l :: r, cur, hv => by
    simp only [verify] at hv
    simp only [verifyL]
    split at hv
    · rename_i hr
      simp only [hr, if_true]
      exact verifyL_of_verify h r none hv
    · rename_i hr
      simp only [hr, Bool.false_eq_true, if_false]
      split at hv
      · rename_i hl c hlk
        split at hv
        · rename_i heq
          simp only [hlk, heq, if_true]
          exact verifyL_of_verify h r _ hv
        · cases hv
      · rename_i hl hlk
        simp only [hlk]
        exact verifyL_of_verify h r _ hv
      · cases hv
      · rename_i hlk
        simp only [hlk]
        exact verifyL_of_verify h r none hv
  | .bad w :: r, cur, hv => by
    simp only [verify] at hv
    cases hv

end ChibiVerif.Lemmas.C20
