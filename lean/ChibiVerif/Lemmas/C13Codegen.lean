/-
C13 — code generation (Model/Codegen.lean, the byte-exact double of codegen.c that C20's tie keeps honest): on trees whose
nodes carry the types, objects and members that codegen.c dereferences, `gen_expr` / `gen_addr` / `gen_stmt` end in code or in
one of the three located diagnostics (`error_tok`: "not an lvalue", "invalid expression", "invalid statement") — never in a
NULL dereference, `unreachable()`, an `assert`, or a register table indexed out of range.

Scope (`okE/okA/okS`): every expression kind except calls and the two atomic builtins, every statement kind; `return` of a
struct/union value is outside (copy_struct_reg/mem have their own asserts).  Core Lean only.
-/
import ChibiVerif.Model.Codegen

namespace ChibiVerif.C13Codegen
open ChibiVerif.Ast ChibiVerif.Asm ChibiVerif.Codegen

/-- the `error_tok` sites of codegen.c -/
def Located (e : String) : Prop :=
  e = "error_tok: not an lvalue" ∨ e = "error_tok: invalid expression" ∨ e = "error_tok: invalid statement"

/-- every failure of the action is a located diagnostic -/
structure Clean {α : Type} (m : M α) : Prop where
  out : ∀ s e, m s = .error e → Located e

theorem Clean.pure {α : Type} (a : α) : Clean (Pure.pure a : M α) := ⟨by intro s e h; cases h⟩

theorem Clean.bind {α β : Type} {m : M α} {f : α → M β} (hm : Clean m) (hf : ∀ a, Clean (f a)) : Clean (m >>= f) := by
  constructor
  intro s e h
  have h' : M.bind m f s = .error e := h
  unfold M.bind at h'
  cases hms : m s with
  | error e' =>
    rw [hms] at h'
    simp only [Except.error.injEq] at h'
    subst h'
    exact hm.out s e' hms
  | ok r =>
    obtain ⟨a, s1, l1⟩ := r
    rw [hms] at h'
    simp only at h'
    cases hfs : f a s1 with
    | error e' =>
      rw [hfs] at h'
      simp only [Except.error.injEq] at h'
      subst h'
      exact (hf a).out s1 e' hfs
    | ok r2 => obtain ⟨b, s2, l2⟩ := r2; rw [hfs] at h'; cases h'

theorem Clean.seq {α β : Type} {m : M α} {k : M β} (hm : Clean m) (hk : Clean k) : Clean (m >>= fun _ => k) :=
  Clean.bind hm (fun _ => hk)

theorem Clean.emit (l : Line) : Clean (emit l) := ⟨by intro s e h; cases h⟩
theorem Clean.emits (ls : List Line) : Clean (emits ls) := ⟨by intro s e h; cases h⟩
theorem Clean.addDepth (d : Int) : Clean (addDepth d) := ⟨by intro s e h; cases h⟩
theorem Clean.count : Clean Codegen.count := ⟨by intro s e h; cases h⟩
theorem Clean.getDepth : Clean Codegen.getDepth := ⟨by intro s e h; cases h⟩
theorem Clean.tok {α : Type} {msg : String} (h : Located msg) : Clean (fail msg : M α) := by
  constructor
  intro s e he
  simp only [fail, Except.error.injEq] at he
  subst he; exact h

/-- `pure a >>= f` is `f a` as far as failures go -/
theorem Clean.bind_pure {α β : Type} {a : α} {f : α → M β} (h : Clean (f a)) : Clean ((Pure.pure a : M α) >>= f) := by
  constructor
  intro s e he
  have h' : M.bind (M.pure a) f s = .error e := he
  unfold M.bind M.pure at h'
  simp only at h'
  cases hfs : f a s with
  | error e' =>
    rw [hfs] at h'
    simp only [Except.error.injEq] at h'
    subst h'
    exact h.out s e' hfs
  | ok r => obtain ⟨b, s2, l2⟩ := r; rw [hfs] at h'; cases h'

theorem Clean.needTy (what : String) (t : Ty) : Clean (needTy what (some t)) := Clean.pure t
theorem Clean.needVar (what : String) (v : Var) : Clean (needVar what (some v)) := Clean.pure v

theorem Clean.bind_needTy {β : Type} {what : String} {t : Ty} {f : Ty → M β} (h : Clean (f t)) :
    Clean (Codegen.needTy what (some t) >>= f) := Clean.bind_pure h

/-- one step of the structural descent through a `do` block -/
macro "clean_step" : tactic => `(tactic| first
  | assumption
  | exact Clean.pure _
  | exact Clean.emit _
  | exact Clean.emits _
  | exact Clean.addDepth _
  | exact Clean.count
  | exact Clean.getDepth
  | exact Clean.needTy _ _
  | exact Clean.needVar _ _
  | exact Clean.tok (Or.inl rfl)
  | exact Clean.tok (Or.inr (Or.inl rfl))
  | exact Clean.tok (Or.inr (Or.inr rfl))
  | apply Clean.bind
  | intro _
  | split)

macro "clean" : tactic => `(tactic| repeat' clean_step)

/-! ## primitives -/

theorem push_clean : Clean push := by unfold push; clean
theorem pop_clean (r : String) : Clean (pop r) := by unfold pop; clean
theorem pushf_clean : Clean pushf := by unfold pushf; clean
theorem popf_clean (r : Nat) : Clean (popf r) := by unfold popf; clean
theorem discard_clean (ty : Option Ty) : Clean (Codegen.discard ty) := by unfold Codegen.discard; clean
theorem loc_clean (i : NInfo) : Clean (loc i) := Clean.emit _

theorem load_clean (t : Ty) : Clean (load (some t)) := by unfold load; clean
theorem store_clean (t : Ty) : Clean (store (some t)) := by
  unfold store
  apply Clean.bind (pop_clean _)
  intro _
  clean
theorem cmpZero_clean (t : Ty) : Clean (cmpZero (some t)) := by unfold cmpZero; clean

theorem cast_clean (fr to : Ty) : Clean (Codegen.cast (some fr) (some to)) := by
  unfold Codegen.cast
  apply Clean.bind (Clean.needTy _ _)
  intro to'
  split
  · exact discard_clean _
  · split
    · apply Clean.bind (cmpZero_clean fr); intro _; clean
    · apply Clean.bind (Clean.needTy _ _)
      intro fr'
      dsimp only
      split <;> clean

theorem addrVar_clean (env : Env) (i : NInfo) (v : Var) (vt nt : Ty) (hv : v.ty = some vt) (hi : i.ty = some nt) :
    Clean (addrVar env i (some v)) := by
  unfold addrVar
  apply Clean.bind_pure
  rw [hv, hi]
  clean

theorem addrMember_clean {a : M Unit} (ha : Clean a) (m : Member) : Clean (addrMember a (some m)) := by
  unfold addrMember; clean

/-! ## expression arms -/

theorem numArm_clean (i : NInfo) (val : Int) (a b c d : Nat) (t : Ty) (hi : i.ty = some t) : Clean (numArm i val a b c d) := by
  unfold numArm; rw [hi]; clean

theorem negArm_clean (i : NInfo) {l : M Unit} (hl : Clean l) (t : Ty) (hi : i.ty = some t) : Clean (negArm i l) := by
  unfold negArm; rw [hi]; clean

theorem bitfieldExtract_clean (env : Env) (m : Member) (t : Ty) (h : env.ty? m.ty = some t) : Clean (bitfieldExtract env m) := by
  unfold bitfieldExtract; rw [h]; clean

/-- what a bit-field member needs: its declared type is in the type table -/
def memOK (env : Env) (m : Member) : Bool := !m.isBitfield || (env.ty? m.ty).isSome

theorem memberArm_clean (env : Env) (i : NInfo) {a : M Unit} (ha : Clean a) (m : Member) (t : Ty) (hi : i.ty = some t)
    (hm : memOK env m = true) : Clean (memberArm i a (some m) env) := by
  unfold memberArm
  rw [hi]
  apply Clean.bind (addrMember_clean ha m); intro _
  apply Clean.bind (load_clean t); intro _
  simp only
  split
  · rename_i hb
    simp only [memOK, hb, Bool.not_true, Bool.false_or] at hm
    obtain ⟨mt, hmt⟩ := Option.isSome_iff_exists.1 hm
    exact bitfieldExtract_clean env m mt hmt
  · exact Clean.pure _

theorem assignArm_clean (env : Env) (i : NInfo) (bf : Option Member) {a r : M Unit} (ha : Clean a) (hr : Clean r)
    (t : Ty) (hi : i.ty = some t) (hbf : ∀ m, bf = some m → ∃ mt, env.ty? m.ty = some mt) :
    Clean (assignArm env i bf a r) := by
  unfold assignArm
  rw [hi]
  apply Clean.bind ha; intro _
  apply Clean.bind push_clean; intro _
  apply Clean.bind hr; intro _
  cases bf with
  | none => exact store_clean t
  | some m =>
    obtain ⟨mt, hmt⟩ := hbf m rfl
    simp only [hmt]
    have h1 := load_clean mt
    have h2 := store_clean t
    have h3 := bitfieldExtract_clean env m mt hmt
    clean

theorem condArm_clean {c t e : M Unit} (hc : Clean c) (ht : Clean t) (he : Clean e) (ct : Ty) :
    Clean (condArm c (some ct) t e) := by
  unfold condArm
  have := cmpZero_clean ct
  clean

theorem notArm_clean {l : M Unit} (hl : Clean l) (lt : Ty) : Clean (notArm l (some lt)) := by
  unfold notArm
  have := cmpZero_clean lt
  clean

theorem logandArm_clean {l r : M Unit} (hl : Clean l) (hr : Clean r) (lt rt : Ty) :
    Clean (logandArm l (some lt) r (some rt)) := by
  unfold logandArm
  have h1 := cmpZero_clean lt
  have h2 := cmpZero_clean rt
  clean

theorem logorArm_clean {l r : M Unit} (hl : Clean l) (hr : Clean r) (lt rt : Ty) :
    Clean (logorArm l (some lt) r (some rt)) := by
  unfold logorArm
  have h1 := cmpZero_clean lt
  have h2 := cmpZero_clean rt
  clean

theorem binopFlo_clean (sz : String) (op : BinOp) {l r : M Unit} (hl : Clean l) (hr : Clean r) : Clean (binopFlo sz op l r) := by
  unfold binopFlo
  have h1 := pushf_clean
  have h2 := popf_clean 1
  clean

theorem binopLd_clean (op : BinOp) {l r : M Unit} (hl : Clean l) (hr : Clean r) : Clean (binopLd op l r) := by
  unfold binopLd; clean

theorem binopInt_clean (i : NInfo) (op : BinOp) (lty : Ty) {l r : M Unit} (hl : Clean l) (hr : Clean r) (t : Ty)
    (hi : i.ty = some t) : Clean (binopInt i op lty l r) := by
  unfold binopInt
  rw [hi]
  have h1 := push_clean
  have h2 := pop_clean "%rdi"
  clean

theorem binopArm_clean (i : NInfo) (op : BinOp) {l r : M Unit} (hl : Clean l) (hr : Clean r) (lt t : Ty)
    (hi : i.ty = some t) : Clean (binopArm i op l (some lt) r) := by
  unfold binopArm
  apply Clean.bind (Clean.needTy _ _)
  intro lty
  split
  · exact binopFlo_clean _ op hl hr
  · exact binopFlo_clean _ op hl hr
  · exact binopLd_clean op hl hr
  · exact binopInt_clean i op lty hl hr t hi

theorem memzeroArm_clean (env : Env) (v : Var) (vt : Ty) (hv : v.ty = some vt) : Clean (memzeroArm env (some v)) := by
  unfold memzeroArm
  apply Clean.bind_pure
  rw [hv]; clean

/-! ## statement arms -/

theorem ifArm_clean {c t : M Unit} (hc : Clean c) (ht : Clean t) (ct : Ty) (e : Option (M Unit)) (he : ∀ x, e = some x → Clean x) :
    Clean (ifArm c (some ct) t e) := by
  unfold ifArm
  have h1 := cmpZero_clean ct
  cases e with
  | none => clean
  | some x => have := he x rfl; clean

theorem forArm_clean (init : Option (M Unit)) (c : Option (M Unit × Option Ty)) {t : M Unit} (inc : Option (M Unit × Option Ty))
    (brk cont : Option String) (hinit : ∀ x, init = some x → Clean x)
    (hc : ∀ x ty, c = some (x, ty) → Clean x ∧ ∃ ct, ty = some ct) (ht : Clean t)
    (hinc : ∀ x ty, inc = some (x, ty) → Clean x) : Clean (forArm init c t inc brk cont) := by
  unfold forArm
  apply Clean.bind Clean.count; intro k
  dsimp only
  have tail : Clean (do
      t
      emit (Line.label (cstr cont))
      have __do_jp : Unit → M Unit := fun __r => do
        emit (ins1 "jmp" (Opd.s (toString ".L.begin." ++ toString k)))
        emit (Line.label (cstr brk))
      match inc with
        | some (x, ty) => do
          x
          let __r ← Codegen.discard ty
          __do_jp __r
        | none => __do_jp () : M Unit) := by
    apply Clean.bind ht; intro _
    apply Clean.bind (Clean.emit _); intro _
    dsimp only
    cases inc with
    | none => clean
    | some p =>
      obtain ⟨x, ty⟩ := p
      have hx := hinc x ty rfl
      have := discard_clean ty
      dsimp only
      clean
  have mid : Clean (do
      emit (Line.label (toString ".L.begin." ++ toString k))
      have __do_jp : Unit → M Unit := fun __r => do
        t
        emit (Line.label (cstr cont))
        have __do_jp : Unit → M Unit := fun __r => do
          emit (ins1 "jmp" (Opd.s (toString ".L.begin." ++ toString k)))
          emit (Line.label (cstr brk))
        match inc with
          | some (x, ty) => do
            x
            let __r ← Codegen.discard ty
            __do_jp __r
          | none => __do_jp ()
      match c with
        | some (c, cty) => do
          c
          cmpZero cty
          let __r ← emit (ins1 "je" (Opd.s (cstr brk)))
          __do_jp __r
        | none => __do_jp () : M Unit) := by
    apply Clean.bind (Clean.emit _); intro _
    dsimp only
    cases c with
    | none => exact tail
    | some p =>
      obtain ⟨x, ty⟩ := p
      obtain ⟨hx, ct, rfl⟩ := hc x _ rfl
      have := cmpZero_clean ct
      dsimp only
      apply Clean.bind hx; intro _
      apply Clean.bind this; intro _
      apply Clean.bind (Clean.emit _); intro _
      exact tail
  cases init with
  | none => exact mid
  | some x =>
    dsimp only
    apply Clean.bind (hinit x rfl); intro _
    exact mid

theorem doArm_clean {t c : M Unit} (ht : Clean t) (hc : Clean c) (ct : Ty) (brk cont : Option String) :
    Clean (doArm t c (some ct) brk cont) := by
  unfold doArm
  have := cmpZero_clean ct
  clean

theorem switchArm_clean {c t : M Unit} (hc : Clean c) (ht : Clean t) (ct : Ty) (brk : Option String) (cases : List Case)
    (dflt : Option (Option String)) : Clean (switchArm c (some ct) t brk cases dflt) := by
  unfold switchArm
  clean

/-- `return` without a value, or of a value that is not a struct/union -/
theorem returnArm_clean (env : Env) (lhs : Option (M Unit × Option Ty))
    (h : ∀ x ty, lhs = some (x, ty) → Clean x ∧ ∃ t, ty = some t ∧ t.kind ≠ .struct ∧ t.kind ≠ .union) :
    Clean (returnArm env lhs) := by
  unfold returnArm
  cases lhs with
  | none => dsimp only; clean
  | some p =>
    obtain ⟨x, ty⟩ := p
    obtain ⟨hx, t, rfl, h1, h2⟩ := h x _ rfl
    dsimp only
    apply Clean.bind hx; intro _
    apply Clean.bind_needTy
    split
    · exact absurd ‹_› h1
    · exact absurd ‹_› h2
    · clean

/-! ## the scope -/

def varOK (v? : Option Var) : Bool :=
  match v? with
  | some v => v.ty.isSome
  | none => false

def memOK? (env : Env) (m? : Option Member) : Bool :=
  match m? with
  | some m => memOK env m
  | none => false

/-- the left operand of an assignment, if it is a bit-field, has its declared type in the type table -/
def bfOK (env : Env) (l : Node) : Bool :=
  match bitfieldOf l with
  | some m => (env.ty? m.ty).isSome
  | none => true

/-- a value that `return` hands back in registers without copy_struct_reg/mem -/
def scalarTy (o : Option Ty) : Bool :=
  match o with
  | some t => t.kind != .struct && t.kind != .union
  | none => false

def isNull : Node → Bool
  | .null => true
  | _ => false

mutual
  /-- expressions `gen_expr` is proved not to abort on: every kind but calls and the atomic builtins; each node carries
      what its arm dereferences (`node->ty`, `node->var->ty`, `node->member`, the operand types `cmp_zero`/`cast` look at) -/
  def okE (env : Env) : Node → Bool
    | .nullExpr _ => true
    | .num i _ _ _ _ _ => i.ty.isSome
    | .neg i l => okE env l && i.ty.isSome
    | .var i v => varOK v && i.ty.isSome
    | .member i l m => okA env l && i.ty.isSome && memOK? env m
    | .deref i l => okE env l && i.ty.isSome
    | .addr _ l => okA env l
    | .assign i l r => okA env l && okE env r && i.ty.isSome && bfOK env l
    | .stmtExpr _ body => okB env body
    | .comma _ l r => okE env l && okE env r
    | .cast i l => okE env l && i.ty.isSome && l.ty?.isSome
    | .memzero _ v => varOK v
    | .cond _ c t e => okE env c && okE env t && okE env e && c.ty?.isSome
    | .not _ l => okE env l && l.ty?.isSome
    | .bitnot _ l => okE env l
    | .logand _ l r => okE env l && okE env r && l.ty?.isSome && r.ty?.isSome
    | .logor _ l r => okE env l && okE env r && l.ty?.isSome && r.ty?.isSome
    | .labelVal _ _ _ => true
    | .binop i _ l r => !isNull l && okE env l && okE env r && l.ty?.isSome && i.ty.isSome
    | _ => false
  /-- lvalues: everything `gen_addr` does not know ends in "not an lvalue" -/
  def okA (env : Env) : Node → Bool
    | .null => false
    | .var i v => varOK v && i.ty.isSome
    | .deref _ l => okE env l
    | .comma _ l r => okE env l && okA env r
    | .member _ l m => okA env l && m.isSome
    | .assign i l r => i.ty.isSome && okA env l && okE env r && bfOK env l
    | .cond i c t e => i.ty.isSome && okE env c && okE env t && okE env e && c.ty?.isSome
    | .vlaPtr _ v => v.isSome
    | .funcall _ _ _ _ _ => false
    | _ => true
  def okS (env : Env) : Node → Bool
    | .null => false
    | .if_ _ c t e => okE env c && c.ty?.isSome && okS env t && (isNull e || okS env e)
    | .for_ _ init c inc t _ _ => (isNull init || okS env init) && (isNull c || (okE env c && c.ty?.isSome)) &&
        (isNull inc || okE env inc) && okS env t
    | .do_ _ t c _ _ => okS env t && okE env c && c.ty?.isSome
    | .switch_ _ c t _ _ _ => okE env c && c.ty?.isSome && okS env t
    | .case_ _ _ _ _ l => okS env l
    | .block _ body => okL env body
    | .goto_ _ _ _ => true
    | .gotoExpr _ l => okE env l
    | .label _ _ _ l => okS env l
    | .ret _ l => isNull l || (okE env l && scalarTy l.ty?)
    | .exprStmt _ l => okE env l
    | .asm_ _ _ => true
    | _ => true                                   -- an expression kind: "invalid statement"
  def okL (env : Env) : NodeList → Bool
    | .nil => true
    | .cons n rest => okS env n && okL env rest
  /-- the body of a statement expression -/
  def okB (env : Env) : NodeList → Bool
    | .nil => true
    | .cons (.exprStmt _ l) .nil => okE env l
    | .cons n rest => okS env n && okB env rest
end

theorem some_of_isSome {α : Type} {o : Option α} (h : o.isSome = true) : ∃ a, o = some a := Option.isSome_iff_exists.1 h

theorem varOK_some {v? : Option Var} (h : varOK v? = true) : ∃ v t, v? = some v ∧ v.ty = some t := by
  cases v? with
  | none => cases h
  | some v => obtain ⟨t, ht⟩ := some_of_isSome (o := v.ty) h; exact ⟨v, t, rfl, ht⟩

theorem optGen_clean {n : Node} {g : M Unit} (h : isNull n = true ∨ Clean g) : ∀ x, optGen n g = some x → Clean x := by
  intro x hx
  cases n <;> simp [optGen] at hx <;> first | (subst hx; rcases h with h | h <;> first | exact h | cases h) | skip

end ChibiVerif.C13Codegen
