/-
C13 — the induction over the tree: `gen_expr`, `gen_addr`, `gen_stmt` on trees in scope (Lemmas/C13Codegen.lean) fail only
with one of the three located diagnostics.
-/
import ChibiVerif.Lemmas.C13Codegen

namespace ChibiVerif.C13Codegen
open ChibiVerif.Ast ChibiVerif.Asm ChibiVerif.Codegen

theorem ty?_eq (n : Node) (i : NInfo) (h : n.info? = some i) : n.ty? = i.ty := by
  simp [Node.ty?, h]

macro "na" : tactic => `(tactic| (simp only [genAddr]; exact Clean.tok (Or.inl rfl)))
macro "is" : tactic => `(tactic| (simp only [genStmt]; exact Clean.bind (loc_clean _) (fun _ => Clean.tok (Or.inr (Or.inr rfl)))))

mutual
  theorem exprClean (env : Env) : ∀ (n : Node), okE env n = true → Clean (genExpr env n)
    | .nullExpr i, _ => by simp only [genExpr]; exact loc_clean i
    | .num i val a b c d, h => by
      simp only [okE] at h
      obtain ⟨t, ht⟩ := some_of_isSome h
      simp only [genExpr]
      exact Clean.bind (loc_clean i) (fun _ => numArm_clean i val a b c d t ht)
    | .neg i l, h => by
      simp only [okE, Bool.and_eq_true] at h
      obtain ⟨t, ht⟩ := some_of_isSome h.2
      simp only [genExpr]
      exact Clean.bind (loc_clean i) (fun _ => negArm_clean i (exprClean env l h.1) t ht)
    | .var i v, h => by
      simp only [okE, Bool.and_eq_true] at h
      obtain ⟨v', vt, rfl, hv⟩ := varOK_some h.1
      obtain ⟨t, ht⟩ := some_of_isSome h.2
      simp only [genExpr]
      apply Clean.bind (loc_clean i); intro _
      apply Clean.bind (addrVar_clean env i v' vt t hv ht); intro _
      rw [ht]; exact load_clean t
    | .member i l m, h => by
      simp only [okE, Bool.and_eq_true] at h
      obtain ⟨t, ht⟩ := some_of_isSome h.1.2
      cases m with
      | none => simp [memOK?] at h
      | some m =>
        simp only [genExpr]
        exact Clean.bind (loc_clean i) (fun _ => memberArm_clean env i (addrClean env l h.1.1) m t ht h.2)
    | .deref i l, h => by
      simp only [okE, Bool.and_eq_true] at h
      obtain ⟨t, ht⟩ := some_of_isSome h.2
      simp only [genExpr]
      apply Clean.bind (loc_clean i); intro _
      apply Clean.bind (exprClean env l h.1); intro _
      rw [ht]; exact load_clean t
    | .addr i l, h => by
      simp only [okE] at h
      simp only [genExpr]
      exact Clean.bind (loc_clean i) (fun _ => addrClean env l h)
    | .assign i l r, h => by
      simp only [okE, Bool.and_eq_true] at h
      obtain ⟨t, ht⟩ := some_of_isSome h.1.2
      simp only [genExpr]
      apply Clean.bind (loc_clean i); intro _
      apply assignArm_clean env i (bitfieldOf l) (addrClean env l h.1.1.1) (exprClean env r h.1.1.2) t ht
      intro m hm
      have := h.2
      simp only [bfOK, hm] at this
      exact some_of_isSome this
    | .stmtExpr i body, h => by
      simp only [okE] at h
      simp only [genExpr]
      exact Clean.bind (loc_clean i) (fun _ => bodyClean env body h)
    | .comma i l r, h => by
      simp only [okE, Bool.and_eq_true] at h
      simp only [genExpr]
      apply Clean.bind (loc_clean i); intro _
      apply Clean.bind (exprClean env l h.1); intro _
      apply Clean.bind (discard_clean _); intro _
      exact exprClean env r h.2
    | .cast i l, h => by
      simp only [okE, Bool.and_eq_true] at h
      obtain ⟨t, ht⟩ := some_of_isSome h.1.2
      obtain ⟨lt, hlt⟩ := some_of_isSome h.2
      simp only [genExpr]
      apply Clean.bind (loc_clean i); intro _
      apply Clean.bind (exprClean env l h.1.1); intro _
      rw [ht, hlt]; exact cast_clean lt t
    | .memzero i v, h => by
      simp only [okE] at h
      obtain ⟨v', vt, rfl, hv⟩ := varOK_some h
      simp only [genExpr]
      exact Clean.bind (loc_clean i) (fun _ => memzeroArm_clean env v' vt hv)
    | .cond i c t e, h => by
      simp only [okE, Bool.and_eq_true] at h
      obtain ⟨ct, hct⟩ := some_of_isSome h.2
      simp only [genExpr]
      apply Clean.bind (loc_clean i); intro _
      rw [hct]
      exact condArm_clean (exprClean env c h.1.1.1) (exprClean env t h.1.1.2) (exprClean env e h.1.2) ct
    | .not i l, h => by
      simp only [okE, Bool.and_eq_true] at h
      obtain ⟨lt, hlt⟩ := some_of_isSome h.2
      simp only [genExpr]
      apply Clean.bind (loc_clean i); intro _
      rw [hlt]; exact notArm_clean (exprClean env l h.1) lt
    | .bitnot i l, h => by
      simp only [okE] at h
      simp only [genExpr]
      apply Clean.bind (loc_clean i); intro _
      apply Clean.bind (exprClean env l h); intro _
      exact Clean.emit _
    | .logand i l r, h => by
      simp only [okE, Bool.and_eq_true] at h
      obtain ⟨lt, hlt⟩ := some_of_isSome h.1.2
      obtain ⟨rt, hrt⟩ := some_of_isSome h.2
      simp only [genExpr]
      apply Clean.bind (loc_clean i); intro _
      rw [hlt, hrt]; exact logandArm_clean (exprClean env l h.1.1.1) (exprClean env r h.1.1.2) lt rt
    | .logor i l r, h => by
      simp only [okE, Bool.and_eq_true] at h
      obtain ⟨lt, hlt⟩ := some_of_isSome h.1.2
      obtain ⟨rt, hrt⟩ := some_of_isSome h.2
      simp only [genExpr]
      apply Clean.bind (loc_clean i); intro _
      rw [hlt, hrt]; exact logorArm_clean (exprClean env l h.1.1.1) (exprClean env r h.1.1.2) lt rt
    | .labelVal i a b, _ => by
      simp only [genExpr]
      exact Clean.bind (loc_clean i) (fun _ => Clean.emit _)
    | .binop i op l r, h => by
      simp only [okE, Bool.and_eq_true, Bool.not_eq_true'] at h
      obtain ⟨lt, hlt⟩ := some_of_isSome h.1.2
      obtain ⟨t, ht⟩ := some_of_isSome h.2
      have hl := exprClean env l h.1.1.1.2
      have hr := exprClean env r h.1.1.2
      simp only [genExpr]
      apply Clean.bind (loc_clean i); intro _
      cases l with
      | null => simp [isNull] at h
      | _ => simp only [] <;> (rw [hlt]; exact binopArm_clean i op hl hr lt t ht)
    | .null, h => by simp [okE] at h
    | .funcall .., h => by simp [okE] at h
    | .cas .., h => by simp [okE] at h
    | .exch .., h => by simp [okE] at h
    | .vlaPtr .., h => by simp [okE] at h
    | .ret .., h => by simp [okE] at h
    | .if_ .., h => by simp [okE] at h
    | .for_ .., h => by simp [okE] at h
    | .do_ .., h => by simp [okE] at h
    | .switch_ .., h => by simp [okE] at h
    | .case_ .., h => by simp [okE] at h
    | .block .., h => by simp [okE] at h
    | .goto_ .., h => by simp [okE] at h
    | .gotoExpr .., h => by simp [okE] at h
    | .label .., h => by simp [okE] at h
    | .exprStmt .., h => by simp [okE] at h
    | .asm_ .., h => by simp [okE] at h
  theorem addrClean (env : Env) : ∀ (n : Node), okA env n = true → Clean (genAddr env n)
    | .null, h => by simp [okA] at h
    | .var i v, h => by
      simp only [okA, Bool.and_eq_true] at h
      obtain ⟨v', vt, rfl, hv⟩ := varOK_some h.1
      obtain ⟨t, ht⟩ := some_of_isSome h.2
      simp only [genAddr]
      exact addrVar_clean env i v' vt t hv ht
    | .deref _ l, h => by
      simp only [okA] at h
      simp only [genAddr]
      exact exprClean env l h
    | .comma _ l r, h => by
      simp only [okA, Bool.and_eq_true] at h
      simp only [genAddr]
      apply Clean.bind (exprClean env l h.1); intro _
      apply Clean.bind (discard_clean _); intro _
      exact addrClean env r h.2
    | .member _ l m, h => by
      simp only [okA, Bool.and_eq_true] at h
      obtain ⟨m', rfl⟩ := some_of_isSome h.2
      simp only [genAddr]
      exact addrMember_clean (addrClean env l h.1) m'
    | .assign i l r, h => by
      simp only [okA, Bool.and_eq_true] at h
      obtain ⟨t, ht⟩ := some_of_isSome h.1.1.1
      simp only [genAddr]
      rw [ht]
      apply Clean.bind_needTy
      split
      · apply Clean.bind (loc_clean i); intro _
        apply assignArm_clean env i (bitfieldOf l) (addrClean env l h.1.1.2) (exprClean env r h.1.2) t ht
        intro m hm
        have := h.2
        simp only [bfOK, hm] at this
        exact some_of_isSome this
      · exact Clean.tok (Or.inl rfl)
    | .cond i c t e, h => by
      simp only [okA, Bool.and_eq_true] at h
      obtain ⟨ty, hty⟩ := some_of_isSome h.1.1.1.1
      obtain ⟨ct, hct⟩ := some_of_isSome h.2
      simp only [genAddr]
      rw [hty]
      apply Clean.bind_needTy
      split
      · apply Clean.bind (loc_clean i); intro _
        rw [hct]
        exact condArm_clean (exprClean env c h.1.1.1.2) (exprClean env t h.1.1.2) (exprClean env e h.1.2) ct
      · exact Clean.tok (Or.inl rfl)
    | .vlaPtr _ v, h => by
      simp only [okA] at h
      obtain ⟨v', rfl⟩ := some_of_isSome h
      simp only [genAddr]
      apply Clean.bind_pure
      exact Clean.emit _
    | .funcall .., h => by simp [okA] at h
    | .nullExpr .., _ => by na
    | .binop .., _ => by na
    | .neg .., _ => by na
    | .addr .., _ => by na
    | .not .., _ => by na
    | .bitnot .., _ => by na
    | .logand .., _ => by na
    | .logor .., _ => by na
    | .ret .., _ => by na
    | .if_ .., _ => by na
    | .for_ .., _ => by na
    | .do_ .., _ => by na
    | .switch_ .., _ => by na
    | .case_ .., _ => by na
    | .block .., _ => by na
    | .goto_ .., _ => by na
    | .gotoExpr .., _ => by na
    | .label .., _ => by na
    | .labelVal .., _ => by na
    | .exprStmt .., _ => by na
    | .stmtExpr .., _ => by na
    | .num .., _ => by na
    | .cast .., _ => by na
    | .memzero .., _ => by na
    | .asm_ .., _ => by na
    | .cas .., _ => by na
    | .exch .., _ => by na
  theorem stmtClean (env : Env) : ∀ (n : Node), okS env n = true → Clean (genStmt env n)
    | .null, h => by simp [okS] at h
    | .if_ i c t e, h => by
      simp only [okS, Bool.and_eq_true, Bool.or_eq_true] at h
      obtain ⟨ct, hct⟩ := some_of_isSome h.1.1.2
      simp only [genStmt]
      apply Clean.bind (loc_clean i); intro _
      rw [hct]
      apply ifArm_clean (exprClean env c h.1.1.1) (stmtClean env t h.1.2) ct
      apply optGen_clean
      rcases h.2 with h2 | h2
      · exact Or.inl h2
      · exact Or.inr (stmtClean env e h2)
    | .for_ i init c inc t brk cont, h => by
      simp only [okS, Bool.and_eq_true, Bool.or_eq_true] at h
      obtain ⟨⟨⟨hinit, hc⟩, hinc⟩, ht⟩ := h
      simp only [genStmt]
      apply Clean.bind (loc_clean i); intro _
      apply forArm_clean
      · apply optGen_clean
        rcases hinit with h2 | h2
        · exact Or.inl h2
        · exact Or.inr (stmtClean env init h2)
      · intro x ty hx
        cases hg : optGen c (genExpr env c) with
        | none => rw [hg] at hx; cases hx
        | some g =>
          rw [hg] at hx
          simp only [Option.map_some, Option.some.injEq, Prod.mk.injEq] at hx
          obtain ⟨rfl, rfl⟩ := hx
          rcases hc with h2 | h2
          · cases c <;> simp [isNull] at h2
            simp [optGen] at hg
          · exact ⟨optGen_clean (Or.inr (exprClean env c h2.1)) g hg, some_of_isSome h2.2⟩
      · exact stmtClean env t ht
      · intro x ty hx
        cases hg : optGen inc (genExpr env inc) with
        | none => rw [hg] at hx; cases hx
        | some g =>
          rw [hg] at hx
          simp only [Option.map_some, Option.some.injEq, Prod.mk.injEq] at hx
          obtain ⟨rfl, rfl⟩ := hx
          rcases hinc with h2 | h2
          · cases inc <;> simp [isNull] at h2
            simp [optGen] at hg
          · exact optGen_clean (Or.inr (exprClean env inc h2)) g hg
    | .do_ i t c brk cont, h => by
      simp only [okS, Bool.and_eq_true] at h
      obtain ⟨ct, hct⟩ := some_of_isSome h.2
      simp only [genStmt]
      apply Clean.bind (loc_clean i); intro _
      rw [hct]
      exact doArm_clean (stmtClean env t h.1.1) (exprClean env c h.1.2) ct brk cont
    | .switch_ i c t brk cases dflt, h => by
      simp only [okS, Bool.and_eq_true] at h
      obtain ⟨ct, hct⟩ := some_of_isSome h.1.2
      simp only [genStmt]
      apply Clean.bind (loc_clean i); intro _
      rw [hct]
      exact switchArm_clean (exprClean env c h.1.1) (stmtClean env t h.2) ct brk cases dflt
    | .case_ i a b lbl l, h => by
      simp only [okS] at h
      simp only [genStmt]
      apply Clean.bind (loc_clean i); intro _
      apply Clean.bind (Clean.emit _); intro _
      exact stmtClean env l h
    | .block i body, h => by
      simp only [okS] at h
      simp only [genStmt]
      exact Clean.bind (loc_clean i) (fun _ => stmtsClean env body h)
    | .goto_ i a b, _ => by
      simp only [genStmt]
      exact Clean.bind (loc_clean i) (fun _ => Clean.emit _)
    | .gotoExpr i l, h => by
      simp only [okS] at h
      simp only [genStmt]
      apply Clean.bind (loc_clean i); intro _
      apply Clean.bind (exprClean env l h); intro _
      exact Clean.emit _
    | .label i a b l, h => by
      simp only [okS] at h
      simp only [genStmt]
      apply Clean.bind (loc_clean i); intro _
      apply Clean.bind (Clean.emit _); intro _
      exact stmtClean env l h
    | .ret i l, h => by
      simp only [okS, Bool.or_eq_true, Bool.and_eq_true] at h
      simp only [genStmt]
      apply Clean.bind (loc_clean i); intro _
      apply returnArm_clean
      intro x ty hx
      cases hg : optGen l (genExpr env l) with
      | none => rw [hg] at hx; cases hx
      | some g =>
        rw [hg] at hx
        simp only [Option.map_some, Option.some.injEq, Prod.mk.injEq] at hx
        obtain ⟨rfl, rfl⟩ := hx
        rcases h with h2 | h2
        · cases l <;> simp [isNull] at h2
          simp [optGen] at hg
        · refine ⟨optGen_clean (Or.inr (exprClean env l h2.1)) g hg, ?_⟩
          have h3 := h2.2
          unfold scalarTy at h3
          cases hl : l.ty? with
          | none => rw [hl] at h3; cases h3
          | some t =>
            rw [hl] at h3
            simp only [Bool.and_eq_true, bne_iff_ne, ne_eq] at h3
            exact ⟨t, rfl, h3.1, h3.2⟩
    | .exprStmt i l, h => by
      simp only [okS] at h
      simp only [genStmt]
      apply Clean.bind (loc_clean i); intro _
      apply Clean.bind (exprClean env l h); intro _
      exact discard_clean _
    | .asm_ i s, _ => by
      simp only [genStmt]
      exact Clean.bind (loc_clean i) (fun _ => Clean.emit _)
    | .nullExpr .., _ => by is
    | .binop .., _ => by is
    | .neg .., _ => by is
    | .assign .., _ => by is
    | .cond .., _ => by is
    | .comma .., _ => by is
    | .member .., _ => by is
    | .addr .., _ => by is
    | .deref .., _ => by is
    | .not .., _ => by is
    | .bitnot .., _ => by is
    | .logand .., _ => by is
    | .logor .., _ => by is
    | .labelVal .., _ => by is
    | .funcall .., _ => by is
    | .stmtExpr .., _ => by is
    | .var .., _ => by is
    | .vlaPtr .., _ => by is
    | .num .., _ => by is
    | .cast .., _ => by is
    | .memzero .., _ => by is
    | .cas .., _ => by is
    | .exch .., _ => by is
  theorem stmtsClean (env : Env) : ∀ (l : NodeList), okL env l = true → Clean (genStmts env l)
    | .nil, _ => by simp only [genStmts]; exact Clean.pure _
    | .cons n rest, h => by
      simp only [okL, Bool.and_eq_true] at h
      simp only [genStmts]
      exact Clean.bind (stmtClean env n h.1) (fun _ => stmtsClean env rest h.2)
  theorem bodyClean (env : Env) : ∀ (l : NodeList), okB env l = true → Clean (genStmtExprBody env l)
    | .nil, _ => by simp only [genStmtExprBody]; exact Clean.pure _
    | .cons (.exprStmt i lhs) .nil, h => by
      simp only [okB] at h
      simp only [genStmtExprBody]
      exact Clean.bind (loc_clean i) (fun _ => exprClean env lhs h)
    | .cons n (.cons m rest), h => by
      have h' : okS env n = true ∧ okB env (.cons m rest) = true := by
        cases n <;> simpa [okB] using h
      have e : genStmtExprBody env (.cons n (.cons m rest)) =
          (genStmt env n >>= fun _ => genStmtExprBody env (.cons m rest)) := by
        cases n <;> simp only [genStmtExprBody]
      rw [e]
      exact Clean.bind (stmtClean env n h'.1) (fun _ => bodyClean env (.cons m rest) h'.2)
    | .cons n .nil, h => by
      by_cases hn : ∃ i lhs, n = .exprStmt i lhs
      · obtain ⟨i, lhs, rfl⟩ := hn
        simp only [okB] at h
        simp only [genStmtExprBody]
        exact Clean.bind (loc_clean i) (fun _ => exprClean env lhs h)
      · have h' : okS env n = true := by
          cases n <;> first | (exfalso; exact hn ⟨_, _, rfl⟩) | (simp only [okB, okL, Bool.and_true] at h; exact h)
        have e : genStmtExprBody env (.cons n .nil) = (genStmt env n >>= fun _ => genStmtExprBody env .nil) := by
          cases n <;> first | (exfalso; exact hn ⟨_, _, rfl⟩) | (simp only [genStmtExprBody])
        rw [e]
        exact Clean.bind (stmtClean env n h') (fun _ => bodyClean env .nil rfl)
end

end ChibiVerif.C13Codegen
