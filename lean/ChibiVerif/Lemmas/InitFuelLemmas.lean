/-
C05: the fuel of the parser transcription never changes an answer.  `Le r r'` says "`r` ran out of fuel, or `r = r'`"; every
function of the mutually recursive block is monotone for it, because all of them are built from `bind`, `if`, `match` and
`foldlM` over calls with less fuel.
-/
import ChibiVerif.Model.Init

namespace ChibiVerif.Init

/-- `r'` is what more fuel makes of `r`: running out of fuel may turn into anything, any other outcome is final -/
def Le {α : Type} (r r' : Except Fail α) : Prop := r = .error .fuel ∨ r = r'

theorem Le.refl {α : Type} (r : Except Fail α) : Le r r := Or.inr rfl

theorem Le.trans {α : Type} {a b c : Except Fail α} (h1 : Le a b) (h2 : Le b c) : Le a c := by
  rcases h1 with h | h
  · exact Or.inl h
  · subst h; exact h2

theorem Le.bind {α β : Type} {x x' : Except Fail α} {k k' : α → Except Fail β} (h : Le x x') (hk : ∀ a, Le (k a) (k' a)) :
    Le (x >>= k) (x' >>= k') := by
  rcases h with h | h
  · left; rw [h]; rfl
  · subst h
    cases x with
    | error e => right; rfl
    | ok a => exact hk a

theorem Le.foldlM {α β : Type} {s s' : β → α → Except Fail β} (h : ∀ b a, Le (s b a) (s' b a)) :
    ∀ (l : List α) (b : β), Le (l.foldlM s b) (l.foldlM s' b)
  | [], b => Le.refl _
  | a :: l, b => by
    simp only [List.foldlM_cons]
    exact Le.bind (h b a) (fun b' => Le.foldlM h l b')

theorem Le.ite {α : Type} {c : Prop} [Decidable c] {a a' b b' : Except Fail α} (h1 : c → Le a a') (h2 : ¬ c → Le b b') :
    Le (if c then a else b) (if c then a' else b') := by
  by_cases h : c <;> simp only [h, ↓reduceIte]
  · exact h1 h
  · exact h2 h

theorem skipExcess_mono : ∀ (f : Nat) (toks : List ITok), Le (skipExcess f toks) (skipExcess (f+1) toks)
  | 0, _ => Or.inl rfl
  | f+1, toks => by
    cases toks with
    | nil => exact Le.refl _
    | cons t r =>
      cases t <;> first | exact Le.refl _ | skip
      simp only [skipExcess]
      exact Le.bind (skipExcess_mono f r) (fun _ => Le.refl _)

/-- one more unit of fuel: all functions of the block at once -/
structure Mono (f : Nat) : Prop where
  designation : ∀ ty toks init, Le (designation f ty toks init) (designation (f+1) ty toks init)
  countLoop : ∀ elem toks d i mx first, Le (countLoop f elem toks d i mx first) (countLoop (f+1) elem toks d i mx first)
  countArrayInit : ∀ elem toks, Le (countArrayInit f elem toks) (countArrayInit (f+1) elem toks)
  arrayInit1Loop : ∀ elem toks init i first, Le (arrayInit1Loop f elem toks init i first) (arrayInit1Loop (f+1) elem toks init i first)
  arrayInit1 : ∀ elem toks init, Le (arrayInit1 f elem toks init) (arrayInit1 (f+1) elem toks init)
  arrayInit2Loop : ∀ elem toks init i, Le (arrayInit2Loop f elem toks init i) (arrayInit2Loop (f+1) elem toks init i)
  arrayInit2 : ∀ elem toks init i, Le (arrayInit2 f elem toks init i) (arrayInit2 (f+1) elem toks init i)
  structInit1Loop : ∀ ms toks init mem first, Le (structInit1Loop f ms toks init mem first) (structInit1Loop (f+1) ms toks init mem first)
  structInit1 : ∀ ms toks init, Le (structInit1 f ms toks init) (structInit1 (f+1) ms toks init)
  structInit2 : ∀ ms toks init mem first, Le (structInit2 f ms toks init mem first) (structInit2 (f+1) ms toks init mem first)
  unionRest : ∀ ms toks init, Le (unionRest f ms toks init) (unionRest (f+1) ms toks init)
  unionInit : ∀ ms toks init, Le (unionInit f ms toks init) (unionInit (f+1) ms toks init)
  initializer2 : ∀ ty toks init, Le (initializer2 f ty toks init) (initializer2 (f+1) ty toks init)

macro "mono_step" ih:ident : tactic => `(tactic|
  repeat' first
    | exact Le.refl _
    | exact Or.inl rfl
    | exact ($ih).designation ..
    | exact ($ih).countLoop ..
    | exact ($ih).countArrayInit ..
    | exact ($ih).arrayInit1Loop ..
    | exact ($ih).arrayInit1 ..
    | exact ($ih).arrayInit2Loop ..
    | exact ($ih).arrayInit2 ..
    | exact ($ih).structInit1Loop ..
    | exact ($ih).structInit1 ..
    | exact ($ih).structInit2 ..
    | exact ($ih).unionRest ..
    | exact ($ih).unionInit ..
    | exact ($ih).initializer2 ..
    | exact skipExcess_mono ..
    | apply Le.ite <;> intro _
    | apply Le.foldlM
    | apply Le.bind
    | intro _
    | split)

theorem mono_zero : Mono 0 where
  designation := fun _ _ _ => Or.inl rfl
  countLoop := fun _ _ _ _ _ _ => Or.inl rfl
  countArrayInit := fun _ _ => Or.inl rfl
  arrayInit1Loop := fun _ _ _ _ _ => Or.inl rfl
  arrayInit1 := fun _ _ _ => Or.inl rfl
  arrayInit2Loop := fun _ _ _ _ => Or.inl rfl
  arrayInit2 := fun _ _ _ _ => Or.inl rfl
  structInit1Loop := fun _ _ _ _ _ => Or.inl rfl
  structInit1 := fun _ _ _ => Or.inl rfl
  structInit2 := fun _ _ _ _ _ => Or.inl rfl
  unionRest := fun _ _ _ => Or.inl rfl
  unionInit := fun _ _ _ => Or.inl rfl
  initializer2 := fun _ _ _ => Or.inl rfl

theorem mono_succ (f : Nat) (ih : Mono f) : Mono (f+1) where
  designation := by intro ty toks init; simp only [Init.designation]; mono_step ih
  countLoop := by intro elem toks d i mx first; simp only [Init.countLoop]; mono_step ih
  countArrayInit := by intro elem toks; simp only [Init.countArrayInit]; mono_step ih
  arrayInit1Loop := by intro elem toks init i first; simp only [Init.arrayInit1Loop]; mono_step ih
  arrayInit1 := by intro elem toks init; simp only [Init.arrayInit1]; mono_step ih
  arrayInit2Loop := by intro elem toks init i; simp only [Init.arrayInit2Loop]; mono_step ih
  arrayInit2 := by intro elem toks init i; simp only [Init.arrayInit2]; mono_step ih
  structInit1Loop := by intro ms toks init mem first; simp only [Init.structInit1Loop]; mono_step ih
  structInit1 := by intro ms toks init; simp only [Init.structInit1]; mono_step ih
  structInit2 := by intro ms toks init mem first; simp only [Init.structInit2]; mono_step ih
  unionRest := by intro ms toks init; simp only [Init.unionRest]; mono_step ih
  unionInit := by intro ms toks init; simp only [Init.unionInit]; mono_step ih
  initializer2 := by intro ty toks init; simp only [Init.initializer2]; mono_step ih

theorem mono_all : ∀ f, Mono f
  | 0 => mono_zero
  | f+1 => mono_succ f (mono_all f)

/-- more fuel never changes an answer of `initializer2` that is not "out of fuel" -/
theorem initializer2_fuel_mono (ty : Ty) (toks : List ITok) (init : Init) :
    ∀ (f g : Nat), f ≤ g → Le (initializer2 f ty toks init) (initializer2 g ty toks init) := by
  intro f g h
  induction h with
  | refl => exact Le.refl _
  | step _ ih => exact ih.trans ((mono_all _).initializer2 ty toks init)

end ChibiVerif.Init
