/-
C04 over Model/X86: the byte loop `store` prints for a struct / union assignment
(`pop %rdi; mov i(%rax), %r8b; mov %r8b, i(%rdi)` for i = 0 … size-1, `Gen.C04.storeStructLines`), executed by `X86.run`.
-/
import ChibiVerif.Lemmas.C04X86

namespace ChibiVerif.C04X86
open ChibiVerif.X86 ChibiVerif.Asm ChibiVerif.Gen.C04

/-- the registers of one byte loop: `mov i(%rax), tmp; mov tmp, i(dst)` -/
structure LoopOK (tmpN : String) (tmp : Reg) (dstN : String) (dst : Reg) : Prop where
  ld : ∀ i : Int, decode ⟨"mov", [.m i "%rax", .r tmpN]⟩ = some (.mov .w8 (.mem i .rax) (.reg tmp))
  st : ∀ i : Int, decode ⟨"mov", [.r tmpN, .m i dstN]⟩ = some (.mov .w8 (.reg tmp) (.mem i dst))
  ne_rax : Reg.rax ≠ tmp
  ne_dst : dst ≠ tmp

/-- `store`: %r8b, (%rdi);  `push_struct`: %r10b, (%rsp);  `copy_struct_mem`: %dl, (%rdi) -/
theorem loop_store : LoopOK "%r8b" .r8 "%rdi" .rdi := ⟨fun _ => rfl, fun _ => rfl, by decide, by decide⟩
theorem loop_push : LoopOK "%r10b" .r10 "%rsp" .rsp := ⟨fun _ => rfl, fun _ => rfl, by decide, by decide⟩
theorem loop_ret : LoopOK "%dl" .rdx "%rdi" .rdi := ⟨fun _ => rfl, fun _ => rfl, by decide, by decide⟩

theorem low8_back (r : BitVec 64) (v : BitVec 8) : BitVec.setWidth 8 (BitVec.ofNat 64 (r.toNat / 256 * 256 + v.toNat)) = v := by
  apply BitVec.eq_of_toNat_eq
  have := v.isLt
  simp only [BitVec.toNat_setWidth, BitVec.toNat_ofNat]
  omega

theorem getW_setW8 (s : State) (r : Reg) (v : BitVec 8) : (s.setW r .w8 v).getW r .w8 = v := by
  unfold State.setW State.getW
  simp only [State.get_set_same]
  exact low8_back _ _
theorem get_setW8_ne (s : State) (r x : Reg) (v : BitVec 8) (h : x ≠ r) : (s.setW r .w8 v).get x = s.get x := by
  unfold State.setW
  exact State.get_set_ne _ _ _ _ h

/-- one trip of the loop: byte `src + i` goes to `dst + i`; only %r8 changes among the registers -/
theorem copy_trip {tmpN dstN : String} {tmp dst : Reg} (L : LoopOK tmpN tmp dstN dst) (i : Nat) (s : State) :
    ∃ s', X86.run [⟨"mov", [.m (i : Int) "%rax", .r tmpN]⟩, ⟨"mov", [.r tmpN, .m (i : Int) dstN]⟩] s = some s' ∧
      s'.mem = wr8 s.mem (s.get dst + BitVec.ofNat 64 i) (s.mem (s.get .rax + BitVec.ofNat 64 i)) ∧
      ∀ x, x ≠ tmp → s'.get x = s.get x := by
  have e : BitVec.ofInt 64 (i : Int) = BitVec.ofNat 64 i := by simp
  simp only [X86.run, X86.step, L.ld, L.st, exec, State.src, State.dst, State.readW, State.writeW, State.ea, e]
  refine ⟨_, rfl, ?_, ?_⟩
  · rw [mem_write8, getW_setW8, get_setW8_ne _ _ _ _ L.ne_dst]
    rfl
  · intro x hx
    rw [get_write8, get_setW8_ne _ _ _ _ hx]

/-- the instruction list of the loop -/
def loopIns (tmpN dstN : String) (n : Nat) : List Ins :=
  (List.range n).flatMap fun (i : Nat) => [⟨"mov", [.m (i : Int) "%rax", .r tmpN]⟩, ⟨"mov", [.r tmpN, .m (i : Int) dstN]⟩]

theorem loopIns_succ (tmpN dstN : String) (n : Nat) : loopIns tmpN dstN (n + 1) =
    loopIns tmpN dstN n ++ [⟨"mov", [.m (n : Int) "%rax", .r tmpN]⟩, ⟨"mov", [.r tmpN, .m (n : Int) dstN]⟩] := by
  simp [loopIns, List.range_succ]

theorem ofNat_inj_lt (p : BitVec 64) (j k : Nat) (hj : j < 2 ^ 64) (hk : k < 2 ^ 64) (h : p + BitVec.ofNat 64 j = p + BitVec.ofNat 64 k) :
    j = k := by
  have h' : BitVec.ofNat 64 j = BitVec.ofNat 64 k := by
    have := congrArg (fun x => x - p) h
    simp only [BitVec.add_comm p, BitVec.add_sub_cancel] at this
    exact this
  have := congrArg BitVec.toNat h'
  simp only [BitVec.toNat_ofNat] at this
  omega

/-- the loop, by induction on the number of trips: with source `src` in %rax and destination `dst` in %rdi, if no trip
    overwrites a source byte that a later trip still has to read (`dst + j ≠ src + k` for `j < k < n`), then byte `k` of
    the source arrives at byte `k` of the destination, every other byte of memory is unchanged, and %rax, %rdi, %rsp are
    unchanged -/
theorem copy_loop {tmpN dstN : String} {tmp dst : Reg} (L : LoopOK tmpN tmp dstN dst) (n : Nat) (hn : n ≤ 2 ^ 64) (s : State)
    (hov : ∀ j k : Nat, j < k → k < n → s.get dst + BitVec.ofNat 64 j ≠ s.get .rax + BitVec.ofNat 64 k) :
    ∃ s', X86.run (loopIns tmpN dstN n) s = some s' ∧
      (∀ k : Nat, k < n → s'.mem (s.get dst + BitVec.ofNat 64 k) = s.mem (s.get .rax + BitVec.ofNat 64 k)) ∧
      (∀ x : BitVec 64, (∀ k : Nat, k < n → x ≠ s.get dst + BitVec.ofNat 64 k) → s'.mem x = s.mem x) ∧
      ∀ x, x ≠ tmp → s'.get x = s.get x := by
  induction n with
  | zero =>
    refine ⟨s, by simp [loopIns, X86.run], ?_, ?_, ?_⟩
    · intro k hk; omega
    · intro x _; rfl
    · intro x _; rfl
  | succ n ih =>
    obtain ⟨s1, r1, m1, o1, g1⟩ := ih (by omega) (fun j k hjk hk => hov j k hjk (by omega))
    obtain ⟨s2, r2, m2, g2⟩ := copy_trip L n s1
    have hrdi : s1.get dst = s.get dst := g1 dst L.ne_dst
    have hrax : s1.get .rax = s.get .rax := g1 .rax L.ne_rax
    rw [hrdi, hrax] at m2
    refine ⟨s2, ?_, ?_, ?_, ?_⟩
    · rw [loopIns_succ, run_append, r1]
      exact r2
    · intro k hk
      rw [m2]
      by_cases hkn : k = n
      · subst hkn
        simp only [wr8, if_true]
        -- the source byte of this trip has not been overwritten by an earlier trip
        exact o1 _ (fun j hj heq => hov j k hj (by omega) heq.symm)
      · have hne : s.get dst + BitVec.ofNat 64 k ≠ s.get dst + BitVec.ofNat 64 n := by
          intro heq
          exact hkn (ofNat_inj_lt _ k n (by omega) (by omega) heq)
        simp only [wr8, hne, if_false]
        exact m1 k (by omega)
    · intro x hx
      rw [m2]
      have hne : x ≠ s.get dst + BitVec.ofNat 64 n := hx n (by omega)
      simp only [wr8, hne, if_false]
      exact o1 x (fun k hk => hx k (by omega))
    · intro x hx
      rw [g2 x hx, g1 x hx]

theorem insOf_loop (tmpN dstN : String) (n : Nat) :
    insOf ((List.range n).flatMap fun (i : Nat) => [.ins ⟨"mov", [.m (i : Int) "%rax", .r tmpN]⟩, .ins ⟨"mov", [.r tmpN, .m (i : Int) dstN]⟩])
      = loopIns tmpN dstN n := by
  simp only [insOf, loopIns]
  induction (List.range n) with
  | nil => rfl
  | cons i is ih => simp [List.flatMap_cons, Line.instrs, ih]

theorem storeStruct_split (n : Nat) : insOf (storeStructLines n) = [⟨"pop", [.r "%rdi"]⟩] ++ loopIns "%r8b" "%rdi" n := by
  unfold storeStructLines
  rw [insOf_append, insOf_loop]
  rfl

/-- **struct / union assignment on the machine** (`store` for TY_STRUCT / TY_UNION): with the destination address on top
    of the stack and the source address in %rax -/
theorem storeStruct_run (n : Nat) (hn : n ≤ 2 ^ 64) (s : State)
    (hov : ∀ j k : Nat, j < k → k < n → s.read64 (s.get .rsp) + BitVec.ofNat 64 j ≠ s.get .rax + BitVec.ofNat 64 k) :
    ∃ s', X86.run (insOf (storeStructLines n)) s = some s' ∧
      (∀ k : Nat, k < n → s'.mem (s.read64 (s.get .rsp) + BitVec.ofNat 64 k) = s.mem (s.get .rax + BitVec.ofNat 64 k)) ∧
      (∀ x : BitVec 64, (∀ k : Nat, k < n → x ≠ s.read64 (s.get .rsp) + BitVec.ofNat 64 k) → s'.mem x = s.mem x) ∧
      s'.get .rax = s.get .rax ∧ s'.get .rsp = s.get .rsp + 8 := by
  rw [storeStruct_split, run_append]
  simp only [X86.run, step_pop_rdi]
  have hov' : ∀ j k : Nat, j < k → k < n →
      ((s.set .rsp (s.get .rsp + 8)).set .rdi (s.read64 (s.get .rsp))).get .rdi + BitVec.ofNat 64 j ≠
      ((s.set .rsp (s.get .rsp + 8)).set .rdi (s.read64 (s.get .rsp))).get .rax + BitVec.ofNat 64 k := by
    intro j k hjk hk
    simp only [State.get_set_same]
    rw [State.get_set_ne _ _ _ _ (by decide), State.get_set_ne _ _ _ _ (by decide)]
    exact hov j k hjk hk
  obtain ⟨s', r, m, o, g⟩ := copy_loop loop_store n hn _ hov'
  simp only [State.get_set_same] at m o
  rw [State.get_set_ne _ _ _ _ (by decide), State.get_set_ne _ _ _ _ (by decide)] at m
  refine ⟨s', r, m, o, ?_, ?_⟩
  · rw [g .rax (by decide), State.get_set_ne _ _ _ _ (by decide), State.get_set_ne _ _ _ _ (by decide)]
  · rw [g .rsp (by decide), State.get_set_ne _ _ _ _ (by decide), State.get_set_same]

/-! ### `push_struct` (pass by value) and `copy_struct_mem` (return by value) -/

theorem dec_sub_rsp (n : Int) : decode ⟨"sub", [.i n, .r "%rsp"]⟩ = some (.alu .sub .w64 (.imm n) (.reg .rsp)) := rfl
theorem dec_mov_rbp_rdi (d : Int) : decode ⟨"mov", [.m d "%rbp", .r "%rdi"]⟩ = some (.mov .w64 (.mem d .rbp) (.reg .rdi)) := rfl
theorem dec_mov_rdi_rax : decode ⟨"mov", [.r "%rdi", .r "%rax"]⟩ = some (.mov .w64 (.reg .rdi) (.reg .rax)) := rfl

theorem step_sub_rsp (n : Int) (s : State) :
    ∃ s', X86.step ⟨"sub", [.i n, .r "%rsp"]⟩ s = some s' ∧ s'.get .rsp = s.get .rsp - BitVec.ofInt 64 n ∧ s'.mem = s.mem ∧
      ∀ x, x ≠ .rsp → s'.get x = s.get x := by
  simp only [X86.step, dec_sub_rsp, exec, aluExec, Alu.writes, State.src, State.dst, State.getW, State.setW, if_true]
  refine ⟨_, rfl, ?_, rfl, ?_⟩
  · simp
  · intro x hx; simp [hx]

theorem pushStruct_split (n : Nat) :
    insOf (pushStructLines n) = [⟨"sub", [.i (Gen.Declspec.alignTo (n : Int) 8), .r "%rsp"]⟩] ++ loopIns "%r10b" "%rsp" n := by
  unfold pushStructLines
  rw [insOf_append, insOf_loop]
  rfl

/-- **passing a struct by value on the machine** (`push_struct`): %rsp drops by `align_to(size, 8)` and the `size` bytes at
    the source (%rax) are copied to the new top of the stack -/
theorem pushStruct_run (n : Nat) (hn : n ≤ 2 ^ 64) (s : State)
    (hov : ∀ j k : Nat, j < k → k < n →
      s.get .rsp - BitVec.ofInt 64 (Gen.Declspec.alignTo (n : Int) 8) + BitVec.ofNat 64 j ≠ s.get .rax + BitVec.ofNat 64 k) :
    ∃ s', X86.run (insOf (pushStructLines n)) s = some s' ∧
      s'.get .rsp = s.get .rsp - BitVec.ofInt 64 (Gen.Declspec.alignTo (n : Int) 8) ∧
      (∀ k : Nat, k < n → s'.mem (s'.get .rsp + BitVec.ofNat 64 k) = s.mem (s.get .rax + BitVec.ofNat 64 k)) ∧
      (∀ x : BitVec 64, (∀ k : Nat, k < n → x ≠ s'.get .rsp + BitVec.ofNat 64 k) → s'.mem x = s.mem x) ∧
      s'.get .rax = s.get .rax := by
  obtain ⟨s1, h1, g1, m1, o1⟩ := step_sub_rsp (Gen.Declspec.alignTo (n : Int) 8) s
  rw [pushStruct_split, run_append]
  simp only [X86.run, h1]
  have hrax : s1.get .rax = s.get .rax := o1 .rax (by decide)
  obtain ⟨s', r, m, o, g⟩ := copy_loop loop_push n hn s1 (by rw [g1, hrax]; exact hov)
  have hrsp : s'.get .rsp = s1.get .rsp := g .rsp (by decide)
  refine ⟨s', r, by rw [hrsp, g1], ?_, ?_, by rw [g .rax (by decide), hrax]⟩
  · intro k hk
    rw [hrsp, m k hk, m1, hrax]
  · intro x hx
    rw [o x (by rw [← hrsp]; exact hx), m1]

theorem copyStructMem_split (off : Int) (n : Nat) :
    insOf (copyStructMemLines off n) =
      [⟨"mov", [.m off "%rbp", .r "%rdi"]⟩] ++ (loopIns "%dl" "%rdi" n ++ [⟨"mov", [.r "%rdi", .r "%rax"]⟩]) := by
  unfold copyStructMemLines
  rw [insOf_append, insOf_append, insOf_loop, List.append_assoc]
  rfl

/-- **returning a struct by value on the machine** (`copy_struct_mem`): the destination address is read from the hidden
    first parameter at `off(%rbp)`, the `size` bytes at the source (%rax) are copied there, and %rax returns the destination -/
theorem copyStructMem_run (off : Int) (n : Nat) (hn : n ≤ 2 ^ 64) (s : State)
    (hov : ∀ j k : Nat, j < k → k < n →
      s.read64 (s.get .rbp + BitVec.ofInt 64 off) + BitVec.ofNat 64 j ≠ s.get .rax + BitVec.ofNat 64 k) :
    ∃ s', X86.run (insOf (copyStructMemLines off n)) s = some s' ∧
      (∀ k : Nat, k < n → s'.mem (s.read64 (s.get .rbp + BitVec.ofInt 64 off) + BitVec.ofNat 64 k) = s.mem (s.get .rax + BitVec.ofNat 64 k)) ∧
      (∀ x : BitVec 64, (∀ k : Nat, k < n → x ≠ s.read64 (s.get .rbp + BitVec.ofInt 64 off) + BitVec.ofNat 64 k) → s'.mem x = s.mem x) ∧
      s'.get .rax = s.read64 (s.get .rbp + BitVec.ofInt 64 off) ∧ s'.get .rsp = s.get .rsp ∧ s'.get .rbp = s.get .rbp := by
  rw [copyStructMem_split, run_append]
  simp only [X86.run, X86.step, dec_mov_rbp_rdi, exec, State.src, State.dst, State.readW, State.setW, State.ea]
  obtain ⟨s1, r, m, o, g⟩ := copy_loop loop_ret n hn (s.set .rdi (s.read64 (s.get .rbp + BitVec.ofInt 64 off)))
    (by rw [State.get_set_same, State.get_set_ne _ _ _ _ (by decide)]; exact hov)
  rw [State.get_set_same, State.get_set_ne _ _ _ _ (by decide)] at m
  rw [State.get_set_same] at o
  rw [run_append, r]
  simp only [X86.run, X86.step, dec_mov_rdi_rax, exec, State.src, State.dst, State.getW, State.setW, W.bits, BitVec.setWidth_eq]
  refine ⟨_, rfl, m, o, ?_, ?_, ?_⟩
  · rw [State.get_set_same, g .rdi (by decide), State.get_set_same]
  · rw [State.get_set_ne _ _ _ _ (by decide), g .rsp (by decide), State.get_set_ne _ _ _ _ (by decide)]
  · rw [State.get_set_ne _ _ _ _ (by decide), g .rbp (by decide), State.get_set_ne _ _ _ _ (by decide)]

theorem toNat_add_ofNat (p : BitVec 64) (k : Nat) (h : p.toNat + k < 2 ^ 64) : (p + BitVec.ofNat 64 k).toNat = p.toNat + k := by
  simp only [BitVec.toNat_add, BitVec.toNat_ofNat]
  omega

/-- the usual situation: both objects lie in the address space without wrapping, and they are disjoint, identical, or the
    destination starts below the source — then no trip overwrites a byte a later trip reads -/
theorem no_clobber (dst src : BitVec 64) (n : Nat) (hd : dst.toNat + n ≤ 2 ^ 64) (hs : src.toNat + n ≤ 2 ^ 64)
    (h : dst.toNat ≤ src.toNat ∨ src.toNat + n ≤ dst.toNat) :
    ∀ j k : Nat, j < k → k < n → dst + BitVec.ofNat 64 j ≠ src + BitVec.ofNat 64 k := by
  intro j k hjk hk heq
  have := congrArg BitVec.toNat heq
  rw [toNat_add_ofNat _ _ (by omega), toNat_add_ofNat _ _ (by omega)] at this
  omega

end ChibiVerif.C04X86
