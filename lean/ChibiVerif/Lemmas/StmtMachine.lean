/-
C03 — lemmas about the machine of Model/Stmt.lean: code placement, label lookup under
uniqueness, reachability, the condition test, and the `switch` compare ladder (the arm
tests computed by the emitted instructions equal `entMatches`).  Core Lean only.
-/
import ChibiVerif.Model.Stmt

set_option linter.unusedSimpArgs false
namespace ChibiVerif.Ctl
open ChibiVerif.Spec.Ctl

/-! ### code placement -/

def CodeAt (P : Prog) (p : Nat) (code : List CIns) : Prop :=
  ∃ pre post, P = pre ++ code ++ post ∧ pre.length = p

theorem CodeAt.left {P : Prog} {p : Nat} {a b : List CIns} (h : CodeAt P p (a ++ b)) : CodeAt P p a := by
  obtain ⟨pre, post, hP, hl⟩ := h
  exact ⟨pre, b ++ post, by simp [hP], hl⟩

theorem CodeAt.right {P : Prog} {p : Nat} {a b : List CIns} (h : CodeAt P p (a ++ b)) :
    CodeAt P (p + a.length) b := by
  obtain ⟨pre, post, hP, hl⟩ := h
  exact ⟨pre ++ a, post, by simp [hP], by simp [hl]⟩

theorem CodeAt.head {P : Prog} {p : Nat} {i : CIns} {r : List CIns} (h : CodeAt P p (i :: r)) :
    P[p]? = some i := by
  obtain ⟨pre, post, hP, hl⟩ := h
  subst hP; subst hl
  simp

theorem CodeAt.tail {P : Prog} {p : Nat} {i : CIns} {r : List CIns} (h : CodeAt P p (i :: r)) :
    CodeAt P (p + 1) r := by
  have := CodeAt.right (a := [i]) (b := r) (by simpa using h)
  simpa using this

theorem CodeAt.get {P : Prog} {p : Nat} {code : List CIns} (h : CodeAt P p code) (i : Nat)
    (hi : i < code.length) : P[p + i]? = code[i]? := by
  obtain ⟨pre, post, hP, hl⟩ := h
  subst hP; subst hl
  rw [List.append_assoc, List.getElem?_append_right (by omega)]
  simp [List.getElem?_append_left hi]

/-! ### labels -/

def UniqueLabels (P : Prog) : Prop :=
  ∀ (i j : Nat) (l : Lbl), P[i]? = some (CIns.label l) → P[j]? = some (CIns.label l) → i = j

theorem findLabelFrom_spec (l : Lbl) : ∀ (P : Prog) (k i : Nat),
    P[i]? = some (.label l) → (∀ j, j < i → P[j]? ≠ some (.label l)) →
    findLabelFrom P l k = some (k + i) := by
  intro P
  induction P with
  | nil => intro k i h; simp at h
  | cons a r ih =>
    intro k i h hmin
    cases i with
    | zero =>
      simp only [List.getElem?_cons_zero, Option.some.injEq] at h
      simp [findLabelFrom, h]
    | succ i =>
      have h0 : a ≠ .label l := by
        intro e
        exact hmin 0 (by omega) (by simp [e])
      simp only [findLabelFrom, h0, if_false]
      have := ih (k + 1) i (by simpa using h) (by
        intro j hj
        have := hmin (j + 1) (by omega)
        simpa using this)
      rw [this]; congr 1; omega

theorem findLabel_of_unique {P : Prog} (hu : UniqueLabels P) {i : Nat} {l : Lbl}
    (h : P[i]? = some (.label l)) : findLabel P l = some i := by
  have := findLabelFrom_spec l P 0 i h (by
    intro j hj hjl
    have := hu j i l hjl h
    omega)
  simpa [findLabel] using this

/-! ### reachability -/

def Reach (ω : Nat → Val) (P : Prog) (s s' : MState) : Prop := ∃ n, stepN ω P n s = some s'

theorem Reach.refl (ω : Nat → Val) (P : Prog) (s : MState) : Reach ω P s s := ⟨0, rfl⟩

theorem stepN_add (ω : Nat → Val) (P : Prog) : ∀ (n m : Nat) (s s1 s2 : MState),
    stepN ω P n s = some s1 → stepN ω P m s1 = some s2 → stepN ω P (n + m) s = some s2 := by
  intro n
  induction n with
  | zero => intro m s s1 s2 h1 h2; simp only [stepN] at h1; cases h1; simpa using h2
  | succ n ih =>
    intro m s s1 s2 h1 h2
    simp only [stepN] at h1
    cases hs : step ω P s with
    | none => rw [hs] at h1; cases h1
    | some s' =>
      rw [hs] at h1
      have := ih m s' s1 s2 h1 h2
      rw [show n + 1 + m = (n + m) + 1 by omega]
      simp only [stepN, hs, this]

theorem Reach.trans {ω : Nat → Val} {P : Prog} {a b c : MState} (h1 : Reach ω P a b) (h2 : Reach ω P b c) :
    Reach ω P a c := by
  obtain ⟨n, hn⟩ := h1
  obtain ⟨m, hm⟩ := h2
  exact ⟨n + m, stepN_add ω P n m a b c hn hm⟩

theorem Reach.step {ω : Nat → Val} {P : Prog} {a b : MState} (h : step ω P a = some b) : Reach ω P a b :=
  ⟨1, by simp [stepN, h]⟩

/-- register-abstracted runs: from any machine state at `(pc, σ)` some state at `(pc', σ')` is reached -/
def Runs (ω : Nat → Val) (P : Prog) (a b : Nat × SState) : Prop :=
  ∀ s : MState, s.pc = a.1 → s.σ = a.2 → ∃ s', Reach ω P s s' ∧ s'.pc = b.1 ∧ s'.σ = b.2

theorem Runs.refl (ω : Nat → Val) (P : Prog) (a : Nat × SState) : Runs ω P a a :=
  fun s h1 h2 => ⟨s, Reach.refl ω P s, h1, h2⟩

theorem Runs.trans {ω : Nat → Val} {P : Prog} {a b c : Nat × SState} (h1 : Runs ω P a b) (h2 : Runs ω P b c) :
    Runs ω P a c := by
  intro s hp hs
  obtain ⟨s1, r1, hp1, hs1⟩ := h1 s hp hs
  obtain ⟨s2, r2, hp2, hs2⟩ := h2 s1 hp1 hs1
  exact ⟨s2, r1.trans r2, hp2, hs2⟩

theorem Runs.label {ω : Nat → Val} {P : Prog} {p : Nat} {σ : SState} {l : Lbl} (h : P[p]? = some (.label l)) :
    Runs ω P (p, σ) (p + 1, σ) := by
  intro s hp hs
  refine ⟨s.next, Reach.step ?_, ?_, ?_⟩
  · simp only [ChibiVerif.Ctl.step, hp, h]
  · simp [MState.next, hp]
  · simp [MState.next, hs]

theorem Runs.jmp {ω : Nat → Val} {P : Prog} {p q : Nat} {σ : SState} {l : Lbl} (h : P[p]? = some (.jmp l))
    (hl : findLabel P l = some q) : Runs ω P (p, σ) (q, σ) := by
  intro s hp hs
  refine ⟨{ s with pc := q }, Reach.step ?_, rfl, hs⟩
  simp only [ChibiVerif.Ctl.step, hp, h, MState.jump, hl]

theorem Runs.callM {ω : Nat → Val} {P : Prog} {p : Nat} {σ : SState} {k : Nat} (h : P[p]? = some (.call (.m k))) :
    Runs ω P (p, σ) (p + 1, σ.emit (.m k)) := by
  intro s hp hs
  refine ⟨_, Reach.step (by simp only [ChibiVerif.Ctl.step, hp, h]; rfl), ?_, ?_⟩
  · simp [MState.next, hp]
  · simp [MState.next, hs]


theorem setWidth32_zero : (0 : Val).setWidth 32 = 0#32 := by decide

/-- `call c k; cmp $0,%eax; je/jne l`: the state after the compare -/
theorem test_prefix {ω : Nat → Val} {P : Prog} {k : Nat} (s : MState)
    (h0 : P[s.pc]? = some (.call (.c k))) (h1 : P[s.pc + 1]? = some cmpZero) :
    stepN ω P 2 s = some
      { pc := s.pc + 2, σ := (s.σ.call ω (.c k)).2, rax := (s.σ.call ω (.c k)).1, rdi := 0, rdx := 0,
        zf := !(truth (s.σ.call ω (.c k)).1),
        be := (cmpFlags false (s.σ.call ω (.c k)).1 0).2 } := by
  simp only [stepN, ChibiVerif.Ctl.step, h0, MState.next, h1, cmpZero, MState.reg, cmpFlags, truth,
    setWidth32_zero]
  simp [bne]

theorem Runs.testJe {ω : Nat → Val} {P : Prog} {p q : Nat} {σ : SState} {k : Nat} {l : Lbl}
    (h : CodeAt P p [.call (.c k), cmpZero, .je l]) (hl : findLabel P l = some q) :
    Runs ω P (p, σ) (if truth (σ.call ω (.c k)).1 then p + 3 else q, (σ.call ω (.c k)).2) := by
  intro s hp hs
  have h0 := h.get 0 (by simp)
  have h1 := h.get 1 (by simp)
  have h2 := h.get 2 (by simp)
  simp only [List.getElem?_cons_zero, List.getElem?_cons_succ, Nat.add_zero] at h0 h1 h2
  simp only at hp hs
  subst hp; subst hs
  have e2 := test_prefix (ω := ω) s h0 h1
  by_cases ht : truth (s.σ.call ω (.c k)).1 = true
  · have e3 := stepN_add ω P 2 1 _ _
      { pc := s.pc + 3, σ := (s.σ.call ω (.c k)).2, rax := (s.σ.call ω (.c k)).1, rdi := 0, rdx := 0,
        zf := !(truth (s.σ.call ω (.c k)).1), be := (cmpFlags false (s.σ.call ω (.c k)).1 0).2 } e2
      (by simp [stepN, ChibiVerif.Ctl.step, h2, ht, MState.next])
    exact ⟨_, ⟨3, e3⟩, by simp [ht], rfl⟩
  · have e3 := stepN_add ω P 2 1 _ _
      { pc := q, σ := (s.σ.call ω (.c k)).2, rax := (s.σ.call ω (.c k)).1, rdi := 0, rdx := 0,
        zf := !(truth (s.σ.call ω (.c k)).1), be := (cmpFlags false (s.σ.call ω (.c k)).1 0).2 } e2
      (by simp [stepN, ChibiVerif.Ctl.step, h2, ht, MState.jump, hl])
    exact ⟨_, ⟨3, e3⟩, by simp [ht], rfl⟩


theorem sext32_setWidth (x : Val) : (sext32 x).setWidth 32 = x.setWidth 32 := by
  unfold sext32
  apply BitVec.eq_of_getLsbD_eq
  intro i hi
  simp [BitVec.getLsbD_signExtend, hi]
  intro h; omega

theorem fits32_sext32 (x : Val) : fits32 (sext32 x) = true := by
  unfold fits32
  have := sext32_setWidth x
  simp only [sext32] at this ⊢
  rw [this]; simp

theorem zext32_setWidth (x : Val) : (zext32 x).setWidth 32 = x.setWidth 32 := by
  unfold zext32
  apply BitVec.eq_of_toNat_eq
  simp [BitVec.toNat_setWidth]

theorem setWidth32_sub (a b : Val) : (a - b).setWidth 32 = a.setWidth 32 - b.setWidth 32 := by
  bv_omega

/-! ### the compare ladder -/

/-- the machine-level test one ladder arm performs on the value `v` in %rax / %eax -/
def entMatches (w64 : Bool) (e : CaseEnt) (v : Val) : Bool :=
  if e.lo = e.hi then
    (if w64 then v == e.lo else v.setWidth 32 == e.lo.setWidth 32)
  else
    (if w64 then decide (v - e.lo ≤ e.hi - e.lo)
     else decide ((v - e.lo).setWidth 32 ≤ (e.hi - e.lo).setWidth 32))

/-- where the ladder sends control: first arm in list order that matches, else `default`, else the break label -/
def selectLbl (w64 : Bool) (v : Val) : List CaseEnt → Option Nat → Nat → Nat
  | [], some d, _ => d
  | [], none, b => b
  | e :: r, d, b => if entMatches w64 e v then e.lbl else selectLbl w64 v r d b

theorem ladder32_value (a b : Val) : (zext32 (zext32 a - sext32 b)).setWidth 32 = (a - b).setWidth 32 := by
  rw [zext32_setWidth, setWidth32_sub, zext32_setWidth, sext32_setWidth, ← setWidth32_sub]

theorem reach_of_stepN {ω : Nat → Val} {P : Prog} {s : MState} {Q : MState → Prop} (n : Nat)
    (h : ∃ s', stepN ω P n s = some s' ∧ Q s') : ∃ s', Reach ω P s s' ∧ Q s' := by
  obtain ⟨s', h1, h2⟩ := h
  exact ⟨s', ⟨n, h1⟩, h2⟩

theorem ladderEnt_run {ω : Nat → Val} {P : Prog} (w64 : Bool) (e : CaseEnt) (s : MState) (q : Nat)
    (h : CodeAt P s.pc (ladderEnt w64 e))
    (hl : entMatches w64 e s.rax = true → findLabel P (.u e.lbl) = some q) :
    ∃ s', Reach ω P s s' ∧ s'.rax = s.rax ∧ s'.σ = s.σ ∧
      s'.pc = if entMatches w64 e s.rax then q else s.pc + (ladderEnt w64 e).length := by
  unfold ladderEnt at h ⊢
  unfold entMatches at hl ⊢
  by_cases heq : e.lo = e.hi
  · simp only [heq, if_true] at h hl ⊢
    cases w64 with
    | false =>
      simp only [Bool.false_eq_true, if_false, fits32_sext32, if_true] at h hl ⊢
      have h0 := h.get 0 (by simp)
      have h1 := h.get 1 (by simp)
      simp only [List.cons_append, List.nil_append, List.getElem?_cons_zero, List.getElem?_cons_succ, Nat.add_zero] at h0 h1
      apply reach_of_stepN 2
      by_cases hm : (BitVec.setWidth 32 s.rax == BitVec.setWidth 32 e.hi) = true
      · simp [stepN, ChibiVerif.Ctl.step, h0, h1, MState.next, MState.reg, cmpFlags, MState.jump, hm, hl hm,
          sext32_setWidth]
      · simp [stepN, ChibiVerif.Ctl.step, h0, h1, MState.next, MState.reg, cmpFlags, MState.jump, hm,
          sext32_setWidth]
    | true =>
      simp only [if_true] at h hl ⊢
      by_cases hf : fits32 e.hi = true
      · simp only [hf, if_true] at h ⊢
        have h0 := h.get 0 (by simp)
        have h1 := h.get 1 (by simp)
        simp only [List.cons_append, List.nil_append, List.getElem?_cons_zero, List.getElem?_cons_succ, Nat.add_zero] at h0 h1
        apply reach_of_stepN 2
        by_cases hm : (s.rax == e.hi) = true
        · simp [stepN, ChibiVerif.Ctl.step, h0, h1, MState.next, MState.reg, cmpFlags, MState.jump, hm, hl hm]
        · simp [stepN, ChibiVerif.Ctl.step, h0, h1, MState.next, MState.reg, cmpFlags, MState.jump, hm]
      · simp only [hf] at h ⊢
        have h0 := h.get 0 (by simp)
        have h1 := h.get 1 (by simp)
        have h2 := h.get 2 (by simp)
        simp only [List.cons_append, List.nil_append, List.getElem?_cons_zero, List.getElem?_cons_succ, Nat.add_zero] at h0 h1 h2
        apply reach_of_stepN 3
        by_cases hm : (s.rax == e.hi) = true
        · simp [stepN, ChibiVerif.Ctl.step, h0, h1, h2, MState.next, MState.reg, MState.setReg, cmpFlags, MState.jump, hm, hl hm]
        · simp [stepN, ChibiVerif.Ctl.step, h0, h1, h2, MState.next, MState.reg, MState.setReg, cmpFlags, MState.jump, hm]
  · simp only [heq, if_false] at h hl ⊢
    cases w64 with
    | false =>
      simp only [Bool.false_eq_true, if_false, fits32_sext32, if_true] at h hl ⊢
      have h0 := h.get 0 (by simp)
      have h1 := h.get 1 (by simp)
      have h2 := h.get 2 (by simp)
      have h3 := h.get 3 (by simp)
      simp only [List.cons_append, List.nil_append, List.getElem?_cons_zero, List.getElem?_cons_succ, Nat.add_zero] at h0 h1 h2 h3
      apply reach_of_stepN 4
      by_cases hm : decide (BitVec.setWidth 32 (s.rax - e.lo) ≤ BitVec.setWidth 32 (e.hi - e.lo)) = true
      · have hm' := of_decide_eq_true hm
        simp [stepN, ChibiVerif.Ctl.step, h0, h1, h2, h3, MState.next, MState.reg, cmpFlags, MState.jump, hm', hl hm,
          sext32_setWidth, ladder32_value]
      · have hm' : ¬ (BitVec.setWidth 32 (s.rax - e.lo) ≤ BitVec.setWidth 32 (e.hi - e.lo)) := by simpa using hm
        simp [stepN, ChibiVerif.Ctl.step, h0, h1, h2, h3, MState.next, MState.reg, cmpFlags, MState.jump, hm',
          sext32_setWidth, ladder32_value]
    | true =>
      simp only [if_true] at h hl ⊢
      by_cases hm : decide (s.rax - e.lo ≤ e.hi - e.lo) = true
      · have hm' := of_decide_eq_true hm
        by_cases hf : fits32 e.lo = true <;> by_cases hg : fits32 (e.hi - e.lo) = true <;>
          simp only [hf, hg, if_true, if_false] at h ⊢
        · have h0 := h.get 0 (by simp)
          have h1 := h.get 1 (by simp)
          have h2 := h.get 2 (by simp)
          have h3 := h.get 3 (by simp)
          simp only [List.cons_append, List.nil_append, List.getElem?_cons_zero, List.getElem?_cons_succ, Nat.add_zero] at h0 h1 h2 h3
          apply reach_of_stepN 4
          simp [stepN, ChibiVerif.Ctl.step, h0, h1, h2, h3, MState.next, MState.reg, MState.setReg, cmpFlags, MState.jump, hm', hl hm]
        · have h0 := h.get 0 (by simp)
          have h1 := h.get 1 (by simp)
          have h2 := h.get 2 (by simp)
          have h3 := h.get 3 (by simp)
          have h4 := h.get 4 (by simp)
          simp only [List.cons_append, List.nil_append, List.getElem?_cons_zero, List.getElem?_cons_succ, Nat.add_zero] at h0 h1 h2 h3 h4
          apply reach_of_stepN 5
          simp [stepN, ChibiVerif.Ctl.step, h0, h1, h2, h3, h4, MState.next, MState.reg, MState.setReg, cmpFlags, MState.jump, hm', hl hm]
        · have h0 := h.get 0 (by simp)
          have h1 := h.get 1 (by simp)
          have h2 := h.get 2 (by simp)
          have h3 := h.get 3 (by simp)
          have h4 := h.get 4 (by simp)
          simp only [List.cons_append, List.nil_append, List.getElem?_cons_zero, List.getElem?_cons_succ, Nat.add_zero] at h0 h1 h2 h3 h4
          apply reach_of_stepN 5
          simp [stepN, ChibiVerif.Ctl.step, h0, h1, h2, h3, h4, MState.next, MState.reg, MState.setReg, cmpFlags, MState.jump, hm', hl hm]
        · have h0 := h.get 0 (by simp)
          have h1 := h.get 1 (by simp)
          have h2 := h.get 2 (by simp)
          have h3 := h.get 3 (by simp)
          have h4 := h.get 4 (by simp)
          have h5 := h.get 5 (by simp)
          simp only [List.cons_append, List.nil_append, List.getElem?_cons_zero, List.getElem?_cons_succ, Nat.add_zero] at h0 h1 h2 h3 h4 h5
          apply reach_of_stepN 6
          simp [stepN, ChibiVerif.Ctl.step, h0, h1, h2, h3, h4, h5, MState.next, MState.reg, MState.setReg, cmpFlags, MState.jump, hm', hl hm]
      · have hm' : ¬ (s.rax - e.lo ≤ e.hi - e.lo) := by simpa using hm
        by_cases hf : fits32 e.lo = true <;> by_cases hg : fits32 (e.hi - e.lo) = true <;>
          simp only [hf, hg, if_true, if_false] at h ⊢
        · have h0 := h.get 0 (by simp)
          have h1 := h.get 1 (by simp)
          have h2 := h.get 2 (by simp)
          have h3 := h.get 3 (by simp)
          simp only [List.cons_append, List.nil_append, List.getElem?_cons_zero, List.getElem?_cons_succ, Nat.add_zero] at h0 h1 h2 h3
          apply reach_of_stepN 4
          simp [stepN, ChibiVerif.Ctl.step, h0, h1, h2, h3, MState.next, MState.reg, MState.setReg, cmpFlags, MState.jump, hm']
        · have h0 := h.get 0 (by simp)
          have h1 := h.get 1 (by simp)
          have h2 := h.get 2 (by simp)
          have h3 := h.get 3 (by simp)
          have h4 := h.get 4 (by simp)
          simp only [List.cons_append, List.nil_append, List.getElem?_cons_zero, List.getElem?_cons_succ, Nat.add_zero] at h0 h1 h2 h3 h4
          apply reach_of_stepN 5
          simp [stepN, ChibiVerif.Ctl.step, h0, h1, h2, h3, h4, MState.next, MState.reg, MState.setReg, cmpFlags, MState.jump, hm']
        · have h0 := h.get 0 (by simp)
          have h1 := h.get 1 (by simp)
          have h2 := h.get 2 (by simp)
          have h3 := h.get 3 (by simp)
          have h4 := h.get 4 (by simp)
          simp only [List.cons_append, List.nil_append, List.getElem?_cons_zero, List.getElem?_cons_succ, Nat.add_zero] at h0 h1 h2 h3 h4
          apply reach_of_stepN 5
          simp [stepN, ChibiVerif.Ctl.step, h0, h1, h2, h3, h4, MState.next, MState.reg, MState.setReg, cmpFlags, MState.jump, hm']
        · have h0 := h.get 0 (by simp)
          have h1 := h.get 1 (by simp)
          have h2 := h.get 2 (by simp)
          have h3 := h.get 3 (by simp)
          have h4 := h.get 4 (by simp)
          have h5 := h.get 5 (by simp)
          simp only [List.cons_append, List.nil_append, List.getElem?_cons_zero, List.getElem?_cons_succ, Nat.add_zero] at h0 h1 h2 h3 h4 h5
          apply reach_of_stepN 6
          simp [stepN, ChibiVerif.Ctl.step, h0, h1, h2, h3, h4, h5, MState.next, MState.reg, MState.setReg, cmpFlags, MState.jump, hm']


/-- the whole ladder: control arrives at the label `selectLbl` chooses, %rax and the trace untouched -/
theorem ladder_run {ω : Nat → Val} {P : Prog} (w64 : Bool) (dflt : Option Nat) (brk q : Nat) :
    ∀ (cases : List CaseEnt) (s : MState), CodeAt P s.pc (ladder w64 cases dflt brk) →
      findLabel P (.u (selectLbl w64 s.rax cases dflt brk)) = some q →
      ∃ s', Reach ω P s s' ∧ s'.σ = s.σ ∧ s'.pc = q := by
  intro cases
  induction cases with
  | nil =>
    intro s h hl
    cases dflt with
    | none =>
      simp only [ladder, List.flatMap_nil, List.nil_append] at h
      simp only [selectLbl] at hl
      have h0 := h.head
      exact ⟨{ s with pc := q }, Reach.step (by simp [ChibiVerif.Ctl.step, h0, MState.jump, hl]), rfl, rfl⟩
    | some d =>
      simp only [ladder, List.flatMap_nil, List.nil_append] at h
      simp only [selectLbl] at hl
      have h0 := h.left.head
      exact ⟨{ s with pc := q }, Reach.step (by simp [ChibiVerif.Ctl.step, h0, MState.jump, hl]), rfl, rfl⟩
  | cons e r ih =>
    intro s h hl
    have hsplit : ladder w64 (e :: r) dflt brk = ladderEnt w64 e ++ ladder w64 r dflt brk := by
      simp [ladder, List.flatMap_cons, List.append_assoc]
    rw [hsplit] at h
    simp only [selectLbl] at hl
    obtain ⟨s1, r1, hrax, hσ, hpc⟩ := ladderEnt_run (ω := ω) w64 e s q h.left (by
      intro hm; simpa [hm] using hl)
    by_cases hm : entMatches w64 e s.rax = true
    · simp only [hm, if_true] at hpc
      exact ⟨s1, r1, hσ, hpc⟩
    · have hm' : entMatches w64 e s.rax = false := by simpa using hm
      simp only [hm', Bool.false_eq_true, if_false] at hpc hl
      have h2 := h.right
      rw [← hpc] at h2
      obtain ⟨s2, r2, hσ2, hpc2⟩ := ih s1 h2 (by rw [hrax]; simpa using hl)
      exact ⟨s2, r1.trans r2, by rw [hσ2, hσ], hpc2⟩

/-- `call in k` followed by the ladder -/
theorem Runs.switchHead {ω : Nat → Val} {P : Prog} {p q : Nat} {σ : SState} {k : Nat} (w64 : Bool)
    (cases : List CaseEnt) (dflt : Option Nat) (brk : Nat)
    (h : CodeAt P p ([.call (.inp k)] ++ ladder w64 cases dflt brk))
    (hl : findLabel P (.u (selectLbl w64 (σ.call ω (.inp k)).1 cases dflt brk)) = some q) :
    Runs ω P (p, σ) (q, (σ.call ω (.inp k)).2) := by
  intro s hp hs
  simp only at hp hs
  subst hp; subst hs
  have h0 := h.left.head
  have e1 : ChibiVerif.Ctl.step ω P s = some
      { pc := s.pc + 1, σ := (s.σ.call ω (.inp k)).2, rax := (s.σ.call ω (.inp k)).1, rdi := 0, rdx := 0,
        zf := false, be := false } := by
    simp [ChibiVerif.Ctl.step, h0, MState.next]
  have h2 := h.right
  simp only [List.length_singleton] at h2
  obtain ⟨s2, r2, hσ2, hpc2⟩ := ladder_run (ω := ω) w64 dflt brk q cases
    { pc := s.pc + 1, σ := (s.σ.call ω (.inp k)).2, rax := (s.σ.call ω (.inp k)).1, rdi := 0, rdx := 0,
      zf := false, be := false } h2 hl
  exact ⟨s2, (Reach.step e1).trans r2, hpc2, hσ2⟩

theorem Runs.testJne {ω : Nat → Val} {P : Prog} {p q : Nat} {σ : SState} {k : Nat} {l : Lbl}
    (h : CodeAt P p [.call (.c k), cmpZero, .jne l]) (hl : findLabel P l = some q) :
    Runs ω P (p, σ) (if truth (σ.call ω (.c k)).1 then q else p + 3, (σ.call ω (.c k)).2) := by
  intro s hp hs
  have h0 := h.get 0 (by simp)
  have h1 := h.get 1 (by simp)
  have h2 := h.get 2 (by simp)
  simp only [List.getElem?_cons_zero, List.getElem?_cons_succ, Nat.add_zero] at h0 h1 h2
  simp only at hp hs
  subst hp; subst hs
  have e2 := test_prefix (ω := ω) s h0 h1
  by_cases ht : truth (s.σ.call ω (.c k)).1 = true
  · have e3 := stepN_add ω P 2 1 _ _
      { pc := q, σ := (s.σ.call ω (.c k)).2, rax := (s.σ.call ω (.c k)).1, rdi := 0, rdx := 0,
        zf := !(truth (s.σ.call ω (.c k)).1), be := (cmpFlags false (s.σ.call ω (.c k)).1 0).2 } e2
      (by simp [stepN, ChibiVerif.Ctl.step, h2, ht, MState.jump, hl])
    exact ⟨_, ⟨3, e3⟩, by simp [ht], rfl⟩
  · have e3 := stepN_add ω P 2 1 _ _
      { pc := s.pc + 3, σ := (s.σ.call ω (.c k)).2, rax := (s.σ.call ω (.c k)).1, rdi := 0, rdx := 0,
        zf := !(truth (s.σ.call ω (.c k)).1), be := (cmpFlags false (s.σ.call ω (.c k)).1 0).2 } e2
      (by simp [stepN, ChibiVerif.Ctl.step, h2, ht, MState.next])
    exact ⟨_, ⟨3, e3⟩, by simp [ht], rfl⟩


/-! ### the arm test is the specification's `caseMatches` when the range is non-empty in the controlling type -/

theorem range64u (v lo hi : BitVec 64) (h : lo.toNat ≤ hi.toNat) :
    (v - lo ≤ hi - lo) ↔ (lo.toNat ≤ v.toNat ∧ v.toNat ≤ hi.toNat) := by bv_omega
theorem range64s (v lo hi : BitVec 64) (h : lo.toInt ≤ hi.toInt) :
    (v - lo ≤ hi - lo) ↔ (lo.toInt ≤ v.toInt ∧ v.toInt ≤ hi.toInt) := by
  simp only [BitVec.toInt_eq_toNat_cond] at *
  bv_omega
theorem range32u (v lo hi : BitVec 32) (h : lo.toNat ≤ hi.toNat) :
    (v - lo ≤ hi - lo) ↔ (lo.toNat ≤ v.toNat ∧ v.toNat ≤ hi.toNat) := by bv_omega
theorem range32s (v lo hi : BitVec 32) (h : lo.toInt ≤ hi.toInt) :
    (v - lo ≤ hi - lo) ↔ (lo.toInt ≤ v.toInt ∧ v.toInt ≤ hi.toInt) := by
  simp only [BitVec.toInt_eq_toNat_cond] at *
  bv_omega

theorem entMatches_spec (w u : Bool) (e : CaseEnt) (v : Val) (h : toT w u e.lo ≤ toT w u e.hi) :
    entMatches w e v = caseMatches w u e.lo e.hi v := by
  unfold entMatches caseMatches
  rw [Bool.eq_iff_iff]
  by_cases heq : e.lo = e.hi
  · simp only [heq, if_true, Bool.and_eq_true, decide_eq_true_eq]
    cases w <;> cases u <;> simp only [toT, Bool.false_eq_true, if_false, if_true, beq_iff_eq]
    · constructor
      · intro h1; rw [h1]; exact ⟨Int.le_refl _, Int.le_refl _⟩
      · intro ⟨h1, h2⟩; exact BitVec.eq_of_toInt_eq (Int.le_antisymm h2 h1)
    · constructor
      · intro h1; rw [h1]; exact ⟨Int.le_refl _, Int.le_refl _⟩
      · intro ⟨h1, h2⟩; exact BitVec.eq_of_toNat_eq (by omega)
    · constructor
      · intro h1; rw [h1]; exact ⟨Int.le_refl _, Int.le_refl _⟩
      · intro ⟨h1, h2⟩; exact BitVec.eq_of_toInt_eq (Int.le_antisymm h2 h1)
    · constructor
      · intro h1; rw [h1]; exact ⟨Int.le_refl _, Int.le_refl _⟩
      · intro ⟨h1, h2⟩; exact BitVec.eq_of_toNat_eq (by omega)
  · simp only [heq, if_false, Bool.and_eq_true, decide_eq_true_eq]
    cases w <;> cases u <;> simp only [toT, Bool.false_eq_true, if_false, if_true, decide_eq_true_eq] at h ⊢
    · rw [setWidth32_sub, setWidth32_sub]; exact range32s _ _ _ h
    · rw [setWidth32_sub, setWidth32_sub]
      have := range32u (v.setWidth 32) (e.lo.setWidth 32) (e.hi.setWidth 32) (by omega)
      rw [this]; omega
    · exact range64s _ _ _ h
    · have := range64u v e.lo e.hi (by omega)
      rw [this]; omega

end ChibiVerif.Ctl
