/-
C05, parser = specification: the declared object (`initializer` / `initFull`).
-/
import ChibiVerif.Lemmas.InitSimInit2

namespace ChibiVerif.InitSpec
open ChibiVerif.Init

/-- p14/p15 for the declared object: `= { "…" }` is `= "…"` -/
theorem initFull_bracedLit {ty : Ty} {r0 : List ITok} {tok1 : ITok} {r1 : List ITok} (hbl : bracedLit ty r0 = some (tok1, r1)) :
    initFull ty (.lbrace :: r0) = initFull ty (tok1 :: r1) := by
  unfold initFull
  simp only [hbl]
  unfold bracedLit at hbl
  split at hbl <;> first
    | cases hbl
    | (split at hbl
       · rename_i hc; cases hbl; simp only [chrFits_strFits hc, ↓reduceIte]
       · cases hbl)

/-- `parse_spec_subOk` for an initializer that does not start with `{` -/
theorem parse_spec_subOk_tok {f : Nat} {ty : Ty} {tok : ITok} {r0 : List ITok} {p : Init × List ITok} {r : Result}
    (ho : subOk ty = true) (hb : tok ≠ .lbrace)
    (hp : initializer2 f ty (tok :: r0) (newInit ty true) = .ok p) (hs : initFull ty (tok :: r0) = .ok r) :
    p.1 = r.obj ∧ p.2 = r.rest := by
  obtain ⟨c', rest⟩ := p
  rw [newInit_true_eq ty ho] at hp
  have hz : shaped ty (newInit ty false) = true := shaped_newInit ty ho
  have hne : hasExpr (newInit ty false) = false := hasExpr_newInit ty false
  cases f with
      | zero => cases hp
      | succ f =>
      cases ty with
      | inc => simp [subOk] at ho
      | scalar sz k =>
        rw [initializer2] at hp
        · obtain ⟨⟨ex, rest'⟩, hpa, hp⟩ := bind_eq_ok hp
          cases hp
          obtain ⟨tok', htoks, hte, _, _, _⟩ := parseAssign_ok hpa
          cases htoks
          unfold initFull at hs
          simp only [storeTok, hte] at hs
          cases tok <;> first | exact absurd rfl hb | (cases hs; exact ⟨rfl, rfl⟩)
        · intro r' hr'; cases hr'; exact hb rfl
      | struct ms sz fl0 =>
        rw [initializer2] at hp
        have hsb : startsBrace (tok :: r0) = false := by cases tok <;> first | exact absurd rfl hb | rfl
        simp only [hsb, Bool.false_eq_true, ↓reduceIte] at hp
        obtain ⟨⟨ex, rest'⟩, hpa, hp⟩ := bind_eq_ok hp
        obtain ⟨tok', htoks, hte, _, _, hkind⟩ := parseAssign_ok hpa
        cases htoks
        unfold initFull at hs
        cases tok with
        | expr e =>
          simp only at hs
          rcases hkind with ⟨e', he', rfl⟩ | ⟨hstr, _, _⟩
          · cases he'
            split at hs
            · rename_i hisS
              simp only [hisS, ↓reduceIte] at hp
              cases hs; cases hp
              rw [newInit_true_eq _ ho]
              exact ⟨rfl, rfl⟩
            · cases hs
          · simp [isStrTok] at hstr
        | _ => first | exact absurd rfl hb | cases hs
      | union ms sz fl0 =>
        rw [initializer2] at hp
        have hsb : startsBrace (tok :: r0) = false := by cases tok <;> first | exact absurd rfl hb | rfl
        simp only [hsb, Bool.false_eq_true, ↓reduceIte] at hp
        obtain ⟨⟨ex, rest'⟩, hpa, hp⟩ := bind_eq_ok hp
        obtain ⟨tok', htoks, hte, _, _, hkind⟩ := parseAssign_ok hpa
        cases htoks
        unfold initFull at hs
        cases tok with
        | expr e =>
          simp only at hs
          rcases hkind with ⟨e', he', rfl⟩ | ⟨hstr, _, _⟩
          · cases he'
            split at hs
            · rename_i hisU
              simp only [hisU, ↓reduceIte] at hp
              cases hs; cases hp
              rw [newInit_true_eq _ ho]
              exact ⟨rfl, rfl⟩
            · cases hs
          · simp [isStrTok] at hstr
        | _ => first | exact absurd rfl hb | cases hs
      | array elem len =>
        unfold initFull at hs
        cases tok with
        | str id bytes esz =>
          simp only at hs
          split at hs
          · rename_i hfit
            obtain ⟨v, hv, hs⟩ := bind_eq_ok hs
            cases hs
            have hint : elem.isInteger = true := by
              simp only [strFits, Bool.and_eq_true] at hfit; exact hfit.1
            rw [initializer2] at hp
            simp only [hint, ↓reduceIte] at hp
            obtain ⟨h1, _, h3, _⟩ := stringInitializer_spec hz hne hint hp
            simp only [storeTok] at hv
            have hg : growable (.array elem len) true [] = false := by simp [growable]
            rw [hg] at hv
            simp only [Bool.false_eq_true, ↓reduceIte] at hv
            rw [h3] at hv
            cases hv
            exact ⟨rfl, h1⟩
          · cases hs
        | _ => first | exact absurd rfl hb | cases hs


/-- **parser = 6.7.9** for every declared type without an array of unknown bound or flexible array member, every token list and
    every fuel: where both accept, outside the regions, they build the same tree and stop at the same token. -/
theorem parse_spec_subOk {f : Nat} {ty : Ty} {toks : List ITok} {p : Init × List ITok} {r : Result} (ho : subOk ty = true)
    (hp : initializer2 f ty toks (newInit ty true) = .ok p) (hs : initFull ty toks = .ok r) (hc : r.fl.clean = true) :
    p.1 = r.obj ∧ p.2 = r.rest := by
  cases toks with
  | nil => cases hs
  | cons tok r0 =>
    by_cases hb : tok = .lbrace
    · subst hb
      cases hbl : bracedLit ty r0 with
      | some tr =>
        obtain ⟨tok1, r1⟩ := tr
        rw [init2_bracedLit_eq _ hbl] at hp
        rw [initFull_bracedLit hbl] at hs
        exact parse_spec_subOk_tok ho (bracedLit_stops hbl).2 hp hs
      | none =>
        obtain ⟨c', rest⟩ := p
        rw [newInit_true_eq ty ho] at hp
        have hz : shaped ty (newInit ty false) = true := shaped_newInit ty ho
        have hne : hasExpr (newInit ty false) = false := hasExpr_newInit ty false
        obtain ⟨hs', hsim⟩ := braceSim_init2 ho hz hbl hp
        unfold initFull at hs
        simp only [hbl] at hs
        obtain ⟨res, hres, hs⟩ := bind_eq_ok hs
        cases hs
        rw [newInit_true_eq ty ho, unflex_shaped hz] at hres
        obtain ⟨h1, h2, h3⟩ := hsim hne true _ _ res hres hc
        exact ⟨h1.symm, h2.symm⟩
    · exact parse_spec_subOk_tok ho hb hp hs

end ChibiVerif.InitSpec
