/-
C13 — `get_struct_member` never dereferences a NULL `mem->name`: the instrumented double of Model/C13Sites.lean answers
for every type and every name, and finds a member exactly when the original `hasMember` (Model/Init.lean) does.
-/
import ChibiVerif.Model.C13Sites

namespace ChibiVerif.C13Sites
open ChibiVerif.Init

mutual
  theorem getStructMemberI_ok : ∀ (ty : Ty) (n : String), ∃ r, getStructMemberI ty n = .ok r ∧ r.isSome = hasMember ty n
    | .struct ms _ _, n => by
      obtain ⟨r, hr, hs⟩ := getStructMemberMsI_ok ms n 0
      exact ⟨r, by simp [getStructMemberI, hr], by simp [hasMember, hs]⟩
    | .union ms _ _, n => by
      obtain ⟨r, hr, hs⟩ := getStructMemberMsI_ok ms n 0
      exact ⟨r, by simp [getStructMemberI, hr], by simp [hasMember, hs]⟩
    | .scalar _ _, _ => ⟨none, rfl, rfl⟩
    | .array _ _, _ => ⟨none, rfl, rfl⟩
    | .inc _, _ => ⟨none, rfl, rfl⟩
  theorem getStructMemberMsI_ok : ∀ (ms : Members) (n : String) (i : Nat),
      ∃ r, getStructMemberMsI ms n i = .ok r ∧ r.isSome = hasMemberMs ms n
    | [], _, _ => ⟨none, rfl, rfl⟩
    | (mi, t) :: rest, n, i => by
      obtain ⟨r1, hr1, hs1⟩ := getStructMemberMsI_ok rest n (i + 1)
      by_cases ha : (t.isAgg && mi.name.isNone) = true
      · obtain ⟨r0, hr0, hs0⟩ := getStructMemberI_ok t n
        cases r0 with
        | some k =>
          refine ⟨some i, by simp [getStructMemberMsI, ha, hr0], ?_⟩
          simp only [Option.isSome_some] at hs0
          simp [hasMemberMs, ha, ← hs0]
        | none =>
          refine ⟨r1, by simp [getStructMemberMsI, ha, hr0, hr1], ?_⟩
          simp only [Option.isSome_none] at hs0
          simp [hasMemberMs, ha, ← hs0, hs1]
      · cases hn : mi.name with
        | none =>
          have hagg : t.isAgg = false := by simpa [hn] using ha
          exact ⟨r1, by simp [getStructMemberMsI, hagg, hn, hr1], by simp [hasMemberMs, hagg, hn, hs1]⟩
        | some m =>
          by_cases hm : m = n
          · exact ⟨some i, by simp [getStructMemberMsI, hn, hm], by simp [hasMemberMs, hn, hm]⟩
          · exact ⟨r1, by simp [getStructMemberMsI, hn, hm, hr1], by simp [hasMemberMs, hn, hm, hs1]⟩
end

end ChibiVerif.C13Sites
