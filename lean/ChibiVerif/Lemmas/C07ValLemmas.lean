/- Pure facts about `Spec.Fpu.Val` (what a floating datum denotes) used by the floating half of C07: two spellings m·2^e of
   one number (`Val.same`) have the same integral part, the same zero-ness and compare alike; an integer-valued datum is zero
   iff its integer is. -/
import ChibiVerif.Spec.FpuSpec

namespace ChibiVerif.Spec.Fpu
namespace Val

/-- m·2^(e−E) for E ≤ e -/
def sc (m : Nat) (e E : Int) : Nat := m * 2 ^ (e - E).toNat

theorem scaled_false (m : Nat) (e E : Int) : scaled false m e E = (sc m e E : Int) := by simp [scaled, sc]
theorem scaled_true (m : Nat) (e E : Int) : scaled true m e E = -(sc m e E : Int) := by simp [scaled, sc]

theorem sc_lower (m : Nat) (e E E' : Int) (h1 : E ≤ E') (h2 : E' ≤ e) : sc m e E = sc m e E' * 2 ^ (E' - E).toNat := by
  unfold sc
  rw [Nat.mul_assoc, ← Nat.pow_add]
  congr 2
  omega

theorem scaled_lower (n : Bool) (m : Nat) (e E E' : Int) (h1 : E ≤ E') (h2 : E' ≤ e) :
    scaled n m e E = scaled n m e E' * ((2 ^ (E' - E).toNat : Nat) : Int) := by
  cases n
  · rw [scaled_false, scaled_false, sc_lower m e E E' h1 h2]; simp
  · rw [scaled_true, scaled_true, sc_lower m e E E' h1 h2]; simp [Int.neg_mul]

/-- comparison of two finite values at a common exponent `E` below both -/
def cmpAt (E : Int) (n1 : Bool) (m1 : Nat) (e1 : Int) (n2 : Bool) (m2 : Nat) (e2 : Int) : Rel :=
  let a := scaled n1 m1 e1 E
  let b := scaled n2 m2 e2 E
  if a < b then .lt else if a = b then .eq else .gt

theorem cmp_fin (n1 : Bool) (m1 : Nat) (e1 : Int) (n2 : Bool) (m2 : Nat) (e2 : Int) :
    cmp (.fin n1 m1 e1) (.fin n2 m2 e2) = cmpAt (min e1 e2) n1 m1 e1 n2 m2 e2 := rfl

theorem cmpAt_lower (E E' : Int) (n1 : Bool) (m1 : Nat) (e1 : Int) (n2 : Bool) (m2 : Nat) (e2 : Int)
    (h : E ≤ E') (h1 : E' ≤ e1) (h2 : E' ≤ e2) : cmpAt E n1 m1 e1 n2 m2 e2 = cmpAt E' n1 m1 e1 n2 m2 e2 := by
  unfold cmpAt
  simp only
  rw [scaled_lower n1 m1 e1 E E' h h1, scaled_lower n2 m2 e2 E E' h h2]
  have hc : (0 : Int) < ((2 ^ (E' - E).toNat : Nat) : Int) := by
    have := Nat.two_pow_pos (E' - E).toNat
    omega
  generalize scaled n1 m1 e1 E' = a
  generalize scaled n2 m2 e2 E' = b
  generalize ((2 ^ (E' - E).toNat : Nat) : Int) = c at hc
  have h1 : a * c < b * c ↔ a < b := Int.mul_lt_mul_right hc
  have h2 : a * c = b * c ↔ a = b := by
    constructor
    · intro h; exact Int.eq_of_mul_eq_mul_right (by omega) h
    · intro h; rw [h]
  by_cases hl : a < b
  · simp [hl, h1.2 hl]
  · have hl' : ¬ a * c < b * c := fun x => hl (h1.1 x)
    by_cases he : a = b
    · simp [hl, hl', he]
    · have he' : ¬ a * c = b * c := fun x => he (h2.1 x)
      simp [hl, hl', he, he']

/-- two spellings of one finite number scale to the same integer at every exponent below both -/
theorem same_sc {n1 n2 : Bool} {m1 m2 : Nat} {e1 e2 : Int} (h : same (.fin n1 m1 e1) (.fin n2 m2 e2) = true) (E : Int)
    (h1 : E ≤ e1) (h2 : E ≤ e2) : n1 = n2 ∧ sc m1 e1 E = sc m2 e2 E := by
  simp only [same, Bool.and_eq_true, beq_iff_eq] at h
  refine ⟨h.1, ?_⟩
  have hs := h.2
  rw [scaled_false, scaled_false] at hs
  have hs : sc m1 e1 (min e1 e2) = sc m2 e2 (min e1 e2) := by exact_mod_cast hs
  rw [sc_lower m1 e1 E (min e1 e2) (by omega) (by omega), sc_lower m2 e2 E (min e1 e2) (by omega) (by omega), hs]

theorem same_scaled {n1 n2 : Bool} {m1 m2 : Nat} {e1 e2 : Int} (h : same (.fin n1 m1 e1) (.fin n2 m2 e2) = true) (E : Int)
    (h1 : E ≤ e1) (h2 : E ≤ e2) : scaled n1 m1 e1 E = scaled n2 m2 e2 E := by
  obtain ⟨hn, hs⟩ := same_sc h E h1 h2
  subst hn
  cases n1
  · rw [scaled_false, scaled_false, hs]
  · rw [scaled_true, scaled_true, hs]

theorem cmp_same_left {a a' : Val} (h : same a a' = true) (b : Val) : cmp a b = cmp a' b := by
  cases a with
  | nan => cases a' <;> simp_all [same, cmp]
  | inf s =>
    cases a' with
    | inf s' => simp only [same, beq_iff_eq] at h; subst h; rfl
    | _ => simp [same] at h
  | fin n1 m1 e1 =>
    cases a' with
    | fin n2 m2 e2 =>
      cases b with
      | nan => rfl
      | inf t => rfl
      | fin n3 m3 e3 =>
        rw [cmp_fin, cmp_fin]
        rw [← cmpAt_lower (min (min e1 e2) e3) (min e1 e3) _ _ _ _ _ _ (by omega) (by omega) (by omega)]
        rw [← cmpAt_lower (min (min e1 e2) e3) (min e2 e3) _ _ _ _ _ _ (by omega) (by omega) (by omega)]
        unfold cmpAt
        rw [same_scaled h (min (min e1 e2) e3) (by omega) (by omega)]
    | _ => simp [same] at h

theorem same_symm {a b : Val} (h : same a b = true) : same b a = true := by
  cases a with
  | nan => cases b <;> simp_all [same]
  | inf s => cases b <;> simp_all [same]
  | fin n1 m1 e1 =>
    cases b with
    | fin n2 m2 e2 =>
      simp only [same, Bool.and_eq_true, beq_iff_eq] at h ⊢
      refine ⟨h.1.symm, ?_⟩
      rw [Int.min_comm e2 e1]; exact h.2.symm
    | _ => simp [same] at h

theorem cmp_same {a a' b b' : Val} (ha : same a a' = true) (hb : same b b' = true) : cmp a b = cmp a' b' := by
  rw [cmp_same_left ha b, cmp_swap a' b, cmp_same_left hb a', ← cmp_swap]

theorem same_isZero {a b : Val} (h : same a b = true) : a.isZero = b.isZero := by
  cases a with
  | fin n1 m1 e1 =>
    cases b with
    | fin n2 m2 e2 =>
      have hs := (same_sc h (min e1 e2) (by omega) (by omega)).2
      unfold sc at hs
      have p1 := Nat.two_pow_pos (e1 - min e1 e2).toNat
      have p2 := Nat.two_pow_pos (e2 - min e1 e2).toNat
      cases m1 with
      | zero =>
        cases m2 with
        | zero => rfl
        | succ k =>
          exfalso
          rw [Nat.zero_mul] at hs
          have : 0 < (k + 1) * 2 ^ (e2 - min e1 e2).toNat := Nat.mul_pos (by omega) p2
          omega
      | succ k =>
        cases m2 with
        | zero =>
          exfalso
          rw [Nat.zero_mul] at hs
          have : 0 < (k + 1) * 2 ^ (e1 - min e1 e2).toNat := Nat.mul_pos (by omega) p1
          omega
        | succ j => rfl
    | _ => simp [same] at h
  | nan => cases b <;> simp_all [same, isZero]
  | inf s => cases b <;> simp_all [same, isZero]

theorem same_isNaN {a b : Val} (h : same a b = true) : a.isNaN = b.isNaN := by
  cases a <;> cases b <;> simp_all [same, isNaN]

/-- the integral part computed at any exponent `E ≤ min e 0` -/
theorem magTrunc_sc (m : Nat) (e E : Int) (h1 : E ≤ e) (h2 : E ≤ 0) : magTrunc m e = sc m e E / 2 ^ (-E).toNat := by
  unfold magTrunc sc
  split
  · rename_i he
    have : (e - E).toNat = e.toNat + (-E).toNat := by omega
    rw [this, Nat.pow_add, ← Nat.mul_assoc, Nat.mul_div_cancel _ (Nat.two_pow_pos _)]
  · rename_i he
    have : (-E).toNat = (e - E).toNat + (-e).toNat := by omega
    rw [this, Nat.pow_add, Nat.mul_comm m, Nat.mul_div_mul_left _ _ (Nat.two_pow_pos _)]

theorem same_trunc {a b : Val} (h : same a b = true) : a.trunc? = b.trunc? := by
  cases a with
  | fin n1 m1 e1 =>
    cases b with
    | fin n2 m2 e2 =>
      obtain ⟨hn, hs⟩ := same_sc h (min (min e1 e2) 0) (by omega) (by omega)
      subst hn
      simp only [trunc?]
      rw [magTrunc_sc m1 e1 (min (min e1 e2) 0) (by omega) (by omega),
          magTrunc_sc m2 e2 (min (min e1 e2) 0) (by omega) (by omega), hs]
    | _ => simp [same] at h
  | nan => cases b <;> simp_all [same, trunc?]
  | inf s => cases b <;> simp_all [same, trunc?]

/-- a datum that denotes the integer `k` is a zero exactly when `k = 0`, and is not a NaN -/
theorem toInt_zero_iff {v : Val} {k : Int} (h : v.toInt? = some k) : (v.isZero = true ↔ k = 0) ∧ v.isNaN = false := by
  cases v with
  | fin n m e =>
    refine ⟨?_, rfl⟩
    simp only [toInt?] at h
    split at h
    · rename_i hc
      cases h
      constructor
      · intro hz
        have : m = 0 := by cases m <;> simp_all [isZero]
        subst this
        simp [magTrunc]
      · intro hk
        have hm : magTrunc m e = 0 := by
          cases n <;> simp at hk <;> omega
        unfold magTrunc at hm
        have hm0 : m = 0 := by
          split at hm
          · have := Nat.two_pow_pos e.toNat
            rcases Nat.mul_eq_zero.1 hm with h | h
            · exact h
            · omega
          · rename_i he
            rcases hc with hc | hc
            · omega
            · have := Nat.div_add_mod m (2 ^ (-e).toNat)
              rw [hm, hc] at this
              simpa using this.symm
        subst hm0; rfl
    · cases h
  | nan => simp [toInt?] at h
  | inf s => simp [toInt?] at h

theorem toInt_zero_form {v : Val} (h : v.toInt? = some 0) : ∃ n e, v = .fin n 0 e := by
  have hz := (toInt_zero_iff h).1.2 rfl
  cases v with
  | fin n m e => cases m with
    | zero => exact ⟨n, e, rfl⟩
    | succ k => simp [isZero] at hz
  | nan => simp [toInt?] at h
  | inf s => simp [toInt?] at h

/-- a datum that denotes an integer has that integer as its integral part -/
theorem toInt_trunc {v : Val} {k : Int} (h : v.toInt? = some k) : v.trunc? = some k := by
  cases v with
  | fin n m e =>
    simp only [toInt?] at h
    split at h
    · exact h
    · cases h
  | nan => simp [toInt?] at h
  | inf s => simp [toInt?] at h

end Val

/-- an integer of at most 64 bits is a 64-bit-significand number already -/
theorem roundNat_64 (n : Nat) (h : n < 2 ^ 64) : roundNat 64 n = n := by
  have hl : bitLen n ≤ 64 := by
    unfold bitLen
    split
    · omega
    · rename_i hn
      have := (Nat.log2_lt hn).2 h
      omega
  simp [roundNat, roundQS, hl]

theorem roundInt_64 (v : Int) (h : v.natAbs < 2 ^ 64) : roundInt 64 v = v := by
  unfold roundInt
  rw [roundNat_64 _ h]
  split <;> omega

end ChibiVerif.Spec.Fpu
