/-
Helper lemmas for C06_va_partial: the va_area set-up of the variadic prologue leaves gp_offset / fp_offset /
overflow_arg_area where the psABI state after the named parameters is, and the three `va_arg` walkers then follow the
psABI's placement argument by argument.
-/
import ChibiVerif.Lemmas.PsABILemmas

namespace ChibiVerif.CallConv
open ChibiVerif.Spec.PsABI
open ChibiVerif.Spec.CallRegions
open ChibiVerif.Gen.Templates (GP_MAX FP_MAX)

theorem va_step (t : ATy) (ogp ofp top off : Nat) (hok : aggSizeOk t = true) (hinv : alignTo top 8 = 16 + off) :
    vaCountStep (min ogp GP_MAX, min ofp FP_MAX, 16 + off) t (offsetStep (ogp, ofp, top) t).2 =
      (min (refStep (ogp, ofp, off) t).1.1 GP_MAX, min (refStep (ogp, ofp, off) t).1.2.1 FP_MAX, 16 + (refStep (ogp, ofp, off) t).1.2.2) := by
  unfold alignTo at hinv
  cases t with
  | int sz u b =>
    simp only [aggSizeOk, Bool.and_eq_true, decide_eq_true_eq] at hok
    simp only [offsetStep, vaCountStep, refStep, GP_MAX_eq, FP_MAX_eq, ATy.size, alignTo]
    by_cases h : ogp < 6
    · simp [h]; omega
    · simp [h]; omega
  | flt =>
    simp only [offsetStep, vaCountStep, refStep, GP_MAX_eq, FP_MAX_eq, ATy.size, alignTo]
    by_cases h : ofp < 8
    · simp [h]; omega
    · simp [h]; omega
  | dbl =>
    simp only [offsetStep, vaCountStep, refStep, GP_MAX_eq, FP_MAX_eq, ATy.size, alignTo]
    by_cases h : ofp < 8
    · simp [h]; omega
    · simp [h]; omega
  | ldbl => simp [offsetStep, vaCountStep, refStep, ATy.size, alignTo]; omega
  | arr e n => simp [aggSizeOk] at hok
  | agg u sz al ms =>
    have hmin := structInRegs_min (.agg u sz al ms) ogp ofp
    by_cases hz : sz = 0
    · subst hz
      simp [offsetStep, vaCountStep, refStep, ATy.size, structInRegs]
    have hpos0 : 0 < sz := by omega
    simp only [offsetStep, vaCountStep, refStep, pushSlots, ATy.size, alignTo]
    by_cases h16 : sz ≤ 16
    · simp only [h16, if_true, true_and]
      cases hok' : (structInRegs (.agg u sz al ms) ogp ofp).1
      · simp; omega
      · obtain ⟨hpos, _, _⟩ := aggSizeOk_agg hok h16 hpos0
        simp only [↓reduceIte]
        simp only [structInRegs, ATy.size, b2n, GP_MAX_eq, FP_MAX_eq, hz, if_false] at hok' ⊢
        by_cases e1 : hasFlonum1 (.agg u sz al ms) = true <;> by_cases e2 : hasFlonum2 (.agg u sz al ms) = true <;>
          by_cases h8 : sz > 8 <;> simp [e1, e2, h8] at hok' ⊢ <;> omega
    · simp [h16]; omega


theorem va_count (ts : List ATy) : ∀ (ogp ofp top off : Nat), ts.all aggSizeOk = true → alignTo top 8 = 16 + off →
    vaCountLoop (min ogp GP_MAX, min ofp FP_MAX, 16 + off) ts (offsetLoop (ogp, ofp, top) ts).2 =
      (min (refLoop (ogp, ofp, off) ts).1.1 GP_MAX, min (refLoop (ogp, ofp, off) ts).1.2.1 FP_MAX,
       16 + (refLoop (ogp, ofp, off) ts).1.2.2) := by
  induction ts with
  | nil => intro _ _ _ _ _ _; rfl
  | cons t ts ih =>
    intro ogp ofp top off hok hinv
    simp only [List.all_cons, Bool.and_eq_true] at hok
    obtain ⟨h1, h2, h3, _, _⟩ := callee_step t ogp ofp top off hok.1 hinv
    rw [offsetLoop_cons, refLoop_cons]
    simp only [vaCountLoop]
    rw [va_step t ogp ofp top off hok.1 hinv]
    have ho : (offsetStep (ogp, ofp, top) t).1 =
        ((refStep (ogp, ofp, off) t).1.1, (refStep (ogp, ofp, off) t).1.2.1, (offsetStep (ogp, ofp, top) t).1.2.2) :=
      Prod.ext h1 (Prod.ext h2 rfl)
    have hr : (refStep (ogp, ofp, off) t).1 =
        ((refStep (ogp, ofp, off) t).1.1, (refStep (ogp, ofp, off) t).1.2.1, (refStep (ogp, ofp, off) t).1.2.2) := rfl
    rw [ho, hr]
    exact ih _ _ _ _ hok.2 h3

/-- the variadic prologue leaves the va_elem where the single pass over the named parameters ends -/
theorem vaInit_eq (s : Sig) (h : s.params.all aggSizeOk = true) :
    vaInit s = { gpOffset := min (refLoop (b2n (retLarge s.ret), 0, 0) s.named).1.1 GP_MAX * 8,
                 fpOffset := min (refLoop (b2n (retLarge s.ret), 0, 0) s.named).1.2.1 FP_MAX * 16 + 48,
                 overflow := (refLoop (b2n (retLarge s.ret), 0, 0) s.named).1.2.2 } := by
  have hn : s.named.all aggSizeOk = true := all_take _ _ _ h
  have hall : (calleeParams s).all aggSizeOk = true := by
    simp only [calleeParams]
    cases retLarge s.ret <;> simp [hn, aggSizeOk]
  have h16 : alignTo 16 8 = 16 + 0 := by decide
  have hc := va_count (calleeParams s) 0 0 16 0 hall h16
  have hm0 : min 0 GP_MAX = 0 := by simp
  have hm1 : min 0 FP_MAX = 0 := by simp
  rw [hm0, hm1] at hc
  simp only [vaInit, calleeOffsets]
  rw [show (16 : Nat) = 16 + 0 from rfl, hc]
  cases hl : retLarge s.ret
  · simp [calleeParams, hl, b2n]
  · simp [calleeParams, hl, b2n, refLoop_cons, refStep, GP_MAX_eq]


/-- variadic argument types whose `va_arg` is claimed: promoted integers and pointers, double, long double, aggregates of
    more than 16 bytes with alignment at most 8 or exactly 16.  (Aggregates of at most 16 bytes: known finding
    C06-va-arg-small-struct.) -/
def vaArgOk : ATy → Bool
  | .int sz _ _ => sz == 4 || sz == 8
  | .dbl => true
  | .ldbl => true
  | .agg _ sz al _ => decide (sz > 16) && (decide (al ≤ 8) || decide (al = 16))
  | _ => false

theorem vaWalk_cons (st : VaState) (t : ATy) (ts : List ATy) :
    vaWalk st (t :: ts) = (vaArg st t).2 :: vaWalk (vaArg st t).1 ts := rfl

/-- one `va_arg` against one step of the psABI's pass.  `g`, `f` registers of each kind are taken, `off` bytes of stack -/
theorem va_arg_step (t : ATy) (g f off : Nat) (hg : g ≤ 6) (hf : f ≤ 8) (h8 : off % 8 = 0) (hok : vaArgOk t = true) :
    (assignStep (g, f, off) t).1.1 ≤ 6 ∧ (assignStep (g, f, off) t).1.2.1 ≤ 8 ∧ (assignStep (g, f, off) t).1.2.2 % 8 = 0 ∧
    (vaArg { gpOffset := 8 * g, fpOffset := 48 + 16 * f, overflow := off } t).1
      = { gpOffset := 8 * (assignStep (g, f, off) t).1.1, fpOffset := 48 + 16 * (assignStep (g, f, off) t).1.2.1,
          overflow := (assignStep (g, f, off) t).1.2.2 } ∧
    some (vaArg { gpOffset := 8 * g, fpOffset := 48 + 16 * f, overflow := off } t).2 = vaLoc (assignStep (g, f, off) t).2 := by
  cases t with
  | int sz u b =>
    simp only [vaArgOk, Bool.or_eq_true, beq_iff_eq] at hok
    simp only [assignStep, classify, scalarClasses, inMemory, countClass, regPieces, roundUp, vaArg, regClass, vaArgMem,
      ATy.size, ATy.align]
    simp
    have hm : max 8 sz = 8 := by omega
    rw [hm]
    by_cases h : g ≤ 5
    · have c1 : g ≤ 5 ∧ f ≤ 8 := ⟨h, hf⟩
      have c2 : ¬ (48 ≤ 8 * g) := by omega
      rw [if_pos c1, if_neg c2]
      refine ⟨by simp; omega, by simp; omega, by simp; omega, ?_, ?_⟩
      · simp; omega
      · simp [vaLoc]
    · have c1 : ¬ (g ≤ 5 ∧ f ≤ 8) := by omega
      have c2 : 48 ≤ 8 * g := by omega
      rw [if_neg c1, if_pos c2]
      have c3 : ¬ (8 < sz) := by omega
      simp only [c3, if_false]
      refine ⟨hg, hf, by omega, ?_, ?_⟩
      · simp; omega
      · simp [vaLoc]; omega
  | flt => simp [vaArgOk] at hok
  | dbl =>
    simp only [assignStep, classify, scalarClasses, inMemory, countClass, regPieces, roundUp, vaArg, regClass, vaArgMem,
      ATy.size, ATy.align]
    simp
    by_cases h : f ≤ 7
    · have c1 : g ≤ 6 ∧ f ≤ 7 := ⟨hg, h⟩
      have c2 : ¬ (176 ≤ 48 + 16 * f) := by omega
      rw [if_pos c1, if_neg c2]
      refine ⟨by simp; omega, by simp; omega, by simp; omega, ?_, ?_⟩
      · simp; omega
      · simp [vaLoc]
    · have c1 : ¬ (g ≤ 6 ∧ f ≤ 7) := by omega
      have c2 : 176 ≤ 48 + 16 * f := by omega
      rw [if_neg c1, if_pos c2]
      dsimp only
      refine ⟨hg, hf, by omega, ?_, ?_⟩
      · simp; omega
      · simp [vaLoc]; omega
  | ldbl =>
    simp only [assignStep, classify, scalarClasses, inMemory, countClass, regPieces, roundUp, vaArg, regClass, vaArgMem,
      ATy.size, ATy.align]
    simp
    refine ⟨hg, hf, by omega, ?_, ?_⟩
    · omega
    · simp [vaLoc]
  | arr e n => simp [vaArgOk] at hok
  | agg u sz al ms =>
    simp only [vaArgOk, Bool.and_eq_true, Bool.or_eq_true, decide_eq_true_eq] at hok
    have hcl := classify_big (u := u) (al := al) (ms := ms) hok.1
    simp only [assignStep, hcl, inMemory, roundUp, vaArg, regClass, vaArgMem, ATy.size, ATy.align]
    simp
    rcases hok.2 with ha | ha
    · have hm : max 8 al = 8 := by omega
      have c : ¬ (8 < al) := by omega
      rw [hm]
      simp only [c, if_false]
      refine ⟨hg, hf, by omega, ?_, ?_⟩
      · simp; omega
      · simp [vaLoc]; omega
    · subst ha
      simp
      refine ⟨hg, hf, by omega, ?_, ?_⟩
      · omega
      · simp [vaLoc]


/-- **every `va_arg` finds its argument where the psABI put it**, by induction over the variadic arguments with
    (gp_offset, fp_offset, overflow_arg_area) ~ (INTEGER registers used, SSE registers used, stack bytes used) as invariant -/
theorem va_walk (ts : List ATy) : ∀ (g f off : Nat), g ≤ 6 → f ≤ 8 → off % 8 = 0 → ts.all vaArgOk = true →
    (vaWalk { gpOffset := 8 * g, fpOffset := 48 + 16 * f, overflow := off } ts).map some
      = (assignLoop (g, f, off) ts).2.map vaLoc := by
  induction ts with
  | nil => intro _ _ _ _ _ _ _; rfl
  | cons t ts ih =>
    intro g f off hg hf h8 hok
    simp only [List.all_cons, Bool.and_eq_true] at hok
    obtain ⟨h1, h2, h3, h4, h5⟩ := va_arg_step t g f off hg hf h8 hok.1
    rw [vaWalk_cons, assignLoop_cons]
    simp only [List.map_cons]
    rw [h5, h4]
    have hr : (assignStep (g, f, off) t).1 =
        ((assignStep (g, f, off) t).1.1, (assignStep (g, f, off) t).1.2.1, (assignStep (g, f, off) t).1.2.2) := rfl
    rw [hr, ih _ _ _ h1 h2 h3 hok.2]

theorem assignLoop_append (xs ys : List ATy) : ∀ st,
    (assignLoop st (xs ++ ys)).2 = (assignLoop st xs).2 ++ (assignLoop (assignLoop st xs).1 ys).2 := by
  induction xs with
  | nil => intro st; rfl
  | cons x xs ih => intro st; simp only [List.cons_append, assignLoop_cons, ih, List.cons_append]

theorem assignLoop_length (xs : List ATy) : ∀ st, (assignLoop st xs).2.length = xs.length := by
  induction xs with
  | nil => intro st; rfl
  | cons x xs ih => intro st; simp only [assignLoop_cons, List.length_cons, ih]

theorem refLoop_fst_bounds (ts : List ATy) : ∀ (gp fp off : Nat), off % 8 = 0 → (refLoop (gp, fp, off) ts).1.2.2 % 8 = 0 := by
  induction ts with
  | nil => intro _ _ _ h; exact h
  | cons t ts ih =>
    intro gp fp off h
    rw [refLoop_cons]
    have hr : (refStep (gp, fp, off) t).1 =
        ((refStep (gp, fp, off) t).1.1, (refStep (gp, fp, off) t).1.2.1, (refStep (gp, fp, off) t).1.2.2) := rfl
    rw [hr]
    apply ih
    cases t <;> simp only [refStep] <;> (try split) <;> (try simp) <;> omega

end ChibiVerif.CallConv
